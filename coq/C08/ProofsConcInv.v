(* C08 — concurrent layer: the reachable-state invariant of the interleaving model (1 reader,
   1 writer or several writers under the write lock, any schedule, any kill point), from which
   follow: no uncovered plain read under sufficient memory orders, no overlap, delivered is a
   prefix of committed (whole messages, exact length and bytes), crash safety. *)
From MV Require Import C08.Model C08.ModelConc C08.ProofsSeq C08.ProofsConc.
Local Open Scope Z_scope.

Ltac csimpl := cbn [c_n c_locked c_nw c_tries c_kill c_w c_wstamp c_r c_lock c_lstamp c_crem c_hN c_hC c_body
  c_ver c_gver c_wdone c_committed c_unread c_delivered c_uncov c_overlap c_rd c_wr
  set_rd set_wr set_wcur set_rcur set_lock set_crem set_wdone set_data set_ghost
  set_rc c_repoch c_rver c_rstamp c_lrstamp c_wrseen c_rrace
  r_pc r_done r_seen w_pc w_script w_tries w_pend w_seen w_ev wset wset_pend wset_seen w_next_msg fst snd] in *.

Definition mline (m : Z * Z * Z) : Z := fst (fst m).
Definition mnb (m : Z * Z * Z) : Z := snd (fst m).
Definition mtag (m : Z * Z * Z) : Z := snd m.
Definition mneed (m : Z * Z * Z) : Z := cal_cachelines (mnb m).

Fixpoint ctiles (a : Z) (q : list (Z * Z * Z)) (b : Z) : Prop :=
  match q with
  | [] => a = b
  | m :: q' => mline m = a /\ 1 <= mnb m /\ ctiles (a + mneed m) q' b
  end.

Lemma ctiles_le a q b : ctiles a q b -> a <= b.
Proof.
  revert a. induction q as [|m q IH]; simpl; intros a H; [lia|].
  destruct H as (_ & Hn & H). apply IH in H. pose proof (cal_bounds _ Hn). unfold mneed in *. lia.
Qed.
Lemma ctiles_eq_nil a q : ctiles a q a -> q = [].
Proof.
  destruct q as [|m q]; simpl; [reflexivity|]. intros (_ & Hn & H).
  apply ctiles_le in H. pose proof (cal_bounds _ Hn). unfold mneed in *. lia.
Qed.
Lemma ctiles_app a q b m : ctiles a q b -> mline m = b -> 1 <= mnb m -> ctiles a (q ++ [m]) (b + mneed m).
Proof.
  revert a. induction q as [|x q IH]; simpl; intros a H E Hn.
  - subst. repeat split; auto.
  - destruct H as (A & B & C). repeat split; auto.
Qed.
Lemma ctiles_in a q b m : ctiles a q b -> In m q -> a <= mline m /\ mline m + mneed m <= b /\ 1 <= mnb m.
Proof.
  revert a. induction q as [|x q IH]; simpl; intros a H Hin; [contradiction|].
  destruct H as (A & B & C). destruct Hin as [->|Hin].
  - apply ctiles_le in C. lia.
  - destruct (IH _ C Hin) as (D & E & F). pose proof (cal_bounds _ B). unfold mneed in *. lia.
Qed.

Lemma pay_end_eq l nb : 1 <= nb -> pay_end l nb = l + cal_cachelines nb - 2.
Proof.
  intros H. unfold pay_end, cal_cachelines, CL, HDR.
  replace (8 + nb + (64 - 1)) with ((8 + nb - 1) + 1 * 64) by lia.
  rewrite Z.div_add by lia. lia.
Qed.

(* ---- the invariant ---- *)
Definition mok (s : csys) (m : Z * Z * Z) : Prop :=
  1 <= mnb m < 2147483648 /\ c_hN s (mline m) = mnb m /\ c_hC s (mline m) = mneed m /\
  c_body s (mline m) = mtag m /\
  forall i, mline m <= i < mline m + mneed m - 2 -> (c_ver s i <= c_wstamp s)%nat.

Definition cshape (s : csys) : Prop :=
  (c_r s <= c_w s /\ ctiles (c_r s) (c_unread s) (c_w s)) \/
  (c_w s < c_r s /\ exists U1 U2 p, c_unread s = U1 ++ U2 /\ ctiles (c_r s) U1 p /\ p <= c_n s - 1 /\
     c_hN s p = 0 /\ (c_ver s p <= c_wstamp s)%nat /\ ctiles 0 U2 (c_w s)).

(* k contiguous lines are free at the write cursor (and one more stays free) *)
Definition room (s : csys) (k : Z) : Prop :=
  (c_r s <= c_w s /\ c_w s + k <= c_n s - 1) \/ (c_w s < c_r s /\ c_w s + k <= c_r s - 1).
Definition crem_ok (s : csys) : Prop := 0 <= c_crem s /\ room s (c_crem s).

Definition vis (s : csys) (seen : nat) (m : Z * Z * Z) : Prop :=
  forall i, mline m <= i < mline m + mneed m - 2 -> (c_ver s i <= seen)%nat.
Definition head_at (s : csys) (l : Z) : Prop :=
  exists m rest, c_unread s = m :: rest /\ mline m = l /\ vis s (r_seen (c_rd s)) m.
Definition mark_at (s : csys) (w_obs : Z) : Prop :=
  c_w s < c_r s /\ c_hN s (c_r s) = 0 /\ (c_ver s (c_r s) <= r_seen (c_rd s))%nat /\
  ctiles 0 (c_unread s) (c_w s) /\ (w_obs <> 0 -> head_at s 0).

Definition RK (s : csys) : Prop :=
  match r_pc (c_rd s) with
  | RSegFetch w_obs => w_obs <> c_r s -> head_at s (c_r s) \/ mark_at s w_obs
  | RStoreWrap => c_w s < c_r s /\ ctiles 0 (c_unread s) (c_w s) /\ head_at s 0
  | RSegFetch2 => c_r s = 0 /\ head_at s 0
  | RStoreMove v => exists m rest, c_unread s = m :: rest /\ mline m = c_r s /\ v = c_r s + mneed m
  | _ => True
  end.

Definition active (p : wpc) : bool :=
  match p with
  | WSegAlloc | WLoadR | WSegUpd _ | WStoreWrap _ | WSegWrapped _ | WStoreCommit _ _ | WSegC _ | WClear _ _ => true
  | _ => false
  end.

Definition WK (s : csys) (x : wthread) : Prop :=
  match w_pc x with
  | WSegAlloc | WLoadR | WSegC _ | WClear _ _ => crem_ok s
  | WSegUpd r_obs =>
    crem_ok s /\ 0 <= r_obs <= c_n s - 1 /\
    (c_w s < r_obs -> (c_w s < c_r s /\ r_obs <= c_r s) \/ c_r s <= c_w s) /\
    (r_obs <= c_w s -> c_r s <= c_w s /\ r_obs <= c_r s)
  | WStoreWrap lft =>
    c_r s <= c_w s /\ lft + 1 <= c_r s /\ c_hN s (c_w s) = 0 /\
    exists nb tag rest, w_script x = (nb, tag) :: rest /\ cal_cachelines nb <= lft
  | WSegWrapped lft => c_w s = 0 /\ 0 <= lft /\ room s lft
  | WStoreCommit a need =>
    a = c_w s /\ 0 <= c_crem s /\ room s (c_crem s + need) /\
    exists nb tag rest, w_script x = (nb, tag) :: rest /\ need = cal_cachelines nb /\
      c_hN s a = nb /\ c_hC s a = need /\ c_body s a = tag
  | _ => True
  end.

Definition inflight (s : csys) : list (Z * Z * Z) :=
  match r_pc (c_rd s) with RStoreMove _ => firstn 1 (c_unread s) | _ => [] end.
Definition idle (p : wpc) : Prop :=
  match p with WSeg0 | WTas | WSegY | WYield | WSegT | WSegFull | WRetry => True | _ => False end.
Definition nbvalid (m : Z * Z) : Prop := 1 <= fst m < 2147483648.

Record CInv (n : Z) (s : csys) : Prop := {
  g_n : c_n s = n;
  g_w : 0 <= c_w s <= n - 1;
  g_r : 0 <= c_r s <= n - 1;
  g_shape : cshape s;
  g_mok : Forall (mok s) (c_unread s);
  g_ver : forall i, (c_ver s i <= c_gver s)%nat;
  g_ghost : exists pre, c_committed s = pre ++ c_unread s /\ c_delivered s = pre ++ inflight s;
  g_uncov : c_uncov s = 0%nat;
  g_overlap : c_overlap s = 0%nat;
  g_lockv : c_lock s = 0 \/ c_lock s = 1;
  g_lstamp : c_locked s = true -> c_lock s = 0 -> c_lstamp s = c_gver s;
  g_lstle : (c_lstamp s <= c_gver s)%nat;
  g_crem : (if c_locked s then c_lock s = 0 else idle (w_pc (c_wr s 1%nat))) -> crem_ok s;
  g_act1 : forall t, active (w_pc (c_wr s t)) = true -> if c_locked s then c_lock s = 1 else t = 1%nat;
  g_act2 : forall t u, active (w_pc (c_wr s t)) = true -> active (w_pc (c_wr s u)) = true -> t = u;
  g_seen : forall t, (w_seen (c_wr s t) <= c_gver s)%nat;
  g_view : forall t, active (w_pc (c_wr s t)) = true \/ (c_locked s = false /\ t = 1%nat) ->
                     w_seen (c_wr s t) = c_gver s;
  g_script : forall t, Forall nbvalid (w_script (c_wr s t));
  g_rk : RK s;
  g_wk : forall t, WK s (c_wr s t);
}.

(* ---- initial state ---- *)
Lemma nth_valid (scripts : list (list (Z * Z))) k :
  Forall (Forall nbvalid) scripts -> Forall nbvalid (nth k scripts []).
Proof.
  intros H. destruct (Nat.lt_ge_cases k (length scripts)) as [L|L].
  - rewrite Forall_forall in H. apply H. apply nth_In. exact L.
  - rewrite nth_overflow by exact L. constructor.
Qed.

Lemma cinit_inv n locked tries kill scripts : 1 <= n < 2147483648 ->
  Forall (Forall nbvalid) scripts -> CInv n (cinit n locked tries kill scripts).
Proof.
  intros Hn Hs. unfold cinit.
  constructor; csimpl; auto; try lia.
  - left. csimpl. simpl. lia.
  - exists []. split; reflexivity.
  - intros _. split; csimpl; [lia|]. left. csimpl. lia.
  - intros t H. discriminate.
  - intros t u H. discriminate.
  - intros t. apply nth_valid. exact Hs.
  - exact I.
  - intros t. exact I.
Qed.

(* ---- where the unread messages are: outside [w, w + k] whenever k lines are free ---- *)
Lemma free_lines s k m : cshape s -> room s k -> 0 <= k -> 0 <= c_w s -> In m (c_unread s) ->
  mline m + mneed m <= c_w s \/ c_w s + k + 1 <= mline m.
Proof.
  intros [(A & T)|(A & U1 & U2 & p & E & T1 & P & M & V & T2)] [(B & C)|(B & C)] Hk Hw Hin; try lia.
  - destruct (ctiles_in _ _ _ _ T Hin) as (D & F & G). lia.
  - rewrite E in Hin. apply in_app_or in Hin as [Hin|Hin].
    + destruct (ctiles_in _ _ _ _ T1 Hin) as (D & F & G). lia.
    + destruct (ctiles_in _ _ _ _ T2 Hin) as (D & F & G). lia.
Qed.

(* the reader's cursor moves forward inside its stretch, or wraps from the marker to 0 *)
Definition radv (s : csys) (v : Z) : Prop :=
  0 <= v <= c_n s - 1 /\ c_r s <= c_n s - 1 /\ 0 <= c_w s /\
  ((c_r s <= c_w s /\ c_r s <= v <= c_w s) \/ (c_w s < c_r s /\ (c_r s <= v \/ v = 0))).

Lemma room_radv s v k : radv s v -> room s k -> room (set_rcur s v) k.
Proof. unfold radv, room. csimpl. intros H R. lia. Qed.

Lemma WK_radv s v x : radv s v -> WK s x -> WK (set_rcur s v) x.
Proof.
  intros H K. pose proof (room_radv s v) as RR. unfold WK, crem_ok in *. csimpl.
  destruct (w_pc x); auto; csimpl.
  - destruct K as (K1 & K2). split; auto.
  - destruct K as (K1 & K2). split; auto.
  - destruct K as ((K1 & K2) & K3 & K4 & K5). split; [split; auto|]. unfold radv in H. split; [lia|]. split; lia.
  - destruct K as (K1 & K2 & K3 & K4). unfold radv in H. repeat split; auto; lia.
  - destruct K as (K1 & K2 & K3). repeat split; auto.
  - destruct K as (K1 & K2 & K3 & K4). repeat split; auto.
  - destruct K as (K1 & K2). split; auto.
  - destruct K as (K1 & K2). split; auto.
Qed.

(* ---- reader steps ---- *)
Lemma inv_set_rd n s x' : CInv n s -> RK (set_rd s x') -> inflight (set_rd s x') = inflight s ->
  CInv n (set_rd s x').
Proof.
  intros [] K F. constructor; auto.
  destruct g_ghost0 as (pre & A & B). exists pre. split; [exact A|]. rewrite F. exact B.
Qed.

Lemma covered_true s seen a b : (forall i, a <= i < b -> (c_ver s i <= seen)%nat) -> covered s seen a b = true.
Proof.
  intros H. unfold covered. apply forallb_forall. intros i Hi. apply in_seq in Hi.
  apply Nat.leb_le. apply H. lia.
Qed.

Lemma head_mok s l m rest : Forall (mok s) (c_unread s) -> c_unread s = m :: rest -> mline m = l ->
  1 <= mnb m < 2147483648 /\ c_hN s l = mnb m /\ c_hC s l = mneed m /\ c_body s l = mtag m.
Proof.
  intros F E L. rewrite E in F. inversion F as [|? ? Ok _]; subst. destruct Ok as (A & B & C & D & _). auto.
Qed.

(* what the reader learns from an acquire load of write_cursor *)
Lemma load_knowledge n s seen' : CInv n s -> (c_wstamp s <= seen')%nat -> c_w s <> c_r s ->
  let s' := set_rd s {| r_pc := RSegFetch (c_w s); r_done := r_done (c_rd s); r_seen := seen' |} in
  head_at s' (c_r s) \/ mark_at s' (c_w s).
Proof.
  intros [] Hs Hne. cbv zeta.
  assert (Hv : forall m, In m (c_unread s) -> vis s seen' m).
  { intros m Hin. rewrite Forall_forall in g_mok0. destruct (g_mok0 m Hin) as (_ & _ & _ & _ & V).
    intros i Hi. specialize (V i Hi). lia. }
  destruct g_shape0 as [(A & T)|(A & U1 & U2 & p & E & T1 & P & M & V & T2)].
  - left. destruct (c_unread s) as [|m rest] eqn:EU; [simpl in T; lia|]. simpl in T. destruct T as (L & _).
    exists m, rest. unfold vis in *. csimpl. repeat split; auto. apply Hv. left; reflexivity.
  - destruct U1 as [|m U1'].
    + right. simpl in T1. subst p. simpl in E. unfold mark_at, head_at, vis in *. csimpl.
      repeat split; auto; try lia.
      * rewrite E. exact T2.
      * intros W0. destruct U2 as [|m rest]; [simpl in T2; lia|]. simpl in T2. destruct T2 as (L & _).
        exists m, rest. repeat split; auto. apply Hv. rewrite E. left; reflexivity.
    + left. simpl in T1. destruct T1 as (L & _). exists m, (U1' ++ U2). unfold vis in *. csimpl.
      repeat split; auto. apply Hv. rewrite E. left; reflexivity.
Qed.

(* a reader step that moves read_cursor to v and replaces the ghost lists *)
Lemma inv_reader_move n s v U' del' x' :
  let s'' := set_rd (set_ghost (set_rcur s v) (c_committed s) U' del' (c_uncov s)) x' in
  CInv n s -> radv s v -> cshape s'' -> Forall (mok s) U' ->
  (exists pre, c_committed s = pre ++ U' /\ del' = pre ++ inflight s'') -> RK s'' -> CInv n s''.
Proof.
  intros s'' I Ha Hs Hm Hg Hk. pose proof I as I0. destruct I. subst s''.
  assert (Hv : 0 <= v <= n - 1) by (unfold radv in Ha; lia).
  constructor; csimpl; auto.
  - intros C. specialize (g_crem0 C). destruct g_crem0 as (C1 & C2). split; csimpl; auto.
    apply (room_radv s v _ Ha C2).
  - intros t. apply (WK_radv s v _ Ha (g_wk0 t)).
Qed.

Lemma u32_small x : 0 <= x < 4294967296 -> u32 x = x.
Proof. apply u32_id. Qed.

(* delivering the message whose header is at line l = head of the unread list *)
Lemma got_inv n s l m rest : 1 <= n < 2147483648 ->
  CInv n s -> c_unread s = m :: rest -> mline m = l -> l = c_r s -> vis s (r_seen (c_rd s)) m ->
  inflight s = [] ->
  CInv n (fst (r_got s (c_rd s) l)).
Proof.
  intros Hn I EU L Lr V Fl. pose proof I as I0. destruct I.
  destruct (head_mok s l m rest g_mok0 EU L) as (N1 & N2 & N3 & N4).
  pose proof (cal_bounds _ (proj1 N1)) as (K1 & K2 & K3). pose proof (cal_lt _ N1) as K4. fold (mneed m) in K1, K2, K3, K4.
  unfold r_got. rewrite N2, N3, N4.
  rewrite covered_true; [|intros i Hi; apply V; rewrite pay_end_eq in Hi by lia; fold (mneed m) in Hi; lia].
  csimpl. rewrite u32_small by lia.
  set (x' := {| r_pc := RStoreMove (c_r s + mneed m); r_done := r_done (c_rd s); r_seen := r_seen (c_rd s) |}).
  destruct g_ghost0 as (pre & G1 & G2). rewrite Fl, app_nil_r in G2.
  constructor; csimpl; auto.
  - exists pre. split; [exact G1|]. unfold inflight. csimpl. rewrite EU. simpl. rewrite G2.
    destruct m as [[l0 nb0] tag0]. unfold mline, mnb, mtag in *. simpl in *. subst. reflexivity.
  - unfold RK. csimpl. exists m, rest. repeat split; auto. lia.
Qed.

Lemma rstep_inv P n s s' l : 1 <= n < 2147483648 -> is_acq (mo_r_load_w P) = true ->
  CInv n s -> rstep P s = Some (s', l) -> CInv n s'.
Proof.
  intros Hn Ma I H. unfold rstep in H. pose proof (g_rk n s I) as K. unfold RK in K.
  assert (Fl : forall p, r_pc (c_rd s) = p -> (forall v, p <> RStoreMove v) -> inflight s = []).
  { intros p E Np. unfold inflight. rewrite E. destruct p; auto. exfalso. eapply Np; reflexivity. }
  destruct (r_pc (c_rd s)) eqn:Epc.
  - (* RSeg0 *)
    inversion H; subst; clear H. apply inv_set_rd; [exact I|exact Logic.I|].
    unfold inflight. csimpl. rewrite Epc. reflexivity.
  - (* RLoadW *)
    inversion H; subst; clear H. apply inv_set_rd; [exact I| |].
    + unfold RK. csimpl. intros Hne. apply (load_knowledge n s _ I); auto.
      unfold acq_join. rewrite Ma. lia.
    + unfold inflight. csimpl. rewrite Epc. reflexivity.
  - (* RSegFetch *)
    assert (F0 : inflight s = []) by (apply (Fl _ eq_refl); discriminate).
    assert (Hnull : forall s1 l1, r_null s (c_rd s) = (s1, l1) -> CInv n s1).
    { intros s1 l1 E. unfold r_null in E. destruct (r_done (c_rd s)); inversion E; subst;
        (apply inv_set_rd; [exact I|exact Logic.I|unfold inflight; csimpl; rewrite Epc; reflexivity]). }
    destruct (Z.eqb_spec w_obs (c_r s)) as [E|E].
    + inversion H as [H1]. eapply Hnull. exact H1.
    + destruct (K E) as [(m & rest & EU & L & V)|(M1 & M2 & M3 & M4 & M5)].
      * destruct (head_mok s _ m rest (g_mok n s I) EU L) as (N1 & N2 & N3 & N4).
        pose proof (cal_bounds _ (proj1 N1)) as (K1 & K2 & K3). fold (mneed m) in K1, K2, K3.
        assert (C : Nat.leb (c_ver s (c_r s)) (r_seen (c_rd s)) = true).
        { apply Nat.leb_le. apply V. lia. }
        rewrite C in H. rewrite N2 in H.
        replace (mnb m =? 0) with false in H by (symmetry; apply Z.eqb_neq; lia).
        cbn [negb] in H.
        pose proof (got_inv n s (c_r s) m rest Hn I EU L eq_refl V F0) as G.
        destruct (r_got s (c_rd s) (c_r s)) as [s1 l1]. inversion H; subst. exact G.
      * assert (C : Nat.leb (c_ver s (c_r s)) (r_seen (c_rd s)) = true) by (apply Nat.leb_le; exact M3).
        rewrite C, M2 in H. cbn [negb Z.eqb] in H.
        destruct (Z.eqb_spec w_obs 0) as [W0|W0].
        -- inversion H as [H1]. eapply Hnull. exact H1.
        -- inversion H; subst; clear H. apply inv_set_rd; [exact I| |].
           ++ unfold RK. csimpl. repeat split; auto.
           ++ unfold inflight. csimpl. rewrite Epc. reflexivity.
  - (* RStoreWrap *)
    destruct K as (K1 & K2 & (m & rest & EU & L & V)).
    inversion H; subst; clear H.
    pose proof I as I0. destruct I0.
    change (set_rd (set_rcur s 0) {| r_pc := RSegFetch2; r_done := r_done (c_rd s); r_seen := r_seen (c_rd s) |})
      with (set_rd (set_ghost (set_rcur s 0) (c_committed s) (c_unread s) (c_delivered s) (c_uncov s))
                   {| r_pc := RSegFetch2; r_done := r_done (c_rd s); r_seen := r_seen (c_rd s) |}).
    apply inv_reader_move; auto.
    + unfold radv. lia.
    + left. csimpl. split; [lia|exact K2].
    + destruct g_ghost0 as (pre & G1 & G2). exists pre. split; [exact G1|].
      rewrite G2. unfold inflight. csimpl. rewrite Epc. reflexivity.
    + unfold RK. csimpl. split; [reflexivity|]. exists m, rest. auto.
  - (* RSegFetch2 *)
    destruct K as (R0 & (m & rest & EU & L & V)).
    assert (F0 : inflight s = []) by (apply (Fl _ eq_refl); discriminate).
    destruct (head_mok s _ m rest (g_mok n s I) EU L) as (N1 & N2 & N3 & N4).
    pose proof (cal_bounds _ (proj1 N1)) as (K1 & K2 & K3). fold (mneed m) in K1, K2, K3.
    assert (C : Nat.leb (c_ver s 0) (r_seen (c_rd s)) = true).
    { apply Nat.leb_le. apply V. lia. }
    rewrite C, N2 in H.
    replace (mnb m =? 0) with false in H by (symmetry; apply Z.eqb_neq; lia).
    cbn [negb] in H.
    pose proof (got_inv n s 0 m rest Hn I EU L (eq_sym R0) V F0) as G.
    destruct (r_got s (c_rd s) 0) as [s1 l1]. inversion H; subst. exact G.
  - (* RStoreMove *)
    destruct K as (m & rest & EU & L & Ev).
    inversion H; subst; clear H.
    pose proof I as I0. destruct I0.
    destruct (head_mok s _ m rest g_mok0 EU L) as (N1 & N2 & N3 & N4).
    pose proof (cal_bounds _ (proj1 N1)) as (K1 & K2 & K3). fold (mneed m) in K1, K2, K3.
    assert (Hsh : (c_r s <= c_w s /\ ctiles (c_r s + mneed m) rest (c_w s)) \/
                  (c_w s < c_r s /\ exists U1' U2 p, rest = U1' ++ U2 /\ ctiles (c_r s + mneed m) U1' p /\ p <= c_n s - 1 /\
                     c_hN s p = 0 /\ (c_ver s p <= c_wstamp s)%nat /\ ctiles 0 U2 (c_w s))).
    { destruct g_shape0 as [(A & T)|(A & U1 & U2 & p & E & T1 & Pp & M & V & T2)].
      - left. rewrite EU in T. simpl in T. tauto.
      - right. split; [exact A|]. destruct U1 as [|x U1'].
        + simpl in E. rewrite EU in E. subst U2. simpl in T2. lia.
        + rewrite EU in E. simpl in E. inversion E; subst. simpl in T1. exists U1', U2, p. tauto. }
    apply inv_reader_move; auto.
    + unfold radv. destruct Hsh as [(A & T)|(A & U1' & U2 & p & E & T1 & Pp & M & V & T2)].
      * pose proof (ctiles_le _ _ _ T). lia.
      * pose proof (ctiles_le _ _ _ T1). lia.
    + rewrite EU. destruct Hsh as [(A & T)|(A & U1' & U2 & p & E & T1 & Pp & M & V & T2)].
      * left. csimpl. pose proof (ctiles_le _ _ _ T). split; [lia|exact T].
      * right. csimpl. pose proof (ctiles_le _ _ _ T1). split; [lia|]. exists U1', U2, p. tauto.
    + rewrite EU in g_mok0. rewrite EU. inversion g_mok0; auto.
    + destruct g_ghost0 as (pre & G1 & G2). exists (pre ++ [m]).
      unfold inflight in G2. rewrite Epc, EU in G2. simpl in G2. rewrite EU in G1. rewrite EU. simpl.
      split.
      * rewrite G1, <- app_assoc. reflexivity.
      * unfold inflight. csimpl. rewrite app_nil_r. exact G2.
    + exact Logic.I.
  - (* RIdle *)
    inversion H; subst; clear H. apply inv_set_rd; [exact I|exact Logic.I|].
    unfold inflight. csimpl. rewrite Epc. reflexivity.
  - (* RFin *)
    inversion H; subst; clear H. apply inv_set_rd; [exact I|exact Logic.I|].
    unfold inflight. csimpl. rewrite Epc. reflexivity.
  - discriminate.
Qed.

(* ---- writer steps ---- *)
(* the part of the invariant that does not mention the writer threads *)
Record GInv (n : Z) (s : csys) : Prop := {
  gg_n : c_n s = n;
  gg_w : 0 <= c_w s <= n - 1;
  gg_r : 0 <= c_r s <= n - 1;
  gg_shape : cshape s;
  gg_mok : Forall (mok s) (c_unread s);
  gg_ver : forall i, (c_ver s i <= c_gver s)%nat;
  gg_ghost : exists pre, c_committed s = pre ++ c_unread s /\ c_delivered s = pre ++ inflight s;
  gg_uncov : c_uncov s = 0%nat;
  gg_overlap : c_overlap s = 0%nat;
  gg_lockv : c_lock s = 0 \/ c_lock s = 1;
  gg_lstamp : c_locked s = true -> c_lock s = 0 -> c_lstamp s = c_gver s;
  gg_lstle : (c_lstamp s <= c_gver s)%nat;
  gg_rk : RK s;
}.
Lemma ginv_of n s : CInv n s -> GInv n s.
Proof. intros []. constructor; auto. Qed.

Lemma WK_inactive s x : active (w_pc x) = false -> WK s x.
Proof. unfold WK. destruct (w_pc x); simpl; intros H; try discriminate; exact I. Qed.

(* a step of writer t while every other writer is inactive (t holds the lock, or the ring is in
   single-writer mode): the global part is re-established by the caller *)
Lemma inv_writer_step n s s' t x' :
  CInv n s -> GInv n s' ->
  (forall u, c_wr s' u = if Nat.eqb u t then x' else c_wr s u) -> c_locked s' = c_locked s ->
  (c_locked s = false -> t = 1%nat) ->
  (forall u, u <> t -> active (w_pc (c_wr s u)) = false) ->
  (c_gver s <= c_gver s')%nat ->
  ((if c_locked s then c_lock s' = 0 else idle (w_pc x')) -> crem_ok s') ->
  (active (w_pc x') = true -> c_locked s = true -> c_lock s' = 1) ->
  (w_seen x' <= c_gver s')%nat ->
  (active (w_pc x') = true \/ c_locked s = false -> w_seen x' = c_gver s') ->
  Forall nbvalid (w_script x') -> WK s' x' -> CInv n s'.
Proof.
  intros I G Ew El Ht Hoth Hgv Hcr Hact Hseen Hview Hscr Hwk. destruct G. pose proof I as I0. destruct I.
  pose proof Ew as Hpc.
  constructor; auto.
  - rewrite El. destruct (c_locked s) eqn:EL; [exact Hcr|].
    rewrite Hpc. rewrite (Ht eq_refl). simpl. exact Hcr.
  - intros u Hu. rewrite Hpc in Hu. rewrite El. destruct (Nat.eqb_spec u t) as [Eq|Ne].
    + destruct (c_locked s) eqn:EL; [apply Hact; auto|rewrite Eq; apply Ht; reflexivity].
    + rewrite (Hoth u Ne) in Hu. discriminate.
  - intros u v Hu Hv. rewrite Hpc in Hu, Hv.
    destruct (Nat.eqb_spec u t) as [Eu|Ne]; destruct (Nat.eqb_spec v t) as [Ev|Ne']; [congruence| | |].
    + rewrite (Hoth v Ne') in Hv. discriminate.
    + rewrite (Hoth u Ne) in Hu. discriminate.
    + rewrite (Hoth u Ne) in Hu. discriminate.
  - intros u. rewrite Hpc. destruct (Nat.eqb_spec u t); [exact Hseen|]. specialize (g_seen0 u). lia.
  - intros u Hu. rewrite (Hpc u) in Hu. rewrite (Hpc u). rewrite El in Hu. destruct (Nat.eqb_spec u t) as [Eq|Ne].
    + apply Hview. tauto.
    + destruct Hu as [Hu|(Hl & Hu1)].
      * rewrite (Hoth u Ne) in Hu. discriminate.
      * exfalso. apply Ne. rewrite Hu1. symmetry. apply Ht. exact Hl.
  - intros u. rewrite Hpc. destruct (Nat.eqb_spec u t); auto.
  - intros u. rewrite Hpc. destruct (Nat.eqb_spec u t) as [->|Ne]; [exact Hwk|].
    apply WK_inactive. apply Hoth. exact Ne.
Qed.

(* a step of writer t that touches nothing but its own thread state and ends in an inactive pc *)
Lemma inv_local n s t x' :
  CInv n s -> active (w_pc x') = false ->
  (w_seen x' <= c_gver s)%nat ->
  (c_locked s = false -> t = 1%nat -> w_seen x' = c_gver s /\ (idle (w_pc x') -> crem_ok s)) ->
  Forall nbvalid (w_script x') -> CInv n (set_wr s t x').
Proof.
  intros I Hin Hseen Hunl Hscr. pose proof I as I0. destruct I.
  assert (Hpc : forall u, c_wr (set_wr s t x') u = if Nat.eqb u t then x' else c_wr s u).
  { intros u. csimpl. unfold upd. reflexivity. }
  constructor; auto; csimpl.
  - destruct (c_locked s) eqn:EL; [exact g_crem0|]. unfold upd.
    destruct (Nat.eqb_spec 1%nat t) as [Eq|Ne]; [|exact g_crem0]. intros Hi. apply (proj2 (Hunl eq_refl (eq_sym Eq))). exact Hi.
  - intros u Hu. unfold upd in Hu. destruct (Nat.eqb_spec u t) as [Eq|Ne]; [rewrite Hin in Hu; discriminate|].
    apply g_act3. exact Hu.
  - intros u v Hu Hv. unfold upd in Hu, Hv.
    destruct (Nat.eqb_spec u t) as [Eq|Ne]; [rewrite Hin in Hu; discriminate|].
    destruct (Nat.eqb_spec v t) as [Eq'|Ne']; [rewrite Hin in Hv; discriminate|]. apply g_act4; auto.
  - intros u. unfold upd. destruct (Nat.eqb_spec u t); auto.
  - intros u Hu. unfold upd in *. destruct (Nat.eqb_spec u t) as [Eq|Ne].
    + destruct Hu as [Hu|(Hl & Hu1)]; [rewrite Hin in Hu; discriminate|].
      apply (proj1 (Hunl Hl ltac:(congruence))).
    + apply g_view0. exact Hu.
  - intros u. unfold upd. destruct (Nat.eqb_spec u t); auto.
  - intros u. unfold upd. destruct (Nat.eqb_spec u t) as [Eq|Ne]; [apply WK_inactive; exact Hin|].
    exact (g_wk0 u).
Qed.

Lemma inv_set_wdone n s d : CInv n s -> CInv n (set_wdone s d).
Proof. intros []. constructor; auto. Qed.

(* -- global effects of the active writer -- *)
Lemma mok_frame s s1 m :
  mok s m -> c_wstamp s1 = c_wstamp s ->
  (forall i, mline m <= i < mline m + mneed m -> c_hN s1 i = c_hN s i /\ c_hC s1 i = c_hC s i /\
      c_body s1 i = c_body s i /\ c_ver s1 i = c_ver s i) -> mok s1 m.
Proof.
  intros (A & B & C & D & E) Hs F. pose proof (cal_bounds _ (proj1 A)) as (K1 & _). fold (mneed m) in K1.
  destruct (F (mline m) ltac:(lia)) as (F1 & F2 & F3 & F4).
  unfold mok. rewrite F1, F2, F3, Hs. repeat split; auto; try lia.
  intros i Hi. destruct (F i ltac:(lia)) as (_ & _ & _ & G). rewrite G. apply E. exact Hi.
Qed.

Lemma vis_frame s s1 seen m :
  vis s seen m -> (forall i, mline m <= i < mline m + mneed m -> c_ver s1 i = c_ver s i) -> vis s1 seen m.
Proof. intros V F i Hi. rewrite F by lia. apply V. exact Hi. Qed.

(* a plain write of the writer confined to lines [w, b), b <= w + k + 1, while k lines are free *)
Lemma ginv_data n s hN' hC' body' ver' k b :
  GInv n s -> room s k -> 0 <= k -> c_w s < b <= c_w s + k + 1 ->
  (c_locked s = true -> c_lock s = 1) ->
  (forall i, i < c_w s \/ b <= i -> hN' i = c_hN s i /\ hC' i = c_hC s i /\ body' i = c_body s i /\ ver' i = c_ver s i) ->
  (forall i, (ver' i <= S (c_gver s))%nat) ->
  GInv n (set_data s hN' hC' body' ver' (S (c_gver s)) (c_overlap s)).
Proof.
  intros G Hroom Hk Hb Hlk Hfr Hver. pose proof G as G0. destruct G.
  set (s1 := set_data s hN' hC' body' ver' (S (c_gver s)) (c_overlap s)).
  assert (Hout : forall m, In m (c_unread s) -> forall i, mline m <= i < mline m + mneed m -> i < c_w s \/ b <= i).
  { intros m Hin i Hi. destruct (free_lines s k m gg_shape0 Hroom Hk (proj1 gg_w0) Hin); lia. }
  assert (Hmokf : forall m, In m (c_unread s) -> mok s m -> mok s1 m).
  { intros m Hin Hm. apply (mok_frame s s1 m Hm); [reflexivity|]. intros i Hi. subst s1. csimpl.
    apply Hfr. apply (Hout m Hin i Hi). }
  assert (Hvisf : forall m seen, In m (c_unread s) -> vis s seen m -> vis s1 seen m).
  { intros m seen Hin Hv. apply (vis_frame s s1 seen m Hv). intros i Hi. subst s1. csimpl.
    apply Hfr. apply (Hout m Hin i Hi). }
  assert (Hhead : forall l, head_at s l -> head_at s1 l).
  { intros l (m & rest & EU & L & V). exists m, rest. subst s1. csimpl. repeat split; auto.
    apply (Hvisf m _); [rewrite EU; left; reflexivity|exact V]. }
  constructor; subst s1; csimpl; auto.
  - (* shape *)
    destruct gg_shape0 as [(A & T)|(A & U1 & U2 & p & E & T1 & Pp & M & V & T2)]; [left; csimpl; auto|].
    right. csimpl. split; [exact A|]. exists U1, U2, p.
    pose proof (ctiles_le _ _ _ T1). destruct Hroom as [(B & _)|(_ & C)]; [lia|].
    destruct (Hfr p ltac:(lia)) as (F1 & _ & _ & F4). rewrite F1, F4. repeat split; auto.
  - (* messages *)
    apply Forall_forall. intros m Hin. rewrite Forall_forall in gg_mok0. apply (Hmokf m Hin). apply gg_mok0. exact Hin.
  - intros C D. specialize (Hlk C). lia.
  - (* reader's knowledge *)
    unfold RK in *. csimpl. destruct (r_pc (c_rd s)); auto.
    + intros Hne. destruct (gg_rk0 Hne) as [H|(M1 & M2 & M3 & M4 & M5)]; [left; apply (Hhead _ H)|].
      right. unfold mark_at. csimpl. destruct Hroom as [(B & _)|(_ & C)]; [lia|].
      destruct (Hfr (c_r s) ltac:(lia)) as (F1 & _ & _ & F4). rewrite F1, F4. repeat split; auto; try (intros W; apply (Hhead _ (M5 W))).
    + destruct gg_rk0 as (K1 & K2 & K3). repeat split; auto; try apply (Hhead _ K3).
    + destruct gg_rk0 as (K1 & K2). split; auto; try apply (Hhead _ K2).
Qed.

Lemma touches_free s k b : cshape s -> room s k -> 0 <= k -> 0 <= c_w s -> b <= c_w s + k + 1 ->
  touches (c_unread s) (c_w s) b = false.
Proof.
  intros Hs Hr Hk Hw Hb. unfold touches. apply not_true_is_false. intros H.
  apply existsb_exists in H. destruct H as (m & Hin & H). destruct m as [[l nb] tag].
  apply andb_prop in H as [H1 H2]. apply Z.ltb_lt in H1. apply Z.ltb_lt in H2.
  destruct (free_lines s k (l, nb, tag) Hs Hr Hk Hw Hin) as [F|F]; unfold mline, mneed, mnb in F; simpl in F; lia.
Qed.

(* the wrap store: write_cursor := 0 with the marker already at the old position *)
Lemma ginv_wrap n s : GInv n s -> c_r s <= c_w s -> 4 <= c_r s -> c_hN s (c_w s) = 0 ->
  GInv n (set_wcur s 0 (c_gver s)).
Proof.
  intros G A R4 M. pose proof G as G0. destruct G.
  assert (Hhead : forall l, head_at s l -> head_at (set_wcur s 0 (c_gver s)) l).
  { intros l (m & rest & EU & L & V). exists m, rest. csimpl. auto. }
  constructor; csimpl; auto; try lia.
  - destruct gg_shape0 as [(_ & T)|(B & _)]; [|lia]. right. csimpl. split; [lia|].
    exists (c_unread s), [], (c_w s). rewrite app_nil_r. simpl. repeat split; auto; try lia; try apply gg_ver0.
  - apply Forall_forall. intros m Hin. rewrite Forall_forall in gg_mok0. destruct (gg_mok0 m Hin) as (B & C & D & E & F).
    unfold mok. csimpl. repeat split; auto; try lia; try (intros i Hi; apply gg_ver0).
  - unfold RK in *. csimpl. destruct (r_pc (c_rd s)); auto; try (destruct gg_rk0 as (K1 & _); lia).
    intros Hne. destruct (gg_rk0 Hne) as [H|(M1 & _)]; [left; apply (Hhead _ H)|lia].
Qed.

(* the commit store: write_cursor += need, the message joins the unread list *)
Lemma ginv_commit n s nb tag need :
  let m := (c_w s, nb, tag) in
  GInv n s -> need = cal_cachelines nb -> 1 <= nb < 2147483648 -> room s need ->
  c_hN s (c_w s) = nb -> c_hC s (c_w s) = need -> c_body s (c_w s) = tag ->
  GInv n (set_ghost (set_wcur s (c_w s + need) (c_gver s)) (c_committed s ++ [m]) (c_unread s ++ [m])
                    (c_delivered s) (c_uncov s)).
Proof.
  intros m G En Hnb Hroom H1 H2 H3. pose proof G as G0. destruct G.
  pose proof (cal_bounds nb ltac:(lia)) as (K1 & K2 & K3). rewrite <- En in K1, K2, K3.
  assert (Mn : mneed m = need) by (unfold mneed, mnb, m; simpl; auto).
  assert (Hhead : forall l, head_at s l ->
     head_at (set_ghost (set_wcur s (c_w s + need) (c_gver s)) (c_committed s ++ [m]) (c_unread s ++ [m])
                    (c_delivered s) (c_uncov s)) l).
  { intros l (m0 & rest & EU & L & V). exists m0, (rest ++ [m]). csimpl. rewrite EU. auto. }
  assert (Tapp : forall a, ctiles a (c_unread s) (c_w s) -> ctiles a (c_unread s ++ [m]) (c_w s + need)).
  { intros a T. rewrite <- Mn. apply ctiles_app; auto. unfold mnb, m. simpl. lia. }
  constructor; csimpl; auto.
  - unfold room in Hroom. lia.
  - destruct gg_shape0 as [(A & T)|(A & U1 & U2 & p & E & T1 & Pp & M & V & T2)].
    + left. csimpl. split; [lia|]. apply Tapp. exact T.
    + right. csimpl. destruct Hroom as [(B & _)|(_ & C)]; [lia|]. split; [lia|].
      exists U1, (U2 ++ [m]), p. rewrite E, app_assoc. repeat split; auto; try apply gg_ver0.
      rewrite <- Mn. apply ctiles_app; auto. unfold mnb, m. simpl. lia.
  - apply Forall_app. split.
    + apply Forall_forall. intros m0 Hin. rewrite Forall_forall in gg_mok0. destruct (gg_mok0 m0 Hin) as (B & C & D & E & F).
      unfold mok. csimpl. repeat split; auto; try lia; try (intros i Hi; apply gg_ver0).
    + constructor; [|constructor]. unfold mok. csimpl. unfold mline, mnb, mtag, mneed, m. simpl.
      repeat split; auto; try lia; try (intros i Hi; apply gg_ver0). unfold mnb. simpl. congruence.
  - destruct gg_ghost0 as (pre & A & B). exists pre. rewrite A, app_assoc. split; [reflexivity|].
    rewrite B. f_equal. unfold inflight. csimpl. unfold RK in gg_rk0.
    destruct (r_pc (c_rd s)); auto. destruct gg_rk0 as (m0 & rest & EU & _). rewrite EU. reflexivity.
  - unfold RK in *. csimpl. destruct (r_pc (c_rd s)); auto.
    + intros Hne. destruct (gg_rk0 Hne) as [H|(M1 & M2 & M3 & M4 & M5)]; [left; apply (Hhead _ H)|].
      right. unfold mark_at. csimpl. destruct Hroom as [(B & _)|(_ & C)]; [lia|].
      repeat split; auto; try lia; try (intros W; apply (Hhead _ (M5 W))).
    + destruct gg_rk0 as (R1 & R2 & R3). destruct Hroom as [(B & _)|(_ & C)]; [lia|].
      repeat split; auto; try lia; try apply (Hhead _ R3).
    + destruct gg_rk0 as (R1 & R2). split; auto; try apply (Hhead _ R2).
    + destruct gg_rk0 as (m0 & rest & EU & L & Ev). exists m0, (rest ++ [m]). rewrite EU. auto.
Qed.

Lemma ginv_lock n s v st : GInv n s -> (v = 0 \/ v = 1) -> (c_locked s = true -> v = 0 -> st = c_gver s) ->
  (st <= c_gver s)%nat -> GInv n (set_lock s v st).
Proof. intros [] Hv Hst Hle. constructor; csimpl; auto. Qed.

(* -- building blocks of the writer's plain segments -- *)
Definition wcond (s : csys) (t : nat) : Prop :=
  (c_locked s = false -> t = 1%nat) /\ (forall u, u <> t -> active (w_pc (c_wr s u)) = false) /\
  (c_locked s = true -> c_lock s = 1).

Lemma wcond_active n s t : CInv n s -> active (w_pc (c_wr s t)) = true -> wcond s t.
Proof.
  intros I Ha. destruct I. repeat split.
  - intros L. specialize (g_act3 t Ha). rewrite L in g_act3. exact g_act3.
  - intros u Ne. destruct (active (w_pc (c_wr s u))) eqn:E; [|reflexivity].
    exfalso. apply Ne. apply g_act4; auto.
  - intros L. specialize (g_act3 t Ha). rewrite L in g_act3. exact g_act3.
Qed.
Lemma wcond_unl n s : CInv n s -> c_locked s = false -> wcond s 1%nat.
Proof.
  intros I L. destruct I. repeat split; auto.
  - intros u Ne. destruct (active (w_pc (c_wr s u))) eqn:E; [|reflexivity].
    exfalso. apply Ne. specialize (g_act3 u E). rewrite L in g_act3. exact g_act3.
  - intros L'. congruence.
Qed.

Lemma thr_pt s0 s t x' : c_wr s0 = c_wr s ->
  forall u, c_wr (set_wr s0 t x') u = if Nat.eqb u t then x' else c_wr s u.
Proof. intros E u. csimpl. rewrite E. unfold upd. reflexivity. Qed.

Lemma ginv_conv n s s' : GInv n s ->
  c_n s' = c_n s -> c_locked s' = c_locked s -> c_w s' = c_w s -> c_wstamp s' = c_wstamp s -> c_r s' = c_r s ->
  c_lock s' = c_lock s -> c_lstamp s' = c_lstamp s -> c_hN s' = c_hN s -> c_hC s' = c_hC s -> c_body s' = c_body s ->
  c_ver s' = c_ver s -> c_gver s' = c_gver s -> c_committed s' = c_committed s -> c_unread s' = c_unread s ->
  c_delivered s' = c_delivered s -> c_uncov s' = c_uncov s -> c_overlap s' = c_overlap s -> c_rd s' = c_rd s ->
  GInv n s'.
Proof.
  intros [] E1 E2 E3 E4 E5 E6 E7 E8 E9 E10 E11 E12 E13 E14 E15 E16 E17 E18.
  assert (Hm : forall m, mok s m -> mok s' m).
  { intros m. unfold mok. rewrite E4, E8, E9, E10, E11. auto. }
  assert (Hh : forall l, head_at s l -> head_at s' l).
  { intros l (m & rest & EU & L & V). exists m, rest. rewrite E14, E18. repeat split; auto.
    intros i Hi. rewrite E11. apply V. exact Hi. }
  constructor; unfold cshape, RK, mark_at, inflight in *;
    rewrite ?E1, ?E2, ?E3, ?E4, ?E5, ?E6, ?E7, ?E8, ?E9, ?E10, ?E11, ?E12, ?E13, ?E14, ?E15, ?E16, ?E17, ?E18; auto.
  - apply Forall_forall. intros m Hin. apply Hm. rewrite Forall_forall in gg_mok0. auto.
  - destruct (r_pc (c_rd s)); auto.
    + intros Hne. destruct (gg_rk0 Hne) as [H|(M1 & M2 & M3 & M4 & M5)]; [left; auto|]. right. repeat split; auto.
    + destruct gg_rk0 as (K1 & K2 & K3). auto.
    + destruct gg_rk0 as (K1 & K2). auto.
Qed.

Lemma fupd_same {A} (f : Z -> A) l v : fupd f l v l = v.
Proof. unfold fupd. rewrite Z.eqb_refl. reflexivity. Qed.
Lemma fupd_other {A} (f : Z -> A) l v i : i <> l -> fupd f l v i = f i.
Proof. unfold fupd. intros H. destruct (Z.eqb_spec i l); [contradiction|reflexivity]. Qed.
Lemma frange_out {A} (f : Z -> A) a b v i : i < a \/ b <= i -> frange f a b v i = f i.
Proof.
  unfold frange. intros H. destruct (Z.leb_spec a i); destruct (Z.ltb_spec i b); simpl; auto; lia.
Qed.

Lemma finish_inv n s t notes nb tag rest s' l : 1 <= n < 2147483648 ->
  CInv n s -> wcond s t -> w_seen (c_wr s t) = c_gver s ->
  w_script (c_wr s t) = (nb, tag) :: rest -> crem_ok s -> cal_cachelines nb <= c_crem s ->
  w_finish s t (c_wr s t) notes = (s', l) -> CInv n s'.
Proof.
  intros Hn I (W1 & W2 & W3) Hv Es (C1 & C2) Hc H. unfold w_finish in H. rewrite Es in H.
  assert (Nb : 1 <= nb < 2147483648).
  { pose proof (g_script n s I t) as F. rewrite Es in F. inversion F as [|? ? Nv _]; subst. exact Nv. }
  pose proof (cal_bounds nb ltac:(lia)) as (K1 & K2 & K3).
  pose proof (g_w n s I) as Bw. pose proof (g_n n s I) as Bn.
  assert (Room : c_w s + c_crem s <= n - 1) by (destruct C2 as [(A & B)|(A & B)]; pose proof (g_r n s I); lia).
  rewrite (pay_end_eq (c_w s) nb) in H by lia.
  rewrite (touches_free s (c_crem s)) in H; auto; try lia; [|exact (g_shape n s I)].
  rewrite u32_small in H by lia.
  set (need := cal_cachelines nb) in *. set (a := c_w s) in *. set (b := a + need - 2) in *.
  inversion H; subst s' l; clear H.
  match goal with |- CInv n (set_wr (set_crem (set_data s ?hN ?hC ?body ?ver _ _) _) t ?x) =>
    set (hN' := hN); set (hC' := hC); set (body' := body); set (ver' := ver); set (x' := x) end.
  assert (G : GInv n (set_data s hN' hC' body' ver' (S (c_gver s)) (c_overlap s))).
  { apply (ginv_data n s hN' hC' body' ver' (c_crem s) b); auto; try (fold a; lia); [apply ginv_of; exact I| |].
    - intros i Hi. fold a in Hi. subst hN' hC' body' ver'.
      rewrite !fupd_other by lia. rewrite !frange_out by lia. auto.
    - intros i. subst ver'. unfold frange. destruct ((a <=? i) && (i <? b)); [lia|].
      pose proof (g_ver n s I i). lia. }
  eapply (inv_writer_step n s _ t x'); try exact I.
  - eapply ginv_conv; [exact G|..]; reflexivity.
  - apply thr_pt. reflexivity.
  - reflexivity.
  - exact W1.
  - exact W2.
  - csimpl. lia.
  - intros _. split; csimpl; [lia|]. unfold room in *. csimpl. fold a. lia.
  - intros _ L. csimpl. apply W3. exact L.
  - subst x'. csimpl. lia.
  - intros _. subst x'. csimpl. reflexivity.
  - subst x'. csimpl. exact (g_script n s I t).
  - subst x'. unfold WK. csimpl. split; [reflexivity|]. split; [lia|]. split.
    + unfold room in *. csimpl. fold a. replace (c_crem s - need + need) with (c_crem s) by lia. exact C2.
    + exists nb, tag, rest. subst hN' hC' body'. rewrite !fupd_same. repeat split; auto.
Qed.

Lemma view_of n s t : CInv n s -> wcond s t ->
  active (w_pc (c_wr s t)) = true \/ c_locked s = false -> w_seen (c_wr s t) = c_gver s.
Proof.
  intros I (W1 & _) H. apply (g_view n s I). destruct H as [H|H]; [left; exact H|right; auto].
Qed.

(* a step of the active writer that only changes its own thread state *)
Lemma inv_thread n s t x' : CInv n s -> wcond s t ->
  (idle (w_pc x') -> crem_ok s) ->
  (w_seen x' <= c_gver s)%nat -> (active (w_pc x') = true \/ c_locked s = false -> w_seen x' = c_gver s) ->
  Forall nbvalid (w_script x') -> WK s x' -> CInv n (set_wr s t x').
Proof.
  intros I (W1 & W2 & W3) Hc Hs Hv Hscr Hwk.
  apply (inv_writer_step n s (set_wr s t x') t x' I).
  - eapply ginv_conv; [apply ginv_of; exact I|..]; reflexivity.
  - apply thr_pt. reflexivity.
  - reflexivity.
  - exact W1.
  - exact W2.
  - csimpl. lia.
  - csimpl. destruct (c_locked s) eqn:L.
    + intros L0. specialize (W3 eq_refl). lia.
    + exact Hc.
  - intros _ L. csimpl. auto.
  - exact Hs.
  - exact Hv.
  - exact Hscr.
  - exact Hwk.
Qed.

Lemma inv_set_crem n s t c : CInv n s -> wcond s t -> 0 <= c -> room s c ->
  (active (w_pc (c_wr s t)) = true \/ c_locked s = false) ->
  WK (set_crem s c) (c_wr s t) -> CInv n (set_crem s c).
Proof.
  intros I (W1 & W2 & W3) Hc Hr Ha Hwk.
  apply (inv_writer_step n s (set_crem s c) t (c_wr s t) I).
  - eapply ginv_conv; [apply ginv_of; exact I|..]; reflexivity.
  - intros u. csimpl. destruct (Nat.eqb_spec u t) as [Eq|Ne]; [rewrite Eq|]; reflexivity.
  - reflexivity.
  - exact W1.
  - exact W2.
  - csimpl. lia.
  - intros _. split; csimpl; auto.
  - intros _ L. csimpl. auto.
  - csimpl. apply (g_seen n s I).
  - intros _. csimpl. apply (view_of n s t I); [repeat split; auto|exact Ha].
  - apply (g_script n s I).
  - exact Hwk.
Qed.

Lemma fail_inv n s t notes s' l : CInv n s -> wcond s t ->
  (active (w_pc (c_wr s t)) = true \/ c_locked s = false) -> crem_ok s ->
  w_fail s t (c_wr s t) notes = (s', l) -> CInv n s'.
Proof.
  intros I W Ha C H. pose proof (view_of n s t I W Ha) as Hv. unfold w_fail in H.
  destruct (c_locked s) eqn:L; inversion H; subst; clear H.
  - apply (inv_thread n s t _ I W); csimpl.
    + intros _. exact C.
    + rewrite Hv. lia.
    + intros _. exact Hv.
    + apply (g_script n s I).
    + exact C.
  - apply (inv_thread n s t _ I W); csimpl.
    + intros _. exact C.
    + rewrite Hv. lia.
    + intros _. exact Hv.
    + apply (g_script n s I).
    + exact Logic.I.
Qed.

Lemma script_nb n s t nb tag rest : CInv n s -> w_script (c_wr s t) = (nb, tag) :: rest -> 1 <= nb < 2147483648.
Proof. intros I Es. pose proof (g_script n s I t) as F. rewrite Es in F. inversion F as [|? ? Nv _]; subst. exact Nv. Qed.

Lemma alloc1_inv n s t notes s' l : 1 <= n < 2147483648 -> CInv n s -> wcond s t ->
  (active (w_pc (c_wr s t)) = true \/ c_locked s = false) -> crem_ok s ->
  w_alloc1 s t (c_wr s t) notes = (s', l) -> CInv n s'.
Proof.
  intros Hn I W Ha C H. pose proof (view_of n s t I W Ha) as Hv. unfold w_alloc1 in H.
  destruct (w_script (c_wr s t)) as [|[nb tag] rest] eqn:Es; [inversion H; subst; exact I|].
  destruct (Z.ltb_spec (c_crem s) (cal_cachelines nb)) as [Lt|Ge].
  - inversion H; subst; clear H.
    apply (inv_thread n s t _ I W); csimpl.
    + intros _. exact C.
    + rewrite Hv. lia.
    + intros _. exact Hv.
    + apply (g_script n s I).
    + exact C.
  - eapply finish_inv; eauto.
Qed.

Lemma inv_relock n s st : CInv n s -> c_lock s = 1 -> (st <= c_gver s)%nat -> CInv n (set_lock s 1 st).
Proof.
  intros [] L Hs. constructor; csimpl; auto.
  - intros _ X. lia.
  - destruct (c_locked s); [intros X; lia|exact g_crem0].
  - intros t Ht. specialize (g_act3 t Ht). destruct (c_locked s); auto.
Qed.

(* a hop between inactive program points (spinning on the lock, retry, exit) *)
Lemma inv_hop n s t x' : CInv n s -> (c_locked s = true \/ t = 1%nat) -> active (w_pc x') = false ->
  w_seen x' = w_seen (c_wr s t) -> Forall nbvalid (w_script x') ->
  (c_locked s = false -> idle (w_pc x') -> crem_ok s) -> CInv n (set_wr s t x').
Proof.
  intros I Hlt Ha Hs Hscr Hc. apply inv_local; auto.
  - rewrite Hs. apply (g_seen n s I).
  - intros L T1. split; [|intros X; apply Hc; auto].
    rewrite Hs. apply (g_view n s I). right. auto.
Qed.

Lemma room_le s k k' : room s k -> k' <= k -> room s k'.
Proof. unfold room. lia. Qed.

Lemma tl_valid (l : list (Z * Z)) : Forall nbvalid l -> Forall nbvalid (tl l).
Proof. intros H. destruct l; simpl; auto. inversion H; auto. Qed.

Lemma stamp_le n s t mo : CInv n s -> (rmw_stamp mo (w_seen (c_wr s t)) (c_lstamp s) <= c_gver s)%nat /\
  (acq_join mo (w_seen (c_wr s t)) (c_lstamp s) <= c_gver s)%nat.
Proof.
  intros I. pose proof (g_seen n s I t). pose proof (g_lstle n s I). unfold rmw_stamp, acq_join.
  destruct (is_rel mo); destruct (is_acq mo); lia.
Qed.

Ltac act_of Epc := rewrite Epc; reflexivity.

Lemma script_nb_all n s t (I : CInv n s) nb tag rest (Es : w_script (c_wr s t) = (nb, tag) :: rest) :
  Forall nbvalid ((nb, tag) :: rest).
Proof. rewrite <- Es. apply (g_script n s I). Qed.
Lemma or_comm_lt (s : csys) (t : nat) : (c_locked s = true \/ t = 1%nat) -> (c_locked s = true \/ t = 1%nat).
Proof. auto. Qed.

Lemma wstep_inv P n s t s' l : 1 <= n < 2147483648 ->
  is_rel (mo_w_store_wrap P) = true -> is_rel (mo_w_store_commit P) = true ->
  is_acq (mo_lock_tas P) = true -> is_rel (mo_lock_clear P) = true ->
  CInv n s -> (c_locked s = true \/ t = 1%nat) -> wstep P s t = Some (s', l) -> CInv n s'.
Proof.
  intros Hn Mw Mc Mt Ml I Hlt H. unfold wstep in H.
  pose proof (g_wk n s I t) as K. unfold WK in K.
  pose proof (g_w n s I) as Bw. pose proof (g_r n s I) as Br. pose proof (g_n n s I) as Bn.
  assert (Hidle : c_locked s = false -> idle (w_pc (c_wr s t)) -> crem_ok s).
  { intros L Hi. destruct Hlt as [X|X]; [congruence|]. subst t.
    pose proof (g_crem n s I) as C. rewrite L in C. apply C. exact Hi. }
  destruct (w_pc (c_wr s t)) eqn:Epc.
  - (* WSeg0 *)
    match type of H with (if ?b then _ else _) = _ => destruct b end.
    + inversion H; subst s' l; clear H. apply inv_set_wdone.
      apply inv_hop; [exact I|exact Hlt|reflexivity|reflexivity|csimpl; apply (g_script n s I)|csimpl; intros _ []].
    + destruct (w_script (c_wr s t)) as [|[nb tag] rest] eqn:Es.
      * inversion H; subst s' l; clear H. apply inv_set_wdone.
        apply inv_hop; [exact I|exact Hlt|reflexivity|reflexivity|csimpl; rewrite Es; constructor|csimpl; intros _ []].
      * destruct (c_locked s) eqn:L.
        -- inversion H; subst s' l; clear H.
           apply inv_hop; [exact I|left; exact L|reflexivity|reflexivity|csimpl; apply (g_script n s I)|intros X; congruence].
        -- destruct Hlt as [X|X]; [discriminate|]. subst t.
           destruct (w_alloc1 s 1 (c_wr s 1%nat) (w_pend (c_wr s 1%nat))) as [s1 l1] eqn:Ea.
           inversion H; subst s1 l1; clear H.
           apply (alloc1_inv n s 1%nat (w_pend (c_wr s 1%nat)) s' l Hn I (wcond_unl n s I L) (or_intror L)); [|exact Ea].
           apply Hidle; auto; try (rewrite Epc); exact Logic.I.
  - (* WTas *)
    inversion H; subst s' l; clear H.
    destruct (stamp_le n s t (mo_lock_tas P) I) as (S1 & S2).
    destruct (Z.eqb_spec (c_lock s) 0) as [L0|L0].
    + (* acquired *)
      set (x' := wset_seen (c_wr s t) WSegAlloc (acq_join (mo_lock_tas P) (w_seen (c_wr s t)) (c_lstamp s))).
      assert (Hoth : forall u, u <> t -> active (w_pc (c_wr s u)) = false).
      { intros u Ne. destruct (active (w_pc (c_wr s u))) eqn:E; [|reflexivity]. exfalso.
        pose proof (g_act1 n s I u E) as A. destruct (c_locked s) eqn:L; [lia|].
        destruct Hlt as [X|X]; [discriminate|]. apply Ne. congruence. }
      apply (inv_writer_step n s _ t x' I).
      * eapply ginv_conv; [apply (ginv_lock n s 1 (rmw_stamp (mo_lock_tas P) (w_seen (c_wr s t)) (c_lstamp s)) (ginv_of n s I))|..];
          try reflexivity; auto. intros _ X. lia.
      * apply thr_pt. reflexivity.
      * reflexivity.
      * intros L. destruct Hlt as [X|X]; [congruence|exact X].
      * exact Hoth.
      * csimpl. lia.
      * csimpl. destruct (c_locked s); [intros X; lia|intros []].
      * intros _ _. reflexivity.
      * subst x'. csimpl. exact S2.
      * intros _. subst x'. csimpl. unfold acq_join. rewrite Mt.
        pose proof (g_seen n s I t). pose proof (g_lstle n s I).
        destruct (c_locked s) eqn:L.
        -- rewrite (g_lstamp n s I L L0). lia.
        -- destruct Hlt as [X|X]; [discriminate|]. subst t.
           rewrite (g_view n s I 1%nat (or_intror (conj L eq_refl))). lia.
      * subst x'. csimpl. apply (g_script n s I).
      * subst x'. unfold WK. csimpl. unfold crem_ok, room. csimpl.
        pose proof (g_crem n s I) as C. destruct (c_locked s) eqn:L.
        -- apply C. exact L0.
        -- apply Hidle; auto; try (rewrite Epc); exact Logic.I.
    + (* busy *)
      assert (L1 : c_lock s = 1) by (destruct (g_lockv n s I); lia).
      apply inv_local; [apply inv_relock; auto|reflexivity|csimpl; exact S2| |csimpl; apply (g_script n s I)].
      csimpl. intros L T1. subst t. split.
      * unfold acq_join. rewrite Mt. pose proof (g_lstle n s I).
        rewrite (g_view n s I 1%nat (or_intror (conj L eq_refl))). lia.
      * intros _. apply Hidle; auto; try (rewrite Epc); exact Logic.I.
  - (* WSegY *)
    inversion H; subst s' l; clear H.
    apply inv_hop; [exact I|exact Hlt|reflexivity|reflexivity|csimpl; apply (g_script n s I)|].
    csimpl. intros L _. apply Hidle; auto; try (rewrite Epc); exact Logic.I.
  - (* WYield *)
    inversion H; subst s' l; clear H.
    apply inv_hop; [exact I|exact Hlt|reflexivity|reflexivity|csimpl; apply (g_script n s I)|].
    csimpl. intros L _. apply Hidle; auto; try (rewrite Epc); exact Logic.I.
  - (* WSegT *)
    inversion H; subst s' l; clear H.
    apply inv_hop; [exact I|exact Hlt|reflexivity|reflexivity|csimpl; apply (g_script n s I)|].
    csimpl. intros L _. apply Hidle; auto; try (rewrite Epc); exact Logic.I.
  - (* WSegAlloc *)
    assert (A : active (w_pc (c_wr s t)) = true) by act_of Epc.
    destruct (w_alloc1 s t (c_wr s t) []) as [s1 l1] eqn:Ea. inversion H; subst s1 l1; clear H.
    apply (alloc1_inv n s t [] s' l Hn I (wcond_active n s t I A) (or_introl A) K Ea).
  - (* WLoadR *)
    assert (A : active (w_pc (c_wr s t)) = true) by act_of Epc.
    pose proof (wcond_active n s t I A) as W. pose proof (view_of n s t I W (or_introl A)) as Hv.
    inversion H; subst s' l; clear H.
    apply (inv_thread n s t _ I W); csimpl.
    + intros []. 
    + rewrite Hv. lia.
    + intros _. exact Hv.
    + apply (g_script n s I).
    + unfold WK. csimpl. split; [exact K|]. split; [lia|]. split; [intros X; lia|intros X; lia].
  - (* WSegUpd *)
    assert (A : active (w_pc (c_wr s t)) = true) by act_of Epc.
    pose proof (wcond_active n s t I A) as W. pose proof (view_of n s t I W (or_introl A)) as Hv.
    destruct K as (C & Rb & K1 & K2).
    destruct (w_script (c_wr s t)) as [|[nb tag] rest] eqn:Es; [discriminate|].
    pose proof (script_nb n s t nb tag rest I Es) as Nb.
    pose proof (cal_bounds nb ltac:(lia)) as (Q1 & Q2 & Q3). pose proof (cal_lt nb Nb) as Q4.
    set (need := cal_cachelines nb) in *.
    assert (Hsub : forall c, 0 <= c -> room s c -> CInv n (set_crem s c)).
    { intros c C0 R. apply (inv_set_crem n s t c I W C0 R (or_introl A)).
      unfold WK. rewrite Epc. unfold crem_ok, room in *. csimpl. tauto. }
    assert (Hgo : forall c s2 l2, 0 <= c -> room s c ->
              (if c <? need then Some (w_fail (set_crem s c) t (c_wr s t) []) else Some (w_finish (set_crem s c) t (c_wr s t) []))
              = Some (s2, l2) -> CInv n s2).
    { intros c s2 l2 C0 R E. pose proof (Hsub c C0 R) as I1.
      assert (W1 : wcond (set_crem s c) t) by exact W.
      destruct (Z.ltb_spec c need) as [Lt|Ge].
      - destruct (w_fail (set_crem s c) t (c_wr s t) []) as [s3 l3] eqn:Ef. inversion E; subst s3 l3.
        apply (fail_inv n (set_crem s c) t [] s2 l2 I1 W1 (or_introl A)); [|exact Ef].
        split; csimpl; auto.
      - destruct (w_finish (set_crem s c) t (c_wr s t) []) as [s3 l3] eqn:Ef. inversion E; subst s3 l3.
        apply (finish_inv n (set_crem s c) t [] nb tag rest s2 l2 Hn I1 W1 Hv Es); [| |exact Ef].
        + split; csimpl; auto.
        + csimpl. fold need. lia. }
    rewrite Z.gtb_ltb in H. destruct (Z.ltb_spec (c_w s) r_obs) as [Lt|Ge].
    + rewrite u32_small in H by lia.
      apply (Hgo (r_obs - c_w s - 1) s' l); [lia| |exact H].
      unfold room. destruct (K1 Lt) as [(X & Y)|X]; lia.
    + destruct (K2 Ge) as (X & Y).
      rewrite Bn in H. rewrite (u32_small (n - c_w s - 1)) in H by lia.
      rewrite (s32_id r_obs) in H by lia. rewrite (s32_id need) in H by lia. rewrite !Z.geb_leb in H.
      destruct (Z.leb_spec need (n - c_w s - 1)) as [R|R].
      * assert (E : (if n - c_w s - 1 <? need then Some (w_fail (set_crem s (n - c_w s - 1)) t (c_wr s t) [])
                     else Some (w_finish (set_crem s (n - c_w s - 1)) t (c_wr s t) [])) = Some (s', l)).
        { destruct (Z.ltb_spec (n - c_w s - 1) need); [lia|exact H]. }
        apply (Hgo (n - c_w s - 1) s' l); [lia| |exact E]. unfold room. lia.
      * destruct (Z.leb_spec need (r_obs - 1)) as [Lf|Lf].
        -- (* marker at w *)
           destruct C as (C0 & C1).
           rewrite (touches_free s (c_crem s)) in H; auto; try lia; [|exact (g_shape n s I)].
           inversion H; subst s' l; clear H.
           match goal with |- CInv n (set_wr (set_data s ?hN ?hC ?body ?ver _ _) t ?x) =>
             set (hN' := hN); set (hC' := hC); set (ver' := ver); set (x' := x) end.
           assert (G : GInv n (set_data s hN' hC' (c_body s) ver' (S (c_gver s)) (c_overlap s))).
           { apply (ginv_data n s hN' hC' (c_body s) ver' (c_crem s) (c_w s + 1)); auto; try lia;
               [apply ginv_of; exact I|exact (proj2 (proj2 W))| |].
             - intros i Hi. subst hN' hC' ver'. rewrite !fupd_other by lia. auto.
             - intros i. subst ver'. unfold fupd. destruct (i =? c_w s); [lia|]. pose proof (g_ver n s I i). lia. }
           destruct W as (W1 & W2 & W3).
           apply (inv_writer_step n s _ t x' I).
           ++ eapply ginv_conv; [exact G|..]; reflexivity.
           ++ apply thr_pt. reflexivity.
           ++ reflexivity.
           ++ exact W1.
           ++ exact W2.
           ++ csimpl. lia.
           ++ csimpl. destruct (c_locked s) eqn:L; [intros X0; specialize (W3 eq_refl); lia|intros []].
           ++ intros _ L. csimpl. auto.
           ++ subst x'. csimpl. lia.
           ++ intros _. subst x'. csimpl. reflexivity.
           ++ subst x'. csimpl. apply (g_script n s I).
           ++ subst x'. unfold WK. csimpl. split; [lia|]. split; [lia|]. split; [subst hN'; apply fupd_same|].
              exists nb, tag, rest. split; [exact Es|]. fold need. lia.
        -- destruct (w_fail s t (c_wr s t) []) as [s3 l3] eqn:Ef. inversion H; subst s3 l3.
           apply (fail_inv n s t [] s' l I W (or_introl A) C Ef).
  - (* WStoreWrap *)
    assert (A : active (w_pc (c_wr s t)) = true) by act_of Epc.
    pose proof (wcond_active n s t I A) as W. pose proof (view_of n s t I W (or_introl A)) as Hv.
    destruct K as (K1 & K2 & K3 & nb & tag & rest & Es & K4).
    pose proof (script_nb n s t nb tag rest I Es) as Nb.
    pose proof (cal_bounds nb ltac:(lia)) as (Q1 & Q2 & Q3).
    inversion H; subst s' l; clear H. unfold rel_stamp. rewrite Mw, Hv.
    destruct W as (W1 & W2 & W3).
    apply (inv_writer_step n s _ t (wset (c_wr s t) (WSegWrapped left)) I).
    + eapply ginv_conv; [apply (ginv_wrap n s (ginv_of n s I)); auto; lia|..]; reflexivity.
    + apply thr_pt. reflexivity.
    + reflexivity.
    + exact W1.
    + exact W2.
    + csimpl. lia.
    + csimpl. destruct (c_locked s) eqn:L; [intros X0; specialize (W3 eq_refl); lia|intros []].
    + intros _ L. csimpl. auto.
    + csimpl. rewrite Hv. lia.
    + intros _. csimpl. exact Hv.
    + csimpl. apply (g_script n s I).
    + unfold WK, room. csimpl. split; [reflexivity|]. split; [lia|]. right. lia.
  - (* WSegWrapped *)
    assert (A : active (w_pc (c_wr s t)) = true) by act_of Epc.
    pose proof (wcond_active n s t I A) as W. pose proof (view_of n s t I W (or_introl A)) as Hv.
    destruct K as (K1 & K2 & K3).
    destruct (w_script (c_wr s t)) as [|[nb tag] rest] eqn:Es; [discriminate|].
    assert (Lb : left <= n - 1) by (unfold room in K3; lia).
    rewrite u32_small in H by lia.
    assert (I1 : CInv n (set_crem s left)).
    { apply (inv_set_crem n s t left I W K2 K3 (or_introl A)). unfold WK. rewrite Epc. unfold room in *. csimpl. tauto. }
    assert (W1 : wcond (set_crem s left) t) by exact W.
    csimpl. destruct (Z.ltb_spec left (cal_cachelines nb)) as [Lt|Ge].
    + destruct (w_fail (set_crem s left) t (c_wr s t) []) as [s3 l3] eqn:Ef. inversion H; subst s3 l3.
      apply (fail_inv n (set_crem s left) t [] s' l I1 W1 (or_introl A)); [|exact Ef]. split; csimpl; auto.
    + destruct (w_finish (set_crem s left) t (c_wr s t) []) as [s3 l3] eqn:Ef. inversion H; subst s3 l3.
      apply (finish_inv n (set_crem s left) t [] nb tag rest s' l Hn I1 W1 Hv Es); [| |exact Ef].
      * split; csimpl; auto.
      * csimpl. lia.
  - (* WStoreCommit *)
    assert (A : active (w_pc (c_wr s t)) = true) by act_of Epc.
    pose proof (wcond_active n s t I A) as W. pose proof (view_of n s t I W (or_introl A)) as Hv.
    destruct K as (Ea & C0 & R & nb & tag & rest & Es & En & H1 & H2 & H3).
    rewrite Es in H. subst a.
    pose proof (script_nb n s t nb tag rest I Es) as Nb.
    pose proof (cal_bounds nb ltac:(lia)) as (Q1 & Q2 & Q3). rewrite <- En in Q1, Q2, Q3.
    assert (Rn : room s need) by (apply (room_le s _ need R); lia).
    assert (Wb : c_w s + need <= n - 1) by (unfold room in Rn; lia).
    rewrite u32_small in H by lia. unfold rel_stamp in H. rewrite Mc, Hv in H.
    pose proof (ginv_commit n s nb tag need (ginv_of n s I) En Nb Rn H1 H2 H3) as G. cbv zeta in G.
    destruct W as (W1 & W2 & W3).
    assert (Cr : forall s2, c_crem s2 = c_crem s -> c_w s2 = c_w s + need -> c_r s2 = c_r s -> c_n s2 = c_n s -> crem_ok s2).
    { intros s2 E1 E2 E3 E4. unfold crem_ok, room in *. rewrite E1, E2, E3, E4. lia. }
    destruct (c_locked s) eqn:L; inversion H; subst s' l; clear H.
    + apply (inv_writer_step n s _ t (wset (c_wr s t) (WSegC (CL * c_w s + HDR))) I).
      * eapply ginv_conv; [exact G|..]; reflexivity.
      * apply thr_pt. reflexivity.
      * reflexivity.
      * intros X. congruence.
      * exact W2.
      * csimpl. lia.
      * rewrite L. intros _. apply Cr; reflexivity.
      * intros _ _. csimpl. auto.
      * csimpl. rewrite Hv. lia.
      * intros _. csimpl. exact Hv.
      * csimpl. apply (g_script n s I).
      * unfold WK. csimpl. apply Cr; reflexivity.
    + apply (inv_writer_step n s _ t (w_next_msg s (c_wr s t) [(n_sent, CL * c_w s + HDR)]) I).
      * eapply ginv_conv; [exact G|..]; reflexivity.
      * apply thr_pt. reflexivity.
      * reflexivity.
      * intros _. apply W1. reflexivity.
      * exact W2.
      * csimpl. lia.
      * rewrite L. intros _. apply Cr; reflexivity.
      * intros _ X. congruence.
      * csimpl. rewrite Hv. lia.
      * intros _. csimpl. exact Hv.
      * csimpl. apply tl_valid. apply (g_script n s I).
      * exact Logic.I.
  - (* WSegC *)
    assert (A : active (w_pc (c_wr s t)) = true) by act_of Epc.
    pose proof (wcond_active n s t I A) as W. pose proof (view_of n s t I W (or_introl A)) as Hv.
    inversion H; subst s' l; clear H.
    apply (inv_thread n s t _ I W); csimpl.
    + intros [].
    + rewrite Hv. lia.
    + intros _. exact Hv.
    + apply (g_script n s I).
    + exact K.
  - (* WClear *)
    assert (A : active (w_pc (c_wr s t)) = true) by act_of Epc.
    pose proof (wcond_active n s t I A) as W. pose proof (view_of n s t I W (or_introl A)) as Hv.
    inversion H; subst s' l; clear H. unfold rel_stamp. rewrite Ml, Hv.
    destruct W as (W1 & W2 & W3).
    set (x' := if sent then w_next_msg s (c_wr s t) [(n_sent, off)] else wset (c_wr s t) WSegFull).
    assert (Xa : active (w_pc x') = false) by (subst x'; destruct sent; reflexivity).
    apply (inv_writer_step n s _ t x' I).
    + eapply ginv_conv; [apply (ginv_lock n s 0 (c_gver s) (ginv_of n s I)); auto|..]; reflexivity.
    + apply thr_pt. reflexivity.
    + reflexivity.
    + exact W1.
    + exact W2.
    + csimpl. lia.
    + intros _. exact K.
    + intros X. rewrite Xa in X. discriminate.
    + subst x'. destruct sent; csimpl; rewrite Hv; lia.
    + intros _. subst x'. destruct sent; csimpl; exact Hv.
    + subst x'. destruct sent; csimpl; [apply tl_valid|]; apply (g_script n s I).
    + apply WK_inactive. exact Xa.
  - (* WSegFull *)
    inversion H; subst s' l; clear H.
    apply inv_hop; [exact I|exact Hlt|reflexivity|reflexivity|csimpl; apply (g_script n s I)|].
    csimpl. intros L _. apply Hidle; auto; try (rewrite Epc); exact Logic.I.
  - (* WRetry *)
    inversion H; subst s' l; clear H.
    apply inv_hop; [exact I|exact Hlt| | | |].
    + destruct (w_tries (c_wr s t)) as [|[|k]]; reflexivity.
    + destruct (w_tries (c_wr s t)) as [|[|k]]; reflexivity.
    + destruct (w_tries (c_wr s t)) as [|[|k]]; csimpl; try apply tl_valid; apply (g_script n s I).
    + intros L _. apply Hidle; auto; try (rewrite Epc); exact Logic.I.
  - (* WKilled *)
    inversion H; subst s' l; clear H.
    apply inv_hop; [exact I|exact Hlt|reflexivity|reflexivity|csimpl; apply (g_script n s I)|csimpl; intros _ []].
  - (* WFin *)
    inversion H; subst s' l; clear H.
    apply inv_hop; [exact I|exact Hlt|reflexivity|reflexivity|csimpl; apply (g_script n s I)|csimpl; intros _ []].
  - discriminate.
Qed.

(* ---- the kill switch and the combined step ---- *)
Lemma inv_same_thread n s t x' : CInv n s -> w_pc x' = w_pc (c_wr s t) -> w_script x' = w_script (c_wr s t) ->
  w_seen x' = w_seen (c_wr s t) -> CInv n (set_wr s t x').
Proof.
  intros I Ep Es Ev. pose proof I as I0. destruct I.
  assert (Hwk : forall s0, WK s0 (c_wr s t) -> WK s0 x').
  { intros s0. unfold WK. rewrite Ep, Es. auto. }
  constructor; auto; csimpl; unfold upd.
  - destruct (c_locked s); auto. destruct (Nat.eqb_spec 1%nat t) as [Eq|Ne]; [rewrite Ep, <- Eq|]; exact g_crem0.
  - intros u. destruct (Nat.eqb_spec u t) as [Eq|Ne]; [rewrite Ep, <- Eq|]; apply g_act3.
  - intros u v. destruct (Nat.eqb_spec u t) as [Eq|Ne]; destruct (Nat.eqb_spec v t) as [Eq'|Ne']; rewrite ?Ep; intros A B.
    + congruence.
    + rewrite Eq. apply g_act4; auto.
    + rewrite Eq'. apply g_act4; auto.
    + apply g_act4; auto.
  - intros u. destruct (Nat.eqb_spec u t) as [Eq|Ne]; [rewrite Ev|]; apply g_seen0.
  - intros u. destruct (Nat.eqb_spec u t) as [Eq|Ne]; [rewrite Ep, Ev, Eq|]; apply g_view0.
  - intros u. destruct (Nat.eqb_spec u t) as [Eq|Ne]; [rewrite Es|]; apply g_script0.
  - intros u. destruct (Nat.eqb_spec u t) as [Eq|Ne]; [apply Hwk|]; apply (g_wk0 _).
Qed.

Lemma kill_inv n s t r : CInv n (fst r) -> CInv n (fst (kill_check s t r)).
Proof.
  intros I. unfold kill_check. destruct r as [s1 [e| |]]; auto. simpl in I.
  destruct (negb (Nat.eqb t 1) && is_atomic (e_op e) && proc_dead s) eqn:D.
  { (* the writer process has died: this thread stops here as well *)
    apply andb_prop in D as [D _]. apply andb_prop in D as [D _]. apply negb_true_iff in D. apply Nat.eqb_neq in D.
    cbn [fst]. apply inv_set_wdone. apply inv_local; auto; csimpl.
    - apply (g_seen n s1 I).
    - intros L T1. contradiction.
    - apply (g_script n s1 I). }
  destruct (Nat.eqb t 1 && is_atomic (e_op e)); auto.
  assert (I1 : CInv n (set_wr s1 t
            {| w_pc := w_pc (c_wr s1 t); w_script := w_script (c_wr s1 t); w_tries := w_tries (c_wr s1 t);
               w_pend := w_pend (c_wr s1 t); w_seen := w_seen (c_wr s1 t); w_ev := S (w_ev (c_wr s t)) |})).
  { apply inv_same_thread; auto. }
  destruct (c_kill s) as [k|]; [|exact I1].
  destruct (Nat.eqb k (S (w_ev (c_wr s t)))); [|exact I1].
  cbn [fst]. apply inv_set_wdone. apply inv_local; auto; csimpl.
  - apply (g_seen n s1 I).
  - intros L T1. split; [|intros []]. apply (g_view n s1 I). right. auto.
  - apply (g_script n s1 I).
Qed.

Lemma mo_split P : mo_sufficient P = true ->
  is_rel (mo_w_store_wrap P) = true /\ is_rel (mo_w_store_commit P) = true /\ is_acq (mo_r_load_w P) = true /\
  is_acq (mo_lock_tas P) = true /\ is_rel (mo_lock_clear P) = true.
Proof.
  unfold mo_sufficient. intros H. repeat (apply andb_prop in H; destruct H as [H ?]). auto.
Qed.
Lemma mo_split_r P : mo_sufficient P = true -> is_rel (mo_r_store_move P) = true.
Proof. unfold mo_sufficient. intros H. apply andb_prop in H. tauto. Qed.

Lemma cstep0_inv P n s t ch s' l : 1 <= n < 2147483648 -> mo_sufficient P = true ->
  CInv n s -> cstep0 P s t ch = Some (s', l) -> CInv n s'.
Proof.
  intros Hn Hmo I H. destruct (mo_split P Hmo) as (Mw & Mc & Ma & Mt & Ml). unfold cstep0 in H.
  destruct (Nat.eqb t 0).
  - apply (rstep_inv P n s s' l Hn Ma I H).
  - destruct (Nat.leb t (c_nw s) && (c_locked s || Nat.eqb t 1)) eqn:C; [|discriminate].
    apply andb_prop in C as [_ C]. apply orb_prop in C.
    assert (Hlt : c_locked s = true \/ t = 1%nat).
    { destruct C as [C|C]; [left; exact C|right; apply Nat.eqb_eq; exact C]. }
    destruct (wstep P s t) as [[s1 l1]|] eqn:W; [|discriminate].
    pose proof (wstep_inv P n s t s1 l1 Hn Mw Mc Mt Ml I Hlt W) as I1.
    pose proof (kill_inv n s t (s1, l1) I1) as I2.
    destruct (kill_check s t (s1, l1)) as [s2 l2]. inversion H; subst. exact I2.
Qed.

(* the read-coverage layer (ghost fields only) keeps the invariant of the base layer *)
Lemma inv_set_rc n s ep rver rst lrst wrs race : CInv n s -> CInv n (set_rc s ep rver rst lrst wrs race).
Proof. intros []. constructor; auto. Qed.

Lemma ghost_r_inv P n s s' : CInv n s' -> CInv n (ghost_r P s s').
Proof.
  intros I. unfold ghost_r, rc_read, rc_publish.
  destruct (r_pc (c_rd s)); repeat match goal with |- context [if ?b then _ else _] => destruct b end;
    try exact I; apply inv_set_rc; exact I.
Qed.
Lemma ghost_w_inv P n s t s' : CInv n s' -> CInv n (ghost_w P s t s').
Proof. intros I. unfold ghost_w. destruct (w_pc (c_wr s t)); apply inv_set_rc; exact I. Qed.

Lemma cstep_inv P n s t ch s' l : 1 <= n < 2147483648 -> mo_sufficient P = true ->
  CInv n s -> cstep P s t ch = Some (s', l) -> CInv n s'.
Proof.
  intros Hn Hmo I H. unfold cstep in H. destruct (cstep0 P s t ch) as [[s1 l1]|] eqn:E; [|discriminate].
  pose proof (cstep0_inv P n s t ch s1 l1 Hn Hmo I E) as I1. inversion H; subst.
  destruct (Nat.eqb t 0); [apply ghost_r_inv|apply ghost_w_inv]; exact I1.
Qed.

(* ---- the theorems ---- *)
Definition valid_scripts (scripts : list (list (Z * Z))) : Prop := Forall (Forall nbvalid) scripts.

Theorem conc_reachable_inv P n locked tries kill scripts sched :
  1 <= n < 2147483648 -> valid_scripts scripts -> mo_sufficient P = true ->
  CInv n (exec csys (cstep P) (cinit n locked tries kill scripts) sched).
Proof.
  intros Hn Hs Hmo. apply inv_exec.
  - intros s t c s' l I H. apply (cstep_inv P n s t c s' l Hn Hmo I H).
  - apply cinit_inv; auto.
Qed.

Fixpoint is_prefix (a b : list (Z * Z * Z)) : Prop :=
  match a, b with
  | [], _ => True
  | x :: a', y :: b' => x = y /\ is_prefix a' b'
  | _ :: _, [] => False
  end.
Lemma prefix_app pre a b : is_prefix a b -> is_prefix (pre ++ a) (pre ++ b).
Proof. induction pre; simpl; auto. Qed.
Lemma prefix_firstn k (l : list (Z * Z * Z)) : is_prefix (firstn k l) l.
Proof. revert k. induction l; destruct k; simpl; auto. Qed.

(* every reachable state, for every schedule, number of (locked) writers, ring size, kill point:
   no plain read of a data line outside the reader's view, no store into an unread message, and
   what the reader was given is a prefix of what was committed (line, length, payload tag) *)
Theorem conc_inv_reachable P n locked tries kill scripts sched :
  1 <= n < 2147483648 -> valid_scripts scripts -> mo_sufficient P = true ->
  let s := exec csys (cstep P) (cinit n locked tries kill scripts) sched in
  c_uncov s = 0%nat /\ c_overlap s = 0%nat /\
  (exists consumed, c_committed s = consumed ++ c_unread s /\
     (c_delivered s = consumed \/ exists m rest, c_unread s = m :: rest /\ c_delivered s = consumed ++ [m])) /\
  is_prefix (c_delivered s) (c_committed s) /\
  Forall (mok s) (c_unread s).
Proof.
  intros Hn Hs Hmo s. pose proof (conc_reachable_inv P n locked tries kill scripts sched Hn Hs Hmo) as I. fold s in I.
  destruct I. destruct g_ghost0 as (pre & A & B).
  split; [exact g_uncov0|]. split; [exact g_overlap0|]. split; [|split; [|exact g_mok0]].
  - exists pre. split; [exact A|]. unfold inflight in B. unfold RK in g_rk0.
    destruct (r_pc (c_rd s)); try (left; rewrite B; apply app_nil_r).
    destruct g_rk0 as (m & rest & EU & _). right. exists m, rest. rewrite B, EU. auto.
  - rewrite A, B. apply prefix_app. unfold inflight. destruct (r_pc (c_rd s)); try exact Logic.I. apply prefix_firstn.
Qed.

(* crash safety: the writer(s) stop for good after ANY schedule (they are simply never scheduled
   again); whatever the reader does afterwards, it is given only whole committed messages, in commit
   order, with their exact length and payload, from covered lines *)
Theorem conc_crash_safe P n locked tries kill scripts sched rsched :
  1 <= n < 2147483648 -> valid_scripts scripts -> mo_sufficient P = true ->
  (forall tc, In tc rsched -> fst tc = 0%nat) ->
  let s1 := exec csys (cstep P) (cinit n locked tries kill scripts) sched in
  let s2 := exec csys (cstep P) s1 rsched in
  c_committed s2 = c_committed s1 /\ is_prefix (c_delivered s2) (c_committed s1) /\ c_uncov s2 = 0%nat.
Proof.
  intros Hn Hs Hmo Hr s1 s2.
  pose proof (conc_inv_reachable P n locked tries kill scripts (sched ++ rsched) Hn Hs Hmo) as H.
  cbv zeta in H. rewrite exec_app in H. fold s1 in H. fold s2 in H.
  destruct H as (U & _ & _ & Pf & _).
  destruct (C08.ProofsConc.reader_only_frame P rsched s1 Hr) as (Cm & _). fold s2 in Cm.
  rewrite <- Cm. auto.
Qed.
