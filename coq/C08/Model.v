(* C08 — shared-memory ring buffer, sequential core: executable model transcribing
   muggle/c/sync/shm_ring_buffer.c (update_cached_remain, w_alloc_bytes/_cachelines, w_move,
   r_fetch, r_move) over a BYTE memory of n cache lines of 64 bytes: message headers are the
   two little-endian uint32 fields {n_bytes, n_cachelines} at the start of a line, payload
   bytes follow the header, so a stale payload can be read as a header exactly as in the C
   code.  uint32 / int32 conversions of the cursor arithmetic are written explicitly.
   Definitions only; proofs are in ProofsSeq.v / ProofsDrain.v. *)
From Coq Require Export List ZArith Lia Bool.
From MV Require C20.Model.
Export ListNotations.
Local Open Scope Z_scope.

(* MUGGLE_CACHE_LINE_SIZE and sizeof(muggle_shm_ringbuf_data_hdr_t); Properties_C08.v checks
   these literals against the values re-extracted from the headers (gen/Params_C08.v). *)
Definition CL : Z := 64.
Definition HDR : Z := 8.

Definition u32 (x : Z) : Z := x mod 4294967296.
Definition s32 (x : Z) : Z := let y := u32 x in if y <? 2147483648 then y else y - 4294967296.

(* ---- byte memory ---- *)
Definition sub (m : list Z) (off len : Z) : list Z :=
  firstn (Z.to_nat len) (skipn (Z.to_nat off) m).
Definition blit (m : list Z) (off : Z) (d : list Z) : list Z :=
  firstn (Z.to_nat off) m ++ d ++ skipn (Z.to_nat off + length d) m.

Definition enc32 (v : Z) : list Z :=
  [v mod 256; (v / 256) mod 256; (v / 65536) mod 256; (v / 16777216) mod 256].
Definition dec32 (l : list Z) : Z :=
  match l with
  | [a; b; c; d] => a + 256 * b + 65536 * c + 16777216 * d
  | _ => 0
  end.

Record ring := {
  n_cl : Z;          (* n_cacheline *)
  wcur : Z;          (* write_cursor *)
  rcur : Z;          (* read_cursor *)
  crem : Z;          (* cached_remain *)
  w_hdr : Z;         (* cached_w_hdr, as a line index (-1 = NULL) *)
  r_hdr : Z;         (* cached_r_hdr, as a line index (-1 = NULL) *)
  mem : list Z;      (* the n_cl * 64 data bytes after the ring header *)
}.

Definition hdr_nbytes (m : list Z) (l : Z) : Z := dec32 (sub m (CL * l) 4).
Definition hdr_ncl (m : list Z) (l : Z) : Z := dec32 (sub m (CL * l + 4) 4).
(* hdr->n_bytes = nb; hdr->n_cachelines = nc;  (two 4-byte stores) *)
Definition set_hdr (m : list Z) (l nb nc : Z) : list Z :=
  blit (blit m (CL * l) (enc32 nb)) (CL * l + 4) (enc32 nc).

(* MUGGLE_SHM_RINGBUF_CAL_BYTES_CACHELINE: ROUND_UP(sizeof(hdr)+n, 64)/64 + 2 (size_t arithmetic) *)
Definition cal_cachelines (nb : Z) : Z := (HDR + nb + (CL - 1)) / CL + 2.

(* ---- muggle_shm_ringbuf_open: the size computation (uint32 arithmetic as coded) ----
   sizeof(muggle_shm_ringbuf_t), the 4K page of MUGGLE_SHM_ALIGN_4K_PAGE and the magic word; Properties_C08.v
   checks RHDR against the value re-extracted from the headers *)
Definition RHDR : Z := 960.
Definition PAGE : Z := 4096.
Definition MAGIC : Z := 1297303629.
(* MUGGLE_ROUND_UP_POW_OF_2_MUL(x, m) = ((x)+(m)-1) & ~((m)-1) with x a uint32 and m an int constant *)
Definition round_up32 (x m : Z) : Z := Z.land (u32 (x + m - 1)) (u32 (- m)).
(* muggle_next_pow_of_2 (uint64): the model of C20 (tied to the C text there by gen_npo2_eq) *)
Definition npo2 (x : Z) : Z := Z.of_N (MV.C20.Model.model_npo2 (Z.to_N x)).
(* (n_cacheline, data_bytes = the ring's n_bytes, total_bytes = the size asked from muggle_shm_open) *)
Definition open_sizes (nbytes : Z) : Z * Z * Z :=
  if nbytes =? 0 then (0, 0, 0)
  else
    let data0 := round_up32 nbytes CL in
    let n0 := data0 / CL in
    let n := u32 (npo2 n0) in
    let data := u32 (n * CL) in
    let total0 := u32 (RHDR + data) in
    (n, data, round_up32 total0 PAGE).

(* muggle_shm_ringbuf_open with MUGGLE_SHM_FLAG_CREAT (the fields the operations use); the data
   area is filled with 0xAB by the drivers so that stale bytes are deterministic *)
Definition init (n : Z) : ring :=
  {| n_cl := n; wcur := 0; rcur := 0; crem := u32 (n - 1); w_hdr := -1; r_hdr := -1;
     mem := repeat 171 (Z.to_nat (CL * n)) |}.

Definition set_crem (s : ring) (c : Z) : ring :=
  {| n_cl := n_cl s; wcur := wcur s; rcur := rcur s; crem := c; w_hdr := w_hdr s; r_hdr := r_hdr s; mem := mem s |}.

(* muggle_shm_ringbuf_update_cached_remain *)
Definition update_cached_remain (s : ring) (req : Z) : ring :=
  let r_pos := rcur s in
  if r_pos >? wcur s then set_crem s (u32 (r_pos - wcur s - 1))
  else
    let right_remain := u32 (n_cl s - wcur s - 1) in
    let left_remain := s32 r_pos - 1 in
    if right_remain >=? req then set_crem s right_remain
    else if left_remain >=? s32 req then
      (* fill up current hdr 0 and move w to 0 *)
      {| n_cl := n_cl s; wcur := 0; rcur := rcur s; crem := u32 left_remain;
         w_hdr := w_hdr s; r_hdr := r_hdr s; mem := set_hdr (mem s) (wcur s) 0 0 |}
    else s.

(* muggle_shm_ringbuf_w_alloc_cachelines: result = byte offset of the payload in the data area *)
Definition alloc_finish (s1 : ring) (nb nc : Z) : ring * option Z :=
  ({| n_cl := n_cl s1; wcur := wcur s1; rcur := rcur s1; crem := crem s1;
      w_hdr := wcur s1; r_hdr := r_hdr s1; mem := set_hdr (mem s1) (wcur s1) nb nc |},
   Some (CL * wcur s1 + HDR)).
Definition w_alloc_cachelines (s : ring) (nb nc : Z) : ring * option Z :=
  if crem s <? nc then
    let s1 := update_cached_remain s nc in
    if crem s1 <? nc then (s1, None) else alloc_finish s1 nb nc
  else alloc_finish s nb nc.

Definition w_alloc_bytes (s : ring) (nb : Z) : ring * option Z :=
  w_alloc_cachelines s nb (cal_cachelines nb).

(* muggle_shm_ringbuf_w_move *)
Definition w_move (s : ring) : ring :=
  let n := hdr_ncl (mem s) (w_hdr s) in
  {| n_cl := n_cl s; wcur := u32 (wcur s + n); rcur := rcur s; crem := u32 (crem s - n);
     w_hdr := w_hdr s; r_hdr := r_hdr s; mem := mem s |}.

Definition set_r (s : ring) (r rh : Z) : ring :=
  {| n_cl := n_cl s; wcur := wcur s; rcur := r; crem := crem s; w_hdr := w_hdr s; r_hdr := rh; mem := mem s |}.

(* muggle_shm_ringbuf_r_fetch: result = (payload byte offset, n_bytes) *)
Definition r_fetch (s : ring) : ring * option (Z * Z) :=
  let w_pos := wcur s in
  if w_pos =? rcur s then (s, None)
  else
    let s1 := set_r s (rcur s) (rcur s) in
    if negb (hdr_nbytes (mem s1) (r_hdr s1) =? 0) then
      (s1, Some (CL * r_hdr s1 + HDR, hdr_nbytes (mem s1) (r_hdr s1)))
    else if w_pos =? 0 then (s1, None)
    else
      let s2 := set_r s1 0 0 in
      if negb (hdr_nbytes (mem s2) 0 =? 0) then (s2, Some (CL * 0 + HDR, hdr_nbytes (mem s2) 0))
      else (s2, None).

(* muggle_shm_ringbuf_r_move *)
Definition r_move (s : ring) : ring :=
  set_r s (u32 (rcur s + hdr_ncl (mem s) (r_hdr s))) (r_hdr s).

(* the user's plain write into the region returned by w_alloc *)
Definition user_write (s : ring) (off : Z) (d : list Z) : ring :=
  {| n_cl := n_cl s; wcur := wcur s; rcur := rcur s; crem := crem s; w_hdr := w_hdr s;
     r_hdr := r_hdr s; mem := blit (mem s) off d |}.

(* ---- usage protocol shared by both drivers (DESIGN.md Appendix B): message length 0 .. 2^31 - 1 (length 0 is
   executed as the code executes it: its header is indistinguishable from the wrap marker; the property speaks
   of lengths >= 1 and its theorems carry that hypothesis, [sized] below);
   an explicit footprint (w_alloc_cachelines) holds the message (>= CAL_BYTES_CACHELINE(n_bytes), any slack) and is
   < 2^31; write / commit only with an outstanding successful allocation, inside its region;
   r_move only after a successful fetch.  Operations outside the protocol are skipped by
   both drivers (RSkip), so [run] is total over every op list. ---- *)
Record harness := { hr : ring; h_alloc : option (Z * Z) (* offset, nbytes *); h_fetched : bool }.

Inductive op :=
  | OAlloc (nb : Z)            (* muggle_shm_ringbuf_w_alloc_bytes *)
  | OAllocCl (nb nc : Z)       (* muggle_shm_ringbuf_w_alloc_cachelines: footprint nc >= the lines nb needs *)
  | OWrite (at_ : Z) (d : list Z) | OCommit | OFetch | ORMove.
Inductive res :=
  | RAlloc (o : option Z) | RSkip | RDone | RFetch (o : option (Z * Z * list Z)).

Definition hinit (n : Z) : harness := {| hr := init n; h_alloc := None; h_fetched := false |}.
(* the ring as muggle_shm_ringbuf_open creates it for a request of nbytes *)
Definition hopen (nbytes : Z) : harness := hinit (fst (fst (open_sizes nbytes))).

Definition step (h : harness) (o : op) : harness * res :=
  match o with
  | OAlloc nb =>
    if (0 <=? nb) && (nb <? 2147483648) then
      let (s', r) := w_alloc_bytes (hr h) nb in
      ({| hr := s'; h_alloc := match r with Some off => Some (off, nb) | None => h_alloc h end;
          h_fetched := h_fetched h |}, RAlloc r)
    else (h, RSkip)
  | OAllocCl nb nc =>
    if (0 <=? nb) && (nb <? 2147483648) && (cal_cachelines nb <=? nc) && (nc <? 2147483648) then
      let (s', r) := w_alloc_cachelines (hr h) nb nc in
      ({| hr := s'; h_alloc := match r with Some off => Some (off, nb) | None => h_alloc h end;
          h_fetched := h_fetched h |}, RAlloc r)
    else (h, RSkip)
  | OWrite a d =>
    match h_alloc h with
    | Some (off, nb) =>
      if (0 <=? a) && (a + Z.of_nat (length d) <=? nb) then
        ({| hr := user_write (hr h) (off + a) d; h_alloc := h_alloc h; h_fetched := h_fetched h |}, RDone)
      else (h, RSkip)
    | None => (h, RSkip)
    end
  | OCommit =>
    match h_alloc h with
    | Some _ => ({| hr := w_move (hr h); h_alloc := None; h_fetched := h_fetched h |}, RDone)
    | None => (h, RSkip)
    end
  | OFetch =>
    let (s', r) := r_fetch (hr h) in
    match r with
    | Some (off, nb) =>
      ({| hr := s'; h_alloc := h_alloc h; h_fetched := true |}, RFetch (Some (off, nb, sub (mem s') off nb)))
    | None => ({| hr := s'; h_alloc := h_alloc h; h_fetched := h_fetched h |}, RFetch None)
    end
  | ORMove =>
    if h_fetched h then
      ({| hr := r_move (hr h); h_alloc := h_alloc h; h_fetched := false |}, RDone)
    else (h, RSkip)
  end.

(* the property's size hypothesis: every allocation asks for at least 1 byte *)
Definition sized_op (o : op) : Prop :=
  match o with OAlloc nb => 1 <= nb | OAllocCl nb _ => 1 <= nb | _ => True end.
Definition sized (ops : list op) : Prop := Forall sized_op ops.

Fixpoint run (h : harness) (ops : list op) : harness * list res :=
  match ops with
  | [] => (h, [])
  | o :: r => let (h1, x) := step h o in let (h2, xs) := run h1 r in (h2, x :: xs)
  end.

(* ---- known finding (DESIGN.md 3.2): "a drained ring always accepts a message of up to half
   its size".  A ring drained at line p accepts [need] lines iff need <= max (n-1-p) (p-1)
   (ProofsDrain.v); the known class is: drained ring, message of 1 .. n*64/2 bytes whose
   footprint does not fit. ---- *)
Definition drained_fit (n p need : Z) : bool := need <=? Z.max (n - 1 - p) (p - 1).
Definition in_known_class (n p nb : Z) : bool :=
  (1 <=? nb) && (nb <=? (CL / 2) * n) && negb (drained_fit n p (cal_cachelines nb)).
