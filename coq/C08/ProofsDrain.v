(* C08 — the drained ring: exact acceptance condition, the "half the ring" clause refuted
   (known finding, DESIGN.md 3.2). *)
From MV Require Import C08.Model C08.ProofsMem C08.ProofsSeq.
Local Open Scope Z_scope.

Definition accepts (h : harness) (nb : Z) : Prop :=
  exists off, snd (step h (OAlloc nb)) = RAlloc (Some off).

Section Drain.
Variable n : Z.
Hypothesis Hn : 1 <= n < 2147483648.

(* a ring drained at line p (write cursor = read cursor = p, hence nothing unread) accepts a message
   exactly when its footprint fits into the larger of the two free stretches n-1-p and p-1;
   when it does not fit, nothing changes (so it will be refused for ever) *)
Lemma drained_alloc h q p nb : Inv n h q -> wcur (hr h) = p -> rcur (hr h) = p -> 1 <= nb < 2147483648 ->
  (accepts h nb <-> cal_cachelines nb <= Z.max (n - 1 - p) (p - 1)) /\
  (~ accepts h nb -> step h (OAlloc nb) = (h, RAlloc None)).
Proof.
  intros [IR IP IF] Hw Hr Hnb. pose proof (cal_bounds nb ltac:(lia)) as (K1 & K2 & K3).
  pose proof (cal_lt nb Hnb) as K4.
  destruct IR as [In Il Iw Ir Ic Iok Ish].
  destruct Ish as [(A & T & C)|(A & _)]; [|lia].
  unfold accepts, step.
  replace ((0 <=? nb) && (nb <? 2147483648)) with true
    by (symmetry; apply andb_true_intro; split; [apply Z.leb_le|apply Z.ltb_lt]; lia).
  unfold w_alloc_bytes, w_alloc_cachelines.
  destruct (Z.ltb_spec (crem (hr h)) (cal_cachelines nb)) as [C1|C1].
  - unfold update_cached_remain. rewrite Z.gtb_ltb.
    destruct (Z.ltb_spec (wcur (hr h)) (rcur (hr h))) as [X|_]; [lia|].
    rewrite In. rewrite (u32_id (n - wcur (hr h) - 1)) by lia. rewrite (s32_id (rcur (hr h))) by lia.
    rewrite (s32_id (cal_cachelines nb)) by lia. rewrite !Z.geb_leb.
    destruct (Z.leb_spec (cal_cachelines nb) (n - wcur (hr h) - 1)) as [R|R].
    + unfold set_crem. psimpl. destruct (Z.ltb_spec (n - wcur (hr h) - 1) (cal_cachelines nb)); [lia|].
      unfold alloc_finish. psimpl. split; [split; [lia|eexists; reflexivity]|].
      intros X. exfalso. apply X. eexists; reflexivity.
    + destruct (Z.leb_spec (cal_cachelines nb) (rcur (hr h) - 1)) as [L|L].
      * psimpl. rewrite u32_id by lia. destruct (Z.ltb_spec (rcur (hr h) - 1) (cal_cachelines nb)); [lia|].
        unfold alloc_finish. psimpl. split; [split; [lia|eexists; reflexivity]|].
        intros X. exfalso. apply X. eexists; reflexivity.
      * destruct (Z.ltb_spec (crem (hr h)) (cal_cachelines nb)); [|lia]. psimpl.
        split; [split; [intros (off & X); discriminate|lia]|].
        intros _. destruct h as [s a f]. reflexivity.
  - unfold alloc_finish. psimpl. split; [split; [lia|eexists; reflexivity]|].
    intros X. exfalso. apply X. eexists; reflexivity.
Qed.

Lemma max_half p : 0 <= p <= n - 1 -> n / 2 - 1 <= Z.max (n - 1 - p) (p - 1).
Proof. intros. pose proof (Z.div_mod n 2 ltac:(lia)). pose proof (Z.mod_pos_bound n 2 ltac:(lia)). lia. Qed.

(* P_partial: outside the known class a drained ring accepts every message of at most half the
   ring's bytes; in particular every footprint of at most n/2 - 1 lines is always accepted *)
Lemma drained_accepts_outside_class h q p nb : Inv n h q -> wcur (hr h) = p -> rcur (hr h) = p ->
  1 <= nb <= (CL / 2) * n -> nb < 2147483648 -> in_known_class n p nb = false -> accepts h nb.
Proof.
  intros I Hw Hr Hnb Hlt Hk. assert (Hnb' : 1 <= nb < 2147483648) by lia.
  destruct (drained_alloc h q p nb I Hw Hr Hnb') as [Hiff _]. apply Hiff.
  unfold in_known_class, drained_fit in Hk.
  replace (1 <=? nb) with true in Hk by (symmetry; apply Z.leb_le; lia).
  replace (nb <=? CL / 2 * n) with true in Hk by (symmetry; apply Z.leb_le; lia).
  simpl in Hk. apply negb_false_iff in Hk. apply Z.leb_le in Hk. exact Hk.
Qed.
Lemma drained_accepts_small h q p nb : Inv n h q -> wcur (hr h) = p -> rcur (hr h) = p ->
  1 <= nb < 2147483648 -> cal_cachelines nb <= n / 2 - 1 -> accepts h nb.
Proof.
  intros I Hw Hr Hnb Hs. destruct (drained_alloc h q p nb I Hw Hr Hnb) as [Hiff _]. apply Hiff.
  destruct I as [[In Il Iw Ir Ic Iok Ish] _ _]. pose proof (max_half p ltac:(lia)). lia.
Qed.

(* once refused on a drained ring, refused for ever: retries and fetches change nothing *)
Lemma refused_for_ever h q p nb ops : Inv n h q -> wcur (hr h) = p -> rcur (hr h) = p ->
  1 <= nb < 2147483648 -> ~ accepts h nb ->
  Forall (fun o => o = OAlloc nb \/ o = OFetch) ops ->
  fst (run h ops) = h /\ Forall (fun r => r = RAlloc None \/ r = RFetch None) (snd (run h ops)).
Proof.
  intros I Hw Hr Hnb Hno Hops. induction Hops as [|o r Ho Hr' IH]; simpl; [split; [reflexivity|constructor]|].
  assert (E : step h o = (h, match o with OAlloc _ => RAlloc None | _ => RFetch None end)).
  { destruct Ho as [->| ->].
    - destruct (drained_alloc h q p nb I Hw Hr Hnb) as [_ X]. apply X. exact Hno.
    - unfold step, r_fetch. rewrite Hw, Hr, Z.eqb_refl. destruct h; reflexivity. }
  rewrite E. destruct (run h r) as [h2 xs] eqn:R. simpl in *. destruct IH as [IH1 IH2]. split; [exact IH1|].
  constructor; [|exact IH2]. destruct Ho as [->| ->]; auto.
Qed.
End Drain.

(* P_refuted: witness n = 8, drained at p = 4 = n/2 after one 100-byte message (4 lines) was sent
   and consumed; a second 100-byte message (footprint 4 = n/2 lines, 100 <= 256 = half the ring's
   bytes) is in the known class and is refused, whatever number of retries / fetches follow *)
Definition wit_pre : list op := [OAlloc 100; OWrite 0 [1; 2; 3]; OCommit; OFetch; ORMove].
Definition wit_h : harness := fst (run (hinit 8) wit_pre).

Lemma wit_w : wcur (hr wit_h) = 4. Proof. vm_compute. reflexivity. Qed.
Lemma wit_r : rcur (hr wit_h) = 4. Proof. vm_compute. reflexivity. Qed.
Lemma wit_a : h_alloc wit_h = None. Proof. vm_compute. reflexivity. Qed.
Lemma wit_f : snd (step wit_h OFetch) = RFetch None. Proof. vm_compute. reflexivity. Qed.
Lemma wit_inv : Inv 8 wit_h (snd (reach (hinit 8) [] wit_pre)).
Proof.
  unfold wit_h. rewrite <- (reach_run wit_pre (hinit 8) []). apply reach_inv; [lia| |apply init_inv; lia].
  unfold wit_pre, sized. repeat constructor; cbn [sized_op]; lia.
Qed.
Lemma wit_refused : ~ accepts wit_h 100.
Proof.
  intros Acc.
  destruct (drained_alloc 8 ltac:(lia) wit_h _ 4 100 wit_inv wit_w wit_r ltac:(lia)) as [Hiff _].
  apply Hiff in Acc. vm_compute in Acc. apply Acc. reflexivity.
Qed.
Lemma wit_for_ever : forall ops, Forall (fun o => o = OAlloc 100 \/ o = OFetch) ops ->
  Forall (fun r => r = RAlloc None \/ r = RFetch None) (snd (run wit_h ops)).
Proof.
  intros ops Hops.
  exact (proj2 (refused_for_ever 8 ltac:(lia) wit_h _ 4 100 ops wit_inv wit_w wit_r ltac:(lia) wit_refused Hops)).
Qed.

Lemma drained_half_witness :
  exists n pre p nb,
    let h := fst (run (hinit n) pre) in
    wcur (hr h) = p /\ rcur (hr h) = p /\ h_alloc h = None /\ snd (step h OFetch) = RFetch None /\
    cal_cachelines nb <= n / 2 /\ 1 <= nb <= (CL / 2) * n /\ in_known_class n p nb = true /\
    (forall ops, Forall (fun o => o = OAlloc nb \/ o = OFetch) ops ->
       Forall (fun r => r = RAlloc None \/ r = RFetch None) (snd (run h ops))).
Proof.
  exists 8, wit_pre, 4, 100. change (fst (run (hinit 8) wit_pre)) with wit_h. cbv zeta.
  split; [exact wit_w|]. split; [exact wit_r|]. split; [exact wit_a|]. split; [exact wit_f|].
  split; [vm_compute; discriminate|]. split; [split; vm_compute; discriminate|].
  split; [vm_compute; reflexivity|]. exact wit_for_ever.
Qed.

(* ---- the same with an explicit footprint (w_alloc_cachelines): a ring drained at line p accepts a request
   for nc lines (nc at least what the message needs) exactly when nc <= max (n-1-p) (p-1) ---- *)
Definition accepts_cl (h : harness) (nb nc : Z) : Prop :=
  exists off, snd (step h (OAllocCl nb nc)) = RAlloc (Some off).

Lemma drained_alloc_cl n h q p nb nc : 1 <= n < 2147483648 ->
  Inv n h q -> wcur (hr h) = p -> rcur (hr h) = p -> 1 <= nb < 2147483648 -> cal_cachelines nb <= nc < 2147483648 ->
  (accepts_cl h nb nc <-> nc <= Z.max (n - 1 - p) (p - 1)) /\
  (~ accepts_cl h nb nc -> step h (OAllocCl nb nc) = (h, RAlloc None)).
Proof.
  intros Hn [IR IP IF] Hw Hr Hnb Hnc. pose proof (cal_bounds nb ltac:(lia)) as (K1 & K2 & K3).
  destruct IR as [In Il Iw Ir Ic Iok Ish].
  destruct Ish as [(A & T & C)|(A & _)]; [|lia].
  unfold accepts_cl, step.
  replace ((0 <=? nb) && (nb <? 2147483648) && (cal_cachelines nb <=? nc) && (nc <? 2147483648)) with true
    by (symmetry; repeat (apply andb_true_intro; split); first [apply Z.leb_le|apply Z.ltb_lt]; lia).
  unfold w_alloc_cachelines.
  destruct (Z.ltb_spec (crem (hr h)) nc) as [C1|C1].
  - unfold update_cached_remain. rewrite Z.gtb_ltb.
    destruct (Z.ltb_spec (wcur (hr h)) (rcur (hr h))) as [X|_]; [lia|].
    rewrite In. rewrite (u32_id (n - wcur (hr h) - 1)) by lia. rewrite (s32_id (rcur (hr h))) by lia.
    rewrite (s32_id nc) by lia. rewrite !Z.geb_leb.
    destruct (Z.leb_spec nc (n - wcur (hr h) - 1)) as [R|R].
    + unfold set_crem. psimpl. destruct (Z.ltb_spec (n - wcur (hr h) - 1) nc); [lia|].
      unfold alloc_finish. psimpl. split; [split; [lia|eexists; reflexivity]|].
      intros X. exfalso. apply X. eexists; reflexivity.
    + destruct (Z.leb_spec nc (rcur (hr h) - 1)) as [L|L].
      * psimpl. rewrite u32_id by lia. destruct (Z.ltb_spec (rcur (hr h) - 1) nc); [lia|].
        unfold alloc_finish. psimpl. split; [split; [lia|eexists; reflexivity]|].
        intros X. exfalso. apply X. eexists; reflexivity.
      * destruct (Z.ltb_spec (crem (hr h)) nc); [|lia]. psimpl.
        split; [split; [intros (off & X); discriminate|lia]|].
        intros _. destruct h as [s a f]. reflexivity.
  - unfold alloc_finish. psimpl. split; [split; [lia|eexists; reflexivity]|].
    intros X. exfalso. apply X. eexists; reflexivity.
Qed.

(* non-vacuity: fixed 8-line slots on a ring of 32 lines; after three slots were sent and consumed the ring is
   drained at line 24: a fourth slot does not fit on the right (7 lines) but fits on the left (23): it wraps *)
Example drained_cl_example :
  let h := fst (run (hinit 32) [OAllocCl 10 8; OCommit; OAllocCl 300 8; OCommit; OAllocCl 47 8; OCommit;
                                OFetch; ORMove; OFetch; ORMove; OFetch; ORMove]) in
  wcur (hr h) = 24 /\ rcur (hr h) = 24 /\ snd (step h (OAllocCl 100 8)) = RAlloc (Some 8) /\
  snd (step h (OAllocCl 100 24)) = RAlloc None.
Proof. vm_compute. repeat split; reflexivity. Qed.
