(* C08 — concurrent layer: what is proved here is the FRAME half of crash safety (once the writer has
   stopped, at any state whatsoever, the reader's steps never write a data line, never change the
   committed list, and everything they deliver is read from the header / payload words as they are in
   memory at that moment), the parameter obligation on the memory orders, and concrete executions
   (non-vacuity, necessity of the release store, a writer killed inside update_cached_remain).
   NOT proved (see Properties_C08.v): the reachable-state invariant for all interleavings. *)
From MV Require Import C08.Model C08.ModelConc.
Local Open Scope Z_scope.

(* a reader step leaves the writer-owned part of the state alone and appends at most one delivery,
   which is exactly what the header and payload words at the fetched line say *)
Lemma rstep_frame P s s' l : rstep P s = Some (s', l) ->
  c_committed s' = c_committed s /\ c_w s' = c_w s /\ c_crem s' = c_crem s /\
  c_hN s' = c_hN s /\ c_hC s' = c_hC s /\ c_body s' = c_body s /\ c_ver s' = c_ver s /\
  c_overlap s' = c_overlap s /\ c_wr s' = c_wr s /\
  (c_delivered s' = c_delivered s \/
   exists ln, c_delivered s' = c_delivered s ++ [(ln, c_hN s ln, c_body s ln)] /\ (ln = c_r s \/ ln = 0)).
Proof.
  unfold rstep, r_got, r_null. intros H.
  destruct (r_pc (c_rd s)); try discriminate;
    repeat match goal with
    | H : context [if ?b then _ else _] |- _ => destruct b
    end; inversion H; subst; clear H; simpl;
    repeat split; auto; try (right; eexists; split; [reflexivity|auto]; fail).
Qed.

Lemma exec1_reader P s c :
  exec1 csys (cstep P) s (0%nat, c) = match rstep P s with Some (s', _) => ghost_r P s s' | None => s end.
Proof. unfold exec1, cstep, cstep0. simpl. destruct (rstep P s) as [[s' l]|]; reflexivity. Qed.

(* the read-coverage layer touches none of the fields of the base layer *)
Lemma ghost_r_frame P s s' :
  c_committed (ghost_r P s s') = c_committed s' /\ c_w (ghost_r P s s') = c_w s' /\ c_crem (ghost_r P s s') = c_crem s' /\
  c_hN (ghost_r P s s') = c_hN s' /\ c_hC (ghost_r P s s') = c_hC s' /\ c_body (ghost_r P s s') = c_body s' /\
  c_ver (ghost_r P s s') = c_ver s' /\ c_overlap (ghost_r P s s') = c_overlap s' /\ c_wr (ghost_r P s s') = c_wr s' /\
  c_delivered (ghost_r P s s') = c_delivered s' /\ c_r (ghost_r P s s') = c_r s' /\ c_rd (ghost_r P s s') = c_rd s' /\
  c_unread (ghost_r P s s') = c_unread s' /\ c_uncov (ghost_r P s s') = c_uncov s'.
Proof.
  unfold ghost_r, rc_read, rc_publish.
  destruct (r_pc (c_rd s)); repeat match goal with |- context [if ?b then _ else _] => destruct b end;
    repeat split; reflexivity.
Qed.

(* schedules in which only the reader (thread 0) runs: the writer has stopped for good *)
Lemma reader_only_frame P sched : forall s, (forall tc, In tc sched -> fst tc = 0%nat) ->
  let s' := exec csys (cstep P) s sched in
  c_committed s' = c_committed s /\ c_w s' = c_w s /\
  c_hN s' = c_hN s /\ c_hC s' = c_hC s /\ c_body s' = c_body s /\ c_overlap s' = c_overlap s /\
  exists extra, c_delivered s' = c_delivered s ++ extra /\
    Forall (fun d => exists ln, d = (ln, c_hN s ln, c_body s ln)) extra.
Proof.
  induction sched as [|[t c] sched IH]; intros s Hall; simpl.
  - repeat split; auto. exists []. rewrite app_nil_r. split; [reflexivity|constructor].
  - assert (Ht : t = 0%nat) by (apply (Hall (t, c)); left; reflexivity). subst t.
    change (exec csys (cstep P) s ((0%nat, c) :: sched)) with (exec csys (cstep P) (exec1 csys (cstep P) s (0%nat, c)) sched).
    rewrite exec1_reader.
    destruct (rstep P s) as [[s1 l]|] eqn:E.
    + destruct (rstep_frame P s s1 l E) as (A1 & A2 & A3 & A4 & A5 & A6 & A7 & A8 & A9 & A10).
      destruct (ghost_r_frame P s s1) as (G1 & G2 & G3 & G4 & G5 & G6 & G7 & G8 & G9 & G10 & _).
      rewrite <- G1 in A1. rewrite <- G2 in A2. rewrite <- G4 in A4. rewrite <- G5 in A5. rewrite <- G6 in A6.
      rewrite <- G8 in A8. rewrite <- G10 in A10.
      set (s1g := ghost_r P s s1) in *.
      destruct (IH s1g ltac:(intros tc Hin; apply Hall; right; exact Hin)) as (B1 & B2 & B4 & B5 & B6 & B8 & extra & B10 & B11).
      cbv zeta in *. rewrite B1, B2, B4, B5, B6, B8, A1, A2, A4, A5, A6, A8. repeat split; auto.
      destruct A10 as [A10|(ln & A10 & _)].
      * exists extra. rewrite B10, A10. split; [reflexivity|]. rewrite A4, A6 in B11. exact B11.
      * exists ((ln, c_hN s ln, c_body s ln) :: extra). rewrite B10, A10, <- app_assoc. split; [reflexivity|].
        constructor; [eexists; reflexivity|]. rewrite A4, A6 in B11. exact B11.
    + apply IH. intros tc Hin; apply Hall; right; exact Hin.
Qed.

(* ---- concrete executions ---- *)
Definition P_code : params :=
  {| mo_w_load_r := Rlx; mo_w_store_wrap := Rel; mo_w_store_commit := Rel; mo_r_load_w := Acq;
     mo_r_store_wrap := Rlx; mo_r_store_move := Rel; mo_lock_tas := Acq; mo_lock_clear := Rel |}.
Definition P_weak : params :=
  {| mo_w_load_r := Rlx; mo_w_store_wrap := Rel; mo_w_store_commit := Rlx; mo_r_load_w := Acq;
     mo_r_store_wrap := Rlx; mo_r_store_move := Rel; mo_lock_tas := Acq; mo_lock_clear := Rel |}.

Definition rr (k : nat) (t : nat) : list (nat * nat) := repeat (t, 0%nat) k.

(* writer sends two messages, then the reader drains: both delivered in order, views cover every read *)
Example conc_nonvacuous :
  let s := exec csys (cstep P_code) (cinit 8 false 2 None [[(1, 11); (60, 12)]]) (rr 12 1 ++ rr 30 0) in
  c_committed s = [(0, 1, 11); (3, 60, 12)] /\ c_delivered s = c_committed s /\ c_unread s = [] /\
  c_uncov s = 0%nat /\ c_overlap s = 0%nat /\ r_pc (c_rd s) = RDone.
Proof. vm_compute. repeat split; reflexivity. Qed.

(* with the commit store relaxed the same execution reads a header its view does not cover *)
Example conc_release_necessary :
  let s := exec csys (cstep P_weak) (cinit 8 false 2 None [[(1, 11); (60, 12)]]) (rr 12 1 ++ rr 30 0) in
  (0 < c_uncov s)%nat /\ mo_sufficient P_weak = false /\ mo_sufficient P_code = true.
Proof. vm_compute. repeat split; auto. Qed.

(* the writer is killed right after its 4th atomic operation = the wrap store inside
   update_cached_remain (marker written, write_cursor = 0, no header at line 0 yet): the reader,
   running alone afterwards, delivers exactly the two committed messages and stops *)
Example conc_writer_killed_in_wrap :
  let s0 := cinit 8 false 2 (Some 4%nat) [[(100, 1); (1, 2); (1, 3)]] in
  let s1 := exec csys (cstep P_code) s0 (rr 5 1 ++ rr 4 0 ++ rr 12 1) in
  let s2 := exec csys (cstep P_code) s1 (rr 40 0) in
  w_pc (c_wr s1 1%nat) = WDone /\ c_w s1 = 0 /\ c_r s1 = 4 /\ c_hN s1 7 = 0 /\
  c_committed s1 = [(0, 100, 1); (4, 1, 2)] /\ c_delivered s1 = [(0, 100, 1)] /\
  c_delivered s2 = c_committed s1 /\ c_uncov s2 = 0%nat /\ r_pc (c_rd s2) = RDone.
Proof. vm_compute. repeat split; reflexivity. Qed.
