(* C08 — second tie (DESIGN.md 4.4): the integer content of update_cached_remain,
   w_alloc_cachelines, w_alloc_bytes, w_move, r_fetch and r_move, sliced out of the C text of this
   run and translated to Gallina (the gen_ definitions of gen/Params_C08.v), equals reference functions (ref_ below) on the
   whole domain of the ring (n < 2^31, cursors inside the ring), and the model's functions
   (C08/Model.v) equal the same references.  The gen = ref proofs are independent of the SHAPE
   of the generated terms: everything is unfolded to integer arithmetic, every `if` is split
   and the branches are decided by time-limited lia, so a behaviour-preserving rewrite of the C
   text keeps the obligations and a change of a value anywhere in the domain breaks them.
   Message headers are abstracted to two word arrays hN / hC indexed by line (n_bytes /
   n_cachelines); the link lemmas say which header the model writes or reads at that line. *)
From MV Require Import Lib.Leaf C08.Model C08.ProofsSeq C08.GenTac gen.Params_C08.
From Coq Require Import ZifyBool.
Local Open Scope Z_scope.
Ltac Zify.zify_post_hook ::= Z.to_euclidean_division_equations.

(* ---- reference functions (plain integer arithmetic) ---- *)
(* (cached_remain', write_cursor', marker written at the old write_cursor?) *)
Definition ref_update (n w r cr req : Z) : Z * Z * bool :=
  if r >? w then (r - w - 1, w, false)
  else if n - w - 1 >=? req then (n - w - 1, w, false)
  else if r - 1 >=? req then (r - 1, 0, true)
  else (cr, w, false).

(* [mark] (the wrap marker written into a header word array) is defined in C08/GenTac.v *)

Definition ref_update_full (cr : Z) (hC hN : list Z) (n r w req : Z) : Z * list Z * list Z * Z :=
  let '(c', w', wr) := ref_update n w r cr req in (c', mark wr hC w, mark wr hN w, w').

(* (result: 0 = NULL, line + 1 otherwise; cached_remain'; hC'; hN'; line of cached_w_hdr'; write_cursor') *)
Definition ref_alloc (cr : Z) (hC hN : list Z) (n r whl w nb nc : Z) : Z * Z * list Z * list Z * Z * Z :=
  let '(c1, w1, wr) := if cr <? nc then ref_update n w r cr nc else (cr, w, false) in
  if c1 <? nc then (0, c1, mark wr hC w, mark wr hN w, whl, w1)
  else (w1 + 1, c1, lset (mark wr hC w) w1 nc, lset (mark wr hN w) w1 nb, w1, w1).

Definition ref_w_move (cr x w : Z) : Z * Z := ((cr - x) mod 4294967296, (w + x) mod 4294967296).
Definition ref_r_move (x r : Z) : Z := (r + x) mod 4294967296.

(* (result: 0 = NULL, line + 1; *n_bytes'; line of cached_r_hdr'; read_cursor') with x = n_bytes word at
   the read cursor, y = n_bytes word at line 0 *)
Definition ref_fetch (x y out rhl r w : Z) : Z * Z * Z * Z :=
  if w =? r then (0, out, rhl, r)
  else if negb (x =? 0) then (r + 1, x, r, r)
  else if w =? 0 then (0, out, r, r)
  else if negb (y =? 0) then (1, y, 0, 0)
  else (0, out, 0, 0).

Definition dom (n w r cr : Z) : Prop :=
  1 <= n < 2147483648 /\ 0 <= w <= n - 1 /\ 0 <= r <= n - 1 /\ 0 <= cr < 4294967296.

(* ---- generated = reference ---- *)
Lemma gen_update_ref cr hC hN n r w req : dom n w r cr -> 0 <= req < 2147483648 ->
  gen_update_cached_remain cr hC hN n r w req = ref_update_full cr hC hN n r w req.
Proof.
  intros (Hn & Hw & Hr & Hc) Hq. unfold gen_update_cached_remain, ref_update_full, ref_update. leaf_decide.
Qed.

Lemma gen_alloc_ref cr hC hN n r whl w nb nc : dom n w r cr -> 0 <= nc < 2147483648 ->
  gen_w_alloc_cachelines cr hC hN n r whl w nb nc = ref_alloc cr hC hN n r whl w nb nc.
Proof.
  intros (Hn & Hw & Hr & Hc) Hq. unfold gen_w_alloc_cachelines, ref_alloc, ref_update. leaf_decide.
Qed.

Lemma gen_w_move_ref cr hC whl w :
  gen_w_move cr hC whl w = ref_w_move cr (lget hC whl) w.
Proof.
  unfold gen_w_move, ref_w_move. generalize (lget hC whl). intros x. leaf_decide.
Qed.

Lemma gen_r_move_ref hC rhl r : gen_r_move hC rhl r = ref_r_move (lget hC rhl) r.
Proof.
  unfold gen_r_move, ref_r_move. generalize (lget hC rhl). intros x. leaf_decide.
Qed.

Lemma gen_fetch_ref hN out rhl r w : 0 <= r < 4294967296 ->
  gen_r_fetch hN out rhl r w = ref_fetch (lget hN r) (lget hN 0) out rhl r w.
Proof.
  intros Hr. unfold gen_r_fetch, ref_fetch.
  change (wrapu 32 0) with 0.
  generalize (lget hN r) (lget hN 0). intros x y. leaf_decide.
Qed.

Lemma gen_alloc_bytes_ref cr hC hN n r whl w nb : dom n w r cr -> 0 <= nb < 2147483648 ->
  gen_w_alloc_bytes cr hC hN n r whl w nb = ref_alloc cr hC hN n r whl w nb (cal_cachelines nb).
Proof.
  intros (Hn & Hw & Hr & Hc) Hq. unfold gen_w_alloc_bytes, ref_alloc, ref_update, cal_cachelines, CL, HDR. leaf_decide.
Qed.

(* ---- model = reference (the model's functions of C08/Model.v on any ring of the domain) ---- *)
Definition sdom (s : ring) : Prop := dom (n_cl s) (wcur s) (rcur s) (Model.crem s).

Lemma model_update_ref s req : sdom s -> 0 <= req < 2147483648 ->
  update_cached_remain s req =
  let '(c', w', wr) := ref_update (n_cl s) (wcur s) (rcur s) (Model.crem s) req in
  {| n_cl := n_cl s; wcur := w'; rcur := rcur s; Model.crem := c'; w_hdr := w_hdr s; r_hdr := r_hdr s;
     mem := if wr then set_hdr (mem s) (wcur s) 0 0 else mem s |}.
Proof.
  intros (Hn & Hw & Hr & Hc) Hq. destruct s as [n w r c wh rh m]. simpl in *.
  unfold update_cached_remain, ref_update, set_crem. simpl.
  destruct (r >? w) eqn:E1.
  - rewrite u32_id by lia. reflexivity.
  - rewrite (u32_id (n - w - 1)) by lia. rewrite (s32_id r) by lia. rewrite (s32_id req) by lia.
    destruct (n - w - 1 >=? req) eqn:E2; [reflexivity|].
    destruct (r - 1 >=? req) eqn:E3; [|reflexivity].
    rewrite u32_id by lia. reflexivity.
Qed.

Lemma model_alloc_ref s nb nc : sdom s -> 0 <= nc < 2147483648 ->
  w_alloc_cachelines s nb nc =
  let '(c1, w1, wr) := if Model.crem s <? nc then ref_update (n_cl s) (wcur s) (rcur s) (Model.crem s) nc
                       else (Model.crem s, wcur s, false) in
  let m1 := if wr then set_hdr (mem s) (wcur s) 0 0 else mem s in
  if c1 <? nc then
    ({| n_cl := n_cl s; wcur := w1; rcur := rcur s; Model.crem := c1; w_hdr := w_hdr s; r_hdr := r_hdr s; mem := m1 |}, None)
  else
    ({| n_cl := n_cl s; wcur := w1; rcur := rcur s; Model.crem := c1; w_hdr := w1; r_hdr := r_hdr s;
        mem := set_hdr m1 w1 nb nc |}, Some (CL * w1 + HDR)).
Proof.
  intros D Hq. unfold w_alloc_cachelines.
  destruct (Model.crem s <? nc) eqn:E0.
  - rewrite (model_update_ref s nc D Hq).
    destruct (ref_update (n_cl s) (wcur s) (rcur s) (Model.crem s) nc) as [[c1 w1] wr]. simpl.
    destruct (c1 <? nc); reflexivity.
  - simpl. rewrite E0. unfold alloc_finish. destruct s; reflexivity.
Qed.

Lemma model_w_move_ref s :
  w_move s =
  let '(c', w') := ref_w_move (Model.crem s) (hdr_ncl (mem s) (w_hdr s)) (wcur s) in
  {| n_cl := n_cl s; wcur := w'; rcur := rcur s; Model.crem := c'; w_hdr := w_hdr s; r_hdr := r_hdr s; mem := mem s |}.
Proof. reflexivity. Qed.

Lemma model_r_move_ref s :
  r_move s = set_r s (ref_r_move (hdr_ncl (mem s) (r_hdr s)) (rcur s)) (r_hdr s).
Proof. reflexivity. Qed.

Lemma model_fetch_ref s out : 0 <= rcur s ->
  r_fetch s =
  let '(ret, out', rhl', r') := ref_fetch (hdr_nbytes (mem s) (rcur s)) (hdr_nbytes (mem s) 0) out (r_hdr s) (rcur s) (wcur s) in
  (set_r s r' rhl', if ret =? 0 then None else Some (CL * (ret - 1) + HDR, out')).
Proof.
  intros H0. unfold r_fetch, ref_fetch. destruct s as [n w r c wh rh m]. simpl in *.
  destruct (w =? r) eqn:E0; [reflexivity|]. unfold set_r. simpl.
  destruct (negb (hdr_nbytes m r =? 0)) eqn:E1.
  - simpl. replace (r + 1 =? 0) with false by (symmetry; apply Z.eqb_neq; lia).
    replace (r + 1 - 1) with r by lia. reflexivity.
  - destruct (w =? 0) eqn:E2; [reflexivity|].
    destruct (negb (hdr_nbytes m 0 =? 0)) eqn:E3; reflexivity.
Qed.
