(* C08 — concurrent layer, the reader -> writer direction of the hand-over: the reader's plain reads of a
   message are complete before a writer stores into those lines again (read-before-overwrite coverage,
   ghost layer of C08/ModelConc.v: c_repoch / c_rver / c_rstamp / c_lrstamp / c_wrseen / c_rrace).
   Invariant RC, on top of the reachable-state invariant CInv of C08/ProofsConcInv.v:
     - a line whose latest read is not yet published on read_cursor is one the reader still owns (the
       message it is consuming, or the header / marker at its cursor while something is pending there);
     - every line a writer may store into according to what it knows (its cached room, the room it derives
       from the read cursor it loaded, the room it got with the lock) has its latest read known to that
       writer;
   hence no store of a writer hits a line with an unpublished read: c_rrace = 0 in every reachable state,
   provided r_move's store of read_cursor is a release (mo_sufficient). *)
From MV Require Import C08.Model C08.ModelConc C08.ProofsSeq C08.ProofsConc C08.ProofsConcInv.
Local Open Scope Z_scope.

(* lines that are free with respect to the true cursors *)
Definition Fr (s : csys) (l : Z) : Prop :=
  (c_r s <= c_w s /\ (c_w s <= l \/ l < c_r s)) \/ (c_w s < c_r s /\ c_w s <= l < c_r s).

(* lines the reader may have read since its last publication *)
Definition live (s : csys) (l : Z) : Prop :=
  match r_pc (c_rd s) with
  | RStoreMove v => c_r s <= l < v
  | _ => l = c_r s /\ (c_unread s <> [] \/ c_w s < c_r s)
  end.

Definition wroom (s : csys) (l : Z) : Prop := c_w s <= l <= c_w s + c_crem s.

(* lines writer t may store into according to what it knows, by program point *)
Definition kroom (s : csys) (t : nat) (l : Z) : Prop :=
  match w_pc (c_wr s t) with
  | WSegAlloc | WLoadR | WSegC _ | WClear _ _ => wroom s l
  | WSegUpd r_obs =>
    wroom s l \/ (c_w s < r_obs /\ c_w s <= l <= r_obs - 1) \/
    (r_obs <= c_w s /\ (c_w s <= l <= c_n s - 1 \/ 0 <= l <= r_obs - 1))
  | WStoreWrap lft => 0 <= l <= lft
  | WSegWrapped lft => 0 <= l <= lft
  | WStoreCommit a need => c_w s <= l <= c_w s + c_crem s + need
  | p => idle p /\ c_locked s = false /\ t = 1%nat /\ wroom s l
  end.

Record RC (s : csys) : Prop := {
  rc_ver : forall l, (c_rver s l <= c_repoch s)%nat;
  rc_live : forall l, (c_rstamp s < c_rver s l)%nat -> live s l;
  rc_know : forall t l, kroom s t l -> (c_rver s l <= c_wrseen s t)%nat;
  rc_lock : c_locked s = true -> c_lock s = 0 -> forall l, wroom s l -> (c_rver s l <= c_lrstamp s)%nat;
  rc_race : c_rrace s = 0%nat;
}.

Lemma rc_init n locked tries kill scripts : RC (cinit n locked tries kill scripts).
Proof.
  unfold cinit. constructor; csimpl; auto; intros; lia.
Qed.

(* ---- the reader's lines and the writers' lines are disjoint ---- *)
Lemma room_free s k l : room s k -> c_w s <= l <= c_w s + k -> Fr s l.
Proof. unfold room, Fr. intros [R|R] H; lia. Qed.

Lemma kroom_free n s t l : CInv n s -> kroom s t l -> Fr s l.
Proof.
  intros I H. pose proof (g_wk n s I t) as K. pose proof (g_n n s I) as Bn. pose proof (g_r n s I) as Br.
  pose proof (g_w n s I) as Bw.
  unfold kroom in H. unfold WK in K. unfold wroom in *.
  assert (Hidle : idle (w_pc (c_wr s t)) /\ c_locked s = false /\ t = 1%nat /\ c_w s <= l <= c_w s + c_crem s -> Fr s l).
  { intros (Hi & L & T1 & R). subst t. pose proof (g_crem n s I) as C. rewrite L in C.
    destruct (C Hi) as (_ & C2). apply (room_free s (c_crem s)); auto. }
  destruct (w_pc (c_wr s t)) eqn:Epc; try (apply Hidle; exact H).
  - destruct K as (_ & C2). apply (room_free s (c_crem s)); auto.
  - destruct K as (_ & C2). apply (room_free s (c_crem s)); auto.
  - destruct K as ((_ & C2) & Rb & K1 & K2).
    destruct H as [H|[(Lt & H)|(Ge & H)]].
    + apply (room_free s (c_crem s)); auto.
    + unfold Fr. destruct (K1 Lt) as [(X & Y)|X]; lia.
    + destruct (K2 Ge) as (X & Y). unfold Fr. lia.
  - destruct K as (K1 & K2 & _). unfold Fr. lia.
  - destruct K as (K1 & K2 & K3). apply (room_free s left l K3). lia.
  - destruct K as (_ & _ & R & _). apply (room_free s (c_crem s + need) l R). lia.
  - destruct K as (_ & C2). apply (room_free s (c_crem s)); auto.
  - destruct K as (_ & C2). apply (room_free s (c_crem s)); auto.
Qed.

Lemma lockroom_free n s l : CInv n s -> c_locked s = true -> c_lock s = 0 -> wroom s l -> Fr s l.
Proof.
  intros I L L0 H. pose proof (g_crem n s I) as C. rewrite L in C. destruct (C L0) as (_ & C2).
  apply (room_free s (c_crem s)); auto.
Qed.

(* the message at the read cursor lies outside the free lines *)
Lemma head_not_free n s m rest l : CInv n s -> c_unread s = m :: rest -> mline m = c_r s ->
  c_r s <= l < c_r s + mneed m -> ~ Fr s l.
Proof.
  intros I EU L H F. pose proof (g_shape n s I) as Sh.
  destruct Sh as [(A & T)|(A & U1 & U2 & p & E & T1 & P & M & V & T2)].
  - rewrite EU in T. simpl in T. destruct T as (_ & _ & T). apply ctiles_le in T. unfold Fr in F. lia.
  - unfold Fr in F. lia.
Qed.
Lemma cursor_not_free n s : CInv n s -> (c_unread s <> [] \/ c_w s < c_r s) -> ~ Fr s (c_r s).
Proof.
  intros I H F. pose proof (g_shape n s I) as Sh.
  destruct Sh as [(A & T)|(A & _)]; [|unfold Fr in F; lia].
  destruct H as [H|H]; [|lia]. unfold Fr in F.
  assert (E : c_w s = c_r s) by lia. rewrite E in T. apply ctiles_eq_nil in T. contradiction.
Qed.

Lemma live_not_free n s l : CInv n s -> live s l -> ~ Fr s l.
Proof.
  intros I H. unfold live in H. pose proof (g_rk n s I) as K. unfold RK in K.
  destruct (r_pc (c_rd s)) eqn:Epc; try (destruct H as (-> & H); apply (cursor_not_free n s I H)).
  destruct K as (m & rest & EU & L & Ev). subst v. apply (head_not_free n s m rest l I EU L H).
Qed.

(* a free line has its latest read published *)
Lemma free_published n s l : CInv n s -> RC s -> Fr s l -> (c_rver s l <= c_rstamp s)%nat.
Proof.
  intros I R F. destruct (Nat.le_gt_cases (c_rver s l) (c_rstamp s)) as [H|H]; [exact H|].
  exfalso. apply (live_not_free n s l I (rc_live s R l H) F).
Qed.

(* ---- reader steps ---- *)
Definition same_w (s s1 : csys) : Prop :=
  c_w s1 = c_w s /\ c_crem s1 = c_crem s /\ c_wr s1 = c_wr s /\ c_locked s1 = c_locked s /\ c_lock s1 = c_lock s /\
  c_n s1 = c_n s.
Definition same_rc (s s1 : csys) : Prop :=
  c_repoch s1 = c_repoch s /\ c_rver s1 = c_rver s /\ c_rstamp s1 = c_rstamp s /\ c_lrstamp s1 = c_lrstamp s /\
  c_wrseen s1 = c_wrseen s /\ c_rrace s1 = c_rrace s.

Lemma kroom_same s s1 t l : same_w s s1 -> kroom s1 t l <-> kroom s t l.
Proof. intros (A & B & C & D & E & F). unfold kroom, wroom. rewrite A, B, C, D, F. tauto. Qed.
Lemma wroom_same s s1 l : same_w s s1 -> wroom s1 l <-> wroom s l.
Proof. intros (A & B & _). unfold wroom. rewrite A, B. tauto. Qed.

Lemma rc_hop_step s s1 : RC s -> same_w s s1 -> same_rc s s1 -> (forall l, live s l -> live s1 l) -> RC s1.
Proof.
  intros R W (E1 & E2 & E3 & E4 & E5 & E6) Hl. pose proof W as (A & B & C & D & E & F). destruct R.
  constructor; rewrite ?E1, ?E2, ?E3, ?E4, ?E5, ?E6; auto.
  - intros t l K. apply rc_know0. apply (kroom_same s s1 t l W). exact K.
  - rewrite D, E. intros L L0 l K. apply rc_lock0; auto. apply (wroom_same s s1 l W). exact K.
Qed.

Lemma rc_read_step n s s1 a b : CInv n s -> RC s -> same_w s s1 -> same_rc s s1 ->
  (forall l, a <= l < b -> ~ Fr s l) -> (forall l, a <= l < b -> live s1 l) ->
  (forall l, live s l -> live s1 l) -> RC (rc_read s1 a b).
Proof.
  intros I R W (E1 & E2 & E3 & E4 & E5 & E6) Hnf Hnew Hold. pose proof W as (A & B & C & D & E & F).
  assert (Hin : forall l, a <= l < b -> frange (c_rver s) a b (S (c_repoch s)) l = S (c_repoch s)).
  { intros l Hl. unfold frange. destruct (Z.leb_spec a l); destruct (Z.ltb_spec l b); simpl; auto; lia. }
  assert (Hout : forall l, ~ (a <= l < b) -> frange (c_rver s) a b (S (c_repoch s)) l = c_rver s l).
  { intros l Hl. apply frange_out. lia. }
  assert (Dec : forall l, a <= l < b \/ ~ (a <= l < b)) by (intros l; lia).
  unfold rc_read. rewrite E1, E2, E3, E4, E5, E6.
  constructor; csimpl.
  - intros l. destruct (Dec l) as [Hl|Hl]; [rewrite Hin by exact Hl; lia|rewrite Hout by exact Hl].
    pose proof (rc_ver s R l). lia.
  - intros l H. unfold live. csimpl. fold (live s1 l).
    destruct (Dec l) as [Hl|Hl]; [apply Hnew; exact Hl|]. rewrite Hout in H by exact Hl.
    apply Hold. apply (rc_live s R l H).
  - intros t l K. assert (K' : kroom s t l).
    { apply (kroom_same s s1 t l W). unfold kroom, wroom in *. csimpl. exact K. }
    destruct (Dec l) as [Hl|Hl]; [exfalso; apply (Hnf l Hl); apply (kroom_free n s t l I K')|].
    rewrite Hout by exact Hl. apply (rc_know s R t l K').
  - rewrite D, E. intros L L0 l K. assert (K' : wroom s l).
    { apply (wroom_same s s1 l W). unfold wroom in *. csimpl. exact K. }
    destruct (Dec l) as [Hl|Hl]; [exfalso; apply (Hnf l Hl); apply (lockroom_free n s l I L L0 K')|].
    rewrite Hout by exact Hl. apply (rc_lock s R L L0 l K').
  - apply (rc_race s R).
Qed.

Lemma rc_pub_step s s1 st : RC s -> same_w s s1 -> same_rc s s1 -> (c_repoch s <= st)%nat -> RC (rc_publish s1 st).
Proof.
  intros R W (E1 & E2 & E3 & E4 & E5 & E6) Hst. pose proof W as (A & B & C & D & E & F).
  unfold rc_publish. rewrite E1, E2, E4, E5, E6.
  constructor; csimpl.
  - apply (rc_ver s R).
  - intros l H. pose proof (rc_ver s R l). lia.
  - intros t l K. apply (rc_know s R). apply (kroom_same s s1 t l W). unfold kroom, wroom in *. csimpl. exact K.
  - rewrite D, E. intros L L0 l K. apply (rc_lock s R L L0). apply (wroom_same s s1 l W). unfold wroom in *. csimpl. exact K.
  - apply (rc_race s R).
Qed.

Ltac same_tac := unfold same_w, same_rc; csimpl; repeat split; reflexivity.

Lemma pay_end_le l nb : 1 <= nb -> l + 1 <= pay_end l nb /\ pay_end l nb = l + cal_cachelines nb - 2.
Proof. intros H. rewrite (pay_end_eq l nb H). pose proof (cal_bounds nb H). lia. Qed.

Lemma rc_rstep P n s s1 l : 1 <= n < 2147483648 -> is_rel (mo_r_store_move P) = true ->
  CInv n s -> RC s -> rstep P s = Some (s1, l) -> RC (ghost_r P s s1).
Proof.
  intros Hn Mr I R H. unfold rstep in H. pose proof (g_rk n s I) as K. unfold RK in K.
  unfold ghost_r.
  (* steps between program points that are not RStoreMove keep the reader's lines *)
  assert (Lv : forall s2, c_rd s2 = c_rd s2 -> c_r s2 = c_r s -> c_unread s2 = c_unread s -> c_w s2 = c_w s ->
          (forall v, r_pc (c_rd s) <> RStoreMove v) -> (forall v, r_pc (c_rd s2) <> RStoreMove v) ->
          forall l0, live s l0 -> live s2 l0).
  { intros s2 _ E1 E2 E3 N1 N2 l0. unfold live. rewrite E1, E2, E3.
    destruct (r_pc (c_rd s)) eqn:A; destruct (r_pc (c_rd s2)) eqn:B; auto;
      try (exfalso; eapply N1; reflexivity); try (exfalso; eapply N2; reflexivity). }
  destruct (r_pc (c_rd s)) eqn:Epc.
  - (* RSeg0 *)
    inversion H; subst; clear H. apply (rc_hop_step s); auto; try same_tac.
    apply Lv; csimpl; auto; try (intros v; rewrite ?Epc; discriminate).
  - (* RLoadW *)
    inversion H; subst; clear H. apply (rc_hop_step s); auto; try same_tac.
    apply Lv; csimpl; auto; try (intros v; rewrite ?Epc; discriminate).
  - (* RSegFetch *)
    assert (Hnull : forall s0 s2 l2, c_w s0 = c_w s -> c_r s0 = c_r s -> c_unread s0 = c_unread s ->
              r_null s0 (c_rd s) = (s2, l2) ->
              c_w s2 = c_w s0 /\ c_crem s2 = c_crem s0 /\ c_wr s2 = c_wr s0 /\ c_locked s2 = c_locked s0 /\
              c_lock s2 = c_lock s0 /\ c_n s2 = c_n s0 /\ c_repoch s2 = c_repoch s0 /\ c_rver s2 = c_rver s0 /\
              c_rstamp s2 = c_rstamp s0 /\ c_lrstamp s2 = c_lrstamp s0 /\ c_wrseen s2 = c_wrseen s0 /\
              c_rrace s2 = c_rrace s0 /\ c_r s2 = c_r s0 /\ c_unread s2 = c_unread s0 /\
              (forall v, r_pc (c_rd s2) <> RStoreMove v)).
    { intros s0 s2 l2 _ _ _ E. unfold r_null in E. destruct (r_done (c_rd s)); inversion E; subst; csimpl;
        repeat split; auto; intros v; discriminate. }
    destruct (Z.eqb_spec w_obs (c_r s)) as [E|E].
    + inversion H as [H1]. destruct (Hnull s s1 l eq_refl eq_refl eq_refl H1)
        as (A1 & A2 & A3 & A4 & A5 & A6 & A7 & A8 & A9 & A10 & A11 & A12 & A13 & A14 & A15).
      apply (rc_hop_step s); auto; try (unfold same_w, same_rc; repeat split; assumption).
      apply Lv; auto. intros v; try rewrite Epc; discriminate.
    + set (s0 := if Nat.leb (c_ver s (c_r s)) (r_seen (c_rd s)) then s
                 else set_ghost s (c_committed s) (c_unread s) (c_delivered s) (S (c_uncov s))) in *.
      assert (S0 : same_w s s0 /\ same_rc s s0 /\ c_r s0 = c_r s /\ c_unread s0 = c_unread s /\ c_rd s0 = c_rd s /\
                   c_hC s0 = c_hC s /\ c_hN s0 = c_hN s).
      { subst s0. destruct (Nat.leb (c_ver s (c_r s)) (r_seen (c_rd s))); unfold same_w, same_rc; csimpl; repeat split; reflexivity. }
      destruct S0 as (W0 & C0 & R0 & U0 & D0 & HC0 & HN0).
      destruct (K E) as [(m & rest & EU & L & V)|(M1 & M2 & M3 & M4 & M5)].
      * (* a message at the cursor *)
        destruct (head_mok s _ m rest (g_mok n s I) EU L) as (N1 & N2 & N3 & N4).
        pose proof (cal_bounds _ (proj1 N1)) as (K1 & K2 & K3). pose proof (cal_lt _ N1) as K4. fold (mneed m) in K1, K2, K3, K4.
        pose proof (g_r n s I) as Br. pose proof (pay_end_le (c_r s) (mnb m) (proj1 N1)) as (P1 & P2). fold (mneed m) in P2.
        rewrite N2 in *. replace (mnb m =? 0) with false in * by (symmetry; apply Z.eqb_neq; lia). cbn [negb] in *.
        unfold r_got in H. inversion H; subst s1 l; clear H.
        apply (rc_read_step n s _ _ _ I R).
        -- destruct W0 as (A1 & A2 & A3 & A4 & A5 & A6). unfold same_w. csimpl. repeat split; auto.
        -- destruct C0 as (A1 & A2 & A3 & A4 & A5 & A6). unfold same_rc. csimpl. repeat split; auto.
        -- intros l0 Hl. apply (head_not_free n s m rest l0 I EU L). lia.
        -- intros l0 Hl. unfold live. csimpl. rewrite R0, HC0, N3. rewrite u32_small by lia. lia.
        -- intros l0 Hl. unfold live in *. rewrite Epc in Hl. destruct Hl as (-> & _). csimpl.
           rewrite R0, HC0, N3. rewrite u32_small by lia. lia.
      * (* the wrap marker at the cursor *)
        rewrite M2 in *. cbn [negb Z.eqb] in *.
        assert (Hnf : forall l0, c_r s <= l0 < c_r s + 1 -> ~ Fr s l0).
        { intros l0 Hl. replace l0 with (c_r s) by lia. apply (cursor_not_free n s I). right. exact M1. }
        destruct (Z.eqb_spec w_obs 0) as [W0'|W0'].
        -- inversion H as [H1]. destruct (Hnull s0 s1 l (proj1 W0) R0 U0 H1)
             as (A1 & A2 & A3 & A4 & A5 & A6 & A7 & A8 & A9 & A10 & A11 & A12 & A13 & A14 & A15).
           destruct W0 as (B1 & B2 & B3 & B4 & B5 & B6). destruct C0 as (C1 & C2 & C3 & C4 & C5 & C6).
           apply (rc_read_step n s _ _ _ I R).
           ++ unfold same_w. repeat split; congruence.
           ++ unfold same_rc. repeat split; congruence.
           ++ exact Hnf.
           ++ intros l0 Hl. unfold live. assert (l0 = c_r s) by lia. subst l0.
              assert (Xw : c_w s1 = c_w s) by congruence. assert (Xr : c_r s1 = c_r s) by congruence.
              destruct (r_pc (c_rd s1)) eqn:B; try (exfalso; eapply A15; reflexivity); (split; [lia|right; lia]).
           ++ apply Lv; try congruence; intros v; try rewrite Epc; discriminate.
        -- inversion H; subst s1 l; clear H.
           destruct W0 as (B1 & B2 & B3 & B4 & B5 & B6). destruct C0 as (C1 & C2 & C3 & C4 & C5 & C6).
           apply (rc_read_step n s _ _ _ I R).
           ++ unfold same_w. csimpl. repeat split; congruence.
           ++ unfold same_rc. csimpl. repeat split; congruence.
           ++ exact Hnf.
           ++ intros l0 Hl. unfold live. csimpl. assert (l0 = c_r s) by lia. subst l0.
              split; [congruence|right; lia].
           ++ apply Lv; csimpl; try congruence; intros v; rewrite ?Epc; discriminate.
  - (* RStoreWrap *)
    inversion H; subst; clear H. apply (rc_pub_step s); auto; try same_tac.
  - (* RSegFetch2 *)
    destruct K as (K0 & (m & rest & EU & L & V)).
    destruct (head_mok s _ m rest (g_mok n s I) EU L) as (N1 & N2 & N3 & N4).
    pose proof (cal_bounds _ (proj1 N1)) as (K1 & K2 & K3). pose proof (cal_lt _ N1) as K4. fold (mneed m) in K1, K2, K3, K4.
    pose proof (pay_end_le 0 (mnb m) (proj1 N1)) as (P1 & P2). fold (mneed m) in P2.
    set (s0 := if Nat.leb (c_ver s 0) (r_seen (c_rd s)) then s
               else set_ghost s (c_committed s) (c_unread s) (c_delivered s) (S (c_uncov s))) in *.
    assert (S0 : same_w s s0 /\ same_rc s s0 /\ c_r s0 = c_r s /\ c_unread s0 = c_unread s /\ c_rd s0 = c_rd s /\
                 c_hC s0 = c_hC s /\ c_hN s0 = c_hN s).
    { subst s0. destruct (Nat.leb (c_ver s 0) (r_seen (c_rd s))); unfold same_w, same_rc; csimpl; repeat split; reflexivity. }
    destruct S0 as (W0 & C0 & R0 & U0 & D0 & HC0 & HN0).
    rewrite N2 in *. replace (mnb m =? 0) with false in * by (symmetry; apply Z.eqb_neq; lia). cbn [negb] in *.
    unfold r_got in H. inversion H; subst s1 l; clear H.
    apply (rc_read_step n s _ _ _ I R).
    + destruct W0 as (A1 & A2 & A3 & A4 & A5 & A6). unfold same_w. csimpl. repeat split; auto.
    + destruct C0 as (A1 & A2 & A3 & A4 & A5 & A6). unfold same_rc. csimpl. repeat split; auto.
    + intros l0 Hl. apply (head_not_free n s m rest l0 I EU); [congruence|]. rewrite K0. lia.
    + intros l0 Hl. unfold live. csimpl. rewrite R0, HC0, N3, K0. rewrite u32_small by lia. lia.
    + intros l0 Hl. unfold live in *. rewrite Epc in Hl. destruct Hl as (-> & _). csimpl.
      rewrite R0, HC0, N3, K0. rewrite u32_small by lia. lia.
  - (* RStoreMove: the release store publishes every read so far *)
    inversion H; subst; clear H. unfold rel_stamp. rewrite Mr. apply (rc_pub_step s); auto; try same_tac.
  - (* RIdle *)
    inversion H; subst; clear H. apply (rc_hop_step s); auto; try same_tac.
    apply Lv; csimpl; auto; try (intros v0; rewrite ?Epc; discriminate).
  - (* RFin *)
    inversion H; subst; clear H. apply (rc_hop_step s); auto; try same_tac.
    apply Lv; csimpl; auto; try (intros v0; rewrite ?Epc; discriminate).
  - discriminate.
Qed.

(* ---- writer steps ---- *)
Lemma no_overwrite s s1 rs :
  (forall l, 0 <= l < c_n s -> c_ver s1 l <> c_ver s l -> (c_rver s l <= rs)%nat) -> unread_overwritten s s1 rs = false.
Proof.
  intros H. unfold unread_overwritten. apply not_true_is_false. intros E.
  apply existsb_exists in E. destruct E as (i & Hin & E). apply in_seq in Hin.
  apply andb_prop in E as [E1 E2]. apply negb_true_iff in E1. apply negb_true_iff in E2.
  apply Nat.eqb_neq in E1. apply Nat.leb_gt in E2.
  specialize (H (Z.of_nat i) ltac:(lia) E1). lia.
Qed.

Lemma kroom_inactive s u l : active (w_pc (c_wr s u)) = false -> (c_locked s = true \/ u <> 1%nat) -> ~ kroom s u l.
Proof.
  intros A H K. unfold kroom in K. destruct (w_pc (c_wr s u)); simpl in A; try discriminate;
    destruct K as (_ & L & T1 & _); destruct H; congruence.
Qed.

(* the part of a writer step the coverage invariant looks at: nothing of the reader changes, the lines stored
   into and the lines the writer may store into afterwards lie in [room0] *)
Definition wout (s s1 : csys) (t : nat) (room0 : Z -> Prop) : Prop :=
  c_rd s1 = c_rd s /\ c_r s1 = c_r s /\ c_unread s1 = c_unread s /\ c_w s1 = c_w s /\ c_locked s1 = c_locked s /\
  c_lock s1 = c_lock s /\ c_n s1 = c_n s /\ same_rc s s1 /\
  (forall u, u <> t -> c_wr s1 u = c_wr s u) /\
  (forall l, c_ver s1 l <> c_ver s l -> room0 l) /\
  (forall l, kroom s1 t l -> room0 l).

Lemma live_same s s1 l : c_rd s1 = c_rd s -> c_r s1 = c_r s ->
  ((c_unread s <> [] \/ c_w s < c_r s) -> (c_unread s1 <> [] \/ c_w s1 < c_r s1)) -> live s l -> live s1 l.
Proof. intros E1 E2 H. unfold live. rewrite E1, E2. rewrite E2 in H. destruct (r_pc (c_rd s)); tauto. Qed.

(* assembling RC after a writer step *)
Lemma rc_writer s s1 lrst' wrs' race' : RC s ->
  c_rd s1 = c_rd s -> c_r s1 = c_r s ->
  ((c_unread s <> [] \/ c_w s < c_r s) -> (c_unread s1 <> [] \/ c_w s1 < c_r s1)) ->
  (forall u l, kroom s1 u l -> (c_rver s l <= wrs' u)%nat) ->
  (c_locked s1 = true -> c_lock s1 = 0 -> forall l, wroom s1 l -> (c_rver s l <= lrst')%nat) ->
  race' = 0%nat ->
  RC (set_rc s1 (c_repoch s) (c_rver s) (c_rstamp s) lrst' wrs' race').
Proof.
  intros R E1 E2 Hne Hk Hl Hr. constructor; csimpl.
  - apply (rc_ver s R).
  - intros l H. pose proof (live_same s s1 l E1 E2 Hne (rc_live s R l H)) as X. unfold live in *. csimpl. exact X.
  - intros u l K. apply Hk. unfold kroom, wroom in *. csimpl. exact K.
  - intros L L0 l K. apply Hl; auto; unfold wroom in *; csimpl; exact K.
  - exact Hr.
Qed.

(* a step of writer t that keeps write_cursor, the lock and the unread list (all the plain segments) *)
Lemma rc_wout n s s1 t room0 (P : params) : CInv n s -> RC s -> wout s s1 t room0 ->
  (forall l, room0 l -> (c_rver s l <= c_wrseen s t)%nat) ->
  (forall u l, u <> t -> kroom s1 u l -> kroom s u l) ->
  (c_locked s = true -> c_lock s = 0 -> c_crem s1 = c_crem s) ->
  RC (set_rc s1 (c_repoch s) (c_rver s) (c_rstamp s) (c_lrstamp s) (c_wrseen s)
             (if unread_overwritten s s1 (c_wrseen s t) then S (c_rrace s) else c_rrace s)).
Proof.
  intros I R (E1 & E2 & E3 & E4 & E5 & E6 & E7 & E8 & Eo & Ev & Ek) Hcov Hoth Hlk.
  apply rc_writer; auto.
  - rewrite E3, E4, E2. tauto.
  - intros u l K. destruct (Nat.eq_dec u t) as [->|Ne].
    + apply Hcov. apply Ek. exact K.
    + apply (rc_know s R). apply (Hoth u l Ne K).
  - rewrite E5, E6. intros L L0 l K. apply (rc_lock s R L L0). unfold wroom in *. rewrite E4, (Hlk L L0) in K. exact K.
  - rewrite no_overwrite; [apply (rc_race s R)|]. intros l Hl Hv. apply Hcov. apply Ev. exact Hv.
Qed.

(* other writers: unchanged thread state and unchanged cached room *)
Lemma kroom_other_same s s1 u l : c_wr s1 u = c_wr s u -> c_w s1 = c_w s -> c_crem s1 = c_crem s -> c_n s1 = c_n s ->
  c_locked s1 = c_locked s -> kroom s1 u l -> kroom s u l.
Proof. intros A B C D E. unfold kroom, wroom. rewrite A, B, C, D, E. tauto. Qed.
(* other writers are inactive while t is the active one *)
Lemma kroom_other_inactive s s1 u l : c_wr s1 u = c_wr s u -> c_locked s1 = c_locked s ->
  active (w_pc (c_wr s u)) = false -> (c_locked s = true \/ u <> 1%nat) -> kroom s1 u l -> kroom s u l.
Proof.
  intros A E Ha H K. exfalso. apply (kroom_inactive s1 u l); rewrite ?A, ?E; auto.
Qed.

Lemma upd_other {A} (f : nat -> A) t x u : u <> t -> upd f t x u = f u.
Proof. intros H. unfold upd. destruct (Nat.eqb_spec u t); [contradiction|reflexivity]. Qed.
Lemma upd_same {A} (f : nat -> A) t x : upd f t x t = x.
Proof. unfold upd. rewrite Nat.eqb_refl. reflexivity. Qed.

Lemma wout_intro s s1 t (room0 : Z -> Prop) :
  c_rd s1 = c_rd s -> c_r s1 = c_r s -> c_unread s1 = c_unread s -> c_w s1 = c_w s -> c_locked s1 = c_locked s ->
  c_lock s1 = c_lock s -> c_n s1 = c_n s ->
  c_repoch s1 = c_repoch s -> c_rver s1 = c_rver s -> c_rstamp s1 = c_rstamp s -> c_lrstamp s1 = c_lrstamp s ->
  c_wrseen s1 = c_wrseen s -> c_rrace s1 = c_rrace s ->
  (forall u, u <> t -> c_wr s1 u = c_wr s u) ->
  (forall l, c_ver s1 l <> c_ver s l -> room0 l) ->
  (forall l, kroom s1 t l -> room0 l) -> wout s s1 t room0.
Proof. intros. unfold wout, same_rc. tauto. Qed.

Lemma wout_finish s t notes nb tag rest s1 l1 :
  w_script (c_wr s t) = (nb, tag) :: rest -> 1 <= nb < 2147483648 -> 0 <= c_crem s < 4294967296 ->
  cal_cachelines nb <= c_crem s -> w_finish s t (c_wr s t) notes = (s1, l1) -> wout s s1 t (wroom s).
Proof.
  intros Es Nb Cb Hc H. unfold w_finish in H. rewrite Es in H.
  pose proof (cal_bounds nb ltac:(lia)) as (K1 & K2 & K3).
  rewrite (pay_end_eq (c_w s) nb) in H by lia. rewrite u32_small in H by lia.
  inversion H; subst s1 l1; clear H. apply wout_intro; csimpl; auto.
  - intros u Ne. apply upd_other. exact Ne.
  - intros l0 Hv. unfold wroom.
    destruct (Z_lt_ge_dec l0 (c_w s)) as [A|A]; [rewrite frange_out in Hv by lia; contradiction|].
    destruct (Z_lt_ge_dec l0 (c_w s + cal_cachelines nb - 2)) as [B|B]; [lia|rewrite frange_out in Hv by lia; contradiction].
  - intros l0 K. unfold kroom in K. csimpl. rewrite upd_same in K. csimpl. unfold wroom. lia.
Qed.

Lemma wout_fail s t notes s1 l1 : w_fail s t (c_wr s t) notes = (s1, l1) -> wout s s1 t (wroom s).
Proof.
  intros H. unfold w_fail in H. destruct (c_locked s) eqn:L; inversion H; subst s1 l1; clear H;
    apply wout_intro; csimpl; auto; try (intros u Ne; apply upd_other; exact Ne);
    try (intros l0 Hv; contradiction).
  - intros l0 K. unfold kroom in K. csimpl. rewrite upd_same in K. csimpl. exact K.
  - intros l0 K. unfold kroom in K. csimpl. rewrite upd_same in K. csimpl. tauto.
Qed.

Lemma wout_alloc1 s t notes s1 l1 :
  (forall nb tag rest, w_script (c_wr s t) = (nb, tag) :: rest -> 1 <= nb < 2147483648) ->
  0 <= c_crem s < 4294967296 -> w_alloc1 s t (c_wr s t) notes = (s1, l1) ->
  (w_script (c_wr s t) = [] /\ s1 = s) \/ wout s s1 t (wroom s).
Proof.
  intros Hs Cb H. unfold w_alloc1 in H.
  destruct (w_script (c_wr s t)) as [|[nb tag] rest] eqn:Es; [left; inversion H; auto|]. right.
  destruct (Z.ltb_spec (c_crem s) (cal_cachelines nb)) as [Lt|Ge].
  - inversion H; subst s1 l1; clear H. apply wout_intro; csimpl; auto.
    + intros u Ne. apply upd_other. exact Ne.
    + intros l0 Hv. contradiction.
    + intros l0 K. unfold kroom in K. csimpl. rewrite upd_same in K. csimpl. exact K.
  - apply (wout_finish s t notes nb tag rest s1 l1 Es (Hs nb tag rest eq_refl) Cb Ge H).
Qed.

(* moving the outcome of a step taken from [set_crem s c] back to s *)
Lemma wout_crem s c s1 t (room0 : Z -> Prop) : wout (set_crem s c) s1 t (wroom (set_crem s c)) ->
  (forall l, c_w s <= l <= c_w s + c -> room0 l) -> wout s s1 t room0.
Proof.
  intros (E1 & E2 & E3 & E4 & E5 & E6 & E7 & (F1 & F2 & F3 & F4 & F5 & F6) & Eo & Ev & Ek) Hsub.
  unfold wroom in *. csimpl. apply wout_intro; auto.
Qed.

(* a state that differs only in writer thread states whose knowledge rooms did not grow *)
Lemma rc_weaken s1 s2 : RC s1 ->
  c_rd s2 = c_rd s1 -> c_r s2 = c_r s1 -> c_unread s2 = c_unread s1 -> c_w s2 = c_w s1 -> c_crem s2 = c_crem s1 ->
  c_locked s2 = c_locked s1 -> c_lock s2 = c_lock s1 -> same_rc s1 s2 ->
  (forall u l, kroom s2 u l -> kroom s1 u l) -> RC s2.
Proof.
  intros R E1 E2 E3 E4 E5 E6 E7 (F1 & F2 & F3 & F4 & F5 & F6) Hk. destruct R.
  constructor; rewrite ?F1, ?F2, ?F3, ?F4, ?F5, ?F6; auto.
  - intros l H. specialize (rc_live0 l H). unfold live in *. rewrite E1, E2, E3, E4. exact rc_live0.
  - rewrite E6, E7. intros L L0 l K. apply rc_lock0; auto. unfold wroom in *. rewrite E4, E5 in K. exact K.
Qed.

Lemma overwritten_ver s s1 s2 rs : c_ver s2 = c_ver s1 -> unread_overwritten s s2 rs = unread_overwritten s s1 rs.
Proof. intros E. unfold unread_overwritten. rewrite E. reflexivity. Qed.

Lemma rc_kill P s t s1 l1 : RC (ghost_w P s t s1) -> RC (ghost_w P s t (fst (kill_check s t (s1, l1)))).
Proof.
  intros R. unfold kill_check. destruct l1 as [e| |]; auto. cbn [fst].
  assert (G : forall x'' d, (forall l, kroom (set_wr s1 t x'') t l -> kroom s1 t l) ->
            RC (ghost_w P s t (set_wdone (set_wr s1 t x'') d))).
  { intros x'' d Hk. apply (rc_weaken (ghost_w P s t s1)); auto;
      try (unfold ghost_w; destruct (w_pc (c_wr s t)); csimpl; reflexivity).
    - unfold ghost_w, same_rc.
      rewrite (overwritten_ver s s1 (set_wdone (set_wr s1 t x'') d)) by reflexivity.
      destruct (w_pc (c_wr s t)); csimpl; repeat split; reflexivity.
    - intros u l K.
      assert (K1 : kroom (set_wr s1 t x'') u l).
      { unfold ghost_w in K. unfold kroom, wroom in *. destruct (w_pc (c_wr s t)); csimpl; exact K. }
      assert (K2 : kroom s1 u l).
      { destruct (Nat.eq_dec u t) as [->|Ne]; [apply Hk; exact K1|].
        unfold kroom, wroom in *. csimpl. rewrite upd_other in K1 by exact Ne. exact K1. }
      unfold ghost_w. unfold kroom, wroom in *. destruct (w_pc (c_wr s t)); csimpl; exact K2. }
  assert (G0 : forall x'', (forall l, kroom (set_wr s1 t x'') t l -> kroom s1 t l) -> RC (ghost_w P s t (set_wr s1 t x''))).
  { intros x'' Hk. specialize (G x'' (c_wdone s1) Hk).
    apply (rc_weaken _ _ G); try (unfold ghost_w; destruct (w_pc (c_wr s t)); csimpl; reflexivity).
    - unfold ghost_w, same_rc.
      rewrite (overwritten_ver s (set_wdone (set_wr s1 t x'') (c_wdone s1)) (set_wr s1 t x'')) by reflexivity.
      destruct (w_pc (c_wr s t)); csimpl; repeat split; reflexivity.
    - intros u l K. unfold ghost_w in *. unfold kroom, wroom in *. destruct (w_pc (c_wr s t)); csimpl; exact K. }
  destruct (negb (Nat.eqb t 1) && is_atomic (e_op e) && proc_dead s).
  { cbn [fst]. apply G. intros l K. unfold kroom in K. csimpl. rewrite upd_same in K. csimpl. destruct K as ([] & _). }
  destruct (Nat.eqb t 1 && is_atomic (e_op e)); auto. cbn [fst].
  assert (Hsame : forall l, kroom (set_wr s1 t
            {| w_pc := w_pc (c_wr s1 t); w_script := w_script (c_wr s1 t); w_tries := w_tries (c_wr s1 t);
               w_pend := w_pend (c_wr s1 t); w_seen := w_seen (c_wr s1 t); w_ev := S (w_ev (c_wr s t)) |}) t l -> kroom s1 t l).
  { intros l K. unfold kroom, wroom in *. csimpl. rewrite upd_same in K. csimpl. exact K. }
  destruct (c_kill s) as [k|]; [|apply G0; exact Hsame].
  destruct (Nat.eqb k (S (w_ev (c_wr s t)))); [|apply G0; exact Hsame].
  apply G. intros l K. unfold kroom in K. csimpl. rewrite upd_same in K. csimpl. destruct K as ([] & _).
Qed.

Lemma crem_bounds n s : CInv n s -> 1 <= n < 2147483648 -> crem_ok s -> 0 <= c_crem s < 4294967296.
Proof.
  intros I Hn (C1 & C2). pose proof (g_w n s I). pose proof (g_r n s I). pose proof (g_n n s I).
  unfold room in C2. lia.
Qed.

(* a hop of writer t between program points whose knowledge room does not grow *)
Lemma rc_hop_w n s t x' (P : params) : CInv n s -> RC s ->
  (forall l, kroom (set_wr s t x') t l -> kroom s t l) ->
  RC (set_rc (set_wr s t x') (c_repoch s) (c_rver s) (c_rstamp s) (c_lrstamp s) (c_wrseen s)
             (if unread_overwritten s (set_wr s t x') (c_wrseen s t) then S (c_rrace s) else c_rrace s)).
Proof.
  intros I R Hk. apply (rc_wout n s (set_wr s t x') t (fun l => kroom s t l) P I R).
  - apply wout_intro; csimpl; auto.
    + intros u Ne. apply upd_other. exact Ne.
    + intros l Hv. contradiction.
  - intros l K. apply (rc_know s R t l K).
  - intros u l Ne K. unfold kroom, wroom in *. csimpl. rewrite upd_other in K by exact Ne. exact K.
  - reflexivity.
Qed.

Lemma rc_wstep P n s t s1 l1 : 1 <= n < 2147483648 ->
  is_acq (mo_lock_tas P) = true -> is_rel (mo_lock_clear P) = true ->
  CInv n s -> RC s -> (c_locked s = true \/ t = 1%nat) -> wstep P s t = Some (s1, l1) ->
  RC (ghost_w P s t s1).
Proof.
  intros Hn Mt Ml I R Hlt H. unfold wstep in H. unfold ghost_w.
  pose proof (g_wk n s I t) as K. unfold WK in K.
  pose proof (g_w n s I) as Bw. pose proof (g_r n s I) as Br. pose proof (g_n n s I) as Bn.
  assert (Hscr : forall nb tag rest, w_script (c_wr s t) = (nb, tag) :: rest -> 1 <= nb < 2147483648).
  { intros nb tag rest Es. apply (script_nb n s t nb tag rest I Es). }
  (* the other writers while t owns the ring *)
  assert (Hown : forall s2, wcond s t -> (forall u, u <> t -> c_wr s2 u = c_wr s u) -> c_locked s2 = c_locked s ->
            forall u l, u <> t -> kroom s2 u l -> kroom s u l).
  { intros s2 (W1 & W2 & W3) Eo El u l Ne K2.
    apply (kroom_other_inactive s s2 u l (Eo u Ne) El (W2 u Ne)); auto.
    destruct (c_locked s) eqn:L; [left; reflexivity|right; specialize (W1 eq_refl); congruence]. }
  assert (Hwoutown : forall s2 room0, wcond s t -> wout s s2 t room0 ->
            (forall l, room0 l -> (c_rver s l <= c_wrseen s t)%nat) ->
            RC (set_rc s2 (c_repoch s) (c_rver s) (c_rstamp s) (c_lrstamp s) (c_wrseen s)
                       (if unread_overwritten s s2 (c_wrseen s t) then S (c_rrace s) else c_rrace s))).
  { intros s2 room0 W O Hc. apply (rc_wout n s s2 t room0 P I R O Hc).
    - destruct O as (_ & _ & _ & _ & E5 & _ & _ & _ & Eo & _). apply (Hown s2 W Eo E5).
    - intros L L0. destruct W as (_ & _ & W3). specialize (W3 L). lia. }
  destruct (w_pc (c_wr s t)) eqn:Epc.
  - (* WSeg0 *)
    match type of H with (if ?b then _ else _) = _ => destruct b end.
    + inversion H; subst s1 l1; clear H.
      apply (rc_weaken (set_rc (set_wr s t (wset (c_wr s t) WFin)) (c_repoch s) (c_rver s) (c_rstamp s) (c_lrstamp s) (c_wrseen s)
               (if unread_overwritten s (set_wr s t (wset (c_wr s t) WFin)) (c_wrseen s t) then S (c_rrace s) else c_rrace s)));
        try reflexivity.
      * apply (rc_hop_w n s t _ P I R). intros l K0. unfold kroom in K0. csimpl. rewrite upd_same in K0. csimpl. destruct K0 as ([] & _).
      * unfold same_rc. csimpl. repeat split; reflexivity.
      * intros u l K0. unfold kroom, wroom in *. csimpl. exact K0.
    + destruct (w_script (c_wr s t)) as [|[nb tag] rest] eqn:Es.
      * inversion H; subst s1 l1; clear H.
        apply (rc_weaken (set_rc (set_wr s t (wset_pend (c_wr s t) WFin [])) (c_repoch s) (c_rver s) (c_rstamp s) (c_lrstamp s) (c_wrseen s)
                 (if unread_overwritten s (set_wr s t (wset_pend (c_wr s t) WFin [])) (c_wrseen s t) then S (c_rrace s) else c_rrace s)));
          try reflexivity.
        -- apply (rc_hop_w n s t _ P I R). intros l K0. unfold kroom in K0. csimpl. rewrite upd_same in K0. csimpl. destruct K0 as ([] & _).
        -- unfold same_rc. csimpl. repeat split; reflexivity.
        -- intros u l K0. unfold kroom, wroom in *. csimpl. exact K0.
      * destruct (c_locked s) eqn:L.
        -- inversion H; subst s1 l1; clear H. apply (rc_hop_w n s t _ P I R).
           intros l K0. unfold kroom in K0. csimpl. rewrite upd_same in K0. csimpl. destruct K0 as (_ & X & _). congruence.
        -- destruct Hlt as [X|X]; [discriminate|]. subst t.
           destruct (w_alloc1 s 1 (c_wr s 1%nat) (w_pend (c_wr s 1%nat))) as [s2 l2] eqn:Ea. inversion H; subst s2 l2; clear H.
           assert (C : crem_ok s).
           { pose proof (g_crem n s I) as C. rewrite L in C. apply C. rewrite Epc. exact Logic.I. }
           destruct (wout_alloc1 s 1%nat _ s1 l1 (fun a b c E => script_nb n s 1%nat a b c I E) (crem_bounds n s I Hn C) Ea) as [(E0 & _)|O]; [congruence|].
           apply (Hwoutown s1 (wroom s) (wcond_unl n s I L) O).
           intros l K0. apply (rc_know s R 1%nat l). unfold kroom. rewrite Epc. exact (conj Logic.I (conj L (conj eq_refl K0))).
  - (* WTas *)
    inversion H; subst s1 l1; clear H. unfold acq_join. rewrite Mt.
    apply rc_writer; auto; csimpl.
    + intros u l K0. destruct (Nat.eq_dec u t) as [->|Ne].
      * rewrite upd_same. unfold kroom, wroom in K0. csimpl. rewrite upd_same in K0. csimpl.
        destruct (Z.eqb_spec (c_lock s) 0) as [L0|L0]; csimpl.
        -- (* acquired: the room comes with the lock *)
           destruct (c_locked s) eqn:L.
           ++ pose proof (rc_lock s R L L0 l K0). lia.
           ++ destruct Hlt as [X|X]; [discriminate|]. subst t.
              assert (K1 : kroom s 1%nat l) by (unfold kroom, wroom; rewrite Epc; exact (conj Logic.I (conj L (conj eq_refl K0)))).
              pose proof (rc_know s R 1%nat l K1). lia.
        -- destruct K0 as (_ & A & B & C).
           assert (K1 : kroom s t l) by (unfold kroom, wroom; rewrite Epc; exact (conj Logic.I (conj A (conj B C)))).
           pose proof (rc_know s R t l K1). lia.
      * rewrite upd_other by exact Ne. apply (rc_know s R u l).
        unfold kroom, wroom in *. csimpl. rewrite upd_other in K0 by exact Ne. exact K0.
    + intros _ X. lia.
    + rewrite no_overwrite; [apply (rc_race s R)|]. intros l _ Hv. csimpl. contradiction.
  - (* WSegY *)
    inversion H; subst s1 l1; clear H. apply (rc_hop_w n s t _ P I R).
    intros l K0. unfold kroom in *. csimpl. rewrite upd_same in K0. csimpl. rewrite Epc. exact K0.
  - (* WYield *)
    inversion H; subst s1 l1; clear H. apply (rc_hop_w n s t _ P I R).
    intros l K0. unfold kroom in *. csimpl. rewrite upd_same in K0. csimpl. rewrite Epc. exact K0.
  - (* WSegT *)
    inversion H; subst s1 l1; clear H. apply (rc_hop_w n s t _ P I R).
    intros l K0. unfold kroom in *. csimpl. rewrite upd_same in K0. csimpl. rewrite Epc. exact K0.
  - (* WSegAlloc *)
    assert (A : active (w_pc (c_wr s t)) = true) by (rewrite Epc; reflexivity).
    pose proof (wcond_active n s t I A) as W.
    destruct (w_alloc1 s t (c_wr s t) []) as [s2 l2] eqn:Ea. inversion H; subst s2 l2; clear H.
    destruct (wout_alloc1 s t _ s1 l1 Hscr (crem_bounds n s I Hn K) Ea) as [(E0 & ->)|O].
    + apply (rc_weaken s); auto; try reflexivity. unfold same_rc. csimpl.
      rewrite no_overwrite by (intros l _ Hv; contradiction). rewrite (rc_race s R). repeat split; reflexivity.
    + apply (Hwoutown s1 (wroom s) W O).
      intros l K0. apply (rc_know s R t l). unfold kroom. rewrite Epc. exact K0.
  - (* WLoadR *)
    inversion H; subst s1 l1; clear H.
    apply rc_writer; auto; csimpl.
    + intros u l K0. destruct (Nat.eq_dec u t) as [->|Ne].
      * rewrite upd_same. unfold kroom in K0. csimpl. rewrite upd_same in K0. csimpl.
        destruct K0 as [K0|K0].
        -- assert (K1 : kroom s t l) by (unfold kroom; rewrite Epc; exact K0).
           pose proof (rc_know s R t l K1). lia.
        -- assert (F : Fr s l) by (unfold Fr; lia).
           pose proof (free_published n s l I R F). lia.
      * rewrite upd_other by exact Ne. apply (rc_know s R u l).
        unfold kroom, wroom in *. csimpl. rewrite upd_other in K0 by exact Ne. exact K0.
    + intros L L0 l K0. apply (rc_lock s R L L0 l K0).
    + rewrite no_overwrite; [apply (rc_race s R)|]. intros l _ Hv. csimpl. contradiction.
  - (* WSegUpd *)
    assert (A : active (w_pc (c_wr s t)) = true) by (rewrite Epc; reflexivity).
    pose proof (wcond_active n s t I A) as W.
    destruct K as (C & Rb & K1 & K2).
    destruct (w_script (c_wr s t)) as [|[nb tag] rest] eqn:Es; [discriminate|].
    pose proof (Hscr nb tag rest eq_refl) as Nb.
    pose proof (cal_bounds nb ltac:(lia)) as (Q1 & Q2 & Q3). pose proof (cal_lt nb Nb) as Q4.
    set (need := cal_cachelines nb) in *.
    assert (Hcov : forall l, kroom s t l -> (c_rver s l <= c_wrseen s t)%nat) by (intros l; apply (rc_know s R t l)).
    assert (Hgo : forall c s2 l2, 0 <= c < 4294967296 ->
              (forall l, c_w s <= l <= c_w s + c -> kroom s t l) ->
              (if c <? need then Some (w_fail (set_crem s c) t (c_wr s t) []) else Some (w_finish (set_crem s c) t (c_wr s t) []))
              = Some (s2, l2) ->
              RC (set_rc s2 (c_repoch s) (c_rver s) (c_rstamp s) (c_lrstamp s) (c_wrseen s)
                         (if unread_overwritten s s2 (c_wrseen s t) then S (c_rrace s) else c_rrace s))).
    { intros c s2 l2 Cb Hsub E. apply (Hwoutown s2 (fun l => kroom s t l) W); [|exact Hcov].
      destruct (Z.ltb_spec c need) as [Lt|Ge].
      - destruct (w_fail (set_crem s c) t (c_wr s t) []) as [s3 l3] eqn:Ef. inversion E; subst s3 l3.
        apply (wout_crem s c s2 t _ (wout_fail (set_crem s c) t [] s2 l2 Ef) Hsub).
      - destruct (w_finish (set_crem s c) t (c_wr s t) []) as [s3 l3] eqn:Ef. inversion E; subst s3 l3.
        apply (wout_crem s c s2 t); [|exact Hsub].
        apply (wout_finish (set_crem s c) t [] nb tag rest s2 l2); auto; csimpl; fold need; lia. }
    assert (Hk : forall P0 : Prop, (wroom s = wroom s -> P0) -> P0) by auto.
    rewrite Z.gtb_ltb in H. destruct (Z.ltb_spec (c_w s) r_obs) as [Lt|Ge].
    + rewrite u32_small in H by lia.
      apply (Hgo (r_obs - c_w s - 1) s1 l1); [lia| |exact H].
      intros l Hl. unfold kroom. rewrite Epc. right. left. lia.
    + destruct (K2 Ge) as (X & Y).
      rewrite Bn in H. rewrite (u32_small (n - c_w s - 1)) in H by lia.
      rewrite (s32_id r_obs) in H by lia. rewrite (s32_id need) in H by lia. rewrite !Z.geb_leb in H.
      destruct (Z.leb_spec need (n - c_w s - 1)) as [Rr|Rr].
      * assert (E : (if n - c_w s - 1 <? need then Some (w_fail (set_crem s (n - c_w s - 1)) t (c_wr s t) [])
                     else Some (w_finish (set_crem s (n - c_w s - 1)) t (c_wr s t) [])) = Some (s1, l1)).
        { destruct (Z.ltb_spec (n - c_w s - 1) need); [lia|exact H]. }
        apply (Hgo (n - c_w s - 1) s1 l1); [lia| |exact E].
        intros l Hl. unfold kroom. rewrite Epc. right. right. rewrite Bn. lia.
      * destruct (Z.leb_spec need (r_obs - 1)) as [Lf|Lf].
        -- (* marker at w *)
           inversion H; subst s1 l1; clear H.
           apply (Hwoutown _ (fun l => kroom s t l) W); [|exact Hcov].
           apply wout_intro; csimpl; auto.
           ++ intros u Ne. apply upd_other. exact Ne.
           ++ intros l Hv. unfold kroom. rewrite Epc. left. unfold wroom. destruct C as (C0 & _).
              destruct (Z.eq_dec l (c_w s)) as [->|Ne]; [lia|rewrite fupd_other in Hv by exact Ne; contradiction].
           ++ intros l K0. unfold kroom in *. csimpl. rewrite upd_same in K0. csimpl. rewrite Epc. right. right. lia.
        -- destruct (w_fail s t (c_wr s t) []) as [s3 l3] eqn:Ef. inversion H; subst s3 l3.
           apply (Hwoutown s1 (wroom s) W (wout_fail s t [] s1 l1 Ef)).
           intros l K0. apply Hcov. unfold kroom. rewrite Epc. left. exact K0.
  - (* WStoreWrap *)
    assert (A : active (w_pc (c_wr s t)) = true) by (rewrite Epc; reflexivity).
    pose proof (wcond_active n s t I A) as W.
    destruct K as (K1 & K2 & K3 & nb & tag & rest & Es & K4).
    pose proof (Hscr nb tag rest Es) as Nb. pose proof (cal_bounds nb ltac:(lia)) as (Q1 & Q2 & Q3).
    inversion H; subst s1 l1; clear H.
    apply rc_writer; auto; csimpl.
    + intros _. right. lia.
    + intros u l K0. destruct (Nat.eq_dec u t) as [->|Ne].
      * apply (rc_know s R t l). unfold kroom in *. csimpl. rewrite upd_same in K0. csimpl. rewrite Epc. exact K0.
      * apply (rc_know s R u l).
        apply (Hown (set_wr (set_wcur s 0 (rel_stamp (mo_w_store_wrap P) (w_seen (c_wr s t)))) t (wset (c_wr s t) (WSegWrapped left))) W);
          csimpl; auto. intros v Nv. apply upd_other. exact Nv.
    + intros L L0. destruct W as (_ & _ & W3). specialize (W3 L). lia.
    + rewrite no_overwrite; [apply (rc_race s R)|]. intros l _ Hv. csimpl. contradiction.
  - (* WSegWrapped *)
    assert (A : active (w_pc (c_wr s t)) = true) by (rewrite Epc; reflexivity).
    pose proof (wcond_active n s t I A) as W.
    destruct K as (K1 & K2 & K3).
    destruct (w_script (c_wr s t)) as [|[nb tag] rest] eqn:Es; [discriminate|].
    pose proof (Hscr nb tag rest eq_refl) as Nb.
    assert (Lb : left <= n - 1) by (unfold room in K3; lia).
    rewrite u32_small in H by lia.
    assert (Hcov : forall l, kroom s t l -> (c_rver s l <= c_wrseen s t)%nat) by (intros l; apply (rc_know s R t l)).
    assert (Hsub : forall l, c_w s <= l <= c_w s + left -> kroom s t l).
    { intros l Hl. unfold kroom. rewrite Epc. lia. }
    csimpl. destruct (Z.ltb_spec left (cal_cachelines nb)) as [Lt|Ge].
    + destruct (w_fail (set_crem s left) t (c_wr s t) []) as [s3 l3] eqn:Ef. inversion H; subst s3 l3.
      apply (Hwoutown s1 (fun l => kroom s t l) W); [|exact Hcov].
      apply (wout_crem s left s1 t _ (wout_fail (set_crem s left) t [] s1 l1 Ef) Hsub).
    + destruct (w_finish (set_crem s left) t (c_wr s t) []) as [s3 l3] eqn:Ef. inversion H; subst s3 l3.
      apply (Hwoutown s1 (fun l => kroom s t l) W); [|exact Hcov].
      apply (wout_crem s left s1 t); [|exact Hsub].
      apply (wout_finish (set_crem s left) t [] nb tag rest s1 l1); auto; csimpl; lia.
  - (* WStoreCommit *)
    assert (A : active (w_pc (c_wr s t)) = true) by (rewrite Epc; reflexivity).
    pose proof (wcond_active n s t I A) as W.
    destruct K as (Ea & C0 & Rm & nb & tag & rest & Es & En & H1 & H2 & H3).
    rewrite Es in H. subst a.
    pose proof (Hscr nb tag rest Es) as Nb.
    pose proof (cal_bounds nb ltac:(lia)) as (Q1 & Q2 & Q3). rewrite <- En in Q1, Q2, Q3.
    assert (Wb : c_w s + need <= n - 1) by (unfold room in Rm; lia).
    rewrite u32_small in H by lia.
    destruct (c_locked s) eqn:L; inversion H; subst s1 l1; clear H.
    + apply rc_writer; auto; csimpl.
      * intros _. left. destruct (c_unread s); discriminate.
      * intros u l K0. destruct (Nat.eq_dec u t) as [->|Ne].
        -- apply (rc_know s R t l). unfold kroom, wroom in *. csimpl. rewrite upd_same in K0. csimpl. rewrite Epc. lia.
        -- apply (rc_know s R u l).
           match type of K0 with kroom ?s2 _ _ => apply (Hown s2 W) end; csimpl; auto. intros v Nv. apply upd_other. exact Nv.
      * intros _ L0. destruct W as (_ & _ & W3). specialize (W3 L). lia.
      * rewrite no_overwrite; [apply (rc_race s R)|]. intros l _ Hv. csimpl. contradiction.
    + apply rc_writer; auto; csimpl.
      * intros _. left. destruct (c_unread s); discriminate.
      * intros u l K0. destruct (Nat.eq_dec u t) as [->|Ne].
        -- apply (rc_know s R t l). unfold kroom, wroom in *. csimpl. rewrite upd_same in K0. csimpl. rewrite Epc.
           destruct K0 as (_ & _ & _ & K0). lia.
        -- apply (rc_know s R u l).
           match type of K0 with kroom ?s2 _ _ => apply (Hown s2 W) end; csimpl; auto. intros v Nv. apply upd_other. exact Nv.
      * intros X. congruence.
      * rewrite no_overwrite; [apply (rc_race s R)|]. intros l _ Hv. csimpl. contradiction.
  - (* WSegC *)
    inversion H; subst s1 l1; clear H. apply (rc_hop_w n s t _ P I R).
    intros l K0. unfold kroom in *. csimpl. rewrite upd_same in K0. csimpl. rewrite Epc. exact K0.
  - (* WClear: the release publishes what this writer knows with the lock *)
    inversion H; subst s1 l1; clear H. unfold rel_stamp. rewrite Ml.
    assert (Hcov : forall l, wroom s l -> (c_rver s l <= c_wrseen s t)%nat).
    { intros l K0. apply (rc_know s R t l). unfold kroom. rewrite Epc. exact K0. }
    apply rc_writer; auto; csimpl.
    + intros u l K0. destruct (Nat.eq_dec u t) as [->|Ne].
      * apply Hcov. unfold kroom in K0. csimpl. rewrite upd_same in K0.
        destruct sent; csimpl; destruct K0 as (_ & _ & _ & K0); exact K0.
      * apply (rc_know s R u l). unfold kroom, wroom in *. csimpl. rewrite upd_other in K0 by exact Ne. exact K0.
    + rewrite no_overwrite; [apply (rc_race s R)|]. intros l _ Hv. csimpl. contradiction.
  - (* WSegFull *)
    inversion H; subst s1 l1; clear H. apply (rc_hop_w n s t _ P I R).
    intros l K0. unfold kroom in *. csimpl. rewrite upd_same in K0. csimpl. rewrite Epc. exact K0.
  - (* WRetry *)
    inversion H; subst s1 l1; clear H. apply (rc_hop_w n s t _ P I R).
    intros l K0. unfold kroom in *. csimpl. rewrite upd_same in K0. rewrite Epc.
    destruct (w_tries (c_wr s t)) as [|[|k]]; csimpl; exact K0.
  - (* WKilled *)
    inversion H; subst s1 l1; clear H. apply (rc_hop_w n s t _ P I R).
    intros l K0. unfold kroom in K0. csimpl. rewrite upd_same in K0. csimpl. destruct K0 as ([] & _).
  - (* WFin *)
    inversion H; subst s1 l1; clear H. apply (rc_hop_w n s t _ P I R).
    intros l K0. unfold kroom in K0. csimpl. rewrite upd_same in K0. csimpl. destruct K0 as ([] & _).
  - discriminate.
Qed.

(* ---- the combined step and the theorem ---- *)
Lemma rc_cstep P n s t ch s' l : 1 <= n < 2147483648 -> mo_sufficient P = true ->
  CInv n s -> RC s -> cstep P s t ch = Some (s', l) -> RC s'.
Proof.
  intros Hn Hmo I R H. destruct (mo_split P Hmo) as (Mw & Mc & Ma & Mt & Ml). pose proof (mo_split_r P Hmo) as Mr.
  unfold cstep in H. destruct (cstep0 P s t ch) as [[s1 l1]|] eqn:E; [|discriminate]. inversion H; subst s' l; clear H.
  unfold cstep0 in E. destruct (Nat.eqb t 0) eqn:T0.
  - apply (rc_rstep P n s s1 l1 Hn Mr I R E).
  - destruct (Nat.leb t (c_nw s) && (c_locked s || Nat.eqb t 1)) eqn:C; [|discriminate].
    apply andb_prop in C as [_ C]. apply orb_prop in C.
    assert (Hlt : c_locked s = true \/ t = 1%nat).
    { destruct C as [C|C]; [left; exact C|right; apply Nat.eqb_eq; exact C]. }
    destruct (wstep P s t) as [[s2 l2]|] eqn:W; [|discriminate].
    pose proof (rc_wstep P n s t s2 l2 Hn Mt Ml I R Hlt W) as R2.
    pose proof (rc_kill P s t s2 l2 R2) as R3.
    destruct (kill_check s t (s2, l2)) as [s3 l3]. inversion E; subst. exact R3.
Qed.

Theorem conc_reads_covered P n locked tries kill scripts sched :
  1 <= n < 2147483648 -> valid_scripts scripts -> mo_sufficient P = true ->
  let s := exec csys (cstep P) (cinit n locked tries kill scripts) sched in
  RC s /\ c_rrace s = 0%nat.
Proof.
  intros Hn Hs Hmo s.
  assert (X : CInv n s /\ RC s).
  { subst s. apply (inv_exec csys (cstep P) (fun s => CInv n s /\ RC s)).
    - intros s0 t c s' l (I & R) H. split; [apply (cstep_inv P n s0 t c s' l Hn Hmo I H)|apply (rc_cstep P n s0 t c s' l Hn Hmo I R H)].
    - split; [apply cinit_inv; auto|apply rc_init]. }
  destruct X as (_ & R). split; [exact R|apply (rc_race s R)].
Qed.

(* necessity: with r_move's store of read_cursor relaxed (everything else as in the code) the same model has a
   history in which the writer stores into lines whose latest read by the reader was never published: ring of
   8 lines, message of 4 lines consumed, the next one (3 lines) fills the ring to the last line, the third wraps
   into the lines of the first *)
Definition P_rlx_move : params :=
  {| mo_w_load_r := Rlx; mo_w_store_wrap := Rel; mo_w_store_commit := Rel; mo_r_load_w := Acq;
     mo_r_store_wrap := Rlx; mo_r_store_move := Rlx; mo_lock_tas := Acq; mo_lock_clear := Rel |}.
Example conc_release_of_read_cursor_necessary :
  let s0 := cinit 8 false 3 None [[(120, 1); (1, 2); (1, 3)]] in
  let sa := exec csys (cstep P_code) s0 (rr 8 1 ++ rr 12 0 ++ rr 20 1 ++ rr 30 0) in
  let sb := exec csys (cstep P_rlx_move) s0 (rr 8 1 ++ rr 12 0 ++ rr 20 1 ++ rr 30 0) in
  c_rrace sa = 0%nat /\ c_delivered sa = c_committed sa /\ length (c_committed sa) = 3%nat /\
  (0 < c_rrace sb)%nat /\ mo_sufficient P_rlx_move = false /\ mo_sufficient P_code = true.
Proof. vm_compute. repeat split; auto. Qed.
