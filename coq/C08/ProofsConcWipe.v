(* C08 — refuted variant (seeded change C08-8): r_move wipes the consumed header AFTER its release
   store of read_cursor.  In the interleaving model the reader never writes a data line: that is
   the frame lemma [rstep_frame] (C08/ProofsConc.v; Properties: shm_reader_only_frame), on which the
   stability of [mok] for the unread messages under reader steps rests in the reachable-state
   invariant (C08/ProofsConcInv.v: rstep_inv / inv_set_rd / inv_reader_move keep g_mok because
   c_hN, c_hC, c_body, c_ver are untouched).  The variant below adds exactly the two wipe stores to
   the plain segment that follows the store; it violates rstep_frame, and with a full ring and the
   writer polling for the released lines a committed unread message is lost. *)
From MV Require Import C08.Model C08.ModelConc C08.ProofsConc.
Local Open Scope Z_scope.

Definition wipe (s : csys) (l : Z) : csys :=
  set_data s (fupd (c_hN s) l 0) (fupd (c_hC s) l 0) (c_body s) (c_ver s) (c_gver s) (c_overlap s).

(* state = (system, line whose header is still to be wiped by the reader) *)
Definition cstep_wipe (P : params) (sp : csys * option Z) (t ch : nat) : option ((csys * option Z) * label) :=
  let (s, pend) := sp in
  if Nat.eqb t 0 then
    match r_pc (c_rd s), pend with
    | RSeg0, Some l =>
      (* the plain segment after the release store: hdr->n_bytes = 0; hdr->n_cachelines = 0; then the loop *)
      match rstep P (wipe s l) with Some (s', lb) => Some ((s', None), lb) | None => None end
    | RStoreMove _, _ =>
      match rstep P s with Some (s', lb) => Some ((s', Some (c_r s)), lb) | None => None end
    | _, _ => match rstep P s with Some (s', lb) => Some ((s', pend), lb) | None => None end
    end
  else match cstep P s t ch with Some (s', lb) => Some ((s', pend), lb) | None => None end.

(* ring of 8 lines: 120 bytes (4 lines at 0), 1 byte (3 lines at 4): full; the writer polls for a
   3-byte message; the reader consumes the first message and is pre-empted right after its
   read_cursor store; the writer wraps, puts the header at line 0 and commits; the reader resumes and
   wipes line 0.  Everybody finishes; the committed message (line 0, 3 bytes, tag 40) is never delivered. *)
Definition wipe_sched : list (nat * nat) := rr 15 1 ++ rr 4 0 ++ rr 60 1 ++ rr 60 0 ++ rr 60 1 ++ rr 60 0.
Definition wipe_init : csys := cinit 8 false 5 None [[(120, 10); (1, 20); (3, 40); (1, 60)]].

Example wipe_after_release_refuted :
  let s := fst (exec (csys * option Z) (cstep_wipe P_code) (wipe_init, None) wipe_sched) in
  r_pc (c_rd s) = RDone /\ w_pc (c_wr s 1%nat) = WDone /\
  c_committed s = [(0, 120, 10); (4, 1, 20); (0, 3, 40)] /\ c_delivered s = [(0, 120, 10); (4, 1, 20)] /\
  c_unread s = [(0, 3, 40)] /\ c_hN s 0 = 0.
Proof. vm_compute. repeat split; reflexivity. Qed.

(* the same schedule on the code as it is: everything committed is delivered *)
Example same_schedule_unchanged_code :
  let s := exec csys (cstep P_code) wipe_init wipe_sched in
  r_pc (c_rd s) = RDone /\ w_pc (c_wr s 1%nat) = WDone /\ c_delivered s = c_committed s /\ c_unread s = [] /\
  c_hN s 0 = 3.
Proof. vm_compute. repeat split; reflexivity. Qed.

(* the clause the variant violates: a reader step changes a header word (rstep_frame says it cannot) *)
Example wipe_violates_reader_frame :
  exists sp sp' l, cstep_wipe P_code sp 0%nat 0%nat = Some (sp', l) /\ c_hN (fst sp') 0 <> c_hN (fst sp) 0.
Proof.
  exists (exec (csys * option Z) (cstep_wipe P_code) (wipe_init, None) (rr 15 1 ++ rr 4 0 ++ rr 8 1)).
  eexists. eexists. split; [vm_compute; reflexivity|]. vm_compute. discriminate.
Qed.
