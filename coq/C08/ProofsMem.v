(* C08 — byte-memory lemmas: sub / blit / little-endian header fields. *)
From MV Require Import C08.Model.
Local Open Scope Z_scope.

Lemma nth_skipn_ {A} (m : list A) o i x : nth i (skipn o m) x = nth (o + i) m x.
Proof.
  revert m. induction o as [|o IH]; intros m; simpl; [reflexivity|].
  destruct m as [|a m]; simpl; [destruct i; reflexivity|apply IH].
Qed.
Lemma nth_firstn_lt {A} (m : list A) l i x : (i < l)%nat -> nth i (firstn l m) x = nth i m x.
Proof.
  revert m i. induction l as [|l IH]; intros m i H; [lia|].
  destruct m as [|a m]; simpl; [destruct i; reflexivity|].
  destruct i as [|i]; simpl; [reflexivity|apply IH; lia].
Qed.

Lemma sub_length m off len : 0 <= off -> 0 <= len -> off + len <= Z.of_nat (length m) ->
  length (sub m off len) = Z.to_nat len.
Proof. intros. unfold sub. rewrite firstn_length, skipn_length. lia. Qed.

Lemma nth_sub m off len i x : 0 <= off -> 0 <= len -> off + len <= Z.of_nat (length m) ->
  (i < Z.to_nat len)%nat -> nth i (sub m off len) x = nth (Z.to_nat off + i) m x.
Proof. intros. unfold sub. rewrite nth_firstn_lt by lia. apply nth_skipn_. Qed.

Lemma blit_length m off d : 0 <= off -> off + Z.of_nat (length d) <= Z.of_nat (length m) ->
  length (blit m off d) = length m.
Proof. intros. unfold blit. rewrite !app_length, firstn_length, skipn_length. lia. Qed.

Lemma nth_blit m off d i x : 0 <= off -> off + Z.of_nat (length d) <= Z.of_nat (length m) ->
  nth i (blit m off d) x =
  if (Z.to_nat off <=? i)%nat && (i <? Z.to_nat off + length d)%nat then nth (i - Z.to_nat off) d x
  else nth i m x.
Proof.
  intros H0 H1. unfold blit.
  assert (L : length (firstn (Z.to_nat off) m) = Z.to_nat off) by (rewrite firstn_length; lia).
  destruct (Nat.leb_spec (Z.to_nat off) i) as [A|A]; simpl.
  - rewrite app_nth2 by lia. rewrite L.
    destruct (Nat.ltb_spec i (Z.to_nat off + length d)) as [B|B].
    + rewrite app_nth1 by lia. reflexivity.
    + rewrite app_nth2 by lia. rewrite nth_skipn_. f_equal. lia.
  - rewrite app_nth1 by lia. apply nth_firstn_lt. lia.
Qed.

(* reading exactly what was written *)
Lemma sub_blit_same m off d : 0 <= off -> off + Z.of_nat (length d) <= Z.of_nat (length m) ->
  sub (blit m off d) off (Z.of_nat (length d)) = d.
Proof.
  intros H0 H1. apply nth_ext with (d := 0) (d' := 0).
  - rewrite sub_length; rewrite ?blit_length; lia.
  - intros i Hi. rewrite sub_length in Hi by (rewrite ?blit_length; lia).
    rewrite nth_sub by (rewrite ?blit_length; lia). rewrite nth_blit by lia.
    destruct (Nat.leb_spec (Z.to_nat off) (Z.to_nat off + i)); [|lia].
    destruct (Nat.ltb_spec (Z.to_nat off + i) (Z.to_nat off + length d)); [|lia].
    simpl. f_equal. lia.
Qed.

(* reading a range disjoint from the written one *)
Lemma sub_blit_other m off d o l : 0 <= off -> off + Z.of_nat (length d) <= Z.of_nat (length m) ->
  0 <= o -> 0 <= l -> o + l <= Z.of_nat (length m) ->
  o + l <= off \/ off + Z.of_nat (length d) <= o ->
  sub (blit m off d) o l = sub m o l.
Proof.
  intros H0 H1 H2 H3 H4 H5. apply nth_ext with (d := 0) (d' := 0).
  - rewrite !sub_length; rewrite ?blit_length; lia.
  - intros i Hi. rewrite sub_length in Hi by (rewrite ?blit_length; lia).
    rewrite !nth_sub by (rewrite ?blit_length; lia). rewrite nth_blit by lia.
    destruct (Nat.leb_spec (Z.to_nat off) (Z.to_nat o + i)); simpl; [|reflexivity].
    destruct (Nat.ltb_spec (Z.to_nat o + i) (Z.to_nat off + length d)); [lia|reflexivity].
Qed.

(* little-endian 32-bit fields *)
Lemma enc32_length v : length (enc32 v) = 4%nat.
Proof. reflexivity. Qed.
Lemma dec_enc32 v : 0 <= v < 4294967296 -> dec32 (enc32 v) = v.
Proof.
  intros H. unfold dec32, enc32.
  replace (v / 65536) with (v / 256 / 256) by (rewrite Z.div_div by lia; reflexivity).
  replace (v / 16777216) with (v / 256 / 256 / 256) by (rewrite !Z.div_div by lia; reflexivity).
  pose proof (Z.div_mod v 256 ltac:(lia)).
  pose proof (Z.div_mod (v / 256) 256 ltac:(lia)).
  pose proof (Z.div_mod (v / 256 / 256) 256 ltac:(lia)).
  assert (v / 256 / 256 / 256 < 256).
  { apply Z.div_lt_upper_bound; [lia|]. apply Z.div_lt_upper_bound; [lia|].
    apply Z.div_lt_upper_bound; lia. }
  assert (0 <= v / 256 / 256 / 256) by (repeat apply Z.div_pos; lia).
  rewrite (Z.mod_small (v / 256 / 256 / 256)) by lia. lia.
Qed.

(* header fields after set_hdr and their frame rule *)
Section Hdr.
  Variables (m : list Z) (n : Z).
  Hypothesis Hlen : Z.of_nat (length m) = CL * n.

  Lemma blit1_length l nb : 0 <= l < n -> length (blit m (CL * l) (enc32 nb)) = length m.
  Proof. intros. unfold CL in *. apply blit_length; cbn [length enc32]; lia. Qed.

  Lemma set_hdr_length l nb nc : 0 <= l < n -> length (set_hdr m l nb nc) = length m.
  Proof.
    intros. unfold set_hdr. pose proof (blit1_length l nb H) as L1. unfold CL in *.
    rewrite blit_length; cbn [length enc32]; lia.
  Qed.

  Lemma hdr_nbytes_set l nb nc : 0 <= l < n -> 0 <= nb < 4294967296 ->
    hdr_nbytes (set_hdr m l nb nc) l = nb.
  Proof.
    intros. unfold hdr_nbytes, set_hdr. pose proof (blit1_length l nb H) as L1. unfold CL in *.
    rewrite sub_blit_other by (cbn [length enc32]; lia).
    change 4 with (Z.of_nat (length (enc32 nb))) at 1.
    rewrite sub_blit_same by (cbn [length enc32]; lia). apply dec_enc32; lia.
  Qed.

  Lemma hdr_ncl_set l nb nc : 0 <= l < n -> 0 <= nc < 4294967296 ->
    hdr_ncl (set_hdr m l nb nc) l = nc.
  Proof.
    intros. unfold hdr_ncl, set_hdr. pose proof (blit1_length l nb H) as L1. unfold CL in *.
    change 4 with (Z.of_nat (length (enc32 nc))) at 2.
    rewrite sub_blit_same by (cbn [length enc32]; lia). apply dec_enc32; lia.
  Qed.

  (* a read that stays clear of the 8 header bytes of line l is unaffected *)
  Lemma sub_set_hdr_other l nb nc o k : 0 <= l < n -> 0 <= o -> 0 <= k -> o + k <= CL * n ->
    o + k <= CL * l \/ CL * l + HDR <= o ->
    sub (set_hdr m l nb nc) o k = sub m o k.
  Proof.
    intros. unfold set_hdr. pose proof (blit1_length l nb H) as L1. unfold CL, HDR in *.
    rewrite sub_blit_other by (cbn [length enc32]; lia).
    rewrite sub_blit_other by (cbn [length enc32]; lia). reflexivity.
  Qed.
End Hdr.
