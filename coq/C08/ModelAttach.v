(* C08 — the `ready` hand-over of muggle_shm_ringbuf_open / muggle_shm_ringbuf_is_ready, at the granularity of
   harness/vsched: thread 0 is the creating process (muggle_shm_ringbuf_open with MUGGLE_SHM_FLAG_CREAT on a
   zero-filled segment: one plain segment that writes the geometry - n_bytes, total_bytes, n_cacheline, the
   cursors, cached_remain, the locks - and the magic word, then the store of ready := 1), thread 1 is an attaching
   process (muggle_shm_ringbuf_open with MUGGLE_SHM_FLAG_OPEN on the same segment, then it polls
   muggle_shm_ringbuf_is_ready: load of ready, load of magic; when that answers true it reads the geometry).
   The geometry is abstracted to one value (n_cacheline; the driver checks that the other fields it reads are
   consistent with it).  Plain data follows the view discipline of Lib/Conc.v: the plain cells have a version,
   the store of ready publishes the creator's view if it is a release, the attacher joins it if its load is an
   acquire; a_uncov counts geometry reads not covered by the attacher's view.  Definitions only. *)
From MV Require Export Lib.Conc.
From MV Require Import C08.Model C08.ModelConc.
Local Open Scope Z_scope.

Record aparams := {
  mo_open_store_ready : memorder;   (* muggle_shm_ringbuf_open: store ready 1 *)
  mo_ready_load : memorder;         (* muggle_shm_ringbuf_is_ready: load ready *)
  mo_magic_load : memorder;         (* muggle_shm_ringbuf_is_ready: load magic *)
}.

Definition cell_ready : nat := 5%nat.
Definition cell_magic : nat := 6%nat.
Definition cell_apoll : nat := 7%nat.
Definition n_created : nat := 10%nat.
Definition n_geo : nat := 11%nat.
Definition n_notready : nat := 12%nat.
Definition n_gaveup : nat := 13%nat.

Inductive cpc := CInit | CStore | CSegEnd | CFin | CDone.
Inductive apc := AOpen | ALoadReady | ASegMid (rdy : Z) | ALoadMagic (rdy : Z) | ASegCheck (rdy mg : Z) | APoll | ASegPoll | AFin | ADone.

Record asys := {
  a_n : Z;                 (* n_cacheline the creator announces *)
  a_geo : Z;               (* content of the geometry cells: 0 (zero-filled segment) or a_n *)
  a_magic : Z; a_ready : Z;
  a_gver : nat;            (* version of the plain cells (geometry, magic) *)
  a_rstamp : nat;          (* view published on ready *)
  a_cpc : cpc; a_cseen : nat;
  a_apc : apc; a_aseen : nat; a_tries : nat;
  a_got : list Z;          (* ghost: geometry values the attacher used after is_ready answered true *)
  a_uncov : nat;           (* ghost: geometry reads not covered by the attacher's view *)
}.

Definition ainit (n : Z) (tries : nat) : asys :=
  {| a_n := n; a_geo := 0; a_magic := 0; a_ready := 0; a_gver := 0; a_rstamp := 0;
     a_cpc := CInit; a_cseen := 0; a_apc := AOpen; a_aseen := 0; a_tries := tries; a_got := []; a_uncov := 0 |}.

Definition cr_step (P : aparams) (s : asys) : option (asys * label) :=
  match a_cpc s with
  | CInit =>
    (* memset, the geometry fields, the spinlock inits, magic: all plain *)
    Some ({| a_n := a_n s; a_geo := a_n s; a_magic := MAGIC; a_ready := a_ready s; a_gver := S (a_gver s);
             a_rstamp := a_rstamp s; a_cpc := CStore; a_cseen := S (a_gver s); a_apc := a_apc s; a_aseen := a_aseen s;
             a_tries := a_tries s; a_got := a_got s; a_uncov := a_uncov s |}, LPlain [])
  | CStore =>
    let mo := mo_open_store_ready P in
    Some ({| a_n := a_n s; a_geo := a_geo s; a_magic := a_magic s; a_ready := 1; a_gver := a_gver s;
             a_rstamp := rel_stamp mo (a_cseen s); a_cpc := CSegEnd; a_cseen := a_cseen s; a_apc := a_apc s;
             a_aseen := a_aseen s; a_tries := a_tries s; a_got := a_got s; a_uncov := a_uncov s |},
          LEv (Ev OStore cell_ready mo 1 0 0))
  | CSegEnd =>
    Some ({| a_n := a_n s; a_geo := a_geo s; a_magic := a_magic s; a_ready := a_ready s; a_gver := a_gver s;
             a_rstamp := a_rstamp s; a_cpc := CFin; a_cseen := a_cseen s; a_apc := a_apc s; a_aseen := a_aseen s;
             a_tries := a_tries s; a_got := a_got s; a_uncov := a_uncov s |}, LPlain [(n_created, a_n s)])
  | CFin =>
    Some ({| a_n := a_n s; a_geo := a_geo s; a_magic := a_magic s; a_ready := a_ready s; a_gver := a_gver s;
             a_rstamp := a_rstamp s; a_cpc := CDone; a_cseen := a_cseen s; a_apc := a_apc s; a_aseen := a_aseen s;
             a_tries := a_tries s; a_got := a_got s; a_uncov := a_uncov s |}, LExit)
  | CDone => None
  end.

Definition aset (s : asys) (p : apc) (seen : nat) (tries : nat) (got : list Z) (uncov : nat) : asys :=
  {| a_n := a_n s; a_geo := a_geo s; a_magic := a_magic s; a_ready := a_ready s; a_gver := a_gver s;
     a_rstamp := a_rstamp s; a_cpc := a_cpc s; a_cseen := a_cseen s; a_apc := p; a_aseen := seen; a_tries := tries;
     a_got := got; a_uncov := uncov |}.

Definition at_step (P : aparams) (s : asys) : option (asys * label) :=
  match a_apc s with
  | AOpen => Some (aset s ALoadReady (a_aseen s) (a_tries s) (a_got s) (a_uncov s), LPlain [])
  | ALoadReady =>
    let mo := mo_ready_load P in
    Some (aset s (ASegMid (a_ready s)) (acq_join mo (a_aseen s) (a_rstamp s)) (a_tries s) (a_got s) (a_uncov s),
          LEv (Ev OLoad cell_ready mo (a_ready s) 0 0))
  | ASegMid rdy => Some (aset s (ALoadMagic rdy) (a_aseen s) (a_tries s) (a_got s) (a_uncov s), LPlain [])
  | ALoadMagic rdy =>
    let mo := mo_magic_load P in
    Some (aset s (ASegCheck rdy (a_magic s)) (a_aseen s) (a_tries s) (a_got s) (a_uncov s),
          LEv (Ev OLoad cell_magic mo (a_magic s) 0 0))
  | ASegCheck rdy mg =>
    if (mg =? MAGIC) && (rdy =? 1) then
      (* is_ready answered true: the attacher reads the geometry (plain) *)
      let cov := Nat.leb (a_gver s) (a_aseen s) in
      Some (aset s AFin (a_aseen s) (a_tries s) (a_got s ++ [a_geo s]) (if cov then a_uncov s else S (a_uncov s)),
            LPlain [(n_geo, a_geo s)])
    else Some (aset s APoll (a_aseen s) (a_tries s) (a_got s) (a_uncov s), LPlain [(n_notready, 0)])
  | APoll => Some (aset s ASegPoll (a_aseen s) (a_tries s) (a_got s) (a_uncov s), LEv (Ev OPlain cell_apoll MoNone 0 0 0))
  | ASegPoll =>
    match a_tries s with
    | S (S k) => Some (aset s ALoadReady (a_aseen s) (S k) (a_got s) (a_uncov s), LPlain [])
    | _ => Some (aset s AFin (a_aseen s) 0%nat (a_got s) (a_uncov s), LPlain [(n_gaveup, 0)])
    end
  | AFin => Some (aset s ADone (a_aseen s) (a_tries s) (a_got s) (a_uncov s), LExit)
  | ADone => None
  end.

Definition astep (P : aparams) (s : asys) (t ch : nat) : option (asys * label) :=
  if Nat.eqb t 0 then cr_step P s else if Nat.eqb t 1 then at_step P s else None.

(* the store of ready a release, the load of it an acquire (the relaxed load of magic needs nothing: the
   answer is true only if ready = 1 was read) *)
Definition mo_attach_sufficient (P : aparams) : bool := is_rel (mo_open_store_ready P) && is_acq (mo_ready_load P).
