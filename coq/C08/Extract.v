From MV Require Import Lib.ExtractBase C08.Model C08.ModelConc.
From Coq Require Import ExtrOcamlBasic.
Extraction Language OCaml.
Extraction "c08_model" force_types hinit step run cal_cachelines drained_fit in_known_class
  hr h_alloc h_fetched wcur rcur crem n_cl
  mo_w_load_r e_op LExit OLoad is_acq.
