From MV Require Import Lib.ExtractBase C08.Model C08.ModelConc.
From Coq Require Import ExtrOcamlBasic.
Extraction Language OCaml.
Extraction "c08_model" force_types hinit step run cal_cachelines drained_fit in_known_class
  hr h_alloc h_fetched wcur rcur crem n_cl
  cinit cstep mo_sufficient c_committed c_unread c_delivered c_uncov c_overlap c_w c_r c_wdone
  e_op LExit OLoad is_acq.
