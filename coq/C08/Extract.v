From MV Require Import Lib.ExtractBase C08.Model C08.ModelConc C08.ModelAttach.
From Coq Require Import ExtrOcamlBasic.
Extraction Language OCaml.
Extraction "c08_model" force_types hinit hopen open_sizes step run cal_cachelines drained_fit in_known_class
  hr h_alloc h_fetched wcur rcur crem n_cl
  cinit cstep mo_sufficient c_committed c_unread c_delivered c_uncov c_overlap c_rrace c_w c_r c_wdone
  e_op LExit OLoad is_acq
  ainit astep mo_attach_sufficient a_got a_uncov a_apc a_cpc a_geo.
