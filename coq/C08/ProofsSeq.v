(* C08 — sequential core: the ring refines a FIFO of committed messages (ghost queue), every
   allocation is disjoint from the unread messages and the live wrap marker, indices stay in
   range.  Invariant = DESIGN.md Appendix A.7. *)
From MV Require Import C08.Model C08.ProofsMem.
Local Open Scope Z_scope.

(* a committed message: line of its header, length, footprint in lines (the n_cachelines word of its header:
   CAL_BYTES_CACHELINE(n_bytes) for w_alloc_bytes, anything at least that for w_alloc_cachelines), bytes *)
Record msg := { m_at : Z; m_nb : Z; m_nc : Z; m_data : list Z }.

Definition msg_ok (mm : list Z) (m : msg) : Prop :=
  m_nb m < 2147483648 /\ hdr_nbytes mm (m_at m) = m_nb m /\ hdr_ncl mm (m_at m) = m_nc m /\
  sub mm (CL * m_at m + HDR) (m_nb m) = m_data m.

(* the messages of q occupy consecutive footprints from line a to line b *)
Fixpoint tiles (a : Z) (q : list msg) (b : Z) : Prop :=
  match q with
  | [] => a = b
  | m :: q' => m_at m = a /\ (1 <= m_nb m /\ cal_cachelines (m_nb m) <= m_nc m) /\ tiles (a + m_nc m) q' b
  end.

Lemma cal_bounds nb : 1 <= nb -> 3 <= cal_cachelines nb /\ HDR + nb <= CL * (cal_cachelines nb - 2) /\
  CL * (cal_cachelines nb - 2) < HDR + nb + CL.
Proof.
  intros H. unfold cal_cachelines, CL, HDR.
  pose proof (Z.div_mod (8 + nb + (64 - 1)) 64 ltac:(lia)).
  pose proof (Z.mod_pos_bound (8 + nb + (64 - 1)) 64 ltac:(lia)). lia.
Qed.
Lemma cal_lt nb : 1 <= nb < 2147483648 -> cal_cachelines nb < 33554436.
Proof.
  intros H. unfold cal_cachelines, CL, HDR.
  assert ((8 + nb + (64 - 1)) / 64 < 33554434) by (apply Z.div_lt_upper_bound; lia). lia.
Qed.

(* a footprint that holds the message: at least 3 lines, payload inside all but the last two *)
Lemma nc_bounds nb nc : 1 <= nb /\ cal_cachelines nb <= nc -> 3 <= nc /\ HDR + nb <= CL * (nc - 2).
Proof. intros [H1 H2]. pose proof (cal_bounds nb H1). unfold CL, HDR in *. lia. Qed.

Lemma tiles_le a q b : tiles a q b -> a <= b.
Proof.
  revert a. induction q as [|m q IH]; simpl; intros a H; [lia|].
  destruct H as (_ & Hn & H). apply IH in H. pose proof (nc_bounds _ _ Hn). lia.
Qed.
Lemma tiles_eq_nil a q : tiles a q a -> q = [].
Proof.
  destruct q as [|m q]; simpl; [reflexivity|]. intros (_ & Hn & H).
  apply tiles_le in H. pose proof (nc_bounds _ _ Hn). lia.
Qed.
Lemma tiles_app a q b m : tiles a q b -> m_at m = b -> 1 <= m_nb m /\ cal_cachelines (m_nb m) <= m_nc m ->
  tiles a (q ++ [m]) (b + m_nc m).
Proof.
  revert a. induction q as [|x q IH]; simpl; intros a H E Hn.
  - subst. destruct Hn. repeat split; auto.
  - destruct H as (A & [B1 B2] & C). repeat split; auto.
Qed.
(* every message of a tiling lies inside [a, b) *)
Lemma tiles_in a q b m : tiles a q b -> In m q ->
  a <= m_at m /\ m_at m + m_nc m <= b /\ (1 <= m_nb m /\ cal_cachelines (m_nb m) <= m_nc m).
Proof.
  revert a. induction q as [|x q IH]; simpl; intros a H Hin; [contradiction|].
  destruct H as (A & B & C). destruct Hin as [->|Hin].
  - apply tiles_le in C. pose proof (nc_bounds _ _ B). lia.
  - destruct (IH _ C Hin) as (D & E & F). pose proof (nc_bounds _ _ B). lia.
Qed.

Ltac psimpl := cbn [hr h_alloc h_fetched n_cl wcur rcur crem w_hdr r_hdr mem m_at m_nb m_nc m_data fst snd] in *.

Section Seq.
Variable n : Z.
Hypothesis Hn : 1 <= n < 2147483648.

Definition shape (s : ring) (q : list msg) : Prop :=
  (rcur s <= wcur s /\ tiles (rcur s) q (wcur s) /\ crem s <= n - wcur s - 1) \/
  (wcur s < rcur s /\ exists q1 q2 p, q = q1 ++ q2 /\ tiles (rcur s) q1 p /\ p <= n - 1 /\
     hdr_nbytes (mem s) p = 0 /\ tiles 0 q2 (wcur s) /\ crem s <= rcur s - wcur s - 1).

Definition pend_ok (s : ring) (pend : option (Z * Z)) : Prop :=
  match pend with
  | None => True
  | Some (off, nb) =>
    off = CL * wcur s + HDR /\ w_hdr s = wcur s /\ 1 <= nb < 2147483648 /\
    hdr_nbytes (mem s) (wcur s) = nb /\ cal_cachelines nb <= hdr_ncl (mem s) (wcur s) /\
    hdr_ncl (mem s) (wcur s) <= crem s
  end.

Record RInv (s : ring) (q : list msg) : Prop := {
  i_n : n_cl s = n;
  i_len : Z.of_nat (length (mem s)) = CL * n;
  i_w : 0 <= wcur s <= n - 1;
  i_r : 0 <= rcur s <= n - 1;
  i_c : 0 <= crem s;
  i_ok : Forall (msg_ok (mem s)) q;
  i_shape : shape s q;
}.
Record Inv (h : harness) (q : list msg) : Prop := {
  i_ring : RInv (hr h) q;
  i_pend : pend_ok (hr h) (h_alloc h);
  i_fet : h_fetched h = true -> exists m q', q = m :: q' /\ m_at m = rcur (hr h) /\ r_hdr (hr h) = rcur (hr h);
}.

(* ghost FIFO: a commit appends the message as it is in memory at that moment, a consume pops *)
Definition gstep (h : harness) (q : list msg) (o : op) : list msg :=
  match o with
  | OCommit =>
    match h_alloc h with
    | Some (off, nb) => q ++ [{| m_at := wcur (hr h); m_nb := nb; m_nc := hdr_ncl (mem (hr h)) (wcur (hr h));
                                  m_data := sub (mem (hr h)) off nb |}]
    | None => q
    end
  | ORMove => if h_fetched h then tl q else q
  | _ => q
  end.

Lemma init_inv : Inv (hinit n) [].
Proof.
  assert (U : u32 (n - 1) = n - 1) by (unfold u32; rewrite Z.mod_small; lia).
  constructor; [constructor|exact I|discriminate]; unfold hinit, init; psimpl; rewrite ?U; try lia;
    try (rewrite repeat_length; unfold CL; lia); try (constructor; fail).
  left. psimpl. rewrite ?U. simpl tiles. lia.
Qed.

(* where the unread messages are, in terms of lines: outside [w, w + crem] *)
Lemma free_area s q m : 0 <= crem s -> 0 <= wcur s <= n - 1 -> 0 <= rcur s <= n - 1 -> shape s q -> In m q ->
  (1 <= m_nb m /\ cal_cachelines (m_nb m) <= m_nc m) /\
  (m_at m + m_nc m <= wcur s \/ wcur s + crem s + 1 <= m_at m) /\ 0 <= m_at m /\ m_at m + m_nc m <= n.
Proof.
  intros Hc Hw Hr [(A & B & C)|(A & q1 & q2 & p & E & B1 & P & M & B2 & C)] Hin.
  - destruct (tiles_in _ _ _ _ B Hin) as (D & F & G). pose proof (tiles_le _ _ _ B). lia.
  - subst q. apply in_app_or in Hin as [Hin|Hin].
    + destruct (tiles_in _ _ _ _ B1 Hin) as (D & F & G). lia.
    + destruct (tiles_in _ _ _ _ B2 Hin) as (D & F & G). lia.
Qed.

(* frame rule: a blit confined to lines [x, y) leaves intact a message that lies outside *)
Lemma msg_ok_blit mm m off d x y :
  Z.of_nat (length mm) = CL * n -> msg_ok mm m -> 1 <= m_nb m /\ cal_cachelines (m_nb m) <= m_nc m ->
  0 <= m_at m -> m_at m + m_nc m <= n ->
  0 <= x -> CL * x <= off -> off + Z.of_nat (length d) <= CL * y -> y <= n ->
  m_at m + m_nc m <= x \/ y <= m_at m ->
  msg_ok (blit mm off d) m.
Proof.
  intros L (A & B & C & D) N1 N2 N3 X1 X2 X3 X4 Dis.
  pose proof (nc_bounds _ _ N1) as (K1 & K2). destruct N1 as [N1 N1']. unfold CL, HDR in *.
  unfold msg_ok, hdr_nbytes, hdr_ncl in *. unfold CL, HDR in *.
  rewrite !sub_blit_other by lia. auto.
Qed.
Lemma hdrn_blit mm p off d x y :
  Z.of_nat (length mm) = CL * n -> 0 <= p < n ->
  0 <= x -> CL * x <= off -> off + Z.of_nat (length d) <= CL * y -> y <= n ->
  p < x \/ y <= p ->
  hdr_nbytes (blit mm off d) p = hdr_nbytes mm p.
Proof.
  intros L P X1 X2 X3 X4 Dis. unfold hdr_nbytes, CL in *. rewrite sub_blit_other by lia. reflexivity.
Qed.

Lemma set_hdr_as_frame mm l nb nc m :
  Z.of_nat (length mm) = CL * n -> 0 <= l < n -> msg_ok mm m -> 1 <= m_nb m /\ cal_cachelines (m_nb m) <= m_nc m ->
  0 <= m_at m -> m_at m + m_nc m <= n ->
  m_at m + m_nc m <= l \/ l + 1 <= m_at m ->
  msg_ok (set_hdr mm l nb nc) m.
Proof.
  intros L Hl Ok N1 N2 N3 Dis. unfold set_hdr.
  assert (L1 : Z.of_nat (length (blit mm (CL * l) (enc32 nb))) = CL * n).
  { rewrite (blit1_length mm n L l nb Hl). exact L. }
  apply msg_ok_blit with (x := l) (y := l + 1); auto; cbn [length enc32]; unfold CL in *; try lia.
  apply msg_ok_blit with (x := l) (y := l + 1); auto; cbn [length enc32]; unfold CL in *; lia.
Qed.
Lemma set_hdr_hdrn_frame mm l nb nc p :
  Z.of_nat (length mm) = CL * n -> 0 <= l < n -> 0 <= p < n -> p <> l ->
  hdr_nbytes (set_hdr mm l nb nc) p = hdr_nbytes mm p.
Proof.
  intros L Hl Hp Ne. unfold hdr_nbytes. f_equal. apply sub_set_hdr_other with (n := n); auto; unfold CL, HDR in *; lia.
Qed.

(* all unread messages survive a write confined to lines [x, y) inside the free area *)
Lemma all_ok_blit s q off d x y : RInv s q ->
  wcur s <= x -> y <= wcur s + crem s + 1 -> CL * x <= off -> off + Z.of_nat (length d) <= CL * y -> y <= n ->
  Forall (msg_ok (blit (mem s) off d)) q.
Proof.
  intros I X Y O1 O2 Yn. destruct I. apply Forall_forall. intros m Hin.
  destruct (free_area s q m i_c0 i_w0 i_r0 i_shape0 Hin) as (A & B & C & D).
  rewrite Forall_forall in i_ok0.
  apply msg_ok_blit with (x := x) (y := y); auto; lia.
Qed.
Lemma all_ok_set_hdr s q l nb nc : RInv s q -> wcur s <= l <= wcur s + crem s -> l < n ->
  Forall (msg_ok (set_hdr (mem s) l nb nc)) q.
Proof.
  intros I L Ln. destruct I. apply Forall_forall. intros m Hin.
  destruct (free_area s q m i_c0 i_w0 i_r0 i_shape0 Hin) as (A & B & C & D).
  rewrite Forall_forall in i_ok0.
  apply set_hdr_as_frame; auto; lia.
Qed.

Lemma u32_id x : 0 <= x < 4294967296 -> u32 x = x.
Proof. intros. unfold u32. apply Z.mod_small. lia. Qed.
Lemma s32_id x : 0 <= x < 2147483648 -> s32 x = x.
Proof.
  intros. unfold s32. rewrite u32_id by lia. destruct (Z.ltb_spec x 2147483648); lia.
Qed.

(* muggle_shm_ringbuf_update_cached_remain keeps the invariant; either nothing but cached_remain
   changes (and it does not shrink), or the writer wrapped and the request now fits *)
Lemma upd_inv s q req : RInv s q -> 3 <= req < 2147483648 ->
  let s' := update_cached_remain s req in
  RInv s' q /\ r_hdr s' = r_hdr s /\ rcur s' = rcur s /\ w_hdr s' = w_hdr s /\
  ((wcur s' = wcur s /\ mem s' = mem s /\ crem s <= crem s') \/
   (rcur s <= wcur s /\ wcur s' = 0 /\ req <= crem s' /\ crem s' = rcur s - 1 /\ n - wcur s - 1 < req)).
Proof.
  intros I Hreq. destruct I as [In Il Iw Ir Ic Iok Ish]. unfold update_cached_remain.
  rewrite Z.gtb_ltb. destruct (Z.ltb_spec (wcur s) (rcur s)) as [A|A].
  - (* r > w *)
    destruct Ish as [(B & _)|(_ & q1 & q2 & p & E & B1 & P & M & B2 & C)]; [lia|].
    rewrite u32_id by lia. unfold set_crem. psimpl.
    split; [|repeat split; auto; left; repeat split; auto; lia].
    constructor; psimpl; auto; try lia.
    right. psimpl. split; [lia|]. exists q1, q2, p. repeat split; auto; lia.
  - destruct Ish as [(B & T & C)|(B & _)]; [|lia].
    rewrite In. rewrite (u32_id (n - wcur s - 1)) by lia. rewrite (s32_id (rcur s)) by lia.
    rewrite (s32_id req) by lia. rewrite !Z.geb_leb.
    destruct (Z.leb_spec req (n - wcur s - 1)) as [R|R].
    + unfold set_crem. psimpl.
      split; [|repeat split; auto; left; repeat split; auto; lia].
      constructor; psimpl; auto; try lia. left. psimpl. repeat split; auto; lia.
    + destruct (Z.leb_spec req (rcur s - 1)) as [L|L].
      * (* wrap: marker at w, w := 0 *)
        rewrite u32_id by lia. psimpl.
        assert (I0 : RInv s q) by (constructor; auto; left; auto).
        split; [|repeat split; auto; right; repeat split; auto; lia].
        constructor; psimpl; auto; try lia.
        -- rewrite (set_hdr_length (mem s) n Il) by lia. exact Il.
        -- apply all_ok_set_hdr; auto; lia.
        -- right. psimpl. split; [lia|]. exists q, [], (wcur s). rewrite app_nil_r.
           repeat split; auto; try lia. apply (hdr_nbytes_set (mem s) n Il); lia.
      * split; [constructor; auto; left; auto|]. repeat split; auto. left. repeat split; auto; lia.
Qed.

Lemma crem_room s q : RInv s q -> wcur s + crem s <= n - 1.
Proof.
  intros [In Il Iw Ir Ic Iok [(A & B & C)|(A & q1 & q2 & p & E & B1 & P & M & B2 & C)]]; lia.
Qed.

Lemma finish_inv s q nb nc : RInv s q -> 1 <= nb < 2147483648 -> cal_cachelines nb <= nc -> nc <= crem s ->
  let s' := fst (alloc_finish s nb nc) in
  RInv s' q /\ pend_ok s' (Some (CL * wcur s + HDR, nb)) /\
  wcur s' = wcur s /\ rcur s' = rcur s /\ r_hdr s' = r_hdr s /\ crem s' = crem s.
Proof.
  intros I Hnb Hnc Hc. pose proof (crem_room s q I) as Room. pose proof (cal_bounds nb ltac:(lia)) as (K1 & K2 & K3).
  pose proof I as I0. destruct I as [In Il Iw Ir Ic Iok Ish]. unfold alloc_finish. psimpl.
  split; [|split; [|repeat split; reflexivity]].
  - constructor; psimpl; auto.
    + rewrite (set_hdr_length (mem s) n Il) by lia. exact Il.
    + apply all_ok_set_hdr; auto; lia.
    + destruct Ish as [(A & B & C)|(A & q1 & q2 & p & E & B1 & P & M & B2 & C)]; [left; auto|].
      right. psimpl. split; [lia|]. exists q1, q2, p. repeat split; auto.
      pose proof (tiles_le _ _ _ B1).
      rewrite set_hdr_hdrn_frame; auto; lia.
  - unfold pend_ok. psimpl.
    rewrite (hdr_nbytes_set (mem s) n Il) by lia. rewrite (hdr_ncl_set (mem s) n Il) by lia.
    repeat split; auto; lia.
Qed.

(* both allocation entry points: w_alloc_cachelines with a footprint that holds the message *)
Lemma alloc_cl_inv h q nb nc : Inv h q -> 1 <= nb < 2147483648 -> cal_cachelines nb <= nc < 2147483648 ->
  Inv {| hr := fst (w_alloc_cachelines (hr h) nb nc);
         h_alloc := match snd (w_alloc_cachelines (hr h) nb nc) with Some off => Some (off, nb) | None => h_alloc h end;
         h_fetched := h_fetched h |} q.
Proof.
  intros [IR IP IF] G Gc.
  pose proof (cal_bounds nb ltac:(lia)) as (K1 & K2 & K3).
  unfold w_alloc_cachelines.
  destruct (Z.ltb_spec (crem (hr h)) nc) as [C|C].
  + destruct (upd_inv (hr h) q nc IR ltac:(lia)) as (U1 & U2 & U3 & U4 & U5).
    set (s1 := update_cached_remain (hr h) nc) in *.
    destruct (Z.ltb_spec (crem s1) nc) as [C1|C1].
    * (* refused: only cached_remain may have grown *)
      psimpl. constructor; psimpl; auto.
      -- destruct U5 as [(W & M & CC)|(_ & _ & ? & _)]; [|lia].
         destruct (h_alloc h) as [[off nb0]|]; [|exact I]. unfold pend_ok in *.
         rewrite W, M, U4. intuition lia.
      -- rewrite U2, U3. exact IF.
    * destruct (finish_inv s1 q nb nc U1 ltac:(lia) ltac:(lia) C1) as (F1 & F2 & F3 & F4 & F5 & F6).
      unfold alloc_finish in *. psimpl. constructor; psimpl; auto.
      rewrite U2, U3. exact IF.
  + destruct (finish_inv (hr h) q nb nc IR ltac:(lia) ltac:(lia) C) as (F1 & F2 & F3 & F4 & F5 & F6).
    unfold alloc_finish in *. psimpl. constructor; psimpl; auto.
Qed.

Lemma step_inv h q o : sized_op o -> Inv h q -> Inv (fst (step h o)) (gstep h q o).
Proof.
  intros Hsz I0. pose proof I0 as [IR IP IF]. destruct o as [nb|nb nc|a d| | |]; unfold step; cbn [sized_op] in Hsz.
  - (* alloc *)
    cbn [gstep].
    destruct ((0 <=? nb) && (nb <? 2147483648)) eqn:G; [|exact I0].
    apply andb_prop in G as [G1 G2]. apply Z.leb_le in G1. apply Z.ltb_lt in G2. clear G1. pose proof Hsz as G1.
    pose proof (cal_lt nb ltac:(lia)) as K4.
    pose proof (alloc_cl_inv h q nb (cal_cachelines nb) I0 ltac:(lia) ltac:(lia)) as X.
    unfold w_alloc_bytes. destruct (w_alloc_cachelines (hr h) nb (cal_cachelines nb)) as [s' r]. exact X.
  - (* alloc with an explicit footprint *)
    cbn [gstep].
    destruct ((0 <=? nb) && (nb <? 2147483648) && (cal_cachelines nb <=? nc) && (nc <? 2147483648)) eqn:G; [|exact I0].
    apply andb_prop in G as [G G4]. apply andb_prop in G as [G G3]. apply andb_prop in G as [G1 G2].
    apply Z.leb_le in G1. apply Z.ltb_lt in G2. apply Z.leb_le in G3. apply Z.ltb_lt in G4. clear G1. pose proof Hsz as G1.
    pose proof (alloc_cl_inv h q nb nc I0 ltac:(lia) ltac:(lia)) as X.
    destruct (w_alloc_cachelines (hr h) nb nc) as [s' r]. exact X.
  - (* user write into the allocated region *)
    cbn [gstep]. destruct (h_alloc h) as [[off nb]|] eqn:EA; [|constructor; psimpl; auto; try exact IP; rewrite EA; exact IP].
    destruct ((0 <=? a) && (a + Z.of_nat (length d) <=? nb)) eqn:G; [|constructor; psimpl; auto; try exact IP; rewrite EA; exact IP].
    apply andb_prop in G as [G1 G2]. apply Z.leb_le in G1. apply Z.leb_le in G2.
    unfold pend_ok in IP. destruct IP as (P1 & P2 & P3 & P4 & P5 & P6).
    pose proof (cal_bounds nb ltac:(lia)) as (K1 & K2 & K3).
    pose proof (crem_room _ _ IR) as Room. pose proof IR as IR0.
    destruct IR as [In Il Iw Ir Ic Iok Ish]. unfold user_write. psimpl.
    set (w := wcur (hr h)) in *. set (need := cal_cachelines nb) in *.
    assert (B1 : CL * w + HDR <= off + a) by lia.
    assert (B2 : off + a + Z.of_nat (length d) <= CL * (w + need - 2)) by (unfold CL, HDR in *; lia).
    assert (L' : Z.of_nat (length (blit (mem (hr h)) (off + a) d)) = CL * n).
    { rewrite blit_length; unfold CL, HDR in *; lia. }
    constructor; psimpl; auto.
    + constructor; psimpl; auto.
      * apply all_ok_blit with (x := w) (y := w + need - 2); auto; unfold CL, HDR in *; fold w; lia.
      * destruct Ish as [(A & B & C)|(A & q1 & q2 & p & E & T1 & P & M & T2 & C)]; [left; auto|].
        right. psimpl. split; [lia|]. exists q1, q2, p. repeat split; auto.
        pose proof (tiles_le _ _ _ T1). rewrite <- M.
        apply hdrn_blit with (x := w) (y := w + need - 2); auto; unfold CL, HDR in *; fold w in A, C; lia.
    + unfold pend_ok. psimpl. fold w.
      assert (E1 : hdr_nbytes (blit (mem (hr h)) (off + a) d) w = hdr_nbytes (mem (hr h)) w).
      { unfold hdr_nbytes. f_equal. apply sub_blit_other; unfold CL, HDR in *; lia. }
      assert (E2 : hdr_ncl (blit (mem (hr h)) (off + a) d) w = hdr_ncl (mem (hr h)) w).
      { unfold hdr_ncl. f_equal. apply sub_blit_other; unfold CL, HDR in *; lia. }
      rewrite E1, E2. repeat split; auto; lia.
  - (* commit *)
    cbn [gstep]. destruct (h_alloc h) as [[off nb]|] eqn:EA; [|constructor; psimpl; auto; try exact IP; rewrite EA; exact IP].
    unfold pend_ok in IP. destruct IP as (P1 & P2 & P3 & P4 & P5 & P6).
    pose proof (cal_bounds nb ltac:(lia)) as (K1 & K2 & K3).
    pose proof (crem_room _ _ IR) as Room.
    destruct IR as [In Il Iw Ir Ic Iok Ish]. unfold w_move. psimpl. rewrite P2.
    set (w := wcur (hr h)) in *. set (need := hdr_ncl (mem (hr h)) w) in *.
    rewrite (u32_id (w + need)) by lia. rewrite (u32_id (crem (hr h) - need)) by lia.
    set (m := {| m_at := w; m_nb := nb; m_nc := need; m_data := sub (mem (hr h)) off nb |}).
    assert (Tm : forall a qq, tiles a qq w -> tiles a (qq ++ [m]) (w + need)).
    { intros a qq T. apply (tiles_app a qq w m T); subst m; psimpl; auto; lia. }
    constructor; psimpl; [constructor; psimpl; auto; try lia| exact I |].
    + apply Forall_app. split; [exact Iok|]. constructor; [|constructor].
      unfold msg_ok. subst m. psimpl. repeat split; auto; try lia. rewrite P1. reflexivity.
    + destruct Ish as [(A & B & C)|(A & q1 & q2 & p & E & T1 & P & M & T2 & C)].
      * left. psimpl. repeat split; auto; try lia.
      * right. psimpl. split; [lia|]. exists q1, (q2 ++ [m]), p. subst q. rewrite app_assoc.
        repeat split; auto; lia.
    + intros Hf. destruct (IF Hf) as (m0 & q' & E & R1 & R2). subst q. exists m0, (q' ++ [m]). auto.
  - (* fetch *)
    cbn [gstep]. unfold r_fetch.
    destruct IR as [In Il Iw Ir Ic Iok Ish].
    destruct (Z.eqb_spec (wcur (hr h)) (rcur (hr h))) as [E|E].
    + psimpl. constructor; psimpl; auto. constructor; auto.
    + unfold set_r. psimpl.
      assert (Hhead : forall m q', q = m :: q' -> m_at m = rcur (hr h) -> 1 <= m_nb m ->
                hdr_nbytes (mem (hr h)) (rcur (hr h)) =? 0 = false).
      { intros m q' Eq At Nb. subst q. inversion Iok as [|? ? Ok _]; subst.
        destruct Ok as (_ & O2 & _). rewrite <- At, O2. apply Z.eqb_neq. lia. }
      destruct Ish as [(A & T & C)|(A & q1 & q2 & p & Eq & T1 & P & M & T2 & C)].
      * (* r < w: the oldest message starts at r *)
        destruct q as [|m q']; [simpl in T; lia|]. simpl in T. destruct T as (At & [Nb Nc] & T).
        rewrite (Hhead m q' eq_refl At Nb). cbn [negb]. psimpl.
        constructor; psimpl; [constructor; psimpl; auto; left; psimpl; simpl; repeat split; auto | exact IP |].
        intros _. exists m, q'. auto.
      * destruct q1 as [|m q1'].
        -- (* the reader sits on the wrap marker *)
           simpl in T1. subst p. simpl in Eq. subst q2. rewrite M. cbn [negb Z.eqb]. psimpl.
           destruct (Z.eqb_spec (wcur (hr h)) 0) as [W0|W0].
           ++ psimpl. constructor; psimpl; [constructor; psimpl; auto | exact IP | ].
              2:{ intros Hf'. destruct (IF Hf') as (m0 & q0 & ? & ? & ?). exists m0, q0. auto. }
              right. psimpl. split; [lia|]. exists [], q, (rcur (hr h)). simpl. repeat split; auto.
           ++ destruct q as [|m q']; [simpl in T2; lia|]. simpl in T2. destruct T2 as (At & [Nb Nc] & T2).
              inversion Iok as [|? ? Ok _]; subst. destruct Ok as (_ & O2 & _).
              rewrite At in O2. rewrite O2. replace (m_nb m =? 0) with false by (symmetry; apply Z.eqb_neq; lia).
              cbn [negb]. psimpl.
              constructor; psimpl; [constructor; psimpl; auto; try lia| exact IP |].
              ** left. psimpl. simpl. repeat split; auto; lia.
              ** intros _. exists m, q'. auto.
        -- simpl in T1. destruct T1 as (At & [Nb Nc] & T1). subst q. simpl in Hhead.
           rewrite (Hhead m (q1' ++ q2) eq_refl At Nb). cbn [negb]. psimpl.
           constructor; psimpl; [constructor; psimpl; auto| exact IP |].
           ++ right. psimpl. split; [lia|]. exists (m :: q1'), q2, p. simpl. repeat split; auto.
           ++ intros _. exists m, (q1' ++ q2). auto.
  - (* r_move *)
    cbn [gstep]. destruct (h_fetched h) eqn:Hf; [|constructor; psimpl; auto; try exact IF; rewrite Hf; exact IF].
    destruct (IF eq_refl) as (m & q' & Eq & At & Rh). subst q.
    destruct IR as [In Il Iw Ir Ic Iok Ish].
    inversion Iok as [|? ? Ok Iok']; subst. destruct Ok as (O1 & O2 & O3 & O4).
    unfold r_move, set_r. psimpl. rewrite Rh, <- At, O3.
    assert (Nb : 1 <= m_nb m /\ cal_cachelines (m_nb m) <= m_nc m).
    { destruct Ish as [(A & T & C)|(A & q1 & q2 & p & Eq & T1 & P & M & T2 & C)].
      - simpl in T. tauto.
      - destruct q1 as [|x q1']; simpl in Eq.
        + subst q2. simpl in T2. tauto.
        + inversion Eq; subst. simpl in T1. tauto. }
    pose proof (nc_bounds _ _ Nb) as (K1 & K2).
    constructor; psimpl; [constructor; psimpl; auto| | discriminate].
    + destruct Ish as [(A & T & C)|(A & q1 & q2 & p & Eq & T1 & P & M & T2 & C)].
      * simpl in T. destruct T as (_ & _ & T). pose proof (tiles_le _ _ _ T). rewrite u32_id by lia. lia.
      * destruct q1 as [|x q1']; simpl in Eq.
        -- subst q2. simpl in T2. lia.
        -- inversion Eq; subst. simpl in T1. destruct T1 as (_ & _ & T1). pose proof (tiles_le _ _ _ T1).
           rewrite u32_id by lia. lia.
    + destruct Ish as [(A & T & C)|(A & q1 & q2 & p & Eq & T1 & P & M & T2 & C)].
      * simpl in T. destruct T as (_ & _ & T). pose proof (tiles_le _ _ _ T). rewrite u32_id by lia.
        left. psimpl. rewrite At. repeat split; auto; lia.
      * destruct q1 as [|x q1']; simpl in Eq.
        -- subst q2. simpl in T2. lia.
        -- inversion Eq; subst. simpl in T1. destruct T1 as (_ & _ & T1). pose proof (tiles_le _ _ _ T1).
           rewrite u32_id by lia. right. psimpl. split; [lia|]. exists q1', q2, p.
           rewrite At. repeat split; auto; lia.
    + exact IP.
Qed.

(* what a fetch answers: the oldest committed unread message (offset, length, bytes as committed),
   or nothing exactly when the ghost FIFO is empty *)
Definition expected_fetch (q : list msg) : res :=
  RFetch (match q with [] => None | m :: _ => Some (CL * m_at m + HDR, m_nb m, m_data m) end).

Local Opaque Z.mul.
Lemma fetch_spec h q : Inv h q -> snd (step h OFetch) = expected_fetch q.
Proof.
  intros [IR IP IF]. unfold step, r_fetch, expected_fetch.
  destruct IR as [In Il Iw Ir Ic Iok Ish].
  assert (Hhead : forall m q', q = m :: q' -> 1 <= m_nb m ->
            (hdr_nbytes (mem (hr h)) (m_at m) =? 0) = false /\
            hdr_nbytes (mem (hr h)) (m_at m) = m_nb m /\
            sub (mem (hr h)) (CL * m_at m + HDR) (m_nb m) = m_data m).
  { intros m q' Eq Nb. subst q. inversion Iok as [|? ? Ok _]; subst.
    destruct Ok as (_ & O2 & _ & O4). rewrite O2. repeat split; auto. apply Z.eqb_neq. lia. }
  destruct (Z.eqb_spec (wcur (hr h)) (rcur (hr h))) as [E|E].
  - destruct Ish as [(A & T & C)|(A & _)]; [|lia]. rewrite E in T. apply tiles_eq_nil in T. subst q. reflexivity.
  - unfold set_r. psimpl.
    destruct Ish as [(A & T & C)|(A & q1 & q2 & p & Eq & T1 & P & M & T2 & C)].
    + destruct q as [|m q']; [simpl in T; lia|]. simpl in T. destruct T as (At & [Nb Nc] & T).
      destruct (Hhead m q' eq_refl Nb) as (H1 & H2 & H3). rewrite <- At. rewrite H1. cbn [negb]. psimpl.
      rewrite H2, H3. reflexivity.
    + destruct q1 as [|m q1'].
      * simpl in T1. subst p. simpl in Eq. subst q2. rewrite M. cbn [negb Z.eqb]. psimpl.
        destruct (Z.eqb_spec (wcur (hr h)) 0) as [W0|W0].
        -- rewrite W0 in T2. apply tiles_eq_nil in T2. subst q. reflexivity.
        -- destruct q as [|m q']; [simpl in T2; lia|]. simpl in T2. destruct T2 as (At & [Nb Nc] & T2).
           destruct (Hhead m q' eq_refl Nb) as (H1 & H2 & H3). rewrite At in H1, H2, H3.
           rewrite H1. cbn [negb]. psimpl. rewrite H2, At. change (CL * 0 + HDR) with (CL * 0 + HDR) in *.
           rewrite H3. reflexivity.
      * simpl in T1. destruct T1 as (At & [Nb Nc] & T1). subst q. simpl.
        destruct (Hhead m (q1' ++ q2) eq_refl Nb) as (H1 & H2 & H3). rewrite <- At. rewrite H1. cbn [negb]. psimpl.
        rewrite H2, H3. reflexivity.
Qed.

Local Transparent Z.mul.

(* the committed bytes have exactly the committed length *)
Lemma msg_len h q m : Inv h q -> In m q -> Z.of_nat (length (m_data m)) = m_nb m.
Proof.
  intros [IR _ _] Hin. destruct IR as [In Il Iw Ir Ic Iok Ish].
  destruct (free_area _ _ _ Ic Iw Ir Ish Hin) as (A & B & C & D).
  rewrite Forall_forall in Iok. destruct (Iok m Hin) as (O1 & O2 & O3 & O4).
  pose proof (nc_bounds _ _ A) as (K1 & K2).
  rewrite <- O4. rewrite sub_length; unfold CL, HDR in *; lia.
Qed.

(* FIFO refinement over every op list *)
Fixpoint fifo_ok (h : harness) (q : list msg) (ops : list op) : Prop :=
  match ops with
  | [] => True
  | o :: r => (o = OFetch -> snd (step h o) = expected_fetch q) /\ fifo_ok (fst (step h o)) (gstep h q o) r
  end.

Lemma fifo_ok_inv ops : forall h q, sized ops -> Inv h q -> fifo_ok h q ops.
Proof.
  induction ops as [|o r IH]; intros h q Hs I; simpl; [exact Logic.I|].
  inversion Hs as [|? ? Ho Hr]; subst. split.
  - intros ->. apply fetch_spec. exact I.
  - apply IH; [exact Hr|]. apply step_inv; [exact Ho|exact I].
Qed.

(* reachable harness states with their ghost FIFO *)
Fixpoint reach (h : harness) (q : list msg) (ops : list op) : harness * list msg :=
  match ops with
  | [] => (h, q)
  | o :: r => reach (fst (step h o)) (gstep h q o) r
  end.
Lemma reach_inv ops : forall h q, sized ops -> Inv h q -> Inv (fst (reach h q ops)) (snd (reach h q ops)).
Proof.
  induction ops as [|o r IH]; intros h q Hs I; simpl; [exact I|]. inversion Hs as [|? ? Ho Hr]; subst.
  apply IH; [exact Hr|]. apply step_inv; [exact Ho|exact I].
Qed.
Lemma reach_run ops : forall h q, fst (reach h q ops) = fst (run h ops).
Proof.
  induction ops as [|o r IH]; intros h q; simpl; [reflexivity|].
  destruct (step h o) as [h1 x] eqn:E. simpl. rewrite (IH h1 (gstep h q o)).
  destruct (run h1 r). reflexivity.
Qed.

(* the region of an outstanding allocation is inside the ring, leaves the last line free, and is
   disjoint from every committed unread message and from the wrap marker the reader may still read *)
Definition live_marker (s : ring) (q : list msg) (p : Z) : Prop :=
  wcur s < rcur s /\ exists q1 q2, q = q1 ++ q2 /\ tiles (rcur s) q1 p /\ tiles 0 q2 (wcur s) /\
  hdr_nbytes (mem s) p = 0.

Lemma pend_region_free h q off nb : Inv h q -> h_alloc h = Some (off, nb) ->
  let a := wcur (hr h) in let need := hdr_ncl (mem (hr h)) a in
  cal_cachelines nb <= need /\
  off = CL * a + HDR /\ 0 <= a /\ a + need <= n - 1 /\ off + nb <= CL * (a + need - 2) /\
  Forall (fun m => m_at m + m_nc m <= a \/ a + need <= m_at m) q /\
  (forall p, live_marker (hr h) q p -> a + need <= p).
Proof.
  intros [IR IP IF] EA. rewrite EA in IP. destruct IP as (P1 & P2 & P3 & P4 & P5 & P6).
  pose proof (crem_room _ _ IR) as Room. pose proof (cal_bounds nb ltac:(lia)) as (K1 & K2 & K3).
  destruct IR as [In Il Iw Ir Ic Iok Ish]. cbv zeta. repeat split; auto; try lia.
  - unfold CL, HDR in *. lia.
  - apply Forall_forall. intros m Hin. destruct (free_area _ _ _ Ic Iw Ir Ish Hin) as (A & B & C & D). lia.
  - intros p (A & q1 & q2 & Eq & T1 & T2 & M).
    destruct Ish as [(B & _)|(_ & q1' & q2' & p' & Eq' & T1' & P' & M' & T2' & C)]; [lia|].
    pose proof (tiles_le _ _ _ T1). lia.
Qed.

(* the header written by a successful allocation carries exactly the requested footprint *)
Lemma alloc_cl_hdr s q nb nc s' off : RInv s q -> 3 <= nc < 2147483648 ->
  w_alloc_cachelines s nb nc = (s', Some off) -> hdr_ncl (mem s') (wcur s') = nc.
Proof.
  intros IR Hnc. unfold w_alloc_cachelines.
  assert (F : forall s1, RInv s1 q -> alloc_finish s1 nb nc = (s', Some off) -> hdr_ncl (mem s') (wcur s') = nc).
  { intros s1 [In Il Iw Ir Ic Iok Ish] E. unfold alloc_finish in E. inversion E; subst. psimpl.
    apply (hdr_ncl_set (mem s1) n Il); lia. }
  destruct (Z.ltb_spec (crem s) nc) as [C|C].
  - destruct (upd_inv s q nc IR ltac:(lia)) as (U1 & _).
    destruct (crem (update_cached_remain s nc) <? nc); [discriminate|]. apply F. exact U1.
  - apply F. exact IR.
Qed.

End Seq.

(* ---- statements used by Properties_C08.v ---- *)
Lemma seq_refines_fifo n ops : 1 <= n < 2147483648 -> sized ops -> fifo_ok (hinit n) [] ops.
Proof. intros H Hs. apply (fifo_ok_inv n H); [exact Hs|]. apply init_inv. exact H. Qed.

Lemma seq_reachable_facts n ops : 1 <= n < 2147483648 -> sized ops ->
  let h := fst (reach (hinit n) [] ops) in let q := snd (reach (hinit n) [] ops) in
  h = fst (run (hinit n) ops) /\
  snd (step h OFetch) = expected_fetch q /\
  Forall (fun m => Z.of_nat (length (m_data m)) = m_nb m /\ 1 <= m_nb m) q.
Proof.
  intros H Hs h q. pose proof (reach_inv n H ops (hinit n) [] Hs (init_inv n H)) as I. fold h q in I.
  split; [apply reach_run|]. split; [apply (fetch_spec n); auto|].
  apply Forall_forall. intros m Hin. split; [apply (msg_len n h q m I Hin)|].
  destruct I as [[In Il Iw Ir Ic Iok Ish] _ _]. destruct (free_area n _ _ _ Ic Iw Ir Ish Hin). tauto.
Qed.

Lemma alloc_no_overlap n ops nb h' off : 1 <= n < 2147483648 -> sized ops -> 1 <= nb ->
  let h := fst (reach (hinit n) [] ops) in let q := snd (reach (hinit n) [] ops) in
  step h (OAlloc nb) = (h', RAlloc (Some off)) ->
  let a := wcur (hr h') in let need := cal_cachelines nb in
  off = CL * a + HDR /\ 0 <= a /\ a + need <= n - 1 /\ off + nb <= CL * (a + need - 2) /\
  Forall (fun m => m_at m + m_nc m <= a \/ a + need <= m_at m) q /\
  (forall p, live_marker (hr h') q p -> a + need <= p).
Proof.
  intros H Hs Hnb h q E. pose proof (reach_inv n H ops (hinit n) [] Hs (init_inv n H)) as I. fold h q in I.
  pose proof (step_inv n H h q (OAlloc nb) Hnb I) as I'. rewrite E in I'. cbn [fst gstep] in I'.
  unfold step in E. destruct ((0 <=? nb) && (nb <? 2147483648)) eqn:G; [|discriminate].
  apply andb_prop in G as [G1 G2]. apply Z.leb_le in G1. apply Z.ltb_lt in G2. clear G1. pose proof Hnb as G1.
  pose proof (cal_bounds nb G1) as (K1 & K2 & K3). pose proof (cal_lt nb ltac:(lia)) as K4.
  unfold w_alloc_bytes in E. destruct (w_alloc_cachelines (hr h) nb (cal_cachelines nb)) as [s' [o|]] eqn:EW; [|discriminate].
  assert (Eh : hr h' = s' /\ h_alloc h' = Some (off, nb)) by (inversion E; subst; split; reflexivity).
  destruct Eh as [Eh1 Eh2].
  pose proof (alloc_cl_hdr n H (hr h) q nb (cal_cachelines nb) s' o (i_ring n _ _ I) ltac:(lia) EW) as Hh.
  destruct (pend_region_free n h' q off nb I' Eh2) as (_ & R). cbv zeta in R. rewrite Eh1, Hh in R.
  cbv zeta. rewrite Eh1. exact R.
Qed.

(* the same for w_alloc_cachelines with any footprint nc that holds the message: the whole of [a, a + nc) *)
Lemma alloc_cl_no_overlap n ops nb nc h' off : 1 <= n < 2147483648 -> sized ops -> 1 <= nb ->
  let h := fst (reach (hinit n) [] ops) in let q := snd (reach (hinit n) [] ops) in
  step h (OAllocCl nb nc) = (h', RAlloc (Some off)) ->
  let a := wcur (hr h') in
  cal_cachelines nb <= nc /\
  off = CL * a + HDR /\ 0 <= a /\ a + nc <= n - 1 /\ off + nb <= CL * (a + nc - 2) /\
  Forall (fun m => m_at m + m_nc m <= a \/ a + nc <= m_at m) q /\
  (forall p, live_marker (hr h') q p -> a + nc <= p).
Proof.
  intros H Hs Hnb h q E. pose proof (reach_inv n H ops (hinit n) [] Hs (init_inv n H)) as I. fold h q in I.
  pose proof (step_inv n H h q (OAllocCl nb nc) Hnb I) as I'. rewrite E in I'. cbn [fst gstep] in I'.
  unfold step in E.
  destruct ((0 <=? nb) && (nb <? 2147483648) && (cal_cachelines nb <=? nc) && (nc <? 2147483648)) eqn:G; [|discriminate].
  apply andb_prop in G as [G G4]. apply andb_prop in G as [G G3]. apply andb_prop in G as [G1 G2].
  apply Z.leb_le in G1. apply Z.ltb_lt in G2. apply Z.leb_le in G3. apply Z.ltb_lt in G4. clear G1. pose proof Hnb as G1.
  pose proof (cal_bounds nb G1) as (K1 & K2 & K3).
  destruct (w_alloc_cachelines (hr h) nb nc) as [s' [o|]] eqn:EW; [|discriminate].
  assert (Eh : hr h' = s' /\ h_alloc h' = Some (off, nb)) by (inversion E; subst; split; reflexivity).
  destruct Eh as [Eh1 Eh2].
  pose proof (alloc_cl_hdr n H (hr h) q nb nc s' o (i_ring n _ _ I) ltac:(lia) EW) as Hh.
  pose proof (pend_region_free n h' q off nb I' Eh2) as R. cbv zeta in R. rewrite Eh1, Hh in R.
  cbv zeta. rewrite Eh1. exact R.
Qed.

Lemma rfetch_inj a b c a' b' c' : RFetch (Some (a, b, c)) = RFetch (Some (a', b', c')) -> a = a' /\ b = b' /\ c = c'.
Proof. intros H. inversion H. auto. Qed.

Lemma indices_in_range n ops : 1 <= n < 2147483648 -> sized ops ->
  let h := fst (run (hinit n) ops) in
  0 <= wcur (hr h) <= n - 1 /\ 0 <= rcur (hr h) <= n - 1 /\ 0 <= crem (hr h) /\
  wcur (hr h) + crem (hr h) <= n - 1 /\ Z.of_nat (length (mem (hr h))) = CL * n /\
  (forall off nb bytes, snd (step h OFetch) = RFetch (Some (off, nb, bytes)) ->
     exists l, off = CL * l + HDR /\ 0 <= l /\ 1 <= nb /\ off + nb <= CL * (l + cal_cachelines nb - 2) /\
               l + cal_cachelines nb <= n).
Proof.
  intros H Hs h. pose proof (reach_inv n H ops (hinit n) [] Hs (init_inv n H)) as I.
  rewrite (reach_run ops (hinit n) []) in I. fold h in I. set (q := snd (reach (hinit n) [] ops)) in *.
  pose proof (crem_room n _ _ (i_ring n _ _ I)) as Room.
  pose proof (fetch_spec n h q I) as F. pose proof I as I0.
  destruct I as [[In Il Iw Ir Ic Iok Ish] _ _]. repeat split; auto; try lia.
  intros off nb bytes E. rewrite F in E. unfold expected_fetch in E. destruct q as [|m q']; [discriminate|].
  apply rfetch_inj in E. destruct E as (E1 & E2 & E3). subst off nb bytes. exists (m_at m).
  destruct (free_area n _ _ m Ic Iw Ir Ish (or_introl eq_refl)) as (A & B & C & D).
  pose proof (nc_bounds _ _ A) as (K1 & K2). pose proof (cal_bounds _ (proj1 A)) as (K3 & K4 & K5).
  repeat split; auto; unfold CL, HDR in *; lia.
Qed.

(* non-vacuity: on a ring of 8 lines (messages of 4 and 3 lines, the first consumed) the third
   message wraps: marker at line 7, allocation at offset 8 while the reader is at line 4; it is
   delivered after the second, byte for byte, and then the ring is empty *)
Example seq_nonvacuous :
  let rs := snd (run (hinit 8) [OAlloc 100; OWrite 0 [5]; OCommit; OAlloc 2; OWrite 0 [6; 7]; OCommit; OFetch; ORMove;
                      OAlloc 3; OWrite 0 [8; 9; 10]; OCommit; OFetch; ORMove; OFetch; ORMove; OFetch]) in
  nth 3 rs RSkip = RAlloc (Some 264) /\ nth 8 rs RSkip = RAlloc (Some 8) /\
  nth 11 rs RSkip = RFetch (Some (264, 2, [6; 7])) /\ nth 13 rs RSkip = RFetch (Some (8, 3, [8; 9; 10])) /\
  nth 15 rs RSkip = RFetch None.
Proof. vm_compute. repeat split; reflexivity. Qed.

(* non-vacuity with explicit footprints (w_alloc_cachelines): fixed 8-line slots for payloads of 10 / 47 bytes
   (which need 3 lines): the second slot starts at line 8 (offset 520), not at line 3, and the reader's cursor
   follows the footprint stored in the header (8), not the one recomputed from the length (3) *)
Example seq_cl_nonvacuous :
  let r := run (hinit 32) [OAllocCl 10 8; OWrite 0 [5]; OCommit; OAllocCl 47 8; OWrite 0 [6; 7]; OCommit;
                           OFetch; ORMove; OFetch; ORMove; OFetch] in
  nth 0 (snd r) RSkip = RAlloc (Some 8) /\ nth 3 (snd r) RSkip = RAlloc (Some 520) /\
  (exists t, nth 6 (snd r) RSkip = RFetch (Some (8, 10, 5 :: t))) /\
  (exists t, nth 8 (snd r) RSkip = RFetch (Some (520, 47, 6 :: 7 :: t))) /\
  nth 10 (snd r) RSkip = RFetch None /\ rcur (hr (fst r)) = 16 /\ wcur (hr (fst r)) = 16.
Proof. vm_compute. repeat split; try reflexivity; eexists; reflexivity. Qed.

(* OBSERVATION outside the property's quantifier (sizes 1 byte .. half the ring): a message of length 0 is accepted
   by w_alloc_bytes; its header (n_bytes = 0) is the wrap marker's encoding, so after it is committed the reader takes
   it for a marker, jumps back to line 0 and is given the first message (5 bytes, already consumed) again - and
   again after every r_move; the 0-byte message and everything committed after it are never delivered.  The model
   executes the code as it is; the theorems above carry the hypothesis [sized]. *)
Example zero_length_observation :
  let rs := snd (run (hinit 16) [OAlloc 5; OWrite 0 [65; 66; 67; 68; 69]; OCommit; OFetch; ORMove;
                                  OAlloc 0; OCommit; OFetch; ORMove; OFetch; ORMove; OFetch]) in
  nth 3 rs RSkip = RFetch (Some (8, 5, [65; 66; 67; 68; 69])) /\ nth 5 rs RSkip = RAlloc (Some 200) /\
  nth 7 rs RSkip = RFetch (Some (8, 5, [65; 66; 67; 68; 69])) /\ nth 9 rs RSkip = RFetch (Some (8, 5, [65; 66; 67; 68; 69])) /\
  nth 11 rs RSkip = RFetch (Some (8, 5, [65; 66; 67; 68; 69])) /\
  ~ sized [OAlloc 0].
Proof. vm_compute. repeat split; try reflexivity. intros H. inversion H as [|? ? X _]; subst. vm_compute in X. apply X. reflexivity. Qed.
