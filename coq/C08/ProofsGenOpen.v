(* C08 — second tie, muggle_shm_ringbuf_open: the segment size the C text of this run asks from muggle_shm_open
   and the initial values of the ring fields (gen_open of gen/Params_C08.v, sliced by lib/props/c08_slice.py
   OpenSlicer) equal the model's open_sizes / init on the whole uint32 domain of the request.  The decision
   tactic is shape independent (masks -> mod, the argument of the uninterpreted muggle_next_pow_of_2 brought to
   a canonical form by arithmetic, every `if` split, lia per component). *)
From MV Require Import Lib.Leaf C08.Model C08.GenTac gen.Params_C08.
From Coq Require Import ZifyBool.
Local Open Scope Z_scope.
Ltac Zify.zify_post_hook ::= Z.to_euclidean_division_equations.

From MV Require Import C08.ProofsOpen.

(* (result 1 = the ring; cached_remain; magic; n_bytes; n_cacheline; read_cursor; ready; bytes asked from
   muggle_shm_open; total_bytes; write_cursor) with fl = flag & MUGGLE_SHM_FLAG_CREAT *)
Definition ref_open (cr mg nb ncl rc rdy seg tot wc fl nbytes : Z) :=
  let '(n, data, total) := open_sizes nbytes in
  if z2b fl then (1, u32 (n - 1), MAGIC, data, n, 0, 1, total, total, 0)
  else (1, cr, mg, nb, ncl, rc, rdy, total, tot, wc).

(* closed integer subterms (constants of the C text after the explicit wraps) are evaluated *)
Ltac closed_simpl :=
  repeat match goal with
  | |- context [?a mod ?b] => closed_term a; closed_term b; let v := eval vm_compute in (a mod b) in progress change (a mod b) with v
  | |- context [?a - ?b] => closed_term a; closed_term b; let v := eval vm_compute in (a - b) in progress change (a - b) with v
  | |- context [?a + ?b] => closed_term a; closed_term b; let v := eval vm_compute in (a + b) in progress change (a + b) with v
  | |- context [?a * ?b] => closed_term a; closed_term b; let v := eval vm_compute in (a * b) in progress change (a * b) with v
  | |- context [- ?a] => closed_term a; let v := eval vm_compute in (- a) in progress change (- a) with v
  | |- context [?a ^ ?b] => closed_term a; closed_term b; let v := eval vm_compute in (a ^ b) in progress change (a ^ b) with v
  end.
(* x & ~(2^k - 1) becomes x - x mod 2^k *)
Ltac mask_to_mod :=
  repeat first [ rewrite land_m64 by (timeout 20 lia) | rewrite land_m64_32 by (timeout 20 lia)
               | rewrite land_m4096_32 by (timeout 20 lia) | rewrite land_m4096_64 by (timeout 20 lia) ].
(* every argument of the uninterpreted npo2 is brought to one canonical form *)
Ltac canon_npo2 c :=
  repeat match goal with
  | |- context [npo2 ?a] =>
    lazymatch a with
    | c => fail
    | _ => replace a with c by (timeout 60 lia)
    end
  end.

Lemma gen_open_ref cr mg nb ncl rc rdy seg tot wc k_num flag nbytes : 0 <= nbytes < 4294967296 ->
  gen_open cr mg nb ncl rc rdy seg tot wc k_num flag nbytes =
  ref_open cr mg nb ncl rc rdy seg tot wc (Z.land flag code_flag_creat) nbytes.
Proof.
  intros H. unfold gen_open, ref_open, open_sizes, round_up32, u32, CL, RHDR, PAGE, MAGIC, code_flag_creat.
  cbv zeta. unfold wrapu, cdiv, z2b.
  change (2 ^ 32) with 4294967296 in *; change (2 ^ 64) with 18446744073709551616 in *.
  repeat rewrite Z.shiftl_mul_pow2 by (timeout 20 lia). repeat rewrite Z.shiftr_div_pow2 by (timeout 20 lia).
  closed_simpl. mask_to_mod.
  canon_npo2 (((nbytes + 63) mod 4294967296) / 64).
  generalize (npo2 (((nbytes + 63) mod 4294967296) / 64)). intros p.
  generalize (Z.land flag 1). intros fl.
  leaf_decide.
Qed.
