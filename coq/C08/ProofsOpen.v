(* C08 — muggle_shm_ringbuf_open: the size computation.  For every requested size of 1 .. 2^31 bytes the
   number of cache lines is the least power of two holding the request, the data area is that many lines,
   and the segment asked from muggle_shm_open (header + data, rounded up to a 4K page) holds the header and
   the WHOLE announced data area: no line of the ring lies outside the shared memory.  The arithmetic is the
   uint32 arithmetic of the C text (C08/Model.v open_sizes); muggle_next_pow_of_2 is the model of C20 with its
   least-power-of-two theorem (C20/ProofsNpo2.v). *)
From MV Require Import C08.Model.
From MV Require C20.Model C20.ProofsNpo2.
From Coq Require Import NArith.
Local Open Scope Z_scope.

(* x & (2^hi - 2^lo) clears the low lo bits of a hi-bit value *)
Lemma land_ldiff_ones hi lo x : 0 <= lo -> 0 <= hi -> 0 <= x < 2 ^ hi ->
  Z.land x (Z.ldiff (Z.ones hi) (Z.ones lo)) = x - x mod 2 ^ lo.
Proof.
  intros Hl Hh Hx.
  assert (E : Z.land x (Z.ldiff (Z.ones hi) (Z.ones lo)) = Z.ldiff (Z.land x (Z.ones hi)) (Z.ones lo)).
  { apply Z.bits_inj'. intros i Hi. rewrite !Z.land_spec, !Z.ldiff_spec, !Z.land_spec. apply andb_assoc. }
  rewrite E. rewrite Z.land_ones by lia. rewrite Z.mod_small by lia.
  rewrite Z.ldiff_ones_r by lia. rewrite Z.shiftl_mul_pow2, Z.shiftr_div_pow2 by lia.
  assert (P : 0 < 2 ^ lo) by (apply Z.pow_pos_nonneg; lia).
  pose proof (Z.div_mod x (2 ^ lo) ltac:(lia)). lia.
Qed.

Lemma land_m64_32 x : 0 <= x < 4294967296 -> Z.land x 4294967232 = x - x mod 64.
Proof. intros H. exact (land_ldiff_ones 32 6 x ltac:(lia) ltac:(lia) H). Qed.
Lemma land_m4096_32 x : 0 <= x < 4294967296 -> Z.land x 4294963200 = x - x mod 4096.
Proof. intros H. exact (land_ldiff_ones 32 12 x ltac:(lia) ltac:(lia) H). Qed.
Lemma land_m4096_64 x : 0 <= x < 18446744073709551616 -> Z.land x 18446744073709547520 = x - x mod 4096.
Proof. intros H. exact (land_ldiff_ones 64 12 x ltac:(lia) ltac:(lia) H). Qed.

(* muggle_next_pow_of_2 on 1 .. 2^25 lines: a power of two, not below, the least such, at most 2^25 *)
Lemma npo2_spec L : 1 <= L <= 33554432 ->
  (exists k, 0 <= k /\ npo2 L = 2 ^ k) /\ L <= npo2 L <= 33554432 /\
  (forall j, 0 <= j -> L <= 2 ^ j -> npo2 L <= 2 ^ j).
Proof.
  intros HL. unfold npo2.
  assert (H1 : (1 <= Z.to_N L)%N) by lia.
  assert (H2 : (Z.to_N L <= 2 ^ 63)%N).
  { change (2 ^ 63)%N with (Z.to_N 9223372036854775808). lia. }
  destruct (MV.C20.ProofsNpo2.npo2_least_pow2_l (Z.to_N L) H1 H2) as ((k & Ek) & Hge & Hleast).
  set (r := MV.C20.Model.model_npo2 (Z.to_N L)) in *.
  assert (Hr : (r <= 2 ^ 25)%N).
  { apply Hleast; [exists 25%N; reflexivity|]. change (2 ^ 25)%N with (Z.to_N 33554432). lia. }
  assert (EZ : Z.of_N r = 2 ^ Z.of_N k) by (rewrite Ek, N2Z.inj_pow; reflexivity).
  split; [exists (Z.of_N k); split; [lia|exact EZ]|]. split.
  - change (2 ^ 25)%N with (Z.to_N 33554432) in Hr. lia.
  - intros j Hj Hle.
    assert (X : (r <= 2 ^ Z.to_N j)%N).
    { apply Hleast; [exists (Z.to_N j); reflexivity|].
      apply N2Z.inj_le. rewrite N2Z.inj_pow. rewrite !Z2N.id by lia. exact Hle. }
    apply N2Z.inj_le in X. rewrite N2Z.inj_pow in X. rewrite Z2N.id in X by lia. exact X.
Qed.

Lemma open_sizes_ok nbytes : 1 <= nbytes <= 2147483648 ->
  let '(n, data, total) := open_sizes nbytes in
  (exists k, 0 <= k /\ n = 2 ^ k) /\ nbytes <= CL * n /\
  (forall j, 0 <= j -> nbytes <= CL * 2 ^ j -> n <= 2 ^ j) /\
  1 <= n < 2147483648 /\ data = CL * n /\
  RHDR + CL * n <= total /\ total mod PAGE = 0 /\ total < RHDR + CL * n + PAGE.
Proof.
  intros H. unfold open_sizes.
  replace (nbytes =? 0) with false by (symmetry; apply Z.eqb_neq; lia).
  unfold round_up32, u32, CL, RHDR, PAGE.
  change ((- (64)) mod 4294967296) with 4294967232. change ((- (4096)) mod 4294967296) with 4294963200.
  rewrite (Z.mod_small (nbytes + 64 - 1)) by lia.
  rewrite land_m64_32 by lia.
  set (L := (nbytes + 64 - 1 - (nbytes + 64 - 1) mod 64) / 64).
  assert (HL : 1 <= L <= 33554432 /\ nbytes <= 64 * L /\ 64 * L < nbytes + 64).
  { subst L. pose proof (Z.div_mod (nbytes + 64 - 1) 64 ltac:(lia)). pose proof (Z.mod_pos_bound (nbytes + 64 - 1) 64 ltac:(lia)).
    replace (nbytes + 64 - 1 - (nbytes + 64 - 1) mod 64) with (((nbytes + 64 - 1) / 64) * 64) by lia.
    rewrite Z.div_mul by lia. lia. }
  destruct HL as (HL & HL1 & HL2).
  destruct (npo2_spec L HL) as ((k & Hk & Ek) & (Hge & Hle) & Hleast).
  set (R := npo2 L) in *.
  rewrite (Z.mod_small R) by lia. rewrite (Z.mod_small (R * 64)) by lia. rewrite (Z.mod_small (960 + R * 64)) by lia.
  rewrite (Z.mod_small (960 + R * 64 + 4096 - 1)) by lia.
  rewrite land_m4096_32 by lia.
  pose proof (Z.div_mod (960 + R * 64 + 4096 - 1) 4096 ltac:(lia)) as D.
  pose proof (Z.mod_pos_bound (960 + R * 64 + 4096 - 1) 4096 ltac:(lia)) as B.
  split; [exists k; auto|]. split; [lia|]. split.
  - intros j Hj Hn. apply Hleast; [exact Hj|].
    assert (0 < 2 ^ j) by (apply Z.pow_pos_nonneg; lia). lia.
  - split; [lia|]. split; [lia|]. split; [lia|]. split; [|lia].
    replace (960 + R * 64 + 4096 - 1 - (960 + R * 64 + 4096 - 1) mod 4096)
      with (((960 + R * 64 + 4096 - 1) / 4096) * 4096) by lia.
    apply Z.mod_mul. lia.
Qed.

(* non-vacuity and the case that a statement reordering gets wrong: 5 pages requested = 320 lines -> 512 lines,
   segment of 9 pages (the header + 512 lines need 33728 bytes; 6 pages would hold only 369 of them) *)
Example open_sizes_examples :
  open_sizes 512 = (8, 512, 4096) /\ open_sizes 3136 = (64, 4096, 8192) /\ open_sizes 321 = (8, 512, 4096) /\
  open_sizes 20480 = (512, 32768, 36864).
Proof. vm_compute. repeat split; reflexivity. Qed.
