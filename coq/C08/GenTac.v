(* C08 — second tie: the shape-independent decision tactic shared by the translator obligations
   (C08/ProofsGen.v for the six cursor functions, C08/ProofsGenOpen.v for muggle_shm_ringbuf_open).
   Everything is unfolded to integer arithmetic, every `if` is split and the branches are decided by
   time-limited lia / nia.  No dependence on the generated file. *)
From MV Require Import Lib.Leaf C08.Model.
From Coq Require Import ZifyBool.
Local Open Scope Z_scope.
Ltac Zify.zify_post_hook ::= Z.to_euclidean_division_equations.

(* the wrap marker written into a header word array (used by the reference functions of ProofsGen.v) *)
Definition mark (wr : bool) (h : list Z) (w : Z) : list Z := if wr then lset h w 0 else h.

(* ---- the decision tactic: shape independent ---- *)
Lemma land_m64 x : 0 <= x < 18446744073709551616 -> Z.land x 18446744073709551552 = x - x mod 64.
Proof.
  intros H.
  replace 18446744073709551552 with (Z.ldiff (Z.ones 64) (Z.ones 6)) by reflexivity.
  assert (E : Z.land x (Z.ldiff (Z.ones 64) (Z.ones 6)) = Z.ldiff (Z.land x (Z.ones 64)) (Z.ones 6)).
  { apply Z.bits_inj'. intros i Hi. rewrite !Z.land_spec, !Z.ldiff_spec, !Z.land_spec. apply andb_assoc. }
  rewrite E. rewrite Z.land_ones by lia. rewrite Z.mod_small by lia.
  rewrite Z.ldiff_ones_r by lia. rewrite Z.shiftl_mul_pow2, Z.shiftr_div_pow2 by lia.
  change (2 ^ 6) with 64. pose proof (Z.div_mod x 64 ltac:(lia)). lia.
Qed.

(* innermost conditions first: a condition that itself contains an `if` is split later *)
Ltac nocond c := lazymatch c with context [if _ then _ else _] => fail | _ => idtac end.

Ltac closed_term c := tryif (match c with context [?x] => is_var x end) then fail else idtac.

Ltac closed_mask :=
  repeat match goal with
  | |- context [Z.land ?x ?m] =>
    lazymatch m with
    | 18446744073709551552 => fail
    | _ => let v := eval vm_compute in m in
           lazymatch v with
           | 18446744073709551552 => change m with 18446744073709551552
           end
    end
  end.

Ltac leaf_arith := first [ reflexivity | timeout 30 lia | timeout 60 nia ].
(* tuples and header-array updates are compared component by component; integers by arithmetic *)
Ltac split_eq :=
  repeat match goal with
  | |- ?x = ?x => reflexivity
  | |- (_, _) = (_, _) => apply f_equal2
  | |- lset _ _ _ = lset _ _ _ => apply (f_equal3 lset)
  end.
Ltac leaf_branch :=
  first [ solve [exfalso; timeout 20 lia]
        | solve [split_eq; leaf_arith] ].
Ltac leaf_decide :=
  cbv zeta; unfold mark in *;
  closed_mask;
  unfold wrapu, Leaf.crem, cdiv, b2z, z2b in *;
  change (2 ^ 32) with 4294967296 in *; change (2 ^ 64) with 18446744073709551616 in *;
  repeat (rewrite land_m64 by (timeout 20 lia));
  repeat match goal with
  | |- context [if ?c then _ else _] =>
    nocond c;
    first [ closed_term c;
            let v := eval vm_compute in c in
            lazymatch v with
            | true => change c with true; cbv iota
            | false => change c with false; cbv iota
            end
          | destruct c eqn:? ]
  end;
  leaf_branch.

