(* C16 — property theorems only (proved in C16/Proofs*.v), instantiated with the constants
   re-extracted from the headers on this run (gen/Params_C16.v). *)
From MV Require Import C16.Model C16.ProofsSeq C16.ProofsSync gen.Params_C16.
Local Open Scope Z_scope.

(* side condition on the extracted constant: the buffer has room for one byte and the NUL *)
Theorem c16_limit_ok : (2 <= code_limit)%nat.
Proof. apply Nat.leb_le. vm_compute. reflexivity. Qed.
Print Assumptions c16_limit_ok.

(* Every call produces exactly one line for handler i iff its level is at or above that
   handler's level, none otherwise: every handler list (the first MUGGLE_LOGGER_MAX_HANDLER
   are attached), every level pair, either formatter oracle, repaired or not. *)
Theorem log_filter_exact : forall format fixed hs level id text i h,
  nth_error (lg_handlers (built code_levels hs)) i = Some h ->
  emits_to i (sync_log format code_levels code_limit fixed (built code_levels hs) level id text)
  = if h_level h <=? level then 1%nat else 0%nat.
Proof. intros. apply filter_exact. assumption. Qed.
Print Assumptions log_filter_exact.

(* the async logger applies the same tests to a message the queue accepted *)
Theorem async_accepted_message_same_lines : forall format fixed lg level id text,
  async_log_seq format code_levels code_limit fixed lg level id text true true =
  Some (sync_log format code_levels code_limit fixed lg level id text).
Proof. intros. apply async_seq_equals_sync. Qed.
Print Assumptions async_accepted_message_same_lines.

(* The repaired handlers emit the formatted line cut at the fixed maximum: the line itself when
   it fits in LIMIT-1 bytes, else its first LIMIT-2 bytes and a newline ... *)
Theorem log_line_is_truncated_format : forall line,
  hw_out (handler_write true code_limit line) = map Init (cut code_limit line) /\
  (length (cut code_limit line) <= code_limit - 1)%nat.
Proof.
  intros line. split; [apply handler_write_fixed_out | apply cut_length]; exact c16_limit_ok.
Qed.
Print Assumptions log_line_is_truncated_format.

(* ... and every buffer index read or written is below LIMIT, every emitted byte initialised. *)
Theorem log_no_oob : forall line,
  let w := handler_write true code_limit line in
  Forall (fun i => (i < code_limit)%nat) (hw_reads w ++ hw_writes w) /\ (hw_ret w <= code_limit - 1)%nat /\
  Forall (fun c => exists b, c = Init b) (hw_out w).
Proof. intros line. apply handler_write_fixed_in_bounds. exact c16_limit_ok. Qed.
Print Assumptions log_no_oob.

(* The code as first found violates both statements: a formatted line longer than LIMIT makes
   fwrite read index LIMIT (outside the buffer); a line of exactly LIMIT bytes is written
   with a NUL in place of its newline.  (Kept as the record of the defect; the repaired code
   is what the check compares the implementation with.) *)
Theorem log_no_oob_refuted_before_repair : forall line,
  ((code_limit < length line)%nat ->
   In code_limit (hw_reads (handler_write false code_limit line)) /\
   In Oob (hw_out (handler_write false code_limit line))) /\
  (length line = code_limit ->
   hw_out (handler_write false code_limit line) = map Init (firstn (code_limit - 1) line ++ [nul])).
Proof.
  intros line. split.
  - intros H. apply handler_write_unfixed_oob. exact H.
  - intros H. apply handler_write_unfixed_exact; [|exact H]. pose proof c16_limit_ok. lia.
Qed.
Print Assumptions log_no_oob_refuted_before_repair.

(* payload: at most LIMIT-1 bytes, a prefix of the vsnprintf result *)
Theorem log_payload_truncated : forall text,
  (length (payload_of code_limit text) <= code_limit - 1)%nat /\
  exists rest, text = payload_of code_limit text ++ rest.
Proof. intros. split; [apply payload_length | apply payload_prefix]. Qed.
Print Assumptions log_payload_truncated.

(* Sync logger, any number of threads and handlers, every schedule: a handler's stream is a
   sequence of whole lines (plus the first part of the line being written by the thread that
   holds the handler mutex); at most one thread is inside a handler's write. *)
Theorem log_lines_atomic_per_handler : forall Sc sched i,
  let s := exec ssys (sstep Sc) sinit sched in
  ((forall t, mid (s_pc (s_thr s t)) i = false) -> whole (s_out s i)) /\
  (forall t, mid (s_pc (s_thr s t)) i = true ->
     exists l, whole l /\ s_out s i = l ++ [(t, s_k (s_thr s t), 1%nat)]) /\
  (forall t u, holds_h (s_pc (s_thr s t)) i = true -> holds_h (s_pc (s_thr s u)) i = true -> t = u).
Proof.
  intros Sc sched i s. destruct (sync_lines_whole Sc sched) as [Hex Hlk Hmid Hwh].
  split; [apply Hwh|]. split; [apply Hmid|apply Hex].
Qed.
Print Assumptions log_lines_atomic_per_handler.

(* ... and the lines of thread t in handler i's stream are exactly its accepted calls so far,
   each once, in call order; when the thread has finished, all of its accepted calls. *)
Theorem log_per_thread_order : forall Sc sched t i,
  let s := exec ssys (sstep Sc) sinit sched in
  firsts_of t (s_out s i) = filter (accepts Sc t i) (seq 0 (progress (s_thr s t) i)) /\
  (s_pc (s_thr s t) = SDone -> firsts_of t (s_out s i) = filter (accepts Sc t i) (seq 0 (sc_msgs Sc))).
Proof.
  intros Sc sched t i s. destruct (sync_order_exact Sc sched) as [Ho Hp Hk Hf Hlt].
  split; [apply Ho|]. intros Hd. fold s in Ho, Hf. rewrite Ho. unfold progress. rewrite Hd. simpl.
  rewrite (Hf t) by (right; exact Hd). reflexivity.
Qed.
Print Assumptions log_per_thread_order.
