(* C16 — property theorems only (proved in C16/Proofs*.v), instantiated with the constants
   re-extracted from the headers on this run (gen/Params_C16.v). *)
From MV Require Import C16.Model C16.ProofsSeq C16.ProofsSync C16.ProofsAsync C16.ProofsAcct C16.ProofsFair gen.Params_C16.
From MV Require Import C16.ProofsStatic C16.ProofsFmt C16.ProofsGen C16.ProofsGenHwA C16.ProofsGenHwB C16.ProofsGenHwC C16.ProofsGenSync C16.ProofsGenAsync.
Local Open Scope Z_scope.

(* side condition on the extracted constant: the buffer has room for one byte and the NUL *)
Theorem c16_limit_ok : (2 <= code_limit)%nat.
Proof. apply Nat.leb_le. vm_compute. reflexivity. Qed.
Print Assumptions c16_limit_ok.

(* Every call produces exactly one line for handler i iff its level is at or above that
   handler's level, none otherwise: every handler list (the first MUGGLE_LOGGER_MAX_HANDLER
   are attached), every level pair, either formatter oracle, repaired or not. *)
Theorem log_filter_exact : forall format fixed hs level id text i h,
  nth_error (lg_handlers (built code_levels hs)) i = Some h ->
  emits_to i (sync_log format code_levels code_limit fixed (built code_levels hs) level id text)
  = if h_level h <=? level then 1%nat else 0%nat.
Proof. intros. apply filter_exact. assumption. Qed.
Print Assumptions log_filter_exact.

(* the async logger applies the same tests to a message the queue accepted *)
Theorem async_accepted_message_same_lines : forall format fixed lg level id text,
  async_log_seq format code_levels code_limit fixed lg level id text true true =
  Some (sync_log format code_levels code_limit fixed lg level id text).
Proof. intros. apply async_seq_equals_sync. Qed.
Print Assumptions async_accepted_message_same_lines.

(* side condition on the level-name table re-extracted from muggle_log_level_to_str: every level of
   the enum has its own name — non-empty, distinct, different from the name of an unknown level *)
Theorem c16_level_names_ok : level_names_ok_b code_fmtcfg code_level_values = true.
Proof. vm_compute. reflexivity. Qed.
Print Assumptions c16_level_names_ok.

(* The repaired handlers emit the formatted line cut at the fixed maximum: the line itself when
   it fits in LIMIT-1 bytes, else its first LIMIT-2 bytes and a newline — for every formatter
   (first part).  For the two built-in formatters the formatted line IS the layout of log_fmt.c:
   level name (table re-extracted from log_level.c) | [date T time . milliseconds |] file : line
   [| function | thread id]  " - " payload newline, with the source location, clock reading and
   thread id of the call (second and third part); code_fmtcfg, gen_fmt_*_matches_model and
   gen_level_index_matches_model tie names, field order, separators and conversions to the C text. *)
Theorem log_line_is_truncated_format :
  (forall line,
     hw_out (handler_write true code_limit line) = map Init (cut code_limit line) /\
     (length (cut code_limit line) <= code_limit - 1)%nat) /\
  (forall src h m,
     hw_out (handler_line (builtin_format code_fmtcfg src) code_limit true h m) =
     map Init (cut code_limit (builtin_format code_fmtcfg src (h_fmt h) m))) /\
  (forall src m,
     let s := src (m_id m) in
     let t := gmtime (ms_sec s) in
     builtin_format code_fmtcfg src 0 m =
     level_name code_fmtcfg (m_level m) ++ [124%N] ++ ms_file s ++ [58%N] ++ dec_pad 0 (ms_line s) ++ [32; 45; 32]%N ++
     m_payload m ++ [nl] /\
     builtin_format code_fmtcfg src 1 m =
     level_name code_fmtcfg (m_level m) ++ [124%N] ++
     dec_pad 0 (tm_year t + 1900) ++ [45%N] ++ dec_pad 2 (tm_mon t + 1) ++ [45%N] ++ dec_pad 2 (tm_mday t) ++ [84%N] ++
     dec_pad 2 (tm_hour t) ++ [58%N] ++ dec_pad 2 (tm_min t) ++ [58%N] ++ dec_pad 2 (tm_sec t) ++ [46%N] ++
     dec_pad 3 (ms_nsec s / 1000000) ++ [124%N] ++
     ms_file s ++ [58%N] ++ dec_pad 0 (ms_line s) ++ [124%N] ++ ms_func s ++ [124%N] ++ dec_pad 0 (ms_tid s) ++
     [32; 45; 32]%N ++ m_payload m ++ [nl]).
Proof. exact (line_is_truncated_format code_limit code_fmtcfg c16_limit_ok). Qed.
Print Assumptions log_line_is_truncated_format.

(* a line too long for the buffer keeps its whole prefix (whenever the prefix is shorter than LIMIT-2)
   and still ends with the newline: what is cut is the payload *)
Theorem log_long_line_keeps_prefix : forall p rest,
  (code_limit <= length (p ++ rest))%nat -> (length p <= code_limit - 2)%nat ->
  exists mid, cut code_limit (p ++ rest) = p ++ mid ++ [nl] /\ length (p ++ mid ++ [nl]) = (code_limit - 1)%nat.
Proof. exact (fun p rest => cut_keeps_prefix code_limit p rest c16_limit_ok). Qed.
Print Assumptions log_long_line_keeps_prefix.

(* the decimal conversions of the formatters render the number: digits only, value exact, never empty *)
Theorem log_decimal_rendering_exact : forall n, 0 <= n < 10 ^ 24 ->
  Forall is_digit (dec_u n) /\ dval (dec_u n) = n /\ dec_u n <> [].
Proof. exact dec_u_spec. Qed.
Print Assumptions log_decimal_rendering_exact.

(* ... and every buffer index read or written is below LIMIT, every emitted byte initialised. *)
Theorem log_no_oob : forall line,
  let w := handler_write true code_limit line in
  Forall (fun i => (i < code_limit)%nat) (hw_reads w ++ hw_writes w) /\ (hw_ret w <= code_limit - 1)%nat /\
  Forall (fun c => exists b, c = Init b) (hw_out w).
Proof. intros line. apply handler_write_fixed_in_bounds. exact c16_limit_ok. Qed.
Print Assumptions log_no_oob.

(* The code as first found violates both statements: a formatted line longer than LIMIT makes
   fwrite read index LIMIT (outside the buffer); a line of exactly LIMIT bytes is written
   with a NUL in place of its newline.  (Kept as the record of the defect; the repaired code
   is what the check compares the implementation with.) *)
Theorem log_no_oob_refuted_before_repair : forall line,
  ((code_limit < length line)%nat ->
   In code_limit (hw_reads (handler_write false code_limit line)) /\
   In Oob (hw_out (handler_write false code_limit line))) /\
  (length line = code_limit ->
   hw_out (handler_write false code_limit line) = map Init (firstn (code_limit - 1) line ++ [nul])).
Proof.
  intros line. split.
  - intros H. apply handler_write_unfixed_oob. exact H.
  - intros H. apply handler_write_unfixed_exact; [|exact H]. pose proof c16_limit_ok. lia.
Qed.
Print Assumptions log_no_oob_refuted_before_repair.

(* payload: at most LIMIT-1 bytes, a prefix of the vsnprintf result *)
Theorem log_payload_truncated : forall text,
  (length (payload_of code_limit text) <= code_limit - 1)%nat /\
  exists rest, text = payload_of code_limit text ++ rest.
Proof. intros. split; [apply payload_length | apply payload_prefix]. Qed.
Print Assumptions log_payload_truncated.

(* Sync logger, any number of threads and handlers, every schedule: a handler's stream is a
   sequence of whole lines (plus the first part of the line being written by the thread that
   holds the handler mutex); at most one thread is inside a handler's write. *)
Theorem log_lines_atomic_per_handler : forall Sc sched i,
  let s := exec ssys (sstep Sc) sinit sched in
  ((forall t, mid (s_pc (s_thr s t)) i = false) -> whole (s_out s i)) /\
  (forall t, mid (s_pc (s_thr s t)) i = true ->
     exists l, whole l /\ s_out s i = l ++ [(t, s_k (s_thr s t), 1%nat)]) /\
  (forall t u, holds_h (s_pc (s_thr s t)) i = true -> holds_h (s_pc (s_thr s u)) i = true -> t = u).
Proof.
  intros Sc sched i s. destruct (sync_lines_whole Sc sched) as [Hex Hlk Hmid Hwh].
  split; [apply Hwh|]. split; [apply Hmid|apply Hex].
Qed.
Print Assumptions log_lines_atomic_per_handler.

(* ... and the lines of thread t in handler i's stream are exactly its accepted calls so far,
   each once, in call order; when the thread has finished, all of its accepted calls. *)
Theorem log_per_thread_order : forall Sc sched t i,
  let s := exec ssys (sstep Sc) sinit sched in
  firsts_of t (s_out s i) = filter (accepts Sc t i) (seq 0 (progress (s_thr s t) i)) /\
  (s_pc (s_thr s t) = SDone -> firsts_of t (s_out s i) = filter (accepts Sc t i) (seq 0 (sc_msgs Sc))).
Proof.
  intros Sc sched t i s. destruct (sync_order_exact Sc sched) as [Ho Hp Hk Hf Hlt].
  split; [apply Ho|]. intros Hd. fold s in Ho, Hf. rewrite Ho. unfold progress. rewrite Hd. simpl.
  rewrite (Hf t) by (right; exact Hd). reflexivity.
Qed.
Print Assumptions log_per_thread_order.

(* Async logger (producers 1..n, writer thread 0, the channel as a bounded FIFO with FULL), every
   schedule, repaired or not: what the channel accepted is what the writer thread took plus what
   is still queued (FIFO); handler i's stream holds, whole and in queue order, exactly the lines
   the sync logger's handler test selects from the messages taken so far (the one in progress
   excluded until its line starts); each producer's accepted calls are in call order. *)
Theorem async_equals_sync : forall fixed A sched i,
  let s := exec asys (astep fixed A) (ainit A) sched in
  a_accepted s = a_consumed s ++ msgs_of (a_queue s) /\
  lines_of (a_out s i) = filter (macc A i) (done_part s i) /\
  (cmid (a_cons s) i = false -> whole (a_out s i)) /\
  (forall t, incr_from 0 (ks_of t (a_accepted s))).
Proof.
  intros fixed A sched i s. destruct (async_invariant fixed A sched) as [F C O W M].
  split; [exact F|]. split; [apply O|]. split; [apply W|].
  intros t. apply (async_accept_order fixed A sched t).
Qed.
Print Assumptions async_equals_sync.

(* Repaired code, any number of producers (at least one), calls, handlers and any usable
   capacity, every schedule: when destroy has returned the queue is empty, the writer thread
   has exited through the sentinel, everything the channel accepted has been taken, and every
   accepting handler's stream holds exactly those lines, whole, in queue order.  (Rests on the
   counting invariant a_remaining = number of producers still logging and "the sentinel is the
   last thing ever queued", C16/ProofsAcct.v.) *)
Theorem async_destroy_drains : forall A sched, (1 <= as_n A)%nat ->
  let s := exec asys (astep true A) (ainit A) sched in
  a_destroyed s = true ->
  a_queue s = [] /\ a_consumed s = a_accepted s /\ cexited (a_cons s) = true /\
  forall i, whole (a_out s i) /\ lines_of (a_out s i) = filter (macc A i) (a_accepted s).
Proof. exact destroy_drains. Qed.
Print Assumptions async_destroy_drains.

(* Repaired code, every schedule: the tracked allocations outstanding are at every moment
   exactly the channel's two blocks (until the destroying thread takes them over), two per
   queued message, those of the message the writer thread is handling and those each producer
   owns at its program point (a message refused by the full queue is owned by its producer
   until released) — and once destroy has returned nothing is outstanding.  The second part
   is the concrete history with two refusals (non-vacuity). *)
Theorem async_no_leak_on_full :
  (forall A sched, (1 <= as_n A)%nat ->
     let s := exec asys (astep true A) (ainit A) sched in
     a_live s = (chan_base s + 2 * length (msgs_of (a_queue s)) + cheld (a_cons s)
                 + tsum (fun u => owned (pcs s u)) (as_n A))%nat /\
     (a_destroyed s = true -> a_live s = 0%nat)) /\
  (let s := exec asys (astep true ex_ascen) (ainit ex_ascen) ex_sched in
   a_dropped s = [(1, 2); (1, 3)]%nat /\ a_live s = 0%nat /\ a_destroyed s = true /\
   a_cons s = CEnd /\ p_pc (a_thr s 1%nat) = PEnd /\ a_consumed s = a_accepted s /\
   lines_of (a_out s 0%nat) = [(1, 0); (1, 1)]%nat).
Proof. split; [exact no_leak|exact repaired_witness]. Qed.
Print Assumptions async_no_leak_on_full.

(* Known finding async-capacity-unusable (DESIGN.md 3.2).  in_known_class A = (usable capacity
   of the channel is 0), i.e. channel_capacity <= 2.
   FULL STATEMENT: destroy returns (under a fair scheduler) for every configuration.
   Outside the class that is proved in full: async_destroy_returns_fair below.  This theorem
   is its safety core:
   whenever the sentinel is about to be refused there are messages for the writer thread to
   take, the writer thread has not exited and is not asleep without a wake-up on its way —
   so every refusal leaves a productive step of another thread; and a concrete configuration
   outside the class on which destroy does return. *)
Theorem async_destroy_returns_partial :
  (forall A sched t, in_known_class A = false -> (1 <= as_n A)%nat ->
     let s := exec asys (astep true A) (ainit A) sched in
     pcs s t = PDTry -> (as_usable A <= length (a_queue s))%nat ->
     a_queue s <> [] /\ csent (a_cons s) = false /\
     (a_cons s = CBlocked -> exists u, pending_wake (pcs s u) = true)) /\
  (in_known_class ex_ascen = false /\ destroy_can_return ex_ascen).
Proof.
  split.
  - intros A sched t Hc Hn. apply refusal_has_work; assumption.
  - split; [reflexivity|]. exists ex_sched. apply repaired_witness.
Qed.
Print Assumptions async_destroy_returns_partial.

(* Inside the class destroy never returns, under any schedule; witness (capacity 2, one
   producer, one call): the call is refused and released, then the sentinel is refused with an
   EMPTY queue while the writer thread sleeps, no other thread can move, and four steps later
   the destroying thread is at the same point again with nothing changed (the retry loop is
   all that is left). *)
Theorem async_destroy_returns_refuted :
  exists A, in_known_class A = true /\ ~ destroy_can_return A /\
  let s := exec asys (astep true A) (ainit A) ex_unusable_sched in
  pcs s 1%nat = PDTry /\ (as_usable A <= length (a_queue s))%nat /\ a_queue s = [] /\
  a_cons s = CBlocked /\ a_dropped s = [(1, 0)]%nat /\ a_live s = 2%nat /\ a_destroyed s = false /\
  (forall u, u <> 1%nat -> astep true A s u 0%nat = None).
Proof.
  exists ex_unusable. destruct unusable_witness as (Hc & Hw). split; [exact Hc|]. split.
  - intros [sched Hd]. rewrite (unusable_never_returns ex_unusable sched Hc) in Hd. discriminate.
  - destruct Hw as (H1 & H2 & H3 & H4 & H5 & H6 & H7 & H8 & _). repeat split; assumption.
Qed.
Print Assumptions async_destroy_returns_refuted.

(* in the class this holds for every configuration and schedule *)
Theorem async_unusable_capacity_never_returns : forall A sched, in_known_class A = true ->
  a_destroyed (exec asys (astep true A) (ainit A) sched) = false.
Proof. exact unusable_never_returns. Qed.
Print Assumptions async_unusable_capacity_never_returns.

(* The code as first found: a history (one producer bursting past the queue capacity while the
   writer thread does not run, then destroy) after which two messages are leaked (6 allocations
   outstanding), the NULL sentinel was refused, destroy has not returned and no thread can move. *)
Theorem async_leak_and_hang_before_repair :
  let s := exec asys (astep false ex_ascen) (ainit ex_ascen) ex_sched in
  a_dropped s = [(1, 2); (1, 3)]%nat /\ a_live s = 6%nat /\ a_destroyed s = false /\
  a_cons s = CBlocked /\ p_pc (a_thr s 1%nat) = PJoinBlocked /\
  (forall t ch, astep false ex_ascen s t ch = None).
Proof. exact unrepaired_witness. Qed.
Print Assumptions async_leak_and_hang_before_repair.

(* Outside the known class (usable capacity >= 1), at least one producer, repaired code: at any
   point [pre] of any schedule, every FAIR continuation (a sequence of rounds, each scheduling
   the writer thread 0 and every producer 1..n at least once, in any order, any number of times)
   of more than G rounds ends with destroy returned.  G is the explicit measure of
   C16/ProofsFair.v (remaining calls and position of every producer, queue length, position of
   the writer thread): no step increases it, every enabled step decreases it except the
   destroying thread's retry of the sentinel against a full queue, and a productive thread
   exists until destroy has returned. *)
Theorem async_destroy_returns_fair : forall A pre rounds,
  in_known_class A = false -> (1 <= as_n A)%nat ->
  let s := exec asys (astep true A) (ainit A) pre in
  Forall (fair_round A) rounds -> (G A s < length rounds)%nat ->
  a_destroyed (exec asys (astep true A) (ainit A) (pre ++ concat rounds)) = true.
Proof. exact destroy_returns_fair. Qed.
Print Assumptions async_destroy_returns_fair.

(* from the initial state the bound is n * (msgs * Wc + Dc) + 8  (cw A 0 = msgs * Wc) *)
Theorem async_destroy_fair_bound : forall A,
  (G A (ainit A) <= as_n A * (cw A 0 + Dc A) + 8)%nat.
Proof. exact G_init_le. Qed.
Print Assumptions async_destroy_fair_bound.

(* The property's clause in full outside the known class: under every fair schedule destroy
   returns; it returns only after everything the channel accepted has been written (whole, in
   queue order, on every accepting handler); and nothing is outstanding even when the queue
   overflowed (refused messages are released by their producers). *)
Theorem async_destroy_clause_in_full : forall A pre rounds,
  in_known_class A = false -> (1 <= as_n A)%nat ->
  Forall (fair_round A) rounds ->
  (G A (exec asys (astep true A) (ainit A) pre) < length rounds)%nat ->
  let s' := exec asys (astep true A) (ainit A) (pre ++ concat rounds) in
  a_destroyed s' = true /\ a_queue s' = [] /\ a_consumed s' = a_accepted s' /\
  (forall i, whole (a_out s' i) /\ lines_of (a_out s' i) = filter (macc A i) (a_accepted s')) /\
  a_live s' = 0%nat.
Proof. exact destroy_returns_drained_and_clean. Qed.
Print Assumptions async_destroy_clause_in_full.

(* Handler levels are live state (muggle_log_handler_set_level at any time).  Repaired code
   (fixes/C16-stale-lowest-level.patch: the early-out of the log functions asks the attached
   handlers instead of the lowest_log_level snapshot): for EVERY history of add_handler /
   set_level / log calls — levels raised, lowered, above FATAL, below TRACE, any number of
   handlers — a log call produces exactly one line for handler i iff its level is at or above
   handler i's level at the time of the call.  (The async logger applies the same tests:
   async_accepted_message_same_lines.) *)
Theorem handler_level_filter_exact : forall format pre level id text i h,
  nth_error (lg_handlers (hrun code_levels pre)) i = Some h ->
  emits_to i (sync_log format code_levels code_limit true (hrun code_levels pre) level id text)
  = if h_level h <=? level then 1%nat else 0%nat.
Proof. intros. apply filter_exact_history. assumption. Qed.
Print Assumptions handler_level_filter_exact.

(* In the concurrent scenarios the handler levels are static; the early-out "no attached handler
   accepts the level" is then the fixed threshold min_level (the sc_lowest / as_lowest of the
   interleaving models). *)
Theorem handler_level_prefilter_static : forall hs level,
  match min_level hs with
  | Some m => existsb (fun h => should_write h level) hs = (m <=? level)
  | None => hs = []
  end.
Proof. exact prefilter_static. Qed.
Print Assumptions handler_level_prefilter_static.

(* The code as first found tested the snapshot lowest_log_level (updated only by add_handler): a
   call reached handler i iff snapshot <= level and handler level <= level; so after a handler
   attached at INFO was lowered to DEBUG, a DEBUG call produced no line (before the repair) and
   produces one (after).  Kept as the record of the defect. *)
Theorem handler_level_filter_stale_before_repair :
  (forall format lg level id text i h, nth_error (lg_handlers lg) i = Some h ->
     emits_to i (sync_log format code_levels code_limit false lg level id text)
     = if (lg_lowest lg <=? level) && (h_level h <=? level) then 1%nat else 0%nat) /\
  (exists h, nth_error (lg_handlers (hrun code_levels stale_witness)) 0 = Some h /\ h_level h <=? 256 = true /\
     forall format limit,
       emits_to 0 (sync_log format code_levels limit false (hrun code_levels stale_witness) 256 0 []) = 0%nat /\
       emits_to 0 (sync_log format code_levels limit true (hrun code_levels stale_witness) 256 0 []) = 1%nat).
Proof.
  split.
  - intros. apply filter_as_first_found. assumption.
  - exact (stale_before_and_after code_levels eq_refl eq_refl).
Qed.
Print Assumptions handler_level_filter_stale_before_repair.

(* ------------------------------------------------------------------------------------------ *)
(* Second tie (DESIGN.md 4.4): what lib/props/c16_slice.py re-translated from the C text of
   muggle/c/log on THIS run (gen/Params_C16.v, the gen_ definitions) equals the model.  Proved in C16/ProofsGen.v by
   shape-independent decision tactics; a construct the slicer cannot translate leaves the gen_
   definition out, which breaks these obligations. *)

(* muggle_log_handler_should_write(handler, level) is the model's level test: level >= handler->level *)
Theorem gen_should_write_matches_model : forall h level, gen_should_write (h_level h) level = should_write h level.
Proof. exact gen_should_write_eq. Qed.
Print Assumptions gen_should_write_matches_model.

(* muggle_log_level_to_str: index of the name = level >> MUGGLE_LOG_LEVEL_OFFSET when inside the table *)
Theorem gen_level_index_matches_model : forall lv, gen_level_index lv = level_index code_fmtcfg lv.
Proof. exact gen_level_index_eq. Qed.
Print Assumptions gen_level_index_matches_model.

(* the printf layout of muggle_log_fmt_simple / _complicated (literal text, order and source of every %s,
   width / zero flag / signedness and integer argument of every numeric conversion), rendered by the
   model's printf interpreter, is the model's formatter — for every message whose line, thread id and
   nanoseconds are in the range of their C types *)
Theorem gen_fmt_simple_matches_model : forall e, fenv_ok e ->
  render code_fmtcfg e gen_fmt_simple = fmt_simple code_fmtcfg e.
Proof. exact gen_fmt_simple_eq. Qed.
Print Assumptions gen_fmt_simple_matches_model.

Theorem gen_fmt_complicated_matches_model : forall e, fenv_ok e ->
  render code_fmtcfg e gen_fmt_complicated = fmt_complicated code_fmtcfg e.
Proof. exact gen_fmt_complicated_eq. Qed.
Print Assumptions gen_fmt_complicated_matches_model.

(* the formatters installed by the library's own entry points muggle_log_simple_init / muggle_log_complicated_init
   (private to log.c): level|seconds.nanoseconds(9 digits)|file:line|function|thread id - payload, and a copy of
   the complicated layout *)
Theorem gen_fmt_init_simple_matches_model : forall e, fenv_ok e ->
  render code_fmtcfg e gen_fmt_init_simple = fmt_init_simple code_fmtcfg e.
Proof. exact gen_fmt_init_simple_eq. Qed.
Print Assumptions gen_fmt_init_simple_matches_model.

Theorem gen_fmt_init_complicated_matches_model : forall e, fenv_ok e ->
  render code_fmtcfg e gen_fmt_init_complicated = fmt_complicated code_fmtcfg e.
Proof. exact gen_fmt_init_complicated_eq. Qed.
Print Assumptions gen_fmt_init_complicated_matches_model.

Theorem gen_fmt_init_ret_matches_model : forall r o,
  gen_fmt_init_simple_ret r o = r /\ gen_fmt_init_complicated_ret r o = r.
Proof. exact gen_fmt_init_ret_eq. Qed.
Print Assumptions gen_fmt_init_ret_matches_model.

(* both formatters return what snprintf(buf, bufsize, ...) returned (the length it wanted) *)
Theorem gen_fmt_ret_matches_model : forall r o, gen_fmt_simple_ret r o = r /\ gen_fmt_complicated_ret r o = r.
Proof. exact gen_fmt_ret_eq. Qed.
Print Assumptions gen_fmt_ret_matches_model.

(* The write function of every built-in handler (hw_spec, C16/ProofsGen.v): no formatter -> -1; the
   formatter gets the whole LIMIT-byte buffer; negative result -> -2, nothing written; otherwise the
   count handed to fwrite is clamp_count LIMIT r (r if r < LIMIT, else LIMIT-1), the only store into the
   buffer is the newline at LIMIT-2 exactly when r >= LIMIT (clamp_store), and the line is written iff
   the handler has a stream. *)
Theorem gen_file_write_matches_model : forall s, hw_dom s ->
  hw_spec (Z.of_nat code_limit) s (gen_file_write s) (negb (io_fp_ok s =? 0)).
Proof. exact gen_file_write_eq. Qed.
Print Assumptions gen_file_write_matches_model.

Theorem gen_console_write_matches_model : forall s, hw_dom s ->
  hw_spec (Z.of_nat code_limit) s (gen_console_write s) true.
Proof. exact gen_console_write_eq. Qed.
Print Assumptions gen_console_write_matches_model.

(* ... size-rotating handler: the bytes written are added to the offset and the rotation happens after the
   write, iff offset + written >= max_bytes (size_rot_after) *)
Theorem gen_rotate_write_matches_model : forall s, hw_dom s ->
  hw_spec (Z.of_nat code_limit) s (gen_rotate_write s) (negb (io_fp_ok s =? 0)) /\
  rot_spec_size (Z.of_nat code_limit) s (gen_rotate_write s).
Proof. exact gen_rotate_write_eq. Qed.
Print Assumptions gen_rotate_write_matches_model.

(* ... time-rotating handler: detect / rotate come before the write, which goes to the stream as it is
   after the rotation *)
Theorem gen_time_rot_write_matches_model : forall s, hw_dom s ->
  hw_spec (Z.of_nat code_limit) s (gen_time_rot_write s) (trot_wrote s) /\ rot_spec_time s (gen_time_rot_write s).
Proof. exact gen_time_rot_write_eq. Qed.
Print Assumptions gen_time_rot_write_matches_model.

(* clamp_count / clamp_store are the model's handler_write: same count, same single store *)
Theorem clamp_content_is_handler_write : forall line,
  Z.of_nat (hw_ret (handler_write true code_limit line)) = clamp_count (Z.of_nat code_limit) (Z.of_nat (length line)) /\
  hw_writes (handler_write true code_limit line) =
  snprintf_writes code_limit line ++
  match clamp_store (Z.of_nat code_limit) (Z.of_nat (length line)) with Some (i, _) => [Z.to_nat i] | None => [] end.
Proof. exact (fun line => conj (model_clamp_count code_limit line c16_limit_ok)
                               (proj1 (model_clamp_store code_limit line c16_limit_ok))). Qed.
Print Assumptions clamp_content_is_handler_write.

(* The log functions, for every logger with at most MUGGLE_LOGGER_MAX_HANDLER handlers (all that add_handler
   builds: built_within_max) and every level: the loop over the handlers followed by the early-out is the
   model's pre-filter (some attached handler's should_write); the message gets the level of the call;
   vsnprintf is given LIMIT and the payload buffer is at least that long. *)
Theorem gen_sync_log_matches_model : forall lg level s,
  (length (lg_handlers lg) <= lv_max_handler code_levels)%nat -> lg_dom lg level s ->
  sync_log_spec (Z.of_nat code_limit) (prefilter true lg level) level s (gen_sync_log s).
Proof. exact gen_sync_log_eq. Qed.
Print Assumptions gen_sync_log_matches_model.

(* ... async: queued iff the pre-filter passes and both allocations succeed (the case in which async_log_seq
   hands the message to the writer thread); the payload buffer is allocated with at least the size given to
   vsnprintf; one block is released when the payload allocation fails, two when the channel is full *)
Theorem gen_async_log_matches_model : forall lg level s,
  (length (lg_handlers lg) <= lv_max_handler code_levels)%nat -> lg_dom lg level s ->
  async_log_spec (Z.of_nat code_limit) (prefilter true lg level) level s (gen_async_log s).
Proof. exact gen_async_log_eq. Qed.
Print Assumptions gen_async_log_matches_model.

Theorem gen_domain_covers_built_loggers : forall hs,
  (length (lg_handlers (built code_levels hs)) <= lv_max_handler code_levels)%nat.
Proof. exact (built_within_max code_levels). Qed.
Print Assumptions gen_domain_covers_built_loggers.

(* ------------------------------------------------------------------------------------------ *)
(* No free parameters in the interleaving statements (C16/ProofsStatic.v).  The scenarios of the sync /
   async interleaving models carry a threshold (sc_lowest / as_lowest) and a usable capacity (as_usable);
   tied to the handlers and to the requested capacity they are the code's pre-filter and the channel's
   rounding. *)

(* the early-out `lowest > level` of the interleaving models, with lowest = the least handler level (2^31 when
   no handler is attached), is the code's pre-filter "no attached handler accepts the level" *)
Theorem handler_level_threshold_is_prefilter : forall hs level, level < level_top ->
  (static_lowest hs >? level) = negb (existsb (fun h => should_write h level) hs).
Proof. exact static_threshold_is_prefilter. Qed.
Print Assumptions handler_level_threshold_is_prefilter.

(* log_per_thread_order without the free threshold: thread t's lines in handler i's stream are exactly its
   calls at or above handler i's level, once each, in call order; all of them once the thread has finished *)
Theorem log_per_thread_order_tied : forall Sc sched t i, sc_tied Sc ->
  let s := exec ssys (sstep Sc) sinit sched in
  firsts_of t (s_out s i) =
  filter (fun k => acc_h (sc_handlers Sc) i (sc_level Sc t k)) (seq 0 (progress (s_thr s t) i)) /\
  (s_pc (s_thr s t) = SDone ->
   firsts_of t (s_out s i) = filter (fun k => acc_h (sc_handlers Sc) i (sc_level Sc t k)) (seq 0 (sc_msgs Sc))).
Proof. exact per_thread_order_tied. Qed.
Print Assumptions log_per_thread_order_tied.

(* async logger: a call goes on to the allocation and the queue iff some attached handler accepts its level *)
Theorem async_call_passes_iff_prefilter_tied : forall fixed A s t, as_tied A ->
  p_pc (a_thr s t) = PCall ->
  let level := as_level A t (p_k (a_thr s t)) in
  match pstep fixed A s t with
  | Some (s', _) =>
    p_pc (a_thr s' t) = PMallocMsg <-> existsb (fun h => should_write h level) (as_handlers A) = true
  | None => False
  end.
Proof. exact async_call_passes_iff_prefilter. Qed.
Print Assumptions async_call_passes_iff_prefilter_tied.

(* the usable capacity of the async logger's channel: (least power of two >= requested capacity) - 2;
   the known class async-capacity-unusable (usable = 0) is exactly "requested capacity <= 2" *)
Theorem async_usable_capacity_spec : forall c, (c <= cap_bound)%nat ->
  exists k, usable_of c = (2 ^ k - 2)%nat /\ (c <= 2 ^ k)%nat /\ (k = 0 \/ 2 ^ (k - 1) < c)%nat.
Proof. exact usable_of_spec. Qed.
Print Assumptions async_usable_capacity_spec.

Theorem async_known_class_is_capacity_le_2 : forall c, (c <= cap_bound)%nat ->
  (usable_of c = 0%nat <-> (c <= 2)%nat).
Proof. exact unusable_iff_capacity_le_2. Qed.
Print Assumptions async_known_class_is_capacity_le_2.
