From MV Require Import Lib.ExtractBase C15.Model.
From Coq Require Import ExtrOcamlBasic.
Extraction Language OCaml.
Extraction "c15_model" force_types init initf step run n_freed pinit pstep prun p_order by_writer.
