(* C15 — the system: every reachable state satisfies, for every context, the ownership
   invariant [cok] and the byte-stream invariant; the theorems about announcements, byte
   order, release / close / free counts and use after release follow for every history. *)
From MV Require Import C04.Model C15.Model C15.ProofsCtx.
Local Open Scope nat_scope.

Definition bytes_ok (sn : nat -> list Z) (pc : nat -> bool) (x : ctx) : Prop :=
  (exists rest, sn (k_conn x) = k_got x ++ rest) /\
  (k_eof x = true -> pc (k_conn x) = true /\ k_got x = sn (k_conn x)).

Definition AllOk (s : sys) : Prop :=
  forall c x, nth_error (ctxs s) c = Some x -> cok x /\ bytes_ok (sent s) (pclosed s) x.

(* ---- lists ---- *)
Lemma nth_put_same l c x y : nth_error l c = Some x -> nth_error (put l c y) c = Some y.
Proof. revert c; induction l as [|a l IH]; intros [|c] H; simpl in *; try discriminate; auto. Qed.
Lemma nth_put_other l c d y : d <> c -> nth_error (put l c y) d = nth_error l d.
Proof.
  revert c d; induction l as [|a l IH]; intros c d H; destruct c, d; simpl; auto;
    try (exfalso; apply H; reflexivity).
  all: try (apply IH; intro E; apply H; f_equal; exact E).
Qed.
Lemma nth_put l c y d z : nth_error (put l c y) d = Some z ->
  (d = c /\ z = y /\ exists x, nth_error l c = Some x) \/ (d <> c /\ nth_error l d = Some z).
Proof.
  intros H. destruct (Nat.eq_dec d c) as [->|Ne].
  - left. destruct (nth_error l c) as [x|] eqn:E.
    + rewrite (nth_put_same l c x y E) in H. inversion H. eauto.
    + exfalso. revert c H E. induction l as [|a l IH]; intros [|c] H E; simpl in *; try discriminate. eauto.
  - right. rewrite nth_put_other in H by assumption. auto.
Qed.
Lemma nth_snoc {A} (l : list A) x c z : nth_error (l ++ [x]) c = Some z ->
  nth_error l c = Some z \/ (c = length l /\ z = x).
Proof.
  intros H. destruct (Nat.lt_ge_cases c (length l)) as [L|G].
  - rewrite nth_error_app1 in H by assumption. auto.
  - rewrite nth_error_app2 in H by assumption. right.
    destruct (c - length l) as [|k] eqn:E; simpl in H.
    + inversion H. split; [lia|reflexivity].
    + destruct k; discriminate.
Qed.

(* ---- frame lemmas ---- *)
Lemma allok_pc s p : AllOk s -> AllOk (with_pc s p).
Proof. intros A c x H. apply (A c x H). Qed.
Lemma allok_lists s q r cl : AllOk s -> AllOk (with_lists s q r cl).
Proof. intros A c x H. apply (A c x H). Qed.
Lemma allok_sig s b d : AllOk s -> AllOk (with_sig s b d).
Proof. intros A c x H. apply (A c x H). Qed.

Lemma bytes_same sn pc x y : same_stream x y -> bytes_ok sn pc x -> bytes_ok sn pc y.
Proof. intros (E1 & E2 & E3) [B1 B2]. unfold bytes_ok. rewrite E1, E2, E3. auto. Qed.

Lemma allok_on_ctx s c f s' :
  AllOk s -> (forall x y, cok x -> f x = Some y -> cok y /\ same_stream x y) ->
  on_ctx s c f = Some s' -> AllOk s'.
Proof.
  intros A Hf H. unfold on_ctx in H. destruct (nth_error (ctxs s) c) as [x|] eqn:E; [|discriminate].
  destruct (f x) as [y|] eqn:F; [|discriminate]. inversion H; subst; clear H.
  intros d z Hz. simpl in Hz. destruct (nth_put _ _ _ _ _ Hz) as [(-> & -> & _)|(Ne & Hd)].
  - destruct (A c x E) as [C B]. destruct (Hf x y C F) as [C' S]. split; [assumption|]. simpl. eapply bytes_same; eauto.
  - apply (A d z Hd).
Qed.
Lemma allok_on_ctx_r s c f s' r :
  AllOk s -> (forall x y r, cok x -> f x = Some (y, r) -> cok y /\ same_stream x y) ->
  on_ctx_r s c f = Some (s', r) -> AllOk s'.
Proof.
  intros A Hf H. unfold on_ctx_r in H. destruct (nth_error (ctxs s) c) as [x|] eqn:E; [|discriminate].
  destruct (f x) as [[y r']|] eqn:F; [|discriminate]. inversion H; subst; clear H.
  intros d z Hz. simpl in Hz. destruct (nth_put _ _ _ _ _ Hz) as [(-> & -> & _)|(Ne & Hd)].
  - destruct (A c x E) as [C B]. destruct (Hf x y r C F) as [C' S]. split; [assumption|]. simpl. eapply bytes_same; eauto.
  - apply (A d z Hd).
Qed.

Ltac use_local L1 L2 := intros ? ? ? ?; cbv beta in *; split; [eapply L1; eassumption|eapply L2; eassumption].
Ltac use_local_r L1 L2 := intros ? ? ? ? ?; cbv beta in *; split; [eapply L1; eassumption|eapply L2; eassumption].

Lemma allok_enter_exit s s' : AllOk s -> enter_exit s = Some s' -> AllOk s'.
Proof.
  intros A H. unfold enter_exit in H. destruct (queue s) as [|c q].
  - inversion H; subst. apply allok_pc; assumption.
  - destruct (on_ctx s c l_exitpop) as [s1|] eqn:E; [|discriminate]. inversion H; subst.
    apply allok_pc, allok_lists. eapply allok_on_ctx; [exact A| |exact E]. use_local l_exitpop_ok l_exitpop_same.
Qed.
Lemma allok_enter_clear s s' : AllOk s -> enter_clear s = Some s' -> AllOk s'.
Proof.
  intros A H. unfold enter_clear in H. destruct (clr s) as [|c q].
  - eapply allok_enter_exit; eauto.
  - destruct (on_ctx s c l_clearpop) as [s1|] eqn:E; [|discriminate]. inversion H; subst.
    apply allok_pc, allok_lists. eapply allok_on_ctx; [exact A| |exact E]. use_local l_clearpop_ok l_clearpop_same.
Qed.
Lemma allok_after_rel s k s' : AllOk s -> after_rel s k = Some s' -> AllOk s'.
Proof.
  intros A H. destruct k; simpl in H.
  - inversion H; subst. apply allok_pc; assumption.
  - eapply allok_enter_clear; eauto.
  - eapply allok_enter_exit; eauto.
  - inversion H; subst. apply allok_pc; assumption.
Qed.

Lemma allok_add s x : AllOk s -> cok x -> k_got x = [] -> k_eof x = false -> AllOk (add_ctx s x).
Proof.
  intros A C G E c z H. simpl in H. destruct (nth_snoc _ _ _ _ H) as [H1|[-> ->]].
  - apply (A c z H1).
  - split; [assumption|]. unfold bytes_ok. rewrite G, E. split; [eexists; reflexivity|discriminate].
Qed.

(* announcement: the stream is (re)bound while nothing has been read *)
Lemma allok_announce s c (g : ctx -> nat) cb s' :
  AllOk s -> on_ctx s c (fun x => l_announce x (g x) cb) = Some s' -> AllOk s'.
Proof.
  intros A H. unfold on_ctx in H. destruct (nth_error (ctxs s) c) as [x|] eqn:E; [|discriminate].
  destruct (l_announce x (g x) cb) as [y|] eqn:F; [|discriminate]. inversion H; subst; clear H.
  intros d z Hz. simpl in Hz. destruct (nth_put _ _ _ _ _ Hz) as [(-> & -> & _)|(Ne & Hd)].
  - destruct (A c x E) as [C B]. split; [eapply l_announce_ok; eauto|].
    destruct (l_announce_fresh x (g x) cb y C F) as (E1 & E2 & E3). unfold bytes_ok. simpl. rewrite E2, E3.
    split; [eexists; reflexivity|discriminate].
  - apply (A d z Hd).
Qed.

Lemma prefix_eqb_spec a b : prefix_eqb a b = true -> exists rest, b = a ++ rest.
Proof.
  revert b; induction a as [|x a IH]; intros b H; simpl in H.
  - exists b. reflexivity.
  - destruct b as [|y b]; [discriminate|]. apply andb_prop in H. destruct H as [H1 H2].
    apply Z.eqb_eq in H1. subst. destruct (IH b H2) as [r ->]. exists r. reflexivity.
Qed.

Ltac break H :=
  repeat match goal with
         | H0 : ?lhs = Some _ |- _ =>
           match lhs with
           | context [match ?t with _ => _ end] => destruct t eqn:?; try discriminate
           | context [if ?t then _ else _] => destruct t eqn:?; try discriminate
           end
         end;
  repeat match goal with
         | H0 : Some _ = Some _ |- _ => inversion H0; subst; clear H0
         end.

Lemma step_allok s e s' r : AllOk s -> step s e = Some (s', r) -> AllOk s'.
Proof.
  intros A H. destruct e; unfold step, ret0 in H.
  - (* halloc *) inversion H; subst. apply allok_add; auto. apply new_ctx_ok. left; auto.
  - (* hand *) break H. apply allok_sig, allok_lists.
    eapply allok_on_ctx; [exact A| |eassumption]. use_local l_hand_ok l_hand_same.
  - (* send *) break H. intros c x Hx. simpl in *. destruct (A c x Hx) as [C [[rest B1] B2]].
    split; [assumption|]. unfold bytes_ok, upd. destruct (Nat.eqb_spec (k_conn x) n) as [En|Ne].
    + rewrite En in *. split; [exists (rest ++ bs); rewrite B1, app_assoc; reflexivity|].
      intros E. destruct (B2 E) as [P _]. congruence.
    + split; [eauto|assumption].
  - (* peer close *) inversion H; subst; clear H. intros c x Hx. simpl in *. destruct (A c x Hx) as [C [B1 B2]].
    split; [assumption|]. unfold bytes_ok, upd. split; [assumption|].
    intros E. destruct (B2 E) as [P Q]. destruct (Nat.eqb (k_conn x) n); auto.
  - (* peer reset *) inversion H; subst; clear H. intros c x Hx. simpl in *. destruct (A c x Hx) as [C [B1 B2]].
    split; [assumption|]. unfold bytes_ok, upd. split; [assumption|].
    intros E. destruct (B2 E) as [P Q]. destruct (Nat.eqb (k_conn x) n); auto.
  - break H. eapply allok_on_ctx; [exact A| |eassumption]. use_local l_wshut_ok l_wshut_same.
  - eapply allok_on_ctx_r; [exact A| |exact H]. use_local_r l_wrel_ok l_wrel_same.
  - break H. eapply allok_on_ctx; [exact A| |eassumption]. use_local l_wrelease_ok l_wrelease_same.
  - break H. eapply allok_on_ctx; [exact A| |eassumption]. use_local l_wfree_ok l_wfree_same.
  - (* reg *) break H; apply allok_pc; try apply allok_lists;
      (eapply allok_on_ctx; [exact A| |eassumption]);
      first [use_local l_reg_wake_ok l_reg_wake_same | use_local l_reg_acc_ok l_reg_acc_same].
  - (* addctx *) break H. apply allok_pc. eapply (allok_announce s c (fun x => k_conn x)); eauto.
  - break H. apply allok_pc; assumption.
  - break H. eapply allok_on_ctx; [exact A| |eassumption]. use_local l_accepterr_ok l_accepterr_same.
  - break H. apply allok_pc; assumption.
  - (* alloc *) break H. apply allok_pc. apply allok_add; auto. apply new_ctx_ok. right; auto.
  - (* conn *) break H. apply allok_pc. eapply (allok_announce s c (fun _ => n)); eauto.
  - (* free *) break H.
    + apply allok_pc. eapply allok_on_ctx; [exact A| |eassumption]. use_local l_free_acc_ok l_free_acc_same.
    + eapply allok_after_rel; [|eassumption]. eapply allok_on_ctx; [exact A| |eassumption]. use_local l_free_loop_ok l_free_loop_same.
  - (* fdclose *) break H; try apply allok_pc;
      (eapply allok_on_ctx; [exact A| |eassumption]);
      first [use_local l_fdclose_loop_ok l_fdclose_loop_same | use_local l_fdclose_acc_ok l_fdclose_acc_same
            | use_local l_fdclose_w_ok l_fdclose_w_same].
  - break H. apply allok_pc; assumption.
  - break H. eapply allok_on_ctx; [exact A| |eassumption]. use_local l_use_ok l_use_same.
  - (* rd *) break H.
    match goal with E : on_ctx s c _ = Some _ |- _ => unfold on_ctx in E; rewrite Heqo in E end.
    destruct (l_rd c0 bs) as [y|] eqn:F; [|discriminate]. inversion Heqo0; subst; clear Heqo0.
    apply andb_prop in Heqb0. destruct Heqb0 as [Hn Hp]. apply prefix_eqb_spec in Hp. destruct Hp as [rest Hp].
    intros d z Hz. simpl in Hz. destruct (nth_put _ _ _ _ _ Hz) as [(-> & -> & _)|(Ne & Hd)]; [|apply (A d z Hd)].
    destruct (A c c0 Heqo) as [C [B1 B2]]. split; [eapply l_rd_ok; eauto|].
    destruct (l_rd_stream _ _ _ F) as (E1 & E2 & E3). unfold bytes_ok. simpl. rewrite E1, E2, E3.
    split; [exists rest; assumption|]. intros Ee. destruct (B2 Ee) as [P Q]. exfalso.
    rewrite <- Q in Hp. rewrite <- (app_nil_r (k_got c0)) in Hp at 1. rewrite <- app_assoc in Hp.
    apply app_inv_head in Hp. destruct bs; [discriminate Hn|discriminate Hp].
  - (* eof *) break H.
    match goal with E : on_ctx s c _ = Some _ |- _ => unfold on_ctx in E; rewrite Heqo in E end.
    match type of Heqo0 with context [l_eof c0 ?f] => set (full := f) in *; destruct (l_eof c0 full) as [y|] eqn:F; [|discriminate] end.
    inversion Heqo0; subst; clear Heqo0.
    intros d z Hz. simpl in Hz. destruct (nth_put _ _ _ _ _ Hz) as [(-> & -> & _)|(Ne & Hd)]; [|apply (A d z Hd)].
    destruct (A c c0 Heqo) as [C [[rest B1] B2]]. split; [eapply l_eof_ok; eauto|].
    destruct (l_eof_stream _ _ _ F) as (E1 & E2 & E3). unfold bytes_ok. simpl. rewrite E1, E2, E3.
    split; [exists rest; assumption|]. intros Ee. apply orb_prop in Ee. destruct Ee as [Ee|Ee]; [auto|].
    unfold full in Ee. apply andb_prop in Ee. destruct Ee as [P Q]. apply Nat.eqb_eq in Q. split; [assumption|].
    rewrite B1 in Q. rewrite app_length in Q. destruct rest; [rewrite B1, app_nil_r; reflexivity|simpl in Q; lia].
  - (* err *) break H. eapply allok_on_ctx; [exact A| |eassumption].
    intros x y C F. cbv beta in F. split; [eapply l_eof_ok; eassumption|]. destruct (l_eof_stream _ _ _ F) as (E1 & E2 & E3).
    unfold same_stream. rewrite E3, orb_false_r. auto.
  - break H. eapply allok_on_ctx; [exact A| |eassumption]. use_local l_shut_ok l_shut_same.
  - break H. eapply allok_on_ctx_r; [exact A| |exact H]. use_local_r l_retain_ok l_retain_same.
  - (* close *) break H. apply allok_pc, allok_lists.
    eapply allok_on_ctx; [exact A| |eassumption]. use_local l_close_ok l_close_same.
  - (* release *) break H. apply allok_pc.
    eapply allok_on_ctx_r; [exact A| |eassumption]. use_local_r l_release_ok l_release_same.
  - inversion H; subst; assumption.
  - break H. apply allok_pc; assumption.
  - (* cb_wake *) break H. apply allok_pc; assumption.
  - (* tau release *) break H. eapply allok_after_rel; [|eassumption].
    eapply allok_on_ctx_r; [exact A| |eassumption]. use_local_r l_release_ok l_release_same.
  - (* tau break *) break H. eapply allok_enter_clear; [|eassumption]. apply allok_lists; assumption.
  - (* wake begin *) break H. apply allok_pc; assumption.
  - (* wake unlock *) break H. apply allok_pc; assumption.
  - (* signal by a hand-over *) break H. apply allok_sig; assumption.
  - (* signal by anyone *) break H. apply allok_sig; assumption.
  - (* clear-up *) break H. apply allok_pc, allok_sig; assumption.
  - (* sleep *) break H. assumption.
Qed.

Lemma initf_allok f : AllOk (initf f).
Proof. intros c x H. destruct c; discriminate. Qed.
Lemma init_allok : AllOk init.
Proof. apply initf_allok. Qed.

Lemma run_allok h : forall s, AllOk s -> AllOk (run s h).
Proof.
  induction h as [|e h IH]; intros s A; simpl; [assumption|]. apply IH. unfold run1.
  destruct (step s e) as [[s' r]|] eqn:E; [eapply step_allok; eauto|assumption].
Qed.

Section Theorems.
  Variable f : cbflags.      (* which optional callbacks are installed: every theorem holds for every configuration *)
  Variable h : list ev.
  Let s := run (initf f) h.
  Variables (c : nat) (x : ctx).
  Hypothesis Hx : nth_error (ctxs s) c = Some x.

  Lemma ctx_ok : cok x /\ bytes_ok (sent s) (pclosed s) x.
  Proof. apply (run_allok h (initf f) (initf_allok f) c x Hx). Qed.

  (* announced (cb_conn / cb_add_ctx) at most once *)
  Lemma announced_once : k_ann x <= 1.
  Proof. destruct ctx_ok as [(_ & _ & _ & H & _) _]. exact H. Qed.

  (* what cb_msg read is a prefix of what the peer sent, and all of it at end of stream *)
  Lemma bytes_in_order :
    (exists rest, sent s (k_conn x) = k_got x ++ rest) /\ (k_eof x = true -> k_got x = sent s (k_conn x)).
  Proof. destruct ctx_ok as [_ [B1 B2]]. split; [assumption|]. intros E. apply (B2 E). Qed.

  (* cb_close, release, descriptor close and free happen at most once; a free of a context that
     anyone could see happens at count zero; a release happened only at count zero *)
  Lemma freed_once_at_zero :
    k_ncl x <= 1 /\ k_nrel x <= 1 /\ k_nfdc x <= 1 /\ k_nfree x <= 1 /\
    (k_freed x = true -> k_nfree x = 1 /\ (k_ref x = 0%Z \/ k_pub x = false)) /\
    (k_freed x = false -> k_nfree x = 0) /\
    (k_nrel x = 1 -> k_ref x = 0%Z \/ k_freed x = true) /\
    (k_freed x = true -> k_pub x = true -> k_nrel x = 1 \/ k_nrel x <= 1).
  Proof.
    destruct ctx_ok as [(_ & _ & Hfd & _ & Hcl & _ & _ & Hm) _].
    unfold mode_of in Hm. destruct (k_freed x) eqn:Ef.
    - destruct Hm as (H1 & H2 & H3 & H4 & H5 & H6). destruct (k_fd x); repeat split; auto; try lia; intros; try discriminate; auto.
    - destruct (k_wfin x) as [|w] eqn:Ew.
      + destruct (fin_loc (k_loc x)).
        * destruct Hm as (H1 & H2 & H3 & H4 & H5). destruct (k_fd x); repeat split; auto; try lia; intros; try discriminate; auto.
        * destruct Hm as (H1 & H2 & H3 & H4 & H5 & _). destruct (k_fd x); repeat split; auto; try lia; intros; try discriminate; try lia; auto.
      + destruct Hm as (H1 & H2 & H3 & H4 & H5 & H6 & H7).
        destruct (k_fd x); destruct (Nat.leb 2 (S w)); repeat split; auto; try lia; intros; try discriminate; auto.
  Qed.

  (* no callback, read, retain, flag access ... on a released or freed context *)
  Lemma no_use_after_release : k_uar x = 0.
  Proof. destruct ctx_ok as [(_ & H & _) _]. exact H. Qed.
End Theorems.

(* non-vacuity: a listener is handed over; one connection is accepted, sends 3 bytes read in two
   fragments, is retained by a worker, the peer closes, the loop closes it and drops its
   reference silently, the worker's release is the last one and frees; exit clears the listener *)
Definition demo_history : list ev :=
  [EHalloc KListen 0; EHand 0; ESigHand 0; ESigClear; ETauWakeBegin; EReg 0 true; EAddctx 0; ETauWakeUnlock; EWake;
   EAccepted; EAlloc 1; EReg 1 true; EConn 1 5;
   ESend 5 [1;2;3]%Z; EMsg 1; ERd 1 [1;2]%Z; ERetain 1; ERd 1 [3]%Z; EPclose 5; ERdEof 1; EClose 1; ETauRel;
   EWrel 1; EWrelease 1; EFdclose 1; EWfree 1; ESleep; EExitreq; ESigw; ETauBreak; ERelease 0; EFdclose 0; EFree 0; EReturned].
Example demo_run :
  let s := run init demo_history in
  pc s = PDone /\
  map (fun x => (k_ann x, k_ncl x, k_nrel x, k_nfdc x, k_nfree x, k_uar x, k_freed x, k_ref x)) (ctxs s)
    = [(1, 0, 1, 1, 1, 0, true, 0%Z); (1, 1, 1, 1, 1, 0, true, 0%Z)] /\
  map k_got (ctxs s) = [[]; [1;2;3]%Z] /\ map k_eof (ctxs s) = [false; true].
Proof. vm_compute. repeat split; reflexivity. Qed.
(* the accept path's registration failure frees without announcing; the hand-over's releases *)
Example demo_failures :
  let s := run init [EHalloc KListen 0; EHand 0; ESigHand 0; ESigClear; ETauWakeBegin; EReg 0 true; EAddctx 0; ETauWakeUnlock; EWake;
                     EAccepted; EAllocfail; EFdcloseNew;
                     EAccepted; EAlloc 1; EReg 1 false; EFree 1; EFdclose 1;
                     EHalloc KConn 7; EHand 2; ESigHand 2; ESigClear; ETauWakeBegin; EReg 2 false; ERelease 2; EFdclose 2; EFree 2;
                     ETauWakeUnlock; EWake] in
  pc s = PIdle /\
  map (fun x => (k_ann x, k_nrel x, k_nfdc x, k_nfree x, k_freed x, k_ref x)) (ctxs s)
    = [(1, 0, 0, 0, false, 1%Z); (0, 0, 1, 1, true, 1%Z); (0, 1, 1, 1, true, 0%Z)].
Proof. vm_compute. repeat split; reflexivity. Qed.

Lemma freed_once f h c x :
  nth_error (ctxs (run (initf f) h)) c = Some x ->
  (k_ncl x <= 1 /\ k_nrel x <= 1 /\ k_nfdc x <= 1 /\ k_nfree x <= 1)%nat /\
  (k_freed x = true -> k_nfree x = 1%nat /\ (k_ref x = 0%Z \/ k_pub x = false)) /\
  (k_freed x = false -> k_nfree x = 0%nat) /\
  (k_nrel x = 1%nat -> k_ref x = 0%Z \/ k_freed x = true).
Proof.
  intros H. destruct (freed_once_at_zero f h c x H) as (A & B & C & D & E & F & G & _).
  split; [repeat split; assumption|]. split; [assumption|]. split; assumption.
Qed.

(* A hang-up closes a context whose CLOSED flag nobody has set (no shutdown by the application,
   no read that returned 0 or failed) only when every byte the peer sent has been handed to
   cb_msg already: the bytes readable when the hang-up is reported are offered to the read
   callback before cb_close (all three back-ends read before they test the flag).  Together with
   bytes_in_order (a read returning 0 at the end of the stream implies got = sent) this covers
   every cb_close of a connection that was neither shut down locally nor reset nor in error. *)
Lemma close_on_hup_after_all_bytes f h c x s' r :
  let s := run (initf f) h in
  step s (EClose c) = Some (s', r) ->
  nth_error (ctxs s) c = Some x ->
  k_flag x = false -> preset s (k_conn x) = false ->
  pclosed s (k_conn x) = true /\ k_got x = sent s (k_conn x).
Proof.
  intros s H Hx Hf Hr. destruct (run_allok h (initf f) (initf_allok f) c x Hx) as [_ [[rest B1] _]]. fold s in B1.
  unfold step in H. destruct (spc_eqb (pc s) PIdle); [|discriminate]. rewrite Hx in H.
  unfold on_ctx in H. rewrite Hx in H. unfold l_close, hup_only in H. rewrite Hf, Hr in H. simpl in H.
  destruct (loc_eqb (k_loc x) LReg); simpl in H; [|discriminate].
  destruct (pclosed s (k_conn x)); simpl in H; [|discriminate].
  destruct (Nat.eqb_spec (length (k_got x)) (length (sent s (k_conn x)))) as [E|E]; [|discriminate].
  split; [reflexivity|]. rewrite B1 in E. rewrite app_length in E.
  destruct rest; [rewrite B1, app_nil_r; reflexivity|simpl in E; lia].
Qed.

Example close_on_hup_nonvacuous :
  let h := [EHalloc KListen 0; EHand 0; ESigHand 0; ESigClear; ETauWakeBegin; EReg 0 true; EAddctx 0; ETauWakeUnlock; EWake;
            EAccepted; EAlloc 1; EReg 1 true; EConn 1 5; ESend 5 [1;2;3]%Z; EPclose 5] in
  (* data and hang-up are both pending: cb_close is not enabled before the bytes are read *)
  step (run init h) (EClose 1) = None /\
  (exists s', step (run init (h ++ [EMsg 1; ERd 1 [1;2;3]%Z])) (EClose 1) = Some (s', 0%Z)).
Proof. vm_compute. split; [reflexivity|eexists; reflexivity]. Qed.
