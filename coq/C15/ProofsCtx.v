(* C15 — one socket context: the ownership invariant [cok] and its preservation by every
   local transition of C15/Model.v (whatever the rest of the system does). *)
From MV Require Import C04.Model C15.Model.
From Coq Require Import ZifyBool.
Local Open Scope Z_scope.

Inductive mode := MLive | MLoopFin | MWorkFin | MFreed.

Definition fin_loc (l : loc) : bool := match l with LCloseDue | LFreeDue => true | _ => false end.
Definition mode_of (x : ctx) : mode :=
  if k_freed x then MFreed
  else match k_wfin x with
       | S _ => MWorkFin
       | O => if fin_loc (k_loc x) then MLoopFin else MLive
       end.
(* positions before the announcement / before cb_close *)
Definition pre_ann (l : loc) : bool :=
  match l with LUser | LQueue | LRegNew | LAccNew | LAccFail | LAccClose => true | _ => false end.
Definition pre_close (l : loc) : bool :=
  match l with LUser | LQueue | LRegNew | LReg | LAccNew | LAccFail | LAccClose => true | _ => false end.

Definition cok (x : ctx) : Prop :=
  0 <= k_ref x /\ k_uar x = 0%nat /\ k_nfdc x = (if k_fd x then 0 else 1)%nat /\
  (k_ann x <= 1)%nat /\ (k_ncl x <= 1)%nat /\
  (pre_ann (k_loc x) = true -> k_ann x = 0%nat /\ k_got x = [] /\ k_eof x = false) /\
  (pre_close (k_loc x) = true -> k_ncl x = 0%nat) /\
  match mode_of x with
  | MFreed =>
    k_nfree x = 1%nat /\ k_work x = 0%nat /\ k_wfin x = 0%nat /\ (k_loc x = LNone /\ k_fd x = false \/ k_loc x = LAccClose /\ k_fd x = true) /\
    (k_ref x = 0 \/ k_pub x = false) /\ (k_nrel x <= 1)%nat
  | MWorkFin =>
    k_nfree x = 0%nat /\ k_loc x = LNone /\ k_ref x = 0 /\ k_work x = 0%nat /\ (k_wfin x <= 3)%nat /\
    k_nrel x = (if Nat.leb 2 (k_wfin x) then 1 else 0)%nat /\ k_fd x = Nat.leb (k_wfin x) 2
  | MLoopFin =>
    k_nfree x = 0%nat /\ k_ref x = 0 /\ k_work x = 0%nat /\ k_nrel x = 1%nat /\
    k_fd x = loc_eqb (k_loc x) LCloseDue
  | MLive =>
    k_nfree x = 0%nat /\ k_ref x = tok (k_loc x) + Z.of_nat (k_work x) /\ 1 <= k_ref x /\
    k_nrel x = 0%nat /\ k_fd x = true /\ k_loc x <> LAccClose /\
    ((k_loc x = LAccNew \/ k_loc x = LAccFail) -> k_work x = 0%nat /\ k_pub x = false)
  end.

Lemma new_ctx_ok kd n l pub :
  (l = LUser /\ pub = true) \/ (l = LAccNew /\ pub = false) -> cok (new_ctx kd n l pub).
Proof.
  intros [[-> ->]|[-> ->]]; unfold cok, mode_of; simpl; intuition (try lia; try congruence).
Qed.

(* one tactic for all local lemmas: split the record, the position, the flags that select the
   mode; compute; finish by arithmetic / congruence *)
Ltac open_ctx x :=
  destruct x as [kd cn rf lc fl fd fr wk wf gt ef pb an nc nr nfd nfr ua].
Ltac finish := simpl in *; intuition (try discriminate; try lia; try congruence).
Ltac local_tac :=
  unfold cok, mode_of; simpl;
  let H := fresh "H" in intros H;
  decompose [and or] H; clear H; try discriminate; subst; unfold touch; simpl;
  let E := fresh "E" in
  intros E;
  simpl in E;
  repeat match type of E with
         | (if ?b then _ else _) = _ => destruct b eqn:?; try discriminate
         | (let (_, _) := ?p in _) = _ => destruct p eqn:?
         | match ?n with O => _ | S _ => _ end = _ => destruct n eqn:?; try discriminate
         end;
  inversion E; subst; clear E;
  repeat match goal with
         | H0 : Nat.eqb _ _ = true |- _ => apply Nat.eqb_eq in H0; subst
         end;
  repeat match goal with
         | H0 : (if ?b then _ else _) = (_, _) |- _ => destruct b eqn:?; inversion H0; subst; clear H0
         end;
  repeat match goal with
         | |- context [if ?b then _ else _] => destruct b eqn:?; simpl
         end;
  finish.

Local Opaque Z.add Z.sub Z.of_nat Z.eqb Z.ltb.

Lemma l_hand_ok x y : cok x -> l_hand x = Some y -> cok y.
Proof.
  open_ctx x. unfold l_hand. simpl. destruct lc; simpl; try (intros; discriminate).
  destruct fr; destruct wf; local_tac.
Qed.

Lemma l_reg_wake_ok x ok y : cok x -> l_reg_wake x ok = Some y -> cok y.
Proof. destruct ok; open_ctx x; unfold l_reg_wake, rspec, rdes; simpl; destruct lc; simpl; try (intros; discriminate); destruct fr; destruct wf; local_tac. Qed.
Lemma l_reg_acc_ok x ok y : cok x -> l_reg_acc x ok = Some y -> cok y.
Proof. destruct ok; open_ctx x; unfold l_reg_acc, rspec, rdes; simpl; destruct lc; simpl; try (intros; discriminate); destruct fr; destruct wf; local_tac. Qed.
Lemma l_announce_ok x n cb y : cok x -> l_announce x n cb = Some y -> cok y.
Proof. destruct cb; open_ctx x; unfold l_announce, rspec, rdes; simpl; destruct lc; simpl; try (intros; discriminate); destruct fr; destruct wf; local_tac. Qed.
Lemma l_use_ok x y : cok x -> l_use x = Some y -> cok y.
Proof. open_ctx x; unfold l_use, rspec, rdes; simpl; destruct lc; simpl; try (intros; discriminate); destruct fr; destruct wf; local_tac. Qed.
Lemma l_rd_ok x bs y : cok x -> l_rd x bs = Some y -> cok y.
Proof. open_ctx x; unfold l_rd, rspec, rdes; simpl; destruct lc; simpl; try (intros; discriminate); destruct fr; destruct wf; local_tac. Qed.
Lemma l_eof_ok x full y : cok x -> l_eof x full = Some y -> cok y.
Proof. open_ctx x; unfold l_eof, rspec, rdes; simpl; destruct lc; simpl; try (intros; discriminate); destruct fr; destruct wf; local_tac. Qed.
Lemma l_shut_ok x y : cok x -> l_shut x = Some y -> cok y.
Proof. open_ctx x; unfold l_shut, rspec, rdes; simpl; destruct lc; simpl; try (intros; discriminate); destruct fr; destruct wf; local_tac. Qed.
Lemma l_accepterr_ok x y : cok x -> l_accepterr x = Some y -> cok y.
Proof. destruct x as [[|] cn rf lc fl fd fr wk wf gt ef pb an nc nr nfd nfr ua]; unfold l_accepterr; simpl;
  try (intros; discriminate); destruct lc; simpl; try (intros; discriminate); destruct fr; destruct wf; local_tac. Qed.
Lemma l_close_ok x hup cb y : cok x -> l_close x hup cb = Some y -> cok y.
Proof. destruct cb; open_ctx x; unfold l_close, rspec, rdes; simpl; destruct lc; simpl; try (intros; discriminate); destruct fr; destruct wf; local_tac. Qed.
Lemma l_clearpop_ok x y : cok x -> l_clearpop x = Some y -> cok y.
Proof. open_ctx x; unfold l_clearpop, rspec, rdes; simpl; destruct lc; simpl; try (intros; discriminate); destruct fr; destruct wf; local_tac. Qed.
Lemma l_exitpop_ok x y : cok x -> l_exitpop x = Some y -> cok y.
Proof. open_ctx x; unfold l_exitpop, rspec, rdes; simpl; destruct lc; simpl; try (intros; discriminate); destruct fr; destruct wf; local_tac. Qed.
Lemma l_release_ok x y r : cok x -> l_release x = Some (y, r) -> cok y.
Proof. open_ctx x; unfold l_release, rspec, rdes; simpl; destruct lc; simpl; try (intros; discriminate); destruct fr; destruct wf; local_tac. Qed.
Lemma l_fdclose_loop_ok x y : cok x -> l_fdclose_loop x = Some y -> cok y.
Proof. open_ctx x; unfold l_fdclose_loop, rspec, rdes; simpl; destruct lc; simpl; try (intros; discriminate); destruct fr; destruct wf; local_tac. Qed.
Lemma l_free_loop_ok x y : cok x -> l_free_loop x = Some y -> cok y.
Proof. open_ctx x; unfold l_free_loop, rspec, rdes; simpl; destruct lc; simpl; try (intros; discriminate); destruct fr; destruct wf; local_tac. Qed.
Lemma l_free_acc_ok x y : cok x -> l_free_acc x = Some y -> cok y.
Proof. open_ctx x; unfold l_free_acc, rspec, rdes; simpl; destruct lc; simpl; try (intros; discriminate); destruct fr; destruct wf; local_tac. Qed.
Lemma l_fdclose_acc_ok x y : cok x -> l_fdclose_acc x = Some y -> cok y.
Proof. open_ctx x; unfold l_fdclose_acc, rspec, rdes; simpl; destruct lc; simpl; try (intros; discriminate); destruct fr; destruct wf; local_tac. Qed.
Lemma l_retain_ok x y r : cok x -> l_retain x = Some (y, r) -> cok y.
Proof. open_ctx x; unfold l_retain, rspec, rdes; simpl; destruct lc; simpl; try (intros; discriminate); destruct fr; destruct wf; local_tac. Qed.
Lemma l_wshut_ok x y : cok x -> l_wshut x = Some y -> cok y.
Proof. open_ctx x; unfold l_wshut, rspec, rdes; simpl; destruct lc; simpl; try (intros; discriminate); destruct fr; destruct wf; local_tac. Qed.
Lemma l_wrel_ok x y r : cok x -> l_wrel x = Some (y, r) -> cok y.
Proof. open_ctx x; unfold l_wrel, rspec, rdes; simpl; destruct lc; simpl; try (intros; discriminate); destruct fr; destruct wf; local_tac. Qed.
Lemma l_wrelease_ok x y : cok x -> l_wrelease x = Some y -> cok y.
Proof. open_ctx x; unfold l_wrelease, rspec, rdes; simpl; destruct lc; simpl; try (intros; discriminate); destruct fr; destruct wf; local_tac. Qed.
Lemma l_fdclose_w_ok x y : cok x -> l_fdclose_w x = Some y -> cok y.
Proof. open_ctx x; unfold l_fdclose_w, rspec, rdes; simpl; destruct lc; simpl; try (intros; discriminate); destruct fr; destruct wf; local_tac. Qed.
Lemma l_wfree_ok x y : cok x -> l_wfree x = Some y -> cok y.
Proof. open_ctx x; unfold l_wfree, rspec, rdes; simpl; destruct lc; simpl; try (intros; discriminate); destruct fr; destruct wf; local_tac. Qed.

(* which transitions leave the byte-stream bookkeeping alone *)
Definition same_stream (x y : ctx) : Prop :=
  k_conn y = k_conn x /\ k_got y = k_got x /\ k_eof y = k_eof x.
Ltac same_tac :=
  unfold same_stream, touch; simpl;
  let E := fresh "E" in intros E; simpl in E;
  repeat match type of E with
         | (if ?b then _ else _) = _ => destruct b eqn:?; try discriminate
         | (let (_, _) := ?p in _) = _ => destruct p eqn:?
         | match ?n with O => _ | S _ => _ end = _ => destruct n eqn:?; try discriminate
         | match ?n with KListen => _ | KConn => _ end = _ => destruct n eqn:?; try discriminate
         end;
  inversion E; subst; clear E;
  repeat match goal with
         | |- context [if ?b then _ else _] => destruct b eqn:?; simpl
         end; auto.
Lemma l_hand_same x y : l_hand x = Some y -> same_stream x y.
Proof. destruct x; unfold l_hand; same_tac. Qed.
Lemma l_use_same x y : l_use x = Some y -> same_stream x y.
Proof. destruct x; unfold l_use; same_tac. Qed.
Lemma l_shut_same x y : l_shut x = Some y -> same_stream x y.
Proof. destruct x; unfold l_shut; same_tac. Qed.
Lemma l_accepterr_same x y : l_accepterr x = Some y -> same_stream x y.
Proof. destruct x; unfold l_accepterr; same_tac. Qed.
Lemma l_clearpop_same x y : l_clearpop x = Some y -> same_stream x y.
Proof. destruct x; unfold l_clearpop; same_tac. Qed.
Lemma l_exitpop_same x y : l_exitpop x = Some y -> same_stream x y.
Proof. destruct x; unfold l_exitpop; same_tac. Qed.
Lemma l_fdclose_loop_same x y : l_fdclose_loop x = Some y -> same_stream x y.
Proof. destruct x; unfold l_fdclose_loop; same_tac. Qed.
Lemma l_free_loop_same x y : l_free_loop x = Some y -> same_stream x y.
Proof. destruct x; unfold l_free_loop; same_tac. Qed.
Lemma l_free_acc_same x y : l_free_acc x = Some y -> same_stream x y.
Proof. destruct x; unfold l_free_acc; same_tac. Qed.
Lemma l_fdclose_acc_same x y : l_fdclose_acc x = Some y -> same_stream x y.
Proof. destruct x; unfold l_fdclose_acc; same_tac. Qed.
Lemma l_wshut_same x y : l_wshut x = Some y -> same_stream x y.
Proof. destruct x; unfold l_wshut; same_tac. Qed.
Lemma l_wrelease_same x y : l_wrelease x = Some y -> same_stream x y.
Proof. destruct x; unfold l_wrelease; same_tac. Qed.
Lemma l_fdclose_w_same x y : l_fdclose_w x = Some y -> same_stream x y.
Proof. destruct x; unfold l_fdclose_w; same_tac. Qed.
Lemma l_wfree_same x y : l_wfree x = Some y -> same_stream x y.
Proof. destruct x; unfold l_wfree; same_tac. Qed.
Lemma l_reg_wake_same x ok y : l_reg_wake x ok = Some y -> same_stream x y.
Proof. destruct x; unfold l_reg_wake; same_tac. Qed.
Lemma l_reg_acc_same x ok y : l_reg_acc x ok = Some y -> same_stream x y.
Proof. destruct x; unfold l_reg_acc; same_tac. Qed.
Lemma l_close_same x hup cb y : l_close x hup cb = Some y -> same_stream x y.
Proof. destruct x; unfold l_close; same_tac. Qed.
Lemma l_release_same x y r : l_release x = Some (y, r) -> same_stream x y.
Proof. destruct x; unfold l_release; same_tac. Qed.
Lemma l_retain_same x y r : l_retain x = Some (y, r) -> same_stream x y.
Proof. destruct x; unfold l_retain; same_tac. Qed.
Lemma l_wrel_same x y r : l_wrel x = Some (y, r) -> same_stream x y.
Proof. destruct x; unfold l_wrel; same_tac. Qed.
(* the three that do touch it *)
Lemma l_announce_fresh x n cb y : cok x -> l_announce x n cb = Some y -> k_conn y = n /\ k_got y = [] /\ k_eof y = false.
Proof.
  open_ctx x; unfold l_announce, cok, touch; simpl. destruct lc; simpl; try (intros; discriminate).
  intros H E. destruct H as (_ & _ & _ & _ & _ & Hp & _). destruct (Hp eq_refl) as (? & ? & ?). subst.
  destruct ((0 <? nr)%nat || fr)%bool; inversion E; subst; simpl; auto.
Qed.
Lemma l_rd_stream x bs y : l_rd x bs = Some y -> k_conn y = k_conn x /\ k_got y = k_got x ++ bs /\ k_eof y = k_eof x.
Proof. destruct x; unfold l_rd; same_tac. Qed.
Lemma l_eof_stream x full y : l_eof x full = Some y -> k_conn y = k_conn x /\ k_got y = k_got x /\ k_eof y = (k_eof x || full)%bool.
Proof. destruct x; unfold l_eof; same_tac. Qed.
