(* C15 — the application is told exactly what its configuration asks for.

   The handle runs the same code whether or not an optional callback is installed
   (if (handle->cb_x) handle->cb_x(...)); [cbs] in the state says which ones are.  For every
   configuration and every history:
     - no announcement callback is counted unless cb_conn or cb_add_ctx is installed, no close
       callback unless cb_close is installed;
     - with both announcement callbacks installed, a context that sits registered in the loop
       (position LReg) has been announced exactly once (together with announced_once: never twice);
     - the configuration never changes.
   All other theorems of C15 (ownership, bytes, leaks, wake-up protocol) are stated for every
   configuration as well (they quantify over the flags of [initf]). *)
From MV Require Import C04.Model C15.Model C15.ProofsCtx C15.ProofsSys C15.ProofsLeak.
Local Open Scope nat_scope.

Definition cbok (f : cbflags) (x : ctx) : Prop :=
  ((f_conn f || f_addctx f)%bool = false -> k_ann x = 0) /\
  (f_close f = false -> k_ncl x = 0) /\
  ((f_conn f && f_addctx f)%bool = true -> k_loc x = LReg -> k_ann x = 1).

Definition CB (s : sys) : Prop :=
  forall c x, nth_error (ctxs s) c = Some x -> cbok (cbs s) x.

(* a local transition that invokes neither an announcement nor a close callback and does not move
   a context into the registered position *)
Definition keeps (x y : ctx) : Prop :=
  k_ann y = k_ann x /\ k_ncl y = k_ncl x /\ (k_loc y = LReg -> k_loc x = LReg).

Lemma cbok_keeps f x y : cbok f x -> keeps x y -> cbok f y.
Proof.
  intros (A & B & C) (E1 & E2 & E3). unfold cbok. rewrite E1, E2. repeat split; auto.
Qed.

Ltac keeps_tac :=
  unfold keeps, touch; simpl; intros;
  match goal with
  | E : _ = Some _ |- _ =>
    simpl in E;
    repeat match type of E with
           | (if ?b then _ else _) = _ => destruct b eqn:?; try discriminate
           | (let (_, _) := ?p in _) = _ => destruct p eqn:?
           | match ?n with O => _ | S _ => _ end = _ => destruct n eqn:?; try discriminate
           | match ?n with KListen => _ | KConn => _ end = _ => destruct n eqn:?; try discriminate
           end;
    inversion E; subst; clear E
  end;
  repeat match goal with
         | |- context [if ?b then _ else _] => destruct b eqn:?; simpl
         end;
  repeat split; auto; try discriminate; try congruence.
Ltac keeps_lemma f0 := intros x; destruct x as [? ? ? lc ? ? ? ? ? ? ? ? ? ? ? ? ? ?]; unfold f0; simpl; destruct lc; simpl; keeps_tac.

Lemma kp_hand : forall x y, l_hand x = Some y -> keeps x y. Proof. keeps_lemma l_hand. Qed.
Lemma kp_reg_wake : forall x ok y, l_reg_wake x ok = Some y -> keeps x y.
Proof. intros x ok; revert x; destruct ok; keeps_lemma l_reg_wake. Qed.
Lemma kp_reg_acc : forall x ok y, l_reg_acc x ok = Some y -> keeps x y.
Proof. intros x ok; revert x; destruct ok; keeps_lemma l_reg_acc. Qed.
Lemma kp_use : forall x y, l_use x = Some y -> keeps x y. Proof. keeps_lemma l_use. Qed.
Lemma kp_rd : forall x bs y, l_rd x bs = Some y -> keeps x y. Proof. keeps_lemma l_rd. Qed.
Lemma kp_eof : forall x b y, l_eof x b = Some y -> keeps x y. Proof. keeps_lemma l_eof. Qed.
Lemma kp_shut : forall x y, l_shut x = Some y -> keeps x y. Proof. keeps_lemma l_shut. Qed.
Lemma kp_accepterr : forall x y, l_accepterr x = Some y -> keeps x y. Proof. keeps_lemma l_accepterr. Qed.
Lemma kp_clearpop : forall x y, l_clearpop x = Some y -> keeps x y. Proof. keeps_lemma l_clearpop. Qed.
Lemma kp_exitpop : forall x y, l_exitpop x = Some y -> keeps x y. Proof. keeps_lemma l_exitpop. Qed.
Lemma kp_release : forall x y r, l_release x = Some (y, r) -> keeps x y. Proof. keeps_lemma l_release. Qed.
Lemma kp_fdclose_loop : forall x y, l_fdclose_loop x = Some y -> keeps x y. Proof. keeps_lemma l_fdclose_loop. Qed.
Lemma kp_free_loop : forall x y, l_free_loop x = Some y -> keeps x y. Proof. keeps_lemma l_free_loop. Qed.
Lemma kp_free_acc : forall x y, l_free_acc x = Some y -> keeps x y. Proof. keeps_lemma l_free_acc. Qed.
Lemma kp_fdclose_acc : forall x y, l_fdclose_acc x = Some y -> keeps x y. Proof. keeps_lemma l_fdclose_acc. Qed.
Lemma kp_retain : forall x y r, l_retain x = Some (y, r) -> keeps x y. Proof. keeps_lemma l_retain. Qed.
Lemma kp_wshut : forall x y, l_wshut x = Some y -> keeps x y. Proof. keeps_lemma l_wshut. Qed.
Lemma kp_wrel : forall x y r, l_wrel x = Some (y, r) -> keeps x y. Proof. keeps_lemma l_wrel. Qed.
Lemma kp_wrelease : forall x y, l_wrelease x = Some y -> keeps x y. Proof. keeps_lemma l_wrelease. Qed.
Lemma kp_fdclose_w : forall x y, l_fdclose_w x = Some y -> keeps x y. Proof. keeps_lemma l_fdclose_w. Qed.
Lemma kp_wfree : forall x y, l_wfree x = Some y -> keeps x y. Proof. keeps_lemma l_wfree. Qed.

(* the two transitions that do invoke a callback *)
Lemma cb_announce f x n cb y :
  cok x -> cbok f x -> l_announce x n cb = Some y ->
  (cb = true \/ ((f_conn f || f_addctx f)%bool = false -> cb = false)) ->
  ((f_conn f && f_addctx f)%bool = true -> cb = true) ->
  (cb = true -> (f_conn f || f_addctx f)%bool = true) ->
  cbok f y.
Proof.
  intros C (A & B & D) E _ Hboth Hany.
  destruct x as [? ? ? lc ? ? ? ? ? ? ? ? an nc ? ? ? ?]. unfold l_announce in E. simpl in E.
  destruct lc; simpl in E; try discriminate.
  destruct C as (_ & _ & _ & _ & _ & Hp & _). simpl in Hp. destruct (Hp eq_refl) as (Han & _ & _). subst an.
  unfold touch in E. simpl in E.
  match type of E with context [if ?b then _ else _] => destruct b end; inversion E; subst; clear E;
    unfold cbok; simpl in *; repeat split; intros.
  all: try (destruct cb; [specialize (Hany eq_refl); congruence|reflexivity]).
  all: try (apply B; assumption).
  all: try (rewrite (Hboth H); reflexivity).
Qed.

Lemma cb_close f x hup cb y :
  cbok f x -> l_close x hup cb = Some y -> (f_close f = false -> cb = false) -> cbok f y.
Proof.
  intros (A & B & D) E Hc.
  destruct x as [? ? ? lc ? ? ? ? ? ? ? ? an nc ? ? ? ?]. unfold l_close in E. simpl in E.
  destruct lc; simpl in E; try discriminate.
  match type of E with (if ?b then _ else _) = _ => destruct b; try discriminate end.
  unfold touch in E. simpl in E.
  match type of E with context [if ?b then _ else _] => destruct b end; inversion E; subst; clear E;
    unfold cbok; simpl in *; repeat split; intros; auto; try discriminate.
  all: try (rewrite (Hc H); apply B; assumption).
Qed.

(* ---- the system ---- *)
Lemma cb_pc s p : CB s -> CB (with_pc s p). Proof. intros A c x H. apply (A c x H). Qed.
Lemma cb_lists s q r cl : CB s -> CB (with_lists s q r cl). Proof. intros A c x H. apply (A c x H). Qed.
Lemma cb_sig s b d : CB s -> CB (with_sig s b d). Proof. intros A c x H. apply (A c x H). Qed.

Lemma cb_on_ctx s c f s' :
  CB s -> (forall x y, cbok (cbs s) x -> f x = Some y -> cbok (cbs s) y) ->
  on_ctx s c f = Some s' -> CB s'.
Proof.
  intros A Hf H. unfold on_ctx in H. destruct (nth_error (ctxs s) c) as [x|] eqn:E; [|discriminate].
  destruct (f x) as [y|] eqn:F; [|discriminate]. inversion H; subst; clear H.
  intros d z Hz. simpl in Hz. destruct (nth_put _ _ _ _ _ Hz) as [(-> & -> & _)|(Ne & Hd)].
  - simpl. apply (Hf x y (A c x E) F).
  - apply (A d z Hd).
Qed.
Lemma cb_on_ctx_r s c f s' r :
  CB s -> (forall x y r, cbok (cbs s) x -> f x = Some (y, r) -> cbok (cbs s) y) ->
  on_ctx_r s c f = Some (s', r) -> CB s'.
Proof.
  intros A Hf H. unfold on_ctx_r in H. destruct (nth_error (ctxs s) c) as [x|] eqn:E; [|discriminate].
  destruct (f x) as [[y r']|] eqn:F; [|discriminate]. inversion H; subst; clear H.
  intros d z Hz. simpl in Hz. destruct (nth_put _ _ _ _ _ Hz) as [(-> & -> & _)|(Ne & Hd)].
  - simpl. apply (Hf x y r (A c x E) F).
  - apply (A d z Hd).
Qed.
Lemma cb_on_ctx_cok s c f s' :
  AllOk s -> CB s -> (forall x y, cok x -> cbok (cbs s) x -> f x = Some y -> cbok (cbs s) y) ->
  on_ctx s c f = Some s' -> CB s'.
Proof.
  intros AO A Hf H. unfold on_ctx in H. destruct (nth_error (ctxs s) c) as [x|] eqn:E; [|discriminate].
  destruct (f x) as [y|] eqn:F; [|discriminate]. inversion H; subst; clear H.
  intros d z Hz. simpl in Hz. destruct (nth_put _ _ _ _ _ Hz) as [(-> & -> & _)|(Ne & Hd)].
  - simpl. destruct (AO c x E) as [C _]. apply (Hf x y C (A c x E) F).
  - apply (A d z Hd).
Qed.
Ltac use_keeps L := intros ? ? ? ?; cbv beta in *; eapply cbok_keeps; [eassumption|eapply L; eassumption].
Ltac use_keeps_r L := intros ? ? ? ? ?; cbv beta in *; eapply cbok_keeps; [eassumption|eapply L; eassumption].

Lemma cb_enter_exit s s' : CB s -> enter_exit s = Some s' -> CB s'.
Proof.
  intros A H. unfold enter_exit in H. destruct (queue s) as [|c q].
  - inversion H; subst. apply cb_pc; assumption.
  - destruct (on_ctx s c l_exitpop) as [s1|] eqn:E; [|discriminate]. inversion H; subst.
    apply cb_pc, cb_lists. eapply cb_on_ctx; [exact A| |exact E]. use_keeps kp_exitpop.
Qed.
Lemma cb_enter_clear s s' : CB s -> enter_clear s = Some s' -> CB s'.
Proof.
  intros A H. unfold enter_clear in H. destruct (clr s) as [|c q].
  - eapply cb_enter_exit; eauto.
  - destruct (on_ctx s c l_clearpop) as [s1|] eqn:E; [|discriminate]. inversion H; subst.
    apply cb_pc, cb_lists. eapply cb_on_ctx; [exact A| |exact E]. use_keeps kp_clearpop.
Qed.
Lemma cb_after_rel s k s' : CB s -> after_rel s k = Some s' -> CB s'.
Proof.
  intros A H. destruct k; simpl in H.
  - inversion H; subst. apply cb_pc; assumption.
  - eapply cb_enter_clear; eauto.
  - eapply cb_enter_exit; eauto.
  - inversion H; subst. apply cb_pc; assumption.
Qed.
Lemma cb_add s x : CB s -> k_ann x = 0 -> k_ncl x = 0 -> k_loc x <> LReg -> CB (add_ctx s x).
Proof.
  intros A E1 E2 E3 c z H. simpl in H. destruct (nth_snoc _ _ _ _ H) as [H1|[-> ->]].
  - apply (A c z H1).
  - simpl. unfold cbok. rewrite E1, E2. repeat split; auto. intros _ L. contradiction.
Qed.

(* the on_ctx steps of [step] do not touch the configuration *)
Lemma on_ctx_cbs s c f s1 : on_ctx s c f = Some s1 -> cbs s1 = cbs s.
Proof.
  unfold on_ctx. destruct (nth_error (ctxs s) c); [|discriminate]. destruct (f c0); [|discriminate].
  intros H. inversion H; subst. reflexivity.
Qed.

Lemma step_CB s e s' r : AllOk s -> CB s -> step s e = Some (s', r) -> CB s'.
Proof.
  intros AO A H. destruct e; unfold step, ret0 in H.
  - inversion H; subst. apply cb_add; auto. simpl. discriminate.
  - break H. apply cb_sig, cb_lists. eapply cb_on_ctx; [exact A| |eassumption]. use_keeps kp_hand.
  - break H. intros c x Hx. apply (A c x Hx).
  - inversion H; subst. intros c x Hx. apply (A c x Hx).
  - inversion H; subst. intros c x Hx. apply (A c x Hx).
  - break H. eapply cb_on_ctx; [exact A| |eassumption]. use_keeps kp_wshut.
  - eapply cb_on_ctx_r; [exact A| |exact H]. use_keeps_r kp_wrel.
  - break H. eapply cb_on_ctx; [exact A| |eassumption]. use_keeps kp_wrelease.
  - break H. eapply cb_on_ctx; [exact A| |eassumption]. use_keeps kp_wfree.
  - (* reg *) break H; apply cb_pc; try apply cb_lists;
      (eapply cb_on_ctx; [exact A| |eassumption]);
      first [use_keeps kp_reg_wake | use_keeps kp_reg_acc].
  - (* addctx: cb_add_ctx, if installed *)
    break H. apply cb_pc. eapply cb_on_ctx_cok; [exact AO|exact A| |eassumption].
    intros x y C Hx F. cbv beta in F. eapply cb_announce; [exact C|exact Hx|exact F|..].
    + destruct (f_addctx (cbs s)) eqn:Ef; [left; reflexivity|right; intros _; reflexivity].
    + intros Hb. apply andb_prop in Hb. destruct Hb as [_ Hb]. exact Hb.
    + intros Hb. rewrite Hb. apply orb_true_r.
  - break H. apply cb_pc; assumption.
  - break H. eapply cb_on_ctx; [exact A| |eassumption]. use_keeps kp_accepterr.
  - break H. apply cb_pc; assumption.
  - (* alloc *) break H. apply cb_pc. apply cb_add; auto. simpl. discriminate.
  - (* conn: cb_conn, if installed *)
    break H. apply cb_pc. eapply cb_on_ctx_cok; [exact AO|exact A| |eassumption].
    intros x y C Hx F. cbv beta in F. eapply cb_announce; [exact C|exact Hx|exact F|..].
    + destruct (f_conn (cbs s)) eqn:Ef; [left; reflexivity|right; intros _; reflexivity].
    + intros Hb. apply andb_prop in Hb. destruct Hb as [Hb _]. exact Hb.
    + intros Hb. rewrite Hb. reflexivity.
  - (* free *) break H.
    + apply cb_pc. eapply cb_on_ctx; [exact A| |eassumption]. use_keeps kp_free_acc.
    + eapply cb_after_rel; [|eassumption]. eapply cb_on_ctx; [exact A| |eassumption]. use_keeps kp_free_loop.
  - (* fdclose *) break H; try apply cb_pc;
      (eapply cb_on_ctx; [exact A| |eassumption]);
      first [use_keeps kp_fdclose_loop | use_keeps kp_fdclose_acc | use_keeps kp_fdclose_w].
  - break H. apply cb_pc; assumption.
  - break H. eapply cb_on_ctx; [exact A| |eassumption]. use_keeps kp_use.
  - (* rd *) break H. eapply cb_on_ctx; [exact A| |eassumption]. use_keeps kp_rd.
  - (* eof *) break H. eapply cb_on_ctx; [exact A| |eassumption]. use_keeps kp_eof.
  - (* err *) break H. eapply cb_on_ctx; [exact A| |eassumption]. use_keeps kp_eof.
  - break H. eapply cb_on_ctx; [exact A| |eassumption]. use_keeps kp_shut.
  - break H. eapply cb_on_ctx_r; [exact A| |exact H]. use_keeps_r kp_retain.
  - (* close: cb_close, if installed *)
    break H. apply cb_pc, cb_lists. eapply cb_on_ctx; [exact A| |eassumption].
    intros x y Hx Hy. cbv beta in Hy. eapply cb_close; [exact Hx|exact Hy|]. intros Hf. exact Hf.
  - (* release *) break H. apply cb_pc. eapply cb_on_ctx_r; [exact A| |eassumption]. use_keeps_r kp_release.
  - inversion H; subst; assumption.
  - break H. apply cb_pc; assumption.
  - break H. apply cb_pc; assumption.
  - (* tau release *) break H. eapply cb_after_rel; [|eassumption].
    eapply cb_on_ctx_r; [exact A| |eassumption]. use_keeps_r kp_release.
  - (* tau break *) break H. eapply cb_enter_clear; [|eassumption]. apply cb_lists; assumption.
  - break H. apply cb_pc; assumption.
  - break H. apply cb_pc; assumption.
  - break H. apply cb_sig; assumption.
  - inversion H; subst. apply cb_sig; assumption.
  - break H. apply cb_pc, cb_sig; assumption.
  - break H. assumption.
Qed.

(* ---- the configuration is constant ---- *)
Lemma on_ctx_r_cbs s c f s1 r : on_ctx_r s c f = Some (s1, r) -> cbs s1 = cbs s.
Proof.
  unfold on_ctx_r. destruct (nth_error (ctxs s) c); [|discriminate]. destruct (f c0) as [[y r']|]; [|discriminate].
  intros H. inversion H; subst. reflexivity.
Qed.
Lemma enter_exit_cbs s s' : enter_exit s = Some s' -> cbs s' = cbs s.
Proof.
  unfold enter_exit. destruct (queue s) as [|c q].
  - intros H. inversion H; subst. reflexivity.
  - destruct (on_ctx s c l_exitpop) as [s1|] eqn:E; [|discriminate]. intros H. inversion H; subst. simpl.
    apply (on_ctx_cbs _ _ _ _ E).
Qed.
Lemma enter_clear_cbs s s' : enter_clear s = Some s' -> cbs s' = cbs s.
Proof.
  unfold enter_clear. destruct (clr s) as [|c t].
  - apply enter_exit_cbs.
  - destruct (on_ctx s c l_clearpop) as [s1|] eqn:E; [|discriminate]. intros H. inversion H; subst. simpl.
    apply (on_ctx_cbs _ _ _ _ E).
Qed.
Lemma after_rel_cbs s k s' : after_rel s k = Some s' -> cbs s' = cbs s.
Proof.
  destruct k; simpl; intros H.
  - inversion H; subst. reflexivity.
  - apply enter_clear_cbs; assumption.
  - apply enter_exit_cbs; assumption.
  - inversion H; subst. reflexivity.
Qed.
Ltac cbs_tac :=
  repeat match goal with
         | H : on_ctx _ _ _ = Some _ |- _ => apply on_ctx_cbs in H
         | H : on_ctx_r _ _ _ = Some _ |- _ => apply on_ctx_r_cbs in H
         | H : after_rel _ _ = Some _ |- _ => apply after_rel_cbs in H
         | H : enter_clear _ = Some _ |- _ => apply enter_clear_cbs in H
         end;
  simpl in *; try congruence.
Lemma step_cbs s e s' r : step s e = Some (s', r) -> cbs s' = cbs s.
Proof.
  intros H. destruct e; unfold step, ret0 in H; try (inversion H; subst; reflexivity); break H; cbs_tac.
Qed.
Lemma run_cbs h : forall s, cbs (run s h) = cbs s.
Proof.
  induction h as [|e h IH]; intros s; simpl; [reflexivity|]. rewrite IH. unfold run1.
  destruct (step s e) as [[s' r]|] eqn:E; [apply (step_cbs _ _ _ _ E)|reflexivity].
Qed.

Lemma initf_CB f : CB (initf f).
Proof. intros c x H. destruct c; discriminate. Qed.
Lemma run_CB h : forall s, AllOk s -> CB s -> CB (run s h).
Proof.
  induction h as [|e h IH]; intros s AO A; simpl; [assumption|]. unfold run1.
  destruct (step s e) as [[s' r]|] eqn:E.
  - apply IH; [eapply step_allok; eauto|eapply step_CB; eauto].
  - apply IH; assumption.
Qed.

(* for every configuration [f] of installed callbacks and every history *)
Theorem callbacks_follow_configuration f h c x :
  let s := run (initf f) h in
  nth_error (ctxs s) c = Some x ->
  cbs s = f /\
  ((f_conn f || f_addctx f)%bool = false -> k_ann x = 0) /\
  (f_close f = false -> k_ncl x = 0) /\
  ((f_conn f && f_addctx f)%bool = true -> k_loc x = LReg -> k_ann x = 1).
Proof.
  intros s Hx. assert (E : cbs s = f) by (unfold s; rewrite run_cbs; reflexivity).
  split; [exact E|].
  pose proof (run_CB h (initf f) (initf_allok f) (initf_CB f) c x Hx) as (A & B & C).
  fold s in A, B, C. rewrite E in A, B, C. auto.
Qed.

(* non-vacuity: no callback installed at all - the accepted connection is registered, read (by the default
   drain loop of on_read), closed by the peer, released, closed and freed, and nothing was announced; with
   everything installed the same history announces once and counts one cb_close *)
Definition quiet_history : list ev :=
  [EHalloc KListen 0; EHand 0; ESigHand 0; ESigClear; ETauWakeBegin; EReg 0 true; EAddctx 0; ETauWakeUnlock; EWake;
   EAccepted; EAlloc 1; EReg 1 true; EConn 1 5;
   ESend 5 [1;2;3]%Z; EMsg 1 (* cb_msg: skipped when not installed *); ERd 1 [1;2;3]%Z; EPclose 5; ERdEof 1;
   EClose 1; ERelease 1; EFdclose 1; EFree 1].
Example callbacks_none_installed :
  let s := run (initf (mkcb false false false false false false)) quiet_history in
  pc s = PIdle /\
  map (fun x => (k_loc x, k_ann x, k_ncl x, k_nrel x, k_nfdc x, k_nfree x, k_got x)) (ctxs s)
    = [(LReg, 0, 0, 0, 0, 0, []); (LNone, 0, 0, 1, 1, 1, [1;2;3]%Z)].
Proof. vm_compute. split; reflexivity. Qed.
Example callbacks_all_installed :
  let s := run (initf all_cb) quiet_history in
  map (fun x => (k_loc x, k_ann x, k_ncl x, k_nrel x, k_nfdc x, k_nfree x)) (ctxs s)
    = [(LReg, 1, 0, 0, 0, 0); (LNone, 1, 1, 1, 1, 1)].
Proof. vm_compute. reflexivity. Qed.
