(* C15 — the wake-up protocol of the hand-over queue: no hand-over is ever stranded.

   muggle_socket_evloop_add_ctx (any thread):  lock handle->mtx; enqueue; unlock;  THEN
                                               muggle_evloop_wakeup (write to the event signal)
   *_handle_wakeup (loop thread):              muggle_ev_signal_clearup (read of the signal);  THEN
                                               cb_wake = on_wake: lock; drain the queue; unlock; user cb_wake

   Invariant [W], for every history (= every interleaving of the loop thread, the handing
   threads, workers and peers): a context that sits in the queue is covered by
     - its own hand-over still being before its muggle_evloop_wakeup ([sigdue]), or
     - the event signal being set ([wsig]: the back-end's wait will report it), or
     - a wake-up handling in progress that has cleared the signal and has not yet left on_wake's
       queue loop ([wake_due]), or
     - the loop having left its run loop: on_exit drains the queue ([after_break]).
   Hence the loop thread never blocks ([ESleep]) with a completed hand-over still queued.
   The order "clear-up first, callback afterwards" is what makes this true: [step_late] is the
   same system with the two halves of *_handle_wakeup swapped, and there the invariant fails. *)
From MV Require Import C04.Model C15.Model C15.ProofsCtx C15.ProofsSys C15.ProofsLeak.
Local Open Scope nat_scope.

Definition wake_due (p : spc) : bool :=
  match p with PWakeClr => true | _ => wake_locked p end.

Definition covered (s : sys) (c : nat) : Prop :=
  In c (sigdue s) \/ wsig s = true \/ wake_due (pc s) = true \/ after_break (pc s) = true.

Definition W (s : sys) : Prop := forall c, In c (queue s) -> covered s c.

(* ---- what the helpers of [step] do to the four components W looks at ---- *)
Lemma on_ctx_frame s c f s1 : on_ctx s c f = Some s1 ->
  queue s1 = queue s /\ wsig s1 = wsig s /\ sigdue s1 = sigdue s /\ pc s1 = pc s.
Proof.
  unfold on_ctx. destruct (nth_error (ctxs s) c); [|discriminate]. destruct (f c0); [|discriminate].
  intros H. inversion H; subst. simpl. auto.
Qed.
Lemma on_ctx_r_frame s c f s1 r : on_ctx_r s c f = Some (s1, r) ->
  queue s1 = queue s /\ wsig s1 = wsig s /\ sigdue s1 = sigdue s /\ pc s1 = pc s.
Proof.
  unfold on_ctx_r. destruct (nth_error (ctxs s) c); [|discriminate]. destruct (f c0) as [[y r']|]; [|discriminate].
  intros H. inversion H; subst. simpl. auto.
Qed.

Lemma enter_exit_frame s s' : enter_exit s = Some s' ->
  (forall d, In d (queue s') -> In d (queue s)) /\ wsig s' = wsig s /\ sigdue s' = sigdue s /\ after_break (pc s') = true.
Proof.
  unfold enter_exit. destruct (queue s) as [|c q] eqn:Eq.
  - intros H. inversion H; subst. simpl. rewrite Eq. auto.
  - destruct (on_ctx s c l_exitpop) as [s1|] eqn:E; [|discriminate]. intros H. inversion H; subst. simpl.
    destruct (on_ctx_frame _ _ _ _ E) as (Q & S1 & S2 & _). repeat split; auto.
Qed.
Lemma enter_clear_frame s s' : enter_clear s = Some s' ->
  (forall d, In d (queue s') -> In d (queue s)) /\ wsig s' = wsig s /\ sigdue s' = sigdue s /\ after_break (pc s') = true.
Proof.
  unfold enter_clear. destruct (clr s) as [|c t].
  - apply enter_exit_frame.
  - destruct (on_ctx s c l_clearpop) as [s1|] eqn:E; [|discriminate]. intros H. inversion H; subst. simpl.
    destruct (on_ctx_frame _ _ _ _ E) as (Q & S1 & S2 & _). rewrite Q. repeat split; auto.
Qed.
Lemma after_rel_frame s k s' : after_rel s k = Some s' ->
  (forall d, In d (queue s') -> In d (queue s)) /\ wsig s' = wsig s /\ sigdue s' = sigdue s /\
  match k with
  | KIdle => pc s' = PIdle
  | KWake => pc s' = PWake
  | KClear | KExit => after_break (pc s') = true
  end.
Proof.
  destruct k; simpl; intros H.
  - inversion H; subst. simpl. auto.
  - apply enter_clear_frame; assumption.
  - apply enter_exit_frame; assumption.
  - inversion H; subst. simpl. auto.
Qed.

(* a step that keeps the queue inside the old one, does not lose a pending signal or a pending
   signaller, and moves the program counter only between positions of the same coverage *)
Lemma W_frame s s' :
  W s ->
  (forall d, In d (queue s') -> In d (queue s)) ->
  (forall d, In d (sigdue s) -> In d (sigdue s')) ->
  (wsig s = true -> wsig s' = true) ->
  (wake_due (pc s) = true -> wake_due (pc s') = true \/ after_break (pc s') = true \/ queue s' = []) ->
  (after_break (pc s) = true -> after_break (pc s') = true) ->
  W s'.
Proof.
  intros HW Q D S P A c Hc. destruct (HW c (Q c Hc)) as [H|[H|[H|H]]].
  - left. auto.
  - right. left. auto.
  - destruct (P H) as [H1|[H1|H1]].
    + right. right. left. exact H1.
    + right. right. right. exact H1.
    + rewrite H1 in Hc. destruct Hc.
  - right. right. right. auto.
Qed.

(* the common case: only a context record (and possibly the program counter) changes *)
Lemma W_pc s s' :
  W s -> queue s' = queue s -> wsig s' = wsig s -> sigdue s' = sigdue s ->
  (wake_due (pc s) = true -> wake_due (pc s') = true \/ after_break (pc s') = true \/ queue s' = []) ->
  (after_break (pc s) = true -> after_break (pc s') = true) ->
  W s'.
Proof.
  intros HW Q S D P A. eapply W_frame; eauto; intros; congruence.
Qed.

Lemma in_remove_other d c l : In d (remove_nat c l) -> In d l.
Proof.
  induction l as [|a l IH]; simpl; [auto|]. destruct (Nat.eqb a c); [auto|]. intros [->|H]; auto.
Qed.

Ltac frames :=
  repeat match goal with
         | H : on_ctx _ _ _ = Some _ |- _ => apply on_ctx_frame in H; destruct H as (? & ? & ? & ?)
         | H : on_ctx_r _ _ _ = Some _ |- _ => apply on_ctx_r_frame in H; destruct H as (? & ? & ? & ?)
         | H : after_rel _ _ = Some _ |- _ => apply after_rel_frame in H; destruct H as (? & ? & ? & ?)
         | H : enter_clear _ = Some _ |- _ => apply enter_clear_frame in H; destruct H as (? & ? & ? & ?)
         end.
(* goals of W_pc / W_frame after [frames]: rewrite the frame equations, compute on the pc *)
Ltac pcs :=
  simpl in *; intros;
  repeat match goal with
         | H : pc _ = _ |- _ => rewrite H in *
         | H : queue _ = _ |- _ => rewrite H in *
         | H : wsig _ = _ |- _ => rewrite H in *
         | H : sigdue _ = _ |- _ => rewrite H in *
         end;
  simpl in *; try discriminate; try congruence; auto.

(* the program counter of the state in which a guarded event fired *)
Ltac pc_of s := destruct (pc s) eqn:?; simpl in *; try discriminate.

Lemma step_W s e s' r : W s -> step s e = Some (s', r) -> W s'.
Proof.
  intros HW H. destruct e; unfold step, ret0 in H.
  - (* halloc *) inversion H; subst. eapply W_pc; eauto.
  - (* hand: the context enters the queue together with its pending signaller *)
    break H. frames. intros d Hd. simpl in Hd. rewrite H in Hd. apply in_app_or in Hd. destruct Hd as [Hd|[<-|[]]].
    + destruct (HW d Hd) as [A|[A|[A|A]]]; unfold covered; simpl.
      * left. rewrite H1. apply in_or_app. auto.
      * right. left. congruence.
      * right. right. left. congruence.
      * right. right. right. congruence.
    + left. simpl. apply in_or_app. right. left. reflexivity.
  - break H. eapply W_pc; eauto.
  - inversion H; subst. eapply W_pc; eauto.
  - inversion H; subst. eapply W_pc; eauto.
  - break H. frames. eapply W_pc; eauto; pcs.
  - frames. eapply W_pc; eauto; pcs.
  - break H. frames. eapply W_pc; eauto; pcs.
  - break H. frames. eapply W_pc; eauto; pcs.
  - (* reg: on_wake takes the head of the queue (still inside its loop) / the accept path *)
    break H; frames; (eapply W_frame; [exact HW|..]; pcs).
  - (* addctx *) break H. frames. pc_of s. eapply W_pc; eauto; pcs.
  - break H. pc_of s. eapply W_pc; eauto; pcs.
  - break H. frames. eapply W_pc; eauto; pcs.
  - break H. pc_of s. eapply W_pc; eauto; pcs.
  - (* alloc *) break H. apply andb_prop in Heqb. destruct Heqb as [Hb _]. pc_of s. eapply W_pc; eauto; pcs.
  - (* conn *) break H. frames. pc_of s. eapply W_pc; eauto; pcs.
  - (* free: release_ctx returns to its caller / the accept path goes on *)
    break H; frames; try (match goal with k0 : cont |- _ => destruct k0 end);
      (eapply W_frame; [exact HW|..]; pcs).
  - (* fdclose *) break H; frames; (eapply W_frame; [exact HW|..]; pcs).
  - break H. pc_of s. eapply W_pc; eauto; pcs.
  - break H. frames. eapply W_pc; eauto; pcs.
  - break H. frames. eapply W_pc; eauto; pcs.
  - break H. frames. eapply W_pc; eauto; pcs.
  - break H. frames. eapply W_pc; eauto; pcs.
  - break H. frames. eapply W_pc; eauto; pcs.
  - break H. frames. eapply W_pc; eauto; pcs.
  - (* close *) break H. frames. pc_of s. eapply W_pc; eauto; pcs.
  - (* release *) break H. frames. try (match goal with k0 : cont |- _ => destruct k0 end);
      (eapply W_frame; [exact HW|..]; pcs).
  - inversion H; subst. exact HW.
  - break H. pc_of s. eapply W_pc; eauto; pcs.
  - (* cb_wake *) break H. pc_of s. eapply W_pc; eauto; pcs.
  - (* tau release *) break H. frames.
    match goal with k0 : cont |- _ => destruct k0 end; (eapply W_frame; [exact HW|..]; pcs).
  - (* tau break *) break H. frames. eapply W_frame; [exact HW|..]; pcs.
  - (* wake begin *) break H. pc_of s. eapply W_pc; eauto; pcs.
  - (* wake unlock: only with an empty queue *) break H. intros d Hd. simpl in Hd. rewrite Heql in Hd. destruct Hd.
  - (* signal by a hand-over *) break H. intros d Hd. right. left. reflexivity.
  - (* signal by anyone *) inversion H; subst. intros d Hd. right. left. reflexivity.
  - (* clear-up: on_wake is due and has not looked at the queue yet *)
    break H. intros d Hd. right. right. left. reflexivity.
  - (* sleep *) break H. exact HW.
Qed.

Lemma initf_W f : W (initf f).
Proof. intros c H. destruct H. Qed.
Lemma init_W : W init.
Proof. apply initf_W. Qed.
Lemma run_W h : forall s, W s -> W (run s h).
Proof.
  induction h as [|e h IH]; intros s A; simpl; [assumption|]. apply IH. unfold run1.
  destruct (step s e) as [[s' r]|] eqn:E; [eapply step_W; eauto|assumption].
Qed.

(* ------------------------------------------------------------------ *)
(* the theorems                                                        *)

(* for every history: a queued context has its signaller still in flight, or the signal is set,
   or a wake-up handling that has not yet drained the queue is in progress, or the loop has left
   its run loop (on_exit takes the queue) *)
Theorem queued_implies_wake_pending f h c :
  let s := run (initf f) h in
  In c (queue s) ->
  In c (sigdue s) \/ wsig s = true \/ wake_due (pc s) = true \/ after_break (pc s) = true.
Proof. intros s Hc. exact (run_W h (initf f) (initf_W f) c Hc). Qed.

(* ... in terms of the contexts' own positions: the same for every context whose position is
   "in the hand-over queue" *)
Theorem queued_position_implies_wake_pending f h c x :
  let s := run (initf f) h in
  nth_error (ctxs s) c = Some x -> k_loc x = LQueue ->
  In c (sigdue s) \/ wsig s = true \/ wake_due (pc s) = true \/ after_break (pc s) = true.
Proof.
  intros s Hx Hl. destruct (run_J h (initf f) (initf_J f)) as [HJ _]. destruct (HJ c x Hx) as (A & _ & _).
  apply (queued_implies_wake_pending f h c). apply A. exact Hl.
Qed.

(* the loop thread goes to sleep (its back-end's wait finds nothing ready) only when every context
   still queued belongs to a hand-over that has not yet written its wake-up: a context whose
   muggle_socket_evloop_add_ctx has returned is never left queued by a sleeping loop *)
Theorem loop_sleeps_only_without_completed_handover f h s' r :
  step (run (initf f) h) ESleep = Some (s', r) ->
  s' = run (initf f) h /\
  (forall c, In c (queue s') -> In c (sigdue s')) /\
  (forall c x, nth_error (ctxs s') c = Some x -> k_loc x = LQueue -> In c (sigdue s')).
Proof.
  intros H. set (s := run (initf f) h) in *. unfold step in H.
  destruct (spc_eqb (pc s) PIdle) eqn:Ep; [|discriminate]. destruct (wsig s) eqn:Es; [discriminate|].
  simpl in H. inversion H; subst s' r; clear H.
  assert (Hpc : pc s = PIdle) by (destruct (pc s); simpl in Ep; try discriminate; reflexivity).
  assert (Q : forall c, In c (queue s) -> In c (sigdue s)).
  { intros c Hc. destruct (queued_implies_wake_pending f h c Hc) as [A|[A|[A|A]]]; fold s in A.
    - exact A.
    - rewrite Es in A. discriminate.
    - rewrite Hpc in A. discriminate.
    - rewrite Hpc in A. discriminate. }
  split; [reflexivity|]. split; [exact Q|].
  intros c x Hx Hl. apply Q. destruct (run_J h (initf f) (initf_J f)) as [HJ _]. fold s in HJ.
  destruct (HJ c x Hx) as (A & _ & _). apply A. exact Hl.
Qed.

(* the wake-up handling can start only from the clear-up, and the clear-up leaves the signal
   unset with on_wake still to come: whatever signals afterwards is seen by the next wait *)
Theorem wake_handling_clears_signal_first s :
  (forall s' r, step s ETauWakeBegin = Some (s', r) -> pc s = PWakeClr /\ pc s' = PWake) /\
  (forall s' r, step s ESigClear = Some (s', r) -> pc s = PIdle /\ pc s' = PWakeClr /\ wsig s' = false /\ queue s' = queue s).
Proof.
  split; intros s' r H; unfold step in H.
  - destruct (pc s) eqn:E; simpl in H; try discriminate. inversion H; subst. simpl. auto.
  - destruct (pc s) eqn:E; simpl in H; try discriminate. inversion H; subst. simpl. auto.
Qed.

(* non-vacuity: each way of being covered occurs, and a sleep with an in-flight hand-over occurs *)
Example wake_cover_nonvacuous :
  let s1 := run init [EHalloc KConn 1; EHand 0] in                                   (* signaller in flight *)
  let s2 := run init [EHalloc KConn 1; EHand 0; ESigHand 0] in                       (* signal set *)
  let s3 := run init [EHalloc KConn 1; EHand 0; ESigHand 0; ESigClear] in            (* cleared, on_wake due *)
  let s4 := run init [EHalloc KConn 1; EHalloc KConn 2; EHand 0; EHand 1; ESigHand 0; ESigClear; ETauWakeBegin;
                      EReg 0 true] in                                               (* draining, one still queued *)
  let s5 := run init [EHalloc KConn 1; EHalloc KConn 2; EHand 0; ESigHand 0; EExitreq; ESigw; ETauBreak] in  (* leaving *)
  (queue s1 = [0] /\ sigdue s1 = [0] /\ wsig s1 = false /\ exists t, step s1 ESleep = Some (t, 0%Z)) /\
  (queue s2 = [0] /\ sigdue s2 = [] /\ wsig s2 = true /\ step s2 ESleep = None) /\
  (queue s3 = [0] /\ wsig s3 = false /\ pc s3 = PWakeClr /\ step s3 ESleep = None) /\
  (queue s4 = [1] /\ wsig s4 = false /\ pc s4 = PWakeReg 0) /\
  (queue s5 = [] /\ pc s5 = PRel 0 KExit).
Proof. vm_compute. repeat split; try reflexivity. eexists; reflexivity. Qed.

(* a hand-over that lands at every point of a wake-up handling is registered by this handling or
   leaves the signal set for the next one *)
Example handover_during_wake_handling :
  let pre := [EHalloc KConn 1; EHalloc KConn 2; EHand 0; ESigHand 0] in
  let body := [ESigClear; ETauWakeBegin; EReg 0 true; EAddctx 0; EReg 1 true; EAddctx 1; ETauWakeUnlock; EWake] in
  let late := [EHand 1; ESigHand 1] in     (* not enabled while on_wake holds the mutex: then it does not happen *)
  forall k, k <= 8 ->
    let s := run init (pre ++ firstn k body ++ late ++ skipn k body) in
    pc s = PIdle /\ (queue s = [] \/ (queue s = [1] /\ wsig s = true)).
Proof.
  intros pre body late k Hk.
  destruct k as [|[|[|[|[|[|[|[|[|k]]]]]]]]]; [vm_compute; split; [reflexivity|auto]..|lia].
Qed.

(* ------------------------------------------------------------------ *)
(* the variant with the two halves of *_handle_wakeup swapped           *)

(* cb_wake (= on_wake) first, muggle_ev_signal_clearup afterwards; everything else unchanged *)
Definition step_late (s : sys) (e : ev) : option (sys * Z) :=
  match e with
  | ETauWakeBegin => if spc_eqb (pc s) PIdle then Some (with_pc s PWake, 0%Z) else None
  | EWake => if spc_eqb (pc s) PWakeCb then Some (with_pc s PWakeClr, 0%Z) else None
  | ESigClear => if spc_eqb (pc s) PWakeClr then Some (with_pc (with_sig s false (sigdue s)) PIdle, 0%Z) else None
  | _ => step s e
  end.
Definition run_late (s : sys) (h : list ev) : sys :=
  fold_left (fun s e => match step_late s e with Some (s', _) => s' | None => s end) h s.

(* ... loses a hand-over: a context enqueued and signalled after on_wake has drained the queue and
   before the clear-up is still queued, its signaller is done, the signal is unset, no wake-up
   handling is in progress, and the loop thread goes to sleep *)
Theorem clearup_after_wake_callback_strands_handover :
  exists h c,
    let s := run_late init h in
    In c (queue s) /\ ~ In c (sigdue s) /\ wsig s = false /\ wake_due (pc s) = false /\ after_break (pc s) = false /\
    (exists t, step_late s ESleep = Some (t, 0%Z)).
Proof.
  exists [EHalloc KConn 1; EHalloc KConn 2; EHand 0; ESigHand 0;
          ETauWakeBegin; EReg 0 true; EAddctx 0; ETauWakeUnlock;
          EHand 1; ESigHand 1;          (* lands between the drain and the clear-up *)
          EWake; ESigClear], 1.
  vm_compute. repeat split; try reflexivity.
  - left. reflexivity.
  - intros [].
  - eexists. reflexivity.
Qed.
