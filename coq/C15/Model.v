(* C15 — socket contexts on the socket event-loop handle, and the event-loop pipe.
   Executable model (definitions only) transcribing
     muggle/c/net/socket_evloop_handle.c  (on_read accept loop with its three failure
        branches, release_ctx, on_close, on_wake, on_clear, on_exit, add_ctx hand-over),
     muggle/c/event/event_context.c       (CLOSED flag on read 0 / error / shutdown / close),
     muggle/c/event/event_loop.c          (run: back-end loop, then cb_clear over ctx_list,
        then cb_exit),
     muggle/c/net/socket_evloop_pipe.c    (write under the spinlock, reassembling read).
   The reference counter is the sequential saturating counter [rspec] of C04/Model.v
   (C04's refcnt_linearizable justifies treating each retain / release as one atomic step).

   One event of the history = one line of the implementation's callback log
   (harness/drivers/c15_driver.c), plus two silent steps the log cannot show:
   [ETauRel] (release_ctx whose counter result is not 0) and [ETauBreak] (the back-end's
   run loop is left: exit requested by any thread, or a back-end error).

   on_wake is modelled in the REPAIRED form (fixes/C14-add-ctx-failure.patch): a failed
   muggle_evloop_add_ctx releases the context and does not announce it.

   The wake-up protocol between muggle_socket_evloop_add_ctx (enqueue under handle->mtx, THEN
   muggle_evloop_wakeup = write to the event signal) and the back-ends' *_handle_wakeup
   (muggle_ev_signal_clearup = read of the event signal, THEN cb_wake = on_wake draining the
   queue under handle->mtx) is part of the system: [wsig] is the event signal (eventfd counter
   > 0), [sigdue] the hand-overs that have enqueued and not yet signalled, [ESigClear] /
   [ETauWakeBegin] the two halves of *_handle_wakeup in the order of the code, [ESleep] the
   back-end's wait finding nothing ready. *)
From MV Require Import C04.Model.
Local Open Scope Z_scope.

(* ------------------------------------------------------------------ *)
(* 1. one socket context                                               *)

Inductive kind := KListen | KConn.

(* what the loop side (handle queue, ctx_list, a running handle function) does with the
   context; every position that owns one reference has token 1 *)
Inductive loc :=
  | LUser      (* allocated by the user, not yet handed over                      *)
  | LQueue     (* in handle->ctx_queue                                            *)
  | LRegNew    (* muggle_evloop_add_ctx succeeded, cb_conn / cb_add_ctx due        *)
  | LReg       (* in evloop->ctx_list, announced                                  *)
  | LRelDue    (* release_ctx entered, muggle_socket_ctx_ref_release not yet done *)
  | LAccNew    (* accept path: cb_alloc + ctx_init done, add_ctx not yet called   *)
  | LAccFail   (* accept path: add_ctx failed, cb_free due                        *)
  | LAccClose  (* accept path: freed, muggle_socket_close(fd) due                 *)
  | LCloseDue  (* release_ctx: cb_release done, muggle_socket_ctx_close due        *)
  | LFreeDue   (* release_ctx: closed, cb_free due                                *)
  | LNone.     (* the loop side holds nothing                                     *)

Definition tok (l : loc) : Z :=
  match l with
  | LUser | LQueue | LRegNew | LReg | LRelDue | LAccNew | LAccFail => 1
  | _ => 0
  end.

Record ctx := mkctx {
  k_kind : kind;
  k_conn : nat;         (* byte stream it is connected to (unused for a listener) *)
  k_ref : Z;            (* muggle_event_context_t.ref_cnt                         *)
  k_loc : loc;
  k_flag : bool;        (* MUGGLE_EV_CTX_FLAG_CLOSED                              *)
  k_fd : bool;          (* descriptor open                                        *)
  k_freed : bool;       (* memory given back (cb_free / user free)                *)
  k_work : nat;         (* references held by worker threads                      *)
  k_wfin : nat;         (* worker-side release duty after a release that returned 0:
                           1 user-data release due, 2 close due, 3 free due, 0 none *)
  k_got : list Z;       (* ghost: bytes muggle_socket_ctx_read gave to cb_msg      *)
  k_eof : bool;         (* ghost: read returned 0 at the end of the peer's stream  *)
  k_pub : bool;         (* ghost: visible to anyone but the accept path            *)
  k_ann : nat;          (* ghost counters: announcements (cb_conn / cb_add_ctx),   *)
  k_ncl : nat;          (*   cb_close,                                             *)
  k_nrel : nat;         (*   release (cb_release / worker-side release duty),      *)
  k_nfdc : nat;         (*   descriptor closes,                                    *)
  k_nfree : nat;        (*   frees,                                                *)
  k_uar : nat;          (*   uses after release or free                            *)
}.

Definition new_ctx (kd : kind) (n : nat) (l : loc) (pub : bool) : ctx :=
  mkctx kd n 1 l false true false 0 0 [] false pub 0 0 0 0 0 0.

(* field updates *)
Definition w_loc (x : ctx) (l : loc) : ctx :=
  mkctx (k_kind x) (k_conn x) (k_ref x) l (k_flag x) (k_fd x) (k_freed x) (k_work x) (k_wfin x)
        (k_got x) (k_eof x) (k_pub x) (k_ann x) (k_ncl x) (k_nrel x) (k_nfdc x) (k_nfree x) (k_uar x).
Definition w_ref (x : ctx) (v : Z) : ctx :=
  mkctx (k_kind x) (k_conn x) v (k_loc x) (k_flag x) (k_fd x) (k_freed x) (k_work x) (k_wfin x)
        (k_got x) (k_eof x) (k_pub x) (k_ann x) (k_ncl x) (k_nrel x) (k_nfdc x) (k_nfree x) (k_uar x).
Definition w_flag (x : ctx) (b : bool) : ctx :=
  mkctx (k_kind x) (k_conn x) (k_ref x) (k_loc x) b (k_fd x) (k_freed x) (k_work x) (k_wfin x)
        (k_got x) (k_eof x) (k_pub x) (k_ann x) (k_ncl x) (k_nrel x) (k_nfdc x) (k_nfree x) (k_uar x).
Definition w_work (x : ctx) (n : nat) : ctx :=
  mkctx (k_kind x) (k_conn x) (k_ref x) (k_loc x) (k_flag x) (k_fd x) (k_freed x) n (k_wfin x)
        (k_got x) (k_eof x) (k_pub x) (k_ann x) (k_ncl x) (k_nrel x) (k_nfdc x) (k_nfree x) (k_uar x).
Definition w_wfin (x : ctx) (n : nat) : ctx :=
  mkctx (k_kind x) (k_conn x) (k_ref x) (k_loc x) (k_flag x) (k_fd x) (k_freed x) (k_work x) n
        (k_got x) (k_eof x) (k_pub x) (k_ann x) (k_ncl x) (k_nrel x) (k_nfdc x) (k_nfree x) (k_uar x).
Definition w_got (x : ctx) (g : list Z) (e : bool) : ctx :=
  mkctx (k_kind x) (k_conn x) (k_ref x) (k_loc x) (k_flag x) (k_fd x) (k_freed x) (k_work x) (k_wfin x)
        g e (k_pub x) (k_ann x) (k_ncl x) (k_nrel x) (k_nfdc x) (k_nfree x) (k_uar x).
(* [cb]: the user callback of this point is installed (otherwise the handle does the same, silently) *)
Definition w_announce (x : ctx) (n : nat) (cb : bool) : ctx :=
  mkctx (k_kind x) n (k_ref x) LReg (k_flag x) (k_fd x) (k_freed x) (k_work x) (k_wfin x)
        (k_got x) (k_eof x) true (if cb then S (k_ann x) else k_ann x) (k_ncl x) (k_nrel x) (k_nfdc x) (k_nfree x) (k_uar x).
Definition w_closecb (x : ctx) (cb : bool) : ctx :=
  mkctx (k_kind x) (k_conn x) (k_ref x) LRelDue (k_flag x) (k_fd x) (k_freed x) (k_work x) (k_wfin x)
        (k_got x) (k_eof x) (k_pub x) (k_ann x) (if cb then S (k_ncl x) else k_ncl x) (k_nrel x) (k_nfdc x) (k_nfree x) (k_uar x).
Definition w_relcb (x : ctx) : ctx :=     (* the release callback / duty ran *)
  mkctx (k_kind x) (k_conn x) (k_ref x) (k_loc x) (k_flag x) (k_fd x) (k_freed x) (k_work x) (k_wfin x)
        (k_got x) (k_eof x) (k_pub x) (k_ann x) (k_ncl x) (S (k_nrel x)) (k_nfdc x) (k_nfree x) (k_uar x).
Definition w_fdclose (x : ctx) : ctx :=   (* muggle_ev_ctx_close: flag, close(fd) *)
  mkctx (k_kind x) (k_conn x) (k_ref x) (k_loc x) true false (k_freed x) (k_work x) (k_wfin x)
        (k_got x) (k_eof x) (k_pub x) (k_ann x) (k_ncl x) (k_nrel x) (S (k_nfdc x)) (k_nfree x) (k_uar x).
Definition w_free (x : ctx) : ctx :=
  mkctx (k_kind x) (k_conn x) (k_ref x) (k_loc x) (k_flag x) (k_fd x) true (k_work x) (k_wfin x)
        (k_got x) (k_eof x) (k_pub x) (k_ann x) (k_ncl x) (k_nrel x) (k_nfdc x) (S (k_nfree x)) (k_uar x).
(* ghost monitor: the context is dereferenced now *)
Definition touch (x : ctx) : ctx :=
  if (Nat.ltb 0 (k_nrel x) || k_freed x)%bool then
    mkctx (k_kind x) (k_conn x) (k_ref x) (k_loc x) (k_flag x) (k_fd x) (k_freed x) (k_work x) (k_wfin x)
          (k_got x) (k_eof x) (k_pub x) (k_ann x) (k_ncl x) (k_nrel x) (k_nfdc x) (k_nfree x) (S (k_uar x))
  else x.

Definition loc_eqb (a b : loc) : bool :=
  match a, b with
  | LUser, LUser | LQueue, LQueue | LRegNew, LRegNew | LReg, LReg | LRelDue, LRelDue | LAccNew, LAccNew
  | LAccFail, LAccFail | LAccClose, LAccClose | LCloseDue, LCloseDue | LFreeDue, LFreeDue | LNone, LNone => true
  | _, _ => false
  end.

(* local transitions: what each piece of code does to the one context it is given.
   Guards look only at what the code itself looks at (where the pointer came from). *)

(* muggle_socket_evloop_add_ctx: enqueue under the handle's mutex *)
Definition l_hand (x : ctx) : option ctx :=
  if loc_eqb (k_loc x) LUser then Some (w_loc (touch x) LQueue) else None.
(* muggle_evloop_add_ctx result, on_wake (from the queue) and accept path *)
Definition l_reg_wake (x : ctx) (ok : bool) : option ctx :=
  if loc_eqb (k_loc x) LQueue then Some (w_loc (touch x) (if ok then LRegNew else LRelDue)) else None.
Definition l_reg_acc (x : ctx) (ok : bool) : option ctx :=
  if loc_eqb (k_loc x) LAccNew then Some (w_loc (touch x) (if ok then LRegNew else LAccFail)) else None.
(* cb_conn / cb_add_ctx *)
Definition l_announce (x : ctx) (n : nat) (cb : bool) : option ctx :=
  if loc_eqb (k_loc x) LRegNew then Some (w_announce (touch x) n cb) else None.
(* cb_msg entry; also the other loop-thread uses inside callbacks *)
Definition l_use (x : ctx) : option ctx :=
  if loc_eqb (k_loc x) LReg then Some (touch x) else None.
(* muggle_socket_ctx_read returning n > 0 bytes *)
Definition l_rd (x : ctx) (bs : list Z) : option ctx :=
  if loc_eqb (k_loc x) LReg then Some (w_got (touch x) (k_got x ++ bs) (k_eof x)) else None.
(* read returning 0 (full: at the real end of the peer's stream) or an error: CLOSED flag *)
Definition l_eof (x : ctx) (full : bool) : option ctx :=
  if loc_eqb (k_loc x) LReg then Some (w_flag (w_got (touch x) (k_got x) (k_eof x || full)) true) else None.
(* muggle_socket_ctx_shutdown from a callback *)
Definition l_shut (x : ctx) : option ctx :=
  if loc_eqb (k_loc x) LReg then Some (w_flag (touch x) true) else None.
(* accept() failed hard on this listener *)
Definition l_accepterr (x : ctx) : option ctx :=
  match k_kind x with
  | KListen => if loc_eqb (k_loc x) LReg then Some (w_flag (touch x) true) else None
  | KConn => None
  end.
(* back-end sees CLOSED (or HUP/ERR): cb_close, then release_ctx is entered *)
Definition l_close (x : ctx) (hup : bool) (cb : bool) : option ctx :=
  if (loc_eqb (k_loc x) LReg && (k_flag x || hup))%bool then Some (w_closecb (touch x) cb) else None.
(* on_clear for a node of ctx_list / on_exit for the queue head: release_ctx is entered *)
Definition l_clearpop (x : ctx) : option ctx :=
  if loc_eqb (k_loc x) LReg then Some (w_loc (touch x) LRelDue) else None.
Definition l_exitpop (x : ctx) : option ctx :=
  if loc_eqb (k_loc x) LQueue then Some (w_loc (touch x) LRelDue) else None.
(* release_ctx: muggle_socket_ctx_ref_release(ctx) == 0 ?  result returned for the log *)
Definition l_release (x : ctx) : option (ctx * Z) :=
  if loc_eqb (k_loc x) LRelDue then
    let (v, r) := rspec (k_ref x) Release in
    let y := w_ref (touch x) v in
    Some (if r =? 0 then w_relcb (w_loc y LCloseDue) else w_loc y LNone, r)
  else None.
Definition l_fdclose_loop (x : ctx) : option ctx :=
  if loc_eqb (k_loc x) LCloseDue then Some (w_loc (w_fdclose x) LFreeDue) else None.
Definition l_free_loop (x : ctx) : option ctx :=
  if loc_eqb (k_loc x) LFreeDue then Some (w_loc (w_free x) LNone) else None.
(* accept path, add_ctx failed: cb_free(new_ctx); muggle_socket_close(fd) *)
Definition l_free_acc (x : ctx) : option ctx :=
  if loc_eqb (k_loc x) LAccFail then Some (w_loc (w_free x) LAccClose) else None.
Definition l_fdclose_acc (x : ctx) : option ctx :=
  if loc_eqb (k_loc x) LAccClose then
    Some (mkctx (k_kind x) (k_conn x) (k_ref x) LNone (k_flag x) false (k_freed x) (k_work x) (k_wfin x)
                (k_got x) (k_eof x) (k_pub x) (k_ann x) (k_ncl x) (k_nrel x) (S (k_nfdc x)) (k_nfree x) (k_uar x))
  else None.
(* a callback retains the context for a worker thread *)
Definition l_retain (x : ctx) : option (ctx * Z) :=
  if loc_eqb (k_loc x) LReg then
    let (v, r) := rspec (k_ref x) Retain in
    let y := w_ref (touch x) v in
    Some (if 0 <? r then w_work y (S (k_work x)) else y, r)
  else None.
(* a worker that holds a reference *)
Definition l_wshut (x : ctx) : option ctx :=
  match k_work x with O => None | S _ => Some (w_flag (touch x) true) end.
Definition l_wrel (x : ctx) : option (ctx * Z) :=
  match k_work x with
  | O => None
  | S m =>
    let (v, r) := rspec (k_ref x) Release in
    let y := w_work (w_ref (touch x) v) m in
    Some (if r =? 0 then w_wfin y 1 else y, r)
  end.
Definition l_wrelease (x : ctx) : option ctx :=
  if Nat.eqb (k_wfin x) 1 then Some (w_wfin (w_relcb x) 2) else None.
Definition l_fdclose_w (x : ctx) : option ctx :=
  if Nat.eqb (k_wfin x) 2 then Some (w_wfin (w_fdclose x) 3) else None.
Definition l_wfree (x : ctx) : option ctx :=
  if Nat.eqb (k_wfin x) 3 then Some (w_wfin (w_free x) 0) else None.

(* ------------------------------------------------------------------ *)
(* 2. the system                                                       *)

Inductive cont := KIdle | KClear | KExit | KWake.   (* who called release_ctx *)

(* program counter of the loop thread *)
Inductive spc :=
  | PIdle                          (* in the back-end's loop, between callbacks / in a user callback *)
  | PAccFd                         (* on_read, listener: accept() returned a descriptor *)
  | PAccAlloc (c : nat)            (*   cb_alloc + ctx_init done *)
  | PAccReg (c : nat)              (*   add_ctx ok, cb_conn due *)
  | PAccFree (c : nat)             (*   add_ctx failed, cb_free due *)
  | PAccClose (c : nat)            (*   freed, close(fd) due *)
  | PAccNoAlloc                    (*   cb_alloc returned NULL, close(fd) due *)
  | PWakeClr                       (* *_handle_wakeup: muggle_ev_signal_clearup done, cb_wake = on_wake due (mutex not taken yet) *)
  | PWake                          (* on_wake: handle->mtx held, at the head of the while loop over ctx_queue *)
  | PWakeReg (c : nat)             (* on_wake: add_ctx ok, cb_add_ctx due *)
  | PWakeCb                        (* on_wake: queue drained, mutex released, cb_wake due *)
  | PRel (c : nat) (k : cont)      (* release_ctx(c): counter release due *)
  | PRelClose (c : nat) (k : cont) (*   cb_release done, close due *)
  | PRelFree (c : nat) (k : cont)  (*   closed, cb_free due *)
  | PFin                           (* on_exit drained the queue; muggle_evloop_run returns *)
  | PDone.

(* Which optional callbacks of muggle_socket_evloop_handle_t the application has installed.  The handle does
   the same thing at every point whether or not the callback is there (if (handle->cb_x) handle->cb_x(...));
   what differs is what the application is told: [k_ann] counts cb_conn / cb_add_ctx invocations, [k_ncl]
   cb_close invocations, cb_msg is entered only when installed (otherwise on_read's default loop reads and
   discards: [k_got] are the bytes the loop side has read, handed to cb_msg when it exists); the release
   point ([k_nrel], cb_release if installed) and the end of on_wake (cb_wake if installed) are points of the
   handle's own code.  cb_alloc / cb_free always exist (defaults installed by handle_init). *)
Record cbflags := mkcb { f_conn : bool; f_msg : bool; f_close : bool; f_release : bool; f_addctx : bool; f_wake : bool }.
Definition all_cb : cbflags := mkcb true true true true true true.

Record sys := mksys {
  ctxs : list ctx;            (* by id = allocation order *)
  sent : nat -> list Z;       (* per connection: bytes the peer has sent *)
  pclosed : nat -> bool;      (* per connection: the peer closed *)
  preset : nat -> bool;       (* per connection: the peer reset it *)
  queue : list nat;           (* handle->ctx_queue *)
  reg : list nat;             (* evloop->ctx_list *)
  clr : list nat;             (* nodes of ctx_list on_clear has still to visit *)
  pc : spc;
  wsig : bool;                 (* evloop->ev_signal is readable (eventfd counter > 0): a wake-up is pending *)
  sigdue : list nat;          (* hand-overs between their enqueue and their muggle_evloop_wakeup *)
  cbs : cbflags;              (* configuration: constant *)
}.

Definition initf (f : cbflags) : sys := mksys [] (fun _ => []) (fun _ => false) (fun _ => false) [] [] [] PIdle false [] f.
Definition init : sys := initf all_cb.

Fixpoint put (l : list ctx) (c : nat) (x : ctx) : list ctx :=
  match l, c with
  | [], _ => []
  | _ :: r, O => x :: r
  | a :: r, S j => a :: put r j x
  end.

Definition with_ctx (s : sys) (c : nat) (x : ctx) : sys :=
  mksys (put (ctxs s) c x) (sent s) (pclosed s) (preset s) (queue s) (reg s) (clr s) (pc s) (wsig s) (sigdue s) (cbs s).
Definition with_pc (s : sys) (p : spc) : sys :=
  mksys (ctxs s) (sent s) (pclosed s) (preset s) (queue s) (reg s) (clr s) p (wsig s) (sigdue s) (cbs s).
Definition with_lists (s : sys) (q r cl : list nat) : sys :=
  mksys (ctxs s) (sent s) (pclosed s) (preset s) q r cl (pc s) (wsig s) (sigdue s) (cbs s).
Definition add_ctx (s : sys) (x : ctx) : sys :=
  mksys (ctxs s ++ [x]) (sent s) (pclosed s) (preset s) (queue s) (reg s) (clr s) (pc s) (wsig s) (sigdue s) (cbs s).
Definition with_sig (s : sys) (b : bool) (d : list nat) : sys :=
  mksys (ctxs s) (sent s) (pclosed s) (preset s) (queue s) (reg s) (clr s) (pc s) b d (cbs s).
Definition mem_nat (c : nat) (l : list nat) : bool := existsb (Nat.eqb c) l.

Fixpoint remove_nat (c : nat) (l : list nat) : list nat :=
  match l with
  | [] => []
  | a :: r => if Nat.eqb a c then remove_nat c r else a :: remove_nat c r
  end.

Definition spc_eqb (a b : spc) : bool :=
  match a, b with
  | PIdle, PIdle | PAccFd, PAccFd | PAccNoAlloc, PAccNoAlloc | PFin, PFin | PDone, PDone
  | PWake, PWake | PWakeCb, PWakeCb | PWakeClr, PWakeClr => true
  | PAccAlloc c, PAccAlloc d | PAccReg c, PAccReg d | PAccFree c, PAccFree d | PAccClose c, PAccClose d
  | PWakeReg c, PWakeReg d => Nat.eqb c d
  | _, _ => false
  end.

(* apply a local transition to context c *)
Definition on_ctx (s : sys) (c : nat) (f : ctx -> option ctx) : option sys :=
  match nth_error (ctxs s) c with
  | Some x => match f x with Some y => Some (with_ctx s c y) | None => None end
  | None => None
  end.
Definition on_ctx_r (s : sys) (c : nat) (f : ctx -> option (ctx * Z)) : option (sys * Z) :=
  match nth_error (ctxs s) c with
  | Some x => match f x with Some (y, r) => Some (with_ctx s c y, r) | None => None end
  | None => None
  end.

(* muggle_evloop_run after the back-end loop: cb_clear for each node of ctx_list, then
   cb_exit = on_exit draining handle->ctx_queue; each is a release_ctx *)
Definition enter_exit (s : sys) : option sys :=
  match queue s with
  | c :: q =>
    match on_ctx s c l_exitpop with
    | Some s1 => Some (with_pc (with_lists s1 q (reg s1) (clr s1)) (PRel c KExit))
    | None => None
    end
  | [] => Some (with_pc s PFin)
  end.
Definition enter_clear (s : sys) : option sys :=
  match clr s with
  | c :: t =>
    match on_ctx s c l_clearpop with
    | Some s1 => Some (with_pc (with_lists s1 (queue s1) (reg s1) t) (PRel c KClear))
    | None => None
    end
  | [] => enter_exit s
  end.
(* where release_ctx returns to *)
Definition after_rel (s : sys) (k : cont) : option sys :=
  match k with
  | KIdle => Some (with_pc s PIdle)
  | KClear => enter_clear s
  | KExit => enter_exit s
  | KWake => Some (with_pc s PWake)
  end.

Inductive ev :=
  (* other threads *)
  | EHalloc (kd : kind) (n : nat)       (* user allocates + inits a context (for hand-over) *)
  | EHand (c : nat)                     (* muggle_socket_evloop_add_ctx *)
  | ESend (n : nat) (bs : list Z)       (* the peer of connection n sends *)
  | EPclose (n : nat)                   (* the peer closes *)
  | EPreset (n : nat)                   (* the peer resets the connection (unread bytes may be dropped by the kernel) *)
  | EWshut (c : nat) | EWrel (c : nat) | EWrelease (c : nat) | EWfree (c : nat)
  (* loop thread *)
  | EReg (c : nat) (ok : bool)          (* muggle_evloop_add_ctx returned *)
  | EAddctx (c : nat)                   (* cb_add_ctx *)
  | EAccepted | EAccepterr (c : nat) | EAllocfail | EAlloc (c : nat) | EConn (c n : nat)
  | EFree (c : nat) | EFdclose (c : nat) | EFdcloseNew
  | EMsg (c : nat) | ERd (c : nat) (bs : list Z) | ERdEof (c : nat) | ERdErr (c : nat)
  | EShut (c : nat) | ERetain (c : nat) | EClose (c : nat) | ERelease (c : nat)
  | EExitreq                            (* muggle_evloop_exit by any thread: no effect on contexts *)
  | EReturned
  | EWake                               (* cb_wake: on_wake is over *)
  (* silent *)
  | ETauRel | ETauBreak
  | ETauWakeBegin                       (* cb_wake = on_wake is entered after the clear-up: it locks handle->mtx *)
  | ETauWakeUnlock                      (* while (queue size > 0) ends: the mutex is released *)
  (* the event signal *)
  | ESigHand (c : nat)                  (* muggle_socket_evloop_add_ctx, after the enqueue: muggle_evloop_wakeup *)
  | ESigw                               (* muggle_evloop_wakeup by anyone else (muggle_evloop_exit, a plain wake-up) *)
  | ESigClear                           (* the back-end reported the signal readable: *_handle_wakeup runs
                                           muggle_ev_signal_clearup; cb_wake is due (a spurious report is allowed) *)
  | ESleep.                             (* the back-end's wait finds nothing ready: the loop thread blocks *)

Fixpoint prefix_eqb (a b : list Z) : bool :=     (* a is a prefix of b *)
  match a, b with
  | [], _ => true
  | x :: a', y :: b' => (x =? y) && prefix_eqb a' b'
  | _ :: _, [] => false
  end.

Definition ret0 (o : option sys) : option (sys * Z) :=
  match o with Some s => Some (s, 0) | None => None end.

Definition not_finished (p : spc) : bool :=
  match p with PFin | PDone => false | _ => true end.
(* on_wake holds handle->mtx: muggle_socket_evloop_add_ctx of any other thread blocks *)
Definition wake_locked (p : spc) : bool :=
  match p with
  | PWake | PWakeReg _ | PRel _ KWake | PRelClose _ KWake | PRelFree _ KWake => true
  | _ => false
  end.

(* on_exit holds handle->mtx from its first look at the queue to the end of its while loop *)
Definition exit_locked (p : spc) : bool :=
  match p with
  | PRel _ KExit | PRelClose _ KExit | PRelFree _ KExit => true
  | _ => false
  end.

(* user callbacks run from the dispatch loop or, for cb_add_ctx, from inside on_wake *)
Definition in_callback (p : spc) : bool := match p with PIdle | PWake => true | _ => false end.

(* The three back-ends agree on this: when a readiness report for a context says "readable"
   (select: FD_ISSET; poll: POLLIN; epoll: EPOLLIN) cb_read runs first, and the CLOSED flag is
   tested afterwards (poll: POLLHUP|POLLERR after the POLLIN branch; epoll: ERR|HUP only in the
   else branch).  A hang-up therefore closes a context whose flag nobody has set only when the
   report carries no "readable", i.e. when every byte the peer sent has been read already -- or
   when the connection was reset (the kernel may then drop what was queued). *)
Definition hup_only (s : sys) (x : ctx) : bool :=
  (preset s (k_conn x) ||
   (pclosed s (k_conn x) && Nat.eqb (length (k_got x)) (length (sent s (k_conn x)))))%bool.

Definition step (s : sys) (e : ev) : option (sys * Z) :=
  match e with
  | EHalloc kd n => Some (add_ctx s (new_ctx kd n LUser true), 0)
  | EHand c =>
    (* blocked while on_wake / on_exit holds the mutex; outside the property once on_exit has drained the
       queue (the context then stays queued and is still the caller's) *)
    if (not_finished (pc s) && negb (wake_locked (pc s)) && negb (exit_locked (pc s)))%bool then
      ret0 (match on_ctx s c l_hand with
            | Some s1 => Some (with_sig (with_lists s1 (queue s1 ++ [c]) (reg s1) (clr s1)) (wsig s1) (sigdue s1 ++ [c]))
            | None => None end)
    else None
  | ESend n bs =>
    if pclosed s n then None
    else Some (mksys (ctxs s) (upd (sent s) n (sent s n ++ bs)) (pclosed s) (preset s) (queue s) (reg s) (clr s) (pc s)
                     (wsig s) (sigdue s) (cbs s), 0)
  | EPclose n =>
    Some (mksys (ctxs s) (sent s) (upd (pclosed s) n true) (preset s) (queue s) (reg s) (clr s) (pc s) (wsig s) (sigdue s) (cbs s), 0)
  | EPreset n =>
    Some (mksys (ctxs s) (sent s) (upd (pclosed s) n true) (upd (preset s) n true) (queue s) (reg s) (clr s) (pc s)
                (wsig s) (sigdue s) (cbs s), 0)
  | EWshut c => ret0 (on_ctx s c l_wshut)
  | EWrel c => on_ctx_r s c l_wrel
  | EWrelease c => ret0 (on_ctx s c l_wrelease)
  | EWfree c => ret0 (on_ctx s c l_wfree)
  | EReg c ok =>
    match pc s with
    | PWake =>            (* on_wake: front of the queue *)
      match queue s with
      | c' :: q =>
        if Nat.eqb c c' then
          ret0 (match on_ctx s c (fun x => l_reg_wake x ok) with
                | Some s1 =>
                  if ok then Some (with_pc (with_lists s1 q (reg s1 ++ [c]) (clr s1)) (PWakeReg c))
                  else Some (with_pc (with_lists s1 q (reg s1) (clr s1)) (PRel c KWake))
                | None => None end)
        else None
      | [] => None
      end
    | PAccAlloc c' =>
      if Nat.eqb c c' then
        ret0 (match on_ctx s c (fun x => l_reg_acc x ok) with
              | Some s1 =>
                if ok then Some (with_pc (with_lists s1 (queue s1) (reg s1 ++ [c]) (clr s1)) (PAccReg c))
                else Some (with_pc s1 (PAccFree c))
              | None => None end)
      else None
    | _ => None
    end
  | EAddctx c =>
    if spc_eqb (pc s) (PWakeReg c) then
      ret0 (match nth_error (ctxs s) c with
            | Some x => match on_ctx s c (fun x => l_announce x (k_conn x) (f_addctx (cbs s))) with
                        | Some s1 => Some (with_pc s1 PWake) | None => None end
            | None => None end)
    else None
  | EAccepted => if spc_eqb (pc s) PIdle then Some (with_pc s PAccFd, 0) else None
  | EAccepterr c => if spc_eqb (pc s) PIdle then ret0 (on_ctx s c l_accepterr) else None
  | EAllocfail => if spc_eqb (pc s) PAccFd then Some (with_pc s PAccNoAlloc, 0) else None
  | EFdcloseNew => if spc_eqb (pc s) PAccNoAlloc then Some (with_pc s PIdle, 0) else None
  | EAlloc c =>
    if (spc_eqb (pc s) PAccFd && Nat.eqb c (length (ctxs s)))%bool
    then Some (with_pc (add_ctx s (new_ctx KConn 0 LAccNew false)) (PAccAlloc c), 0) else None
  | EConn c n =>
    if spc_eqb (pc s) (PAccReg c) then
      ret0 (match on_ctx s c (fun x => l_announce x n (f_conn (cbs s))) with
            | Some s1 => Some (with_pc s1 PIdle) | None => None end)
    else None
  | EFree c =>
    match pc s with
    | PRelFree c' k =>
      if Nat.eqb c c' then
        ret0 (match on_ctx s c l_free_loop with Some s1 => after_rel s1 k | None => None end)
      else None
    | PAccFree c' =>
      if Nat.eqb c c' then
        ret0 (match on_ctx s c l_free_acc with Some s1 => Some (with_pc s1 (PAccClose c)) | None => None end)
      else None
    | _ => None
    end
  | EFdclose c =>
    match pc s with
    | PRelClose c' k =>
      if Nat.eqb c c' then
        ret0 (match on_ctx s c l_fdclose_loop with Some s1 => Some (with_pc s1 (PRelFree c k)) | None => None end)
      else ret0 (on_ctx s c l_fdclose_w)
    | PAccClose c' =>
      if Nat.eqb c c' then
        ret0 (match on_ctx s c l_fdclose_acc with Some s1 => Some (with_pc s1 PIdle) | None => None end)
      else ret0 (on_ctx s c l_fdclose_w)
    | _ => ret0 (on_ctx s c l_fdclose_w)
    end
  | EMsg c => if (spc_eqb (pc s) PIdle && f_msg (cbs s))%bool then ret0 (on_ctx s c l_use) else None
  | ERd c bs =>
    if spc_eqb (pc s) PIdle then
      match nth_error (ctxs s) c with
      | Some x =>
        if (negb (Nat.eqb (length bs) 0) && prefix_eqb (k_got x ++ bs) (sent s (k_conn x)))%bool
        then ret0 (on_ctx s c (fun x => l_rd x bs)) else None
      | None => None
      end
    else None
  | ERdEof c =>
    if spc_eqb (pc s) PIdle then
      match nth_error (ctxs s) c with
      | Some x =>
        let full := (pclosed s (k_conn x) && Nat.eqb (length (k_got x)) (length (sent s (k_conn x))))%bool in
        if (full || k_flag x)%bool then ret0 (on_ctx s c (fun x => l_eof x full)) else None
      | None => None
      end
    else None
  | ERdErr c => if spc_eqb (pc s) PIdle then ret0 (on_ctx s c (fun x => l_eof x false)) else None
  | EShut c => if in_callback (pc s) then ret0 (on_ctx s c l_shut) else None
  | ERetain c => if in_callback (pc s) then on_ctx_r s c l_retain else None
  | EClose c =>
    if spc_eqb (pc s) PIdle then
      match nth_error (ctxs s) c with
      | Some x =>
        ret0 (match on_ctx s c (fun x => l_close x (hup_only s x) (f_close (cbs s))) with
              | Some s1 => Some (with_pc (with_lists s1 (queue s1) (remove_nat c (reg s1)) (clr s1)) (PRel c KIdle))
              | None => None end)
      | None => None
      end
    else None
  | ERelease c =>
    match pc s with
    | PRel c' k =>
      if Nat.eqb c c' then
        match on_ctx_r s c l_release with
        | Some (s1, r) => if r =? 0 then Some (with_pc s1 (PRelClose c k), 0) else None
        | None => None
        end
      else None
    | _ => None
    end
  | ETauRel =>
    match pc s with
    | PRel c k =>
      match on_ctx_r s c l_release with
      | Some (s1, r) => if r =? 0 then None else ret0 (after_rel s1 k)
      | None => None
      end
    | _ => None
    end
  | ETauBreak =>
    if spc_eqb (pc s) PIdle then ret0 (enter_clear (with_lists s (queue s) [] (reg s))) else None
  | EExitreq => Some (s, 0)
  | EReturned => if spc_eqb (pc s) PFin then Some (with_pc s PDone, 0) else None
  | ETauWakeBegin => if spc_eqb (pc s) PWakeClr then Some (with_pc s PWake, 0) else None
  | ETauWakeUnlock =>
    if spc_eqb (pc s) PWake then
      match queue s with [] => Some (with_pc s PWakeCb, 0) | _ :: _ => None end
    else None
  | EWake => if spc_eqb (pc s) PWakeCb then Some (with_pc s PIdle, 0) else None
  | ESigHand c =>
    if mem_nat c (sigdue s) then Some (with_sig s true (remove_nat c (sigdue s)), 0) else None
  | ESigw => Some (with_sig s true (sigdue s), 0)
  | ESigClear =>
    (* clear-up first, the wake callback afterwards: whatever is enqueued and signalled after this
       read finds the signal set again; whatever was enqueued before it is seen by on_wake *)
    if spc_eqb (pc s) PIdle then Some (with_pc (with_sig s false (sigdue s)) PWakeClr, 0) else None
  | ESleep => if (spc_eqb (pc s) PIdle && negb (wsig s))%bool then Some (s, 0) else None
  end.

(* a history: events that are not enabled are skipped, so every list is a history *)
Definition run1 (s : sys) (e : ev) : sys :=
  match step s e with Some (s', _) => s' | None => s end.
Definition run (s : sys) (h : list ev) : sys := fold_left run1 h s.

Definition n_freed (s : sys) : nat := length (filter k_freed (ctxs s)).

(* ------------------------------------------------------------------ *)
(* 3. the event-loop pipe                                              *)

Record pipe := mkpipe {
  p_sz : nat;                        (* sizeof(void* ) *)
  p_lock : option nat;               (* spinlock holder *)
  p_cur : list Z;                    (* bytes of the holder's pointer already written *)
  p_rem : list Z;                    (* bytes block_write has still to write *)
  p_buf : list Z;                    (* kernel pipe *)
  p_roff : list Z;                   (* pipe_read: bytes of the current pointer read so far *)
  p_del : list (list Z);             (* pointers returned by pipe_read *)
  p_lin : list (nat * list Z);       (* ghost: completed writes in lock order *)
  p_todo : nat -> list (list Z);     (* per writer: pointers still to write *)
}.

Definition pinit (sz : nat) (scripts : nat -> list (list Z)) : pipe :=
  mkpipe sz None [] [] [] [] [] [] scripts.

Inductive pev :=
  | PLock (w : nat)                  (* muggle_spinlock_lock succeeds *)
  | PWrite (w : nat) (n : nat)       (* write(2) accepted n bytes *)
  | PWAgain (w : nat)                (* write(2): EAGAIN / EINTR, block_write sleeps and retries *)
  | PUnlock (w : nat)                (* remain_bytes == 0: unlock, return *)
  | PRead (n : nat)                  (* read(2) returned n bytes *)
  | PRAgain.                         (* read(2): EAGAIN / EINTR (NULL if offset == 0, else retry) *)

Definition pstep (s : pipe) (e : pev) : option pipe :=
  match e with
  | PLock w =>
    match p_lock s, p_todo s w with
    | None, p :: rest =>
      Some (mkpipe (p_sz s) (Some w) [] p (p_buf s) (p_roff s) (p_del s) (p_lin s) (upd (p_todo s) w rest))
    | _, _ => None
    end
  | PWrite w n =>
    match p_lock s with
    | Some w' =>
      if (Nat.eqb w w' && Nat.leb 1 n && Nat.leb n (length (p_rem s)))%bool then
        Some (mkpipe (p_sz s) (p_lock s) (p_cur s ++ firstn n (p_rem s)) (skipn n (p_rem s))
                     (p_buf s ++ firstn n (p_rem s)) (p_roff s) (p_del s) (p_lin s) (p_todo s))
      else None
    | None => None
    end
  | PWAgain w => Some s
  | PUnlock w =>
    match p_lock s, p_rem s with
    | Some w', [] =>
      if Nat.eqb w w' then
        Some (mkpipe (p_sz s) None [] [] (p_buf s) (p_roff s) (p_del s) (p_lin s ++ [(w, p_cur s)]) (p_todo s))
      else None
    | _, _ => None
    end
  | PRead n =>
    if (Nat.leb 1 n && Nat.leb n (length (p_buf s)) && Nat.leb (length (p_roff s) + n) (p_sz s))%bool then
      let got := p_roff s ++ firstn n (p_buf s) in
      if Nat.eqb (length got) (p_sz s) then
        Some (mkpipe (p_sz s) (p_lock s) (p_cur s) (p_rem s) (skipn n (p_buf s)) [] (p_del s ++ [got]) (p_lin s) (p_todo s))
      else
        Some (mkpipe (p_sz s) (p_lock s) (p_cur s) (p_rem s) (skipn n (p_buf s)) got (p_del s) (p_lin s) (p_todo s))
    else None
  | PRAgain => Some s
  end.

Definition prun1 (s : pipe) (e : pev) : pipe := match pstep s e with Some s' => s' | None => s end.
Definition prun (s : pipe) (h : list pev) : pipe := fold_left prun1 h s.

(* all pointers in the order in which their writes hold (held) the lock *)
Definition p_order (s : pipe) : list (list Z) :=
  map snd (p_lin s) ++ match p_lock s with Some _ => [p_cur s ++ p_rem s] | None => [] end.
Definition by_writer (w : nat) (l : list (nat * list Z)) : list (list Z) :=
  map snd (filter (fun e => Nat.eqb (fst e) w) l).
