(* C15 — event-loop pipe: whatever the interleaving of writers (each write under the
   spinlock, possibly split over several write(2) calls) and whatever the fragmentation
   of the reader's read(2) calls, the reader returns exactly the written pointers, in
   the order in which the writes held the lock; per writer that is program order. *)
From MV Require Import C04.Model C15.Model.
Local Open Scope nat_scope.

Definition blk (sz : nat) (l : list (list Z)) : Prop := Forall (fun p => length p = sz) l.

Lemma app_eq_len {A} (a b u v : list A) : length a = length b -> a ++ u = b ++ v -> a = b /\ u = v.
Proof.
  revert b; induction a as [|x a IH]; intros [|y b] L E; simpl in *; try discriminate.
  - split; [reflexivity|assumption].
  - injection E as E0 E1. subst y. destruct (IH b) as [Ha Hb]; [lia|assumption|]. subst. split; reflexivity.
Qed.

Lemma blocks_prefix sz (A B : list (list Z)) x :
  0 < sz -> blk sz A -> blk sz B -> concat A ++ x = concat B -> A = firstn (length A) B.
Proof.
  intros Hsz. revert B. induction A as [|a A IH]; intros B HA HB E; simpl; [reflexivity|].
  pose proof (Forall_inv HA) as La. pose proof (Forall_inv_tail HA) as HA'. simpl in La.
  destruct B as [|b B]; simpl in E.
  - destruct a; simpl in *; [lia|discriminate].
  - pose proof (Forall_inv HB) as Lb. pose proof (Forall_inv_tail HB) as HB'. simpl in Lb.
    rewrite <- app_assoc in E. destruct (app_eq_len a b _ _ (eq_trans La (eq_sym Lb)) E) as [E1 E2]. subst b.
    f_equal. apply IH; assumption.
Qed.

Definition pend (s : pipe) (w : nat) : list (list Z) :=
  match p_lock s with
  | Some w' => if Nat.eqb w' w then [p_cur s ++ p_rem s] else []
  | None => []
  end.

Record PInv (sz : nat) (scripts : nat -> list (list Z)) (s : pipe) : Prop := {
  pi_sz : p_sz s = sz;
  pi_pos : 0 < sz;
  pi_del : blk sz (p_del s);
  pi_lin : blk sz (map snd (p_lin s));
  pi_todo : forall w, blk sz (p_todo s w);
  pi_roff : length (p_roff s) < sz;
  pi_cur : match p_lock s with
           | Some _ => length (p_cur s ++ p_rem s) = sz
           | None => p_cur s = [] /\ p_rem s = []
           end;
  pi_bytes : concat (p_del s) ++ p_roff s ++ p_buf s = concat (map snd (p_lin s)) ++ p_cur s;
  pi_writer : forall w, by_writer w (p_lin s) ++ pend s w ++ p_todo s w = scripts w;
}.

Lemma by_writer_app w a b : by_writer w (a ++ b) = by_writer w a ++ by_writer w b.
Proof. unfold by_writer. now rewrite filter_app, map_app. Qed.

Lemma pinit_inv sz scripts : 0 < sz -> (forall w, blk sz (scripts w)) -> PInv sz scripts (pinit sz scripts).
Proof.
  intros Hs Hb. constructor; simpl; auto; try constructor; try lia; auto.
Qed.

Lemma pstep_inv sz scripts s e s' : PInv sz scripts s -> pstep s e = Some s' -> PInv sz scripts s'.
Proof.
  intros [Hsz Hpos Hdel Hlin Htodo Hroff Hcur Hbytes Hw] H.
  destruct e as [w|w n|w|w|n|]; unfold pstep in H.
  - (* lock *)
    destruct (p_lock s) eqn:El; [discriminate|].
    destruct (p_todo s w) as [|p rest] eqn:Et; [discriminate|].
    inversion H; subst; clear H. destruct Hcur as [Hc Hr].
    pose proof (Htodo w) as Hb. rewrite Et in Hb.
    pose proof (Forall_inv Hb) as Lp. pose proof (Forall_inv_tail Hb) as Hrest. simpl in Lp.
    constructor; simpl; auto.
    + intros u. unfold upd. destruct (Nat.eqb u w); [assumption|apply Htodo].
    + rewrite Hc in Hbytes. assumption.
    + intros u. specialize (Hw u). unfold pend in *. simpl. rewrite El in Hw. simpl in Hw.
      unfold upd. destruct (Nat.eqb_spec w u) as [->|Ne].
      * rewrite Nat.eqb_refl. rewrite Et in Hw. simpl. assumption.
      * destruct (Nat.eqb_spec u w) as [->|_]; [contradiction|]. assumption.
  - (* write *)
    destruct (p_lock s) as [w'|] eqn:El; [|discriminate].
    destruct (Nat.eqb w w' && Nat.leb 1 n && Nat.leb n (length (p_rem s)))%bool eqn:G; [|discriminate].
    inversion H; subst; clear H.
    constructor; simpl; auto.
    + rewrite <- app_assoc, firstn_skipn. assumption.
    + rewrite !app_assoc. rewrite <- (app_assoc (concat (p_del s))). rewrite Hbytes. reflexivity.
    + intros u. specialize (Hw u). unfold pend in *. simpl. rewrite El in Hw.
      rewrite <- app_assoc, firstn_skipn. assumption.
  - inversion H; subst. constructor; auto.
  - (* unlock *)
    destruct (p_lock s) as [w'|] eqn:El; [|discriminate].
    destruct (p_rem s) eqn:Er; [|discriminate].
    destruct (Nat.eqb_spec w w') as [->|]; [|discriminate].
    inversion H; subst; clear H. rewrite app_nil_r in Hcur.
    constructor; simpl; auto.
    + rewrite map_app. apply Forall_app. split; [assumption|]. constructor; [assumption|constructor].
    + rewrite map_app, concat_app. simpl. rewrite !app_nil_r. assumption.
    + intros u. specialize (Hw u). unfold pend in *. simpl. rewrite El in Hw.
      rewrite by_writer_app. unfold by_writer at 2. simpl.
      destruct (Nat.eqb_spec w' u) as [->|Ne]; simpl.
      * rewrite Er, app_nil_r in Hw. rewrite <- app_assoc. simpl. assumption.
      * rewrite app_nil_r. simpl in Hw. assumption.
  - (* read *)
    destruct (Nat.leb 1 n && Nat.leb n (length (p_buf s)) && Nat.leb (length (p_roff s) + n) (p_sz s))%bool eqn:G;
      [|discriminate].
    apply andb_prop in G. destruct G as [G G3]. apply andb_prop in G. destruct G as [G1 G2].
    apply Nat.leb_le in G1, G2, G3.
    assert (Lg : length (p_roff s ++ firstn n (p_buf s)) = length (p_roff s) + n).
    { rewrite app_length, firstn_length_le by exact G2. reflexivity. }
    destruct (Nat.eqb_spec (length (p_roff s ++ firstn n (p_buf s))) (p_sz s)) as [Ef|Nf];
      inversion H; subst; clear H.
    + constructor; simpl; auto.
      * apply Forall_app. split; [assumption|]. constructor; [assumption|constructor].
      * rewrite concat_app. simpl. rewrite app_nil_r. rewrite <- !app_assoc.
        rewrite <- Hbytes. rewrite firstn_skipn. reflexivity.
    + constructor; simpl; auto.
      * rewrite Lg in *. lia.
      * rewrite <- Hbytes. rewrite <- !app_assoc. rewrite firstn_skipn. reflexivity.
  - inversion H; subst. constructor; auto.
Qed.

Lemma prun_inv sz scripts h : forall s, PInv sz scripts s -> PInv sz scripts (prun s h).
Proof.
  induction h as [|e h IH]; intros s Hs; simpl; [assumption|].
  apply IH. unfold prun1. destruct (pstep s e) eqn:E; [eapply pstep_inv; eauto|assumption].
Qed.

(* the delivered pointers are a prefix of the pointers in lock order *)
Lemma pinv_prefix sz scripts s : PInv sz scripts s -> p_del s = firstn (length (p_del s)) (p_order s).
Proof.
  intros [Hsz Hpos Hdel Hlin Htodo Hroff Hcur Hbytes Hw].
  apply (blocks_prefix sz _ _ (p_roff s ++ p_buf s ++ p_rem s) Hpos Hdel).
  - unfold p_order. apply Forall_app. split; [assumption|].
    destruct (p_lock s); [constructor; [assumption|constructor]|constructor].
  - unfold p_order. rewrite concat_app.
    rewrite !app_assoc. rewrite <- (app_assoc (concat (p_del s))). rewrite Hbytes.
    destruct (p_lock s); simpl.
    + rewrite app_nil_r. rewrite <- !app_assoc. reflexivity.
    + destruct Hcur as [-> ->]. rewrite !app_nil_r. reflexivity.
Qed.

Definition quiescent (s : pipe) : Prop :=
  p_lock s = None /\ p_buf s = [] /\ p_roff s = [] /\ forall w, p_todo s w = [].

Theorem pipe_all sz scripts h :
  0 < sz -> (forall w, blk sz (scripts w)) ->
  let s := prun (pinit sz scripts) h in
  (* at every moment: delivered = a prefix of the lock order; each writer's part of the lock
     order followed by what it has still to write is its script *)
  p_del s = firstn (length (p_del s)) (p_order s) /\
  (forall w, by_writer w (p_lin s) ++ pend s w ++ p_todo s w = scripts w) /\
  (* when everything has been written and read: delivered = all writes, in lock order, and
     the writes of each writer are exactly its script, in order *)
  (quiescent s -> p_del s = map snd (p_lin s) /\ forall w, by_writer w (p_lin s) = scripts w).
Proof.
  intros Hs Hb s. pose proof (prun_inv sz scripts h _ (pinit_inv sz scripts Hs Hb)) as I. fold s in I.
  split; [apply (pinv_prefix sz scripts); assumption|]. split; [apply (pi_writer _ _ _ I)|].
  intros (Hl & Hbuf & Hro & Htd).
  split.
  - pose proof (pi_bytes _ _ _ I) as Hby. pose proof (pi_cur _ _ _ I) as Hc. rewrite Hl in Hc. destruct Hc as [Hc _].
    rewrite Hbuf, Hro, Hc in Hby. rewrite !app_nil_r in Hby.
    pose proof (blocks_prefix sz (p_del s) (map snd (p_lin s)) [] (pi_pos _ _ _ I) (pi_del _ _ _ I) (pi_lin _ _ _ I)) as P1.
    pose proof (blocks_prefix sz (map snd (p_lin s)) (p_del s) [] (pi_pos _ _ _ I) (pi_lin _ _ _ I) (pi_del _ _ _ I)) as P2.
    rewrite app_nil_r in P1, P2. specialize (P1 Hby). specialize (P2 (eq_sym Hby)).
    assert (L1 : length (p_del s) <= length (map snd (p_lin s))).
    { rewrite P1. rewrite firstn_length. lia. }
    assert (L2 : length (map snd (p_lin s)) <= length (p_del s)).
    { rewrite P2. rewrite firstn_length. lia. }
    rewrite P1. rewrite firstn_all2; [reflexivity|lia].
  - intros w. pose proof (pi_writer _ _ _ I w) as Hw. unfold pend in Hw. rewrite Hl, Htd in Hw.
    simpl in Hw. rewrite app_nil_r in Hw. assumption.
Qed.

Example pipe_nonvacuous :
  let scripts := fun w => if Nat.eqb w 0 then [[1;2]%Z; [3;4]%Z] else if Nat.eqb w 1 then [[5;6]%Z] else [] in
  let s := prun (pinit 2 scripts)
             [PLock 0; PWrite 0 1; PRead 1; PLock 1; PRAgain; PWrite 0 1; PUnlock 0; PLock 1; PWrite 1 2;
              PRead 1; PRead 2; PUnlock 1; PLock 0; PWrite 0 2; PUnlock 0; PRead 1; PRead 1] in
  p_del s = [[1;2]; [5;6]; [3;4]]%Z /\ quiescent s.
Proof. vm_compute. repeat split; try reflexivity. intros w. destruct w as [|[|w]]; reflexivity. Qed.
