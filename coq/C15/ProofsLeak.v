(* C15 — no leak: a context that nobody references any more has been freed exactly once.
   [no_leak_local] needs only the per-context invariant; [loop_done_holds_nothing] (below)
   links the loop thread's program counter and lists to the contexts' positions so that
   "nobody" includes the loop once muggle_evloop_run has returned. *)
From MV Require Import C04.Model C15.Model C15.ProofsCtx C15.ProofsSys.
Local Open Scope nat_scope.

(* the loop side holds nothing, no worker holds a reference, no release duty is pending *)
Definition unreferenced (x : ctx) : Prop := k_loc x = LNone /\ k_work x = 0 /\ k_wfin x = 0.

Lemma cok_unreferenced_freed x : cok x -> unreferenced x ->
  k_freed x = true /\ k_nfree x = 1 /\ k_nfdc x = 1 /\ k_fd x = false.
Proof.
  intros (_ & _ & Hfd & _ & _ & _ & _ & Hm) (Hl & Hw & Hf). unfold mode_of in Hm.
  rewrite Hl, Hf in Hm. simpl in Hm. destruct (k_freed x).
  - destruct Hm as (H1 & _ & _ & [[_ H4]|[H4 _]] & _); [|discriminate].
    rewrite H4 in Hfd. auto.
  - destruct Hm as (_ & H2 & H3 & _). rewrite Hw in H2. simpl in H2. lia.
Qed.

Lemma no_leak_local f h c x :
  nth_error (ctxs (run (initf f) h)) c = Some x -> unreferenced x ->
  k_freed x = true /\ k_nfree x = 1 /\ k_nfdc x = 1 /\ k_fd x = false.
Proof. intros H U. destruct (ctx_ok f h c x H) as [C _]. apply cok_unreferenced_freed; assumption. Qed.

(* ------------------------------------------------------------------ *)
(* where a context's position says it is, it is                         *)

Definition pc_ctx (p : spc) : option nat :=
  match p with
  | PAccAlloc c | PAccReg c | PAccFree c | PAccClose c | PWakeReg c
  | PRel c _ | PRelClose c _ | PRelFree c _ => Some c
  | _ => None
  end.
Definition pcl (l : loc) : bool :=
  match l with LRelDue | LAccNew | LAccFail | LAccClose | LCloseDue | LFreeDue => true | _ => false end.
Definition cont_of (p : spc) : option cont :=
  match p with PRel _ k | PRelClose _ k | PRelFree _ k => Some k | _ => None end.
Definition after_break (p : spc) : bool :=
  match p with
  | PFin | PDone => true
  | _ => match cont_of p with Some KClear | Some KExit => true | _ => false end
  end.
Definition in_exit (p : spc) : bool :=
  match p with
  | PFin | PDone => true
  | _ => match cont_of p with Some KExit => true | _ => false end
  end.

Definition Jw (cs : list ctx) (q r cl : list nat) (p : spc) : Prop :=
  forall c x, nth_error cs c = Some x ->
    (k_loc x = LQueue -> In c q) /\
    ((k_loc x = LReg \/ k_loc x = LRegNew) -> In c r \/ In c cl) /\
    (pcl (k_loc x) = true -> pc_ctx p = Some c).
Definition Jp (q r cl : list nat) (p : spc) : Prop :=
  (after_break p = true -> r = []) /\ (in_exit p = true -> cl = []) /\ ((p = PFin \/ p = PDone) -> q = []) /\
  (after_break p = false -> cl = []).
Definition J (s : sys) : Prop :=
  Jw (ctxs s) (queue s) (reg s) (clr s) (pc s) /\ Jp (queue s) (reg s) (clr s) (pc s).

Lemma Jw_put cs q r cl p c x y q' r' cl' p' :
  Jw cs q r cl p -> nth_error cs c = Some x ->
  (k_loc y = LQueue -> In c q') ->
  ((k_loc y = LReg \/ k_loc y = LRegNew) -> In c r' \/ In c cl') ->
  (pcl (k_loc y) = true -> pc_ctx p' = Some c) ->
  (forall d, d <> c -> In d q -> In d q') ->
  (forall d, d <> c -> In d r \/ In d cl -> In d r' \/ In d cl') ->
  (forall d, d <> c -> pc_ctx p = Some d -> pc_ctx p' = Some d) ->
  Jw (put cs c y) q' r' cl' p'.
Proof.
  intros HJ Hx N1 N2 N3 F1 F2 F3 d z Hz.
  destruct (nth_put _ _ _ _ _ Hz) as [(-> & -> & _)|(Ne & Hd)].
  - auto.
  - destruct (HJ d z Hd) as (A & B & C). repeat split; intros; auto.
Qed.
Lemma Jw_lists cs q r cl p q' r' cl' p' :
  Jw cs q r cl p ->
  (forall d, In d q -> In d q') ->
  (forall d, In d r \/ In d cl -> In d r' \/ In d cl') ->
  (forall d, pc_ctx p = Some d -> pc_ctx p' = Some d) ->
  Jw cs q' r' cl' p'.
Proof.
  intros HJ F1 F2 F3 d z Hd. destruct (HJ d z Hd) as (A & B & C). repeat split; intros; auto.
Qed.
Lemma Jw_snoc cs q r cl p x p' :
  Jw cs q r cl p -> k_loc x <> LQueue -> k_loc x <> LReg -> k_loc x <> LRegNew ->
  (pcl (k_loc x) = true -> pc_ctx p' = Some (length cs)) ->
  (forall d, pc_ctx p = Some d -> pc_ctx p' = Some d) ->
  Jw (cs ++ [x]) q r cl p'.
Proof.
  intros HJ N1 N2 N3 N4 F d z Hd. destruct (nth_snoc _ _ _ _ Hd) as [H|[-> ->]].
  - destruct (HJ d z H) as (A & B & C). repeat split; intros; auto.
  - repeat split; intros; try contradiction; auto. destruct H; contradiction.
Qed.

(* what each local transition does to the position *)
Ltac loc_tac :=
  unfold touch; simpl; intros;
  match goal with
  | E : _ = Some _ |- _ =>
    simpl in E;
    repeat match type of E with
           | (if ?b then _ else _) = _ => destruct b eqn:?; try discriminate
           | (let (_, _) := ?p in _) = _ => destruct p eqn:?
           | match ?n with O => _ | S _ => _ end = _ => destruct n eqn:?; try discriminate
           | match ?n with KListen => _ | KConn => _ end = _ => destruct n eqn:?; try discriminate
           end;
    inversion E; subst; clear E
  end;
  repeat match goal with
         | |- context [if ?b then _ else _] => destruct b eqn:?; simpl
         end; auto.
Ltac loc_lemma f := intros x; destruct x as [? ? ? lc ? ? ? ? ? ? ? ? ? ? ? ? ? ?]; unfold f; simpl; destruct lc; simpl; loc_tac.

Lemma loc_hand : forall x y, l_hand x = Some y -> k_loc x = LUser /\ k_loc y = LQueue.
Proof. loc_lemma l_hand. Qed.
Lemma loc_reg_wake : forall x ok y, l_reg_wake x ok = Some y -> k_loc x = LQueue /\ k_loc y = (if ok then LRegNew else LRelDue).
Proof. intros x ok; revert x; destruct ok; loc_lemma l_reg_wake. Qed.
Lemma loc_reg_acc : forall x ok y, l_reg_acc x ok = Some y -> k_loc x = LAccNew /\ k_loc y = (if ok then LRegNew else LAccFail).
Proof. intros x ok; revert x; destruct ok; loc_lemma l_reg_acc. Qed.
Lemma loc_announce : forall x n cb y, l_announce x n cb = Some y -> k_loc x = LRegNew /\ k_loc y = LReg.
Proof. loc_lemma l_announce. Qed.
Lemma loc_use : forall x y, l_use x = Some y -> k_loc y = k_loc x.
Proof. loc_lemma l_use. Qed.
Lemma loc_rd : forall x bs y, l_rd x bs = Some y -> k_loc y = k_loc x.
Proof. loc_lemma l_rd. Qed.
Lemma loc_eof : forall x f y, l_eof x f = Some y -> k_loc y = k_loc x.
Proof. loc_lemma l_eof. Qed.
Lemma loc_shut : forall x y, l_shut x = Some y -> k_loc y = k_loc x.
Proof. loc_lemma l_shut. Qed.
Lemma loc_accepterr : forall x y, l_accepterr x = Some y -> k_loc y = k_loc x.
Proof. loc_lemma l_accepterr. Qed.
Lemma loc_close : forall x h cb y, l_close x h cb = Some y -> k_loc x = LReg /\ k_loc y = LRelDue.
Proof. loc_lemma l_close. Qed.
Lemma loc_clearpop : forall x y, l_clearpop x = Some y -> k_loc x = LReg /\ k_loc y = LRelDue.
Proof. loc_lemma l_clearpop. Qed.
Lemma loc_exitpop : forall x y, l_exitpop x = Some y -> k_loc x = LQueue /\ k_loc y = LRelDue.
Proof. loc_lemma l_exitpop. Qed.
Lemma loc_release : forall x y r, l_release x = Some (y, r) ->
  k_loc x = LRelDue /\ k_loc y = (if (r =? 0)%Z then LCloseDue else LNone).
Proof. loc_lemma l_release. Qed.
Lemma loc_fdclose_loop : forall x y, l_fdclose_loop x = Some y -> k_loc x = LCloseDue /\ k_loc y = LFreeDue.
Proof. loc_lemma l_fdclose_loop. Qed.
Lemma loc_free_loop : forall x y, l_free_loop x = Some y -> k_loc x = LFreeDue /\ k_loc y = LNone.
Proof. loc_lemma l_free_loop. Qed.
Lemma loc_free_acc : forall x y, l_free_acc x = Some y -> k_loc x = LAccFail /\ k_loc y = LAccClose.
Proof. loc_lemma l_free_acc. Qed.
Lemma loc_fdclose_acc : forall x y, l_fdclose_acc x = Some y -> k_loc x = LAccClose /\ k_loc y = LNone.
Proof. loc_lemma l_fdclose_acc. Qed.
Lemma loc_retain : forall x y r, l_retain x = Some (y, r) -> k_loc y = k_loc x.
Proof. loc_lemma l_retain. Qed.
Lemma loc_wshut : forall x y, l_wshut x = Some y -> k_loc y = k_loc x.
Proof. loc_lemma l_wshut. Qed.
Lemma loc_wrel : forall x y r, l_wrel x = Some (y, r) -> k_loc y = k_loc x.
Proof. loc_lemma l_wrel. Qed.
Lemma loc_wrelease : forall x y, l_wrelease x = Some y -> k_loc y = k_loc x.
Proof. loc_lemma l_wrelease. Qed.
Lemma loc_fdclose_w : forall x y, l_fdclose_w x = Some y -> k_loc y = k_loc x.
Proof. loc_lemma l_fdclose_w. Qed.
Lemma loc_wfree : forall x y, l_wfree x = Some y -> k_loc y = k_loc x.
Proof. loc_lemma l_wfree. Qed.

(* ---- list facts ---- *)
Lemma in_remove_nat d c l : d <> c -> In d l -> In d (remove_nat c l).
Proof.
  intros Ne. induction l as [|a l IH]; simpl; [auto|]. intros [->|H].
  - destruct (Nat.eqb_spec d c); [contradiction|left; reflexivity].
  - destruct (Nat.eqb a c); [auto|right; auto].
Qed.

Ltac pose_loc :=
  repeat match goal with
         | H : l_hand _ = Some _ |- _ => apply loc_hand in H; destruct H
         | H : l_reg_wake _ _ = Some _ |- _ => apply loc_reg_wake in H; destruct H
         | H : l_reg_acc _ _ = Some _ |- _ => apply loc_reg_acc in H; destruct H
         | H : l_announce _ _ _ = Some _ |- _ => apply loc_announce in H; destruct H
         | H : l_use _ = Some _ |- _ => apply loc_use in H
         | H : l_rd _ _ = Some _ |- _ => apply loc_rd in H
         | H : l_eof _ _ = Some _ |- _ => apply loc_eof in H
         | H : l_shut _ = Some _ |- _ => apply loc_shut in H
         | H : l_accepterr _ = Some _ |- _ => apply loc_accepterr in H
         | H : l_close _ _ _ = Some _ |- _ => apply loc_close in H; destruct H
         | H : l_clearpop _ = Some _ |- _ => apply loc_clearpop in H; destruct H
         | H : l_exitpop _ = Some _ |- _ => apply loc_exitpop in H; destruct H
         | H : l_release _ = Some _ |- _ => apply loc_release in H; destruct H
         | H : l_fdclose_loop _ = Some _ |- _ => apply loc_fdclose_loop in H; destruct H
         | H : l_free_loop _ = Some _ |- _ => apply loc_free_loop in H; destruct H
         | H : l_free_acc _ = Some _ |- _ => apply loc_free_acc in H; destruct H
         | H : l_fdclose_acc _ = Some _ |- _ => apply loc_fdclose_acc in H; destruct H
         | H : l_retain _ = Some _ |- _ => apply loc_retain in H
         | H : l_wshut _ = Some _ |- _ => apply loc_wshut in H
         | H : l_wrel _ = Some _ |- _ => apply loc_wrel in H
         | H : l_wrelease _ = Some _ |- _ => apply loc_wrelease in H
         | H : l_fdclose_w _ = Some _ |- _ => apply loc_fdclose_w in H
         | H : l_wfree _ = Some _ |- _ => apply loc_wfree in H
         end.

(* open every [on_ctx s c f = Some s1]: the old record x, the new one y, the local equation *)
Ltac open_on :=
  repeat match goal with
         | H : on_ctx ?s ?c ?f = Some _ |- _ =>
           unfold on_ctx in H;
           let x := fresh "x" in let Ex := fresh "Ex" in
           destruct (nth_error (ctxs s) c) as [x|] eqn:Ex; [|discriminate H];
           cbv beta in H;
           let y := fresh "y" in let Ey := fresh "Ey" in
           match type of H with
           | match ?fx with _ => _ end = _ => destruct fx as [y|] eqn:Ey; [|discriminate H]
           end;
           inversion H; subst; clear H
         | H : on_ctx_r ?s ?c ?f = Some _ |- _ =>
           unfold on_ctx_r in H;
           let x := fresh "x" in let Ex := fresh "Ex" in
           destruct (nth_error (ctxs s) c) as [x|] eqn:Ex; [|discriminate H];
           cbv beta in H;
           let y := fresh "y" in let r := fresh "r" in let Ey := fresh "Ey" in
           match type of H with
           | match ?fx with _ => _ end = _ => destruct fx as [[y r]|] eqn:Ey; [|discriminate H]
           end;
           inversion H; subst; clear H
         end.

Ltac side :=
  simpl; intros; subst;
  repeat match goal with
         | H : k_loc _ = _ |- _ => progress (rewrite H in * )
         end;
  simpl in *;
  try discriminate; try congruence; try contradiction;
  repeat match goal with
         | H : _ \/ _ |- _ => destruct H
         end;
  try discriminate; try congruence;
  auto using in_or_app, in_eq, in_cons, in_remove_nat with datatypes.

(* a context's only change is a position change that needs no list / pc support *)
Lemma Jw_put_keep cs q r cl p c x y :
  Jw cs q r cl p -> nth_error cs c = Some x -> k_loc y = k_loc x -> Jw (put cs c y) q r cl p.
Proof.
  intros HJ Hx E. destruct (HJ c x Hx) as (A & B & C). rewrite <- E in A, B, C.
  eapply Jw_put; eauto.
Qed.

Lemma J_enter_exit s s' :
  Jw (ctxs s) (queue s) (reg s) (clr s) PIdle -> reg s = [] -> clr s = [] ->
  enter_exit s = Some s' -> J s'.
Proof.
  intros HJ Hr Hc H. unfold enter_exit in H. destruct (queue s) as [|c q] eqn:Eq.
  - inversion H; subst; clear H. split; simpl.
    + eapply Jw_lists; [exact HJ| | |]; side.
    + unfold Jp. simpl. auto.
  - destruct (on_ctx s c l_exitpop) as [s1|] eqn:E; [|discriminate]. inversion H; subst; clear H.
    open_on. pose_loc. split; simpl.
    + eapply Jw_put; [exact HJ|eassumption|..]; side.
    + unfold Jp. simpl. repeat split; intros; auto; discriminate || (destruct H1; discriminate).
Qed.

Lemma J_enter_clear s s' :
  Jw (ctxs s) (queue s) (reg s) (clr s) PIdle -> reg s = [] -> enter_clear s = Some s' -> J s'.
Proof.
  intros HJ Hr H. unfold enter_clear in H. destruct (clr s) as [|c t] eqn:Ec.
  - eapply J_enter_exit; eauto. rewrite Ec. exact HJ.
  - destruct (on_ctx s c l_clearpop) as [s1|] eqn:E; [|discriminate]. inversion H; subst; clear H.
    open_on. pose_loc. split; simpl.
    + rewrite Hr in *. eapply Jw_put; [exact HJ|eassumption|..]; side.
    + unfold Jp. simpl. repeat split; intros; auto; discriminate || (destruct H1; discriminate).
Qed.

Lemma J_after_rel s k s' :
  Jw (ctxs s) (queue s) (reg s) (clr s) PIdle ->
  ((k = KClear \/ k = KExit) -> reg s = []) -> (k = KExit -> clr s = []) ->
  ((k = KIdle \/ k = KWake) -> clr s = []) ->
  after_rel s k = Some s' -> J s'.
Proof.
  intros HJ Hr Hc Hi H. destruct k; simpl in H.
  - inversion H; subst. split; simpl; [exact HJ|]. unfold Jp; simpl. repeat split; intros; try discriminate; auto.
    destruct H0; discriminate.
  - eapply J_enter_clear; eauto.
  - eapply J_enter_exit; eauto.
  - inversion H; subst. split; simpl; [exact HJ|]. unfold Jp; simpl. repeat split; intros; try discriminate; auto.
    destruct H0; discriminate.
Qed.

(* when the pc mentions context c, no other context is in a pc-attached position *)
Lemma Jw_pc_unique cs q r cl p c d z :
  Jw cs q r cl p -> pc_ctx p = Some c -> nth_error cs d = Some z -> pcl (k_loc z) = true -> d = c.
Proof. intros HJ Hp Hz Hl. destruct (HJ d z Hz) as (_ & _ & C). specialize (C Hl). congruence. Qed.

Ltac jp_tac :=
  unfold Jp in *; simpl in *;
  repeat match goal with
         | H : _ /\ _ |- _ => destruct H
         end;
  repeat split; intros;
  repeat match goal with
         | H : _ \/ _ |- _ => destruct H
         end;
  try discriminate; try congruence; auto.

Ltac norm_pc := repeat match goal with E : pc _ = _ |- _ => progress (rewrite E in * ) end.

Lemma step_J s e s' r : J s -> step s e = Some (s', r) -> J s'.
Proof.
  intros [HJ HP] H. destruct e; unfold step, ret0 in H.
  - (* halloc *) inversion H; subst; clear H. split; simpl; [|exact HP].
    eapply Jw_snoc; eauto; simpl; try discriminate.
  - (* hand *) break H. open_on. pose_loc. split; simpl; norm_pc.
    + eapply Jw_put; [exact HJ|eassumption|..]; side.
    + destruct (pc s); simpl in *; try discriminate; jp_tac.
  - break H. split; simpl; assumption.
  - inversion H; subst. split; simpl; assumption.
  - (* peer reset *) inversion H; subst. split; simpl; assumption.
  - break H. open_on. pose_loc. split; simpl; norm_pc; [|exact HP]. eapply Jw_put_keep; eauto.
  - open_on. pose_loc. split; simpl; norm_pc; [|exact HP]. eapply Jw_put_keep; eauto.
  - break H. open_on. pose_loc. split; simpl; norm_pc; [|exact HP]. eapply Jw_put_keep; eauto.
  - break H. open_on. pose_loc. split; simpl; norm_pc; [|exact HP]. eapply Jw_put_keep; eauto.
  - (* reg *) break H; open_on; pose_loc; apply Nat.eqb_eq in Heqb; subst.
    + (* wake ok *) split; simpl; norm_pc.
      * eapply Jw_put; [exact HJ|eassumption|..]; side.
      * try rewrite Heqs0 in HP. jp_tac.
    + (* wake fail *) split; simpl; norm_pc.
      * eapply Jw_put; [exact HJ|eassumption|..]; side.
      * try rewrite Heqs0 in HP. jp_tac.
    + (* accept ok *) split; simpl; norm_pc.
      * eapply Jw_put; [exact HJ|eassumption|..]; side; try (simpl in *; congruence).
      * try rewrite Heqs0 in HP. jp_tac.
    + (* accept fail *) split; simpl; norm_pc.
      * eapply Jw_put; [exact HJ|eassumption|..]; side; try (simpl in *; congruence).
      * try rewrite Heqs0 in HP. jp_tac.
  - (* addctx *) break H. open_on. pose_loc. split; simpl; norm_pc.
    + destruct (HJ c x Ex) as (_ & B & _). eapply Jw_put; [exact HJ|eassumption|..]; side.
      destruct (pc s); simpl in *; try discriminate. apply Nat.eqb_eq in Heqb. subst. simpl in *. congruence.
    + destruct (pc s); simpl in *; try discriminate. jp_tac.
  - (* accepted *) break H. split; simpl; norm_pc.
    + eapply Jw_lists; [exact HJ|..]; side; try (destruct (pc s); simpl in *; discriminate).
    + destruct (pc s); simpl in *; try discriminate. jp_tac.
  - (* accepterr *) break H. open_on. pose_loc. split; simpl; norm_pc; [|exact HP]. eapply Jw_put_keep; eauto.
  - (* allocfail *) break H. split; simpl; norm_pc.
    + eapply Jw_lists; [exact HJ|..]; side; try (destruct (pc s); simpl in *; discriminate).
    + destruct (pc s); simpl in *; try discriminate. jp_tac.
  - (* alloc *) break H. apply andb_prop in Heqb. destruct Heqb as [Hb1 Hb2]. apply Nat.eqb_eq in Hb2. subst.
    split; simpl; norm_pc.
    + eapply Jw_snoc; eauto; simpl; try discriminate. intros d Hd. destruct (pc s); simpl in *; discriminate.
    + destruct (pc s); simpl in *; try discriminate. jp_tac.
  - (* conn *) break H. open_on. pose_loc. split; simpl; norm_pc.
    + destruct (HJ c x Ex) as (_ & B & _). eapply Jw_put; [exact HJ|eassumption|..]; side.
      destruct (pc s); simpl in *; try discriminate. apply Nat.eqb_eq in Heqb. subst. simpl in *. congruence.
    + destruct (pc s); simpl in *; try discriminate. jp_tac.
  - (* free *) break H; open_on; pose_loc; apply Nat.eqb_eq in Heqb; subst.
    + split; simpl; norm_pc.
      * eapply Jw_put; [exact HJ|eassumption|..]; side; try (simpl in *; congruence).
      * try rewrite Heqs0 in HP. jp_tac.
    + eapply J_after_rel; [| | | |eassumption]; simpl; norm_pc.
      * eapply Jw_put; [exact HJ|eassumption|..]; side; try (simpl in *; congruence).
      * try rewrite Heqs0 in HP. match goal with k0 : cont |- _ => destruct k0 end; jp_tac.
      * try rewrite Heqs0 in HP. match goal with k0 : cont |- _ => destruct k0 end; jp_tac.
      * try rewrite Heqs0 in HP. match goal with k0 : cont |- _ => destruct k0 end; jp_tac.
  - (* fdclose *) break H; open_on; pose_loc; try (apply Nat.eqb_eq in Heqb; subst);
      try (split; simpl; norm_pc; [eapply Jw_put_keep; eauto|exact HP]).
    + split; simpl; norm_pc.
      * eapply Jw_put; [exact HJ|eassumption|..]; side; try (simpl in *; congruence).
      * try rewrite Heqs0 in HP. jp_tac.
    + split; simpl; norm_pc.
      * eapply Jw_put; [exact HJ|eassumption|..]; side.
      * try rewrite Heqs0 in HP. match goal with k0 : cont |- _ => destruct k0 end; jp_tac.
  - (* fdclose new *) break H. split; simpl; norm_pc.
    + eapply Jw_lists; [exact HJ|..]; side; try (destruct (pc s); simpl in *; discriminate).
    + destruct (pc s); simpl in *; try discriminate. jp_tac.
  - break H. open_on. pose_loc. split; simpl; norm_pc; [|exact HP]. eapply Jw_put_keep; eauto.
  - break H. open_on. pose_loc. split; simpl; norm_pc; [|exact HP]. eapply Jw_put_keep; eauto.
  - break H. open_on. pose_loc. split; simpl; norm_pc; [|exact HP]. eapply Jw_put_keep; eauto.
  - break H. open_on. pose_loc. split; simpl; norm_pc; [|exact HP]. eapply Jw_put_keep; eauto.
  - break H. open_on. pose_loc. split; simpl; norm_pc; [|exact HP]. eapply Jw_put_keep; eauto.
  - break H. open_on. pose_loc. split; simpl; norm_pc; [|exact HP]. eapply Jw_put_keep; eauto.
  - (* close *) break H. open_on. pose_loc. split; simpl; norm_pc.
    + eapply Jw_put; [exact HJ|eassumption|..]; side; try (destruct (pc s); simpl in *; discriminate).
    + destruct (pc s); simpl in *; try discriminate. jp_tac.
  - (* release *) break H. open_on. pose_loc. apply Nat.eqb_eq in Heqb. subst. rewrite Heqb0 in *. split; simpl; norm_pc.
    + eapply Jw_put; [exact HJ|eassumption|..]; side.
    + try rewrite Heqs0 in HP. match goal with k0 : cont |- _ => destruct k0 end; jp_tac.
  - inversion H; subst. split; assumption.
  - (* returned *) break H. split; simpl; norm_pc.
    + eapply Jw_lists; [exact HJ|..]; side; try (destruct (pc s); simpl in *; discriminate).
    + destruct (pc s); simpl in *; try discriminate. jp_tac.
  - (* cb_wake *) break H. split; simpl; norm_pc.
    + eapply Jw_lists; [exact HJ|..]; side; try (destruct (pc s); simpl in *; discriminate).
    + destruct (pc s); simpl in *; try discriminate; jp_tac.
  - (* tau release *) break H. open_on. pose_loc. rewrite Heqb in *.
    eapply J_after_rel; [| | | |eassumption]; simpl; norm_pc.
    + eapply Jw_put; [exact HJ|eassumption|..]; side; try (simpl in *; congruence).
    + try rewrite Heqs0 in HP. match goal with k0 : cont |- _ => destruct k0 end; jp_tac.
    + try rewrite Heqs0 in HP. match goal with k0 : cont |- _ => destruct k0 end; jp_tac.
    + try rewrite Heqs0 in HP. match goal with k0 : cont |- _ => destruct k0 end; jp_tac.
  - (* tau break *) break H. eapply J_enter_clear; [| |eassumption]; simpl; [|reflexivity].
    destruct (pc s) eqn:Ep; simpl in Heqb; try discriminate.
    destruct HP as (_ & _ & _ & HP4). rewrite (HP4 eq_refl) in *.
    eapply Jw_lists; [exact HJ|..]; side.
  - (* wake begin *) break H. split; simpl; norm_pc.
    + eapply Jw_lists; [exact HJ|..]; side; try (destruct (pc s); simpl in *; discriminate).
    + destruct (pc s); simpl in *; try discriminate; jp_tac.
  - (* wake unlock *) break H. split; simpl; norm_pc.
    + eapply Jw_lists; [exact HJ|..]; side; try (destruct (pc s); simpl in *; discriminate).
    + destruct (pc s); simpl in *; try discriminate; jp_tac.
  - (* signal by a hand-over *) break H. split; simpl; assumption.
  - (* signal by anyone *) inversion H; subst. split; simpl; assumption.
  - (* clear-up *) break H. split; simpl; norm_pc.
    + eapply Jw_lists; [exact HJ|..]; side; try (destruct (pc s); simpl in *; discriminate).
    + destruct (pc s); simpl in *; try discriminate; jp_tac.
  - (* sleep *) break H. split; assumption.
Qed.

Lemma initf_J f : J (initf f).
Proof.
  split; simpl.
  - intros c x H. destruct c; discriminate.
  - unfold Jp; simpl. repeat split; intros; try discriminate; auto; try (destruct H; discriminate).
Qed.
Lemma init_J : J init.
Proof. apply initf_J. Qed.
Lemma run_J h : forall s, J s -> J (run s h).
Proof.
  induction h as [|e h IH]; intros s A; simpl; [assumption|]. apply IH. unfold run1.
  destruct (step s e) as [[s' r]|] eqn:E; [eapply step_J; eauto|assumption].
Qed.

(* once muggle_evloop_run has returned, the loop side holds no context *)
Lemma loop_done_holds_nothing f h c x :
  let s := run (initf f) h in
  pc s = PDone -> nth_error (ctxs s) c = Some x -> k_loc x = LUser \/ k_loc x = LNone.
Proof.
  intros s Hp Hx. destruct (run_J h (initf f) (initf_J f)) as [HJ (P1 & P2 & P3 & _)]. fold s in HJ, P1, P2, P3.
  rewrite Hp in *. simpl in *. specialize (P1 eq_refl). specialize (P2 eq_refl). specialize (P3 (or_intror eq_refl)).
  rewrite P1, P2, P3 in HJ. destruct (HJ c x Hx) as (A & B & C).
  destruct (k_loc x); auto; exfalso; simpl in *; try (specialize (C eq_refl); discriminate).
  - apply A; reflexivity.
  - destruct B as [B|B]; auto.
  - destruct B as [B|B]; auto.
Qed.

(* every context ever allocated (by the accept loop or handed over) has been closed and freed
   exactly once, once the loop has returned, the workers have released and done their release
   duty, and no context is still sitting with the user, never handed over *)
Theorem no_leak_at_exit f h :
  let s := run (initf f) h in
  pc s = PDone ->
  (forall c x, nth_error (ctxs s) c = Some x -> k_loc x <> LUser /\ k_work x = 0 /\ k_wfin x = 0) ->
  forall c x, nth_error (ctxs s) c = Some x ->
    k_freed x = true /\ k_nfree x = 1 /\ k_nfdc x = 1 /\ k_fd x = false.
Proof.
  intros s Hp Hall c x Hx. destruct (Hall c x Hx) as (Hu & Hw & Hf).
  destruct (loop_done_holds_nothing f h c x Hp Hx) as [L|L]; [contradiction|].
  apply (no_leak_local f h c x Hx). repeat split; assumption.
Qed.

Example no_leak_nonvacuous :
  let s := run init demo_history in
  pc s = PDone /\
  (forall c x, nth_error (ctxs s) c = Some x -> k_loc x <> LUser /\ k_work x = 0 /\ k_wfin x = 0) /\
  length (ctxs s) = 2.
Proof.
  vm_compute. split; [reflexivity|]. split; [|reflexivity].
  intros c x H. destruct c as [|[|c]]; simpl in H; [| |destruct c; discriminate];
    inversion H; subst; simpl; repeat split; first [discriminate|reflexivity].
Qed.

(* ------------------------------------------------------------------ *)
(* on_wake drains the whole hand-over queue                            *)

(* When on_wake leaves its while loop and releases handle->mtx, the hand-over queue is empty
   and no context is left in the "queued" position: every context that was queued when the
   wake-up was handled (however many muggle_socket_evloop_add_ctx calls coalesced into this
   one wake-up) has been registered (and is announced) or, if its registration failed,
   released.  Holds for every history. *)
Theorem queue_drained_per_wake f h s' r :
  step (run (initf f) h) ETauWakeUnlock = Some (s', r) ->
  queue s' = [] /\ pc s' = PWakeCb /\
  forall c x, nth_error (ctxs s') c = Some x -> k_loc x <> LQueue.
Proof.
  intros H. destruct (run_J h (initf f) (initf_J f)) as [HJ _]. set (s := run (initf f) h) in *.
  unfold step in H. destruct (spc_eqb (pc s) PWake); [|discriminate].
  destruct (queue s) eqn:Eq; [|discriminate]. inversion H; subst; clear H. simpl.
  split; [exact Eq|]. split; [reflexivity|]. intros c x Hx Hl.
  destruct (HJ c x Hx) as (A & _ & _). apply (A Hl).
Qed.

(* on_wake cannot end (unlock, cb_wake) while a context is queued, and the only thing it can do
   with the queue is take its head: registration is in queue order *)
Lemma wake_cannot_end_with_queued s c q :
  pc s = PWake -> queue s = c :: q ->
  step s ETauWakeUnlock = None /\ step s EWake = None /\
  forall d ok, d <> c -> step s (EReg d ok) = None.
Proof.
  intros Hp Hq. unfold step. rewrite Hp, Hq. simpl. repeat split.
  intros d ok Ne. destruct (Nat.eqb_spec d c); [contradiction|reflexivity].
Qed.

(* three hand-overs coalesce into one wake-up: all three are registered and announced in
   queue order before on_wake can end *)
Example wake_drains_burst :
  let h := [EHalloc KConn 1; EHalloc KConn 2; EHalloc KConn 3; EHand 0; EHand 1; EHand 2;
            ESigHand 0; ESigHand 2; ESigClear; ESigHand 1 (* lands after the clear-up: sets the signal again *);
            ETauWakeBegin; EReg 0 true; EAddctx 0; ETauWakeUnlock (* not enabled: skipped *);
            EReg 2 true (* not the head: skipped *); EReg 1 true; EAddctx 1; EReg 2 false; ETauRel (* count 0: not silent *);
            ERelease 2; EFdclose 2; EFree 2; ETauWakeUnlock; EWake] in
  let s := run init h in
  pc s = PIdle /\ queue s = [] /\ reg s = [0; 1] /\
  map (fun x => (k_ann x, k_nrel x, k_nfree x)) (ctxs s) = [(1, 0, 0); (1, 0, 0); (0, 1, 1)].
Proof. vm_compute. repeat split; reflexivity. Qed.
