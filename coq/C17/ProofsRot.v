(* C17 — size-rotating handler: refinement of the segment specification *)
From MV Require Import C17.Model C17.ProofsFs.
Local Open Scope Z_scope.

Notation sget := (fs_get sname_eqb).
Definition bk (fs : fsys sname) (i : nat) : list msg := fs_content sname_eqb (SBak i) fs.
Definition live (fs : fsys sname) : list msg := fs_content sname_eqb SLive fs.

(* number of backups the handler keeps: backup_count, but never fewer than one *)
Definition Kof (bc : nat) : nat := Nat.max bc 1.

(* backups oldest .. newest, then the live file *)
Definition retained (K : nat) (fs : fsys sname) : list msg :=
  concat (map (bk fs) (rev (seq 1 K))) ++ live fs.

Definition r_written (ops : list rop) : list msg :=
  flat_map (fun o => match o with RWrite m => [m] | RRestart _ => [] end) ops.

(* ---------------------------------------------------------------------- *)
(* segment specification: the lines written so far are cut into segments; a
   segment is closed as soon as its size reaches max_bytes (tested after each
   write and at every (re)start) *)
Record spec := { sp_live : list msg; sp_closed : list (list msg) (* newest first *); sp_max : Z }.

Definition sp_rotate (s : spec) : spec :=
  {| sp_live := []; sp_closed := sp_live s :: sp_closed s; sp_max := sp_max s |}.
Definition sp_check (s : spec) : spec :=
  if file_size (sp_live s) >=? sp_max s then sp_rotate s else s.
Definition sp_step (s : spec) (o : rop) : spec :=
  match o with
  | RWrite m => sp_check {| sp_live := sp_live s ++ [m]; sp_closed := sp_closed s; sp_max := sp_max s |}
  | RRestart mb => sp_check {| sp_live := sp_live s; sp_closed := sp_closed s; sp_max := mb |}
  end.
Definition sp_init (K : nat) (fs : fsys sname) (mb : Z) : spec :=
  sp_check {| sp_live := live fs; sp_closed := map (bk fs) (seq 1 K); sp_max := mb |}.
Definition sp_run (s : spec) (ops : list rop) : spec := fold_left sp_step ops s.

Definition sp_all (s : spec) : list msg := concat (rev (sp_closed s)) ++ sp_live s.

Lemma sp_all_rotate : forall s, sp_all (sp_rotate s) = sp_all s.
Proof.
  intro s. unfold sp_all, sp_rotate. simpl. rewrite concat_app. simpl.
  rewrite !app_nil_r. reflexivity.
Qed.

Lemma sp_all_check : forall s, sp_all (sp_check s) = sp_all s.
Proof. intro s. unfold sp_check. destruct (_ >=? _); [apply sp_all_rotate|reflexivity]. Qed.

Lemma sp_all_step : forall s o,
  sp_all (sp_step s o) = sp_all s ++ match o with RWrite m => [m] | RRestart _ => [] end.
Proof.
  intros s [m|mb]; unfold sp_step; rewrite sp_all_check; unfold sp_all; simpl.
  - rewrite app_assoc. reflexivity.
  - rewrite app_nil_r. reflexivity.
Qed.

Lemma sp_all_run : forall ops s, sp_all (sp_run s ops) = sp_all s ++ r_written ops.
Proof.
  induction ops as [|o r IH]; intro s; simpl.
  - rewrite app_nil_r. reflexivity.
  - unfold sp_run in *. simpl. rewrite IH, sp_all_step. unfold r_written. simpl.
    rewrite <- app_assoc. reflexivity.
Qed.

Lemma sp_closed_len_check : forall s, (length (sp_closed s) <= length (sp_closed (sp_check s)))%nat.
Proof. intro s. unfold sp_check. destruct (_ >=? _); simpl; lia. Qed.

Lemma sp_closed_len_step : forall s o, (length (sp_closed s) <= length (sp_closed (sp_step s o)))%nat.
Proof.
  intros s [m|mb]; unfold sp_step;
    match goal with |- (_ <= length (sp_closed (sp_check ?x)))%nat =>
      pose proof (sp_closed_len_check x) as H; simpl in H; exact H end.
Qed.

Lemma sp_closed_len_run : forall ops s, (length (sp_closed s) <= length (sp_closed (sp_run s ops)))%nat.
Proof.
  induction ops as [|o r IH]; intro s; simpl; [lia|].
  unfold sp_run in *. simpl. pose proof (IH (sp_step s o)). pose proof (sp_closed_len_step s o). lia.
Qed.

(* ---------------------------------------------------------------------- *)
(* the rename chain *)
Lemma chain_spec : forall j fs,
  sget (SBak (S j)) fs = None ->
  (forall i, (1 <= i <= j)%nat -> sget (SBak (S i)) (r_chain j fs) = sget (SBak i) fs) /\
  ((1 <= j)%nat -> sget (SBak 1) (r_chain j fs) = None) /\
  (forall i, (i = 0 \/ S j < i)%nat -> sget (SBak i) (r_chain j fs) = sget (SBak i) fs) /\
  sget SLive (r_chain j fs) = sget SLive fs.
Proof.
  induction j as [|j IH]; intros fs Hnone.
  - simpl. repeat split; intros; try lia; reflexivity.
  - simpl r_chain.
    set (fs1 := fs_rename sname_eqb (SBak (S j)) (SBak (S (S j))) fs).
    assert (G : forall q, sget q fs1 =
              match sget (SBak (S j)) fs with
              | None => sget q fs
              | Some c => if sname_eqb q (SBak (S (S j))) then Some c
                          else if sname_eqb q (SBak (S j)) then None else sget q fs
              end) by (intro q; apply (get_rename _ _ sname_eqb_eq)).
    assert (Gtop : sget (SBak (S (S j))) fs1 = sget (SBak (S j)) fs).
    { rewrite G. destruct (sget (SBak (S j)) fs) eqn:E.
      - simpl. rewrite Nat.eqb_refl. reflexivity.
      - exact Hnone. }
    assert (Gsrc : sget (SBak (S j)) fs1 = None).
    { rewrite G. destruct (sget (SBak (S j)) fs) eqn:E.
      - simpl. rewrite Nat.eqb_refl.
        replace (j =? S j)%nat with false by (symmetry; apply Nat.eqb_neq; lia). reflexivity.
      - reflexivity. }
    assert (Goth : forall q, q <> SBak (S j) -> q <> SBak (S (S j)) -> sget q fs1 = sget q fs).
    { intros q H1 H2. rewrite G. destruct (sget (SBak (S j)) fs); [|reflexivity].
      rewrite (keqb_neq _ _ sname_eqb_eq _ _ H2), (keqb_neq _ _ sname_eqb_eq _ _ H1). reflexivity. }
    destruct (IH fs1 Gsrc) as [A [B [C D]]].
    repeat split.
    + intros i Hi. destruct (Nat.eq_dec i (S j)) as [->|Hne].
      * rewrite C by lia. exact Gtop.
      * rewrite A by lia. apply Goth; intro H; injection H; lia.
    + intros _. destruct j as [|j'].
      * simpl. exact Gsrc.
      * apply B. lia.
    + intros i Hi. rewrite C by lia. apply Goth; intro H; injection H; lia.
    + rewrite D. apply Goth; discriminate.
Qed.

(* what one rotation does to every file *)
Lemma rotate_files : forall h l,
  sget SLive (r_fs h) = Some l ->
  let K := Kof (r_bc h) in
  let fs' := r_fs (r_rotate h) in
  sget SLive fs' = Some [] /\
  sget (SBak 1) fs' = Some l /\
  (forall i, (1 <= i < K)%nat -> sget (SBak (S i)) fs' = sget (SBak i) (r_fs h)) /\
  (forall i, (K < i)%nat -> sget (SBak i) fs' = sget (SBak i) (r_fs h)).
Proof.
  intros h l Hl K fs'. unfold fs', r_rotate. cbn [r_fs].
  set (fs0 := r_fs h) in *.
  set (last := SBak (r_bc h)).
  set (fs1 := if fs_exists sname_eqb last fs0 then fs_remove sname_eqb last fs0 else fs0).
  assert (F1last : sget last fs1 = None).
  { unfold fs1, fs_exists. destruct (sget last fs0) eqn:E.
    - rewrite (get_remove _ _ sname_eqb_eq). rewrite (keqb_refl _ _ sname_eqb_eq). reflexivity.
    - exact E. }
  assert (F1oth : forall q, q <> last -> sget q fs1 = sget q fs0).
  { intros q Hq. unfold fs1. destruct (fs_exists sname_eqb last fs0); [|reflexivity].
    rewrite (get_remove _ _ sname_eqb_eq). rewrite (keqb_neq _ _ sname_eqb_eq _ _ Hq). reflexivity. }
  set (fs2 := r_chain (r_bc h - 1) fs1).
  (* facts about fs2, by cases on backup_count *)
  assert (F2 : sget SLive fs2 = Some l /\
               (forall i, (1 <= i < K)%nat -> sget (SBak (S i)) fs2 = sget (SBak i) fs0) /\
               (forall i, (K < i)%nat -> sget (SBak i) fs2 = sget (SBak i) fs0) /\
               ((1 <= r_bc h)%nat -> sget (SBak 1) fs2 = None)).
  { unfold fs2, K, Kof, last in *. destruct (r_bc h) as [|b] eqn:Eb.
    - simpl. repeat split; intros; try lia.
      + rewrite F1oth by discriminate. exact Hl.
      + apply F1oth. intro HH. injection HH. lia.
    - replace (S b - 1)%nat with b by lia.
      destruct (chain_spec b fs1 F1last) as [A [B [C D]]].
      replace (Nat.max (S b) 1) with (S b) by lia.
      repeat split.
      + rewrite D. rewrite F1oth by discriminate. exact Hl.
      + intros i Hi. rewrite A by lia. apply F1oth. intro H. injection H. lia.
      + intros i Hi. rewrite C by lia. apply F1oth. intro H. injection H. lia.
      + intros _. destruct b as [|b'].
        * simpl. exact F1last.
        * apply B. lia. }
  destruct F2 as [F2l [F2s [F2f F2one]]].
  set (fs3 := fs_rename sname_eqb SLive (SBak 1) fs2).
  assert (G3 : forall q, sget q fs3 = if sname_eqb q (SBak 1) then Some l
                                      else if sname_eqb q SLive then None else sget q fs2).
  { intro q. unfold fs3. rewrite (get_rename _ _ sname_eqb_eq). rewrite F2l. reflexivity. }
  assert (G4 : forall q, sget q (fs_open_append sname_eqb SLive fs3) =
                         if sname_eqb q SLive then Some [] else sget q fs3).
  { intro q. rewrite (get_open_append _ _ sname_eqb_eq). unfold fs_content. rewrite G3. simpl. reflexivity. }
  repeat split.
  - rewrite G4. reflexivity.
  - rewrite G4, G3. reflexivity.
  - intros i Hi. rewrite G4, G3. simpl.
    replace (i =? 0)%nat with false by (symmetry; apply Nat.eqb_neq; lia).
    apply F2s. exact Hi.
  - intros i Hi. rewrite G4, G3. simpl.
    assert (1 <= K)%nat by (unfold K, Kof; lia).
    destruct i as [|[|i']]; try lia. simpl. apply F2f. exact Hi.
Qed.

(* ---------------------------------------------------------------------- *)
(* refinement relation *)
Record R (K : nat) (h : rh) (s : spec) : Prop := {
  R_open : r_open h = true;
  R_K : K = Kof (r_bc h);
  R_live : sget SLive (r_fs h) = Some (sp_live s);
  R_off : r_offset h = file_size (sp_live s);
  R_max : r_max h = sp_max s;
  R_bk : forall i, (1 <= i <= K)%nat -> bk (r_fs h) i = nth (i - 1) (sp_closed s) []
}.

Lemma R_rotate : forall K h s, R K h s -> R K (r_rotate h) (sp_rotate s) /\ r_bc (r_rotate h) = r_bc h.
Proof.
  intros K h s [Ho HK Hl Hoff Hm Hb]. split; [|reflexivity].
  destruct (rotate_files h _ Hl) as [A [B [C D]]]. rewrite <- HK in *.
  constructor; try reflexivity; try assumption.
  intros i Hi. unfold bk, fs_content. destruct i as [|[|i']]; [lia| |].
  - rewrite B. reflexivity.
  - rewrite C by lia.
    specialize (Hb (S i')). unfold bk, fs_content in Hb. rewrite Hb by lia.
    simpl. rewrite ?Nat.sub_0_r. reflexivity.
Qed.

Lemma R_check : forall K h s,
  R K h s ->
  R K (if r_offset h >=? r_max h then r_rotate h else h) (sp_check s) /\
  r_bc (if r_offset h >=? r_max h then r_rotate h else h) = r_bc h.
Proof.
  intros K h s HR. unfold sp_check. rewrite <- (R_off _ _ _ HR), <- (R_max _ _ _ HR).
  destruct (r_offset h >=? r_max h).
  - apply R_rotate. exact HR.
  - split; [exact HR|reflexivity].
Qed.

Lemma R_init : forall fs mb bc,
  R (Kof bc) (r_init fs mb bc) (sp_init (Kof bc) fs mb) /\ r_bc (r_init fs mb bc) = bc.
Proof.
  intros fs mb bc. unfold r_init, sp_init.
  set (fs1 := fs_open_append sname_eqb SLive fs).
  assert (G : forall q, sget q fs1 = if sname_eqb q SLive then Some (live fs) else sget q fs)
    by (intro q; apply (get_open_append _ _ sname_eqb_eq)).
  assert (Hc : fs_content sname_eqb SLive fs1 = live fs).
  { unfold fs_content. rewrite G. reflexivity. }
  rewrite Hc.
  set (h0 := {| r_fs := fs1; r_open := true; r_offset := file_size (live fs); r_max := mb; r_bc := bc |}).
  set (s0 := {| sp_live := live fs; sp_closed := map (bk fs) (seq 1 (Kof bc)); sp_max := mb |}).
  assert (HR : R (Kof bc) h0 s0).
  { constructor; try reflexivity.
    - simpl. rewrite G. reflexivity.
    - intros i Hi. simpl. unfold bk at 1, fs_content. rewrite G. simpl.
      change (match sget (SBak i) fs with Some c => c | None => [] end) with (bk fs i).
      rewrite (nth_indep _ [] (bk fs 0)) by (rewrite map_length, seq_length; lia).
      rewrite map_nth. rewrite seq_nth by lia. f_equal. lia. }
  exact (R_check _ h0 s0 HR).
Qed.

Lemma R_step : forall K h s o,
  R K h s -> R K (r_step h o) (sp_step s o) /\ r_bc (r_step h o) = r_bc h.
Proof.
  intros K h s [m|mb] HR.
  - (* write *)
    pose proof HR as [Ho HK Hl Hoff Hm Hb].
    unfold r_step, r_write, sp_step. rewrite Ho.
    set (h1 := {| r_fs := fs_append sname_eqb SLive m (r_fs h); r_open := true;
                  r_offset := r_offset h + m_len m; r_max := r_max h; r_bc := r_bc h |}).
    set (s1 := {| sp_live := sp_live s ++ [m]; sp_closed := sp_closed s; sp_max := sp_max s |}).
    assert (G : forall q, sget q (r_fs h1) = if sname_eqb q SLive then Some (sp_live s ++ [m]) else sget q (r_fs h)).
    { intro q. unfold h1. cbn [r_fs]. rewrite (get_append _ _ sname_eqb_eq).
      rewrite (content_get _ _ _ _ _ Hl). reflexivity. }
    assert (HR1 : R K h1 s1).
    { constructor; try assumption; try reflexivity.
      - rewrite G. reflexivity.
      - simpl. rewrite file_size_app, file_size_single, Hoff. reflexivity.
      - intros i Hi. unfold bk, fs_content. rewrite G. simpl. apply (Hb i Hi). }
    destruct (R_check K h1 s1 HR1) as [A B].
    change (r_offset h + m_len m) with (r_offset h1). change (r_max h) with (r_max h1).
    destruct (r_offset h1 >=? r_max h1); simpl; split; assumption.
  - (* restart *)
    pose proof HR as [Ho HK Hl Hoff Hm Hb].
    unfold r_step, r_restart, r_init, sp_step. cbn [r_destroy r_fs r_bc].
    set (fs1 := fs_open_append sname_eqb SLive (r_fs h)).
    assert (G : forall q, sget q fs1 = sget q (r_fs h)).
    { intro q. unfold fs1. rewrite (get_open_append _ _ sname_eqb_eq).
      destruct (sname_eqb q SLive) eqn:E; [|reflexivity].
      apply sname_eqb_eq in E. subst q. rewrite (content_get _ _ _ _ _ Hl). symmetry. exact Hl. }
    assert (Hc : fs_content sname_eqb SLive fs1 = sp_live s).
    { unfold fs_content. rewrite G, Hl. reflexivity. }
    rewrite Hc.
    set (h0 := {| r_fs := fs1; r_open := true; r_offset := file_size (sp_live s); r_max := mb; r_bc := r_bc h |}).
    set (s0 := {| sp_live := sp_live s; sp_closed := sp_closed s; sp_max := mb |}).
    assert (HR0 : R K h0 s0).
    { constructor; try assumption; try reflexivity.
      - simpl. rewrite G. exact Hl.
      - intros i Hi. unfold bk, fs_content. simpl. rewrite G. apply (Hb i Hi). }
    exact (R_check K h0 s0 HR0).
Qed.

Lemma R_run : forall ops K h s,
  R K h s -> R K (r_run h ops) (sp_run s ops) /\ r_bc (r_run h ops) = r_bc h.
Proof.
  induction ops as [|o r IH]; intros K h s HR; simpl.
  - split; [exact HR|reflexivity].
  - destruct (R_step K h s o HR) as [A B].
    destruct (IH K _ _ A) as [C D]. unfold r_run, sp_run in *. simpl. split; [exact C|congruence].
Qed.

(* ---------------------------------------------------------------------- *)
(* from the relation to the files *)
Lemma firstn_as_nth : forall (A : Type) (d : A) K (c : list A),
  (K <= length c)%nat -> map (fun i => nth (i - 1) c d) (seq 1 K) = firstn K c.
Proof.
  intros A d K. induction K as [|K IH]; intros c Hlen; [reflexivity|].
  destruct c as [|x c]; [simpl in Hlen; lia|].
  simpl. f_equal. rewrite <- (IH c) by (simpl in Hlen; lia).
  rewrite <- seq_shift, map_map. apply map_ext_in. intros i Hi. apply in_seq in Hi.
  destruct i as [|i']; [lia|]. simpl. rewrite Nat.sub_0_r. reflexivity.
Qed.

Lemma retained_spec : forall K h s,
  R K h s -> (K <= length (sp_closed s))%nat ->
  retained K (r_fs h) = concat (rev (firstn K (sp_closed s))) ++ sp_live s.
Proof.
  intros K h s HR Hlen. unfold retained. f_equal.
  - rewrite map_rev. f_equal. f_equal. rewrite <- (firstn_as_nth _ [] K (sp_closed s) Hlen).
    apply map_ext_in. intros i Hi. apply in_seq in Hi. apply (R_bk _ _ _ HR). lia.
  - unfold live. apply (content_get _ _ _ _ _ (R_live _ _ _ HR)).
Qed.

Lemma sp_all_split : forall K s,
  sp_all s = concat (rev (skipn K (sp_closed s))) ++ (concat (rev (firstn K (sp_closed s))) ++ sp_live s).
Proof.
  intros K s. unfold sp_all. rewrite app_assoc. f_equal.
  rewrite <- concat_app, <- rev_app_distr, firstn_skipn. reflexivity.
Qed.

Lemma sp_init_all : forall K fs mb, sp_all (sp_init K fs mb) = retained K fs.
Proof.
  intros. unfold sp_init. rewrite sp_all_check. unfold sp_all, retained. simpl.
  rewrite map_rev. reflexivity.
Qed.

Lemma sp_init_len : forall K fs mb, (K <= length (sp_closed (sp_init K fs mb)))%nat.
Proof.
  intros. unfold sp_init.
  match goal with |- (_ <= length (sp_closed (sp_check ?x)))%nat => pose proof (sp_closed_len_check x) as H end.
  simpl in H. rewrite map_length, seq_length in H. exact H.
Qed.

(* main statement: the files are the K newest closed segments + the open one,
   and what is gone is exactly the older segments *)
Theorem rot_refines_segments : forall fs0 mb bc ops,
  let K := Kof bc in
  let h := r_run (r_init fs0 mb bc) ops in
  let s := sp_run (sp_init K fs0 mb) ops in
  (forall i, (1 <= i <= K)%nat -> bk (r_fs h) i = nth (i - 1) (sp_closed s) []) /\
  sget SLive (r_fs h) = Some (sp_live s) /\
  retained K fs0 ++ r_written ops = concat (rev (skipn K (sp_closed s))) ++ retained K (r_fs h).
Proof.
  intros fs0 mb bc ops K h s.
  destruct (R_init fs0 mb bc) as [HR0 Hbc0].
  destruct (R_run ops _ _ _ HR0) as [HR Hbc]. fold K h s in HR.
  assert (Hlen : (K <= length (sp_closed s))%nat).
  { unfold s. pose proof (sp_closed_len_run ops (sp_init K fs0 mb)). pose proof (sp_init_len K fs0 mb). lia. }
  repeat split.
  - apply (R_bk _ _ _ HR).
  - apply (R_live _ _ _ HR).
  - rewrite (retained_spec K h s HR Hlen). rewrite <- sp_all_split.
    unfold s. rewrite sp_all_run, sp_init_all. reflexivity.
Qed.

Lemma NoDup_app_tail : forall (A : Type) (a b : list A), NoDup (a ++ b) -> NoDup b.
Proof.
  induction a as [|x a IH]; intros b H; [exact H|].
  simpl in H. inversion H; subst. apply IH. assumption.
Qed.

Theorem rot_suffix : forall fs0 mb bc ops,
  let K := Kof bc in
  let h := r_run (r_init fs0 mb bc) ops in
  exists lost,
    retained K fs0 ++ r_written ops = lost ++ retained K (r_fs h) /\
    (NoDup (map m_id (retained K fs0 ++ r_written ops)) -> NoDup (map m_id (retained K (r_fs h)))).
Proof.
  intros fs0 mb bc ops K h.
  destruct (rot_refines_segments fs0 mb bc ops) as [_ [_ E]]. fold K h in E.
  eexists. split; [exact E|].
  intro ND. rewrite E, map_app in ND. apply NoDup_app_tail in ND. exact ND.
Qed.

(* files beyond the kept backups are never touched *)
Lemma frame_rotate : forall h l i,
  sget SLive (r_fs h) = Some l -> (Kof (r_bc h) < i)%nat ->
  sget (SBak i) (r_fs (r_rotate h)) = sget (SBak i) (r_fs h).
Proof. intros h l i Hl Hi. destruct (rotate_files h l Hl) as [_ [_ [_ D]]]. apply D. exact Hi. Qed.

Definition Fr (fs0 : fsys sname) (K : nat) (h : rh) : Prop :=
  forall i, (K < i)%nat -> sget (SBak i) (r_fs h) = sget (SBak i) fs0.

Lemma frame_check : forall fs0 K h s,
  R K h s -> Fr fs0 K h -> Fr fs0 K (if r_offset h >=? r_max h then r_rotate h else h).
Proof.
  intros fs0 K h s HR HF. destruct (_ >=? _); [|exact HF].
  intros i Hi. rewrite (frame_rotate h _ i (R_live _ _ _ HR)); [apply HF; exact Hi|].
  rewrite <- (R_K _ _ _ HR). exact Hi.
Qed.

Lemma frame_run : forall fs0 mb bc ops,
  Fr fs0 (Kof bc) (r_run (r_init fs0 mb bc) ops).
Proof.
  intros fs0 mb bc ops.
  assert (G : forall h s, R (Kof bc) h s -> Fr fs0 (Kof bc) h -> Fr fs0 (Kof bc) (r_run h ops)).
  { induction ops as [|o r IH]; intros h s HR HF; [exact HF|].
    unfold r_run in *. simpl. destruct (R_step _ h s o HR) as [HR' _].
    apply (IH _ _ HR'). clear IH.
    pose proof HR as [Ho HK Hl Hoff Hm Hb].
    destruct o as [m|mb']; unfold r_step, r_write, r_restart, r_init; cbn [r_destroy r_fs r_bc].
    - rewrite Ho.
      set (h1 := {| r_fs := fs_append sname_eqb SLive m (r_fs h); r_open := true;
                    r_offset := r_offset h + m_len m; r_max := r_max h; r_bc := r_bc h |}).
      assert (HF1 : Fr fs0 (Kof bc) h1).
      { intros i Hi. unfold h1. cbn [r_fs]. rewrite (get_append _ _ sname_eqb_eq). simpl. apply HF. exact Hi. }
      assert (HR1 : R (Kof bc) h1 {| sp_live := sp_live s ++ [m]; sp_closed := sp_closed s; sp_max := sp_max s |}).
      { constructor; try assumption; try reflexivity.
        - unfold h1. cbn [r_fs]. rewrite (get_append _ _ sname_eqb_eq). simpl.
          rewrite (content_get _ _ _ _ _ Hl). reflexivity.
        - simpl. rewrite file_size_app, file_size_single, Hoff. reflexivity.
        - intros i Hi. unfold bk, fs_content, h1. cbn [r_fs]. rewrite (get_append _ _ sname_eqb_eq). simpl.
          apply (Hb i Hi). }
      pose proof (frame_check fs0 _ h1 _ HR1 HF1) as Q.
      change (r_offset h + m_len m) with (r_offset h1). change (r_max h) with (r_max h1).
      destruct (r_offset h1 >=? r_max h1); exact Q.
    - set (fs1 := fs_open_append sname_eqb SLive (r_fs h)).
      assert (G : forall q, sget q fs1 = sget q (r_fs h)).
      { intro q. unfold fs1. rewrite (get_open_append _ _ sname_eqb_eq).
        destruct (sname_eqb q SLive) eqn:E; [|reflexivity].
        apply sname_eqb_eq in E. subst q. rewrite (content_get _ _ _ _ _ Hl). symmetry. exact Hl. }
      assert (Hc : fs_content sname_eqb SLive fs1 = sp_live s).
      { unfold fs_content. rewrite G, Hl. reflexivity. }
      rewrite Hc.
      set (h0 := {| r_fs := fs1; r_open := true; r_offset := file_size (sp_live s); r_max := mb'; r_bc := r_bc h |}).
      assert (HR0 : R (Kof bc) h0 {| sp_live := sp_live s; sp_closed := sp_closed s; sp_max := mb' |}).
      { constructor; try assumption; try reflexivity.
        - simpl. rewrite G. exact Hl.
        - intros i Hi. unfold bk, fs_content. simpl. rewrite G. apply (Hb i Hi). }
      assert (HF0 : Fr fs0 (Kof bc) h0).
      { intros i Hi. simpl. rewrite G. apply HF. exact Hi. }
      exact (frame_check fs0 _ h0 _ HR0 HF0). }
  destruct (R_init fs0 mb bc) as [HR0 _].
  apply (G _ _ HR0).
  (* frame of init *)
  unfold r_init.
  set (fs1 := fs_open_append sname_eqb SLive fs0).
  assert (G1 : forall q, sget q fs1 = if sname_eqb q SLive then Some (live fs0) else sget q fs0)
    by (intro q; apply (get_open_append _ _ sname_eqb_eq)).
  set (h0 := {| r_fs := fs1; r_open := true; r_offset := file_size (fs_content sname_eqb SLive fs1); r_max := mb; r_bc := bc |}).
  assert (HF0 : Fr fs0 (Kof bc) h0).
  { intros i Hi. simpl. rewrite G1. reflexivity. }
  destruct (file_size (fs_content sname_eqb SLive fs1) >=? mb); [|exact HF0].
  intros i Hi. rewrite (frame_rotate h0 (live fs0) i); [apply HF0; exact Hi| |exact Hi].
  simpl. rewrite G1. reflexivity.
Qed.

(* backup_count = 0: exactly one backup (.1) is kept: the most recently closed
   segment; no other backup file is created, changed or removed *)
Theorem rot_bc_zero : forall fs0 mb ops,
  let h := r_run (r_init fs0 mb 0) ops in
  let s := sp_run (sp_init 1 fs0 mb) ops in
  bk (r_fs h) 1 = hd [] (sp_closed s) /\
  sget SLive (r_fs h) = Some (sp_live s) /\
  (forall i, (2 <= i)%nat -> sget (SBak i) (r_fs h) = sget (SBak i) fs0) /\
  retained 1 fs0 ++ r_written ops = concat (rev (tl (sp_closed s))) ++ bk (r_fs h) 1 ++ live (r_fs h).
Proof.
  intros fs0 mb ops h s.
  destruct (rot_refines_segments fs0 mb 0 ops) as [A [B C]].
  change (Kof 0) with 1%nat in *. fold h s in A, B, C.
  repeat split.
  - rewrite (A 1%nat) by lia. simpl. destruct (sp_closed s); reflexivity.
  - exact B.
  - intros i Hi. apply (frame_run fs0 mb 0 ops). change (Kof 0) with 1%nat. lia.
  - rewrite C. unfold retained. simpl. rewrite app_nil_r.
    destruct (sp_closed s); reflexivity.
Qed.

(* ---------------------------------------------------------------------- *)
(* non-vacuity: three backups, a pre-existing full live file, seven writes and a
   restart; lines 1..4 are discarded, .3 .2 .1 and the live file hold 5..10 *)
Definition ex_msg (i n : Z) : msg := {| m_id := i; m_len := n; m_ts := 0 |}.
Definition ex_fs0 : fsys sname :=
  [(SBak 2, [ex_msg 1 6; ex_msg 2 6]); (SBak 1, [ex_msg 3 6]); (SLive, [ex_msg 4 6; ex_msg 5 6])].
Definition ex_ops : list rop :=
  [RWrite (ex_msg 6 6); RWrite (ex_msg 7 6); RWrite (ex_msg 8 12); RWrite (ex_msg 9 5); RRestart 5;
   RWrite (ex_msg 10 4); RWrite (ex_msg 11 9)].

Example rot_example :
  let h := r_run (r_init ex_fs0 12 3) ex_ops in
  map m_id (retained 3 (r_fs h)) = [8; 9; 10; 11] /\
  map m_id (bk (r_fs h) 3) = [8] /\ map m_id (bk (r_fs h) 2) = [9] /\ map m_id (bk (r_fs h) 1) = [10; 11] /\
  live (r_fs h) = [] /\
  map m_id (retained 3 ex_fs0 ++ r_written ex_ops) = [1; 2; 3; 4; 5; 6; 7; 8; 9; 10; 11].
Proof. vm_compute. repeat split. Qed.

Example rot_bc_zero_example :
  let h := r_run (r_init [(SBak 1, [ex_msg 1 20]); (SBak 2, [ex_msg 0 9])] 40 0)
                 [RWrite (ex_msg 2 20); RWrite (ex_msg 3 20); RWrite (ex_msg 4 41); RWrite (ex_msg 5 16)] in
  map m_id (bk (r_fs h) 1) = [4] /\ map m_id (live (r_fs h)) = [5] /\ map m_id (bk (r_fs h) 2) = [0].
Proof. vm_compute. repeat split. Qed.
