(* C17 — time-rotating handler (repaired code): every line lies in the file whose
   name denotes the period of its time stamp *)
From MV Require Import C17.Model C17.ProofsFs.
Local Open Scope Z_scope.

Notation tget := (fs_get tname_eqb).

(* the period of a broken-down time for unit u and rotate_mod md: exactly the
   quantities compared by muggle_log_file_time_rot_handler_detect *)
Definition period_key (u : tunit) (md : Z) (t : tm) : list Z :=
  match u with
  | USec => [tm_year t + 1900; tm_mon t + 1; tm_mday t; tm_hour t; tm_min t; tm_sec t / md]
  | UMin => [tm_year t + 1900; tm_mon t + 1; tm_mday t; tm_hour t; tm_min t / md]
  | UHour => [tm_year t + 1900; tm_mon t + 1; tm_mday t; tm_hour t / md]
  | UDay => [tm_year t + 1900; tm_mon t + 1; tm_mday t / md]
  end.

(* the period a file name denotes: its numbers, the last one divided by rotate_mod *)
Definition period_of_name (md : Z) (n : tname) : list Z :=
  removelast n ++ [last n 0 / md].

Lemma period_of_filename : forall u md t, period_of_name md (t_filename u t) = period_key u md t.
Proof. intros [] md t; reflexivity. Qed.

Lemma same_period_iff : forall u md c l,
  same_period u md c l = true <-> period_key u md c = period_key u md l.
Proof.
  intros u md c l. destruct u; unfold same_period, period_key;
    rewrite ?andb_true_iff, ?Z.eqb_eq; split; intro H.
  - destruct H as [[[[[H1 H2] H3] H4] H5] H6]. congruence.
  - injection H as H1 H2 H3 H4 H5 H6. repeat split; lia.
  - destruct H as [[[[H1 H2] H3] H4] H5]. congruence.
  - injection H as H1 H2 H3 H4 H5. repeat split; lia.
  - destruct H as [[[H1 H2] H3] H4]. congruence.
  - injection H as H1 H2 H3 H4. repeat split; lia.
  - destruct H as [[H1 H2] H3]. congruence.
  - injection H as H1 H2 H3. repeat split; lia.
Qed.

(* ---------------------------------------------------------------------- *)
(* configuration is never changed by the operations *)
Definition cfg_of (h : th) := (t_unit h, t_mod h, t_local h, t_zone h).

Lemma cfg_rotate : forall h, cfg_of (t_rotate h) = cfg_of h.
Proof. reflexivity. Qed.

Lemma cfg_detect : forall h sec, cfg_of (fst (t_detect h sec)) = cfg_of h.
Proof. intros. unfold t_detect. destruct (_ >=? _); reflexivity. Qed.

(* invariant *)
Definition files_ok (u : tunit) (md : Z) (local : bool) (tz : zone) (fs : fsys tname) : Prop :=
  forall n c m, tget n fs = Some c -> In m c ->
    period_of_name md n = period_key u md (brokendown local tz (m_ts m)).

Record TI (u : tunit) (md : Z) (local : bool) (tz : zone) (h : th) : Prop := {
  TI_cfg : cfg_of h = (u, md, local, tz);
  TI_files : files_ok u md local tz (t_fs h);
  TI_open : exists n, t_open h = Some n /\ period_of_name md n = period_key u md (t_last_tm h);
  TI_tm : t_last_tm h = brokendown local tz (t_last_sec h)
}.

Lemma files_ok_open_append : forall u md local tz fs n,
  files_ok u md local tz fs -> files_ok u md local tz (fs_open_append tname_eqb n fs).
Proof.
  intros u md local tz fs n H q c m Hg Hin.
  rewrite (get_open_append _ _ tname_eqb_eq) in Hg.
  destruct (tname_eqb q n) eqn:E.
  - apply tname_eqb_eq in E. subst q. injection Hg as <-.
    unfold fs_content in Hin. destruct (tget n fs) as [c0|] eqn:E0; [|contradiction].
    apply (H n c0 m E0 Hin).
  - apply (H q c m Hg Hin).
Qed.

Lemma files_ok_append : forall u md local tz fs n m,
  files_ok u md local tz fs ->
  period_of_name md n = period_key u md (brokendown local tz (m_ts m)) ->
  files_ok u md local tz (fs_append tname_eqb n m fs).
Proof.
  intros u md local tz fs n m H Hm q c x Hg Hin.
  rewrite (get_append _ _ tname_eqb_eq) in Hg.
  destruct (tname_eqb q n) eqn:E.
  - apply tname_eqb_eq in E. subst q. injection Hg as <-.
    apply in_app_or in Hin. destruct Hin as [Hin|[<-|[]]]; [|exact Hm].
    unfold fs_content in Hin. destruct (tget n fs) as [c0|] eqn:E0; [|contradiction].
    apply (H n c0 x E0 Hin).
  - apply (H q c x Hg Hin).
Qed.

Lemma TI_init : forall u md local tz fs clock,
  files_ok u md local tz fs ->
  TI u md local tz (t_init fs clock u md local tz) /\ t_last_sec (t_init fs clock u md local tz) = clock.
Proof.
  intros u md local tz fs clock Hf. split; [|reflexivity].
  unfold t_init, t_rotate. constructor; cbn.
  - reflexivity.
  - apply files_ok_open_append. exact Hf.
  - eexists. split; [reflexivity|]. apply period_of_filename.
  - reflexivity.
Qed.

(* one write of a line whose time is not before the handler's last time *)
Lemma TI_write : forall u md local tz h clock m,
  TI u md local tz h -> t_last_sec h <= eff_ts clock m ->
  TI u md local tz (fst (t_write h clock m)) /\ t_last_sec (fst (t_write h clock m)) = eff_ts clock m.
Proof.
  intros u md local tz h clock m [Hc Hf [n [Ho Hp]] Htm] Hle.
  injection Hc as Hu Hmd Hlo Htz.
  unfold t_write. rewrite Ho.
  set (sec := eff_ts clock m) in *.
  set (line := {| m_id := m_id m; m_len := m_len m; m_ts := sec |}).
  unfold t_detect. destruct (t_last_sec h >=? sec) eqn:Ege.
  - (* same second: no detection *)
    assert (Heq : t_last_sec h = sec) by lia.
    rewrite Ho. cbn [fst]. split; [|exact Heq].
    constructor; cbn.
    + unfold cfg_of. cbn. congruence.
    + apply files_ok_append; [exact Hf|]. cbn. rewrite Hp, Htm, Heq. reflexivity.
    + exists n. split; [first [exact Ho|reflexivity]|exact Hp].
    + exact Htm.
  - set (cur := brokendown (t_local h) (t_zone h) sec).
    assert (Hcur : cur = brokendown local tz sec) by (unfold cur; rewrite Hlo, Htz; reflexivity).
    destruct (same_period (t_unit h) (t_mod h) cur (t_last_tm h)) eqn:Esp; cbn [negb].
    + (* same period: keep the file *)
      cbn [t_set_last t_open]. rewrite Ho. cbn [fst]. split; [|reflexivity].
      rewrite Hu, Hmd in Esp. apply same_period_iff in Esp.
      constructor; cbn.
      * unfold cfg_of. cbn. congruence.
      * apply files_ok_append; [exact Hf|]. cbn. rewrite Hp, <- Esp, Hcur. reflexivity.
      * exists n. split; [first [exact Ho|reflexivity]|]. rewrite Hp. symmetry. exact Esp.
      * exact Hcur.
    + (* new period: rotate first *)
      cbn [t_set_last t_rotate t_open t_unit t_last_tm t_fs t_mod t_last_sec t_local t_zone].
      cbn [fst]. split; [|reflexivity].
      constructor; cbn.
      * unfold cfg_of. cbn. congruence.
      * apply files_ok_append.
        -- apply files_ok_open_append. exact Hf.
        -- cbn. rewrite Hu, period_of_filename, Hcur. reflexivity.
      * eexists. split; [reflexivity|]. rewrite Hu. apply period_of_filename.
      * exact Hcur.
Qed.

Lemma TI_restart : forall u md local tz h clock,
  TI u md local tz h ->
  TI u md local tz (t_restart h clock) /\ t_last_sec (t_restart h clock) = clock.
Proof.
  intros u md local tz h clock [Hc Hf _ _]. injection Hc as Hu Hmd Hlo Htz.
  unfold t_restart. rewrite Hu, Hmd, Hlo, Htz. apply TI_init. exact Hf.
Qed.

(* histories in which, within one handler lifetime, line times never run
   backwards and are not before the clock at (re)start *)
Fixpoint well_timed (lo : Z) (ops : list top) : Prop :=
  match ops with
  | [] => True
  | TWrite clock m :: r => lo <= eff_ts clock m /\ well_timed (eff_ts clock m) r
  | TRestart clock :: r => well_timed clock r
  end.

Lemma TI_run : forall u md local tz ops h,
  TI u md local tz h -> well_timed (t_last_sec h) ops -> TI u md local tz (t_run h ops).
Proof.
  intros u md local tz. induction ops as [|o r IH]; intros h HI Hw; [exact HI|].
  unfold t_run in *. cbn [fold_left]. destruct o as [clock m|clock]; cbn [well_timed] in Hw; cbn [t_step].
  - destruct Hw as [Hle Hw]. destruct (TI_write u md local tz h clock m HI Hle) as [A B].
    apply IH; [exact A|]. rewrite B. exact Hw.
  - destruct (TI_restart u md local tz h clock HI) as [A B].
    apply IH; [exact A|]. rewrite B. exact Hw.
Qed.

Theorem trot_in_own_period : forall fs0 clock0 u md local tz ops,
  files_ok u md local tz fs0 ->
  well_timed clock0 ops ->
  let h := t_run (t_init fs0 clock0 u md local tz) ops in
  forall n c m, tget n (t_fs h) = Some c -> In m c ->
    period_of_name md n = period_key u md (brokendown local tz (m_ts m)).
Proof.
  intros fs0 clock0 u md local tz ops Hf Hw h.
  destruct (TI_init u md local tz fs0 clock0 Hf) as [A B].
  assert (HI : TI u md local tz h).
  { apply TI_run; [exact A|]. rewrite B. exact Hw. }
  exact (TI_files _ _ _ _ _ HI).
Qed.

(* ---------------------------------------------------------------------- *)
(* nothing is lost: files only grow, and every written line is in a file *)
Definition grows (fs fs' : fsys tname) : Prop :=
  forall n c, tget n fs = Some c -> exists c', tget n fs' = Some (c ++ c').

Lemma grows_refl : forall fs, grows fs fs.
Proof. intros fs n c H. exists []. rewrite app_nil_r. exact H. Qed.

Lemma grows_trans : forall a b c, grows a b -> grows b c -> grows a c.
Proof.
  intros a b c H1 H2 n x Hx. destruct (H1 n x Hx) as [y Hy]. destruct (H2 n _ Hy) as [z Hz].
  exists (y ++ z). rewrite app_assoc. exact Hz.
Qed.

Lemma grows_open_append : forall fs n, grows fs (fs_open_append tname_eqb n fs).
Proof.
  intros fs n q c H. exists []. rewrite app_nil_r. rewrite (get_open_append _ _ tname_eqb_eq).
  destruct (tname_eqb q n) eqn:E; [|exact H].
  apply tname_eqb_eq in E. subst q. rewrite (content_get _ _ _ _ _ H). reflexivity.
Qed.

Lemma grows_append : forall fs n m, grows fs (fs_append tname_eqb n m fs).
Proof.
  intros fs n m q c H. rewrite (get_append _ _ tname_eqb_eq).
  destruct (tname_eqb q n) eqn:E.
  - apply tname_eqb_eq in E. subst q. rewrite (content_get _ _ _ _ _ H). exists [m]. reflexivity.
  - exists []. rewrite app_nil_r. exact H.
Qed.

Definition stamped (clock : Z) (m : msg) : msg :=
  {| m_id := m_id m; m_len := m_len m; m_ts := eff_ts clock m |}.

Definition stored (fs : fsys tname) (l : msg) : Prop := exists n c, tget n fs = Some c /\ In l c.

Lemma stored_grows : forall fs fs' l, grows fs fs' -> stored fs l -> stored fs' l.
Proof.
  intros fs fs' l G [n [c [H1 H2]]]. destruct (G n c H1) as [c' H]. exists n, (c ++ c').
  split; [exact H|]. apply in_or_app. left. exact H2.
Qed.

Definition is_open (h : th) : Prop := exists n, t_open h = Some n.

Lemma write_stores : forall h clock m,
  is_open h ->
  let h' := fst (t_write h clock m) in
  is_open h' /\ grows (t_fs h) (t_fs h') /\ stored (t_fs h') (stamped clock m).
Proof.
  intros h clock m [n Ho]. unfold t_write. rewrite Ho.
  fold (stamped clock m). set (line := stamped clock m).
  destruct (t_detect h (eff_ts clock m)) as [h1 need] eqn:Ed.
  assert (Hd : t_fs h1 = t_fs h /\ t_open h1 = Some n).
  { unfold t_detect in Ed. destruct (_ >=? _); injection Ed as <- _; split; try reflexivity; exact Ho. }
  destruct Hd as [Hfs1 Ho1].
  destruct need.
  - cbn [t_rotate t_open t_fs fst]. rewrite Hfs1. repeat split.
    + eexists. reflexivity.
    + eapply grows_trans; [apply grows_open_append|apply grows_append].
    + eexists. eexists. split; [rewrite (get_append _ _ tname_eqb_eq), (keqb_refl _ _ tname_eqb_eq); reflexivity|].
      apply in_or_app. right. left. reflexivity.
  - rewrite Ho1. cbn [t_open t_fs fst]. rewrite Hfs1. repeat split.
    + eexists. reflexivity.
    + apply grows_append.
    + eexists. eexists. split; [rewrite (get_append _ _ tname_eqb_eq), (keqb_refl _ _ tname_eqb_eq); reflexivity|].
      apply in_or_app. right. left. reflexivity.
Qed.

Lemma restart_grows : forall h clock, is_open (t_restart h clock) /\ grows (t_fs h) (t_fs (t_restart h clock)).
Proof.
  intros h clock. unfold t_restart, t_init, t_rotate. cbn. split.
  - eexists. reflexivity.
  - apply grows_open_append.
Qed.

Definition t_lines (ops : list top) : list msg :=
  flat_map (fun o => match o with TWrite clock m => [stamped clock m] | TRestart _ => [] end) ops.

Lemma run_stores : forall ops h,
  is_open h ->
  grows (t_fs h) (t_fs (t_run h ops)) /\
  forall l, In l (t_lines ops) -> stored (t_fs (t_run h ops)) l.
Proof.
  induction ops as [|o r IH]; intros h Ho.
  - split; [apply grows_refl|intros l []].
  - unfold t_run in *. simpl fold_left. destruct o as [clock m|clock].
    + destruct (write_stores h clock m Ho) as [A [B C]]. simpl t_step.
      destruct (IH _ A) as [D E]. split; [eapply grows_trans; eassumption|].
      intros l Hl. simpl in Hl. destruct Hl as [<-|Hl].
      * eapply stored_grows; eassumption.
      * apply E. exact Hl.
    + destruct (restart_grows h clock) as [A B]. simpl t_step.
      destruct (IH _ A) as [D E]. split; [eapply grows_trans; eassumption|].
      intros l Hl. simpl in Hl. apply E. exact Hl.
Qed.

Theorem trot_stored : forall fs0 clock0 u md local tz ops l,
  In l (t_lines ops) -> stored (t_fs (t_run (t_init fs0 clock0 u md local tz) ops)) l.
Proof.
  intros. refine (proj2 (run_stores ops _ _) l H).
  unfold t_init, t_rotate. cbn. eexists. reflexivity.
Qed.

(* ---------------------------------------------------------------------- *)
(* names and periods *)
Theorem name_determines_period : forall u md t1 t2,
  t_filename u t1 = t_filename u t2 -> period_key u md t1 = period_key u md t2.
Proof. intros u md t1 t2 H. rewrite <- !period_of_filename, H. reflexivity. Qed.

Theorem mod1_period_determines_name : forall u t1 t2,
  period_key u 1 t1 = period_key u 1 t2 -> t_filename u t1 = t_filename u t2.
Proof.
  intros u t1 t2. destruct u; unfold period_key, t_filename; rewrite !Z.div_1_r; intro H; exact H.
Qed.

Theorem name_period_both : forall u md t1 t2,
  (t_filename u t1 = t_filename u t2 -> period_key u md t1 = period_key u md t2) /\
  (period_key u 1 t1 = period_key u 1 t2 -> t_filename u t1 = t_filename u t2).
Proof.
  intros u md t1 t2. split; [apply name_determines_period|apply mod1_period_determines_name].
Qed.

(* ---------------------------------------------------------------------- *)
(* non-vacuity: hour unit, zone +08:00, local mode: handler created at
   2024-05-10 20:59:59 local; lines at 20:59:59, 21:00:00 (first line of the new
   period) and 21:00:01, a restart, one more line *)
Definition ex_m (i ts : Z) : msg := {| m_id := i; m_len := 30; m_ts := ts |}.
Definition ex_tops : list top :=
  [TWrite 0 (ex_m 1 1715345999); TWrite 0 (ex_m 2 1715346000); TWrite 1715346001 (ex_m 3 0);
   TRestart 1715346001; TWrite 0 (ex_m 4 1715349600)].

Example trot_example :
  let h := t_run (t_init [] 1715345999 UHour 1 true (fixed_zone 28800)) ex_tops in
  map (fun f => (fst f, map m_id (snd f))) (t_fs h) =
    [([2024; 5; 10; 22], [4]); ([2024; 5; 10; 21], [2; 3]); ([2024; 5; 10; 20], [1])] /\
  well_timed 1715345999 ex_tops.
Proof. vm_compute. repeat split; discriminate. Qed.

(* ---------------------------------------------------------------------- *)
(* the code BEFORE the repairs, kept only to record what was wrong (not part of
   the model that is compared with the implementation):
   (1) write: the line is written first, detection and rotation come after;
   (2) init: use_local_time is read while still 0, the first name is always UTC *)
Definition t_write_unrepaired (h : th) (clock : Z) (m : msg) : th :=
  match t_open h with
  | None => h
  | Some n =>
    let sec := eff_ts clock m in
    let line := {| m_id := m_id m; m_len := m_len m; m_ts := sec |} in
    let h0 := {| t_fs := fs_append tname_eqb n line (t_fs h); t_open := t_open h; t_unit := t_unit h;
                 t_mod := t_mod h; t_last_sec := t_last_sec h; t_last_tm := t_last_tm h;
                 t_local := t_local h; t_zone := t_zone h |} in
    let (h1, need) := t_detect h0 sec in
    if need then t_rotate h1 else h1
  end.

Definition t_init_unrepaired (fs : fsys tname) (clock : Z) (u : tunit) (md : Z) (local : bool) (tzoff : zone) : th :=
  t_rotate {| t_fs := fs; t_open := None; t_unit := u; t_mod := md; t_last_sec := clock;
              t_last_tm := brokendown false tzoff clock; t_local := local; t_zone := tzoff |}.

(* 2024-05-10, UTC, unit hour: handler created at 20:59:59; the 21:00:00 line
   lands in the file named ...T20 *)
Example unrepaired_write_misfiles :
  let h := t_init [] 1715374799 UHour 1 false (fixed_zone 0) in
  let h' := t_write_unrepaired h 0 (ex_m 2 1715374800) in
  map (fun f => (fst f, map m_id (snd f))) (t_fs h') = [([2024; 5; 10; 21], []); ([2024; 5; 10; 20], [2])] /\
  period_key UHour 1 (gmtime 1715374800) = [2024; 5; 10; 21].
Proof. vm_compute. split; reflexivity. Qed.

(* zone one hour west of UTC, local mode, unit hour: created and first line at
   2024-07-31 23:00:00 local time; the line lands in ...20240801T00 *)
Example unrepaired_init_wrong_zone :
  let h := t_init_unrepaired [] 1722470400 UHour 1 true (fixed_zone (-3600)) in
  let h' := fst (t_write h 1722470400 (ex_m 1 1722470400)) in
  map (fun f => (fst f, map m_id (snd f))) (t_fs h') = [([2024; 8; 1; 0], [1])] /\
  period_key UHour 1 (localtime (fixed_zone (-3600)) 1722470400) = [2024; 7; 31; 23].
Proof. vm_compute. split; reflexivity. Qed.
