(* C17 — size-rotating handler: restarts that CHANGE backup_count.

   Reading taken from the code: the backup files of a configuration are
   <path>.1 .. <path>.K with K = max(backup_count, 1) of the configuration IN
   FORCE; a file with a higher number left behind by an earlier, larger count is
   stale: rotate() never touches it again (rot_backup_count_zero, frame), and it
   is not one of "the backup files".

   A restart with another count is destroy + init on the files as they are, i.e.
   the start of a new history whose pre-existing files are the current ones.  A
   history with count changes is a list of phases (max_bytes, backup_count,
   operations).  Proved for the unchanged code: the backups 1..K of the LAST
   configuration, oldest to newest, followed by the live file, are a contiguous
   suffix of everything written, provided that at every change K -> K' either
   K' <= K, or no file numbered K+1 .. K' holds anything at that moment (no
   stale file enters the range).  Without that proviso the statement is FALSE
   for the unchanged code: count 3, then 1 (records are discarded while 1 is in
   force), then 3 again: <path>.3 and <path>.2 are the stale files of the first
   configuration and a gap lies between them and <path>.1
   (count_increase_over_stale_refuted). *)
From MV Require Import C17.Model C17.ProofsFs C17.ProofsRot C17.ProofsFmt C17.ProofsLog.
Local Open Scope Z_scope.

Definition phase := (Z * nat * list rop)%type.

(* the files after a list of phases, each started by init on the files left by the previous one *)
Fixpoint r_phases (B : Z) (fs : fsys sname) (ps : list phase) : fsys sname :=
  match ps with
  | [] => fs
  | (mb, bc, ops) :: r => r_phases B (r_fs (r_run_log B (r_init fs mb bc) ops)) r
  end.

Definition p_records (B : Z) (ps : list phase) : list msg := flat_map (fun p => r_records B (snd p)) ps.

Fixpoint last_K (K : nat) (ps : list phase) : nat :=
  match ps with [] => K | (_, bc, _) :: r => last_K (Kof bc) r end.

Definition range_empty (fs : fsys sname) (K K' : nat) : Prop := forall i, (K < i <= K')%nat -> bk fs i = [].

(* K = the count in force before the phase (for the first phase: its own), fs = the files at its start *)
Fixpoint phases_ok (B : Z) (K : nat) (fs : fsys sname) (ps : list phase) : Prop :=
  match ps with
  | [] => True
  | (mb, bc, ops) :: r =>
    ((Kof bc <= K)%nat \/ range_empty fs K (Kof bc)) /\
    phases_ok B (Kof bc) (r_fs (r_run_log B (r_init fs mb bc) ops)) r
  end.

Lemma concat_map_nil : forall (l : list nat) (f : nat -> list msg), (forall i, In i l -> f i = []) -> concat (map f l) = [].
Proof.
  induction l as [|a l IH]; intros f H; [reflexivity|]. cbn. rewrite (H a (or_introl eq_refl)). apply IH.
  intros i Hi. apply H. right. exact Hi.
Qed.

Lemma backups_split : forall fs K K', (K' <= K)%nat ->
  concat (map (bk fs) (rev (seq 1 K))) =
  concat (map (bk fs) (rev (seq (1 + K') (K - K')))) ++ concat (map (bk fs) (rev (seq 1 K'))).
Proof.
  intros fs K K' H. replace K with (K' + (K - K'))%nat at 1 by lia.
  rewrite seq_app, rev_app_distr, map_app, concat_app. reflexivity.
Qed.

Lemma retained_shrink : forall fs K K', (K' <= K)%nat -> exists older, retained K fs = older ++ retained K' fs.
Proof.
  intros fs K K' H. unfold retained. rewrite (backups_split fs K K' H).
  eexists. rewrite <- app_assoc. reflexivity.
Qed.

Lemma retained_grow : forall fs K K', (K <= K')%nat -> range_empty fs K K' -> retained K' fs = retained K fs.
Proof.
  intros fs K K' H E. unfold retained. rewrite (backups_split fs K' K H).
  rewrite concat_map_nil; [reflexivity|].
  intros i Hi. apply in_rev, in_seq in Hi. apply E. lia.
Qed.

Theorem rot_suffix_across_counts : forall B ps K fs,
  phases_ok B K fs ps ->
  exists lost, retained K fs ++ p_records B ps = lost ++ retained (last_K K ps) (r_phases B fs ps).
Proof.
  intros B. induction ps as [|[[mb bc] ops] r IH]; intros K fs H.
  - exists []. unfold p_records. cbn. rewrite app_nil_r. reflexivity.
  - cbn [phases_ok] in H. destruct H as [Hc Hr].
    assert (Hold : exists older, retained K fs = older ++ retained (Kof bc) fs).
    { destruct Hc as [Hle|He].
      - apply retained_shrink. exact Hle.
      - destruct (Nat.le_gt_cases (Kof bc) K) as [Hle|Hgt]; [apply retained_shrink; exact Hle|].
        exists []. cbn. symmetry. apply retained_grow; [lia|exact He]. }
    destruct Hold as [older Eo].
    destruct (rot_log_suffix B fs mb bc ops) as [lost1 [E1 _]].
    destruct (IH _ _ Hr) as [lost2 E2].
    exists (older ++ lost1 ++ lost2).
    cbn [r_phases last_K]. unfold p_records in *. cbn [flat_map snd].
    rewrite Eo, <- !app_assoc. f_equal.
    rewrite (app_assoc (retained (Kof bc) fs)). rewrite E1. rewrite <- !app_assoc. f_equal. exact E2.
Qed.

(* one configuration is a special case: a list of one phase *)
Lemma phases_ok_single : forall B fs mb bc ops, phases_ok B (Kof bc) fs [(mb, bc, ops)].
Proof. intros. cbn. split; [left; lia|exact I]. Qed.

(* counts that never grow are always fine *)
Fixpoint counts_decrease (K : nat) (ps : list phase) : Prop :=
  match ps with [] => True | (_, bc, _) :: r => (Kof bc <= K)%nat /\ counts_decrease (Kof bc) r end.

Lemma decrease_ok : forall B ps K fs, counts_decrease K ps -> phases_ok B K fs ps.
Proof.
  intros B. induction ps as [|[[mb bc] ops] r IH]; intros K fs H; [exact I|].
  cbn in *. destruct H as [H1 H2]. split; [left; exact H1|]. apply IH. exact H2.
Qed.

(* ---------------------------------------------------------------------- *)
(* the proviso is needed: count 3 (four records of 10 bytes, max_bytes 10: every write closes a
   segment), count 1 (two more records: segments are discarded), count 3 again *)
Definition cx_m (i : Z) : msg := {| m_id := i; m_len := 10; m_ts := 0 |}.
Definition cx_phases : list phase :=
  [(10, 3%nat, [RWrite (cx_m 1); RWrite (cx_m 2); RWrite (cx_m 3); RWrite (cx_m 4)]);
   (10, 1%nat, [RWrite (cx_m 5); RWrite (cx_m 6)]);
   (10, 3%nat, [])].

Lemma suffix_skipn : forall (A : Type) (a lost r : list A), a = lost ++ r -> skipn (length a - length r) a = r.
Proof.
  intros A a lost r ->. rewrite app_length. replace (length lost + length r - length r)%nat with (length lost) by lia.
  rewrite skipn_app, skipn_all, Nat.sub_diag. reflexivity.
Qed.

Example count_increase_over_stale_refuted :
  let final := r_phases 100 [] cx_phases in
  map m_id (retained 3 final) = [2; 3; 6] /\
  map m_id (retained 3 [] ++ p_records 100 cx_phases) = [1; 2; 3; 4; 5; 6] /\
  ~ (exists lost, retained 3 [] ++ p_records 100 cx_phases = lost ++ retained 3 final) /\
  ~ phases_ok 100 3 [] cx_phases /\
  (* ... while the two backups of count 1 .. and the files of every non-growing prefix are fine *)
  phases_ok 100 3 [] (firstn 2 cx_phases).
Proof.
  cbv zeta. split; [vm_compute; reflexivity|]. split; [vm_compute; reflexivity|]. split; [|split].
  - intros [lost E]. apply suffix_skipn in E. vm_compute in E. discriminate E.
  - cbn [phases_ok cx_phases]. intros [_ [_ [[H|H] _]]].
    + vm_compute in H. lia.
    + specialize (H 2%nat ltac:(vm_compute; lia)). vm_compute in H. discriminate H.
  - apply decrease_ok. vm_compute. repeat split; lia.
Qed.
