(* C17 — lemmas about the finite-map file system of Model.v *)
From MV Require Import C17.Model.
Local Open Scope Z_scope.

Section FSL.
  Variable K : Type.
  Variable keqb : K -> K -> bool.
  Hypothesis keqb_eq : forall a b, keqb a b = true <-> a = b.

  Lemma keqb_refl : forall a, keqb a a = true.
  Proof. intro a. apply keqb_eq. reflexivity. Qed.

  Lemma keqb_neq : forall a b, a <> b -> keqb a b = false.
  Proof.
    intros a b H. destruct (keqb a b) eqn:E; [|reflexivity].
    apply keqb_eq in E. contradiction.
  Qed.

  Lemma keqb_dec : forall a b : K, {a = b} + {a <> b}.
  Proof.
    intros a b. destruct (keqb a b) eqn:E.
    - left. apply keqb_eq. exact E.
    - right. intro H. apply keqb_eq in H. congruence.
  Qed.

  Lemma get_del_same : forall p fs, fs_get keqb p (fs_del keqb p fs) = None.
  Proof.
    intros p fs. induction fs as [|[q c] r IH]; simpl; [reflexivity|].
    destruct (keqb p q) eqn:E; [exact IH|]. simpl. rewrite E. exact IH.
  Qed.

  Lemma get_del_other : forall p q fs, p <> q -> fs_get keqb p (fs_del keqb q fs) = fs_get keqb p fs.
  Proof.
    intros p q fs H. induction fs as [|[k c] r IH]; simpl; [reflexivity|].
    destruct (keqb q k) eqn:E.
    - apply keqb_eq in E. subst k. rewrite (keqb_neq _ _ H). exact IH.
    - simpl. destruct (keqb p k); [reflexivity|exact IH].
  Qed.

  Lemma get_put_same : forall p c fs, fs_get keqb p (fs_put keqb p c fs) = Some c.
  Proof. intros. unfold fs_put. simpl. rewrite keqb_refl. reflexivity. Qed.

  Lemma get_put_other : forall p q c fs, p <> q -> fs_get keqb p (fs_put keqb q c fs) = fs_get keqb p fs.
  Proof.
    intros p q c fs H. unfold fs_put. simpl. rewrite (keqb_neq _ _ H). apply get_del_other. exact H.
  Qed.

  Lemma get_put : forall p q c fs,
    fs_get keqb p (fs_put keqb q c fs) = if keqb p q then Some c else fs_get keqb p fs.
  Proof.
    intros. destruct (keqb p q) eqn:E.
    - apply keqb_eq in E. subst. apply get_put_same.
    - apply get_put_other. intro H. apply keqb_eq in H. congruence.
  Qed.

  Lemma get_remove : forall p q fs,
    fs_get keqb p (fs_remove keqb q fs) = if keqb p q then None else fs_get keqb p fs.
  Proof.
    intros. unfold fs_remove. destruct (keqb p q) eqn:E.
    - apply keqb_eq in E. subst. apply get_del_same.
    - apply get_del_other. intro H. apply keqb_eq in H. congruence.
  Qed.

  Lemma get_rename : forall q s d fs,
    fs_get keqb q (fs_rename keqb s d fs) =
    match fs_get keqb s fs with
    | None => fs_get keqb q fs
    | Some c => if keqb q d then Some c else if keqb q s then None else fs_get keqb q fs
    end.
  Proof.
    intros. unfold fs_rename. destruct (fs_get keqb s fs) as [c|]; [|reflexivity].
    rewrite get_put. destruct (keqb q d); [reflexivity|].
    change (fs_del keqb s fs) with (fs_remove keqb s fs). apply get_remove.
  Qed.

  Lemma get_open_append : forall q p fs,
    fs_get keqb q (fs_open_append keqb p fs) =
    if keqb q p then Some (fs_content keqb p fs) else fs_get keqb q fs.
  Proof.
    intros. unfold fs_open_append, fs_content. destruct (fs_get keqb p fs) as [c|] eqn:E.
    - destruct (keqb q p) eqn:E2; [|reflexivity]. apply keqb_eq in E2. subst. exact E.
    - apply get_put.
  Qed.

  Lemma get_append : forall q p m fs,
    fs_get keqb q (fs_append keqb p m fs) =
    if keqb q p then Some (fs_content keqb p fs ++ [m]) else fs_get keqb q fs.
  Proof.
    intros. unfold fs_append, fs_content. destruct (fs_get keqb p fs) as [c|]; apply get_put.
  Qed.

  Lemma content_get : forall p fs c, fs_get keqb p fs = Some c -> fs_content keqb p fs = c.
  Proof. intros p fs c H. unfold fs_content. rewrite H. reflexivity. Qed.
End FSL.

Lemma file_size_app : forall a b, file_size (a ++ b) = file_size a + file_size b.
Proof.
  induction a as [|x a IH]; intro b; simpl; [reflexivity|].
  unfold file_size in *. simpl. rewrite IH. lia.
Qed.

Lemma file_size_single : forall m, file_size [m] = m_len m.
Proof. intro m. unfold file_size. simpl. lia. Qed.

Lemma sname_eqb_eq : forall a b, sname_eqb a b = true <-> a = b.
Proof.
  intros [|i] [|j]; simpl; split; intro H; try reflexivity; try discriminate.
  - apply Nat.eqb_eq in H. subst. reflexivity.
  - injection H as H. subst. apply Nat.eqb_refl.
Qed.

Lemma tname_eqb_eq : forall a b, tname_eqb a b = true <-> a = b.
Proof.
  unfold tname_eqb. induction a as [|x a IH]; intros [|y b]; split; intro H;
    try reflexivity; try discriminate.
  - apply andb_true_iff in H. destruct H as [H1 H2]. apply Z.eqb_eq in H1. apply IH in H2. subst. reflexivity.
  - injection H as H1 H2. subst. apply andb_true_iff. split; [apply Z.eqb_refl | apply IH; reflexivity].
Qed.
