(* C17 — the calendar of the model (civil_from_days / gmtime / localtime of
   C17/Model.v) IS the proleptic Gregorian calendar, for every day number in Z.

   Specification (the obvious one): a year is leap when divisible by 4 and not by
   100, or by 400; months have 31 / 30 / 28-29 days; the day number of y-m-d is
   the days of the whole years since 1970 + the days of the whole months of year
   y + d - 1.  days_before_year is written in closed form; dby_1970 and dby_succ
   (the next year starts year_len later) characterise it uniquely on Z.

   Proved for ALL z in Z (the model works on Z with floor division; the C
   library's gmtime_r / localtime_r are defined where the year fits tm_year, an
   int, and fail with EOVERFLOW beyond):
     civil_from_days z is a valid date, days_from_civil of it is z, and
     conversely; both are strictly monotone (lexicographic order on dates);
     fields of gmtime are in range; the period key used by the handler is
     monotone in time and two instants have the same key iff they lie in the
     same period as the specification defines it (same minute / hour / day /
     month and the same rotate_mod group of the unit's own field).

   Technique: one era (400 years = 146097 days) is checked day by day by
   vm_compute (all_range / era_sweep: a complete finite sweep), and lifted to Z
   by civil_shift: moving z by k eras moves the year by 400 k and nothing else,
   and the specification moves the same way (dby_shift, is_leap_shift). *)
From MV Require Import C17.Model C17.ProofsFs C17.ProofsTrot C17.ProofsLog.
From Coq Require Import ZifyBool.
Local Open Scope Z_scope.

Ltac dlia := timeout 120 (Z.to_euclidean_division_equations; lia).

(* ---------------------------------------------------------------------- *)
(* specification *)
Definition is_leap (y : Z) : bool :=
  (y mod 4 =? 0) && (negb (y mod 100 =? 0) || (y mod 400 =? 0)).

Definition month_len (leap : bool) (m : Z) : Z :=
  if m =? 2 then (if leap then 29 else 28)
  else if (m =? 4) || (m =? 6) || (m =? 9) || (m =? 11) then 30
  else 31.
Definition days_in_month (y m : Z) : Z := month_len (is_leap y) m.

Definition year_len (y : Z) : Z := if is_leap y then 366 else 365.

(* days from 1970-01-01 to y-01-01 *)
Definition days_before_year (y : Z) : Z :=
  365 * (y - 1970) + ((y - 1) / 4 - (y - 1) / 100 + (y - 1) / 400) - 477.

(* days of the months 1 .. k of year y *)
Fixpoint months_len (leap : bool) (k : nat) : Z :=
  match k with
  | O => 0
  | S j => months_len leap j + month_len leap (Z.of_nat (S j))
  end.
Definition days_before_month (y m : Z) : Z := months_len (is_leap y) (Z.to_nat (m - 1)).

Definition days_from_civil (y m d : Z) : Z :=
  days_before_year y + days_before_month y m + (d - 1).

Definition valid_date (y m d : Z) : Prop := 1 <= m <= 12 /\ 1 <= d <= days_in_month y m.

(* lexicographic order on (year, month, day) *)
Definition date_lt (a b : Z * Z * Z) : Prop :=
  match a, b with
  | (y1, m1, d1), (y2, m2, d2) => y1 < y2 \/ (y1 = y2 /\ (m1 < m2 \/ (m1 = m2 /\ d1 < d2)))
  end.

Definition valid3 (a : Z * Z * Z) : Prop := match a with (y, m, d) => valid_date y m d end.
Definition dfc3 (a : Z * Z * Z) : Z := match a with (y, m, d) => days_from_civil y m d end.

(* ---------------------------------------------------------------------- *)
(* the specification is the calendar: leap rule, year by year *)
Lemma is_leap_spec : forall y,
  is_leap y = true <-> (y mod 4 = 0 /\ (y mod 100 <> 0 \/ y mod 400 = 0)).
Proof.
  intro y. unfold is_leap. rewrite andb_true_iff, orb_true_iff, negb_true_iff, !Z.eqb_eq, Z.eqb_neq.
  reflexivity.
Qed.

Lemma dby_1970 : days_before_year 1970 = 0.
Proof. reflexivity. Qed.

Lemma dby_succ : forall y, days_before_year (y + 1) = days_before_year y + year_len y.
Proof.
  intro y. unfold days_before_year, year_len. replace (y + 1 - 1) with y by ring.
  destruct (is_leap y) eqn:L.
  - apply is_leap_spec in L. dlia.
  - assert (N : ~ (y mod 4 = 0 /\ (y mod 100 <> 0 \/ y mod 400 = 0))).
    { intro H. apply is_leap_spec in H. congruence. }
    dlia.
Qed.

Lemma year_len_pos : forall y, 365 <= year_len y <= 366.
Proof. intro y. unfold year_len. destruct (is_leap y); lia. Qed.

Lemma dby_mono : forall a b, a <= b -> days_before_year a <= days_before_year b.
Proof. intros a b H. unfold days_before_year. dlia. Qed.

Lemma dby_next : forall a b, a < b -> days_before_year a + year_len a <= days_before_year b.
Proof. intros a b H. rewrite <- dby_succ. apply dby_mono. lia. Qed.

(* ---------------------------------------------------------------------- *)
(* months *)
Lemma month_cases : forall m, 1 <= m <= 12 ->
  m = 1 \/ m = 2 \/ m = 3 \/ m = 4 \/ m = 5 \/ m = 6 \/ m = 7 \/ m = 8 \/ m = 9 \/ m = 10 \/ m = 11 \/ m = 12.
Proof. intros. lia. Qed.

Ltac month_split m H :=
  let C := fresh "C" in
  pose proof (month_cases m H) as C;
  destruct C as [C|[C|[C|[C|[C|[C|[C|[C|[C|[C|[C|C]]]]]]]]]]]; subst m.

(* days_before_month / days_in_month / year_len of a literal month, both leap cases, as numbers *)
Ltac eval_closed :=
  repeat match goal with
  | |- context [months_len ?l (Z.to_nat ?c)] =>
    let v := eval vm_compute in (months_len l (Z.to_nat c)) in change (months_len l (Z.to_nat c)) with v
  | |- context [month_len ?l ?c] =>
    let v := eval vm_compute in (month_len l c) in change (month_len l c) with v
  end.
Ltac month_eval y := unfold days_before_month, days_in_month, year_len; destruct (is_leap y); eval_closed.

Lemma dim_bounds : forall y m, 28 <= days_in_month y m <= 31.
Proof.
  intros y m. unfold days_in_month, month_len.
  destruct (m =? 2); [destruct (is_leap y); lia|].
  destruct ((m =? 4) || (m =? 6) || (m =? 9) || (m =? 11)); lia.
Qed.

Lemma dbm_succ : forall y m, 1 <= m ->
  days_before_month y (m + 1) = days_before_month y m + days_in_month y m.
Proof.
  intros y m H. unfold days_before_month, days_in_month.
  replace (Z.to_nat (m + 1 - 1)) with (S (Z.to_nat (m - 1))) by lia.
  cbn [months_len]. f_equal. f_equal. lia.
Qed.

Lemma dbm_1 : forall y, days_before_month y 1 = 0.
Proof. reflexivity. Qed.

(* a valid (month, day) lies inside its year *)
Lemma in_year : forall y m d, valid_date y m d ->
  0 <= days_before_month y m + (d - 1) < year_len y.
Proof.
  intros y m d [Hm Hd]. revert Hd.
  month_split m Hm; month_eval y; lia.
Qed.

(* a later month starts after every day of an earlier month *)
Lemma month_lt : forall y m1 d1 m2, valid_date y m1 d1 -> 1 <= m2 <= 12 -> m1 < m2 ->
  days_before_month y m1 + (d1 - 1) < days_before_month y m2.
Proof.
  intros y m1 d1 m2 [Hm Hd] Hm2 Hlt.
  assert (S1 : days_before_month y m1 + (d1 - 1) < days_before_month y (m1 + 1)).
  { rewrite dbm_succ by lia. lia. }
  assert (S2 : days_before_month y (m1 + 1) <= days_before_month y m2).
  { clear S1 Hd. revert Hlt. month_split m1 Hm; month_split m2 Hm2; intro Hlt; try lia;
      month_eval y; lia. }
  lia.
Qed.

(* ---------------------------------------------------------------------- *)
(* days_from_civil is strictly monotone (so: injective) on valid dates *)
Lemma dfc_strict_mono : forall a b, valid3 a -> valid3 b -> date_lt a b -> dfc3 a < dfc3 b.
Proof.
  intros [[y1 m1] d1] [[y2 m2] d2] Va Vb L. cbn [valid3 dfc3 date_lt] in *.
  unfold days_from_civil.
  destruct L as [L|[-> [L|[-> L]]]].
  - pose proof (in_year _ _ _ Va). pose proof (in_year _ _ _ Vb). pose proof (dby_next _ _ L). lia.
  - pose proof (month_lt _ _ _ _ Va (proj1 Vb) L). destruct Vb as [_ Vb]. lia.
  - lia.
Qed.

Lemma date_trichotomy : forall a b : Z * Z * Z, date_lt a b \/ a = b \/ date_lt b a.
Proof.
  intros [[y1 m1] d1] [[y2 m2] d2]. cbn [date_lt].
  destruct (Z.lt_trichotomy y1 y2) as [?|[->|?]]; [lia| |lia].
  destruct (Z.lt_trichotomy m1 m2) as [?|[->|?]]; [lia| |lia].
  destruct (Z.lt_trichotomy d1 d2) as [?|[->|?]]; [lia| |lia].
  right. left. reflexivity.
Qed.

Lemma dfc_lt_iff : forall a b, valid3 a -> valid3 b -> (dfc3 a < dfc3 b <-> date_lt a b).
Proof.
  intros a b Va Vb. split; [|apply dfc_strict_mono; assumption].
  intro H. destruct (date_trichotomy a b) as [L|[->|L]]; [exact L|lia|].
  pose proof (dfc_strict_mono _ _ Vb Va L). lia.
Qed.

Lemma dfc_injective : forall a b, valid3 a -> valid3 b -> dfc3 a = dfc3 b -> a = b.
Proof.
  intros a b Va Vb H. destruct (date_trichotomy a b) as [L|[E|L]]; [|exact E|].
  - pose proof (dfc_strict_mono _ _ Va Vb L). lia.
  - pose proof (dfc_strict_mono _ _ Vb Va L). lia.
Qed.

(* ---------------------------------------------------------------------- *)
(* moving by whole eras (400 years = 146097 days) *)
Lemma is_leap_shift : forall y k, is_leap (y + 400 * k) = is_leap y.
Proof.
  intros y k. unfold is_leap.
  assert (A : (y + 400 * k) mod 4 = y mod 4) by dlia.
  assert (B : (y + 400 * k) mod 100 = y mod 100) by dlia.
  assert (C : (y + 400 * k) mod 400 = y mod 400) by dlia.
  rewrite A, B, C. reflexivity.
Qed.

Lemma dim_shift : forall y k m, days_in_month (y + 400 * k) m = days_in_month y m.
Proof. intros. unfold days_in_month. rewrite is_leap_shift. reflexivity. Qed.

Lemma dbm_shift : forall y k m, days_before_month (y + 400 * k) m = days_before_month y m.
Proof.
  intros y k m. unfold days_before_month. rewrite is_leap_shift. reflexivity.
Qed.

Lemma dby_shift : forall y k, days_before_year (y + 400 * k) = days_before_year y + 146097 * k.
Proof. intros y k. unfold days_before_year. dlia. Qed.

Lemma dfc_shift : forall y k m d,
  days_from_civil (y + 400 * k) m d = days_from_civil y m d + 146097 * k.
Proof. intros. unfold days_from_civil. rewrite dby_shift, dbm_shift. ring. Qed.

Definition shift_year (a : Z) (c : Z * Z * Z) : Z * Z * Z := match c with (y, m, d) => (y + a, m, d) end.

(* the code: the era only enters the year *)
Lemma civil_shift : forall z k,
  civil_from_days (z + 146097 * k) = shift_year (400 * k) (civil_from_days z).
Proof.
  intros z k. unfold civil_from_days. cbv zeta.
  replace (z + 146097 * k + 719468) with (z + 719468 + k * 146097) by ring.
  rewrite Z.div_add by lia.
  set (e := (z + 719468) / 146097).
  replace (z + 719468 + k * 146097 - (e + k) * 146097) with (z + 719468 - e * 146097) by ring.
  set (doe := z + 719468 - e * 146097).
  set (yoe := (doe - doe / 1460 + doe / 36524 - doe / 146096) / 365).
  set (doy := doe - (365 * yoe + yoe / 4 - yoe / 100)).
  set (mp := (5 * doy + 2) / 153).
  unfold shift_year.
  destruct ((if mp <? 10 then mp + 3 else mp - 9) <=? 2); f_equal; f_equal; ring.
Qed.

(* ---------------------------------------------------------------------- *)
(* one era, day by day *)
Fixpoint all_range (f : Z -> bool) (p : positive) (base : Z) : bool :=   (* f on [base, base + p) *)
  match p with
  | xH => f base
  | xO q => all_range f q base && all_range f q (base + Zpos q)
  | xI q => f base && all_range f q (base + 1) && all_range f q (base + 1 + Zpos q)
  end.

Lemma all_range_spec : forall f p base, all_range f p base = true ->
  forall x, base <= x < base + Zpos p -> f x = true.
Proof.
  intros f. induction p as [q IH|q IH|]; intros base H x Hx; cbn [all_range] in H.
  - apply andb_true_iff in H. destruct H as [H H3]. apply andb_true_iff in H. destruct H as [H1 H2].
    rewrite Pos2Z.inj_xI in Hx.
    assert (C : x = base \/ base + 1 <= x < base + 1 + Zpos q \/
                base + 1 + Zpos q <= x < base + 1 + Zpos q + Zpos q) by lia.
    destruct C as [->|[C|C]]; [exact H1|exact (IH _ H2 _ C)|exact (IH _ H3 _ C)].
  - apply andb_true_iff in H. destruct H as [H1 H2]. rewrite Pos2Z.inj_xO in Hx.
    assert (C : base <= x < base + Zpos q \/ base + Zpos q <= x < base + Zpos q + Zpos q) by lia.
    destruct C as [C|C]; [exact (IH _ H1 _ C)|exact (IH _ H2 _ C)].
  - assert (x = base) by lia. subst x. exact H.
Qed.

(* day r of the era that starts on 0000-03-01 (day number r - 719468) *)
Definition check_day (r : Z) : bool :=
  let z0 := r - 719468 in
  match civil_from_days z0 with
  | (y, m, d) =>
    (1 <=? m) && (m <=? 12) && (1 <=? d) && (d <=? days_in_month y m) && (days_from_civil y m d =? z0)
  end.

(* (the computation runs once, when the kernel checks the cast at Qed) *)
Lemma era_sweep : all_range check_day 146097 0 = true.
Proof. vm_cast_no_check (eq_refl true). Qed.

Lemma era_day : forall r, 0 <= r < 146097 -> check_day r = true.
Proof. intros r H. apply (all_range_spec check_day 146097 0 era_sweep). lia. Qed.

(* ---------------------------------------------------------------------- *)
(* the main theorems: every day number in Z *)
Theorem civil_roundtrip : forall z,
  valid3 (civil_from_days z) /\ dfc3 (civil_from_days z) = z.
Proof.
  intro z.
  set (e := (z + 719468) / 146097). set (r := (z + 719468) mod 146097).
  assert (Hr : 0 <= r < 146097) by (apply Z.mod_pos_bound; lia).
  assert (Hz : z = (r - 719468) + 146097 * e).
  { pose proof (Z.div_mod (z + 719468) 146097). fold e r in H. lia. }
  rewrite Hz at 1 2. rewrite civil_shift.
  pose proof (era_day r Hr) as C. unfold check_day in C. cbv zeta in C.
  destruct (civil_from_days (r - 719468)) as [[y m] d].
  rewrite !andb_true_iff, !Z.leb_le, Z.eqb_eq in C.
  destruct C as [[[[C1 C2] C3] C4] C5].
  cbn [shift_year valid3 dfc3]. unfold valid_date. rewrite dim_shift, dfc_shift. lia.
Qed.

Theorem civil_valid : forall z, valid3 (civil_from_days z).
Proof. intro z. exact (proj1 (civil_roundtrip z)). Qed.

Theorem days_of_civil : forall z, dfc3 (civil_from_days z) = z.
Proof. intro z. exact (proj2 (civil_roundtrip z)). Qed.

Theorem civil_of_days : forall y m d, valid_date y m d ->
  civil_from_days (days_from_civil y m d) = (y, m, d).
Proof.
  intros y m d V. apply dfc_injective; [apply civil_valid|exact V|]. apply days_of_civil.
Qed.

Theorem civil_strict_mono : forall z1 z2, z1 < z2 -> date_lt (civil_from_days z1) (civil_from_days z2).
Proof.
  intros z1 z2 H. apply dfc_lt_iff; [apply civil_valid|apply civil_valid|]. rewrite !days_of_civil. exact H.
Qed.

Theorem civil_injective : forall z1 z2, civil_from_days z1 = civil_from_days z2 -> z1 = z2.
Proof. intros z1 z2 H. rewrite <- (days_of_civil z1), <- (days_of_civil z2), H. reflexivity. Qed.

(* all four in one statement (registered in Properties_C17.v) *)
Theorem calendar_is_gregorian :
  (forall z, valid3 (civil_from_days z) /\ dfc3 (civil_from_days z) = z) /\
  (forall y m d, valid_date y m d -> civil_from_days (days_from_civil y m d) = (y, m, d)) /\
  (forall z1 z2, z1 < z2 <-> date_lt (civil_from_days z1) (civil_from_days z2)) /\
  (forall a b, valid3 a -> valid3 b -> (date_lt a b <-> dfc3 a < dfc3 b)).
Proof.
  split; [exact civil_roundtrip|]. split; [exact civil_of_days|]. split.
  - intros z1 z2. split; [apply civil_strict_mono|]. intro L.
    apply dfc_lt_iff in L; [|apply civil_valid|apply civil_valid]. rewrite !days_of_civil in L. exact L.
  - intros a b Va Vb. symmetry. apply dfc_lt_iff; assumption.
Qed.

(* the specification itself, year by year and month by month (it is the calendar) *)
Theorem calendar_spec_shape :
  days_from_civil 1970 1 1 = 0 /\
  (forall y, days_from_civil (y + 1) 1 1 = days_from_civil y 1 1 + (if is_leap y then 366 else 365)) /\
  (forall y m, 1 <= m -> days_from_civil y (m + 1) 1 = days_from_civil y m 1 + days_in_month y m) /\
  (forall y m d, days_from_civil y m (d + 1) = days_from_civil y m d + 1) /\
  (forall y, is_leap y = true <-> (y mod 4 = 0 /\ (y mod 100 <> 0 \/ y mod 400 = 0))).
Proof.
  split; [reflexivity|]. split; [|split; [|split]].
  - intro y. unfold days_from_civil. rewrite dby_succ, !dbm_1. unfold year_len. ring.
  - intros y m H. unfold days_from_civil. rewrite dbm_succ by exact H. ring.
  - intros. unfold days_from_civil. ring.
  - exact is_leap_spec.
Qed.

(* non-vacuity: leap day 2024, the century rules, a date before the epoch *)
Example calendar_examples :
  civil_from_days 19782 = (2024, 2, 29) /\ valid_date 2024 2 29 /\ days_from_civil 2024 2 29 = 19782 /\
  civil_from_days 11016 = (2000, 2, 29) /\ civil_from_days 47541 = (2100, 3, 1) /\
  civil_from_days 47540 = (2100, 2, 28) /\ civil_from_days (-1) = (1969, 12, 31) /\
  civil_from_days (-719528) = (0, 1, 1) /\ civil_from_days (-719529) = (-1, 12, 31) /\
  date_lt (2024, 2, 29) (2024, 3, 1) /\ is_leap 1900 = false /\ is_leap 2000 = true.
Proof.
  repeat split; try (vm_compute; first [reflexivity | discriminate]).
  right. split; [reflexivity|]. left. reflexivity.
Qed.

(* ---------------------------------------------------------------------- *)
(* broken-down time *)
Definition tm_in_range (t : tm) : Prop :=
  0 <= tm_sec t <= 59 /\ 0 <= tm_min t <= 59 /\ 0 <= tm_hour t <= 23 /\
  0 <= tm_mon t <= 11 /\ 1 <= tm_mday t <= days_in_month (tm_year t + 1900) (tm_mon t + 1).

Lemma gmtime_civil : forall s y m d, civil_from_days (s / 86400) = (y, m, d) ->
  gmtime s = {| tm_sec := (s mod 86400) mod 60; tm_min := ((s mod 86400) / 60) mod 60; tm_hour := (s mod 86400) / 3600;
                tm_mday := d; tm_mon := m - 1; tm_year := y - 1900 |}.
Proof. intros s y m d E. unfold gmtime. rewrite E. reflexivity. Qed.

Theorem gmtime_in_range : forall s, tm_in_range (gmtime s).
Proof.
  intro s. pose proof (civil_valid (s / 86400)) as V.
  destruct (civil_from_days (s / 86400)) as [[y m] d] eqn:E. rewrite (gmtime_civil _ _ _ _ E).
  cbn [valid3] in V. destruct V as [Vm Vd].
  unfold tm_in_range. cbn [tm_sec tm_min tm_hour tm_mon tm_mday tm_year].
  replace (y - 1900 + 1900) with y by ring. replace (m - 1 + 1) with m by ring.
  repeat split; try lia; dlia.
Qed.

Theorem brokendown_in_range : forall local tz s, tm_in_range (brokendown local tz s).
Proof. intros [] tz s; unfold brokendown, localtime; apply gmtime_in_range. Qed.

(* the instant on the zone's own clock: what the wall clock of the zone shows, as
   seconds; in a zone with daylight saving it steps back at a fall-back switch *)
Definition zone_sec (local : bool) (tz : zone) (s : Z) : Z := if local then s + zone_off tz s else s.

Lemma brokendown_zone : forall local tz s, brokendown local tz s = gmtime (zone_sec local tz s).
Proof. intros [] tz s; reflexivity. Qed.

(* ---------------------------------------------------------------------- *)
(* periods, as the specification sees them: two instants (seconds on the zone's
   clock) are in the same period of unit u / rotate_mod md when they agree on
   everything above the unit and on the md-group of the unit's own field *)
Definition same_period_spec (u : tunit) (md a b : Z) : Prop :=
  match u with
  | USec => a / 60 = b / 60 /\ (a mod 60) / md = (b mod 60) / md
  | UMin => a / 3600 = b / 3600 /\ ((a / 60) mod 60) / md = ((b / 60) mod 60) / md
  | UHour => a / 86400 = b / 86400 /\ ((a / 3600) mod 24) / md = ((b / 3600) mod 24) / md
  | UDay => exists y m d1 d2, valid_date y m d1 /\ valid_date y m d2 /\
              a / 86400 = days_from_civil y m d1 /\ b / 86400 = days_from_civil y m d2 /\
              d1 / md = d2 / md
  end.

Lemma civil_eq_days : forall a b, civil_from_days a = civil_from_days b <-> a = b.
Proof. intros a b. split; [apply civil_injective|intros ->; reflexivity]. Qed.

Theorem gmtime_key_iff : forall u md a b,
  period_key u md (gmtime a) = period_key u md (gmtime b) <-> same_period_spec u md a b.
Proof.
  intros u md a b.
  pose proof (civil_roundtrip (a / 86400)) as [Va Ra]. pose proof (civil_roundtrip (b / 86400)) as [Vb Rb].
  pose proof (civil_eq_days (a / 86400) (b / 86400)) as CE.
  destruct (civil_from_days (a / 86400)) as [[y1 m1] d1] eqn:Ea.
  destruct (civil_from_days (b / 86400)) as [[y2 m2] d2] eqn:Eb.
  rewrite (gmtime_civil _ _ _ _ Ea), (gmtime_civil _ _ _ _ Eb).
  cbn [valid3 dfc3] in *.
  assert (S60a : (a mod 86400) mod 60 = a mod 60) by dlia.
  assert (S60b : (b mod 86400) mod 60 = b mod 60) by dlia.
  assert (M60a : ((a mod 86400) / 60) mod 60 = (a / 60) mod 60) by dlia.
  assert (M60b : ((b mod 86400) / 60) mod 60 = (b / 60) mod 60) by dlia.
  assert (H24a : (a mod 86400) / 3600 = (a / 3600) mod 24) by dlia.
  assert (H24b : (b mod 86400) / 3600 = (b / 3600) mod 24) by dlia.
  destruct u; unfold period_key, same_period_spec; cbn [tm_sec tm_min tm_hour tm_mday tm_mon tm_year];
    rewrite ?S60a, ?S60b, ?M60a, ?M60b, ?H24a, ?H24b.
  - (* seconds *)
    split.
    + intro H. injection H as H1 H2 H3 H4 H5 H6. split; [|exact H6].
      assert (E : a / 86400 = b / 86400) by (apply CE; f_equal; [f_equal|]; lia).
      clear - E H4 H5. dlia.
    + intros [H1 H2]. assert (E : a / 86400 = b / 86400) by (clear - H1; dlia).
      apply CE in E. injection E as -> -> ->. rewrite H2.
      assert (X : (a / 3600) mod 24 = (b / 3600) mod 24) by (clear - H1; dlia).
      assert (Y : (a / 60) mod 60 = (b / 60) mod 60) by (clear - H1; dlia).
      rewrite X, Y. reflexivity.
  - (* minutes *)
    split.
    + intro H. injection H as H1 H2 H3 H4 H5. split; [|exact H5].
      assert (E : a / 86400 = b / 86400) by (apply CE; f_equal; [f_equal|]; lia).
      clear - E H4. dlia.
    + intros [H1 H2]. assert (E : a / 86400 = b / 86400) by (clear - H1; dlia).
      apply CE in E. injection E as -> -> ->. rewrite H2.
      assert (X : (a / 3600) mod 24 = (b / 3600) mod 24) by (clear - H1; dlia).
      rewrite X. reflexivity.
  - (* hours *)
    split.
    + intro H. injection H as H1 H2 H3 H4. split; [|exact H4].
      apply CE; f_equal; [f_equal|]; lia.
    + intros [H1 H2]. apply CE in H1. injection H1 as -> -> ->. rewrite H2. reflexivity.
  - (* days *)
    split.
    + intro H. injection H as H1 H2 H3.
      assert (y1 = y2) by lia. assert (m1 = m2) by lia. subst y2 m2.
      exists y1, m1, d1, d2.
      split; [exact Va|]. split; [exact Vb|]. split; [symmetry; exact Ra|]. split; [symmetry; exact Rb|exact H3].
    + intros (y & m & e1 & e2 & V1 & V2 & A & B & Hd).
      rewrite A in Ea. rewrite B in Eb. rewrite (civil_of_days _ _ _ V1) in Ea. rewrite (civil_of_days _ _ _ V2) in Eb.
      injection Ea as <- <- <-. injection Eb as <- <- <-. rewrite Hd. reflexivity.
Qed.

(* for the handler's broken-down time: UTC or a fixed-offset zone *)
Theorem period_key_iff : forall u md local tz s1 s2,
  period_key u md (brokendown local tz s1) = period_key u md (brokendown local tz s2) <->
  same_period_spec u md (zone_sec local tz s1) (zone_sec local tz s2).
Proof. intros. rewrite !brokendown_zone. apply gmtime_key_iff. Qed.

(* ---------------------------------------------------------------------- *)
(* the period key is monotone in time (lexicographic order on keys) *)
Fixpoint lex_le (a b : list Z) : Prop :=
  match a, b with
  | [], [] => True
  | x :: a', y :: b' => x < y \/ (x = y /\ lex_le a' b')
  | _, _ => False
  end.

Lemma lex_le_refl : forall a, lex_le a a.
Proof. induction a as [|x a IH]; cbn; [exact I|]. right. split; [reflexivity|exact IH]. Qed.

Lemma lex_le_antisym : forall a b, lex_le a b -> lex_le b a -> a = b.
Proof.
  induction a as [|x a IH]; intros [|y b] H1 H2; cbn in *; try contradiction; [reflexivity|].
  destruct H1 as [H1|[-> H1]]; destruct H2 as [H2|[E H2]]; try lia.
  f_equal. apply IH; assumption.
Qed.

Lemma lex_le_trans : forall a b c, lex_le a b -> lex_le b c -> lex_le a c.
Proof.
  induction a as [|x a IH]; intros [|y b] [|z c] H1 H2; cbn in *; try contradiction; [exact I|].
  destruct H1 as [H1|[-> H1]]; destruct H2 as [H2|[-> H2]]; try (left; lia).
  right. split; [reflexivity|]. eapply IH; eassumption.
Qed.

Lemma div_le : forall md x y, 1 <= md -> x <= y -> x / md <= y / md.
Proof. intros. apply Z.div_le_mono; lia. Qed.

Theorem gmtime_key_monotone : forall u md a b, 1 <= md -> a <= b ->
  lex_le (period_key u md (gmtime a)) (period_key u md (gmtime b)).
Proof.
  intros u md a b Hmd Hab.
  assert (Hd : a / 86400 <= b / 86400) by (apply Z.div_le_mono; lia).
  assert (L : date_lt (civil_from_days (a / 86400)) (civil_from_days (b / 86400)) \/ a / 86400 = b / 86400).
  { destruct (Z.eq_dec (a / 86400) (b / 86400)) as [E|N]; [right; exact E|left; apply civil_strict_mono; lia]. }
  destruct L as [L|E].
  - (* an earlier day *)
    destruct (civil_from_days (a / 86400)) as [[y1 m1] d1] eqn:Ea.
    destruct (civil_from_days (b / 86400)) as [[y2 m2] d2] eqn:Eb.
    rewrite (gmtime_civil _ _ _ _ Ea), (gmtime_civil _ _ _ _ Eb).
    cbn [date_lt] in L.
    destruct u; unfold period_key; cbn [tm_sec tm_min tm_hour tm_mday tm_mon tm_year lex_le]; try lia.
    (* unit day: the day itself is divided *)
    pose proof (div_le md d1 d2 Hmd).
    destruct L as [L|[-> [L|[-> L]]]]; [left; lia|right; split; [lia|left; lia]|].
    right. split; [lia|]. right. split; [lia|]. assert (d1 / md <= d2 / md) by (apply H; lia). lia.
  - (* the same day *)
    assert (Hs : a mod 86400 <= b mod 86400) by (clear - E Hab; dlia).
    assert (Ra : 0 <= a mod 86400 < 86400) by (apply Z.mod_pos_bound; lia).
    assert (Rb : 0 <= b mod 86400 < 86400) by (apply Z.mod_pos_bound; lia).
    destruct (civil_from_days (a / 86400)) as [[y1 m1] d1] eqn:Ea.
    assert (Eb : civil_from_days (b / 86400) = (y1, m1, d1)) by (rewrite <- E; exact Ea).
    rewrite (gmtime_civil _ _ _ _ Ea), (gmtime_civil _ _ _ _ Eb).
    revert Hs Ra Rb. generalize (a mod 86400) (b mod 86400). intros sa sb Hs Ra Rb.
    destruct u; unfold period_key; cbn [tm_sec tm_min tm_hour tm_mday tm_mon tm_year lex_le].
    + pose proof (div_le md (sa mod 60) (sb mod 60) Hmd).
      assert (C : sa / 3600 < sb / 3600 \/ (sa / 3600 = sb / 3600 /\
                  ((sa / 60) mod 60 < (sb / 60) mod 60 \/ ((sa / 60) mod 60 = (sb / 60) mod 60 /\ sa mod 60 <= sb mod 60))))
        by (clear - Hs Ra Rb; dlia).
      destruct C as [C|[C1 [C|[C2 C3]]]]; [lia|lia|].
      assert ((sa mod 60) / md <= (sb mod 60) / md) by (apply H; lia). lia.
    + pose proof (div_le md ((sa / 60) mod 60) ((sb / 60) mod 60) Hmd).
      assert (C : sa / 3600 < sb / 3600 \/ (sa / 3600 = sb / 3600 /\ (sa / 60) mod 60 <= (sb / 60) mod 60))
        by (clear - Hs Ra Rb; dlia).
      destruct C as [C|[C1 C2]]; [lia|].
      assert (((sa / 60) mod 60) / md <= ((sb / 60) mod 60) / md) by (apply H; lia). lia.
    + pose proof (div_le md (sa / 3600) (sb / 3600) Hmd).
      assert (C : sa / 3600 <= sb / 3600) by (clear - Hs Ra Rb; dlia).
      assert ((sa / 3600) / md <= (sb / 3600) / md) by (apply H; lia). lia.
    + right. split; [reflexivity|]. right. split; [reflexivity|]. right. split; [reflexivity|exact I].
Qed.

(* the zone's clock never steps back: UTC mode, every fixed-offset zone, every
   zone whose switches only go forward.  NOT true of a zone with a fall-back
   switch (fall_back_not_monotone below): there the repeated hour gets the keys
   of the hour again, and the handler re-opens (appends to) the files of those
   periods -- each line still lies in the file of its own key
   (trot_line_in_own_period holds for every zone). *)
Definition clock_monotone (local : bool) (tz : zone) : Prop :=
  forall s1 s2, s1 <= s2 -> zone_sec local tz s1 <= zone_sec local tz s2.

Lemma clock_monotone_utc : forall tz, clock_monotone false tz.
Proof. intros tz s1 s2 H. exact H. Qed.

Lemma clock_monotone_fixed : forall local off, clock_monotone local (fixed_zone off).
Proof. intros [] off s1 s2 H; cbn; lia. Qed.

Theorem period_key_monotone : forall u md local tz s1 s2, clock_monotone local tz -> 1 <= md -> s1 <= s2 ->
  lex_le (period_key u md (brokendown local tz s1)) (period_key u md (brokendown local tz s2)).
Proof.
  intros u md local tz s1 s2 Hz Hmd H. rewrite !brokendown_zone. apply gmtime_key_monotone; [exact Hmd|].
  apply Hz. exact H.
Qed.

(* hence a period is an interval of time: whatever lies between two instants of
   one period belongs to it *)
Theorem period_is_interval : forall u md local tz s1 s2 s3, clock_monotone local tz -> 1 <= md -> s1 <= s2 <= s3 ->
  period_key u md (brokendown local tz s1) = period_key u md (brokendown local tz s3) ->
  period_key u md (brokendown local tz s2) = period_key u md (brokendown local tz s1).
Proof.
  intros u md local tz s1 s2 s3 Hz Hmd [H12 H23] E.
  pose proof (period_key_monotone u md local tz s1 s2 Hz Hmd H12) as A.
  pose proof (period_key_monotone u md local tz s2 s3 Hz Hmd H23) as B.
  rewrite <- E in B. symmetry. apply lex_le_antisym; assumption.
Qed.

(* the three period facts in one statement (registered in Properties_C17.v) *)
Theorem period_key_is_the_period : forall u md local tz,
  (forall s1 s2,
     period_key u md (brokendown local tz s1) = period_key u md (brokendown local tz s2) <->
     same_period_spec u md (zone_sec local tz s1) (zone_sec local tz s2)) /\
  (clock_monotone local tz -> 1 <= md -> forall s1 s2, s1 <= s2 ->
     lex_le (period_key u md (brokendown local tz s1)) (period_key u md (brokendown local tz s2))) /\
  (clock_monotone local tz -> 1 <= md -> forall s1 s2 s3, s1 <= s2 <= s3 ->
     period_key u md (brokendown local tz s1) = period_key u md (brokendown local tz s3) ->
     period_key u md (brokendown local tz s2) = period_key u md (brokendown local tz s1)).
Proof.
  intros u md local tz. split; [|split].
  - intros. apply period_key_iff.
  - intros. apply period_key_monotone; assumption.
  - intros. eapply period_is_interval; eassumption.
Qed.

(* the hypotheses are met (UTC mode and fixed zones, whatever the zone) ... *)
Theorem clock_monotone_cases :
  (forall tz, clock_monotone false tz) /\ (forall local off, clock_monotone local (fixed_zone off)).
Proof. split; [exact clock_monotone_utc|exact clock_monotone_fixed]. Qed.

(* ... and needed: US Eastern time 2024 (EDT = UTC-4 until 2024-11-03 06:00:00 UTC,
   then EST = UTC-5).  One second after 01:59:59 EDT the zone's clock shows
   01:00:00 EST: the minute key steps back, the hour key is the same again. *)
Definition us_eastern_2024 : zone :=
  {| z_base := -18000; z_trans := [(1710054000, -14400); (1730613600, -18000)] |}.

Example fall_back_not_monotone :
  ~ clock_monotone true us_eastern_2024 /\
  period_key UMin 1 (brokendown true us_eastern_2024 1730613599) = [2024; 11; 3; 1; 59] /\
  period_key UMin 1 (brokendown true us_eastern_2024 1730613600) = [2024; 11; 3; 1; 0] /\
  period_key UHour 1 (brokendown true us_eastern_2024 1730613599) =
  period_key UHour 1 (brokendown true us_eastern_2024 1730613600) /\
  (* spring forward: 01:59:59 EST is followed by 03:00:00 EDT *)
  period_key UHour 1 (brokendown true us_eastern_2024 1710053999) = [2024; 3; 10; 1] /\
  period_key UHour 1 (brokendown true us_eastern_2024 1710054000) = [2024; 3; 10; 3].
Proof.
  split; [|repeat split; vm_compute; reflexivity].
  intro H. specialize (H 1730613599 1730613600 ltac:(lia)). vm_compute in H. apply H. reflexivity.
Qed.

(* a handler that lives through the fall-back switch (hour unit, local mode): created at
   01:30 EDT; lines at 01:30 EDT, 01:59:59 EDT, 01:00:00 EST, 01:30 EST; restarted; a line at
   02:00 EST.  Both passes through hour 01 share the file ...T01 (the key of the local civil
   time as localtime_r gives it); the history satisfies the hypotheses of trot_in_own_period *)
Example trot_example_dst :
  let ops := [TWrite 0 (ex_m 1 1730611800); TWrite 0 (ex_m 2 1730613599); TWrite 0 (ex_m 3 1730613600);
              TWrite 0 (ex_m 4 1730615400); TRestart 1730615400; TWrite 0 (ex_m 5 1730617200)] in
  let h := t_run (t_init [] 1730611800 UHour 1 true us_eastern_2024) ops in
  map (fun f => (fst f, map m_id (snd f))) (t_fs h) = [([2024; 11; 3; 2], [5]); ([2024; 11; 3; 1], [1; 2; 3; 4])] /\
  well_timed 1730611800 ops.
Proof. vm_compute. repeat split; discriminate. Qed.

(* non-vacuity: 2024-02-29 23:59:59 and 2024-03-01 00:00:00 UTC are in different
   day periods, 2024-03-01 00:00:00 and 23:59:59 in the same one; with
   rotate_mod 7 the days 7..13 of a month form one period *)
Example period_examples :
  period_key UDay 1 (gmtime 1709251199) = [2024; 2; 29] /\
  period_key UDay 1 (gmtime 1709251200) = [2024; 3; 1] /\
  period_key UDay 1 (gmtime 1709337599) = [2024; 3; 1] /\
  lex_le (period_key UDay 1 (gmtime 1709251199)) (period_key UDay 1 (gmtime 1709251200)) /\
  period_key UDay 7 (gmtime (1709251200 + 6 * 86400)) = period_key UDay 7 (gmtime (1709251200 + 12 * 86400)) /\
  period_key UDay 7 (gmtime (1709251200 + 5 * 86400)) <> period_key UDay 7 (gmtime (1709251200 + 6 * 86400)) /\
  same_period_spec UHour 2 (zone_sec true (fixed_zone 3600) 1709247600) (zone_sec true (fixed_zone 3600) 1709251199).
Proof.
  repeat split; try (vm_compute; first [reflexivity | discriminate]).
  right. split; [reflexivity|]. left. reflexivity.
Qed.

(* ---------------------------------------------------------------------- *)
(* consequence for the handler (with trot_in_own_period): two records of one
   file lie in the same period of the specification; stated on the zone's clock *)
Theorem trot_same_file_same_period : forall fs0 clock0 u md local tz ops,
  files_ok u md local tz fs0 ->
  well_timed clock0 ops ->
  let h := t_run (t_init fs0 clock0 u md local tz) ops in
  forall n c m1 m2, tget n (t_fs h) = Some c -> In m1 c -> In m2 c ->
    same_period_spec u md (zone_sec local tz (m_ts m1)) (zone_sec local tz (m_ts m2)).
Proof.
  intros fs0 clock0 u md local tz ops Hf Hw h n c m1 m2 Hg H1 H2.
  apply period_key_iff.
  rewrite <- (trot_in_own_period fs0 clock0 u md local tz ops Hf Hw n c m1 Hg H1).
  apply (trot_in_own_period fs0 clock0 u md local tz ops Hf Hw n c m2 Hg H2).
Qed.

(* the same for the whole write function (format, truncate, write) *)
Theorem trot_log_same_file_same_period : forall B fs0 clock0 u md local tz ops,
  files_ok u md local tz fs0 ->
  well_timed clock0 ops ->
  let h := t_run_log B (t_init fs0 clock0 u md local tz) ops in
  forall n c m1 m2, fs_get tname_eqb n (t_fs h) = Some c -> In m1 c -> In m2 c ->
    same_period_spec u md (zone_sec local tz (m_ts m1)) (zone_sec local tz (m_ts m2)).
Proof.
  intros B fs0 clock0 u md local tz ops Hf Hw h n c m1 m2 Hg H1 H2.
  apply period_key_iff.
  rewrite <- (trot_log_in_own_period B fs0 clock0 u md local tz ops Hf Hw n c m1 Hg H1).
  apply (trot_log_in_own_period B fs0 clock0 u md local tz ops Hf Hw n c m2 Hg H2).
Qed.

(* ---------------------------------------------------------------------- *)
(* rotate_mod.  init accepts rotate_mod = 0 and detect() then divides by zero (the C program
   stops); Coq's x / 0 = 0 would make the statements above hold at md = 0 for the wrong reason.
   The property-level theorems therefore carry 1 <= md explicitly. *)
Theorem trot_log_in_own_period_md : forall B fs0 clock0 u md local tz ops,
  1 <= md ->
  files_ok u md local tz fs0 ->
  well_timed clock0 ops ->
  let h := t_run_log B (t_init fs0 clock0 u md local tz) ops in
  forall n c m, fs_get tname_eqb n (t_fs h) = Some c -> In m c ->
    period_of_name md n = period_key u md (brokendown local tz (m_ts m)).
Proof. intros B fs0 clock0 u md local tz ops _. apply trot_log_in_own_period. Qed.

Theorem trot_log_stored_md : forall B fs0 clock0 u md local tz ops l,
  1 <= md ->
  In l (t_records B ops) -> stored (t_fs (t_run_log B (t_init fs0 clock0 u md local tz) ops)) l.
Proof. intros B fs0 clock0 u md local tz ops l _. apply trot_log_stored. Qed.

Theorem trot_log_same_file_same_period_md : forall B fs0 clock0 u md local tz ops,
  1 <= md ->
  files_ok u md local tz fs0 ->
  well_timed clock0 ops ->
  let h := t_run_log B (t_init fs0 clock0 u md local tz) ops in
  forall n c m1 m2, fs_get tname_eqb n (t_fs h) = Some c -> In m1 c -> In m2 c ->
    same_period_spec u md (zone_sec local tz (m_ts m1)) (zone_sec local tz (m_ts m2)).
Proof. intros B fs0 clock0 u md local tz ops _. apply trot_log_same_file_same_period. Qed.

Theorem name_period_both_md : forall u md t1 t2, 1 <= md ->
  (t_filename u t1 = t_filename u t2 -> period_key u md t1 = period_key u md t2) /\
  (period_key u 1 t1 = period_key u 1 t2 -> t_filename u t1 = t_filename u t2).
Proof. intros u md t1 t2 _. apply name_period_both. Qed.

Theorem period_key_is_the_period_md : forall u md local tz, 1 <= md ->
  (forall s1 s2,
     period_key u md (brokendown local tz s1) = period_key u md (brokendown local tz s2) <->
     same_period_spec u md (zone_sec local tz s1) (zone_sec local tz s2)) /\
  (clock_monotone local tz -> forall s1 s2, s1 <= s2 ->
     lex_le (period_key u md (brokendown local tz s1)) (period_key u md (brokendown local tz s2))) /\
  (clock_monotone local tz -> forall s1 s2 s3, s1 <= s2 <= s3 ->
     period_key u md (brokendown local tz s1) = period_key u md (brokendown local tz s3) ->
     period_key u md (brokendown local tz s2) = period_key u md (brokendown local tz s1)).
Proof.
  intros u md local tz Hmd. destruct (period_key_is_the_period u md local tz) as [A [B C]].
  split; [exact A|]. split; [intro Hz; exact (B Hz Hmd)|intro Hz; exact (C Hz Hmd)].
Qed.
