(* C17 — proofs: see ProofsFs.v (file system), ProofsRot.v (size rotation),
   ProofsTrot.v (time rotation), ProofsFmt.v (truncation of over-long lines),
   ProofsLog.v (whole write functions = truncate + write), ProofsDir.v (working
   directory: only the directory resolved at init is touched), ProofsCal.v (the
   model's calendar is the proleptic Gregorian calendar; period keys), ProofsCount.v
   (restarts that change backup_count) *)
From MV Require Export C17.Model C17.ProofsFs C17.ProofsRot C17.ProofsTrot C17.ProofsFmt C17.ProofsLog C17.ProofsDir C17.ProofsCal C17.ProofsCount.
