(* C17 — proofs: see ProofsFs.v (file system), ProofsRot.v (size rotation),
   ProofsTrot.v (time rotation) *)
From MV Require Export C17.Model C17.ProofsFs C17.ProofsRot C17.ProofsTrot.
