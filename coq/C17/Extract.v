From MV Require Import Lib.ExtractBase C17.Model.
From Coq Require Import ExtrOcamlBasic.
Extraction Language OCaml.
Extraction "c17_model" force_types fs_get fs_put fs_content sname_eqb tname_eqb
  r_init r_write r_restart r_step r_run gmtime localtime t_filename t_init t_write t_restart t_step t_run.
