From MV Require Import Lib.ExtractBase C17.Model gen.Params_C17.
From Coq Require Import ExtrOcamlBasic.
Extraction Language OCaml.
Extraction "c17_model" force_types code_msg_max_len fs_get fs_put fs_content sname_eqb tname_eqb wlen fmt_clamp record_bytes
  r_init r_write r_log r_restart r_step r_run r_step_log r_run_log gmtime localtime zone_off fixed_zone t_filename
  t_init t_write t_log t_restart t_step t_run t_step_log t_run_log
  dir_eqb resolve g_dir g_set gs_fs rg_start rg_step rg_run tg_start tg_step tg_run.
