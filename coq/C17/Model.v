(* C17 — log rotation: executable model transcribing
     muggle/c/log/log_file_rotate_handler.c      (size-rotating handler)
     muggle/c/log/log_file_time_rot_handler.c    (time-rotating handler, REPAIRED form:
         fixes/C17-time-rot-detect-before-write.patch, fixes/C17-time-rot-init-zone.patch)
   File system = finite map  name -> list of lines  (association list; a missing
   key is a file that does not exist).  A line is a whole formatted message: the
   handlers hand one formatted buffer to fwrite per call and test for rotation
   only between calls, so a file is a list of records.  The formatter is
   abstracted to "message m WANTS m_len bytes, the last one a newline" (the
   return value of the snprintf-based fmt_func); the handlers' truncation
   convention for a line that does not fit char buf[MUGGLE_LOG_MSG_MAX_LEN]
   (fmt_clamp / record_bytes below) turns it into the record handed to fwrite:
   r_write / t_write are the parts of the write functions under the mutex and
   take that record; r_log / t_log are the whole write functions.  B is
   sizeof(buf) = MUGGLE_LOG_MSG_MAX_LEN, re-extracted from the headers on every
   run (gen/Params_C17.v).
   Not modelled (oracle / environment): failure of fopen/rename/remove, fwrite
   short counts, snprintf failure.  A time zone is a function instant -> offset
   (zone_off: an initial offset and a finite list of transitions), so daylight
   saving switches in either direction are inside the model. *)
From Coq Require Export List ZArith Lia Bool.
Export ListNotations.
Local Open Scope Z_scope.

(* m_id: identity of the message (its text), m_len: bytes the formatter produces
   (newline included), m_ts: msg->ts.tv_sec (0 = none) *)
Record msg := { m_id : Z; m_len : Z; m_ts : Z }.

(* ---------------------------------------------------------------------- *)
(* formatter result and truncation, as in all file handlers:
     int ret = fmt->fmt_func(msg, buf, sizeof(buf));
     if (ret >= (int)sizeof(buf)) { ret = (int)sizeof(buf) - 1; buf[ret - 1] = '\n'; }
     ... fwrite(buf, 1, ret, fp) *)
Definition wlen (B L : Z) : Z := if L >=? B then B - 1 else L.
Definition fmt_clamp (B : Z) (m : msg) : msg :=
  {| m_id := m_id m; m_len := wlen B (m_len m); m_ts := m_ts m |}.

(* the same at byte level.  text = the characters the formatter wants to print;
   snprintf stores at most B-1 of them followed by a NUL (the rest of buf is
   indeterminate and is never read below) and returns length text. *)
Definition NL : Z := 10.
Definition NUL : Z := 0.
Definition snprintf_buf (B : nat) (text : list Z) : list Z := firstn (B - 1) text ++ [NUL].
Fixpoint set_nth (i : nat) (x : Z) (l : list Z) : list Z :=
  match l, i with
  | [], _ => []
  | _ :: r, O => x :: r
  | a :: r, S j => a :: set_nth j x r
  end.
(* the bytes handed to fwrite *)
Definition record_bytes (B : nat) (text : list Z) : list Z :=
  let ret := length text in
  let buf := snprintf_buf B text in
  if (B <=? ret)%nat then firstn (B - 1) (set_nth (B - 2) NL buf)
  else firstn ret buf.

(* ---------------------------------------------------------------------- *)
(* file system *)
Section FS.
  Variable K : Type.
  Variable keqb : K -> K -> bool.

  Definition fsys := list (K * list msg).

  Fixpoint fs_get (p : K) (fs : fsys) : option (list msg) :=
    match fs with
    | [] => None
    | (q, c) :: r => if keqb p q then Some c else fs_get p r
    end.

  Fixpoint fs_del (p : K) (fs : fsys) : fsys :=
    match fs with
    | [] => []
    | (q, c) :: r => if keqb p q then fs_del p r else (q, c) :: fs_del p r
    end.

  Definition fs_put (p : K) (c : list msg) (fs : fsys) : fsys := (p, c) :: fs_del p fs.

  (* muggle_path_exists / access(F_OK) *)
  Definition fs_exists (p : K) (fs : fsys) : bool :=
    match fs_get p fs with Some _ => true | None => false end.

  (* muggle_os_remove *)
  Definition fs_remove (p : K) (fs : fsys) : fsys := fs_del p fs.

  (* muggle_os_rename = rename(2): fails (nothing changes) when src does not
     exist; replaces dst when it exists *)
  Definition fs_rename (src dst : K) (fs : fsys) : fsys :=
    match fs_get src fs with
    | None => fs
    | Some c => fs_put dst c (fs_del src fs)
    end.

  (* fopen(path, "ab+"): creates an empty file when missing *)
  Definition fs_open_append (p : K) (fs : fsys) : fsys :=
    match fs_get p fs with
    | None => fs_put p [] fs
    | Some _ => fs
    end.

  (* fwrite of one formatted line + fflush on a stream opened for append *)
  Definition fs_append (p : K) (m : msg) (fs : fsys) : fsys :=
    match fs_get p fs with
    | None => fs_put p [m] fs
    | Some c => fs_put p (c ++ [m]) fs
    end.

  Definition fs_content (p : K) (fs : fsys) : list msg :=
    match fs_get p fs with Some c => c | None => [] end.
End FS.

Arguments fs_get {K}. Arguments fs_del {K}. Arguments fs_put {K}. Arguments fs_exists {K}.
Arguments fs_remove {K}. Arguments fs_rename {K}. Arguments fs_open_append {K}.
Arguments fs_append {K}. Arguments fs_content {K}.

(* ftell after fseek(SEEK_END) *)
Definition file_size (c : list msg) : Z := fold_right (fun m a => m_len m + a) 0 c.

(* ---------------------------------------------------------------------- *)
(* size-rotating handler *)

(* "<filepath>" and "<filepath>.<i>" *)
Inductive sname := SLive | SBak (i : nat).
Definition sname_eqb (a b : sname) : bool :=
  match a, b with
  | SLive, SLive => true
  | SBak i, SBak j => Nat.eqb i j
  | _, _ => false
  end.

Record rh := {
  r_fs : fsys sname;
  r_open : bool;          (* fp != NULL (the open file is always <filepath>) *)
  r_offset : Z;
  r_max : Z;              (* max_bytes *)
  r_bc : nat              (* backup_count *)
}.

(* for (int i = (int)backup_count - 1; i > 0; i--) rename(path.i, path.(i+1)) *)
Fixpoint r_chain (i : nat) (fs : fsys sname) : fsys sname :=
  match i with
  | O => fs
  | S j => r_chain j (fs_rename sname_eqb (SBak (S j)) (SBak (S (S j))) fs)
  end.

(* muggle_log_file_rotate_handler_rotate *)
Definition r_rotate (h : rh) : rh :=
  let fs0 := r_fs h in                                             (* fclose *)
  let last := SBak (r_bc h) in
  let fs1 := if fs_exists sname_eqb last fs0 then fs_remove sname_eqb last fs0 else fs0 in
  let fs2 := r_chain (r_bc h - 1) fs1 in
  let fs3 := fs_rename sname_eqb SLive (SBak 1) fs2 in
  let fs4 := fs_open_append sname_eqb SLive fs3 in
  {| r_fs := fs4; r_open := true; r_offset := 0; r_max := r_max h; r_bc := r_bc h |}.

(* muggle_log_file_rotate_handler_init *)
Definition r_init (fs : fsys sname) (max_bytes : Z) (bc : nat) : rh :=
  let fs1 := fs_open_append sname_eqb SLive fs in
  let off := file_size (fs_content sname_eqb SLive fs1) in
  let h := {| r_fs := fs1; r_open := true; r_offset := off; r_max := max_bytes; r_bc := bc |} in
  if off >=? max_bytes then r_rotate h else h.

(* muggle_log_file_rotate_handler_write from the mutex on, m = the record
   handed to fwrite; result = bytes written *)
Definition r_write (h : rh) (m : msg) : rh * Z :=
  if r_open h then
    let fs1 := fs_append sname_eqb SLive m (r_fs h) in
    let off := r_offset h + m_len m in
    let h1 := {| r_fs := fs1; r_open := true; r_offset := off; r_max := r_max h; r_bc := r_bc h |} in
    if off >=? r_max h then (r_rotate h1, m_len m) else (h1, m_len m)
  else (h, m_len m).

(* muggle_log_file_rotate_handler_destroy *)
Definition r_destroy (h : rh) : rh :=
  {| r_fs := r_fs h; r_open := false; r_offset := r_offset h; r_max := r_max h; r_bc := r_bc h |}.

(* restart = destroy, then init on the same path with the same backup_count *)
Definition r_restart (h : rh) (max_bytes : Z) : rh :=
  r_init (r_fs (r_destroy h)) max_bytes (r_bc h).

Inductive rop := RWrite (m : msg) | RRestart (max_bytes : Z).

Definition r_step (h : rh) (o : rop) : rh :=
  match o with
  | RWrite m => fst (r_write h m)
  | RRestart mb => r_restart h mb
  end.

Definition r_run (h : rh) (ops : list rop) : rh := fold_left r_step ops h.

(* muggle_log_file_rotate_handler_write: format, truncate, write *)
Definition r_log (B : Z) (h : rh) (m : msg) : rh * Z := r_write h (fmt_clamp B m).
Definition rop_clamp (B : Z) (o : rop) : rop :=
  match o with RWrite m => RWrite (fmt_clamp B m) | RRestart mb => RRestart mb end.
Definition r_step_log (B : Z) (h : rh) (o : rop) : rh :=
  match o with
  | RWrite m => fst (r_log B h m)
  | RRestart mb => r_restart h mb
  end.
Definition r_run_log (B : Z) (h : rh) (ops : list rop) : rh := fold_left (r_step_log B) ops h.

(* ---------------------------------------------------------------------- *)
(* calendar: struct tm from seconds since the epoch (proleptic Gregorian, no
   leap seconds); proved to be that calendar for every day number in Z in
   C17/ProofsCal.v; compared with gmtime_r / localtime_r by the correspondence run *)
Record tm := { tm_sec : Z; tm_min : Z; tm_hour : Z; tm_mday : Z; tm_mon : Z; tm_year : Z }.

(* days since 1970-01-01 -> (year, month 1..12, day 1..31) *)
Definition civil_from_days (z0 : Z) : Z * Z * Z :=
  let z := z0 + 719468 in
  let era := z / 146097 in
  let doe := z - era * 146097 in
  let yoe := (doe - doe / 1460 + doe / 36524 - doe / 146096) / 365 in
  let y := yoe + era * 400 in
  let doy := doe - (365 * yoe + yoe / 4 - yoe / 100) in
  let mp := (5 * doy + 2) / 153 in
  let d := doy - (153 * mp + 2) / 5 + 1 in
  let m := if mp <? 10 then mp + 3 else mp - 9 in
  (if m <=? 2 then y + 1 else y, m, d).

Definition gmtime (sec : Z) : tm :=
  let days := sec / 86400 in
  let sod := sec mod 86400 in
  let '(y, m, d) := civil_from_days days in
  {| tm_sec := sod mod 60; tm_min := (sod / 60) mod 60; tm_hour := sod / 3600;
     tm_mday := d; tm_mon := m - 1; tm_year := y - 1900 |}.

(* a time zone: the offset (seconds east of UTC) in force at each instant.
   z_base is in force before the first transition; a transition (t, o) puts
   offset o in force from instant t on (the list is in order of time; the last
   entry with t <= s wins).  A fixed-offset zone has no transition; a zone with
   daylight saving has two per year (tzset's POSIX rule, expanded by the harness
   for the years a case touches). *)
Record zone := { z_base : Z; z_trans : list (Z * Z) }.
Definition zone_off (z : zone) (s : Z) : Z :=
  fold_left (fun cur tr => if fst tr <=? s then snd tr else cur) (z_trans z) (z_base z).
Definition fixed_zone (off : Z) : zone := {| z_base := off; z_trans := [] |}.

(* localtime_r: the civil time of the instant on the zone's clock, with the
   offset in force AT that instant (so the hour that a fall-back switch repeats
   is produced twice, the hour a spring-forward switch skips never) *)
Definition localtime (z : zone) (sec : Z) : tm := gmtime (sec + zone_off z sec).

(* ---------------------------------------------------------------------- *)
(* time-rotating handler *)
Inductive tunit := USec | UMin | UHour | UDay.

(* the numbers printed after "<filepath>." by the rotate function:
   %d%02d%02d [T%02d [%02d [%02d]]] *)
Definition tname := list Z.
Definition tname_eqb (a b : tname) : bool :=
  (fix go (a b : list Z) : bool :=
     match a, b with
     | [], [] => true
     | x :: a', y :: b' => (x =? y) && go a' b'
     | _, _ => false
     end) a b.

Definition t_filename (u : tunit) (t : tm) : tname :=
  match u with
  | USec => [tm_year t + 1900; tm_mon t + 1; tm_mday t; tm_hour t; tm_min t; tm_sec t]
  | UMin => [tm_year t + 1900; tm_mon t + 1; tm_mday t; tm_hour t; tm_min t]
  | UHour => [tm_year t + 1900; tm_mon t + 1; tm_mday t; tm_hour t]
  | UDay => [tm_year t + 1900; tm_mon t + 1; tm_mday t]
  end.

Record th := {
  t_fs : fsys tname;
  t_open : option tname;       (* fp and the name it was opened with *)
  t_unit : tunit;
  t_mod : Z;
  t_last_sec : Z;
  t_last_tm : tm;
  t_local : bool;              (* use_local_time *)
  t_zone : zone                (* environment: the zone of the process (TZ) *)
}.

Definition brokendown (local : bool) (zn : zone) (sec : Z) : tm :=
  if local then localtime zn sec else gmtime sec.

(* the comparison of muggle_log_file_time_rot_handler_detect: true = same period *)
Definition same_period (u : tunit) (md : Z) (c l : tm) : bool :=
  match u with
  | USec => (tm_sec c / md =? tm_sec l / md) && (tm_min c =? tm_min l) && (tm_hour c =? tm_hour l) &&
            (tm_mday c =? tm_mday l) && (tm_mon c =? tm_mon l) && (tm_year c =? tm_year l)
  | UMin => (tm_min c / md =? tm_min l / md) && (tm_hour c =? tm_hour l) &&
            (tm_mday c =? tm_mday l) && (tm_mon c =? tm_mon l) && (tm_year c =? tm_year l)
  | UHour => (tm_hour c / md =? tm_hour l / md) &&
             (tm_mday c =? tm_mday l) && (tm_mon c =? tm_mon l) && (tm_year c =? tm_year l)
  | UDay => (tm_mday c / md =? tm_mday l / md) && (tm_mon c =? tm_mon l) && (tm_year c =? tm_year l)
  end.

Definition t_set_last (h : th) (sec : Z) (t : tm) : th :=
  {| t_fs := t_fs h; t_open := t_open h; t_unit := t_unit h; t_mod := t_mod h;
     t_last_sec := sec; t_last_tm := t; t_local := t_local h; t_zone := t_zone h |}.

(* muggle_log_file_time_rot_handler_detect; sec = msg->ts.tv_sec, or time(NULL) when 0 *)
Definition t_detect (h : th) (sec : Z) : th * bool :=
  if t_last_sec h >=? sec then (h, false)
  else
    let cur := brokendown (t_local h) (t_zone h) sec in
    let need := negb (same_period (t_unit h) (t_mod h) cur (t_last_tm h)) in
    (t_set_last h sec cur, need).

(* muggle_log_file_time_rot_handler_rotate *)
Definition t_rotate (h : th) : th :=
  let n := t_filename (t_unit h) (t_last_tm h) in
  {| t_fs := fs_open_append tname_eqb n (t_fs h); t_open := Some n; t_unit := t_unit h; t_mod := t_mod h;
     t_last_sec := t_last_sec h; t_last_tm := t_last_tm h; t_local := t_local h; t_zone := t_zone h |}.

(* muggle_log_file_time_rot_handler_init (repaired: the zone mode of the
   argument decides the first broken-down time); clock = time(NULL) *)
Definition t_init (fs : fsys tname) (clock : Z) (u : tunit) (md : Z) (local : bool) (tzoff : zone) : th :=
  t_rotate {| t_fs := fs; t_open := None; t_unit := u; t_mod := md; t_last_sec := clock;
              t_last_tm := brokendown local tzoff clock; t_local := local; t_zone := tzoff |}.

Definition eff_ts (clock : Z) (m : msg) : Z := if m_ts m =? 0 then clock else m_ts m.

(* muggle_log_file_time_rot_handler_write (repaired: detect and rotate BEFORE
   the line is written).  The stored line carries the time the handler used for
   it (its own timestamp, or the clock when it has none): that is the time
   stamp the property speaks about, and the harness encodes it in the text. *)
Definition t_write (h : th) (clock : Z) (m : msg) : th * Z :=
  match t_open h with
  | None => (h, m_len m)
  | Some _ =>
    let sec := eff_ts clock m in
    let line := {| m_id := m_id m; m_len := m_len m; m_ts := sec |} in
    let (h1, need) := t_detect h sec in
    let h2 := if need then t_rotate h1 else h1 in
    match t_open h2 with
    | None => (h2, m_len m)
    | Some n =>
      ({| t_fs := fs_append tname_eqb n line (t_fs h2); t_open := t_open h2; t_unit := t_unit h2; t_mod := t_mod h2;
          t_last_sec := t_last_sec h2; t_last_tm := t_last_tm h2; t_local := t_local h2; t_zone := t_zone h2 |},
       m_len m)
    end
  end.

(* restart = destroy (fclose) + init with the same configuration *)
Definition t_restart (h : th) (clock : Z) : th :=
  t_init (t_fs h) clock (t_unit h) (t_mod h) (t_local h) (t_zone h).

Inductive top := TWrite (clock : Z) (m : msg) | TRestart (clock : Z).

Definition t_step (h : th) (o : top) : th :=
  match o with
  | TWrite clock m => fst (t_write h clock m)
  | TRestart clock => t_restart h clock
  end.

Definition t_run (h : th) (ops : list top) : th := fold_left t_step ops h.

(* muggle_log_file_time_rot_handler_write: format, truncate, write *)
Definition t_log (B : Z) (h : th) (clock : Z) (m : msg) : th * Z := t_write h clock (fmt_clamp B m).
Definition top_clamp (B : Z) (o : top) : top :=
  match o with TWrite clock m => TWrite clock (fmt_clamp B m) | TRestart clock => TRestart clock end.
Definition t_step_log (B : Z) (h : th) (o : top) : th :=
  match o with
  | TWrite clock m => fst (t_log B h clock m)
  | TRestart clock => t_restart h clock
  end.
Definition t_run_log (B : Z) (h : th) (ops : list top) : th := fold_left (t_step_log B) ops h.

(* ---------------------------------------------------------------------- *)
(* directories, absolute names, the working directory.
   Both init functions turn the path they are given into an absolute one
   (muggle_path_isabs / muggle_os_curdir / muggle_path_join) and keep THAT in
   handler->filepath; every later file operation (remove / rename / fopen in
   the rotate functions) builds its name from handler->filepath.  So the working
   directory is part of the configuration: it is consulted once, at init.
   A directory is named by the scratch root it lies under and a sub-directory
   index; an absolute file name is (directory, name inside it); the whole file
   system maps directories to the per-directory maps used above (a directory
   without files and a missing directory are the same: muggle_os_fopen creates
   missing directories). *)
Inductive dir := Dir (root sub : Z).
Definition dir_eqb (a b : dir) : bool :=
  match a, b with Dir r1 s1, Dir r2 s2 => (r1 =? r2) && (s1 =? s2) end.

(* the path argument of init: absolute (names its directory), or relative with a
   sub-directory part ("name", "./name": sub = 0; "sub/dir/name": sub = 1) *)
Inductive parg := PAbs (d : dir) | PRel (sub : Z).
Definition resolve (cwd : Z) (p : parg) : dir :=
  match p with PAbs d => d | PRel sub => Dir cwd sub end.

Section GFS.
  Variable N : Type.
  Definition gfsys := list (dir * fsys N).
  Fixpoint g_dir (d : dir) (g : gfsys) : fsys N :=
    match g with
    | [] => []
    | (e, fs) :: r => if dir_eqb d e then fs else g_dir d r
    end.
  Fixpoint g_del (d : dir) (g : gfsys) : gfsys :=
    match g with
    | [] => []
    | (e, fs) :: r => if dir_eqb d e then g_del d r else (e, fs) :: g_del d r
    end.
  Definition g_set (d : dir) (fs : fsys N) (g : gfsys) : gfsys := (d, fs) :: g_del d g.

  (* a process with one handler: the handler state h carries the contents of ITS
     directory (gs_dir, fixed at init); gs_others holds all directories as they
     were when the handler was (re)started; gs_cwd is the working directory *)
  Variable H : Type.
  Variable hfs : H -> fsys N.
  Record gst := { gs_others : gfsys; gs_cwd : Z; gs_parg : parg; gs_dir : dir; gs_h : H }.
  (* the file system as a whole *)
  Definition gs_fs (g : gst) : gfsys := g_set (gs_dir g) (hfs (gs_h g)) (gs_others g).

  Variables W R : Type.
  Variable hwrite : H -> W -> H.                  (* the write function *)
  Variable hreinit : H -> fsys N -> R -> H.       (* destroy + init on a directory with these contents *)
  Inductive gop := GWrite (w : W) | GRestart (r : R) | GChdir (c : Z).

  Definition g_start (fs0 : gfsys) (cwd : Z) (p : parg) (mk : fsys N -> H) : gst :=
    let d := resolve cwd p in
    {| gs_others := fs0; gs_cwd := cwd; gs_parg := p; gs_dir := d; gs_h := mk (g_dir d fs0) |}.

  Definition g_step (g : gst) (o : gop) : gst :=
    match o with
    | GWrite w =>
      {| gs_others := gs_others g; gs_cwd := gs_cwd g; gs_parg := gs_parg g; gs_dir := gs_dir g;
         gs_h := hwrite (gs_h g) w |}
    | GChdir c =>
      {| gs_others := gs_others g; gs_cwd := c; gs_parg := gs_parg g; gs_dir := gs_dir g; gs_h := gs_h g |}
    | GRestart r =>
      let fs := gs_fs g in
      let d := resolve (gs_cwd g) (gs_parg g) in       (* init resolves against the CURRENT directory *)
      {| gs_others := fs; gs_cwd := gs_cwd g; gs_parg := gs_parg g; gs_dir := d;
         gs_h := hreinit (gs_h g) (g_dir d fs) r |}
    end.
  Definition g_run (g : gst) (ops : list gop) : gst := fold_left g_step ops g.
End GFS.

Arguments g_dir {N}. Arguments g_del {N}. Arguments g_set {N}.
Arguments gs_others {N H}. Arguments gs_cwd {N H}. Arguments gs_parg {N H}. Arguments gs_dir {N H}. Arguments gs_h {N H}.
Arguments gs_fs {N H}. Arguments GWrite {W R}. Arguments GRestart {W R}. Arguments GChdir {W R}.
Arguments g_start {N H}. Arguments g_step {N H} hfs {W R}. Arguments g_run {N H} hfs {W R}.

(* size-rotating handler in a process that may change directory *)
Definition rg_write (B : Z) (h : rh) (m : msg) : rh := fst (r_log B h m).
Definition rg_reinit (h : rh) (fs : fsys sname) (mb : Z) : rh := r_init fs mb (r_bc h).
Definition rg_start (fs0 : gfsys sname) (cwd : Z) (p : parg) (mb : Z) (bc : nat) : gst sname rh :=
  g_start fs0 cwd p (fun fs => r_init fs mb bc).
Definition rg_step (B : Z) := g_step r_fs (rg_write B) rg_reinit.
Definition rg_run (B : Z) := g_run r_fs (rg_write B) rg_reinit.

(* time-rotating handler likewise; a write carries the clock *)
Definition tg_write (B : Z) (h : th) (w : Z * msg) : th := fst (t_log B h (fst w) (snd w)).
Definition tg_reinit (h : th) (fs : fsys tname) (clock : Z) : th :=
  t_init fs clock (t_unit h) (t_mod h) (t_local h) (t_zone h).
Definition tg_start (fs0 : gfsys tname) (cwd : Z) (p : parg) (clock : Z) (u : tunit) (md : Z) (local : bool) (tz : zone)
  : gst tname th := g_start fs0 cwd p (fun fs => t_init fs clock u md local tz).
Definition tg_step (B : Z) := g_step t_fs (tg_write B) tg_reinit.
Definition tg_run (B : Z) := g_run t_fs (tg_write B) tg_reinit.
