(* C17 — second tie (DESIGN.md 4.4): the integer logic of the handler functions as
   re-sliced from the C text on this run (gen/Params_C17.v: gen_trot_detect,
   gen_trot_rotate, gen_trot_write, gen_rot_write, gen_rot_rotate_head/_step/_tail,
   produced by lib/props/c17_slice.py + lib/leaftrans.py) equals the model's
   functions.  The proofs do not depend on the SHAPE of the generated terms
   (guard clauses, De Morgan, hoisted locals, helpers, for / while): everything
   is unfolded, every conditional is split, wraps that provably do not wrap are
   removed, quotients by rotate_mod are abstracted, and what remains is decided
   by time-limited lia over Z and bool.  A behaviour-preserving rewrite of the C
   text keeps these obligations, a semantic change breaks them. *)
From MV Require Import Lib.Leaf C17.Model C17.ProofsFs C17.ProofsTrot C17.ProofsCal gen.Params_C17.
From Coq Require Import ZifyBool.
Local Open Scope Z_scope.

(* ---------------------------------------------------------------------- *)
(* decision tactic *)
Lemma wrapu32_small x : 0 <= x < 4294967296 -> wrapu 32 x = x.
Proof. intros. unfold wrapu. change (2 ^ 32) with 4294967296. apply Z.mod_small; lia. Qed.
Lemma wrapu64_small x : 0 <= x < 18446744073709551616 -> wrapu 64 x = x.
Proof. intros. unfold wrapu. change (2 ^ 64) with 18446744073709551616. apply Z.mod_small; lia. Qed.
Lemma cdiv_nonneg a b : 0 <= a -> 0 < b -> cdiv a b = a / b.
Proof. intros. unfold cdiv. apply Z.quot_div_nonneg; lia. Qed.

Lemma z2b_b2z c : z2b (b2z c) = c.
Proof. destruct c; reflexivity. Qed.

Ltac unwrap :=
  repeat match goal with
  | |- context [wrapu 32 ?x] => rewrite (wrapu32_small x) by (timeout 10 lia)
  | |- context [wrapu 64 ?x] => rewrite (wrapu64_small x) by (timeout 10 lia)
  | |- context [cdiv ?a ?b] => rewrite (cdiv_nonneg a b) by (timeout 10 lia)
  | H : context [wrapu 32 ?x] |- _ => rewrite (wrapu32_small x) in H by (timeout 10 lia)
  | H : context [wrapu 64 ?x] |- _ => rewrite (wrapu64_small x) in H by (timeout 10 lia)
  | H : context [cdiv ?a ?b] |- _ => rewrite (cdiv_nonneg a b) in H by (timeout 10 lia)
  end.

(* quotients by a variable become opaque integers (the same term on both sides) *)
Ltac abstract_div :=
  repeat match goal with
  | |- context [?a / ?b] => is_var b; let q := fresh "q" in set (q := a / b) in *; clearbody q
  | H : context [?a / ?b] |- _ => is_var b; let q := fresh "q" in set (q := a / b) in *; clearbody q
  end.

(* comparisons of two literals are computed (closedness is checked syntactically: evaluating an open
   term with vm_compute unfolds division on variables into huge normal forms) *)
Ltac poslit p := lazymatch p with xH => idtac | xO ?q => poslit q | xI ?q => poslit q end.
Ltac zlit a := lazymatch a with Z0 => idtac | Zpos ?p => poslit p | Zneg ?p => poslit p end.
Ltac closed_conds :=
  repeat (match goal with
  | |- context [?a =? ?b] => zlit a; zlit b;
    let v := eval vm_compute in (a =? b) in
    match v with true => change (a =? b) with true | false => change (a =? b) with false end
  | |- context [?a <? ?b] => zlit a; zlit b;
    let v := eval vm_compute in (a <? b) in
    match v with true => change (a <? b) with true | false => change (a <? b) with false end
  | |- context [?a <=? ?b] => zlit a; zlit b;
    let v := eval vm_compute in (a <=? b) in
    match v with true => change (a <=? b) with true | false => change (a <=? b) with false end
  end; cbn [negb andb orb]; cbv iota).

Ltac split_ifs :=
  repeat match goal with
  | |- context [if ?c then _ else _] =>
    lazymatch c with context [if _ then _ else _] => fail | _ => idtac end;
    destruct c eqn:?
  end.

Ltac tuple_eq :=
  repeat match goal with
  | |- (_, _) = (_, _) => apply f_equal2
  end.

Ltac fin := first [ reflexivity | timeout 30 lia | exfalso; timeout 30 lia ].

Ltac gen_decide :=
  cbv zeta; rewrite ?z2b_b2z; unfold b2z, z2b in *; closed_conds; unwrap; split_ifs; unwrap; abstract_div; tuple_eq; fin.

(* ---------------------------------------------------------------------- *)
(* time-rotating handler: detect() *)
Definition unit_code (u : tunit) : Z :=
  match u with USec => code_unit_sec | UMin => code_unit_min | UHour => code_unit_hour | UDay => code_unit_day end.

(* field k of a broken-down time, in the order the slicer numbers them *)
Definition tm_get (t : tm) (k : Z) : Z :=
  if k =? 0 then tm_sec t else if k =? 1 then tm_min t else if k =? 2 then tm_hour t
  else if k =? 3 then tm_mday t else if k =? 4 then tm_mon t else tm_year t.

(* the fields the code divides (as unsigned int) are not negative *)
Definition tm_divisible (t : tm) : Prop :=
  0 <= tm_sec t < 2 ^ 31 /\ 0 <= tm_min t < 2 ^ 31 /\ 0 <= tm_hour t < 2 ^ 31 /\ 0 <= tm_mday t < 2 ^ 31.

Lemma in_range_divisible : forall t, tm_in_range t -> tm_divisible t.
Proof.
  intros t (A & B & C & D & E). unfold tm_divisible. change (2 ^ 31) with 2147483648.
  pose proof (dim_bounds (tm_year t + 1900) (tm_mon t + 1)). lia.
Qed.

(* the comparison of detect() on fields given as functions k -> field k *)
Definition keyeq (u : tunit) (md : Z) (c l : Z -> Z) : bool :=
  match u with
  | USec => (c 0 / md =? l 0 / md) && (c 1 =? l 1) && (c 2 =? l 2) && (c 3 =? l 3) && (c 4 =? l 4) && (c 5 =? l 5)
  | UMin => (c 1 / md =? l 1 / md) && (c 2 =? l 2) && (c 3 =? l 3) && (c 4 =? l 4) && (c 5 =? l 5)
  | UHour => (c 2 / md =? l 2 / md) && (c 3 =? l 3) && (c 4 =? l 4) && (c 5 =? l 5)
  | UDay => (c 3 / md =? l 3 / md) && (c 4 =? l 4) && (c 5 =? l 5)
  end.

Definition divisible (f : Z -> Z) : Prop := forall k, 0 <= k <= 3 -> 0 <= f k < 2147483648.

(* the generated function on plain integers: shape-independent decision *)
Lemma detect_core : forall ls (l : Z -> Z) md ts clock (lt gt : Z -> Z -> Z) u (lo : bool),
  divisible l -> (forall s, divisible (lt s)) -> (forall s, divisible (gt s)) -> 1 <= md < 4294967296 ->
  gen_trot_detect ls (l 0) (l 1) (l 2) (l 3) (l 4) (l 5) md (unit_code u) (if lo then 1 else 0) ts clock lt gt =
  let sec := if ts =? 0 then clock else ts in
  let c := if lo then lt sec else gt sec in
  if ls >=? sec then (0, ls, l 0, l 1, l 2, l 3, l 4, l 5)
  else (if keyeq u md c l then 0 else 1, sec, c 0, c 1, c 2, c 3, c 4, c 5).
Proof.
  intros ls l md ts clock lt gt u lo Hl Hlt Hgt Hmd.
  pose proof (Hl 0 ltac:(lia)). pose proof (Hl 1 ltac:(lia)). pose proof (Hl 2 ltac:(lia)). pose proof (Hl 3 ltac:(lia)).
  pose proof (Hlt clock 0 ltac:(lia)). pose proof (Hlt clock 1 ltac:(lia)). pose proof (Hlt clock 2 ltac:(lia)).
  pose proof (Hlt clock 3 ltac:(lia)).
  pose proof (Hlt ts 0 ltac:(lia)). pose proof (Hlt ts 1 ltac:(lia)). pose proof (Hlt ts 2 ltac:(lia)).
  pose proof (Hlt ts 3 ltac:(lia)).
  pose proof (Hgt clock 0 ltac:(lia)). pose proof (Hgt clock 1 ltac:(lia)). pose proof (Hgt clock 2 ltac:(lia)).
  pose proof (Hgt clock 3 ltac:(lia)).
  pose proof (Hgt ts 0 ltac:(lia)). pose proof (Hgt ts 1 ltac:(lia)). pose proof (Hgt ts 2 ltac:(lia)).
  pose proof (Hgt ts 3 ltac:(lia)).
  clear Hl Hlt Hgt.
  unfold gen_trot_detect, keyeq, unit_code.
  unfold code_unit_sec, code_unit_min, code_unit_hour, code_unit_day.
  destruct u, lo; gen_decide.
Qed.

Definition detect_result (r : th * bool) :=
  (if snd r then 1 else 0, t_last_sec (fst r),
   tm_sec (t_last_tm (fst r)), tm_min (t_last_tm (fst r)), tm_hour (t_last_tm (fst r)),
   tm_mday (t_last_tm (fst r)), tm_mon (t_last_tm (fst r)), tm_year (t_last_tm (fst r))).

Lemma tm_get_divisible : forall t, tm_in_range t -> divisible (tm_get t).
Proof.
  intros t R k Hk. apply in_range_divisible in R. destruct R as (A & B & C & D).
  change (2 ^ 31) with 2147483648 in *.
  assert (K : k = 0 \/ k = 1 \/ k = 2 \/ k = 3) by lia.
  destruct K as [-> | [-> | [-> | ->]]]; cbn; lia.
Qed.

Lemma keyeq_same_period : forall u md c l, keyeq u md (tm_get c) (tm_get l) = same_period u md c l.
Proof. intros [] md c l; reflexivity. Qed.

Lemma gen_trot_detect_eq : forall h ts clock,
  tm_divisible (t_last_tm h) -> 1 <= t_mod h < 2 ^ 32 ->
  gen_trot_detect (t_last_sec h)
    (tm_sec (t_last_tm h)) (tm_min (t_last_tm h)) (tm_hour (t_last_tm h))
    (tm_mday (t_last_tm h)) (tm_mon (t_last_tm h)) (tm_year (t_last_tm h))
    (t_mod h) (unit_code (t_unit h)) (if t_local h then 1 else 0) ts clock
    (fun s k => tm_get (localtime (t_zone h) s) k) (fun s k => tm_get (gmtime s) k)
  = detect_result (t_detect h (if ts =? 0 then clock else ts)).
Proof.
  intros h ts clock Hl Hm. change (2 ^ 32) with 4294967296 in Hm.
  pose proof (detect_core (t_last_sec h) (tm_get (t_last_tm h)) (t_mod h) ts clock
                (fun s k => tm_get (localtime (t_zone h) s) k) (fun s k => tm_get (gmtime s) k)
                (t_unit h) (t_local h)) as C.
  change (tm_get (t_last_tm h) 0) with (tm_sec (t_last_tm h)) in C.
  change (tm_get (t_last_tm h) 1) with (tm_min (t_last_tm h)) in C.
  change (tm_get (t_last_tm h) 2) with (tm_hour (t_last_tm h)) in C.
  change (tm_get (t_last_tm h) 3) with (tm_mday (t_last_tm h)) in C.
  change (tm_get (t_last_tm h) 4) with (tm_mon (t_last_tm h)) in C.
  change (tm_get (t_last_tm h) 5) with (tm_year (t_last_tm h)) in C.
  rewrite C; clear C.
  - cbv zeta. unfold detect_result, t_detect, brokendown.
    set (sec := if ts =? 0 then clock else ts).
    destruct (t_last_sec h >=? sec); [reflexivity|].
    cbn [fst snd t_set_last t_last_sec t_last_tm].
    destruct (t_local h); rewrite keyeq_same_period; destruct (same_period _ _ _ _); reflexivity.
  - destruct Hl as (A & B & C & D). change (2 ^ 31) with 2147483648 in *.
    intros k Hk. assert (K : k = 0 \/ k = 1 \/ k = 2 \/ k = 3) by lia.
    destruct K as [-> | [-> | [-> | ->]]]; cbn; lia.
  - intro s. apply tm_get_divisible. unfold localtime. apply gmtime_in_range.
  - intro s. apply tm_get_divisible. apply gmtime_in_range.
  - exact Hm.
Qed.

(* ---------------------------------------------------------------------- *)
(* time-rotating handler: rotate() prints the numbers of t_filename in the shape
   the model's driver renders them (ocaml/c17_driver.ml tname_str):
   %d%02d%02d [T %02d [%02d [%02d]]]; shape code: 1 = %d, 2 = %02d, 9 = 'T' *)
Definition name_shape (u : tunit) : Z :=
  match u with USec => 1229222 | UMin => 122922 | UHour => 12292 | UDay => 122 end.

Lemma gen_trot_rotate_eq : forall u (t : tm) fp snp fopen, 0 <= snp -> fopen <> 0 ->
  gen_trot_rotate fp (unit_code u) (tm_sec t) (tm_min t) (tm_hour t) (tm_mday t) (tm_mon t) (tm_year t) snp fopen =
  (code_ok, fopen, name_shape u,
   nth 0 (t_filename u t) 0, nth 1 (t_filename u t) 0, nth 2 (t_filename u t) 0,
   nth 3 (t_filename u t) 0, nth 4 (t_filename u t) 0, nth 5 (t_filename u t) 0).
Proof.
  intros u [s mi hr d mo y] fp snp fopen Hs Hf. cbn [tm_sec tm_min tm_hour tm_mday tm_mon tm_year].
  unfold gen_trot_rotate, unit_code, code_unit_sec, code_unit_min, code_unit_hour, code_unit_day, code_ok.
  destruct u; cbn [t_filename nth name_shape tm_sec tm_min tm_hour tm_mday tm_mon tm_year]; gen_decide.
Qed.

(* ---------------------------------------------------------------------- *)
(* the truncation of both write functions on integers: bytes handed to fwrite and
   where the newline is put (index, value), for a formatter result L *)
Definition nl_index (B L : Z) : Z := if L >=? B then B - 2 else -1.
Definition nl_value (B L : Z) : Z := if L >=? B then 10 else 0.

(* time-rotating handler: write().  detect / rotate are not entered (results
   dret / rret, rotate leaves fp = hfp); what is tied is the ORDER: detect first,
   rotate (if asked for) after detect, the line is handed to fwrite after both *)
Definition trot_write_spec (B fp fmt L dret hfp : Z) :=
  if fmt =? 0 then (-1, fp, -1, -1, 0, -1, 0, 0, 0, 0, 0)
  else if L <? 0 then (-2, fp, B, -1, 0, -1, 0, 0, 0, 0, 0)
  else
    let len := wlen B L in
    if fp =? 0 then (len, fp, B, nl_index B L, nl_value B L, -1, 0, 0, 0, 0, 0)
    else if dret =? 0 then (len, fp, B, nl_index B L, nl_value B L, len, 1, 0, 0, 1, 0)
    else if hfp =? 0 then (len, hfp, B, nl_index B L, nl_value B L, -1, 1, 1, 1, 0, 0)
    else (len, hfp, B, nl_index B L, nl_value B L, len, 1, 1, 1, 1, 1).

Lemma gen_trot_write_eq : forall fp fmt L dret rret hfp, L < 2 ^ 31 ->
  gen_trot_write fp fmt L dret rret hfp = trot_write_spec code_msg_max_len fp fmt L dret hfp.
Proof.
  intros fp fmt L dret rret hfp HL. change (2 ^ 31) with 2147483648 in HL.
  unfold gen_trot_write, trot_write_spec, wlen, nl_index, nl_value, code_msg_max_len. gen_decide.
Qed.

(* the model's write: same length, and the same order (t_write: t_detect, then
   t_rotate when needed, then the append) *)
Lemma t_log_len : forall B h clock m, snd (t_log B h clock m) = wlen B (m_len m).
Proof.
  intros B h clock m. unfold t_log, t_write, fmt_clamp. cbn [m_len m_id m_ts].
  destruct (t_open h); [|reflexivity].
  destruct (t_detect h _) as [h1 need]. destruct (t_open (if need then t_rotate h1 else h1)); reflexivity.
Qed.

(* ---------------------------------------------------------------------- *)
(* size-rotating handler: write() *)
Definition rot_write_spec (B fp mx off fmt L hfp hoff : Z) :=
  if fmt =? 0 then (-1, fp, off, -1, -1, 0, -1, 0)
  else if L <? 0 then (-2, fp, off, B, -1, 0, -1, 0)
  else
    let len := wlen B L in
    if fp =? 0 then (len, fp, off, B, nl_index B L, nl_value B L, -1, 0)
    else if off + len >=? mx then (len, hfp, hoff, B, nl_index B L, nl_value B L, len, 1)
    else (len, fp, off + len, B, nl_index B L, nl_value B L, len, 0).

Lemma gen_rot_write_eq : forall fp mx off fmt L rret hfp hoff, L < 2 ^ 31 ->
  gen_rot_write fp mx off fmt L rret hfp hoff = rot_write_spec code_msg_max_len fp mx off fmt L hfp hoff.
Proof.
  intros fp mx off fmt L rret hfp hoff HL. change (2 ^ 31) with 2147483648 in HL.
  unfold gen_rot_write, rot_write_spec, wlen, nl_index, nl_value, code_msg_max_len. gen_decide.
Qed.

(* ... is r_log: return value, offset bookkeeping (bytes WRITTEN are added), the
   threshold test, and the reset by the rotation (r_offset (r_rotate _) = 0) *)
Lemma gen_rot_write_model : forall h m fmt rret hfp,
  fmt <> 0 -> 0 <= m_len m < 2 ^ 31 ->
  let B := code_msg_max_len in
  let r := r_log B h m in
  let rotated := r_open h && (r_offset h + wlen B (m_len m) >=? r_max h) in
  gen_rot_write (if r_open h then 1 else 0) (r_max h) (r_offset h) fmt (m_len m) rret hfp 0 =
  (snd r, (if rotated then hfp else if r_open h then 1 else 0), r_offset (fst r), B,
   nl_index B (m_len m), nl_value B (m_len m), (if r_open h then snd r else -1), if rotated then 1 else 0).
Proof.
  intros h m fmt rret hfp Hf [H0 HL] B r rotated.
  rewrite gen_rot_write_eq by exact HL. fold B.
  unfold rot_write_spec, r, rotated, r_log, r_write, fmt_clamp. cbn [m_len m_id m_ts].
  destruct (fmt =? 0) eqn:E; [lia|]. destruct (m_len m <? 0) eqn:E2; [lia|].
  cbv zeta. destruct (r_open h); cbn [andb fst snd].
  - change (1 =? 0) with false. cbv iota.
    destruct (r_offset h + wlen B (m_len m) >=? r_max h); reflexivity.
  - reflexivity.
Qed.

(* ---------------------------------------------------------------------- *)
(* size-rotating handler: rotate(): remove, rename chain, rename live, reopen.
   A name is (shape, number): shape 0 = <path>, 1 = "%s.%d" with the number,
   5 = "%s.1"; -1 = no such call on this path *)
(* The loop variable of the rename chain may be the index renamed or that index plus a constant
   (for (i = bc - 1; i > 0; i--) rename i -> i+1;  for (i = bc; i > 1; i--) rename i-1 -> i; a while
   loop with a snapshot, ...): chain_shift = initial loop value for backup_count = 1, where the model's
   chain starts at index 0, read off the generated head itself. *)
Definition chain_shift : Z :=
  match gen_rot_rotate_head 0 1 0 0 0 with (_, _, _, _, _, _, _, v) => v end.

Ltac shift_value :=
  unfold chain_shift;
  let t := fresh "t" in
  set (t := gen_rot_rotate_head 0 1 0 0 0) in *; vm_compute in t; subst t; cbv beta iota in *.

Lemma gen_rot_rotate_head_eq : forall fp bc off snp ex, 0 <= snp -> 0 <= bc < 2 ^ 31 - 2 ->
  gen_rot_rotate_head fp bc off snp ex =
  (0, 0, 0 * fp, 1, bc, (if ex =? 0 then -1 else 1), (if ex =? 0 then 0 else bc), bc - 1 + chain_shift).
Proof.
  intros fp bc off snp ex Hs Hb. change (2 ^ 31 - 2) with 2147483646 in Hb.
  shift_value. unfold gen_rot_rotate_head. gen_decide.
Qed.

Lemma gen_rot_rotate_step_eq : forall i fp bc off snp, 0 <= snp -> -2 <= i < 2 ^ 31 - 2 ->
  gen_rot_rotate_step (i + chain_shift) fp bc off snp =
  if i >? 0 then (1, 1, i, 1, i + 1, i - 1 + chain_shift) else (0, -1, 0, -1, 0, i + chain_shift).
Proof.
  intros i fp bc off snp Hs Hi. change (2 ^ 31 - 2) with 2147483646 in Hi.
  shift_value. unfold gen_rot_rotate_step. gen_decide.
Qed.

Lemma gen_rot_rotate_tail_eq : forall fp bc off snp fopen, 0 <= snp -> fopen <> 0 ->
  gen_rot_rotate_tail fp bc off snp fopen = (code_ok, fopen, 0, 0, 0, 5, 0, 0, 0).
Proof.
  intros fp bc off snp fopen Hs Hf. unfold gen_rot_rotate_tail, code_ok. gen_decide.
Qed.

(* the file operations the three generated pieces describe, run on the model's file system *)
Definition sname_of (shape a : Z) : option sname :=
  if shape =? 0 then Some SLive
  else if shape =? 1 then Some (SBak (Z.to_nat a))
  else if shape =? 5 then Some (SBak 1)
  else None.

Definition rename_opt (s d : option sname) (fs : fsys sname) : option (fsys sname) :=
  match s, d with Some a, Some b => Some (fs_rename sname_eqb a b fs) | _, _ => None end.

Fixpoint gen_chain (fuel : nat) (i fp bc off snp : Z) (fs : fsys sname) : option (fsys sname) :=
  match fuel with
  | O => None
  | S f =>
    match gen_rot_rotate_step i fp bc off snp with
    | (c, ss, sa, ds, da, i') =>
      if c =? 0 then Some fs
      else match rename_opt (sname_of ss sa) (sname_of ds da) fs with
           | Some fs' => gen_chain f i' fp bc off snp fs'
           | None => None
           end
    end
  end.

Definition gen_rotate_run (h : rh) (snp fopen : Z) : option (fsys sname * Z * Z) :=
  let fp := if r_open h then 1 else 0 in
  let bc := Z.of_nat (r_bc h) in
  let off := r_offset h in
  (* the existence test asks about the name the head printed *)
  match gen_rot_rotate_head fp bc off snp 0 with
  | (_, _, _, es, ea, _, _, _) =>
    match sname_of es ea with
    | None => None
    | Some q =>
      let ex := if fs_exists sname_eqb q (r_fs h) then 1 else 0 in
      match gen_rot_rotate_head fp bc off snp ex with
      | (early, _, fp1, _, _, rs, ra, i0) =>
        if negb (early =? 0) then None else
        let fs1 := if rs =? -1 then Some (r_fs h)
                   else match sname_of rs ra with Some x => Some (fs_remove sname_eqb x (r_fs h)) | None => None end in
        match fs1 with
        | None => None
        | Some fs1 =>
          match gen_chain (S (r_bc h)) i0 fp1 bc off snp fs1 with
          | None => None
          | Some fs2 =>
            match gen_rot_rotate_tail fp1 bc off snp fopen with
            | (ret, fp2, off2, ss, sa, ds, da, os, oa) =>
              match rename_opt (sname_of ss sa) (sname_of ds da) fs2, sname_of os oa with
              | Some fs3, Some o => Some (fs_open_append sname_eqb o fs3, off2, ret)
              | _, _ => None
              end
            end
          end
        end
      end
    end
  end.

Lemma gen_chain_r_chain : forall n fuel fp bc off snp fs, 0 <= snp -> (n < fuel)%nat -> Z.of_nat n < 2 ^ 31 - 2 ->
  gen_chain fuel (Z.of_nat n + chain_shift) fp bc off snp fs = Some (r_chain n fs).
Proof.
  change (2 ^ 31 - 2) with 2147483646.
  induction n as [|j IH]; intros fuel fp bc off snp fs Hs Hf Hn; (destruct fuel as [|f]; [lia|]); cbn [gen_chain].
  - rewrite gen_rot_rotate_step_eq by (try exact Hs; change (2 ^ 31 - 2) with 2147483646; lia). reflexivity.
  - rewrite gen_rot_rotate_step_eq by (try exact Hs; change (2 ^ 31 - 2) with 2147483646; lia).
    assert (P : Z.of_nat (S j) >? 0 = true) by lia. rewrite P.
    change (1 =? 0) with false. cbv iota. unfold sname_of. change (1 =? 0) with false. change (1 =? 1) with true. cbv iota.
    cbn [rename_opt r_chain].
    replace (Z.to_nat (Z.of_nat (S j))) with (S j) by lia.
    replace (Z.to_nat (Z.of_nat (S j) + 1)) with (S (S j)) by lia.
    replace (Z.of_nat (S j) - 1 + chain_shift) with (Z.of_nat j + chain_shift) by lia.
    apply IH; [exact Hs|lia|lia].
Qed.

Lemma sname_of_0 : forall a, sname_of 0 a = Some SLive.
Proof. reflexivity. Qed.
Lemma sname_of_1 : forall a, sname_of 1 a = Some (SBak (Z.to_nat a)).
Proof. reflexivity. Qed.
Lemma sname_of_5 : forall a, sname_of 5 a = Some (SBak 1).
Proof. reflexivity. Qed.

Ltac run_simp :=
  cbv beta iota; rewrite ?sname_of_0, ?sname_of_1, ?sname_of_5, ?Nat2Z.id; cbn [rename_opt negb]; cbv beta iota.

Lemma gen_rot_rotate_run_eq : forall h snp fopen, 0 <= snp -> fopen <> 0 -> Z.of_nat (r_bc h) < 2 ^ 31 - 2 ->
  gen_rotate_run h snp fopen = Some (r_fs (r_rotate h), r_offset (r_rotate h), code_ok).
Proof.
  intros h snp fopen Hs Hf Hb. unfold gen_rotate_run. cbv zeta.
  assert (Hb' : 0 <= Z.of_nat (r_bc h) < 2 ^ 31 - 2) by lia.
  change (2 ^ 31 - 2) with 2147483646 in Hb.
  rewrite (gen_rot_rotate_head_eq _ _ _ _ 0) by assumption. run_simp.
  rewrite gen_rot_rotate_head_eq by assumption. run_simp.
  change (0 =? 0) with true. run_simp.
  rewrite gen_rot_rotate_tail_eq by assumption.
  unfold r_rotate. cbn [r_fs r_offset].
  assert (Chain : forall fs, gen_chain (S (r_bc h)) (Z.of_nat (r_bc h) - 1 + chain_shift) (0 * (if r_open h then 1 else 0))
                     (Z.of_nat (r_bc h)) (r_offset h) snp fs = Some (r_chain (r_bc h - 1) fs)).
  { intro fs. destruct (r_bc h) as [|b].
    - (* backup_count = 0: the loop starts below its first index and does nothing *)
      cbn [gen_chain]. change (Z.of_nat 0 - 1 + chain_shift) with (-1 + chain_shift).
      rewrite gen_rot_rotate_step_eq by (try exact Hs; change (2 ^ 31 - 2) with 2147483646; lia).
      change (-1 >? 0) with false. cbv iota. change (0 =? 0) with true. cbv iota. reflexivity.
    - replace (Z.of_nat (S b) - 1 + chain_shift) with (Z.of_nat (S b - 1) + chain_shift) by lia.
      apply gen_chain_r_chain; [exact Hs|lia|change (2 ^ 31 - 2) with 2147483646; lia]. }
  destruct (fs_exists sname_eqb (SBak (r_bc h)) (r_fs h)) eqn:E.
  - change (1 =? 0) with false. run_simp. change (1 =? -1) with false. run_simp.
    rewrite Chain. run_simp. reflexivity.
  - change (0 =? 0) with true. run_simp. change (-1 =? -1) with true. run_simp.
    rewrite Chain. run_simp. reflexivity.
Qed.

(* ---------------------------------------------------------------------- *)
(* the hypotheses are met by every handler the model produces: last_tm is always a
   broken-down time (TI_tm), whose fields are in range for every zone *)
Lemma init_divisible : forall fs clock u md local zn, tm_divisible (t_last_tm (t_init fs clock u md local zn)).
Proof. intros. apply in_range_divisible. cbn. apply brokendown_in_range. Qed.

Lemma detect_divisible : forall h sec, tm_divisible (t_last_tm h) -> tm_divisible (t_last_tm (fst (t_detect h sec))).
Proof.
  intros h sec H. unfold t_detect. destruct (t_last_sec h >=? sec); [exact H|].
  cbn. apply in_range_divisible. apply brokendown_in_range.
Qed.

(* non-vacuity, on numbers: 2024-05-10 (zone +08:00, local mode, hour unit): a line at 21:00:00
   after one at 20:59:59 asks for a rotation and stores the new broken-down time; the name printed
   is 2024 05 10 T 21; a line of exactly sizeof(buf) bytes is cut to sizeof(buf) - 1, the newline
   goes to index sizeof(buf) - 2, and the rotation test uses the bytes written *)
Example gen_examples :
  let h := t_init [] 1715345999 UHour 1 true (fixed_zone 28800) in
  gen_trot_detect (t_last_sec h) (tm_sec (t_last_tm h)) (tm_min (t_last_tm h)) (tm_hour (t_last_tm h))
    (tm_mday (t_last_tm h)) (tm_mon (t_last_tm h)) (tm_year (t_last_tm h)) 1 code_unit_hour 1 1715346000 0
    (fun s k => tm_get (localtime (fixed_zone 28800) s) k) (fun s k => tm_get (gmtime s) k)
  = (1, 1715346000, 0, 0, 21, 10, 4, 124) /\
  gen_trot_rotate 0 code_unit_hour 0 0 21 10 4 124 0 7 = (code_ok, 7, 12292, 2024, 5, 10, 21, 0, 0) /\
  gen_rot_write 1 8190 4095 1 4096 0 9 0 = (4095, 9, 0, 4096, 4094, 10, 4095, 1) /\
  gen_rot_write 1 8191 4095 1 4096 0 9 0 = (4095, 1, 8190, 4096, 4094, 10, 4095, 0) /\
  gen_trot_write 1 1 30 1 0 5 = (30, 5, 4096, -1, 0, 30, 1, 1, 1, 1, 1) /\
  gen_rot_rotate_step (3 + chain_shift) 0 4 0 0 = (1, 1, 3, 1, 4, 2 + chain_shift) /\
  tm_divisible (t_last_tm h).
Proof. repeat split; try (vm_compute; reflexivity); apply init_divisible. Qed.
