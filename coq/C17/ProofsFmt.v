(* C17 — the truncation convention of the handlers: whatever the formatter
   wanted, the bytes handed to fwrite are one terminated record *)
From MV Require Import C17.Model.
Local Open Scope Z_scope.

Lemma set_nth_last : forall x n (text : list Z),
  (S n <= length text)%nat -> set_nth n x (firstn (S n) text) = firstn n text ++ [x].
Proof.
  intros x. induction n as [|n IH]; intros text H.
  - destruct text as [|a r]; [simpl in H; lia|]. reflexivity.
  - destruct text as [|a r]; [simpl in H; lia|].
    change (firstn (S (S n)) (a :: r)) with (a :: firstn (S n) r).
    change (firstn (S n) (a :: r)) with (a :: firstn n r).
    cbn [set_nth]. rewrite IH by (simpl in H; lia). reflexivity.
Qed.

Lemma set_nth_app_l : forall x n (a b : list Z),
  (n < length a)%nat -> set_nth n x (a ++ b) = set_nth n x a ++ b.
Proof.
  intros x. induction n as [|n IH]; intros a b H; (destruct a as [|y a]; [simpl in H; lia|]).
  - reflexivity.
  - simpl. rewrite IH by (simpl in H; lia). reflexivity.
Qed.

Lemma set_nth_length : forall x n (l : list Z), length (set_nth n x l) = length l.
Proof.
  intros x n l. revert n. induction l as [|a r IH]; intros [|n]; simpl; try reflexivity.
  rewrite IH. reflexivity.
Qed.

(* A formatted line = body (no newline, no NUL) followed by one newline.  For
   EVERY length and every buffer size B >= 2 the record written is
   (prefix of body) ++ [newline], whole when the line fits, B-1 bytes otherwise;
   its length is what the model adds to the offset (wlen). *)
Theorem record_bytes_spec : forall (B : nat) (body : list Z),
  (2 <= B)%nat ->
  let text := body ++ [NL] in
  let w := Z.to_nat (wlen (Z.of_nat B) (Z.of_nat (length text))) in
  record_bytes B text = firstn (w - 1) body ++ [NL] /\
  length (record_bytes B text) = w /\
  (w <= B - 1)%nat /\
  ((length text < B)%nat -> record_bytes B text = text).
Proof.
  intros B body HB text w.
  assert (Hlen : length text = S (length body)) by (unfold text; rewrite app_length; simpl; lia).
  unfold record_bytes, snprintf_buf. fold text.
  destruct (B <=? length text)%nat eqn:E.
  - apply Nat.leb_le in E.
    assert (Hw : w = (B - 1)%nat).
    { assert (Hc : (Z.of_nat (length text) >=? Z.of_nat B) = true) by (apply Z.geb_le; lia).
      unfold w, wlen. rewrite Hc. lia. }
    assert (Hf : length (firstn (B - 1) text) = (B - 1)%nat) by (rewrite firstn_length; lia).
    rewrite set_nth_app_l by lia.
    assert (Hb : firstn (B - 2) text = firstn (B - 2) body).
    { unfold text. rewrite firstn_app. replace (B - 2 - length body)%nat with 0%nat by lia.
      simpl. rewrite app_nil_r. reflexivity. }
    assert (Hs : set_nth (B - 2) NL (firstn (B - 1) text) = firstn (B - 2) body ++ [NL]).
    { replace (B - 1)%nat with (S (B - 2)) by lia. rewrite set_nth_last by lia. rewrite Hb. reflexivity. }
    assert (Hl : length (firstn (B - 2) body ++ [NL]) = (B - 1)%nat)
      by (rewrite app_length, firstn_length; simpl; lia).
    assert (Hrec : firstn (B - 1) (set_nth (B - 2) NL (firstn (B - 1) text) ++ [NUL]) = firstn (B - 2) body ++ [NL]).
    { rewrite Hs. rewrite firstn_app.
      rewrite Hl, Nat.sub_diag. simpl firstn at 2. rewrite app_nil_r.
      apply firstn_all2. lia. }
    rewrite Hrec, Hw. replace (B - 1 - 1)%nat with (B - 2)%nat by lia.
    split; [reflexivity|]. split; [exact Hl|].
    split; [lia|]. intro. lia.
  - apply Nat.leb_gt in E.
    assert (Hw : w = length text).
    { assert (Hc : (Z.of_nat (length text) >=? Z.of_nat B) = false) by (rewrite Z.geb_leb; apply Z.leb_gt; lia).
      unfold w, wlen. rewrite Hc. lia. }
    rewrite (firstn_all2 text) by lia.
    rewrite firstn_app, Nat.sub_diag, firstn_all. simpl. rewrite app_nil_r.
    rewrite Hw, Hlen. simpl. rewrite Nat.sub_0_r, firstn_all.
    split; [reflexivity|]. split; [first [reflexivity | exact Hlen | lia]|].
    split; [lia|]. intro. reflexivity.
Qed.

Lemma In_firstn : forall (A : Type) n (l : list A) x, In x (firstn n l) -> In x l.
Proof.
  intros A n. induction n as [|n IH]; intros l x H; [destruct H|].
  destruct l as [|a r]; [destruct H|]. simpl in H. destruct H as [H|H]; [left; exact H|right; apply IH; exact H].
Qed.

(* consequences in the words of the property: the record ends in exactly one
   newline, the rest is a prefix of the line and carries no newline and no NUL *)
Theorem record_terminated : forall (B : nat) (body : list Z),
  (2 <= B)%nat -> (forall c, In c body -> c <> NL /\ c <> NUL) ->
  exists pre, record_bytes B (body ++ [NL]) = pre ++ [NL] /\
              (exists rest, body = pre ++ rest) /\
              (forall c, In c pre -> c <> NL /\ c <> NUL) /\
              (length (pre ++ [NL]) <= B - 1)%nat /\
              Z.of_nat (length (pre ++ [NL])) = wlen (Z.of_nat B) (Z.of_nat (length (body ++ [NL]))).
Proof.
  intros B body HB Hbody.
  destruct (record_bytes_spec B body HB) as [H1 [H2 [H3 _]]].
  set (w := Z.to_nat (wlen (Z.of_nat B) (Z.of_nat (length (body ++ [NL]))))) in *.
  exists (firstn (w - 1) body). split; [exact H1|]. repeat split.
  - exists (skipn (w - 1) body). symmetry. apply firstn_skipn.
  - apply (proj1 (Hbody c (In_firstn _ _ _ _ H))) .
  - apply (proj2 (Hbody c (In_firstn _ _ _ _ H))).
  - rewrite <- H1, H2. exact H3.
  - rewrite <- H1, H2. unfold w. rewrite Z2Nat.id; [reflexivity|].
    unfold wlen. destruct (_ >=? _); lia.
Qed.

(* the same with the buffer size given as the Z constant of the code *)
Theorem record_terminated_Z : forall (B : Z), (2 <=? B) = true ->
  forall body : list Z, (forall c, In c body -> c <> NL /\ c <> NUL) ->
  exists pre, record_bytes (Z.to_nat B) (body ++ [NL]) = pre ++ [NL] /\
              (exists rest, body = pre ++ rest) /\
              (forall c, In c pre -> c <> NL /\ c <> NUL) /\
              Z.of_nat (length (pre ++ [NL])) <= B - 1 /\
              Z.of_nat (length (pre ++ [NL])) = wlen B (Z.of_nat (length (body ++ [NL]))).
Proof.
  intros B HB body Hbody. apply Z.leb_le in HB.
  destruct (record_terminated (Z.to_nat B) body ltac:(lia) Hbody) as [pre [H1 [H2 [H3 [H4 H5]]]]].
  rewrite Z2Nat.id in H5 by lia.
  exists pre. repeat split; try assumption; try (apply H3; assumption). lia.
Qed.

(* record level: the clamp never lets a record reach B bytes, and leaves lines
   that fit unchanged *)
Lemma wlen_bound : forall B L, 1 <= B -> 0 <= L -> 0 <= wlen B L <= B - 1 /\ wlen B L <= L.
Proof.
  intros B L HB HL. unfold wlen. destruct (L >=? B) eqn:E.
  - apply Z.geb_le in E. lia.
  - rewrite Z.geb_leb in E. apply Z.leb_gt in E. lia.
Qed.

Lemma wlen_fits : forall B L, L < B -> wlen B L = L.
Proof.
  intros B L H. unfold wlen.
  assert (Hc : (L >=? B) = false) by (rewrite Z.geb_leb; apply Z.leb_gt; lia).
  rewrite Hc. reflexivity.
Qed.

(* non-vacuity at a tiny buffer: B = 6; "abcdefg\n" is cut to "abcd\n", a line of
   exactly B bytes "abcde\n" too; "abcd\n" (B-1 bytes) is written whole *)
Example record_bytes_examples :
  record_bytes 6 [97; 98; 99; 100; 101; 102; 103; 10] = [97; 98; 99; 100; 10] /\
  record_bytes 6 [97; 98; 99; 100; 101; 10] = [97; 98; 99; 100; 10] /\
  record_bytes 6 [97; 98; 99; 100; 10] = [97; 98; 99; 100; 10].
Proof. vm_compute. repeat split. Qed.
