(* C17 — the working directory: a handler only ever touches the directory its
   path was resolved to at init, whatever the process does with its cwd *)
From MV Require Import C17.Model C17.ProofsFs C17.ProofsRot C17.ProofsTrot C17.ProofsFmt C17.ProofsLog.
Local Open Scope Z_scope.

Lemma dir_eqb_eq : forall a b, dir_eqb a b = true <-> a = b.
Proof.
  intros [r1 s1] [r2 s2]. simpl. rewrite andb_true_iff, !Z.eqb_eq. split.
  - intros [-> ->]. reflexivity.
  - intro H. injection H. auto.
Qed.

Lemma dir_eqb_refl : forall a, dir_eqb a a = true.
Proof. intro a. apply dir_eqb_eq. reflexivity. Qed.

Lemma dir_eqb_neq : forall a b, a <> b -> dir_eqb a b = false.
Proof. intros a b H. destruct (dir_eqb a b) eqn:E; [|reflexivity]. apply dir_eqb_eq in E. contradiction. Qed.

Lemma dir_dec : forall a b : dir, {a = b} + {a <> b}.
Proof.
  intros a b. destruct (dir_eqb a b) eqn:E.
  - left. apply dir_eqb_eq. exact E.
  - right. intro H. apply dir_eqb_eq in H. congruence.
Qed.

Section G.
  Variable N : Type.

  Lemma g_dir_del_same : forall d (g : gfsys N), g_dir d (g_del d g) = [].
  Proof.
    intros d g. induction g as [|[e fs] r IH]; simpl; [reflexivity|].
    destruct (dir_eqb d e) eqn:E; [exact IH|]. simpl. rewrite E. exact IH.
  Qed.

  Lemma g_dir_del_other : forall d e (g : gfsys N), d <> e -> g_dir d (g_del e g) = g_dir d g.
  Proof.
    intros d e g H. induction g as [|[k fs] r IH]; simpl; [reflexivity|].
    destruct (dir_eqb e k) eqn:E.
    - apply dir_eqb_eq in E. subst k. rewrite (dir_eqb_neq _ _ H). exact IH.
    - simpl. destruct (dir_eqb d k); [reflexivity|exact IH].
  Qed.

  Lemma g_dir_set_same : forall d fs (g : gfsys N), g_dir d (g_set d fs g) = fs.
  Proof. intros. unfold g_set. simpl. rewrite dir_eqb_refl. reflexivity. Qed.

  Lemma g_dir_set_other : forall d e fs (g : gfsys N), d <> e -> g_dir d (g_set e fs g) = g_dir d g.
  Proof. intros d e fs g H. unfold g_set. simpl. rewrite (dir_eqb_neq _ _ H). apply g_dir_del_other. exact H. Qed.

  Variable H : Type.
  Variable hfs : H -> fsys N.
  Variables W R : Type.
  Variable hwrite : H -> W -> H.
  Variable hreinit : H -> fsys N -> R -> H.
  Notation gstate := (gst N H).
  Notation step := (g_step hfs hwrite hreinit).
  Notation run := (g_run hfs hwrite hreinit).

  (* the handler's own directory, seen through the whole file system *)
  Lemma gs_fs_own : forall g : gstate, g_dir (gs_dir g) (gs_fs hfs g) = hfs (gs_h g).
  Proof. intro g. unfold gs_fs. apply g_dir_set_same. Qed.

  Lemma gs_fs_other : forall (g : gstate) d, d <> gs_dir g -> g_dir d (gs_fs hfs g) = g_dir d (gs_others g).
  Proof. intros g d Hd. unfold gs_fs. apply g_dir_set_other. exact Hd. Qed.

  (* directories a history resolves its path to after the start *)
  Fixpoint later_dirs (cwd : Z) (p : parg) (ops : list (gop W R)) : list dir :=
    match ops with
    | [] => []
    | GWrite _ :: r => later_dirs cwd p r
    | GChdir c :: r => later_dirs c p r
    | GRestart _ :: r => resolve cwd p :: later_dirs cwd p r
    end.

  (* FRAME: a directory that is neither the handler's nor one a later restart
     resolves to has the same contents after any history *)
  Lemma frame_run : forall ops (g : gstate) d,
    d <> gs_dir g -> ~ In d (later_dirs (gs_cwd g) (gs_parg g) ops) ->
    g_dir d (gs_fs hfs (run g ops)) = g_dir d (gs_fs hfs g).
  Proof.
    induction ops as [|o r IH]; intros g d Hd Hn; [reflexivity|].
    unfold g_run in *. simpl fold_left. destruct o as [w|x|c]; simpl in Hn.
    - rewrite IH; [|exact Hd|exact Hn]. rewrite !gs_fs_other by exact Hd. reflexivity.
    - assert (Hd' : d <> gs_dir (step g (GRestart x))).
      { intro E. apply Hn. left. symmetry. exact E. }
      rewrite IH; [|exact Hd'|intro E; apply Hn; right; exact E].
      rewrite (gs_fs_other (step g (GRestart x)) d Hd'). reflexivity.
    - rewrite IH; [|exact Hd|exact Hn]. rewrite !gs_fs_other by exact Hd. reflexivity.
  Qed.

  (* PROJECTION: when every restart resolves to the directory of the start
     (absolute path, or the process is back in the start directory), the handler
     state is that of the one-directory model run on the writes and restarts *)
  Fixpoint stable (d0 : dir) (cwd : Z) (p : parg) (ops : list (gop W R)) : Prop :=
    match ops with
    | [] => True
    | GWrite _ :: r => stable d0 cwd p r
    | GChdir c :: r => stable d0 c p r
    | GRestart _ :: r => resolve cwd p = d0 /\ stable d0 cwd p r
    end.

  Definition lstep (h : H) (o : gop W R) : H :=
    match o with
    | GWrite w => hwrite h w
    | GRestart x => hreinit h (hfs h) x
    | GChdir _ => h
    end.

  Lemma project_run : forall ops (g : gstate),
    stable (gs_dir g) (gs_cwd g) (gs_parg g) ops ->
    gs_h (run g ops) = fold_left lstep ops (gs_h g) /\ gs_dir (run g ops) = gs_dir g.
  Proof.
    induction ops as [|o r IH]; intros g Hs; [split; reflexivity|].
    unfold g_run in *. simpl fold_left. destruct o as [w|x|c]; simpl in Hs.
    - destruct (IH (step g (GWrite w)) Hs) as [A B]. split; [exact A|exact B].
    - destruct Hs as [Hr Hs].
      assert (Hd : gs_dir (step g (GRestart x)) = gs_dir g) by (simpl; exact Hr).
      destruct (IH (step g (GRestart x))) as [A B].
      + rewrite Hd. exact Hs.
      + split; [|rewrite B; exact Hd]. rewrite A. f_equal. cbn [g_step gs_h lstep]. rewrite Hr. rewrite (gs_fs_own g). reflexivity.
    - destruct (IH (step g (GChdir c)) Hs) as [A B]. split; [exact A|exact B].
  Qed.
End G.

(* ---------------------------------------------------------------------- *)
(* instances *)
Definition rop_of (o : gop msg Z) : list rop :=
  match o with GWrite m => [RWrite m] | GRestart mb => [RRestart mb] | GChdir _ => [] end.
Definition rops_of (ops : list (gop msg Z)) : list rop := flat_map rop_of ops.

Lemma r_local_run : forall B ops h,
  fold_left (lstep _ _ r_fs _ _ (rg_write B) rg_reinit) ops h = r_run_log B h (rops_of ops).
Proof.
  intros B. induction ops as [|o r IH]; intro h; [reflexivity|].
  simpl fold_left. rewrite IH. unfold rops_of. simpl flat_map. unfold r_run_log. rewrite fold_left_app.
  destruct o; reflexivity.
Qed.

Definition top_of (o : gop (Z * msg) Z) : list top :=
  match o with GWrite w => [TWrite (fst w) (snd w)] | GRestart c => [TRestart c] | GChdir _ => [] end.
Definition tops_of (ops : list (gop (Z * msg) Z)) : list top := flat_map top_of ops.

Lemma t_local_run : forall B ops h,
  fold_left (lstep _ _ t_fs _ _ (tg_write B) tg_reinit) ops h = t_run_log B h (tops_of ops).
Proof.
  intros B. induction ops as [|o r IH]; intro h; [reflexivity|].
  simpl fold_left. rewrite IH. unfold tops_of. simpl flat_map. unfold t_run_log. rewrite fold_left_app.
  destruct o; reflexivity.
Qed.

(* size rotation: every directory other than the configured ones is untouched *)
Theorem rot_frame : forall B fs0 cwd p mb bc ops d,
  d <> resolve cwd p -> ~ In d (later_dirs _ _ cwd p ops) ->
  g_dir d (gs_fs r_fs (rg_run B (rg_start fs0 cwd p mb bc) ops)) = g_dir d fs0.
Proof.
  intros B fs0 cwd p mb bc ops d Hd Hn. unfold rg_run.
  rewrite frame_run; [|exact Hd|exact Hn].
  rewrite gs_fs_other by exact Hd. reflexivity.
Qed.

(* ... and the configured directory holds exactly what the one-directory model says *)
Theorem rot_project : forall B fs0 cwd p mb bc ops,
  stable _ _ (resolve cwd p) cwd p ops ->
  let g := rg_run B (rg_start fs0 cwd p mb bc) ops in
  gs_dir g = resolve cwd p /\
  g_dir (resolve cwd p) (gs_fs r_fs g) =
    r_fs (r_run_log B (r_init (g_dir (resolve cwd p) fs0) mb bc) (rops_of ops)).
Proof.
  intros B fs0 cwd p mb bc ops Hs g. unfold g, rg_run.
  destruct (project_run _ _ r_fs _ _ (rg_write B) rg_reinit ops (rg_start fs0 cwd p mb bc) Hs) as [A Bd].
  split; [exact Bd|].
  rewrite <- Bd at 1. rewrite gs_fs_own, A, r_local_run. reflexivity.
Qed.

Theorem trot_frame : forall B fs0 cwd p clock u md local tz ops d,
  d <> resolve cwd p -> ~ In d (later_dirs _ _ cwd p ops) ->
  g_dir d (gs_fs t_fs (tg_run B (tg_start fs0 cwd p clock u md local tz) ops)) = g_dir d fs0.
Proof.
  intros B fs0 cwd p clock u md local tz ops d Hd Hn. unfold tg_run.
  rewrite frame_run; [|exact Hd|exact Hn].
  rewrite gs_fs_other by exact Hd. reflexivity.
Qed.

Lemma t_cfg_run : forall B ops h, cfg_of (t_run_log B h ops) = cfg_of h.
Proof.
  intros B. induction ops as [|o r IH]; intro h; [reflexivity|].
  unfold t_run_log in *. simpl. rewrite IH. destruct o as [clock m|clock]; simpl; [|reflexivity].
  unfold t_log, t_write. destruct (t_open h); [|reflexivity].
  destruct (t_detect h (eff_ts clock (fmt_clamp B m))) as [h1 need] eqn:E.
  pose proof (cfg_detect h (eff_ts clock (fmt_clamp B m))) as C. rewrite E in C. simpl in C.
  destruct need.
  - simpl. exact C.
  - destruct (t_open h1); simpl; exact C.
Qed.

Theorem trot_project : forall B fs0 cwd p clock u md local tz ops,
  stable _ _ (resolve cwd p) cwd p ops ->
  let g := tg_run B (tg_start fs0 cwd p clock u md local tz) ops in
  gs_dir g = resolve cwd p /\
  g_dir (resolve cwd p) (gs_fs t_fs g) =
    t_fs (t_run_log B (t_init (g_dir (resolve cwd p) fs0) clock u md local tz) (tops_of ops)).
Proof.
  intros B fs0 cwd p clock u md local tz ops Hs g. unfold g, tg_run.
  destruct (project_run _ _ t_fs _ _ (tg_write B) tg_reinit ops
              (tg_start fs0 cwd p clock u md local tz) Hs) as [A Bd].
  split; [exact Bd|].
  rewrite <- Bd at 1. rewrite gs_fs_own, A, t_local_run. reflexivity.
Qed.

(* non-vacuity: relative path "log.txt" from directory 0, a chdir to directory 1
   before the rotations: the backups and the live file are all in directory 0,
   directory 1 (which holds an unrelated file) is untouched *)
Example rot_dir_example :
  let fs0 : gfsys sname := [(Dir 1 0, [(SLive, [ex_msg 99 5])])] in
  let g := rg_run 4096 (rg_start fs0 0 (PRel 0) 12 2)
             [GWrite (ex_msg 1 6); GChdir 1; GWrite (ex_msg 2 6); GWrite (ex_msg 3 12); GChdir 2; GWrite (ex_msg 4 5)] in
  map (fun f => (fst f, map m_id (snd f))) (g_dir (Dir 0 0) (gs_fs r_fs g)) =
    [(SLive, [4]); (SBak 1, [3]); (SBak 2, [1; 2])] /\
  g_dir (Dir 1 0) (gs_fs r_fs g) = [(SLive, [ex_msg 99 5])] /\ g_dir (Dir 2 0) (gs_fs r_fs g) = [].
Proof. vm_compute. repeat split. Qed.
