(* C17 — the whole write functions (format, truncate, write): the theorems about
   histories of records carry over to histories of messages of ANY length *)
From MV Require Import C17.Model C17.ProofsFs C17.ProofsRot C17.ProofsTrot C17.ProofsFmt.
Local Open Scope Z_scope.

Lemma r_run_log_eq : forall B ops h, r_run_log B h ops = r_run h (map (rop_clamp B) ops).
Proof.
  intros B. induction ops as [|o r IH]; intro h; [reflexivity|].
  unfold r_run_log, r_run in *. simpl. rewrite IH. f_equal. destruct o; reflexivity.
Qed.

Lemma t_run_log_eq : forall B ops h, t_run_log B h ops = t_run h (map (top_clamp B) ops).
Proof.
  intros B. induction ops as [|o r IH]; intro h; [reflexivity|].
  unfold t_run_log, t_run in *. simpl. rewrite IH. f_equal. destruct o; reflexivity.
Qed.

(* the records a history of messages hands to fwrite *)
Definition r_records (B : Z) (ops : list rop) : list msg := r_written (map (rop_clamp B) ops).
Definition t_records (B : Z) (ops : list top) : list msg := t_lines (map (top_clamp B) ops).

Lemma r_records_map : forall B ops, r_records B ops = map (fmt_clamp B) (r_written ops).
Proof.
  intros B ops. unfold r_records, r_written. induction ops as [|o r IH]; [reflexivity|].
  simpl. rewrite IH, map_app. destruct o; reflexivity.
Qed.

Lemma r_records_ids : forall B ops, map m_id (r_records B ops) = map m_id (r_written ops).
Proof. intros. rewrite r_records_map, map_map. reflexivity. Qed.

(* no record reaches B bytes, a line that fits is stored with its own length *)
Lemma r_records_bounded : forall B ops, 1 <= B ->
  Forall (fun m => 0 <= m_len m) (r_written ops) ->
  Forall (fun r => 0 <= m_len r <= B - 1) (r_records B ops).
Proof.
  intros B ops HB H. rewrite r_records_map. apply Forall_forall. intros r Hr.
  apply in_map_iff in Hr. destruct Hr as [m [<- Hm]].
  rewrite Forall_forall in H. specialize (H m Hm). simpl. pose proof (wlen_bound B (m_len m) HB H). lia.
Qed.

Lemma r_records_bounded_b : forall B ops, (2 <=? B) = true ->
  Forall (fun m => 0 <= m_len m) (r_written ops) ->
  Forall (fun r => 0 <= m_len r <= B - 1) (r_records B ops).
Proof. intros B ops HB. apply Z.leb_le in HB. apply r_records_bounded. lia. Qed.

Lemma well_timed_clamp : forall B ops lo, well_timed lo (map (top_clamp B) ops) <-> well_timed lo ops.
Proof.
  intros B. induction ops as [|o r IH]; intro lo; [reflexivity|].
  destruct o as [clock m|clock]; simpl.
  - change (eff_ts clock (fmt_clamp B m)) with (eff_ts clock m). rewrite IH. reflexivity.
  - apply IH.
Qed.

Theorem rot_log_suffix : forall B fs0 mb bc ops,
  let K := Kof bc in
  let h := r_run_log B (r_init fs0 mb bc) ops in
  exists lost,
    retained K fs0 ++ r_records B ops = lost ++ retained K (r_fs h) /\
    (NoDup (map m_id (retained K fs0) ++ map m_id (r_written ops)) -> NoDup (map m_id (retained K (r_fs h)))).
Proof.
  intros B fs0 mb bc ops K h. unfold h. rewrite r_run_log_eq.
  destruct (rot_suffix fs0 mb bc (map (rop_clamp B) ops)) as [lost [E ND]].
  exists lost. split; [exact E|].
  intro H. apply ND. rewrite map_app. fold (r_records B ops). rewrite r_records_ids. exact H.
Qed.

Theorem rot_log_segments : forall B fs0 mb bc ops,
  let K := Kof bc in
  let h := r_run_log B (r_init fs0 mb bc) ops in
  let s := sp_run (sp_init K fs0 mb) (map (rop_clamp B) ops) in
  (forall i, (1 <= i <= K)%nat -> bk (r_fs h) i = nth (i - 1) (sp_closed s) []) /\
  fs_get sname_eqb SLive (r_fs h) = Some (sp_live s) /\
  retained K fs0 ++ r_records B ops = concat (rev (skipn K (sp_closed s))) ++ retained K (r_fs h).
Proof.
  intros B fs0 mb bc ops K h s. unfold h. rewrite r_run_log_eq.
  exact (rot_refines_segments fs0 mb bc (map (rop_clamp B) ops)).
Qed.

Theorem rot_log_bc_zero : forall B fs0 mb ops,
  let h := r_run_log B (r_init fs0 mb 0) ops in
  let s := sp_run (sp_init 1 fs0 mb) (map (rop_clamp B) ops) in
  bk (r_fs h) 1 = hd [] (sp_closed s) /\
  fs_get sname_eqb SLive (r_fs h) = Some (sp_live s) /\
  (forall i, (2 <= i)%nat -> fs_get sname_eqb (SBak i) (r_fs h) = fs_get sname_eqb (SBak i) fs0) /\
  retained 1 fs0 ++ r_records B ops = concat (rev (tl (sp_closed s))) ++ bk (r_fs h) 1 ++ live (r_fs h).
Proof.
  intros B fs0 mb ops h s. unfold h. rewrite r_run_log_eq.
  exact (rot_bc_zero fs0 mb (map (rop_clamp B) ops)).
Qed.

Theorem trot_log_in_own_period : forall B fs0 clock0 u md local tz ops,
  files_ok u md local tz fs0 ->
  well_timed clock0 ops ->
  let h := t_run_log B (t_init fs0 clock0 u md local tz) ops in
  forall n c m, fs_get tname_eqb n (t_fs h) = Some c -> In m c ->
    period_of_name md n = period_key u md (brokendown local tz (m_ts m)).
Proof.
  intros B fs0 clock0 u md local tz ops Hf Hw h. unfold h. rewrite t_run_log_eq.
  apply trot_in_own_period; [exact Hf|]. apply well_timed_clamp. exact Hw.
Qed.

Theorem trot_log_stored : forall B fs0 clock0 u md local tz ops l,
  In l (t_records B ops) -> stored (t_fs (t_run_log B (t_init fs0 clock0 u md local tz) ops)) l.
Proof.
  intros B fs0 clock0 u md local tz ops l H. rewrite t_run_log_eq. apply trot_stored. exact H.
Qed.

(* every record of a time-rotated history is below B bytes as well *)
Lemma t_records_bounded : forall B ops l, 1 <= B ->
  (forall clock m, In (TWrite clock m) ops -> 0 <= m_len m) ->
  In l (t_records B ops) -> 0 <= m_len l <= B - 1.
Proof.
  intros B ops l HB Hpos. unfold t_records, t_lines. induction ops as [|o r IH]; intro H; [destruct H|].
  simpl in H. apply in_app_or in H. destruct H as [H|H].
  - destruct o as [clock m|clock]; [|destruct H]. destruct H as [<-|[]]. simpl.
    pose proof (wlen_bound B (m_len m) HB (Hpos clock m (or_introl eq_refl))). lia.
  - apply IH; [|exact H]. intros clock m Hin. apply (Hpos clock m). right. exact Hin.
Qed.

(* non-vacuity with a small buffer (B = 10), two backups, max_bytes 12: line 2
   wants exactly B bytes, line 3 wants 25; both are stored as 9-byte records and
   the offset is counted in bytes written (9 + 3 = 12 closes the segment) *)
Example rot_log_example :
  let h := r_run_log 10 (r_init [] 12 2)
             [RWrite (ex_msg 1 5); RWrite (ex_msg 2 10); RWrite (ex_msg 3 25); RWrite (ex_msg 4 3); RWrite (ex_msg 5 9)] in
  map (fun m => (m_id m, m_len m)) (bk (r_fs h) 2) = [(1, 5); (2, 9)] /\
  map (fun m => (m_id m, m_len m)) (bk (r_fs h) 1) = [(3, 9); (4, 3)] /\
  map (fun m => (m_id m, m_len m)) (live (r_fs h)) = [(5, 9)].
Proof. vm_compute. repeat split. Qed.
