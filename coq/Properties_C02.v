(* C02 — property theorems only (proved in C02/Proofs*.v), instantiated with the memory
   orders and the flag -> mode table re-extracted from the code on this run (gen/Params_C02.v). *)
From MV Require Import C02.Model gen.Params_C02.
Local Open Scope Z_scope.

(* the flag -> mode decision of muggle_ring_buffer_get_mode, as computed by the code on this run,
   is the model's for all 32 flag values *)
Theorem rb_mode_table_matches :
  forallb (fun r => match r with (f, rc, wm, rm) =>
    match get_mode f with
    | Some (w, rd) => (rc =? 0) && (wm =? wmode_num w) && (rm =? rmode_num rd)
    | None => (rc =? err_invalid_param)
    end end) code_mode_table = true /\ length code_mode_table = 32%nat.
Proof. vm_compute. split; reflexivity. Qed.
Print Assumptions rb_mode_table_matches.
