(* C02 — property theorems only (proved in C02/Proofs*.v), instantiated with the memory
   orders and the flag -> mode table re-extracted from the code on this run (gen/Params_C02.v).
   Conventions: a scenario c (cfg) has capacity 2^(c_k c), c_nw writers, c_nr readers, c_pre
   messages written before the threads start; written = (s_nw, s_wr), appended at the cursor
   store; reader t's k-th result is t_got k, its 32-bit index register t_idx; a reader's first
   index c_idx0 c t is ANY 32-bit index whose ring position has been written (wf_cfg: late
   joiners that start at an older, still valid message, readers at different residues, readers
   at the cursor); rd_start c t = c_pre - (c_pre - c_idx0) mod capacity is the position of that
   message in the write order, so the reader's k-th read asks for logical index rd_start c t + k;
   readers may stop after any number of reads (c_rq); the documented no-lapping precondition
   (writes begun < next index + capacity for every reader that still reads, at every slot store)
   is the ghost monitor s_lapped = false. *)
From MV Require Import C02.Model C02.ProofsBase C02.ProofsCtl C02.ProofsFun C02.ProofsFunStep
  C02.ProofsTop C02.ProofsEx C02.ProofsView C02.ProofsViewStep C02.ProofsVis C02.ProofsOnce
  C02.ProofsThrottle C02.ProofsParam C02.ProofsGen C02.ProofsTie C02.ProofsTieGen gen.Params_C02.
Local Open Scope Z_scope.

(* the flag -> mode decision of muggle_ring_buffer_get_mode, as computed by the code on this run,
   is the model's for all 32 flag values (accepted combinations and the rejected one) *)
Theorem rb_mode_table_matches :
  forallb (fun r => match r with (f, rc, wm, rm) =>
    match get_mode f with
    | Some (w, rd) => (rc =? 0) && (wm =? wmode_num w) && (rm =? rmode_num rd)
    | None => (rc =? err_invalid_param)
    end end) code_mode_table = true /\ length code_mode_table = 32%nat.
Proof. vm_compute. split; reflexivity. Qed.
Print Assumptions rb_mode_table_matches.

(* the logical position a first index names: congruent to the index modulo the capacity, at most
   c_pre (the cursor), less than a capacity behind it (not lapped); an index at the cursor names
   position c_pre.  Pure arithmetic, for every configuration and every index. *)
Theorem rb_start_position : forall c t,
  rd_start c t mod cap c = c_idx0 c t mod cap c /\
  c_pre c - cap c < rd_start c t <= c_pre c /\
  (c_idx0 c t mod cap c = c_pre c mod cap c -> rd_start c t = c_pre c).
Proof. exact rd_start_facts. Qed.
Print Assumptions rb_start_position.

(* for every schedule, any number of writers and readers, any power-of-two capacity, any first
   index of every reader: under the no-lapping precondition the k-th read of a waiting / busy
   reader (logical index rd_start + k) returned the (rd_start + k)-th element of written, and
   that element existed *)
Theorem rb_read_returns_ith : forall c sched t k, wf_cfg c -> c_rm c <> ROnce ->
  let s := exec sys (step code_params) (init c) sched in
  s_lapped s = false -> 0 <= k < t_cnt (s_thr s t) ->
  t_got (s_thr s t) k = s_wr s (rd_start c t + k) /\ rd_start c t + k < s_nw s.
Proof. exact (rb_read_returns_ith_all code_params). Qed.
Print Assumptions rb_read_returns_ith.

(* all readers see the same order: whatever their first indices, the k-th read of t and the j-th
   read of u return the same message when they ask for the same logical index *)
Theorem rb_readers_agree : forall c sched t u k j, wf_cfg c -> c_rm c <> ROnce ->
  let s := exec sys (step code_params) (init c) sched in
  s_lapped s = false -> 0 <= k < t_cnt (s_thr s t) -> 0 <= j < t_cnt (s_thr s u) ->
  rd_start c t + k = rd_start c u + j ->
  t_got (s_thr s t) k = t_got (s_thr s u) j.
Proof. exact (rb_readers_agree_all code_params). Qed.
Print Assumptions rb_readers_agree.

(* wrap of the 32-bit reader index is harmless: the ring position depends on the index only
   modulo the capacity, which divides 2^32; the register is (first index + reads) mod 2^32 in
   every reachable state; and rb_read_returns_ith holds for every first index whose ring position
   has been written, in particular 2^32-3 (Examples rb_nonvacuous, rb_late_joiners_nonvacuous) *)
Theorem rb_idx_wrap : forall c,
  (c_k c <= 32)%nat ->
  (exists q, two32 = q * cap c) /\
  (forall i, (i mod two32) mod cap c = i mod cap c) /\
  (forall sched t, wf_cfg c -> is_reader c t = true ->
     let s := exec sys (step code_params) (init c) sched in
     t_idx (s_thr s t) = (c_idx0 c t + t_cnt (s_thr s t)) mod two32).
Proof.
  intros c Hk. split; [apply cap_divides; exact Hk|]. split; [intros i; apply idx_wrap_mod; exact Hk|].
  intros sched t Hwf Hr. exact (rb_idx_register_all code_params c sched t Hwf Hr).
Qed.
Print Assumptions rb_idx_wrap.

(* read-once mode: the takes in read-mutex order (s_once, s_nt) are a prefix of written - no
   loss, no duplication, in write order - and every result returned to a reader is the take
   recorded for that reader at one position of that order *)
Theorem rb_once_exactly_once : forall c sched, wf_cfg c -> c_rm c = ROnce ->
  let s := exec sys (step code_params) (init c) sched in
  s_lapped s = false ->
  0 <= s_nt s <= s_nw s /\ (forall n, 0 <= n < s_nt s -> s_once s n = s_wr s n) /\
  (forall t k, 0 <= k < t_cnt (s_thr s t) ->
     let n := t_gotn (s_thr s t) k in
     0 <= n < s_nt s /\ t_got (s_thr s t) k = s_once s n /\ s_who s n = t).
Proof. exact (rb_once_prefix_all code_params). Qed.
Print Assumptions rb_once_exactly_once.

(* A.6: the cursor is the number of published messages modulo the capacity; mutual exclusion
   of the write side and of the read mutex (control invariant) for every schedule *)
Theorem rb_cursor_and_exclusion : forall c sched, wf_cfg c ->
  let s := exec sys (step code_params) (init c) sched in
  AInv c s /\ (s_lapped s = false -> s_cursor s = s_nw s mod cap c).
Proof.
  intros c sched Hwf s. split; [exact (ctl_invariants code_params c Hwf sched)|].
  exact (rb_cursor_all code_params c sched Hwf).
Qed.
Print Assumptions rb_cursor_and_exclusion.

(* side condition on the memory orders the code passes (re-extracted on this run): acquire on
   test_and_set and on the three cursor loads, release on clear and on the two cursor stores *)
Theorem c02_memory_orders_sufficient : mo_sufficient code_params = true.
Proof. vm_compute. reflexivity. Qed.
Print Assumptions c02_memory_orders_sufficient.

(* for every scenario (all writer and reader modes) and schedule, under the no-lapping
   precondition, s_uncov = 0: every plain read of a slot, of a payload and of read_cursor by a
   reader is covered by the reader's view - what the producer stored in a message before
   writing it is visible to every reader that receives it *)
Theorem rb_payload_visible : forall c sched, wf_cfg c ->
  let s := exec sys (step code_params) (init c) sched in
  s_lapped s = false -> s_uncov s = 0%nat.
Proof.
  intros c sched Hwf. exact (rb_payload_visible_all code_params c sched Hwf c02_memory_orders_sufficient).
Qed.
Print Assumptions rb_payload_visible.

(* read-once mode, continued: a reader's positions in the read-mutex order strictly increase
   (over its returned results and its pending take), and every taken position n belongs to
   reader s_who n, which has returned it as one of its results or holds it as the pending take
   it is about to return - no position is lost, none is given to two readers *)
Theorem rb_once_positions : forall c sched, wf_cfg c -> c_rm c = ROnce ->
  let s := exec sys (step code_params) (init c) sched in
  s_lapped s = false ->
  (forall t k1 k2, 0 <= k1 < k2 -> k2 < ocount (s_thr s t) ->
     t_gotn (s_thr s t) k1 < t_gotn (s_thr s t) k2) /\
  (forall n, 0 <= n < s_nt s ->
     let x := s_thr s (s_who s n) in
     exists k, t_gotn x k = n /\
       ((0 <= k < t_cnt x /\ t_got x k = s_once s n) \/
        (k = t_cnt x /\ pending (t_pc x) = true /\ t_ret x = s_once s n))).
Proof. exact (rb_once_positions_all code_params). Qed.
Print Assumptions rb_once_positions.

(* the harness throttle (model of c02_driver.c can_begin: a writer takes ticket k only when
   k + 1 < min over the readers that still have reads to do of the next index + capacity - no
   constraint once every reader has finished; read-once: delivered + capacity)
   implies the documented precondition: the monitor never fires, for every schedule *)
Theorem rb_throttle_no_lap : forall c sched, wf_cfg c -> c_thr c = true ->
  s_lapped (exec sys (step code_params) (init c) sched) = false.
Proof. intros c sched Hwf Ht. exact (rb_throttle_no_lap_all code_params c Hwf Ht sched). Qed.
Print Assumptions rb_throttle_no_lap.

(* hence, for throttled scenarios, unconditionally *)
Theorem rb_throttled_read_and_visibility : forall c sched t k, wf_cfg c -> c_thr c = true ->
  let s := exec sys (step code_params) (init c) sched in
  s_uncov s = 0%nat /\
  (c_rm c <> ROnce -> 0 <= k < t_cnt (s_thr s t) ->
   t_got (s_thr s t) k = s_wr s (rd_start c t + k) /\ rd_start c t + k < s_nw s).
Proof.
  intros c sched t k Hwf Ht s. pose proof (rb_throttle_no_lap c sched Hwf Ht) as Hl. fold s in Hl. split.
  - exact (rb_payload_visible c sched Hwf Hl).
  - intros Hm Hk. exact (rb_read_returns_ith c sched t k Hwf Hm Hl Hk).
Qed.
Print Assumptions rb_throttled_read_and_visibility.

(* MESSAGE VALUES.  Messages are opaque pointer values for the ring.  In the model a scenario
   assigns to message id the value c_val id (any function: NULL, (void* )-1, small integers,
   addresses inside the ring, repeated values, ...); the model moves the identities and never
   inspects the values.  All theorems above are stated for every scenario, hence for every value
   assignment; the delivered value of a read is c_val (t_got k).  Parametricity: running the same
   schedule with the values mapped by ANY function f gives the same program points, counts,
   written / read-once histories, cursor and precondition monitor, and every reader receives the
   f-image of what it received before. *)
Theorem ring_delivery_value_independent : forall c f sched t k,
  let s := exec sys (step code_params) (init c) sched in
  let s' := exec sys (step code_params) (init (set_val c f)) sched in
  t_pc (s_thr s' t) = t_pc (s_thr s t) /\ t_cnt (s_thr s' t) = t_cnt (s_thr s t) /\
  c_val (s_cfg s') (t_got (s_thr s' t) k) = f (t_got (s_thr s t) k) /\
  s_nw s' = s_nw s /\ s_wr s' = s_wr s /\ s_nt s' = s_nt s /\ s_once s' = s_once s /\
  s_lapped s' = s_lapped s /\ s_cursor s' = s_cursor s.
Proof. exact (ring_delivery_value_independent_all code_params). Qed.
Print Assumptions ring_delivery_value_independent.

(* ... and the same operations in the same order (labels up to the values in the harness notes) *)
Theorem ring_trace_value_independent : forall c f sched,
  map (fun e => (fst e, erase (snd e))) (trace sys (step code_params) (init c) sched) =
  map (fun e => (fst e, erase (snd e))) (trace sys (step code_params) (init (set_val c f)) sched).
Proof. intros c f sched. exact (proj2 (value_independent_exec code_params c f sched)). Qed.
Print Assumptions ring_trace_value_independent.

(* additional obligation from an AST scan of ring_buffer.c on this run (lib/props/c02_scan.py over clang's JSON
   AST; a taint analysis, not a proof): no payload value (blocks[i].data, whatever is stored into it, every
   variable / parameter / return value it is copied through inside the file, also through the function pointer
   tables) is used in any way other than copying, returning or discarding it - no truthiness test (if (d), !d,
   d ? :, &&), comparison, switch, arithmetic, cast to an integer, dereference, no call of a function outside
   the file (memcmp, ...) - which is the C-side counterpart of the parametricity above and what makes testing
   the correspondence on a few special values meaningful.  A scan that cannot run gives a non-zero count. *)
Theorem rb_code_never_compares_payload : code_payload_comparisons = 0%nat.
Proof. reflexivity. Qed.
Print Assumptions rb_code_never_compares_payload.

(* CAPACITY.  muggle_ring_buffer_init accepts exactly the requests 1 .. 2^30 and uses the smallest power of two
   >= the request (hence every accepted ring has capacity 2^k with k <= 30, which is what cfg's c_k stands for);
   0 and every request above 2^30 (up to the largest uint32_t) is refused.  init_capacity is the model's
   transcription (muggle_next_pow_of_2, then the cast to the int32_t field and the <= 0 test). *)
Theorem rb_capacity_rounding : forall n, 0 <= n < 2 ^ 32 ->
  (0 < n <= 2 ^ 30 ->
     exists k, init_capacity n = Some (2 ^ Z.of_nat k) /\ (k <= 30)%nat /\ n <= 2 ^ Z.of_nat k /\
               (k = O \/ 2 ^ (Z.of_nat k - 1) < n)) /\
  (n = 0 \/ 2 ^ 30 < n -> init_capacity n = None).
Proof. exact init_capacity_spec. Qed.
Print Assumptions rb_capacity_rounding.

(* ... and the code computes exactly that: muggle_ring_buffer_init was RUN on this check for every request in
   0 .. 1025, for 2^k - 1, 2^k, 2^k + 1 up to 2^20 and for refused requests above 2^30 (required_caps; the table
   must contain them all), and each row (request, return code, capacity field) equals the model's init_capacity *)
Theorem rb_capacity_table_matches : cap_table_ok code_cap_table = true.
Proof. vm_compute. reflexivity. Qed.
Print Assumptions rb_capacity_table_matches.

(* C TYPES (as compiled on this run).  The fields the model treats as 32-bit machine integers have exactly the
   size and signedness it assumes (capacity int32_t - the refusal above 2^30 depends on the sign -, cursor and
   read_cursor uint32_t, flag / write_mode / read_mode int), muggle_ring_buffer_read takes a uint32_t index
   (prototype checked with _Generic; the reader's register wraps modulo two32 in the model), a block holds the
   payload pointer at offset 0, and no integer variable, parameter or conversion in the functions of
   ring_buffer.c is narrower than 32 bits (AST scan): positions, cursor values and indices are never truncated *)
Theorem rb_field_types_match : types_ok code_field_types code_sigs code_block_ptr code_narrow_ints = true.
Proof. vm_compute. reflexivity. Qed.
Print Assumptions rb_field_types_match.

(* SECOND TIE (translator kind).  The integer content of the functions of ring_buffer.c - index arithmetic and
   the conditions between their atomic / futex operations - is sliced out of the C text of THIS run
   (lib/props/c02_slice.py over clang's JSON AST; gen_ definitions of gen/Params_C02.v: inputs cap = r->capacity,
   cur = r->cursor read plainly, rc = r->read_cursor, wpos = value of the atomic load of the cursor, idx = index
   argument; result (kind 0 return / 1 futex wait then loop / 2 loop, value, slot stored, cursor stored,
   read_cursor stored, wake 0 none / 1 one / 2 all)) and equals, for EVERY capacity 2^k with k <= 30, every position
   and every 32-bit index, the reference functions of C02/ProofsTie.v - which are what the model's step function
   computes (lemmas step_write_ref, step_cursor_ref, step_wake_ref, step_nowake_busy, step_rload_ref,
   step_rread_ref, step_kcheck_ref there).  Values the runs never reach (capacities above 64) are covered. *)
Theorem rb_code_write_matches : forall m k cur rc wpos idx, tie_dom k cur rc wpos idx -> m = 0 \/ m = 1 ->
  gen_write_fn m (2 ^ Z.of_nat k) cur rc wpos idx = ref_write (2 ^ Z.of_nat k) cur.
Proof. exact gen_write_ref. Qed.
Print Assumptions rb_code_write_matches.

Theorem rb_code_wake_matches : forall m k cur rc wpos idx, tie_dom k cur rc wpos idx ->
  m = 0 \/ m = 1 \/ m = 2 \/ m = 3 ->
  gen_wake_fn m (2 ^ Z.of_nat k) cur rc wpos idx = ref_wake m.
Proof. exact gen_wake_ref. Qed.
Print Assumptions rb_code_wake_matches.

Theorem rb_code_read_matches : forall m k cur rc wpos idx, tie_dom k cur rc wpos idx ->
  m = 0 \/ m = 1 \/ m = 2 \/ m = 3 ->
  gen_read_fn m (2 ^ Z.of_nat k) cur rc wpos idx = ref_read m (2 ^ Z.of_nat k) rc wpos idx.
Proof. exact gen_read_ref. Qed.
Print Assumptions rb_code_read_matches.

(* muggle_ring_buffer_write calls write_functions[write_mode] then wake_functions[read_mode];
   muggle_ring_buffer_read calls read_functions[read_mode] with the index modulo the capacity; table sizes *)
Theorem rb_code_entry_matches : forall k wm rm idx, (k <= 30)%nat -> 0 <= idx < 4294967296 ->
  gen_write_entry wm rm = ref_write_entry wm rm /\
  gen_read_entry (2 ^ Z.of_nat k) rm idx = ref_read_entry (2 ^ Z.of_nat k) rm idx /\
  gen_write_fn_len = 2 /\ gen_wake_fn_len = 4 /\ gen_read_fn_len = 4.
Proof. exact gen_entry_ref. Qed.
Print Assumptions rb_code_entry_matches.
