(* C09 — property theorems only.  Each is closed by [exact] of a lemma proved in
   C09/Proofs*.v and followed by Print Assumptions.  Models: C09/Model.v.

   avl_inv t = search_tree t (every key of the left subtree below, every key of
   the right subtree above, recursively) /\ bal t (at every node the recorded
   balance equals height right - height left and lies in [-1,1]).
   The reference map is Spec.v: [map_step_reject] (tree, table: a duplicate key
   is rejected) and [map_step_trie] (trie: insertion overwrites). *)
From MV Require Import C09.Proofs.
Local Open Scope Z_scope.

(* Insertion (descent, retracing, single/double rotations with the code's
   balance-factor updates) preserves search-tree order, exact balance factors
   and |balance| <= 1 at every node, for every tree, key and value. *)
Theorem avl_inv_insert : forall k v t, avl_inv t -> avl_inv (fst (avl_insert k v t)).
Proof. exact avl_insert_inv. Qed.
Print Assumptions avl_inv_insert.

(* Removal (swap with predecessor, else successor, down to a leaf; unlink;
   retrace with rebalance and early stop) preserves the same invariant. *)
Theorem avl_inv_remove : forall k t, avl_inv t -> avl_inv (fst (avl_remove k t)).
Proof. exact avl_remove_inv. Qed.
Print Assumptions avl_inv_remove.

(* ... hence after every history from every valid tree. *)
Theorem avl_inv_history : forall ops t, avl_inv t -> avl_inv (fst (run avl_step t ops)).
Proof. exact avl_inv_run. Qed.
Print Assumptions avl_inv_history.

(* After every history of insert / find / remove the tree answers exactly like
   the reference map: same accepted/rejected insertions, same lookups, same
   found/not-found removals, and the final contents coincide key by key. *)
Theorem avl_refines_map : forall ops,
  snd (run avl_step Leaf ops) = snd (run (map_step_reject Z.eq_dec) empty_map ops) /\
  avl_inv (fst (run avl_step Leaf ops)) /\
  forall y, avl_find y (fst (run avl_step Leaf ops)) = fst (run (map_step_reject Z.eq_dec) empty_map ops) y.
Proof. exact avl_refines. Qed.
Print Assumptions avl_refines_map.

(* A duplicate key is rejected and the tree is left exactly as it was. *)
Theorem avl_duplicate_rejected : forall k v t w, avl_find k t = Some w -> avl_insert k v t = (t, false).
Proof. exact avl_insert_dup. Qed.
Print Assumptions avl_duplicate_rejected.

(* A new key is accepted, becomes visible with its value, and no other lookup changes. *)
Theorem avl_insert_exact : forall k v t, avl_inv t -> avl_find k t = None ->
  snd (avl_insert k v t) = true /\
  forall y, avl_find y (fst (avl_insert k v t)) = if y =? k then Some v else avl_find y t.
Proof. exact avl_insert_new. Qed.
Print Assumptions avl_insert_exact.

(* A removal removes exactly that one association (and reports whether it existed). *)
Theorem avl_remove_exact : forall k t, avl_inv t ->
  snd (avl_remove k t) = (if avl_find k t then true else false) /\
  forall y, avl_find y (fst (avl_remove k t)) = if y =? k then None else avl_find y t.
Proof. exact avl_remove_find. Qed.
Print Assumptions avl_remove_exact.

(* The verdict computed by the model driver decides the invariant. *)
Theorem avl_check_sound : forall t, avl_okb t = true -> avl_inv t.
Proof. exact avl_okb_sound. Qed.
Print Assumptions avl_check_sound.

(* Hash table: for EVERY hash function (all keys may collide) and every table
   size, every history is answered like the reference map. *)
Theorem ht_refines_map : forall (hash : Z -> Z) table_size ops,
  snd (run (ht_step hash) (ht_init table_size) ops) = snd (run (map_step_reject Z.eq_dec) empty_map ops) /\
  forall y, ht_find hash (fst (run (ht_step hash) (ht_init table_size) ops)) y =
            fst (run (map_step_reject Z.eq_dec) empty_map ops) y.
Proof. exact ht_refines. Qed.
Print Assumptions ht_refines_map.

Theorem ht_duplicate_rejected : forall hash t k v w, ht_find hash t k = Some w -> ht_put hash t k v = (t, false).
Proof. exact ht_put_dup. Qed.
Print Assumptions ht_duplicate_rejected.

(* Trie (with fixes/C09-trie-unsigned-index.patch): over byte strings with bytes
   in 1..255 — the empty key, prefixes of other keys and bytes >= 0x80 included —
   every history is answered like a map with overwrite; the boolean returned by
   a removal is observed as "true" on both sides ([obs]) because the API leaves it
   open for absent keys (see trie_remove_present_true for stored keys). *)
Theorem trie_refines_map : forall ops, Forall valid_op ops ->
  map obs (snd (run trie_step trie_empty ops)) = snd (run map_step_trie empty_map ops) /\
  forall key, valid_key key ->
    trie_lookup (fst (run trie_step trie_empty ops)) key = fst (run map_step_trie empty_map ops) key.
Proof. exact trie_refines. Qed.
Print Assumptions trie_refines_map.

Theorem trie_remove_present_true : forall t k v, trie_lookup t k = Some v -> snd (trie_step t (Rem k)) = RRem true.
Proof. exact trie_rem_present_true. Qed.
Print Assumptions trie_remove_present_true.

(* Any non-NUL byte: the repaired index stays inside children[256] and never
   touches the slot of the empty key ... *)
Theorem trie_high_bytes : forall c, 1 <= c <= 255 ->
  index_in_range (byte_index c) = true /\ byte_index c <> 0.
Proof. exact byte_index_in_range. Qed.
Print Assumptions trie_high_bytes.

(* ... whereas the index of the unchanged code ((int) of a signed char) leaves
   the array for every byte >= 0x80 (the defect repaired by the patch). *)
Theorem trie_unrepaired_index_out_of_bounds : forall c, 128 <= c <= 255 ->
  index_in_range (byte_index_unrepaired c) = false.
Proof. exact byte_index_unrepaired_oob. Qed.
Print Assumptions trie_unrepaired_index_out_of_bounds.

(* ====================================================================== *)
(* Heap level (C09/ModelHeap.v): nodes are ids, the heap maps an id to a record
   with the fields of the C structs, and every function performs the pointer
   reads and writes of the C function in the same order.  [heap_rep s pt]: the
   heap of s holds exactly the records of the id-decorated tree pt — left / right
   are the children's ids, PARENT is the id one level up (NULL at the root) —
   no id occurs twice, s.root points at pt's root.  [erase pt] is the functional
   tree of Model.v. *)

(* parent links are consistent wherever the representation holds *)
Theorem havl_parent_links_consistent : forall s pt, heap_rep s pt ->
  match hroot s with Some r => hp (hheap s r) = None /\ In r (ids pt) | None => pt = PLeaf end /\
  forall x, In x (ids pt) ->
    (forall c, hl (hheap s x) = Some c -> In c (ids pt) /\ hp (hheap s c) = Some x) /\
    (forall c, hr (hheap s x) = Some c -> In c (ids pt) /\ hp (hheap s c) = Some x).
Proof. exact heap_rep_links. Qed.
Print Assumptions havl_parent_links_consistent.

(* muggle_avl_tree_rebalance with the four rotations, as pointer programs: on a
   subtree hanging below [par], the heap afterwards holds the rotated subtree
   (same function as Model.rebalance, [erase_prebalance]) with every parent
   pointer updated — the subtree root's, the moved inner subtrees' — the
   parent's child link and tree->root redirected, and nothing else touched.
   Dropping any parent assignment in ModelHeap.hrotate_* breaks this proof. *)
Theorem havl_rebalance_refines : forall h root x l k v b r par,
  let sub := PNode x l k v b r in
  wf_at h sub par -> nodup (ids sub) -> (forall p, par = Some p -> ~ In p (ids sub)) ->
  rot_ready sub -> (b < -1 \/ 1 < b) ->
  exists h' n, pptr (fst (prebalance sub)) = Some n /\
     hrebalance h root x = Some (h', reroot root x (Some n), snd (prebalance sub)) /\
     wf_at h' (fst (prebalance sub)) par /\ (forall w, ~ In w (ids sub) -> h' w = relink h par x (Some n) w).
Proof. exact hrebalance_ok. Qed.
Print Assumptions havl_rebalance_refines.

Theorem havl_rebalance_is_model : forall t,
  erase (fst (prebalance t)) = fst (rebalance (erase t)) /\ snd (prebalance t) = snd (rebalance (erase t)).
Proof. exact erase_prebalance. Qed.
Print Assumptions havl_rebalance_is_model.

(* muggle_avl_tree_insert as a pointer program (descent, allocation and linking
   of the new node, retracing upward THROUGH THE PARENT LINKS, rebalance): never
   stuck, returns what the functional model returns, and the heap afterwards
   represents the functional model's tree with consistent parent links. *)
Theorem havl_insert_refines : forall s pt x xv,
  heap_rep s pt -> bal (erase pt) ->
  exists s' pt', havl_insert s x xv = Some (s', snd (avl_insert x xv (erase pt))) /\
    heap_rep s' pt' /\ erase pt' = fst (avl_insert x xv (erase pt)).
Proof. exact havl_insert_ok. Qed.
Print Assumptions havl_insert_refines.

(* Every history of insert / find / remove, run by the pointer programs from the
   empty tree: never stuck, answers exactly like the functional model (hence,
   by avl_refines_map, like the reference map), and the heap afterwards
   represents the functional model's tree — with consistent parent links
   (havl_parent_links_consistent) and the AVL invariant (avl_inv_history). *)
Theorem havl_refines_map : forall ops,
  exists s pt, hrun havl_step havl_init ops = Some (s, snd (run avl_step Leaf ops)) /\
    heap_rep s pt /\ erase pt = fst (run avl_step Leaf ops).
Proof. exact havl_refines. Qed.
Print Assumptions havl_refines_map.

(* the same from any represented AVL tree *)
Theorem havl_refines_map_from : forall ops s pt,
  heap_rep s pt -> avl_inv (erase pt) ->
  exists s' pt', hrun havl_step s ops = Some (s', snd (run avl_step (erase pt) ops)) /\
    heap_rep s' pt' /\ erase pt' = fst (run avl_step (erase pt) ops).
Proof. exact havl_history. Qed.
Print Assumptions havl_refines_map_from.

(* muggle_avl_tree_remove of an arbitrary node n (found below the search path
   ctx): the data-swap loop down to a leaf (predecessor first, else successor),
   the unlinking and the retracing together produce the functional model's tree. *)
Theorem havl_remove_refines : forall s ctx n l x v b r,
  let N := PNode n l x v b r in
  heap_rep s (plug ctx N) -> bal (erase (plug ctx N)) -> path_for x ctx ->
  exists s' pt', havl_remove s n = Some s' /\ heap_rep s' pt' /\
    erase pt' = fst (fst (rem (ByKey x) (erase (plug ctx N)))).
Proof. exact havl_remove_ok. Qed.
Print Assumptions havl_remove_refines.

(* the retracing loop of muggle_avl_tree_remove (balance updates, rotations that
   continue upward while the depth decreases, navigation through the parent
   links), started at the node on top of the path (f :: ctx) whose subtree t in
   the hole has lost one level: the heap afterwards represents the functional
   unwinding [punwind_rem] (= the chain of Model.shrink_if, [rem_plug]). *)
Theorem havl_remove_retrace_refines : forall ctx f t h root fuel hold,
  wf_at h (plug (f :: ctx) t) None -> nodup (ids (plug (f :: ctx) t)) -> root = pptr (plug (f :: ctx) t) ->
  (length ctx < fuel)%nat ->
  bal (erase t) -> height (erase t) = hold - 1 -> ctx_ok (f :: ctx) hold ->
  exists h', hretrace_rem fuel h root (Some (fid f)) (fside f) = Some (h', pptr (punwind_rem (f :: ctx) t true)) /\
     wf_at h' (punwind_rem (f :: ctx) t true) None.
Proof. exact hretrace_rem_ok. Qed.
Print Assumptions havl_remove_retrace_refines.

(* muggle_avl_tree_remove of a node that is a leaf (no data to move): unlink from
   the parent, retrace; the result represents the functional model's tree. *)
Theorem havl_remove_leaf_refines : forall s ctx m k v b,
  let leaf := PNode m PLeaf k v b PLeaf in
  heap_rep s (plug ctx leaf) -> bal (erase (plug ctx leaf)) ->
  exists s', havl_remove s m = Some s' /\ heap_rep s' (punwind_rem ctx PLeaf true) /\
    (path_for k ctx -> erase (punwind_rem ctx PLeaf true) = fst (fst (rem (ByKey k) (erase (plug ctx leaf))))).
Proof. exact havl_remove_leaf_ok. Qed.
Print Assumptions havl_remove_leaf_refines.

(* Hash table at heap level: array of sentinel heads, chain nodes with prev/next.
   [ht_rep hash t ft ch]: bucket i's chain is the node list ch i, linked
   head -> n1 -> n2 ... with every prev pointing back, it reads as the functional
   bucket, every node hangs in the bucket its key hashes to, no node is shared.
   Every history (put / find / remove, any hash function, any table size) runs
   without getting stuck, answers like the functional table and keeps ht_rep. *)
Theorem hht_refines_map : forall hash table_size ops,
  exists t' ch', hrun (hht_step hash) (hht_init table_size) ops =
                   Some (t', snd (run (ht_step hash) (ht_init table_size) ops)) /\
    ht_rep hash t' (fst (run (ht_step hash) (ht_init table_size) ops)) ch'.
Proof. intros hash ts ops. exact (hht_history hash ops _ _ _ (hht_init_rep hash ts)). Qed.
Print Assumptions hht_refines_map.

(* prev/next consistency and bucket membership, read off the representation *)
Theorem hht_links_consistent : forall hash t ft ch, ht_rep hash t ft ch ->
  forall i, (Z.of_nat i < th_size t) ->
    (forall y, th_heads t i = Some y -> cprev (th_nodes t y) = Some (LHead i)) /\
    (forall e, In e (ch i) ->
       (exists p, cprev (th_nodes t (eid e)) = Some p) /\
       (forall y, cnext (th_nodes t (eid e)) = Some y -> cprev (th_nodes t y) = Some (LNode (eid e))) /\
       hht_idx hash t (ckey (th_nodes t (eid e))) = i).
Proof. exact ht_rep_links. Qed.
Print Assumptions hht_links_consistent.
