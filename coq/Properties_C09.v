(* C09 — property theorems only.  Each is closed by [exact] of a lemma proved in
   C09/Proofs*.v and followed by Print Assumptions.  Models: C09/Model.v.

   avl_inv t = search_tree t (every key of the left subtree below, every key of
   the right subtree above, recursively) /\ bal t (at every node the recorded
   balance equals height right - height left and lies in [-1,1]).
   The reference map is Spec.v: [map_step_reject] (tree, table: a duplicate key
   is rejected) and [map_step_trie] (trie: insertion overwrites). *)
From MV Require Import C09.Proofs C09.ProofsGen C09.ProofsCb C09.ProofsAlloc gen.Params_C09.
Local Open Scope Z_scope.

(* Insertion (descent, retracing, single/double rotations with the code's
   balance-factor updates) preserves search-tree order, exact balance factors
   and |balance| <= 1 at every node, for every tree, key and value. *)
Theorem avl_inv_insert : forall k v t, avl_inv t -> avl_inv (fst (avl_insert k v t)).
Proof. exact avl_insert_inv. Qed.
Print Assumptions avl_inv_insert.

(* Removal (swap with predecessor, else successor, down to a leaf; unlink;
   retrace with rebalance and early stop) preserves the same invariant. *)
Theorem avl_inv_remove : forall k t, avl_inv t -> avl_inv (fst (avl_remove k t)).
Proof. exact avl_remove_inv. Qed.
Print Assumptions avl_inv_remove.

(* ... hence after every history from every valid tree. *)
Theorem avl_inv_history : forall ops t, avl_inv t -> avl_inv (fst (run avl_step t ops)).
Proof. exact avl_inv_run. Qed.
Print Assumptions avl_inv_history.

(* After every history of insert / find / remove the tree answers exactly like
   the reference map: same accepted/rejected insertions, same lookups, same
   found/not-found removals, and the final contents coincide key by key. *)
Theorem avl_refines_map : forall ops,
  snd (run avl_step Leaf ops) = snd (run (map_step_reject Z.eq_dec) empty_map ops) /\
  avl_inv (fst (run avl_step Leaf ops)) /\
  forall y, avl_find y (fst (run avl_step Leaf ops)) = fst (run (map_step_reject Z.eq_dec) empty_map ops) y.
Proof. exact avl_refines. Qed.
Print Assumptions avl_refines_map.

(* A duplicate key is rejected and the tree is left exactly as it was. *)
Theorem avl_duplicate_rejected : forall k v t w, avl_find k t = Some w -> avl_insert k v t = (t, false).
Proof. exact avl_insert_dup. Qed.
Print Assumptions avl_duplicate_rejected.

(* A new key is accepted, becomes visible with its value, and no other lookup changes. *)
Theorem avl_insert_exact : forall k v t, avl_inv t -> avl_find k t = None ->
  snd (avl_insert k v t) = true /\
  forall y, avl_find y (fst (avl_insert k v t)) = if y =? k then Some v else avl_find y t.
Proof. exact avl_insert_new. Qed.
Print Assumptions avl_insert_exact.

(* A removal removes exactly that one association (and reports whether it existed). *)
Theorem avl_remove_exact : forall k t, avl_inv t ->
  snd (avl_remove k t) = (if avl_find k t then true else false) /\
  forall y, avl_find y (fst (avl_remove k t)) = if y =? k then None else avl_find y t.
Proof. exact avl_remove_find. Qed.
Print Assumptions avl_remove_exact.

(* The verdict computed by the model driver decides the invariant. *)
Theorem avl_check_sound : forall t, avl_okb t = true -> avl_inv t.
Proof. exact avl_okb_sound. Qed.
Print Assumptions avl_check_sound.

(* Hash table: for EVERY hash function (all keys may collide) and every table
   size, every history is answered like the reference map. *)
Theorem ht_refines_map : forall (hash : Z -> Z) table_size ops,
  snd (run (ht_step hash) (ht_init table_size) ops) = snd (run (map_step_reject Z.eq_dec) empty_map ops) /\
  forall y, ht_find hash (fst (run (ht_step hash) (ht_init table_size) ops)) y =
            fst (run (map_step_reject Z.eq_dec) empty_map ops) y.
Proof. exact ht_refines. Qed.
Print Assumptions ht_refines_map.

Theorem ht_duplicate_rejected : forall hash t k v w, ht_find hash t k = Some w -> ht_put hash t k v = (t, false).
Proof. exact ht_put_dup. Qed.
Print Assumptions ht_duplicate_rejected.

(* Trie (with fixes/C09-trie-unsigned-index.patch): over byte strings with bytes
   in 1..255 — the empty key, prefixes of other keys and bytes >= 0x80 included —
   every history is answered like a map with overwrite; the boolean returned by
   a removal is observed as "true" on both sides ([obs]) because the API leaves it
   open for absent keys (see trie_remove_present_true for stored keys). *)
Theorem trie_refines_map : forall ops, Forall valid_op ops ->
  map obs (snd (run trie_step trie_empty ops)) = snd (run map_step_trie empty_map ops) /\
  forall key, valid_key key ->
    trie_lookup (fst (run trie_step trie_empty ops)) key = fst (run map_step_trie empty_map ops) key.
Proof. exact trie_refines. Qed.
Print Assumptions trie_refines_map.

Theorem trie_remove_present_true : forall t k v, trie_lookup t k = Some v -> snd (trie_step t (Rem k)) = RRem true.
Proof. exact trie_rem_present_true. Qed.
Print Assumptions trie_remove_present_true.

(* Any non-NUL byte: the repaired index stays inside children[256] and never
   touches the slot of the empty key ... *)
Theorem trie_high_bytes : forall c, 1 <= c <= 255 ->
  index_in_range (byte_index c) = true /\ byte_index c <> 0.
Proof. exact byte_index_in_range. Qed.
Print Assumptions trie_high_bytes.

(* ... whereas the index of the unchanged code ((int) of a signed char) leaves
   the array for every byte >= 0x80 (the defect repaired by the patch). *)
Theorem trie_unrepaired_index_out_of_bounds : forall c, 128 <= c <= 255 ->
  index_in_range (byte_index_unrepaired c) = false.
Proof. exact byte_index_unrepaired_oob. Qed.
Print Assumptions trie_unrepaired_index_out_of_bounds.

(* ====================================================================== *)
(* Heap level (C09/ModelHeap.v): nodes are ids, the heap maps an id to a record
   with the fields of the C structs, and every function performs the pointer
   reads and writes of the C function in the same order.  [heap_rep s pt]: the
   heap of s holds exactly the records of the id-decorated tree pt — left / right
   are the children's ids, PARENT is the id one level up (NULL at the root) —
   no id occurs twice, s.root points at pt's root.  [erase pt] is the functional
   tree of Model.v. *)

(* parent links are consistent wherever the representation holds *)
Theorem havl_parent_links_consistent : forall s pt, heap_rep s pt ->
  match hroot s with Some r => hp (hheap s r) = None /\ In r (ids pt) | None => pt = PLeaf end /\
  forall x, In x (ids pt) ->
    (forall c, hl (hheap s x) = Some c -> In c (ids pt) /\ hp (hheap s c) = Some x) /\
    (forall c, hr (hheap s x) = Some c -> In c (ids pt) /\ hp (hheap s c) = Some x).
Proof. exact heap_rep_links. Qed.
Print Assumptions havl_parent_links_consistent.

(* muggle_avl_tree_rebalance with the four rotations, as pointer programs: on a
   subtree hanging below [par], the heap afterwards holds the rotated subtree
   (same function as Model.rebalance, [erase_prebalance]) with every parent
   pointer updated — the subtree root's, the moved inner subtrees' — the
   parent's child link and tree->root redirected, and nothing else touched.
   Dropping any parent assignment in ModelHeap.hrotate_* breaks this proof. *)
Theorem havl_rebalance_refines : forall h root x l k v b r par,
  let sub := PNode x l k v b r in
  wf_at h sub par -> nodup (ids sub) -> (forall p, par = Some p -> ~ In p (ids sub)) ->
  rot_ready sub -> (b < -1 \/ 1 < b) ->
  exists h' n, pptr (fst (prebalance sub)) = Some n /\
     hrebalance h root x = Some (h', reroot root x (Some n), snd (prebalance sub)) /\
     wf_at h' (fst (prebalance sub)) par /\ (forall w, ~ In w (ids sub) -> h' w = relink h par x (Some n) w).
Proof. exact hrebalance_ok. Qed.
Print Assumptions havl_rebalance_refines.

Theorem havl_rebalance_is_model : forall t,
  erase (fst (prebalance t)) = fst (rebalance (erase t)) /\ snd (prebalance t) = snd (rebalance (erase t)).
Proof. exact erase_prebalance. Qed.
Print Assumptions havl_rebalance_is_model.

(* muggle_avl_tree_insert as a pointer program (descent, allocation and linking
   of the new node, retracing upward THROUGH THE PARENT LINKS, rebalance): never
   stuck, returns what the functional model returns, and the heap afterwards
   represents the functional model's tree with consistent parent links. *)
Theorem havl_insert_refines : forall s pt x xv,
  heap_rep s pt -> bal (erase pt) ->
  exists s' pt', havl_insert s x xv = Some (s', snd (avl_insert x xv (erase pt))) /\
    heap_rep s' pt' /\ erase pt' = fst (avl_insert x xv (erase pt)).
Proof. exact havl_insert_ok. Qed.
Print Assumptions havl_insert_refines.

(* Every history of insert / find / remove, run by the pointer programs from the
   empty tree: never stuck, answers exactly like the functional model (hence,
   by avl_refines_map, like the reference map), and the heap afterwards
   represents the functional model's tree — with consistent parent links
   (havl_parent_links_consistent) and the AVL invariant (avl_inv_history). *)
Theorem havl_refines_map : forall ops,
  exists s pt, hrun havl_step havl_init ops = Some (s, snd (run avl_step Leaf ops)) /\
    heap_rep s pt /\ erase pt = fst (run avl_step Leaf ops).
Proof. exact havl_refines. Qed.
Print Assumptions havl_refines_map.

(* the same from any represented AVL tree *)
Theorem havl_refines_map_from : forall ops s pt,
  heap_rep s pt -> avl_inv (erase pt) ->
  exists s' pt', hrun havl_step s ops = Some (s', snd (run avl_step (erase pt) ops)) /\
    heap_rep s' pt' /\ erase pt' = fst (run avl_step (erase pt) ops).
Proof. exact havl_history. Qed.
Print Assumptions havl_refines_map_from.

(* muggle_avl_tree_remove of an arbitrary node n (found below the search path
   ctx): the data-swap loop down to a leaf (predecessor first, else successor),
   the unlinking and the retracing together produce the functional model's tree. *)
Theorem havl_remove_refines : forall s ctx n l x v b r,
  let N := PNode n l x v b r in
  heap_rep s (plug ctx N) -> bal (erase (plug ctx N)) -> path_for x ctx ->
  exists s' pt', havl_remove s n = Some s' /\ heap_rep s' pt' /\
    erase pt' = fst (fst (rem (ByKey x) (erase (plug ctx N)))).
Proof. exact havl_remove_ok. Qed.
Print Assumptions havl_remove_refines.

(* the retracing loop of muggle_avl_tree_remove (balance updates, rotations that
   continue upward while the depth decreases, navigation through the parent
   links), started at the node on top of the path (f :: ctx) whose subtree t in
   the hole has lost one level: the heap afterwards represents the functional
   unwinding [punwind_rem] (= the chain of Model.shrink_if, [rem_plug]). *)
Theorem havl_remove_retrace_refines : forall ctx f t h root fuel hold,
  wf_at h (plug (f :: ctx) t) None -> nodup (ids (plug (f :: ctx) t)) -> root = pptr (plug (f :: ctx) t) ->
  (length ctx < fuel)%nat ->
  bal (erase t) -> height (erase t) = hold - 1 -> ctx_ok (f :: ctx) hold ->
  exists h', hretrace_rem fuel h root (Some (fid f)) (fside f) = Some (h', pptr (punwind_rem (f :: ctx) t true)) /\
     wf_at h' (punwind_rem (f :: ctx) t true) None.
Proof. exact hretrace_rem_ok. Qed.
Print Assumptions havl_remove_retrace_refines.

(* muggle_avl_tree_remove of a node that is a leaf (no data to move): unlink from
   the parent, retrace; the result represents the functional model's tree. *)
Theorem havl_remove_leaf_refines : forall s ctx m k v b,
  let leaf := PNode m PLeaf k v b PLeaf in
  heap_rep s (plug ctx leaf) -> bal (erase (plug ctx leaf)) ->
  exists s', havl_remove s m = Some s' /\ heap_rep s' (punwind_rem ctx PLeaf true) /\
    (path_for k ctx -> erase (punwind_rem ctx PLeaf true) = fst (fst (rem (ByKey k) (erase (plug ctx leaf))))).
Proof. exact havl_remove_leaf_ok. Qed.
Print Assumptions havl_remove_leaf_refines.

(* Hash table at heap level: array of sentinel heads, chain nodes with prev/next.
   [ht_rep hash t ft ch]: bucket i's chain is the node list ch i, linked
   head -> n1 -> n2 ... with every prev pointing back, it reads as the functional
   bucket, every node hangs in the bucket its key hashes to, no node is shared.
   Every history (put / find / remove, any hash function, any table size) runs
   without getting stuck, answers like the functional table and keeps ht_rep. *)
Theorem hht_refines_map : forall hash table_size ops,
  exists t' ch', hrun (hht_step hash) (hht_init table_size) ops =
                   Some (t', snd (run (ht_step hash) (ht_init table_size) ops)) /\
    ht_rep hash t' (fst (run (ht_step hash) (ht_init table_size) ops)) ch'.
Proof. intros hash ts ops. exact (hht_history hash ops _ _ _ (hht_init_rep hash ts)). Qed.
Print Assumptions hht_refines_map.

(* prev/next consistency and bucket membership, read off the representation *)
Theorem hht_links_consistent : forall hash t ft ch, ht_rep hash t ft ch ->
  forall i, (Z.of_nat i < th_size t) ->
    (forall y, th_heads t i = Some y -> cprev (th_nodes t y) = Some (LHead i)) /\
    (forall e, In e (ch i) ->
       (exists p, cprev (th_nodes t (eid e)) = Some p) /\
       (forall y, cnext (th_nodes t (eid e)) = Some y -> cprev (th_nodes t y) = Some (LNode (eid e))) /\
       hht_idx hash t (ckey (th_nodes t (eid e))) = i).
Proof. exact ht_rep_links. Qed.
Print Assumptions hht_links_consistent.

(* ====================================================================== *)
(* Second tie (DESIGN.md 4.4): gen/Params_C09.v holds the decision content of avl_tree.c, hash_table.c
   and trie.c re-derived from the C text of this run (lib/props/c09_slice.py: symbolic execution of one
   segment of a public function; helper functions inlined; tests that do not influence the outcome
   dropped).  Each gen_* definition equals the model's named decision function (Model.v, last section),
   proved by shape-independent case analysis (C09/ProofsGen.v); and the models -- functional and heap
   level -- are proved to factor through those functions.  ins_side_code / rem_side_code are the two
   values of the C code's side flag, read off the sliced code. *)

(* AVL, retracing after insert: ONE ITERATION of the loop (balance update of the node, stop / continue at the
   parent and on which side, or rebalance with the rotation chosen and all balance fields it writes), as sliced
   from muggle_avl_tree_insert of this run, is the model's decision function.  Inputs: balance fields of the node,
   its children and inner grandchildren, the side that grew, parent present, node is its parent's left child. *)
Theorem gen_avl_ins_step_matches_model : forall b sl lb rb lrb rlb hp il,
  gen_avl_ins_step b (ins_side_code sl) lb rb lrb rlb hp il =
  enc_step ins_side_code (ins_step_dec b sl lb rb lrb rlb hp il).
Proof. exact gen_avl_ins_step_eq. Qed.
Print Assumptions gen_avl_ins_step_matches_model.

(* the same for the retracing loop of muggle_avl_tree_remove (continues after a rotation iff the depth decreased) *)
Theorem gen_avl_rem_step_matches_model : forall b sl lb rb lrb rlb hp il,
  gen_avl_rem_step b (rem_side_code sl) lb rb lrb rlb hp il =
  enc_step rem_side_code (rem_step_dec b sl lb rb lrb rlb hp il).
Proof. exact gen_avl_rem_step_eq. Qed.
Print Assumptions gen_avl_rem_step_matches_model.

(* the two side codes the C code uses are different (their values are read off the sliced code, so renumbering is harmless) *)
Theorem gen_avl_side_codes_distinct : ins_side_code true <> ins_side_code false /\ rem_side_code true <> rem_side_code false.
Proof. exact side_codes_distinct. Qed.
Print Assumptions gen_avl_side_codes_distinct.

(* find: comparator result -> found / left / right *)
Theorem gen_avl_find_step_matches_model : forall c,
  gen_avl_find_step c = cmp_dispatch c.
Proof. exact gen_avl_find_step_eq. Qed.
Print Assumptions gen_avl_find_step_matches_model.

(* insert, one step of the descent: duplicate -> NULL / descend / hang the new node (parent link, balance 0) on that
   side and start retracing there with that side *)
Theorem gen_avl_ins_descend_matches_model : forall c hl hr,
  gen_avl_ins_descend c hl hr = enc_descend (ins_descend_dec c hl hr).
Proof. exact gen_avl_ins_descend_eq. Qed.
Print Assumptions gen_avl_ins_descend_matches_model.

(* remove, from the data-swap loop to the retracing loop: keep swapping while the node has a child; a leaf without
   parent empties the tree; else the leaf is unlinked from the side it hangs on and retracing starts at the parent *)
Theorem gen_avl_rem_enter_matches_model : forall hl hr hp il hk hv fk fv,
  gen_avl_rem_enter hl hr hp il hk hv fk fv = enc_rem_enter (rem_enter_dec hl hr hp) il (avl_erase_dec hk hv fk fv).
Proof. exact gen_avl_rem_enter_eq. Qed.
Print Assumptions gen_avl_rem_enter_matches_model.

(* hash table: the chain walked by find / put is that of bucket hash mod table_size *)
Theorem gen_ht_find_idx_matches_model : forall hv ts,
  0 <= hv < 2 ^ 64 -> 0 < ts < 2 ^ 64 -> gen_ht_find_idx hv ts = ht_index hv ts.
Proof. exact gen_ht_find_idx_eq. Qed.
Print Assumptions gen_ht_find_idx_matches_model.

Theorem gen_ht_put_idx_matches_model : forall hv ts,
  0 <= hv < 2 ^ 64 -> 0 < ts < 2 ^ 64 -> gen_ht_put_idx hv ts = ht_index hv ts.
Proof. exact gen_ht_put_idx_eq. Qed.
Print Assumptions gen_ht_put_idx_matches_model.

(* one step along the chain: find returns the node with an equal key; put rejects a duplicate BEFORE linking and
   links the new node at the head only when the chain is exhausted *)
Theorem gen_ht_find_step_matches_model : forall hn c,
  gen_ht_find_step hn c = ht_find_step_dec hn c.
Proof. exact gen_ht_find_step_eq. Qed.
Print Assumptions gen_ht_find_step_matches_model.

Theorem gen_ht_put_step_matches_model : forall hn c,
  gen_ht_put_step hn c = (ht_put_step_dec hn c, if ht_put_step_dec hn c =? 1 then 1 else 0).
Proof. exact gen_ht_put_step_eq. Qed.
Print Assumptions gen_ht_put_step_matches_model.

(* muggle_hash_table_init: NULL comparator / capacity >= 2^31 rejected, table size < 8 becomes 10007, node pool iff capacity > 0 *)
Theorem gen_ht_init_matches_model : forall ts cap has_cmp,
  0 <= ts < 2 ^ 64 -> 0 <= cap < 2 ^ 64 ->
  gen_ht_init ts cap has_cmp = enc_ht_init (ht_init_dec ts cap has_cmp).
Proof. exact gen_ht_init_eq. Qed.
Print Assumptions gen_ht_init_matches_model.

(* trie: the empty key lives in children[0] of the root; one step of the walk ends at the NUL byte and indexes the
   children with the key byte as an UNSIGNED char (the generated index is wrapu 8 of the plain char) *)
Theorem gen_trie_find_entry_matches_model : forall ub,
  0 <= ub <= 255 -> gen_trie_find_entry (schar ub) = trie_find_entry_dec ub.
Proof. exact gen_trie_find_entry_eq. Qed.
Print Assumptions gen_trie_find_entry_matches_model.

Theorem gen_trie_find_step_matches_model : forall ub hc,
  0 <= ub <= 255 -> gen_trie_find_step (schar ub) hc = trie_find_step_dec ub hc.
Proof. exact gen_trie_find_step_eq. Qed.
Print Assumptions gen_trie_find_step_matches_model.

Theorem gen_trie_insert_entry_matches_model : forall ub hc,
  0 <= ub <= 255 ->
  gen_trie_insert_entry (schar ub) hc = enc_trie_insert (trie_insert_entry_dec ub hc).
Proof. exact gen_trie_insert_entry_eq. Qed.
Print Assumptions gen_trie_insert_entry_matches_model.

Theorem gen_trie_insert_step_matches_model : forall ub hc,
  0 <= ub <= 255 ->
  gen_trie_insert_step (schar ub) hc = enc_trie_insert (trie_insert_step_dec ub hc).
Proof. exact gen_trie_insert_step_eq. Qed.
Print Assumptions gen_trie_insert_step_matches_model.

(* the children array has the size the model's range check uses *)
Theorem gen_trie_children_size_matches_model : gen_trie_children_size = trie_children_size /\
  forall i, index_in_range i = (0 <=? i) && (i <? gen_trie_children_size).
Proof. exact gen_trie_children_size_eq. Qed.
Print Assumptions gen_trie_children_size_matches_model.

(* The functional model factors through the decision functions: rotations, dispatch of rebalance, retracing steps,
   comparator dispatch of find / insert. *)
Theorem avl_rotate_left_factors : forall t1 xk xv xb t23 zk zv zb t4,
  rotate_left (Node t1 xk xv xb (Node t23 zk zv zb t4)) =
  let '(x, z, d) := rot_left_bal zb in (Node (Node t1 xk xv x t23) zk zv z t4, d).
Proof. exact rotate_left_factors. Qed.
Print Assumptions avl_rotate_left_factors.

Theorem avl_rotate_right_factors : forall t4 zk zv zb t23 xk xv xb t1,
  rotate_right (Node (Node t4 zk zv zb t23) xk xv xb t1) =
  let '(x, z, d) := rot_right_bal zb in (Node t4 zk zv z (Node t23 xk xv x t1), d).
Proof. exact rotate_right_factors. Qed.
Print Assumptions avl_rotate_right_factors.

Theorem avl_rotate_right_left_factors : forall t1 xk xv xb t2 yk yv yb t3 zk zv zb t4,
  rotate_right_left (Node t1 xk xv xb (Node (Node t2 yk yv yb t3) zk zv zb t4)) =
  let '(x, z) := rot_right_left_bal yb in Node (Node t1 xk xv x t2) yk yv 0 (Node t3 zk zv z t4).
Proof. exact rotate_right_left_factors. Qed.
Print Assumptions avl_rotate_right_left_factors.

Theorem avl_rotate_left_right_factors : forall t4 zk zv zb t3 yk yv yb t2 xk xv xb t1,
  rotate_left_right (Node (Node t4 zk zv zb (Node t3 yk yv yb t2)) xk xv xb t1) =
  let '(x, z) := rot_left_right_bal yb in Node (Node t4 zk zv z t3) yk yv 0 (Node t2 xk xv x t1).
Proof. exact rotate_left_right_factors. Qed.
Print Assumptions avl_rotate_left_right_factors.

Theorem avl_rebalance_factors : forall l k v b r,
  let t := Node l k v b r in
  let c := rebalance_case b (root_bal l) (root_bal r) in
  rebalance t = if c =? 1 then rotate_right t else if c =? 2 then (rotate_left_right t, true)
                else if c =? 3 then rotate_left t else if c =? 4 then (rotate_right_left t, true) else (t, false).
Proof. exact rebalance_factors. Qed.
Print Assumptions avl_rebalance_factors.

Theorem avl_grow_factors : forall sl l k v b r,
  grow sl (Node l k v b r) =
  let b' := retrace_ins_bal b sl in
  let a := retrace_ins_act b' in
  if a =? 0 then (Node l k v b' r, false) else if a =? 1 then (Node l k v b' r, true)
  else (fst (rebalance (Node l k v b' r)), false).
Proof. exact grow_factors. Qed.
Print Assumptions avl_grow_factors.

Theorem avl_shrink_factors : forall sl l k v b r,
  shrink sl (Node l k v b r) =
  let b' := retrace_rem_bal b sl in
  let a := retrace_rem_act b' in
  if a =? 0 then (Node l k v b' r, false) else if a =? 1 then (Node l k v b' r, true)
  else rebalance (Node l k v b' r).
Proof. exact shrink_factors. Qed.
Print Assumptions avl_shrink_factors.

Theorem avl_find_factors_through_dispatch : forall x l k v b r,
  avl_find x (Node l k v b r) =
  let d := cmp_dispatch (cmpz x k) in
  if d =? 0 then Some v else if d =? 1 then avl_find x l else avl_find x r.
Proof. exact avl_find_factors. Qed.
Print Assumptions avl_find_factors_through_dispatch.

Theorem avl_ins_factors_through_dispatch : forall x xv l k v b r,
  ins x xv (Node l k v b r) =
  let d := cmp_dispatch (cmpz x k) in
  if d =? 0 then (Node l k v b r, false, false)
  else if d =? 1 then
    let '(l', g, i) := ins x xv l in
    if g then let (t', g') := grow true (Node l' k v b r) in (t', g', i) else (Node l' k v b r, false, i)
  else
    let '(r', g, i) := ins x xv r in
    if g then let (t', g') := grow false (Node l k v b r') in (t', g', i) else (Node l k v b r', false, i).
Proof. exact ins_factors. Qed.
Print Assumptions avl_ins_factors_through_dispatch.

(* The pointer programs of ModelHeap.v factor through the same decision functions. *)
Theorem havl_rotate_left_factors : forall h root x z,
  hr (h x) = Some z ->
  exists h1 root1, (forall w, hb (h1 w) = hb (h w)) /\
    hrotate_left h root x = let '(xb, zb, d) := rot_left_bal (hb (h z)) in Some (set_b (set_b h1 x xb) z zb, root1, d).
Proof. exact hrotate_left_factors. Qed.
Print Assumptions havl_rotate_left_factors.

Theorem havl_rotate_right_factors : forall h root x z,
  hl (h x) = Some z ->
  exists h1 root1, (forall w, hb (h1 w) = hb (h w)) /\
    hrotate_right h root x = let '(xb, zb, d) := rot_right_bal (hb (h z)) in Some (set_b (set_b h1 x xb) z zb, root1, d).
Proof. exact hrotate_right_factors. Qed.
Print Assumptions havl_rotate_right_factors.

Theorem havl_rotate_right_left_factors : forall h root x z y,
  hr (h x) = Some z -> hl (h z) = Some y ->
  exists h1 root1, (forall w, hb (h1 w) = hb (h w)) /\
    hrotate_right_left h root x =
    let '(xb, zb) := rot_right_left_bal (hb (h y)) in Some (set_b (set_b (set_b h1 x xb) z zb) y 0, root1).
Proof. exact hrotate_right_left_factors. Qed.
Print Assumptions havl_rotate_right_left_factors.

Theorem havl_rotate_left_right_factors : forall h root x z y,
  hl (h x) = Some z -> hr (h z) = Some y ->
  exists h1 root1, (forall w, hb (h1 w) = hb (h w)) /\
    hrotate_left_right h root x =
    let '(xb, zb) := rot_left_right_bal (hb (h y)) in Some (set_b (set_b (set_b h1 x xb) z zb) y 0, root1).
Proof. exact hrotate_left_right_factors. Qed.
Print Assumptions havl_rotate_left_right_factors.

Theorem havl_rebalance_factors : forall h root x l r,
  hl (h x) = Some l -> hr (h x) = Some r ->
  let c := rebalance_case (hb (h x)) (hb (h l)) (hb (h r)) in
  hrebalance h root x =
  if c =? 1 then hrotate_right h root x
  else if c =? 2 then match hrotate_left_right h root x with Some (h', r') => Some (h', r', true) | None => None end
  else if c =? 3 then hrotate_left h root x
  else if c =? 4 then match hrotate_right_left h root x with Some (h', r') => Some (h', r', true) | None => None end
  else Some (h, root, false).
Proof. exact hrebalance_factors. Qed.
Print Assumptions havl_rebalance_factors.

Theorem havl_retrace_ins_factors : forall f h root node sl,
  hretrace_ins (S f) h root node sl =
  let b' := retrace_ins_bal (hb (h node)) sl in
  let h1 := set_b h node b' in
  let a := retrace_ins_act b' in
  if a =? 0 then Some (h1, root)
  else if a =? 1 then
    match hp (h1 node) with
    | Some p => hretrace_ins f h1 root p (ptr_is (hl (h1 p)) node)
    | None => Some (h1, root)
    end
  else match hrebalance h1 root node with Some (h', root', _) => Some (h', root') | None => None end.
Proof. exact hretrace_ins_factors. Qed.
Print Assumptions havl_retrace_ins_factors.

Theorem havl_retrace_rem_factors : forall f h root n sl,
  hretrace_rem (S f) h root (Some n) sl =
  let b' := retrace_rem_bal (hb (h n)) sl in
  let h1 := set_b h n b' in
  let a := retrace_rem_act b' in
  if a =? 0 then Some (h1, root)
  else if a =? 1 then
    match hp (h1 n) with
    | Some p => hretrace_rem f h1 root (Some p) (ptr_is (hl (h1 p)) n)
    | None => Some (h1, root)
    end
  else
    let parent := hp (h1 n) in
    let side := match parent with Some p => ptr_is (hl (h1 p)) n | None => sl end in
    match hrebalance h1 root n with
    | Some (h', root', true) => hretrace_rem f h' root' parent side
    | Some (h', root', false) => Some (h', root')
    | None => None
    end.
Proof. exact hretrace_rem_factors. Qed.
Print Assumptions havl_retrace_rem_factors.

Theorem havl_find_factors : forall f h n x,
  hfind_loop (S f) h (Some n) x =
  let d := cmp_dispatch (cmpz x (hk (h n))) in
  if d =? 0 then Some (Some n) else if d =? 1 then hfind_loop f h (hl (h n)) x else hfind_loop f h (hr (h n)) x.
Proof. exact hfind_loop_factors. Qed.
Print Assumptions havl_find_factors.

Theorem havl_descend_factors : forall f h next n x,
  hdescend (S f) h next n x =
  let a := ins_descend_dec (cmpz x (hk (h n))) (is_some (hl (h n))) (is_some (hr (h n))) in
  if a =? 0 then Some None
  else if a =? 1 then match hl (h n) with Some c => hdescend f h next c x | None => None end
  else if a =? 2 then match hr (h n) with Some c => hdescend f h next c x | None => None end
  else if a =? 3 then Some (Some (set_l (hupd h next zero_node) n (Some next), n, true))
  else Some (Some (set_r (hupd h next zero_node) n (Some next), n, false)).
Proof. exact hdescend_factors. Qed.
Print Assumptions havl_descend_factors.

Theorem havl_remove_enter_factors : forall s node,
  let h := hheap s in
  let a := rem_enter_dec (is_some (hl (h node))) (is_some (hr (h node))) (is_some (hp (h node))) in
  (a <> 0 -> hswap_down (S (hnext s)) h node = Some (h, node)) /\
  (a = 1 -> hnext s <> O -> havl_remove s node = Some (mkst h None (hnext s))) /\
  (a = 2 -> hnext s <> O -> forall parent, hp (h node) = Some parent ->
     havl_remove s node =
     match hretrace_rem (S (hnext s)) (relink h (Some parent) node None) (hroot s) (Some parent)
             (ptr_is (hl (h parent)) node) with
     | Some (h', root') => Some (mkst h' root' (hnext s))
     | None => None
     end).
Proof. exact havl_remove_factors. Qed.
Print Assumptions havl_remove_enter_factors.

(* Hash table and trie models factor through their decision functions. *)
Theorem ht_index_factors : forall hash t k,
  ht_idx hash t k = Z.to_nat (ht_index (hash k) (ht_size t)).
Proof. exact ht_idx_factors. Qed.
Print Assumptions ht_index_factors.

Theorem hht_index_factors : forall hash t k,
  hht_idx hash t k = Z.to_nat (ht_index (hash k) (th_size t)).
Proof. exact hht_idx_factors. Qed.
Print Assumptions hht_index_factors.

Theorem ht_init_size_factors : forall ts,
  ht_size (ht_init ts) = ht_table_size ts /\ th_size (hht_init ts) = ht_table_size ts.
Proof. exact ht_init_factors. Qed.
Print Assumptions ht_init_size_factors.

Theorem ht_init_rules_accept_driver_inputs : forall ts cap,
  0 <= cap < 2147483648 ->
  ht_init_dec ts cap true = (true, ht_size (ht_init ts), 0 <? cap).
Proof. exact ht_init_dec_ok. Qed.
Print Assumptions ht_init_rules_accept_driver_inputs.

Theorem ht_chain_find_factors : forall k k' v r,
  chain_find k ((k', v) :: r) = if ht_find_step_dec true (cmpz k' k) =? 1 then Some v else chain_find k r.
Proof. exact chain_find_factors. Qed.
Print Assumptions ht_chain_find_factors.

Theorem hht_chain_find_factors : forall f nodes x k,
  hchain_find (S f) nodes (Some x) k =
  let a := ht_find_step_dec true (cmpz (ckey (nodes x)) k) in
  if a =? 1 then Some (Some x) else hchain_find f nodes (cnext (nodes x)) k.
Proof. exact hchain_find_factors. Qed.
Print Assumptions hht_chain_find_factors.

Theorem ht_put_scan_factors : forall hash t k v,
  ht_put hash t k v =
  match chain_find k (nth (ht_idx hash t k) (ht_buckets t) []) with
  | Some _ => (t, false)
  | None => ({| ht_size := ht_size t;
                ht_buckets := upd_nth (ht_idx hash t k) ((k, v) :: nth (ht_idx hash t k) (ht_buckets t) []) (ht_buckets t) |}, true)
  end /\
  (forall hn c, (ht_put_step_dec hn c =? 0) = (ht_find_step_dec hn c =? 1)) /\
  (forall hn c, (ht_put_step_dec hn c =? 1) = (ht_find_step_dec hn c =? 0)).
Proof. exact ht_put_factors. Qed.
Print Assumptions ht_put_scan_factors.

Theorem trie_walk_factors : forall t ub rest,
  ub <> 0 ->
  walk t (ub :: rest) =
  let '(a, i) := trie_find_step_dec ub (is_some (cget (byte_index ub) (t_children t))) in
  if a =? 1 then match cget i (t_children t) with Some ch => walk ch rest | None => None end else None.
Proof. exact walk_factors. Qed.
Print Assumptions trie_walk_factors.

Theorem trie_ins_walk_factors : forall t ub rest v,
  ub <> 0 ->
  ins_walk t (ub :: rest) v =
  let '(a, ig, created, iset) := trie_insert_step_dec ub (is_some (cget (byte_index ub) (t_children t))) in
  let ch := match cget ig (t_children t) with Some ch => ch | None => trie_empty end in
  TNode (t_data t) (cset (if created then iset else ig) (ins_walk ch rest v) (t_children t)).
Proof. exact ins_walk_factors. Qed.
Print Assumptions trie_ins_walk_factors.

Theorem trie_entry_factors_through_dispatch : forall root,
  trie_find_node root [] = cget (snd (trie_find_entry_dec 0)) (t_children root) /\
  (forall ub rest, ub <> 0 -> trie_find_entry_dec ub = (0, 0) /\ trie_find_node root (ub :: rest) = walk root (ub :: rest)) /\
  (forall v, trie_insert root [] v =
     let ch := match cget 0 (t_children root) with Some ch => ch | None => trie_empty end in
     TNode (t_data root) (cset 0 (TNode (Some v) (t_children ch)) (t_children root))).
Proof. exact trie_entry_factors. Qed.
Print Assumptions trie_entry_factors_through_dispatch.

(* With all five nodes present (X, its children L, R, the inner grandchildren LR, RL; [five] builds that tree
   around arbitrary outer subtrees, [build5] the tree a rotation case leaves): Model.rebalance / grow / shrink
   produce exactly the tree and flag the decision functions dictate. *)
Theorem avl_rebalance_is_rebalance_dec : forall ll lrl lrr rll rlr rr k v lk lv rk rv lrk lrv rlk rlv b lb rb lrb rlb,
  rebalance (five ll lrl lrr rll rlr rr k v lk lv rk rv lrk lrv rlk rlv (b, lb, rb, lrb, rlb)) =
  let '(c, bs, d) := rebalance_dec b lb rb lrb rlb in (build5 ll lrl lrr rll rlr rr k v lk lv rk rv lrk lrv rlk rlv c bs, d).
Proof. exact rebalance_five. Qed.
Print Assumptions avl_rebalance_is_rebalance_dec.

Theorem avl_grow_is_ins_step : forall ll lrl lrr rll rlr rr k v lk lv rk rv lrk lrv rlk rlv sl b lb rb lrb rlb,
  grow sl (five ll lrl lrr rll rlr rr k v lk lv rk rv lrk lrv rlk rlv (b, lb, rb, lrb, rlb)) =
  let '(bs, c, _, _) := ins_step_dec b sl lb rb lrb rlb true true in
  (build5 ll lrl lrr rll rlr rr k v lk lv rk rv lrk lrv rlk rlv c bs, retrace_ins_act (retrace_ins_bal b sl) =? 1).
Proof. exact grow_five. Qed.
Print Assumptions avl_grow_is_ins_step.

Theorem avl_shrink_is_rem_step : forall ll lrl lrr rll rlr rr k v lk lv rk rv lrk lrv rlk rlv sl b lb rb lrb rlb,
  shrink sl (five ll lrl lrr rll rlr rr k v lk lv rk rv lrk lrv rlk rlv (b, lb, rb, lrb, rlb)) =
  let '(bs, c, up, _) := rem_step_dec b sl lb rb lrb rlb true true in (build5 ll lrl lrr rll rlr rr k v lk lv rk rv lrk lrv rlk rlv c bs, up).
Proof. exact shrink_five. Qed.
Print Assumptions avl_shrink_is_rem_step.

(* ====================================================================== *)
(* Free callbacks (NULL = borrowed data) and muggle_hash_table_clear (C09/ProofsCb.v).  [opf] is an operation
   with the caller's choice of callbacks for a removal; a step reports, besides its result, whether the key /
   value block of the removed association went through its callback.  For EVERY choice at every removal each
   structure answers like the reference map, releases exactly when the key was bound and the callback was
   passed, and reaches the state the callback-free model reaches. *)
Theorem avl_refines_map_cb : forall ops,
  snd (runf avl_step_cb Leaf ops) = snd (runf (map_cb (map_step_reject Z.eq_dec)) empty_map ops) /\
  fst (runf avl_step_cb Leaf ops) = fst (run avl_step Leaf (map erase_f ops)) /\
  avl_inv (fst (runf avl_step_cb Leaf ops)).
Proof. exact avl_refines_cb. Qed.
Print Assumptions avl_refines_map_cb.

Theorem avl_remove_exact_for_every_callback_choice : forall fk fv k t, avl_inv t ->
  let '(t', (r, (rk, rv))) := avl_step_cb t (OpF (Rem k) fk fv) in
  t' = fst (avl_remove k t) /\ r = RRem (is_some (avl_find k t)) /\
  rk = (is_some (avl_find k t) && fk) /\ rv = (is_some (avl_find k t) && fv) /\
  forall y, avl_find y t' = if y =? k then None else avl_find y t.
Proof. exact avl_remove_cb_exact. Qed.
Print Assumptions avl_remove_exact_for_every_callback_choice.

Theorem ht_refines_map_cb : forall hash ts ops,
  snd (runf (ht_step_cb hash) (ht_init ts) ops) = snd (runf (map_cb (map_step_reject Z.eq_dec)) empty_map ops) /\
  fst (runf (ht_step_cb hash) (ht_init ts) ops) = fst (run (ht_step hash) (ht_init ts) (map erase_f ops)).
Proof. exact ht_refines_cb. Qed.
Print Assumptions ht_refines_map_cb.

(* after any history, clear (any callbacks) empties the table, calls each passed callback once per stored entry,
   and every later history is answered like a map that starts empty *)
Theorem ht_clear_then_reuse : forall hash ts ops1 fk fv ops2,
  let t1 := fst (runf (ht_step_cb hash) (ht_init ts) ops1) in
  let '(t2, n, (nk, nv)) := ht_clear_cb fk fv t1 in
  n = ht_count t1 /\ nk = (if fk then n else 0) /\ nv = (if fv then n else 0) /\
  (forall y, ht_find hash t2 y = None) /\
  snd (runf (ht_step_cb hash) t2 ops2) = snd (runf (map_cb (map_step_reject Z.eq_dec)) empty_map ops2).
Proof. exact ht_clear_reuse. Qed.
Print Assumptions ht_clear_then_reuse.

Theorem trie_refines_map_cb : forall ops, Forall valid_opf ops ->
  map obs_cb (snd (runf trie_step_cb trie_empty ops)) = snd (runf map_cb_trie empty_map ops) /\
  fst (runf trie_step_cb trie_empty ops) = fst (run trie_step trie_empty (map erase_f ops)).
Proof. exact trie_refines_cb. Qed.
Print Assumptions trie_refines_map_cb.

(* the removal paths of the C code, sliced on this run: the callbacks that are passed are called with the node's
   key / value (data), nothing is called for a NULL callback, and the node is unlinked / its data cleared in
   every case *)
Theorem gen_ht_remove_matches_model : forall hk hv fk fv, gen_ht_remove hk hv fk fv = enc3 (ht_remove_dec hk hv fk fv).
Proof. exact gen_ht_remove_eq. Qed.
Print Assumptions gen_ht_remove_matches_model.

Theorem gen_trie_remove_matches_model : forall ub hn f, 0 <= ub <= 255 ->
  gen_trie_remove (schar ub) hn f = enc3 (trie_remove_dec hn f).
Proof. exact gen_trie_remove_eq. Qed.
Print Assumptions gen_trie_remove_matches_model.

(* the comparator's magnitude is irrelevant: the dispatch (proved equal to the sliced code for every int) uses the sign only *)
Theorem cmp_dispatch_uses_sign_only : forall c, cmp_dispatch c = cmp_dispatch (Z.sgn c).
Proof. exact cmp_dispatch_sign. Qed.
Print Assumptions cmp_dispatch_uses_sign_only.

(* ====================================================================== *)
(* Allocation failure inside insert / put (C09/ProofsAlloc.v): an exhausted constant-size node pool or malloc
   returning NULL.  [opa] is an operation with an oracle ([None]: every allocation succeeds; [Some b]: the first b
   node allocations of the call succeed, the next one fails).  A failed insert reports failure and the structure
   still answers every later operation like the reference map; nothing fails unless a failure is injected.
   Tree and table: the failed insert changes nothing ([map_step_o]: the reference leaves the map alone). *)
Theorem avl_refines_map_under_alloc_failure : forall ops,
  snd (rung avl_step_o Leaf ops) = snd (rung map_step_o empty_map ops) /\
  avl_inv (fst (rung avl_step_o Leaf ops)) /\
  forall y, avl_find y (fst (rung avl_step_o Leaf ops)) = fst (rung map_step_o empty_map ops) y.
Proof. exact avl_refines_alloc. Qed.
Print Assumptions avl_refines_map_under_alloc_failure.

Theorem ht_refines_map_under_alloc_failure : forall hash ts ops,
  snd (rung (ht_step_o hash) (ht_init ts) ops) = snd (rung map_step_o empty_map ops) /\
  forall y, ht_find hash (fst (rung (ht_step_o hash) (ht_init ts) ops)) y = fst (rung map_step_o empty_map ops) y.
Proof. exact ht_refines_alloc. Qed.
Print Assumptions ht_refines_map_under_alloc_failure.

(* Trie: muggle_trie_insert allocates one node per missing key byte; when an allocation fails in the middle of a key
   the unchanged code returns NULL and leaves the nodes created so far in place (no data in them).  One call: success
   is the insert of the failure-free model, failure leaves EVERY lookup unchanged, and a budget that covers the key
   cannot fail. *)
Theorem trie_insert_under_alloc_failure : forall b root key v, valid_key key ->
  (snd (trie_insert_o b root key v) = true -> fst (trie_insert_o b root key v) = trie_insert root key v) /\
  (snd (trie_insert_o b root key v) = false ->
     forall key', trie_lookup (fst (trie_insert_o b root key v)) key' = trie_lookup root key') /\
  ((length key < b)%nat -> snd (trie_insert_o b root key v) = true).
Proof. exact trie_insert_o_spec. Qed.
Print Assumptions trie_insert_under_alloc_failure.

(* Histories: the reference map follows the REPORTED results ([ref_run]: a reported failure leaves it alone); the
   results, every lookup afterwards, and "no failure reported where none was injected" *)
Theorem trie_refines_map_under_alloc_failure : forall ops, Forall valid_opa ops ->
  let rs := snd (rung trie_step_o trie_empty ops) in
  map obs rs = snd (ref_run empty_map ops rs) /\
  (forall key, valid_key key ->
     trie_lookup (fst (rung trie_step_o trie_empty ops)) key = fst (ref_run empty_map ops rs) key) /\
  Forall2 (fun a r => no_failure_injected a -> reports_success a r) ops rs.
Proof. exact trie_refines_alloc. Qed.
Print Assumptions trie_refines_map_under_alloc_failure.
