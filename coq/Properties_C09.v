(* C09 — property theorems only.  Each is closed by [exact] of a lemma proved in
   C09/Proofs*.v and followed by Print Assumptions.  Models: C09/Model.v.

   avl_inv t = search_tree t (every key of the left subtree below, every key of
   the right subtree above, recursively) /\ bal t (at every node the recorded
   balance equals height right - height left and lies in [-1,1]).
   The reference map is Spec.v: [map_step_reject] (tree, table: a duplicate key
   is rejected) and [map_step_trie] (trie: insertion overwrites). *)
From MV Require Import C09.Proofs.
Local Open Scope Z_scope.

(* Insertion (descent, retracing, single/double rotations with the code's
   balance-factor updates) preserves search-tree order, exact balance factors
   and |balance| <= 1 at every node, for every tree, key and value. *)
Theorem avl_inv_insert : forall k v t, avl_inv t -> avl_inv (fst (avl_insert k v t)).
Proof. exact avl_insert_inv. Qed.
Print Assumptions avl_inv_insert.

(* Removal (swap with predecessor, else successor, down to a leaf; unlink;
   retrace with rebalance and early stop) preserves the same invariant. *)
Theorem avl_inv_remove : forall k t, avl_inv t -> avl_inv (fst (avl_remove k t)).
Proof. exact avl_remove_inv. Qed.
Print Assumptions avl_inv_remove.

(* ... hence after every history from every valid tree. *)
Theorem avl_inv_history : forall ops t, avl_inv t -> avl_inv (fst (run avl_step t ops)).
Proof. exact avl_inv_run. Qed.
Print Assumptions avl_inv_history.

(* After every history of insert / find / remove the tree answers exactly like
   the reference map: same accepted/rejected insertions, same lookups, same
   found/not-found removals, and the final contents coincide key by key. *)
Theorem avl_refines_map : forall ops,
  snd (run avl_step Leaf ops) = snd (run (map_step_reject Z.eq_dec) empty_map ops) /\
  avl_inv (fst (run avl_step Leaf ops)) /\
  forall y, avl_find y (fst (run avl_step Leaf ops)) = fst (run (map_step_reject Z.eq_dec) empty_map ops) y.
Proof. exact avl_refines. Qed.
Print Assumptions avl_refines_map.

(* A duplicate key is rejected and the tree is left exactly as it was. *)
Theorem avl_duplicate_rejected : forall k v t w, avl_find k t = Some w -> avl_insert k v t = (t, false).
Proof. exact avl_insert_dup. Qed.
Print Assumptions avl_duplicate_rejected.

(* A new key is accepted, becomes visible with its value, and no other lookup changes. *)
Theorem avl_insert_exact : forall k v t, avl_inv t -> avl_find k t = None ->
  snd (avl_insert k v t) = true /\
  forall y, avl_find y (fst (avl_insert k v t)) = if y =? k then Some v else avl_find y t.
Proof. exact avl_insert_new. Qed.
Print Assumptions avl_insert_exact.

(* A removal removes exactly that one association (and reports whether it existed). *)
Theorem avl_remove_exact : forall k t, avl_inv t ->
  snd (avl_remove k t) = (if avl_find k t then true else false) /\
  forall y, avl_find y (fst (avl_remove k t)) = if y =? k then None else avl_find y t.
Proof. exact avl_remove_find. Qed.
Print Assumptions avl_remove_exact.

(* The verdict computed by the model driver decides the invariant. *)
Theorem avl_check_sound : forall t, avl_okb t = true -> avl_inv t.
Proof. exact avl_okb_sound. Qed.
Print Assumptions avl_check_sound.

(* Hash table: for EVERY hash function (all keys may collide) and every table
   size, every history is answered like the reference map. *)
Theorem ht_refines_map : forall (hash : Z -> Z) table_size ops,
  snd (run (ht_step hash) (ht_init table_size) ops) = snd (run (map_step_reject Z.eq_dec) empty_map ops) /\
  forall y, ht_find hash (fst (run (ht_step hash) (ht_init table_size) ops)) y =
            fst (run (map_step_reject Z.eq_dec) empty_map ops) y.
Proof. exact ht_refines. Qed.
Print Assumptions ht_refines_map.

Theorem ht_duplicate_rejected : forall hash t k v w, ht_find hash t k = Some w -> ht_put hash t k v = (t, false).
Proof. exact ht_put_dup. Qed.
Print Assumptions ht_duplicate_rejected.

(* Trie (with fixes/C09-trie-unsigned-index.patch): over byte strings with bytes
   in 1..255 — the empty key, prefixes of other keys and bytes >= 0x80 included —
   every history is answered like a map with overwrite; the boolean returned by
   a removal is observed as "true" on both sides ([obs]) because the API leaves it
   open for absent keys (see trie_remove_present_true for stored keys). *)
Theorem trie_refines_map : forall ops, Forall valid_op ops ->
  map obs (snd (run trie_step trie_empty ops)) = snd (run map_step_trie empty_map ops) /\
  forall key, valid_key key ->
    trie_lookup (fst (run trie_step trie_empty ops)) key = fst (run map_step_trie empty_map ops) key.
Proof. exact trie_refines. Qed.
Print Assumptions trie_refines_map.

Theorem trie_remove_present_true : forall t k v, trie_lookup t k = Some v -> snd (trie_step t (Rem k)) = RRem true.
Proof. exact trie_rem_present_true. Qed.
Print Assumptions trie_remove_present_true.

(* Any non-NUL byte: the repaired index stays inside children[256] and never
   touches the slot of the empty key ... *)
Theorem trie_high_bytes : forall c, 1 <= c <= 255 ->
  index_in_range (byte_index c) = true /\ byte_index c <> 0.
Proof. exact byte_index_in_range. Qed.
Print Assumptions trie_high_bytes.

(* ... whereas the index of the unchanged code ((int) of a signed char) leaves
   the array for every byte >= 0x80 (the defect repaired by the patch). *)
Theorem trie_unrepaired_index_out_of_bounds : forall c, 128 <= c <= 255 ->
  index_in_range (byte_index_unrepaired c) = false.
Proof. exact byte_index_unrepaired_oob. Qed.
Print Assumptions trie_unrepaired_index_out_of_bounds.
