From MV Require Import C09.Model C09.Proofs.
Local Open Scope Z_scope.

Theorem trie_signed_index_oob : forall c, 128 <= c <= 255 -> index_in_range (byte_index_unrepaired c) = false.
Proof. exact trie_signed_index_oob_l. Qed.
Print Assumptions trie_signed_index_oob.
