(* C05 — sowr pool: under the documented usage (one allocator thread a, one freer thread f — possibly
   the same thread —, free b releases b and everything allocated before it) no block is handed out
   while outstanding, NULL is returned exactly when cap-1 blocks are outstanding, and the pool keeps
   serving for ever (all schedules, any capacity 2^k <= 2^32, across the uint32 wrap of alloc_idx). *)
From MV Require Import C05.Model.
Local Open Scope Z_scope.

Lemma some_pair_inv {A B} (a c : A) (b d : B) : Some (a, b) = Some (c, d) -> a = c /\ b = d.
Proof. intros H; inversion H; auto. Qed.

(* ---------------- arithmetic ---------------- *)
Lemma mod_neq_range c a b : 0 < c -> b < a < b + c -> a mod c <> b mod c.
Proof.
  intros Hc Hr E.
  pose proof (Z.div_mod a c ltac:(lia)) as Ha. pose proof (Z.div_mod b c ltac:(lia)) as Hb.
  pose proof (Z.mod_pos_bound a c Hc). pose proof (Z.mod_pos_bound b c Hc).
  assert (a - b = c * (a / c - b / c)) by lia.
  assert (0 < a / c - b / c) by nia. nia.
Qed.
Lemma mod_eq_range c a b : 0 < c -> a mod c = b mod c -> b < a <= b + c -> a = b + c.
Proof.
  intros Hc E Hr. destruct (Z.eq_dec a (b + c)) as [|N]; [assumption|].
  exfalso. apply (mod_neq_range c a b Hc); [lia|assumption].
Qed.
Lemma mod_two32 c x : 0 < c -> (c | two32) -> (x mod two32) mod c = x mod c.
Proof.
  intros Hc [q Hq]. rewrite (Z.mod_eq x two32) by discriminate. rewrite Hq.
  replace (x - q * c * (x / (q * c))) with (x + (- (q * (x / (q * c)))) * c) by ring.
  apply Z_mod_plus_full.
Qed.

(* ---------------- the harness list as an interval of logical indices ---------------- *)
Fixpoint zseq (a : Z) (n : nat) : list Z := match n with O => [] | S m => a :: zseq (a + 1) m end.
Definition sblk (cap : Z) (a : nat) (i : Z) : nat * nat := (Z.to_nat (i mod cap), a).
Definition sout (cap : Z) (a : nat) (fc A : Z) : olist := map (sblk cap a) (zseq fc (Z.to_nat (A - fc))).

Lemma zseq_length a n : length (zseq a n) = n.
Proof. revert a; induction n; intros; simpl; auto. Qed.
Lemma zseq_snoc a n : zseq a (S n) = zseq a n ++ [a + Z.of_nat n].
Proof.
  revert a; induction n as [|n IH]; intros a.
  - simpl. now rewrite Z.add_0_r.
  - change (zseq a (S (S n))) with (a :: zseq (a + 1) (S n)). rewrite IH.
    change (zseq a (S n)) with (a :: zseq (a + 1) n). rewrite <- app_comm_cons.
    rewrite (Nat2Z.inj_succ n). do 3 f_equal. lia.
Qed.
Lemma zseq_in a n i : In i (zseq a n) <-> a <= i < a + Z.of_nat n.
Proof.
  revert a; induction n as [|n IH]; intros a.
  - simpl. lia.
  - change (zseq a (S n)) with (a :: zseq (a + 1) n). simpl In. rewrite IH. lia.
Qed.
Lemma zseq_nth a n j d : (j < n)%nat -> nth j (zseq a n) d = a + Z.of_nat j.
Proof.
  revert a j; induction n as [|n IH]; intros a j Hj; [lia|].
  destruct j as [|j]; simpl; [lia|]. rewrite IH by lia. lia.
Qed.
Lemma zseq_skipn a n j : (j <= n)%nat -> skipn j (zseq a n) = zseq (a + Z.of_nat j) (n - j).
Proof.
  revert a n; induction j as [|j IH]; intros a n Hj.
  - simpl. rewrite Z.add_0_r. now rewrite Nat.sub_0_r.
  - destruct n as [|n]; [lia|]. simpl. rewrite IH by lia. f_equal. lia.
Qed.
Lemma sout_snoc cap a fc A : fc <= A -> sout cap a fc (A + 1) = sout cap a fc A ++ [sblk cap a A].
Proof.
  intros H. unfold sout. replace (Z.to_nat (A + 1 - fc)) with (S (Z.to_nat (A - fc))) by lia.
  rewrite zseq_snoc, map_app. simpl. repeat f_equal. lia.
Qed.
Lemma owned_in_false d (out : olist) : (forall x, In x out -> fst x <> d) -> owned_in d out = false.
Proof.
  intros H. unfold owned_in. induction out as [|x r IH]; simpl; [reflexivity|].
  destruct (Nat.eqb_spec (fst x) d) as [E|E]; [exfalso; apply (H x); [now left|assumption]|].
  apply IH. intros y Hy. apply H. now right.
Qed.

(* a new block at logical index A is not in the list when fewer than cap blocks separate them *)
Lemma sout_fresh cap a fc A : 0 < cap -> fc <= A -> A - fc < cap ->
  owned_in (Z.to_nat (A mod cap)) (sout cap a fc A) = false.
Proof.
  intros Hc H1 H2. apply owned_in_false. intros x Hx. unfold sout in Hx.
  apply in_map_iff in Hx as (i & Ei & Hi). apply zseq_in in Hi. subst x. simpl.
  intros E. apply Z2Nat.inj in E; try (apply Z.mod_pos_bound; assumption).
  apply (mod_neq_range cap A i Hc); [lia|]. now symmetry.
Qed.

Definition has_free (sc : list op) : bool := existsb (fun o => match o with OpAlloc => false | _ => true end) sc.

(* ---------------- invariant ---------------- *)
Section Sowr.
  Variables (cap : Z) (a f : nat).
  Hypothesis Hcap : 0 < cap.
  Hypothesis Hdiv : (cap | two32).

  Definition sthr_ok (s : ssys) (t : nat) (x : sthread) : Prop :=
    (t <> a -> has_alloc (s_script x) = false) /\ (t <> f -> has_free (s_script x) = false) /\
    match s_pc x with
    | SLoad pos => t = a /\ pos = s_A s mod cap
    | SAfter pos v fl => t = a /\ pos = s_A s mod cap /\ v mod cap = fl mod cap /\ s_Cl s <= fl <= s_Fl s
    | SStore b fc => t = f /\ fc = s_Fc s /\ b = Z.to_nat ((fc - 1) mod cap)
    | _ => True
    end.

  Record SInv (s : ssys) : Prop := {
    si_cap : s_cap s = cap;
    si_ord : s_Cl s <= s_Fl s /\ s_Fl s <= s_Fc s /\ s_Fc s <= s_A s;
    si_room : s_A s - s_Cl s <= cap - 1;
    si_alloc : s_alloc s = s_A s mod two32;
    si_cached : s_cached s = (s_Cl s - 1) mod cap;
    si_free : s_free s mod cap = s_Fl s mod cap;
    si_out : s_out s = sout cap a (s_Fc s) (s_A s);
    si_dups : s_dups s = 0%nat;
    si_badnull : s_badnull s = 0%nat;
    si_thr : forall t, sthr_ok s t (s_thr s t);
  }.

  Ltac supd := simpl in *; repeat (match goal with
    | H : context [upd _ ?t _ ?u] |- _ => unfold upd in H; destruct (Nat.eqb_spec u t); subst
    | |- context [upd _ ?t _ ?u] => unfold upd; destruct (Nat.eqb_spec u t); subst
    end; simpl in * ).

  Lemma has_alloc_cons o r : has_alloc (o :: r) = false -> has_alloc r = false.
  Proof. unfold has_alloc; simpl. destruct o; simpl; intros; congruence. Qed.
  Lemma has_free_cons o r : has_free (o :: r) = false -> has_free r = false.
  Proof. unfold has_free; simpl. destruct o; simpl; intros; congruence. Qed.

  Ltac hsc := first [ assumption | solve [auto]
    | match goal with H : _ -> has_alloc (?o :: ?r) = false |- _ -> has_alloc ?r = false =>
        exact (fun N => has_alloc_cons o r (H N)) end
    | match goal with H : _ -> has_free (?o :: ?r) = false |- _ -> has_free ?r = false =>
        exact (fun N => has_free_cons o r (H N)) end
    | congruence ].

  (* other threads keep their knowledge when the shared ghost values move monotonically *)
  Lemma sthr_ok_other s s' u x :
    sthr_ok s u x ->
    (s_pc x = SIdle \/ s_pc x = SYield \/ s_pc x = SBegin \/ s_pc x = SFin \/ s_pc x = SDone \/
     (match s_pc x with SLoad _ | SAfter _ _ _ => u = a -> s_A s' = s_A s /\ s_Cl s' = s_Cl s /\ s_Fl s <= s_Fl s'
                     | SStore _ _ => u = f -> s_Fc s' = s_Fc s | _ => True end)) ->
    sthr_ok s' u x.
  Proof.
    unfold sthr_ok. intros (H1 & H2 & H3) Hc. split; [assumption|]. split; [assumption|].
    destruct (s_pc x) eqn:E; try exact I.
    - destruct Hc as [?|[?|[?|[?|[?|Hc]]]]]; try discriminate. destruct H3 as [-> H3].
      destruct (Hc eq_refl) as (-> & _). auto.
    - destruct Hc as [?|[?|[?|[?|[?|Hc]]]]]; try discriminate. destruct H3 as (-> & H3 & H4 & H5).
      destruct (Hc eq_refl) as (-> & -> & ?). repeat split; auto; lia.
    - destruct Hc as [?|[?|[?|[?|[?|Hc]]]]]; try discriminate. destruct H3 as (-> & H3 & H4).
      rewrite (Hc eq_refl). auto.
  Qed.

  (* the common part of "return block at position A mod cap" (fast path and after the reload) *)
  Lemma take_inv s t sc notes cl :
    SInv s -> t = a -> (t <> f -> has_free sc = false) ->
    s_Cl s <= cl <= s_Fl s -> s_A s mod cap <> (cl - 1) mod cap ->
    SInv (fst (s_take s t (s_A s mod cap) ((cl - 1) mod cap) cl sc notes)).
  Proof.
    intros [Ic Io Ir Ia Ica If Iout Id Ib It] -> Hsc Hcl Hne.
    assert (Hroom : s_A s - cl < cap - 1).
    { destruct (Z.eq_dec (s_A s - cl) (cap - 1)) as [E|E]; [|lia].
      exfalso. apply Hne. replace (s_A s) with (cl - 1 + cap) by lia.
      rewrite <- (Z_mod_plus_full (cl - 1) 1 cap). f_equal. lia. }
    assert (Hfresh : owned_in (Z.to_nat (s_A s mod cap)) (s_out s) = false).
    { rewrite Iout. apply sout_fresh; lia. }
    unfold s_take. simpl. unfold ret_out, ret_dups. rewrite Hfresh.
    constructor; simpl; try assumption; try lia.
    - rewrite Ia. now rewrite Zplus_mod_idemp_l.
    - rewrite Iout. rewrite sout_snoc by lia. reflexivity.
    - intros u. pose proof (It u) as Ku. supd.
      + unfold sthr_ok; simpl. split; [congruence|]. split; [assumption|].
        unfold nxt_s. destruct (nxt_is_fin sc); exact I.
      + unfold sthr_ok in *. destruct Ku as (K1 & K2 & K3). split; [assumption|]. split; [assumption|].
        destruct (s_pc (s_thr s u)); simpl in *; try exact I; try (destruct K3 as [-> _]; congruence).
        destruct K3 as (K3 & K4 & K5). repeat split; auto.
  Qed.

  Lemma sfree_inv s t k r :
    SInv s -> t = f -> (t <> a -> has_alloc r = false) -> s_out s <> [] ->
    SInv {| s_cap := s_cap s; s_n := s_n s; s_alloc := s_alloc s; s_cached := s_cached s; s_free := s_free s;
            s_out := skipn (S (Nat.modulo k (length (s_out s)))) (s_out s); s_dups := s_dups s; s_badnull := s_badnull s;
            s_A := s_A s; s_Fl := s_Fl s; s_Fc := s_Fc s + Z.of_nat (Nat.modulo k (length (s_out s))) + 1; s_Cl := s_Cl s;
            s_thr := upd (s_thr s) t {| s_pc := SStore (fst (nth (Nat.modulo k (length (s_out s))) (s_out s) (0%nat, 0%nat)))
                                                 (s_Fc s + Z.of_nat (Nat.modulo k (length (s_out s))) + 1);
                                        s_script := r |} |}.
  Proof.
    intros [Ic Io Ir Ia Ica If Iout Id Ib It] -> Hr Hne.
    set (n := length (s_out s)) in *.
    assert (Hn : n = Z.to_nat (s_A s - s_Fc s)) by (unfold n; rewrite Iout; unfold sout; now rewrite map_length, zseq_length).
    assert (Hn0 : (n <> 0)%nat) by (unfold n; destruct (s_out s); simpl; [congruence|lia]).
    assert (Hj : (Nat.modulo k n < n)%nat) by (apply Nat.mod_upper_bound; assumption).
    set (j := Nat.modulo k n) in *.
    assert (Hout : skipn (S j) (s_out s) = sout cap a (s_Fc s + Z.of_nat j + 1) (s_A s)).
    { rewrite Iout. unfold sout. rewrite skipn_map. rewrite zseq_skipn by lia. f_equal. f_equal; lia. }
    constructor; simpl; try assumption; try lia; try exact Hout.
    - intros u. pose proof (It u) as Ku. supd.
      + unfold sthr_ok; simpl. split; [assumption|].
        split; [congruence|]. split; [reflexivity|]. split; [reflexivity|].
        rewrite Iout. unfold sout. rewrite (nth_indep _ _ (sblk cap a 0)) by (rewrite map_length, zseq_length; lia).
        rewrite map_nth. rewrite zseq_nth by lia. simpl. f_equal. f_equal. lia.
      + apply (sthr_ok_other s _ u _ Ku). right; right; right; right; right.
        destruct (s_pc (s_thr s u)); simpl; auto; try lia; try congruence.
  Qed.

  Lemma sstep_inv P s t ch s' l : SInv s -> sstep P s t ch = Some (s', l) -> SInv s'.
  Proof.
    intros HI Hs. pose proof HI as [Ic Io Ir Ia Ica If Iout Id Ib It].
    unfold sstep in Hs. destruct (Nat.leb (s_n s) t); [discriminate|].
    pose proof (It t) as Kt. unfold sthr_ok in Kt. destruct Kt as (Ka & Kf & Kt).
    destruct (s_pc (s_thr s t)) eqn:Epc.
    - (* SIdle *)
      inversion Hs; subst; clear Hs. constructor; simpl; try assumption.
      intros u. pose proof (It u) as Ku. supd; [|assumption].
      unfold sthr_ok; simpl. split; [assumption|]. split; [assumption|].
      unfold nxt_s. destruct (nxt_is_fin _); exact I.
    - (* SYield *)
      inversion Hs; subst; clear Hs. constructor; simpl; try assumption.
      intros u. pose proof (It u) as Ku. supd; [|assumption].
      unfold sthr_ok; simpl. auto.
    - (* SBegin *)
      destruct (s_script (s_thr s t)) as [|o r] eqn:Esc.
      + inversion Hs; subst; clear Hs. constructor; simpl; try assumption.
        intros u. pose proof (It u) as Ku. supd; [|assumption].
        unfold sthr_ok; simpl. try rewrite Esc. auto.
      + assert (Hpos : s_alloc s mod s_cap s = s_A s mod cap).
        { rewrite Ic, Ia. now apply mod_two32. }
        destruct o as [|k|k].
        * (* alloc *)
          assert (Eta : t = a).
          { destruct (Nat.eq_dec t a); [assumption|]. specialize (Ka n). unfold has_alloc in Ka. simpl in Ka. discriminate. }
          assert (Hr : t <> f -> has_free r = false) by (hsc).
          rewrite Hpos in Hs.
          destruct (Z.eqb_spec (s_A s mod cap) (s_cached s)) as [E|E]; simpl in Hs; inversion Hs; subst s' l; clear Hs.
          -- constructor; simpl; try assumption.
             intros u. pose proof (It u) as Ku. supd; [|assumption].
             unfold sthr_ok; simpl. split; [hsc|]. split; [assumption|]. auto.
          -- rewrite Ica in *. apply (take_inv s t r [(n_call, 0)] (s_Cl s) HI Eta Hr); [lia|assumption].
        * (* free k *)
          assert (Etf : t = f).
          { destruct (Nat.eq_dec t f); [assumption|]. specialize (Kf n). unfold has_free in Kf. simpl in Kf. discriminate. }
          destruct (s_out s) as [|o0 rest] eqn:Eout.
          -- inversion Hs; subst s' l; clear Hs. constructor; simpl; try assumption; try congruence.
             intros u. pose proof (It u) as Ku. supd; [|assumption].
             unfold sthr_ok; simpl. split; [hsc|].
             split; [hsc|].
             unfold nxt_s. destruct (nxt_is_fin _); exact I.
          -- apply some_pair_inv in Hs as [<- <-]. rewrite <- Eout.
             apply sfree_inv; try assumption; try (rewrite Eout; discriminate); try hsc.
        * (* free-own k : same code path *)
          assert (Etf : t = f).
          { destruct (Nat.eq_dec t f); [assumption|]. specialize (Kf n). unfold has_free in Kf. simpl in Kf. discriminate. }
          destruct (s_out s) as [|o0 rest] eqn:Eout.
          -- inversion Hs; subst s' l; clear Hs. constructor; simpl; try assumption; try congruence.
             intros u. pose proof (It u) as Ku. supd; [|assumption].
             unfold sthr_ok; simpl. split; [hsc|].
             split; [hsc|].
             unfold nxt_s. destruct (nxt_is_fin _); exact I.
          -- apply some_pair_inv in Hs as [<- <-]. rewrite <- Eout.
             apply sfree_inv; try assumption; try (rewrite Eout; discriminate); try hsc.
    - (* SFin *)
      inversion Hs; subst; clear Hs. constructor; simpl; try assumption.
      intros u. pose proof (It u) as Ku. supd; [|assumption]. unfold sthr_ok; simpl. auto.
    - discriminate.
    - (* SLoad *)
      destruct Kt as [-> Kp]. inversion Hs; subst s' l; clear Hs. constructor; simpl; try assumption.
      intros u. pose proof (It u) as Ku. supd; [|assumption].
      unfold sthr_ok; simpl. split; [assumption|]. split; [assumption|]. repeat split; auto; lia.
    - (* SAfter *)
      destruct Kt as (-> & Kp & Kv & Kfl). rewrite Ic in Hs.
      assert (Ec : ((v - 1) mod two32) mod cap = (fl - 1) mod cap).
      { rewrite mod_two32 by assumption. rewrite Zminus_mod, Kv, <- Zminus_mod. reflexivity. }
      rewrite Ec, Kp in Hs.
      destruct (Z.eqb_spec (s_A s mod cap) ((fl - 1) mod cap)) as [E|E]; simpl in Hs; inversion Hs; subst s' l; clear Hs.
      + (* NULL: exactly cap-1 blocks were outstanding at the load *)
        assert (HA : s_A s = fl - 1 + cap) by (apply mod_eq_range; [assumption|assumption|lia]).
        replace (s_A s - fl =? cap - 1) with true by (symmetry; apply Z.eqb_eq; lia).
        constructor; simpl; try assumption; try lia.
        intros u. pose proof (It u) as Ku. supd.
        * unfold sthr_ok; simpl. split; [assumption|]. split; [assumption|]. unfold nxt_s. destruct (nxt_is_fin _); exact I.
        * unfold sthr_ok in *. destruct Ku as (K1 & K2 & K3). split; [assumption|]. split; [assumption|].
          destruct (s_pc (s_thr s u)); simpl in *; try exact I; try (destruct K3 as [-> _]; congruence). assumption.
      + apply (take_inv s a (s_script (s_thr s a)) [] fl HI eq_refl Kf Kfl E).
    - (* SStore *)
      destruct Kt as (-> & Kfc & Kb). inversion Hs; subst s' l; clear Hs.
      constructor; simpl; try assumption; try lia.
      + rewrite Kb. rewrite Z2Nat.id by (apply Z.mod_pos_bound; assumption).
        rewrite Zplus_mod_idemp_l. f_equal. lia.
      + intros u. pose proof (It u) as Ku. supd.
        * unfold sthr_ok; simpl. auto.
        * apply (sthr_ok_other s _ u _ Ku). right; right; right; right; right.
          destruct (s_pc (s_thr s u)); simpl; auto; intros; repeat split; auto; lia.
  Qed.
End Sowr.

(* ---------------- theorems ---------------- *)
Definition sowr_usage (a f : nat) (scripts : nat -> list op) : Prop :=
  (forall t, t <> a -> has_alloc (scripts t) = false) /\ (forall t, t <> f -> has_free (scripts t) = false).
Definition sowr_run (P : params) (cap base : Z) (n : nat) (scripts : nat -> list op) (sched : list (nat * nat)) : ssys :=
  exec ssys (sstep P) (sinit cap base n scripts) sched.
(* capacity as produced by init (a power of two that divides 2^32), start state after [base] allocations *)
Definition sowr_geometry (cap base : Z) : Prop := 0 < cap /\ (cap | two32) /\ 0 <= base /\ base mod cap = 0.

Lemma sinit_inv cap base a f n scripts :
  sowr_geometry cap base -> sowr_usage a f scripts -> SInv cap a f (sinit cap base n scripts).
Proof.
  intros (Hc & Hd & Hb & Hm) (Ha & Hf). constructor; simpl; try reflexivity; try lia.
  - apply Z.mod_divide in Hm; [|lia]. destruct Hm as [q ->].
    replace (q * cap - 1) with (cap - 1 + (q - 1) * cap) by ring.
    rewrite Z_mod_plus_full. symmetry. apply Z.mod_small. lia.
  - rewrite Hm. apply Z.mod_0_l. lia.
  - unfold sout. now rewrite Z.sub_diag.
  - intros t. unfold sthr_ok; simpl. auto.
Qed.

Theorem sowr_invariants P cap base a f n scripts sched :
  sowr_geometry cap base -> sowr_usage a f scripts ->
  SInv cap a f (sowr_run P cap base n scripts sched).
Proof.
  intros Hg Hu. unfold sowr_run. apply inv_exec; [|now apply sinit_inv].
  destruct Hg as (Hc & Hd & _). intros; eapply sstep_inv; eauto.
Qed.

(* no allocation returns a block that is still outstanding (every schedule) *)
Corollary sowr_no_double_handout_all P cap base a f n scripts sched :
  sowr_geometry cap base -> sowr_usage a f scripts ->
  s_dups (sowr_run P cap base n scripts sched) = 0%nat.
Proof. intros Hg Hu. apply (si_dups _ _ _ _ (sowr_invariants P cap base a f n scripts sched Hg Hu)). Qed.

(* NULL is returned only when exactly cap-1 blocks were outstanding at the load of free_idx *)
Corollary sowr_exhaustion_exact_all P cap base a f n scripts sched :
  sowr_geometry cap base -> sowr_usage a f scripts ->
  s_badnull (sowr_run P cap base n scripts sched) = 0%nat.
Proof. intros Hg Hu. apply (si_badnull _ _ _ _ (sowr_invariants P cap base a f n scripts sched Hg Hu)). Qed.

(* the outstanding blocks are pairwise distinct and fewer than cap *)
Lemma sout_nodup cap a fc A : 0 < cap -> fc <= A -> A - fc < cap -> NoDup (map fst (sout cap a fc A)).
Proof.
  intros Hc H1 H2. unfold sout. rewrite map_map. simpl.
  remember (Z.to_nat (A - fc)) as n eqn:En.
  assert (Hn : Z.of_nat n < cap) by lia. clear En H1 H2. revert fc.
  induction n as [|n IH]; intros fc; simpl; constructor.
  - intros Hin. apply in_map_iff in Hin as (i & Ei & Hi). apply zseq_in in Hi.
    apply Z2Nat.inj in Ei; try (apply Z.mod_pos_bound; assumption).
    apply (mod_neq_range cap i fc Hc); [lia|assumption].
  - apply IH. lia.
Qed.

Corollary sowr_outstanding_distinct P cap base a f n scripts sched :
  sowr_geometry cap base -> sowr_usage a f scripts ->
  let s := sowr_run P cap base n scripts sched in
  NoDup (map fst (s_out s)) /\ s_A s - s_Fl s <= cap - 1.
Proof.
  intros Hg Hu s. pose proof (sowr_invariants P cap base a f n scripts sched Hg Hu) as [Ic Io Ir Ia Ica If Iout Id Ib It].
  fold s in Ic, Io, Ir, Ia, Ica, If, Iout, Id, Ib, It. destruct Hg as (Hc & _). split; [|lia].
  rewrite Iout. apply sout_nodup; lia.
Qed.

(* the pool keeps serving: in every reachable state (after any history, also beyond 2^32 allocations),
   when fewer than cap-1 blocks are outstanding an allocation started now by the allocator completes
   with a block within its next three steps, whatever else has happened before *)
Lemma sstep_A_mono P s t ch s' l : sstep P s t ch = Some (s', l) -> s_A s <= s_A s'.
Proof.
  unfold sstep. destruct (Nat.leb (s_n s) t); [discriminate|].
  destruct (s_pc (s_thr s t)); try discriminate;
    repeat match goal with
    | |- context [match ?x with _ => _ end] => destruct x eqn:?
    end; intros H; inversion H; subst; simpl; lia.
Qed.
Lemma exec1_A_mono P s tc : s_A s <= s_A (exec1 ssys (sstep P) s tc).
Proof.
  unfold exec1. destruct (sstep P s (fst tc) (snd tc)) as [[s' l]|] eqn:E; [|lia]. eapply sstep_A_mono; eauto.
Qed.

Theorem sowr_serves_forever_all P cap base a f n scripts sched r :
  sowr_geometry cap base -> sowr_usage a f scripts ->
  let s := sowr_run P cap base n scripts sched in
  (a < s_n s)%nat -> s_pc (s_thr s a) = SBegin -> s_script (s_thr s a) = OpAlloc :: r ->
  s_A s - s_Fl s < cap - 1 ->
  let s3 := exec ssys (sstep P) s [(a, 0); (a, 0); (a, 0)]%nat in
  s_A s + 1 <= s_A s3 /\ s_dups s3 = 0%nat /\ s_badnull s3 = 0%nat.
Proof.
  intros Hg Hu s Hn Hpc Hsc Hroom s3.
  assert (HI3 : SInv cap a f s3).
  { subst s3 s. unfold sowr_run. rewrite <- exec_app. now apply sowr_invariants. }
  split; [|split; [apply (si_dups _ _ _ _ HI3)|apply (si_badnull _ _ _ _ HI3)]].
  pose proof (sowr_invariants P cap base a f n scripts sched Hg Hu) as HI. fold s in HI.
  pose proof (si_badnull _ _ _ _ HI3) as Hb3. pose proof (si_badnull _ _ _ _ HI) as Hb0.
  assert (Hleb : Nat.leb (s_n s) a = false) by (apply Nat.leb_gt; assumption).
  unfold s3 in *. clear HI3 s3. unfold exec in *. simpl fold_left in *.
  set (s1 := exec1 ssys (sstep P) s (a, 0%nat)) in *.
  assert (E1 : (s_A s + 1 <= s_A s1) \/
               s1 = s_set_thr s a {| s_pc := SLoad (s_alloc s mod s_cap s); s_script := r |}).
  { unfold s1, exec1. simpl fst; simpl snd. unfold sstep. rewrite Hleb, Hpc, Hsc.
    destruct (negb (s_alloc s mod s_cap s =? s_cached s)); simpl; [left; lia|right; reflexivity]. }
  destruct E1 as [E1|E1].
  { pose proof (exec1_A_mono P s1 (a, 0%nat)). pose proof (exec1_A_mono P (exec1 ssys (sstep P) s1 (a, 0%nat)) (a, 0%nat)). lia. }
  set (s2 := exec1 ssys (sstep P) s1 (a, 0%nat)) in *.
  assert (E2 : s2 = s_set_thr s1 a {| s_pc := SAfter (s_alloc s mod s_cap s) (s_free s) (s_Fl s); s_script := r |}).
  { unfold s2, exec1. simpl fst; simpl snd. rewrite E1. unfold sstep. simpl. rewrite Hleb, upd_same. reflexivity. }
  revert Hb3. unfold exec1. simpl fst; simpl snd. rewrite E2, E1. unfold sstep. simpl. rewrite Hleb. rewrite !upd_same. simpl.
  destruct (negb (s_alloc s mod s_cap s =? ((s_free s - 1) mod two32) mod s_cap s)); simpl; [intros; lia|].
  rewrite Hb0. destruct (Z.eqb_spec (s_A s - s_Fl s) (s_cap s - 1)) as [E|E]; [|discriminate].
  rewrite (si_cap _ _ _ _ HI) in E. lia.
Qed.

(* non-vacuity: capacity 4, the run starts 4 allocations before the uint32 wrap of alloc_idx; the
   allocator takes blocks 0,1,2, is refused (3 = cap-1 outstanding), the freer releases block 1 (and 0),
   the allocator then takes blocks 3 and 0 across the wrap (alloc_idx = 1 afterwards) *)
Example sowr_nonvacuous_wrap :
  let scripts := fun t => match t with 0%nat => [OpAlloc; OpAlloc; OpAlloc; OpAlloc; OpAlloc; OpAlloc]
                                      | 1%nat => [OpFree 1] | _ => [] end in
  let s := sowr_run {| mo_ts_load_free := Acq; mo_ts_cas_alloc := Rlx; mo_ts_store_free := Rel; mo_spin_tas := Acq;
                       mo_spin_clear := Rel; mo_sowr_load_free := Rlx; mo_sowr_store_free := Rlx;
                       mo_ring_load_inuse := Rlx; mo_ring_store_inuse := Rlx |}
             4 (two32 - 4) 2 scripts (repeat (0, 0) 11 ++ repeat (1, 0) 5 ++ repeat (0, 0) 9)%nat in
  s_alloc s = 1 /\ s_A s = two32 + 1 /\ s_out s = [(2, 0); (3, 0); (0, 0)]%nat /\ s_dups s = 0%nat /\ s_badnull s = 0%nat.
Proof. vm_compute. repeat split; reflexivity. Qed.

(* visibility for the sowr pool: the pool has no plain data that crosses threads.  alloc_idx and
   cached_free_pos are read and written only at the program points below, and only the allocator thread
   is ever there; free_idx is accessed only through atomic operations (relaxed: it carries no view, and
   the pool hands no plain data from the freer to the allocator).  Block payloads travel through the
   caller's own channel (Appendix B) and are outside the pool. *)
Definition touches_private (x : sthread) : bool :=
  match s_pc x with
  | SLoad _ | SAfter _ _ _ => true
  | SBegin => match s_script x with OpAlloc :: _ => true | _ => false end
  | _ => false
  end.

Corollary sowr_plain_fields_private_all P cap base a f n scripts sched :
  sowr_geometry cap base -> sowr_usage a f scripts ->
  forall t, t <> a -> touches_private (s_thr (sowr_run P cap base n scripts sched) t) = false.
Proof.
  intros Hg Hu t Ht. pose proof (si_thr _ _ _ _ (sowr_invariants P cap base a f n scripts sched Hg Hu) t) as K.
  unfold sthr_ok in K. destruct K as (Ka & _ & Kp). specialize (Ka Ht). unfold touches_private.
  destruct (s_pc (s_thr _ t)); try reflexivity.
  - destruct (s_script (s_thr _ t)) as [|[| |] r]; try reflexivity. unfold has_alloc in Ka. simpl in Ka. discriminate.
  - destruct Kp as [E _]. contradiction.
  - destruct Kp as [E _]. contradiction.
Qed.
