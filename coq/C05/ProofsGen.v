(* C05 — second tie (DESIGN.md 4.4): the index arithmetic between the atomic operations of
   threadsafe_memory_pool.c, sowr_memory_pool.c and ring_memory_pool.c, sliced out of the C text of
   this run and translated to Gallina (the gen_ definitions of gen/Params_C05.v), equals reference
   functions (ref_ below) on the whole domain: every capacity the init functions accept (2^0 .. 2^31,
   a complete sweep of the 32 values lifted by pow2cap_sweep), every value of the 32-bit cursors, any
   value other threads may have stored into the atomic cells.  The model's steps (C05/Model.v) are
   expressed with the same references (model_*_ref).
   The gen = ref proofs do not depend on the SHAPE of the generated terms: everything is unfolded to
   integer arithmetic, masks become mod, every `if` is split and the leaves are decided by
   reflexivity or time-limited lia, so a behaviour-preserving rewrite of the C text keeps the
   obligations and a change of a value anywhere in the domain breaks them. *)
From MV Require Import Lib.Leaf C05.Model C05.GenLib gen.Params_C05.
From Coq Require Import ZifyBool.
Local Open Scope Z_scope.
Ltac Zify.zify_post_hook ::= Z.to_euclidean_division_equations.

(* ====================================================================== *)
(* domain: capacities                                                      *)

Definition pow2cap (cap : Z) : Prop := exists k, 0 <= k <= 31 /\ cap = 2 ^ k.
(* values of muggle_sync_t fields, locals and atomic cells *)
Definition u32 (x : Z) : Prop := 0 <= x < 4294967296.
(* ring positions: alloc_idx / free_idx / cached_free_pos of the ts pool, cached_free_pos of the sowr pool and the
   cursor of the ring pool are always masked with capacity - 1 *)
Definition pos_in (cap x : Z) : Prop := 0 <= x < cap.

Definition pow2_list : list Z :=
  [1; 2; 4; 8; 16; 32; 64; 128; 256; 512; 1024; 2048; 4096; 8192; 16384; 32768; 65536; 131072; 262144;
   524288; 1048576; 2097152; 4194304; 8388608; 16777216; 33554432; 67108864; 134217728; 268435456;
   536870912; 1073741824; 2147483648].

Lemma pow2cap_in : forall cap, pow2cap cap -> In cap pow2_list.
Proof.
  intros cap (k & Hk & ->).
  assert (E : k = Z.of_nat (Z.to_nat k)) by lia. rewrite E.
  assert (L : (Z.to_nat k < 32)%nat) by lia. clear E Hk.
  generalize dependent (Z.to_nat k). intros n L.
  do 32 (destruct n as [|n]; [vm_compute; tauto|]). lia.
Qed.

(* a complete finite sweep lifted to every capacity *)
Lemma pow2cap_sweep (P : Z -> Prop) : Forall P pow2_list -> forall cap, pow2cap cap -> P cap.
Proof. intros F cap H. rewrite Forall_forall in F. apply F. apply pow2cap_in. exact H. Qed.

Lemma pow2cap_pos cap : pow2cap cap -> 1 <= cap <= 2147483648.
Proof.
  revert cap. apply pow2cap_sweep. unfold pow2_list. repeat constructor; lia.
Qed.

Example pow2cap_8 : pow2cap 8.
Proof. exists 3. split; [lia | reflexivity]. Qed.

(* ====================================================================== *)
(* the decision tactic: shape independent                                  *)

Lemma blkidx_wide : forall w bs i cap, 32 <= w -> 0 < bs -> 0 <= i < cap -> cap * bs < 4294967296 ->
  blkidx w bs i = i.
Proof.
  intros w bs i cap Hw Hbs Hi Hc. apply (blkidx_exact w bs i cap); try lia.
  assert (2 ^ 32 <= 2 ^ w) by (apply Z.pow_le_mono_r; lia). change (2 ^ 32) with 4294967296 in H. lia.
Qed.

(* x & 0xffffffc0 on a 32-bit value *)
Lemma land_m64_32 x : 0 <= x < 4294967296 -> Z.land x 4294967232 = x - x mod 64.
Proof.
  intros H.
  replace 4294967232 with (Z.ldiff (Z.ones 32) (Z.ones 6)) by reflexivity.
  assert (E : Z.land x (Z.ldiff (Z.ones 32) (Z.ones 6)) = Z.ldiff (Z.land x (Z.ones 32)) (Z.ones 6)).
  { apply Z.bits_inj'. intros i Hi. rewrite !Z.land_spec, !Z.ldiff_spec, !Z.land_spec. apply andb_assoc. }
  rewrite E. rewrite Z.land_ones by lia. change (2 ^ 32) with 4294967296. rewrite Z.mod_small by lia.
  rewrite Z.ldiff_ones_r by lia. rewrite Z.shiftl_mul_pow2, Z.shiftr_div_pow2 by lia.
  change (2 ^ 6) with 64. pose proof (Z.div_mod x 64 ltac:(lia)). lia.
Qed.

Ltac nocond c := lazymatch c with context [if _ then _ else _] => fail | _ => idtac end.
Ltac closed_term c := tryif (match c with context [?x] => is_var x end) then fail else idtac.

(* Z.land x m with a closed mask m = 2^k - 1  ->  x mod 2^k (as a numeral) *)
Ltac norm_masks :=
  repeat match goal with
  | |- context [Z.land ?x ?m] =>
      closed_term m;
      let mv := eval vm_compute in m in
      let c := eval vm_compute in (mv + 1) in
      let k := eval vm_compute in (Z.log2 c) in
      replace (Z.land x m) with (x mod c)
        by (symmetry; change m with (Z.ones k); change c with (2 ^ k); apply Z.land_ones; lia)
  end;
  repeat match goal with
  | |- context [Z.land ?x ?m] =>
      closed_term m;
      let mv := eval vm_compute in m in
      lazymatch mv with
      | 4294967232 => change m with 4294967232; rewrite (land_m64_32 x) by (timeout 20 lia)
      end
  end.

Ltac norm_blkidx CAP :=
  repeat match goal with
  | |- context [blkidx ?w ?bs ?i] => rewrite (blkidx_wide w bs i CAP) by (timeout 20 lia)
  end.

Ltac unfold_leaf :=
  cbv beta zeta;
  unfold wrapu, Leaf.crem, cdiv, b2z, z2b, two32, u32, pos_in in *;
  change (2 ^ 32) with 4294967296 in *; change (2 ^ 64) with 18446744073709551616 in *.

Lemma lfill_ext_n : forall l n n' fi fv fi' fv', n = n' ->
  (forall i, 0 <= i < n -> fi i = fi' i /\ fv i = fv' i) -> lfill l n fi fv = lfill l n' fi' fv'.
Proof. intros; subst; apply lfill_ext; assumption. Qed.

(* ((a ^ b) & mask) == 0  and  (a ^ b) == 0 *)
Lemma land_lxor_distr a b c : Z.land (Z.lxor a b) c = Z.lxor (Z.land a c) (Z.land b c).
Proof.
  apply Z.bits_inj'. intros i Hi. rewrite Z.land_spec, !Z.lxor_spec, !Z.land_spec.
  destruct (Z.testbit a i), (Z.testbit b i), (Z.testbit c i); reflexivity.
Qed.
Lemma lxor_eqb0 a b : (Z.lxor a b =? 0) = (a =? b).
Proof.
  destruct (Z.eqb_spec a b) as [->|N].
  - rewrite Z.lxor_nilpotent. reflexivity.
  - apply Z.eqb_neq. intro H. apply N. apply Z.lxor_eq. exact H.
Qed.
Lemma lxor_mod_pow2_eqb a b k : 0 <= k -> ((Z.lxor a b) mod 2 ^ k =? 0) = (a mod 2 ^ k =? b mod 2 ^ k).
Proof.
  intros Hk. rewrite <- !Z.land_ones by lia. rewrite land_lxor_distr. apply lxor_eqb0.
Qed.
Ltac norm_xor :=
  repeat match goal with
  | |- context [(Z.lxor ?a ?b) mod ?c =? 0] =>
      closed_term c;
      let k := eval vm_compute in (Z.log2 c) in
      replace ((Z.lxor a b) mod c =? 0) with (a mod c =? b mod c)
        by (symmetry; change c with (2 ^ k); apply lxor_mod_pow2_eqb; lia)
  | |- context [Z.lxor ?a ?b =? 0] => rewrite (lxor_eqb0 a b)
  end.

(* (x mod n) mod n, and x mod n for a variable x known to be below n *)
Ltac norm_mod :=
  repeat rewrite Z.mod_mod by (timeout 10 lia);
  repeat match goal with
  | |- context [?x mod ?m] => is_var x; rewrite (Z.mod_small x m) by (timeout 10 lia)
  end.

(* x % c and x / c on non-negative values *)
Ltac norm_rem :=
  repeat match goal with
  | |- context [Z.rem ?x ?c] => rewrite (Z.rem_mod_nonneg x c) by (timeout 20 lia)
  | |- context [Z.quot ?x ?c] => rewrite (Z.quot_div_nonneg x c) by (timeout 20 lia)
  end.

Ltac leaf_arith := first [ reflexivity | timeout 30 lia ].
Ltac split_eq :=
  repeat match goal with
  | |- ?x = ?x => reflexivity
  | |- (_, _) = (_, _) => apply f_equal2
  | |- lset _ _ _ = lset _ _ _ => apply (f_equal3 lset)
  | |- blkidx _ _ _ = blkidx _ _ _ => apply (f_equal3 blkidx)
  | |- lfill ?l _ _ _ = lfill ?l _ _ _ =>
      apply lfill_ext_n; [ | let i := fresh "i" in let Hi := fresh "Hi" in intros i Hi; split; cbv beta ]
  end.

(* comparison atoms first: negb / && / || then compute *)
Ltac split_ifs :=
  repeat match goal with
  | |- context [if ?c then _ else _] =>
      nocond c;
      first [ closed_term c;
              let v := eval vm_compute in c in
              lazymatch v with
              | true => change c with true
              | false => change c with false
              end
            | match c with
              | context [?a =? ?b] => destruct (a =? b) eqn:?
              | context [?a <=? ?b] => destruct (a <=? b) eqn:?
              | context [?a <? ?b] => destruct (a <? b) eqn:?
              | context [?a >=? ?b] => destruct (a >=? b) eqn:?
              | context [?a >? ?b] => destruct (a >? b) eqn:?
              end
            | destruct c eqn:? ];
      cbn [negb andb orb]; cbv beta iota
  end.

Ltac norm_fill := repeat rewrite lfill_lfill_same.
Ltac finish := norm_fill; first [ reflexivity | solve [exfalso; timeout 30 lia] | solve [split_eq; leaf_arith] ].
Ltac decide_with CAP := unfold_leaf; norm_masks; norm_xor; norm_rem; norm_mod; norm_blkidx CAP; split_ifs; finish.

(* the sweep: one goal per capacity, the capacity a numeral *)
Ltac sweep tac :=
  let cap := fresh "cap" in let H := fresh "Hcap" in
  intros cap H; pattern cap; apply pow2cap_sweep; [ clear cap H | exact H ];
  unfold pow2_list;
  repeat (apply Forall_cons; [ intros; timeout 900 tac | ]); apply Forall_nil.

(* block size / capacity pairs whose data area fits the 32-bit size arithmetic of the code *)
Definition fits (cap bs : Z) : Prop := 0 < bs /\ cap * bs < 4294967296.
Ltac with_fits tac :=
  lazymatch goal with
  | H : fits ?c ?bs |- _ => let H1 := fresh in let H2 := fresh in destruct H as [H1 H2]; tac c
  end.

(* ====================================================================== *)
(* reference functions                                                     *)

(* (x + 1) & (cap - 1) on uint32: alloc / free position of the ts pool, cursor advance of the ring pool *)
Definition ring_next (cap x : Z) : Z := ((x + 1) mod two32) mod cap.

(* ---- ts pool ---- *)
(* one iteration of the allocation loop up to its CAS, with expected = e and ld the value the atomic
   load of free_idx returns (if executed): either NULL is returned with cached_free_pos = c', or the
   CAS is reached with alloc_pos p, cached_free_pos = c' and the block d read from ptrs[e] *)
Definition ts_iter {A} (cap cached e ld : Z) (ptrs : list Z) (knull : Z -> A) (kcas : Z -> Z -> Z -> A) : A :=
  let p := ring_next cap e in
  if p =? cached then (if p =? ld then knull ld else kcas p ld (lget ptrs e))
  else kcas p cached (lget ptrs e).
(* weak compare-exchange on alloc_idx: cur = value of the cell, spur <> 0 = spurious failure *)
Definition cas_ok (cur spur e : Z) : bool := (cur =? e) && (spur =? 0).
(* two iterations; result: 0 = NULL, b + 1 = block b, -1 = a third iteration starts *)
Definition ref_ts_alloc (a bs c cap f : Z) (ptrs : list Z) (ld1 ld2 cur1 spur1 cur2 spur2 : Z) :=
  ts_iter cap c a ld1 ptrs
    (fun c1 => (0, a, bs, c1, cap, f, ptrs))
    (fun p1 c1 d1 =>
       if cas_ok cur1 spur1 a then (d1 + 1, p1, bs, c1, cap, f, ptrs)
       else ts_iter cap c1 cur1 ld2 ptrs
              (fun c2 => (0, a, bs, c2, cap, f, ptrs))
              (fun p2 c2 d2 =>
                 if cas_ok cur2 spur2 cur1 then (d2 + 1, p2, bs, c2, cap, f, ptrs)
                 else (-1, a, bs, c2, cap, f, ptrs))).
Definition ref_ts_free (a bs c cap f : Z) (ptrs : list Z) (b : Z) :=
  (0, a, bs, c, cap, ring_next cap f, lset ptrs f b).

(* ---- sowr pool ---- *)
Definition sowr_pos (cap a : Z) : Z := a mod cap.                              (* alloc_idx & (cap - 1) *)
Definition sowr_bound (cap ld : Z) : Z := ((ld - 1) mod two32) mod cap.       (* (free_idx - 1) & (cap - 1) *)
Definition ref_sowr_alloc (a bs c cap f : Z) (hb : list Z) (ld : Z) :=
  let pos := sowr_pos cap a in
  if negb (pos =? c) then (pos + 1, (a + 1) mod two32, bs, c, cap, f, hb)
  else let c' := sowr_bound cap ld in
       if negb (pos =? c') then (pos + 1, (a + 1) mod two32, bs, c', cap, f, hb)
       else (0, a, bs, c', cap, f, hb).
(* free_idx = block_idx + 1 *)
Definition ref_sowr_free (a bs c cap f : Z) (hb : list Z) (b : Z) :=
  (0, a, bs, c, cap, (lget hb b + 1) mod two32, hb).

(* ---- ring pool ---- *)
Definition ref_ring_alloc (a bs cap : Z) (hb hu : list Z) (ld1 ld2 : Z) :=
  let a1 := ring_next cap a in
  if ld1 =? 0 then (a + 1, a1, bs, cap, hb, lset hu a 1)
  else let a2 := ring_next cap a1 in
       if ld2 =? 0 then (a1 + 1, a2, bs, cap, hb, lset hu a1 1)
       else (-1, ring_next cap a2, bs, cap, hb, hu).    (* the third load: the cursor has moved a third time *)
Definition ref_ring_free (a bs cap : Z) (hb hu : list Z) (b : Z) := (0, a, bs, cap, hb, lset hu b 0).

(* ====================================================================== *)
(* generated = reference                                                   *)

Lemma gen_ts_alloc_ref : forall cap, pow2cap cap -> forall a bs c f ptrs ld1 ld2 cur1 spur1 cur2 spur2,
  pos_in cap a -> pos_in cap c -> pos_in cap ld1 -> pos_in cap ld2 -> pos_in cap cur1 -> pos_in cap cur2 ->
  gen_ts_alloc a bs c cap f ptrs ld1 ld2 cur1 spur1 cur2 spur2 =
  ref_ts_alloc a bs c cap f ptrs ld1 ld2 cur1 spur1 cur2 spur2.
Proof.
  Time sweep ltac:(unfold gen_ts_alloc, ref_ts_alloc, ts_iter, cas_ok, ring_next; decide_with 0).
Qed.

Lemma gen_ts_free_ref : forall cap, pow2cap cap -> forall a bs c f ptrs b, pos_in cap f ->
  gen_ts_free a bs c cap f ptrs b = ref_ts_free a bs c cap f ptrs b.
Proof.
  Time sweep ltac:(unfold gen_ts_free, ref_ts_free, ring_next; decide_with 0).
Qed.

Lemma gen_sowr_alloc_ref : forall cap, pow2cap cap -> forall a bs c f hb ld, fits cap bs ->
  u32 a -> pos_in cap c -> u32 ld ->
  gen_sowr_alloc a bs c cap f hb ld = ref_sowr_alloc a bs c cap f hb ld.
Proof.
  Time sweep ltac:(unfold gen_sowr_alloc, ref_sowr_alloc, sowr_pos, sowr_bound; with_fits decide_with).
Qed.

Lemma gen_sowr_free_ref : forall a bs c cap f hb b, u32 (lget hb b) ->
  gen_sowr_free a bs c cap f hb b = ref_sowr_free a bs c cap f hb b.
Proof.
  intros. unfold gen_sowr_free, ref_sowr_free. decide_with 0.
Qed.

Lemma gen_ring_alloc_ref : forall cap, pow2cap cap -> forall a bs hb hu ld1 ld2, fits cap bs -> 0 <= a < cap ->
  gen_ring_alloc a bs cap hb hu ld1 ld2 = ref_ring_alloc a bs cap hb hu ld1 ld2 /\
  gen_ring_ts_alloc a bs cap hb hu ld1 ld2 = ref_ring_alloc a bs cap hb hu ld1 ld2.
Proof.
  Time sweep ltac:(split; unfold gen_ring_alloc, gen_ring_ts_alloc, ref_ring_alloc, ring_next; with_fits decide_with).
Qed.

Lemma gen_ring_free_ref : forall a bs cap hb hu b,
  gen_ring_free a bs cap hb hu b = ref_ring_free a bs cap hb hu b.
Proof.
  intros. unfold gen_ring_free, ref_ring_free. decide_with 0.
Qed.

(* ====================================================================== *)
(* model = reference: the steps of C05/Model.v that carry index arithmetic, expressed with the
   same reference functions (nat-valued fields of the ts / ring models are embedded with zn)      *)

Lemma zn_eqb a b : (zn a =? zn b) = Nat.eqb a b.
Proof.
  unfold zn. destruct (Nat.eqb_spec a b), (Z.eqb_spec (Z.of_nat a) (Z.of_nat b)); try reflexivity; lia.
Qed.
Lemma to_nat_zn n : Z.to_nat (zn n) = n.
Proof. unfold zn. apply Nat2Z.id. Qed.

Lemma zn_ring_next cap e : (0 < cap)%nat -> zn cap <= 2147483648 -> (e < cap)%nat ->
  zn (Nat.modulo (e + 1) cap) = ring_next (zn cap) (zn e).
Proof.
  intros Hc Hb He. unfold ring_next, zn, two32 in *.
  rewrite Nat2Z.inj_mod, Nat2Z.inj_add. change (Z.of_nat 1) with 1.
  rewrite (Z.mod_small (Z.of_nat e + 1) 4294967296) by lia. reflexivity.
Qed.

(* geometry of a model state: capacity accepted by init, cursors inside the ring *)
Definition ts_geom (s : tsys) : Prop :=
  (0 < t_cap s)%nat /\ zn (t_cap s) <= 2147483648 /\ (t_alloc s < t_cap s)%nat /\ (t_free s < t_cap s)%nat.
Definition ring_geom (s : rsys) : Prop :=
  (0 < r_cap s)%nat /\ zn (r_cap s) <= 2147483648 /\ (r_cursor s < r_cap s)%nat.

(* ---- ts pool ---- *)
(* the plain segment that starts a loop iteration (entry: e = alloc_idx; retry: e = the value the failed
   CAS observed): alloc_pos and the first exhaustion test *)
Lemma model_ts_segA_ref s t x e ve notes :
  (0 < t_cap s)%nat -> zn (t_cap s) <= 2147483648 -> (e < t_cap s)%nat ->
  let p := ring_next (zn (t_cap s)) (zn e) in
  t_pc (t_thr (fst (t_segA s t x e ve notes)) t) =
  if p =? zn (t_cached s) then ALoad e (Z.to_nat p) ve
  else ACas e (Z.to_nat p) (t_ptrs s e) ve (t_A s) (t_cver s).
Proof.
  intros Hc Hb He p. subst p. rewrite <- (zn_ring_next _ _ Hc Hb He). rewrite zn_eqb, to_nat_zn.
  unfold t_segA. destruct (Nat.eqb (Nat.modulo (e + 1) (t_cap s)) (t_cached s)); simpl; rewrite upd_same; reflexivity.
Qed.

(* the plain segment after the load of free_idx: cached_free_pos := loaded value, second exhaustion test *)
Lemma model_ts_after_ref P s t ch e p v ve vl gf :
  (t < t_n s)%nat -> t_pc (t_thr s t) = AAfter e p v ve vl gf ->
  exists s' l, tstep P s t ch = Some (s', l) /\ t_cached s' = v /\ t_alloc s' = t_alloc s /\
    (if zn p =? zn v then l = LPlain [(n_null, zn (length (t_out s)))]
     else exists vc, t_pc (t_thr s' t) = ACas e p (t_ptrs s e) ve (t_A s) vc).
Proof.
  intros Ht Hpc. unfold tstep. rewrite Hpc.
  replace (Nat.leb (t_n s) t) with false by (symmetry; apply Nat.leb_gt; lia).
  rewrite zn_eqb. destruct (Nat.eqb p v); eexists; eexists; (split; [reflexivity|]); simpl;
    (split; [reflexivity|]); (split; [reflexivity|]); [reflexivity|].
  eexists. rewrite upd_same. reflexivity.
Qed.

(* the weak CAS on alloc_idx: succeeds iff the cell still holds expected and the schedule does not make it
   fail spuriously (choice 1); then alloc_idx := alloc_pos; otherwise the loop restarts with the value seen *)
Lemma model_ts_cas_ref P s t ch e p d ve va vc :
  (t < t_n s)%nat -> t_pc (t_thr s t) = ACas e p d ve va vc ->
  exists s' l, tstep P s t ch = Some (s', l) /\
    (if cas_ok (zn (t_alloc s)) (zn (b2n (Nat.eqb ch 1))) (zn e)
     then t_alloc s' = p /\ t_pc (t_thr s' t) = ARet d
     else t_alloc s' = t_alloc s /\ exists ve', t_pc (t_thr s' t) = ARetry (t_alloc s) ve').
Proof.
  intros Ht Hpc. unfold tstep. rewrite Hpc.
  replace (Nat.leb (t_n s) t) with false by (symmetry; apply Nat.leb_gt; lia).
  unfold cas_ok. rewrite zn_eqb.
  destruct (Nat.eqb_spec (t_alloc s) e) as [E|E].
  - destruct (Nat.eqb ch 1); simpl; eexists; eexists; (split; [reflexivity|]); simpl; rewrite upd_same.
    + split; [reflexivity|]. subst e. eexists; reflexivity.
    + split; reflexivity.
  - simpl. eexists; eexists; (split; [reflexivity|]); simpl; rewrite upd_same. split; [reflexivity|]. eexists; reflexivity.
Qed.

(* free: ptrs[free_idx] := block under the lock, then free_idx := (free_idx + 1) & (cap - 1) *)
Lemma model_ts_free_ref P s t ch b :
  ts_geom s -> (t < t_n s)%nat -> t_pc (t_thr s t) = FWrite b ->
  exists s' l, tstep P s t ch = Some (s', l) /\ t_ptrs s' = upd (t_ptrs s) (t_free s) b /\
    t_pc (t_thr s' t) = FStore (Z.to_nat (ring_next (zn (t_cap s)) (zn (t_free s)))).
Proof.
  intros (Hc & Hb & Ha & Hf) Ht Hpc. unfold tstep. rewrite Hpc.
  replace (Nat.leb (t_n s) t) with false by (symmetry; apply Nat.leb_gt; lia).
  eexists; eexists; split; [reflexivity|]. simpl. rewrite upd_same. split; [reflexivity|].
  rewrite <- (zn_ring_next _ _ Hc Hb Hf), to_nat_zn. reflexivity.
Qed.
Lemma model_ts_store_ref P s t ch pos :
  (t < t_n s)%nat -> t_pc (t_thr s t) = FStore pos ->
  exists s' l, tstep P s t ch = Some (s', l) /\ t_free s' = pos /\ t_ptrs s' = t_ptrs s.
Proof.
  intros Ht Hpc. unfold tstep. rewrite Hpc.
  replace (Nat.leb (t_n s) t) with false by (symmetry; apply Nat.leb_gt; lia).
  eexists; eexists; split; [reflexivity|]. simpl. split; reflexivity.
Qed.

(* ---- sowr pool (the model's cursors are Z already) ---- *)
(* alloc, fast path: position = alloc_idx & (cap - 1), test against the cached bound, ++alloc_idx (uint32) *)
Lemma model_sowr_begin_ref P s t ch r :
  (t < s_n s)%nat -> s_pc (s_thr s t) = SBegin -> s_script (s_thr s t) = OpAlloc :: r ->
  exists s' l, sstep P s t ch = Some (s', l) /\
    (if negb (sowr_pos (s_cap s) (s_alloc s) =? s_cached s)
     then s_alloc s' = (s_alloc s + 1) mod two32 /\ s_cached s' = s_cached s /\
          l = LPlain ([(n_call, 0)] ++ ret_notes (s_out s) (Z.to_nat (sowr_pos (s_cap s) (s_alloc s))))
     else s_alloc s' = s_alloc s /\ s_pc (s_thr s' t) = SLoad (sowr_pos (s_cap s) (s_alloc s))).
Proof.
  intros Ht Hpc Hsc. unfold sstep. rewrite Hpc, Hsc.
  replace (Nat.leb (s_n s) t) with false by (symmetry; apply Nat.leb_gt; lia).
  unfold sowr_pos. destruct (negb (s_alloc s mod s_cap s =? s_cached s)); eexists; eexists; (split; [reflexivity|]); simpl.
  - repeat split; reflexivity.
  - rewrite upd_same. split; reflexivity.
Qed.
(* alloc, slow path after the load: cached := (free_idx - 1) & (cap - 1) on uint32, second test *)
Lemma model_sowr_after_ref P s t ch pos v fl :
  (t < s_n s)%nat -> s_pc (s_thr s t) = SAfter pos v fl ->
  exists s' l, sstep P s t ch = Some (s', l) /\ s_cached s' = sowr_bound (s_cap s) v /\
    (if negb (pos =? sowr_bound (s_cap s) v)
     then s_alloc s' = (s_alloc s + 1) mod two32 /\ l = LPlain ([] ++ ret_notes (s_out s) (Z.to_nat pos))
     else s_alloc s' = s_alloc s /\ l = LPlain [(n_null, zn (length (s_out s)))]).
Proof.
  intros Ht Hpc. unfold sstep. rewrite Hpc.
  replace (Nat.leb (s_n s) t) with false by (symmetry; apply Nat.leb_gt; lia).
  unfold sowr_bound. destruct (negb (pos =? ((v - 1) mod two32) mod s_cap s)); eexists; eexists; (split; [reflexivity|]); simpl;
    repeat split; reflexivity.
Qed.
(* free: free_idx := block_idx + 1 *)
Lemma model_sowr_store_ref P s t ch b fc :
  (t < s_n s)%nat -> s_pc (s_thr s t) = SStore b fc ->
  exists s' l, sstep P s t ch = Some (s', l) /\ s_free s' = Z.of_nat b + 1 /\
    l = LEv (Ev OStore cell_free (mo_sowr_store_free P) (Z.of_nat b + 1) 0 0).
Proof.
  intros Ht Hpc. unfold sstep. rewrite Hpc.
  replace (Nat.leb (s_n s) t) with false by (symmetry; apply Nat.leb_gt; lia).
  eexists; eexists; split; [reflexivity|]. simpl. split; reflexivity.
Qed.

(* ---- ring pool ---- *)
(* block = blocks + alloc_idx; alloc_idx := (alloc_idx + 1) & (cap - 1); next: load block->in_use *)
Lemma model_ring_body_ref s t sc notes :
  ring_geom s ->
  r_cursor (fst (r_body s t sc notes)) = Z.to_nat (ring_next (zn (r_cap s)) (zn (r_cursor s))) /\
  r_pc (r_thr (fst (r_body s t sc notes)) t) = RLoad (r_cursor s).
Proof.
  intros (Hc & Hb & Ha). unfold r_body. simpl. rewrite upd_same. split; [|reflexivity].
  rewrite <- (zn_ring_next _ _ Hc Hb Ha), to_nat_zn. reflexivity.
Qed.
(* the in_use test: 0 -> mark and return this block; otherwise advance to the next block (no bound on the scan) *)
Lemma model_ring_after_ref P s t ch blk v :
  (t < r_n s)%nat -> r_pc (r_thr s t) = RAfter blk v ->
  exists s' l, rstep P s t ch = Some (s', l) /\
    (if zn v =? 0 then r_inuse s' = upd (r_inuse s) blk 1%nat /\ r_cursor s' = r_cursor s
     else s' = fst (r_body s t (r_script (r_thr s t)) []) ).
Proof.
  intros Ht Hpc. unfold rstep. rewrite Hpc.
  replace (Nat.leb (r_n s) t) with false by (symmetry; apply Nat.leb_gt; lia).
  destruct v as [|v]; simpl.
  - destruct (r_locked s); eexists; eexists; (split; [reflexivity|]); simpl; split; reflexivity.
  - eexists; eexists; split; [reflexivity|]. reflexivity.
Qed.
Lemma model_ring_store_ref P s t ch b :
  (t < r_n s)%nat -> r_pc (r_thr s t) = RStore b ->
  exists s' l, rstep P s t ch = Some (s', l) /\ r_inuse s' = upd (r_inuse s) b 0%nat /\ r_cursor s' = r_cursor s.
Proof.
  intros Ht Hpc. unfold rstep. rewrite Hpc.
  replace (Nat.leb (r_n s) t) with false by (symmetry; apply Nat.leb_gt; lia).
  eexists; eexists; split; [reflexivity|]. simpl. split; reflexivity.
Qed.
