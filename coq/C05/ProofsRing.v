(* C05 — ring pool: with serialised allocations (threadsafe_alloc by any number of threads, or plain
   alloc by a single thread a) and frees from any thread, no block is handed out while outstanding
   (all schedules, any capacity, any number of threads). *)
From MV Require Import C05.Model.

Definition in_body (p : rpc) : bool :=
  match p with RBody | RLoad _ | RAfter _ _ | RUnlock _ => true | _ => false end.
Definition at_lock (p : rpc) : bool :=
  match p with RLock | RSpin1 | RYieldE | RSpin2 => true | _ => false end.
(* a block the thread holds outside the ownership list: marked in use but not yet returned, or
   taken from the list but its in_use flag not yet cleared *)
Definition held (p : rpc) : option nat :=
  match p with RUnlock b | RRet b | RStore b => Some b | _ => None end.

Lemma some_pair_inv {A B} (a c : A) (b d : B) : Some (a, b) = Some (c, d) -> a = c /\ b = d.
Proof. intros H; inversion H; auto. Qed.

Lemma owned_in_iff d (out : olist) : owned_in d out = true <-> In d (map fst out).
Proof.
  unfold owned_in. rewrite existsb_exists. split.
  - intros (x & Hx & E). apply Nat.eqb_eq in E. subst. now apply in_map.
  - intros H. apply in_map_iff in H as (x & E & Hx). exists x. split; [assumption|]. now apply Nat.eqb_eq.
Qed.
Lemma owned_in_false_iff d (out : olist) : owned_in d out = false <-> ~ In d (map fst out).
Proof. rewrite <- owned_in_iff. destruct (owned_in d out); split; congruence. Qed.

Lemma remove_nth_in {A} (j : nat) (l : list A) x : In x (remove_nth j l) -> In x l.
Proof.
  revert j; induction l as [|y r IH]; intros j H; [destruct j; exact H|].
  destruct j; simpl in *; [now right|]. destruct H as [H|H]; [now left|right; eauto].
Qed.
Lemma remove_nth_map {A B} (g : A -> B) j l : map g (remove_nth j l) = remove_nth j (map g l).
Proof. revert j; induction l as [|y r IH]; intros j; [destruct j; reflexivity|]. destruct j; simpl; [reflexivity|]. now rewrite IH. Qed.
Lemma remove_nth_nodup {A} (j : nat) (l : list A) d : NoDup l -> (j < length l)%nat ->
  NoDup (remove_nth j l) /\ ~ In (nth j l d) (remove_nth j l).
Proof.
  revert j; induction l as [|y r IH]; intros j Hnd Hj; [simpl in Hj; lia|].
  inversion Hnd as [|? ? Hy Hr]; subst. destruct j as [|j]; simpl in *.
  - split; assumption.
  - destruct (IH j Hr ltac:(lia)) as [I1 I2]. split.
    + constructor; [|assumption]. intros H. apply Hy. eapply remove_nth_in; eauto.
    + intros [H|H]; [|contradiction]. apply Hy. rewrite H. apply nth_In. lia.
Qed.

Lemma NoDup_app_one {A} (l : list A) x : NoDup l -> ~ In x l -> NoDup (l ++ [x]).
Proof.
  induction l as [|y r IH]; intros Hn Hx; simpl.
  - constructor; [intros []|constructor].
  - inversion Hn; subst. constructor.
    + rewrite in_app_iff. simpl. intros [K|[K|[]]]; [contradiction|]. subst. apply Hx. now left.
    + apply IH; [assumption|]. intros K. apply Hx. now right.
Qed.

Lemma pick_pos_lt t o (out : olist) j : pick_pos t o out = Some j -> (j < length out)%nat.
Proof.
  destruct o as [|k|k]; simpl; [discriminate| |].
  - destruct out as [|x r]; [discriminate|]. intros H.
    assert (E : j = Nat.modulo k (length (x :: r))) by congruence. subst j.
    apply Nat.mod_upper_bound. simpl; lia.
  - assert (Hidx : forall l i x, In x (own_idx t l i) -> (i <= x < i + length l)%nat).
    { induction l as [|y r IH]; intros i x Hx; simpl in *; [contradiction|].
      destruct (Nat.eqb (snd y) t); [destruct Hx as [<-|Hx]; [lia|]|]; apply IH in Hx; lia. }
    destruct (own_idx t out 0) as [|i0 idx] eqn:E; [discriminate|]. intros H.
    assert (Ej : j = nth (Nat.modulo k (length (i0 :: idx))) (i0 :: idx) 0%nat) by congruence.
    assert (Hin : In j (own_idx t out 0)).
    { rewrite E, Ej. apply nth_In. apply Nat.mod_upper_bound. simpl; lia. }
    apply Hidx in Hin. lia.
Qed.

Section Ring.
  Variable a : nat.     (* the allocating thread when allocations are not locked *)

  Record RInv (s : rsys) : Prop := {
    ri_body1 : forall t u, in_body (r_pc (r_thr s t)) = true -> in_body (r_pc (r_thr s u)) = true -> t = u;
    ri_lock : r_locked s = true -> r_lock s = false -> forall t, in_body (r_pc (r_thr s t)) = false;
    ri_unl : r_locked s = false -> forall t,
             at_lock (r_pc (r_thr s t)) = false /\
             (t <> a -> has_alloc (r_script (r_thr s t)) = false /\ in_body (r_pc (r_thr s t)) = false);
    ri_held : forall t b, held (r_pc (r_thr s t)) = Some b -> r_inuse s b = 1%nat /\ ~ In b (map fst (r_out s));
    ri_held1 : forall t u b, held (r_pc (r_thr s t)) = Some b -> held (r_pc (r_thr s u)) = Some b -> t = u;
    ri_out : forall b, In b (map fst (r_out s)) -> r_inuse s b = 1%nat;
    ri_nodup : NoDup (map fst (r_out s));
    ri_after : forall t blk, r_pc (r_thr s t) = RAfter blk 0 -> r_inuse s blk = 0%nat;
    ri_dups : r_dups s = 0%nat;
  }.

  Lemma rinit_inv cap n locked scripts :
    (locked = false -> forall t, t <> a -> has_alloc (scripts t) = false) -> RInv (rinit cap n locked scripts).
  Proof.
    intros H. constructor; simpl.
    - intros; discriminate.
    - intros; reflexivity.
    - intros L t. split; [reflexivity|]. intros N. split; [auto|reflexivity].
    - intros; discriminate.
    - intros; discriminate.
    - intros b [].
    - constructor.
    - intros; discriminate.
    - reflexivity.
  Qed.

  Ltac rupd := simpl in *; repeat (match goal with
    | H : context [upd (r_thr _) ?t _ ?u] |- _ => unfold upd in H; destruct (Nat.eqb_spec u t); subst
    | |- context [upd (r_thr _) ?t _ ?u] => unfold upd; destruct (Nat.eqb_spec u t); subst
    end; simpl in * ); unfold upd in *.

  Lemma has_alloc_tl o r : has_alloc (o :: r) = false -> has_alloc r = false.
  Proof. unfold has_alloc; simpl. destruct o; simpl; intros; congruence. Qed.

  (* a step that changes only the stepping thread, between program points that are outside the
     allocation body, hold no block and are not RAfter *)
  Lemma neutral_step s t p sc :
    RInv s ->
    in_body (r_pc (r_thr s t)) = false -> held (r_pc (r_thr s t)) = None ->
    in_body p = false -> held p = None -> (at_lock p = true -> at_lock (r_pc (r_thr s t)) = true \/ r_locked s = true) ->
    (has_alloc (r_script (r_thr s t)) = false -> has_alloc sc = false) ->
    RInv (r_set_thr s t {| r_pc := p; r_script := sc |}).
  Proof.
    intros [B1 BL BU H1 H2 O1 O2 A1 D] Hb Hh Pb Ph Pl Psc.
    constructor; simpl; try assumption.
    - intros x y Hx Hy. rupd; try congruence. now apply B1.
    - intros L1 L2 x. rupd; [assumption|]. now apply BL.
    - intros L x. destruct (BU L x) as [U1 U2]. rupd; [|split; assumption].
      split.
      + destruct (at_lock p) eqn:E; [|reflexivity]. destruct (Pl eq_refl) as [K|K]; congruence.
      + intros N. destruct (U2 N) as [U3 U4]. split; [now apply Psc|assumption].
    - intros x b Hx. rupd; [congruence|]. eapply H1; eauto.
    - intros x y b Hx Hy. rupd; try congruence. eapply H2; eauto.
    - intros x blk Hx. rupd.
      + subst p. discriminate.
      + eapply A1; eauto.
  Qed.

  (* the harness takes the returned block blk (held by t at a program point outside the body) *)
  Lemma ret_step s t blk sc :
    RInv s -> held (r_pc (r_thr s t)) = Some blk -> in_body (r_pc (r_thr s t)) = false ->
    (has_alloc (r_script (r_thr s t)) = false -> has_alloc sc = false) ->
    RInv (fst (r_ret s t blk sc)).
  Proof.
    intros [B1 BL BU H1 H2 O1 O2 A1 D] Hh Hb Psc.
    destruct (H1 t blk Hh) as [Hu Hn].
    assert (Hf : owned_in blk (r_out s) = false) by (now apply owned_in_false_iff).
    unfold r_ret, ret_out, ret_dups. rewrite Hf. simpl.
    assert (Hnx : in_body (nxt_r sc) = false /\ held (nxt_r sc) = None /\ at_lock (nxt_r sc) = false /\
                  forall b, nxt_r sc <> RAfter b 0).
    { unfold nxt_r. destruct (nxt_is_fin sc); repeat split; intros; discriminate. }
    destruct Hnx as (N1 & N2 & N3 & N4).
    constructor; simpl; try assumption.
    - intros x y Hx Hy. rupd; try congruence. now apply B1.
    - intros L1 L2 x. rupd; [assumption|]. now apply BL.
    - intros L x. destruct (BU L x) as [U1 U2]. rupd; [|split; assumption].
      split; [assumption|]. intros N. destruct (U2 N) as [U3 U4]. split; [now apply Psc|assumption].
    - intros x b Hx. rewrite map_app, in_app_iff. simpl. rupd; [congruence|].
      destruct (H1 x b Hx) as [K1 K2]. split; [assumption|]. intros [K|[K|[]]]; [contradiction|].
      subst b. apply n. eapply H2; eauto.
    - intros x y b Hx Hy. rupd; try congruence. eapply H2; eauto.
    - intros b. rewrite map_app, in_app_iff. simpl. intros [K|[K|[]]]; [now apply O1|now subst].
    - rewrite map_app. simpl. apply NoDup_app_one; assumption.
    - intros x b Hx. rupd; [exfalso; eapply N4; eauto|]. eapply A1; eauto.
  Qed.

  Lemma body_move s t p sc :
    RInv s ->
    (forall u, u <> t -> in_body (r_pc (r_thr s u)) = false) ->
    (r_locked s = true -> r_lock s = true) -> (r_locked s = false -> t = a) ->
    in_body p = true -> held p = None -> at_lock p = false ->
    (forall blk, p = RAfter blk 0 -> r_inuse s blk = 0%nat) ->
    (has_alloc (r_script (r_thr s t)) = false -> has_alloc sc = false) ->
    RInv (r_set_thr s t {| r_pc := p; r_script := sc |}).
  Proof.
    intros [B1 BL BU H1 H2 O1 O2 A1 D] Hoth Hlk Hunl Pb Ph Pl Pa Psc.
    constructor; simpl; try assumption.
    - intros x y Hx Hy. rupd; try congruence;
        try (rewrite Hoth in Hy by assumption; discriminate); try (rewrite Hoth in Hx by assumption; discriminate); try (now apply B1).
    - intros L1 L2. rewrite (Hlk L1) in L2. discriminate.
    - intros L x. destruct (BU L x) as [U1 U2]. rupd; [|split; assumption].
      split; [assumption|]. intros N. exfalso. apply N. now apply Hunl.
    - intros x b Hx. rupd; [congruence|]. eapply H1; eauto.
    - intros x y b Hx Hy. rupd; try congruence. eapply H2; eauto.
    - intros x blk Hx. rupd; [now apply Pa|]. eapply A1; eauto.
  Qed.

  Lemma lock_acquire s t sc :
    RInv s -> at_lock (r_pc (r_thr s t)) = true ->
    (has_alloc (r_script (r_thr s t)) = false -> has_alloc sc = false) ->
    RInv (r_set_thr (r_set_lock s true) t {| r_pc := if r_lock s then RSpin1 else RBody; r_script := sc |}).
  Proof.
    intros [B1 BL BU H1 H2 O1 O2 A1 D] Hl Psc.
    assert (Lk : r_locked s = true).
    { destruct (r_locked s) eqn:E; [reflexivity|]. destruct (BU eq_refl t) as [U1 _]. congruence. }
    assert (Hb : in_body (r_pc (r_thr s t)) = false) by (destruct (r_pc (r_thr s t)); simpl in *; congruence).
    assert (Hh : held (r_pc (r_thr s t)) = None) by (destruct (r_pc (r_thr s t)); simpl in *; congruence).
    constructor; simpl; try assumption.
    - intros x y Hx Hy. rupd; try congruence;
        try (destruct (r_lock s) eqn:E; simpl in *; [discriminate|];
             match goal with H : in_body (r_pc (r_thr s ?z)) = true |- _ => first [rewrite (BL Lk E z) in H | rewrite (BL Lk eq_refl z) in H]; discriminate end);
        try (now apply B1).
    - intros _ K. discriminate.
    - intros L. congruence.
    - intros x b Hx. rupd; [destruct (r_lock s); simpl in *; discriminate|]. eapply H1; eauto.
    - intros x y b Hx Hy. rupd; try (destruct (r_lock s); simpl in *; discriminate). eapply H2; eauto.
    - intros x blk Hx. rupd; [destruct (r_lock s); simpl in *; discriminate|]. eapply A1; eauto.
  Qed.

  Lemma mark_step s t blk p sc :
    RInv s -> r_pc (r_thr s t) = RAfter blk 0 -> held p = Some blk -> at_lock p = false ->
    (in_body p = false -> r_locked s = false) ->
    (has_alloc (r_script (r_thr s t)) = false -> has_alloc sc = false) ->
    RInv (r_set_thr (r_set_inuse s (upd (r_inuse s) blk 1%nat)) t {| r_pc := p; r_script := sc |}).
  Proof.
    intros [B1 BL BU H1 H2 O1 O2 A1 D] Hpc Ph Pl Pb Psc.
    pose proof (A1 t blk Hpc) as Hz.
    assert (Hbody : in_body (r_pc (r_thr s t)) = true) by (rewrite Hpc; reflexivity).
    assert (Hp : forall b, p = RAfter b 0 -> False) by (intros b E; subst p; discriminate).
    constructor; simpl; try assumption.
    - intros x y Hx Hy. rupd; try congruence; first [now apply B1 | symmetry; now apply B1].
    - intros L1 L2 x. rewrite (BL L1 L2 t) in Hbody. discriminate.
    - intros L x. destruct (BU L x) as [U1 U2]. rupd; [|split; assumption].
      split; [assumption|]. intros N. destruct (U2 N) as [U3 U4]. congruence.
    - intros x b Hx. rupd.
      + assert (b = blk) by congruence. subst b. rewrite Nat.eqb_refl. split; [reflexivity|].
        intros K. apply O1 in K. congruence.
      + destruct (H1 x b Hx) as [K1 K2]. split; [|assumption].
        destruct (Nat.eqb_spec b blk); [reflexivity|assumption].
    - intros x y b Hx Hy. rupd; try congruence;
        try (match goal with H : held (r_pc (r_thr s ?z)) = Some ?b' |- _ =>
               assert (b' = blk) by congruence; subst; destruct (H1 z blk H); congruence end).
      eapply H2; eauto.
    - intros b K. unfold upd. destruct (Nat.eqb_spec b blk); [reflexivity|]. now apply O1.
    - intros x b Hx. rupd; [exfalso; eapply Hp; eauto|].
      assert (x = t) by (apply B1; [rewrite Hx; reflexivity|assumption]). contradiction.
  Qed.

  Lemma unlock_step s t blk sc :
    RInv s -> r_pc (r_thr s t) = RUnlock blk ->
    (has_alloc (r_script (r_thr s t)) = false -> has_alloc sc = false) ->
    RInv (r_set_thr (r_set_lock s false) t {| r_pc := RRet blk; r_script := sc |}).
  Proof.
    intros [B1 BL BU H1 H2 O1 O2 A1 D] Hpc Psc.
    assert (Hbody : in_body (r_pc (r_thr s t)) = true) by (rewrite Hpc; reflexivity).
    assert (Hh : held (r_pc (r_thr s t)) = Some blk) by (rewrite Hpc; reflexivity).
    constructor; simpl; try assumption.
    - intros x y Hx Hy. rupd; try congruence. now apply B1.
    - intros L1 _ x. rupd; [reflexivity|]. destruct (in_body (r_pc (r_thr s x))) eqn:E; [|reflexivity].
      exfalso. apply n. now apply B1.
    - intros L x. destruct (BU L x) as [U1 U2]. rupd; [|split; assumption].
      split; [reflexivity|]. intros N. destruct (U2 N) as [U3 U4]. split; [now apply Psc|reflexivity].
    - intros x b Hx. rupd; [|eapply H1; eauto]. assert (b = blk) by congruence. subst b. eapply H1; eauto.
    - intros x y b Hx Hy. rupd; try congruence;
        try (assert (b = blk) by congruence; subst b; first [eapply H2; eauto | symmetry; eapply H2; eauto]);
        try (eapply H2; eauto).
    - intros x b Hx. rupd; [discriminate|]. eapply A1; eauto.
  Qed.

  Lemma pick_step s t o j sc :
    RInv s -> pick_pos t o (r_out s) = Some j ->
    in_body (r_pc (r_thr s t)) = false -> held (r_pc (r_thr s t)) = None ->
    (has_alloc (r_script (r_thr s t)) = false -> has_alloc sc = false) ->
    RInv (r_set_thr (r_set_harness s (remove_nth j (r_out s)) (r_dups s)) t
            {| r_pc := RStore (fst (nth j (r_out s) (0%nat, 0%nat))); r_script := sc |}).
  Proof.
    intros [B1 BL BU H1 H2 O1 O2 A1 D] Hpick Hb Hh Psc.
    pose proof (pick_pos_lt _ _ _ _ Hpick) as Hj.
    set (b := fst (nth j (r_out s) (0%nat, 0%nat))).
    assert (Hbn : b = nth j (map fst (r_out s)) 0%nat).
    { unfold b. rewrite (nth_indep _ 0%nat (fst (0%nat, 0%nat))) by (rewrite map_length; assumption). now rewrite map_nth. }
    assert (Hin : In b (map fst (r_out s))) by (rewrite Hbn; apply nth_In; rewrite map_length; assumption).
    destruct (remove_nth_nodup j (map fst (r_out s)) 0%nat O2 ltac:(rewrite map_length; assumption)) as [N1 N2].
    rewrite <- remove_nth_map in N1, N2. rewrite <- Hbn in N2.
    constructor; simpl; try assumption.
    - intros x y Hx Hy. rupd; try congruence. now apply B1.
    - intros L1 L2 x. rupd; [reflexivity|]. now apply BL.
    - intros L x. destruct (BU L x) as [U1 U2]. rupd; [|split; assumption].
      split; [reflexivity|]. intros N. destruct (U2 N) as [U3 U4]. split; [now apply Psc|reflexivity].
    - intros x b0 Hx. rupd.
      + assert (b0 = b) by congruence. subst b0. split; [now apply O1|assumption].
      + destruct (H1 x b0 Hx) as [K1 K2]. split; [assumption|]. intros K. apply K2.
        rewrite remove_nth_map in K. eapply remove_nth_in; eauto.
    - intros x y b0 Hx Hy. rupd; try congruence;
        try (match goal with H : held (r_pc (r_thr s ?z)) = Some ?b' |- _ =>
               assert (b' = b) by congruence; subst b'; destruct (H1 z b H); contradiction end).
      eapply H2; eauto.
    - intros b0 K. apply O1. rewrite remove_nth_map in K. eapply remove_nth_in; eauto.
    - intros x blk Hx. rupd; [discriminate|]. eapply A1; eauto.
  Qed.

  Lemma store_step s t b sc :
    RInv s -> r_pc (r_thr s t) = RStore b ->
    (has_alloc (r_script (r_thr s t)) = false -> has_alloc sc = false) ->
    RInv (r_set_thr (r_set_inuse s (upd (r_inuse s) b 0%nat)) t {| r_pc := RIdle; r_script := sc |}).
  Proof.
    intros [B1 BL BU H1 H2 O1 O2 A1 D] Hpc Psc.
    assert (Hh : held (r_pc (r_thr s t)) = Some b) by (rewrite Hpc; reflexivity).
    assert (Hb : in_body (r_pc (r_thr s t)) = false) by (rewrite Hpc; reflexivity).
    destruct (H1 t b Hh) as [Hu Hn].
    constructor; simpl; try assumption.
    - intros x y Hx Hy. rupd; try congruence. now apply B1.
    - intros L1 L2 x. rupd; [reflexivity|]. now apply BL.
    - intros L x. destruct (BU L x) as [U1 U2]. rupd; [|split; assumption].
      split; [reflexivity|]. intros N. destruct (U2 N) as [U3 U4]. split; [now apply Psc|reflexivity].
    - intros x b0 Hx. rupd; [discriminate|]. destruct (H1 x b0 Hx) as [K1 K2]. split; [|assumption].
      destruct (Nat.eqb_spec b0 b); [|assumption]. subst b0. exfalso. apply n. eapply H2; eauto.
    - intros x y b0 Hx Hy. rupd; try congruence. eapply H2; eauto.
    - intros b0 K. unfold upd. destruct (Nat.eqb_spec b0 b); [subst; contradiction|]. now apply O1.
    - intros x blk Hx. rupd; [discriminate|]. destruct (Nat.eqb_spec blk b); [reflexivity|]. eapply A1; eauto.
  Qed.

  Lemma RInv_cursor s c : RInv s -> RInv (r_set_cursor s c).
  Proof. intros [B1 BL BU H1 H2 O1 O2 A1 D]. constructor; simpl; assumption. Qed.

  Lemma RInv_ext s s' :
    RInv s -> r_locked s' = r_locked s -> r_lock s' = r_lock s -> r_inuse s' = r_inuse s ->
    r_out s' = r_out s -> r_dups s' = r_dups s -> (forall t, r_thr s' t = r_thr s t) -> RInv s'.
  Proof.
    intros [B1 BL BU H1 H2 O1 O2 A1 D] E1 E2 E3 E4 E5 Et.
    constructor; rewrite ?E1, ?E2, ?E3, ?E4, ?E5; intros;
      repeat match goal with
      | H : context [r_thr s' ?x] |- _ => rewrite (Et x) in H
      | |- context [r_thr s' ?x] => rewrite (Et x)
      end; eauto.
  Qed.

  Lemma nxt_r_neutral sc : in_body (nxt_r sc) = false /\ held (nxt_r sc) = None /\ at_lock (nxt_r sc) = false.
  Proof. unfold nxt_r. destruct (nxt_is_fin sc); repeat split. Qed.

  Lemma rstep_inv P s t ch s' l : RInv s -> rstep P s t ch = Some (s', l) -> RInv s'.
  Proof.
    intros HI Hs. pose proof HI as [B1 BL BU H1 H2 O1 O2 A1 D].
    unfold rstep in Hs. destruct (Nat.leb (r_n s) t); [discriminate|].
    destruct (r_pc (r_thr s t)) eqn:Epc; try discriminate.
    - (* RIdle *)
      apply some_pair_inv in Hs as [<- _]. destruct (nxt_r_neutral (r_script (r_thr s t))) as (N1 & N2 & N3).
      apply neutral_step; try assumption; try (rewrite Epc; reflexivity); try congruence; auto.
    - (* RYield *)
      apply some_pair_inv in Hs as [<- _].
      apply neutral_step; try assumption; try (rewrite Epc; reflexivity); try reflexivity; try discriminate; auto.
    - (* RBegin *)
      destruct (r_script (r_thr s t)) as [|o r] eqn:Esc.
      + apply some_pair_inv in Hs as [<- _].
        apply neutral_step; try assumption; try (rewrite Epc; reflexivity); try reflexivity; try discriminate; auto.
      + assert (Htl : has_alloc (r_script (r_thr s t)) = false -> has_alloc r = false).
        { rewrite Esc. apply has_alloc_tl. }
        destruct (nxt_r_neutral r) as (N1 & N2 & N3).
        destruct o as [|k|k].
        * destruct (r_locked s) eqn:Lk; apply some_pair_inv in Hs as [<- _].
          -- apply neutral_step; try assumption; try (rewrite Epc; reflexivity); try reflexivity; auto.
          -- assert (Eta : t = a).
             { destruct (Nat.eq_dec t a); [assumption|]. destruct (BU eq_refl t) as [_ U2]. destruct (U2 n) as [U3 _].
               rewrite Esc in U3. discriminate. }
             unfold r_body. simpl fst. apply body_move; try reflexivity; try discriminate; try assumption.
             ++ apply RInv_cursor. assumption.
             ++ simpl. intros u Hu. destruct (BU eq_refl u) as [_ U2]. apply U2. congruence.
             ++ simpl. congruence.
             ++ auto.
        * destruct (pick_pos t (OpFree k) (r_out s)) as [j|] eqn:Ep; [apply some_pair_inv in Hs as [<- _]|].
          -- apply pick_step with (o := OpFree k); try assumption; rewrite Epc; reflexivity.
          -- destruct (op_waits (OpFree k)); apply some_pair_inv in Hs as [<- _].
             ++ apply neutral_step; try assumption; try (rewrite Epc; reflexivity); try reflexivity; try discriminate; auto.

             ++ apply neutral_step; try assumption; try (rewrite Epc; reflexivity); try congruence.
        * destruct (pick_pos t (OpFreeOwn k) (r_out s)) as [j|] eqn:Ep; [apply some_pair_inv in Hs as [<- _]|].
          -- apply pick_step with (o := OpFreeOwn k); try assumption; rewrite Epc; reflexivity.
          -- destruct (op_waits (OpFreeOwn k)); apply some_pair_inv in Hs as [<- _].
             ++ apply neutral_step; try assumption; try (rewrite Epc; reflexivity); try reflexivity; try discriminate; auto.

             ++ apply neutral_step; try assumption; try (rewrite Epc; reflexivity); try congruence.
    - (* RFin *)
      apply some_pair_inv in Hs as [<- _].
      apply neutral_step; try assumption; try (rewrite Epc; reflexivity); try reflexivity; try discriminate; auto.
    - (* RLock *)
      apply some_pair_inv in Hs as [<- _]. apply lock_acquire; [assumption|rewrite Epc; reflexivity|auto].
    - (* RSpin1 *)
      apply some_pair_inv in Hs as [<- _].
      apply neutral_step; try assumption; try (rewrite Epc; reflexivity); try reflexivity; auto;
        try (intros _; left; rewrite Epc; reflexivity).
    - (* RYieldE *)
      apply some_pair_inv in Hs as [<- _].
      apply neutral_step; try assumption; try (rewrite Epc; reflexivity); try reflexivity; auto;
        try (intros _; left; rewrite Epc; reflexivity).
    - (* RSpin2 *)
      apply some_pair_inv in Hs as [<- _].
      apply neutral_step; try assumption; try (rewrite Epc; reflexivity); try reflexivity; auto;
        try (intros _; left; rewrite Epc; reflexivity).
    - (* RBody *)
      apply some_pair_inv in Hs as [<- _]. unfold r_body. simpl fst.
      apply body_move; try reflexivity; try discriminate; auto.
      + apply RInv_cursor. assumption.
      + simpl. intros u Hu. destruct (in_body (r_pc (r_thr s u))) eqn:E; [|reflexivity].
        exfalso. apply Hu. apply B1; [assumption|rewrite Epc; reflexivity].
      + simpl. intros Lk. destruct (Bool.bool_dec (r_lock s) true) as [E|E]; [exact E|]. apply Bool.not_true_is_false in E. pose proof (BL Lk E t) as K. rewrite Epc in K. discriminate.
      + simpl. intros Lk. destruct (Nat.eq_dec t a); [assumption|]. destruct (BU Lk t) as [_ U2]. destruct (U2 n) as [_ U4].
        rewrite Epc in U4. discriminate.
    - (* RLoad *)
      apply some_pair_inv in Hs as [<- _].
      apply body_move; try reflexivity; try discriminate; auto.
      + intros u Hu. destruct (in_body (r_pc (r_thr s u))) eqn:E; [|reflexivity].
        exfalso. apply Hu. apply B1; [assumption|rewrite Epc; reflexivity].
      + intros Lk. destruct (Bool.bool_dec (r_lock s) true) as [E|E]; [exact E|]. apply Bool.not_true_is_false in E. pose proof (BL Lk E t) as K. rewrite Epc in K. discriminate.
      + intros Lk. destruct (Nat.eq_dec t a); [assumption|]. destruct (BU Lk t) as [_ U2]. destruct (U2 n) as [_ U4].
        rewrite Epc in U4. discriminate.
      + intros b E. inversion E; subst. congruence.
    - (* RAfter *)
      destruct v as [|v'].
      + destruct (r_locked s) eqn:Lk; apply some_pair_inv in Hs as [<- _].
        * apply mark_step; try assumption; try reflexivity; auto. discriminate.
        * (* plain alloc: mark and return in the same plain segment *)
          pose proof (mark_step s t blk (RRet blk) (r_script (r_thr s t)) HI Epc eq_refl eq_refl (fun _ => Lk) (fun H => H)) as HM.
          pose proof (ret_step _ t blk (r_script (r_thr s t)) HM) as HR.
          simpl in HR. rewrite upd_same in HR. simpl in HR.
          specialize (HR eq_refl eq_refl (fun H => H)).
          eapply RInv_ext; [exact HR|reflexivity|reflexivity|reflexivity|reflexivity|reflexivity|].
          intros u. unfold r_ret. simpl. unfold upd. destruct (Nat.eqb u t); reflexivity.
      + apply some_pair_inv in Hs as [<- _]. unfold r_body. simpl fst.
        apply body_move; try reflexivity; try discriminate; auto.
        * apply RInv_cursor. assumption.
        * simpl. intros u Hu. destruct (in_body (r_pc (r_thr s u))) eqn:E; [|reflexivity].
          exfalso. apply Hu. apply B1; [assumption|rewrite Epc; reflexivity].
        * simpl. intros Lk. destruct (Bool.bool_dec (r_lock s) true) as [E|E]; [exact E|]. apply Bool.not_true_is_false in E. pose proof (BL Lk E t) as K. rewrite Epc in K. discriminate.
        * simpl. intros Lk. destruct (Nat.eq_dec t a); [assumption|]. destruct (BU Lk t) as [_ U2]. destruct (U2 n) as [_ U4].
          rewrite Epc in U4. discriminate.
    - (* RUnlock *)
      apply some_pair_inv in Hs as [<- _]. apply unlock_step; auto.
    - (* RRet *)
      apply some_pair_inv in Hs as [E _]. rewrite <- E. apply ret_step; try assumption; try (rewrite Epc; reflexivity); auto.
    - (* RStore *)
      apply some_pair_inv in Hs as [<- _]. apply store_step; auto.
  Qed.
End Ring.

(* ---------------- theorems ---------------- *)
Definition ring_run (P : params) (cap n : nat) (locked : bool) (scripts : nat -> list op) (sched : list (nat * nat)) : rsys :=
  exec rsys (rstep P) (rinit cap n locked scripts) sched.
(* documented usage (Appendix B): allocations are serialised *)
Definition ring_usage (a : nat) (locked : bool) (scripts : nat -> list op) : Prop :=
  locked = false -> forall t, t <> a -> has_alloc (scripts t) = false.

Theorem ring_invariants P cap n locked a scripts sched :
  ring_usage a locked scripts -> RInv a (ring_run P cap n locked scripts sched).
Proof.
  intros Hu. unfold ring_run. apply inv_exec; [|now apply rinit_inv].
  intros; eapply rstep_inv; eauto.
Qed.

(* no allocation returns a block that is still outstanding; the outstanding blocks are pairwise
   distinct, all flagged in use, and disjoint from the blocks in flight *)
Corollary ringpool_no_double_handout_all P cap n locked a scripts sched :
  ring_usage a locked scripts ->
  let s := ring_run P cap n locked scripts sched in
  r_dups s = 0%nat /\ NoDup (map fst (r_out s)) /\ (forall b, In b (map fst (r_out s)) -> r_inuse s b = 1%nat).
Proof.
  intros Hu s. pose proof (ring_invariants P cap n locked a scripts sched Hu) as I. fold s in I.
  split; [apply (ri_dups _ _ I)|]. split; [apply (ri_nodup _ _ I)|apply (ri_out _ _ I)].
Qed.

(* non-vacuity: capacity 2, threadsafe_alloc from two threads; thread 0 takes block 0, thread 1 finds the
   lock held and spins, then takes block 1; thread 0 frees block 0 and takes it again (the cursor skips the
   block in use) *)
Example ring_nonvacuous :
  let P := {| mo_ts_load_free := Acq; mo_ts_cas_alloc := Rlx; mo_ts_store_free := Rel; mo_spin_tas := Acq;
              mo_spin_clear := Rel; mo_sowr_load_free := Rlx; mo_sowr_store_free := Rlx;
              mo_ring_load_inuse := Rlx; mo_ring_store_inuse := Rlx |} in
  let scripts := fun t => match t with 0 => [OpAlloc; OpFreeOwn 0; OpAlloc; OpAlloc] | 1 => [OpAlloc] | _ => [] end in
  let s := ring_run P 2 2 true scripts (repeat (0, 0) 5 ++ repeat (1, 0) 7 ++ repeat (0, 0) 5 ++ repeat (1, 0) 9 ++ repeat (0, 0) 12) in
  ring_usage 0 true scripts /\ r_dups s = 0 /\ map fst (r_out s) = [1; 0].
Proof. split; [intros H; discriminate|]. vm_compute. split; reflexivity. Qed.

(* visibility for the ring pool: the plain cursor (alloc_idx) and the plain store in_use = 1 are touched
   only inside the allocation body (in_body), and at most one thread is inside the body in every reachable
   state; with threadsafe_alloc the body is entered through the acquire test-and-set and left through the
   release clear of write_spinlock while the lock is held.  Hence the accesses are mutually exclusive and
   lock-ordered; that the next holder sees the previous holder's plain writes is C04's theorem
   lock_previous_holder_writes_visible for the same spinlock code (composition, DESIGN.md 4.2).
   in_use itself is atomic (relaxed) and carries no plain data. *)
Corollary ring_cursor_exclusive_all P cap n locked a scripts sched :
  ring_usage a locked scripts ->
  let s := ring_run P cap n locked scripts sched in
  (forall t u, in_body (r_pc (r_thr s t)) = true -> in_body (r_pc (r_thr s u)) = true -> t = u) /\
  (r_locked s = true -> forall t, in_body (r_pc (r_thr s t)) = true -> r_lock s = true) /\
  (r_locked s = false -> forall t, in_body (r_pc (r_thr s t)) = true -> t = a).
Proof.
  intros Hu s. pose proof (ring_invariants P cap n locked a scripts sched Hu) as I. fold s in I.
  split; [apply (ri_body1 _ _ I)|]. split.
  - intros L t Hb. destruct (r_lock s) eqn:E; [reflexivity|]. rewrite (ri_lock _ _ I L E t) in Hb. discriminate.
  - intros L t Hb. destruct (Nat.eq_dec t a); [assumption|]. destruct (ri_unl _ _ I L t) as [_ U2].
    destruct (U2 n0) as [_ U4]. congruence.
Qed.

(* ---------------- the all-owned state: alloc does not return until a free has happened ---------------- *)

(* an allocation that loaded a set in_use flag does not return: it moves on to the next block *)
Lemma ring_alloc_scans_on P s t blk v :
  (t < r_n s)%nat -> r_pc (r_thr s t) = RAfter blk (S v) ->
  exists s', rstep P s t 0 = Some (s', LPlain []) /\ r_pc (r_thr s' t) = RLoad (r_cursor s) /\
             r_out s' = r_out s /\ r_inuse s' = r_inuse s /\ r_dups s' = r_dups s.
Proof.
  intros Hlt Epc. unfold rstep. apply Nat.leb_gt in Hlt. rewrite Hlt, Epc. unfold r_body.
  eexists. split; [reflexivity|]. simpl. rewrite upd_same. repeat split.
Qed.

(* a block can only be taken (marked and returned) after its flag was loaded as 0, and then it is neither
   outstanding nor held by anybody else: exclusive ownership in every reachable state, including the one in
   which every block is owned *)
Corollary ring_takes_only_free_blocks_all P cap n locked a scripts sched :
  ring_usage a locked scripts ->
  let s := ring_run P cap n locked scripts sched in
  (forall t blk, r_pc (r_thr s t) = RAfter blk 0 -> r_inuse s blk = 0 /\ ~ In blk (map fst (r_out s))) /\
  (forall t b, held (r_pc (r_thr s t)) = Some b -> r_inuse s b = 1 /\ ~ In b (map fst (r_out s))) /\
  (forall t u b, held (r_pc (r_thr s t)) = Some b -> held (r_pc (r_thr s u)) = Some b -> t = u).
Proof.
  intros Hu s. pose proof (ring_invariants P cap n locked a scripts sched Hu) as I. fold s in I.
  split; [|split; [apply (ri_held _ _ I)|apply (ri_held1 _ _ I)]].
  intros t blk Epc. pose proof (ri_after _ _ I t blk Epc) as Z. split; [assumption|].
  intros K. pose proof (ri_out _ _ I blk K). congruence.
Qed.

(* non-vacuity: capacity 2, plain alloc.  The consumer (blocking free) waits; the writer takes both blocks
   and starts a third allocation with every block owned: it keeps scanning (6 steps shown), nothing is handed
   out; after the consumer has released block 0 the scan finds it and the writer gets block 0. *)
Definition allowned_scripts (t : nat) : list op :=
  match t with 0 => [OpAlloc; OpAlloc; OpAlloc] | 1 => [OpFree 100] | _ => [] end.
Definition allowned_prefix : list (nat * nat) := repeat (1, 0) 3 ++ repeat (0, 0) 15.
Example ring_all_owned_waits :
  let P := {| mo_ts_load_free := Acq; mo_ts_cas_alloc := Rlx; mo_ts_store_free := Rel; mo_spin_tas := Acq;
              mo_spin_clear := Rel; mo_sowr_load_free := Rlx; mo_sowr_store_free := Rlx;
              mo_ring_load_inuse := Rlx; mo_ring_store_inuse := Rlx |} in
  let s1 := ring_run P 2 2 false allowned_scripts allowned_prefix in
  let s2 := ring_run P 2 2 false allowned_scripts (allowned_prefix ++ repeat (1, 0) 3 ++ repeat (0, 0) 2) in
  (map fst (r_out s1) = [0; 1] /\ in_body (r_pc (r_thr s1 0)) = true /\ r_inuse s1 0 = 1 /\ r_inuse s1 1 = 1 /\ r_dups s1 = 0) /\
  (map fst (r_out s2) = [1; 0] /\ r_dups s2 = 0).
Proof. vm_compute. repeat split; reflexivity. Qed.
