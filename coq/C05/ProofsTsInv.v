(* C05 — thread-safe pool: the ring invariant.  It holds in every reachable state in which none of
   the racy windows has been hit (t_race = false); with a single allocator thread no window can be
   hit.  Hence: ts_single_allocator_ok, and ts_no_double_handout_partial for many allocators. *)
From MV Require Import C05.Model C05.ProofsRing C05.ProofsTs.
Local Opaque Nat.modulo.

(* ---------------- arithmetic on ring positions ---------------- *)
Lemma nmod_neq_range c a b : 0 < c -> b < a < b + c -> a mod c <> b mod c.
Proof.
  intros Hc Hr E.
  pose proof (Nat.div_mod a c ltac:(lia)) as Ha. pose proof (Nat.div_mod b c ltac:(lia)) as Hb.
  pose proof (Nat.mod_upper_bound a c ltac:(lia)). pose proof (Nat.mod_upper_bound b c ltac:(lia)).
  assert (a / c > b / c) by nia. nia.
Qed.
Lemma nmod_eq_range c a b : 0 < c -> a mod c = b mod c -> b < a <= b + c -> a = b + c.
Proof.
  intros Hc E Hr. destruct (Nat.eq_dec a (b + c)) as [|N]; [assumption|].
  exfalso. apply (nmod_neq_range c a b Hc); [lia|assumption].
Qed.
Lemma nmod_add_cap c a : 0 < c -> (a + c) mod c = a mod c.
Proof. intros Hc. rewrite <- (Nat.mod_add a 1 c) by lia. f_equal. lia. Qed.
Lemma nmod_succ c a : 0 < c -> (a mod c + 1) mod c = (a + 1) mod c.
Proof. intros Hc. apply Nat.add_mod_idemp_l. lia. Qed.

(* ---------------- the valid part of the ring ---------------- *)
Definition ringl_of (ptrs : nat -> nat) (cap A F : nat) : list nat :=
  map (fun i => ptrs (i mod cap)) (seq A (F + cap - A)).
Definition ringl (s : tsys) : list nat := ringl_of (t_ptrs s) (t_cap s) (t_A s) (t_F s).

Lemma ringl_alloc ptrs cap A F : A < F + cap ->
  ringl_of ptrs cap A F = ptrs (A mod cap) :: ringl_of ptrs cap (S A) F.
Proof.
  intros H. unfold ringl_of. replace (F + cap - A) with (S (F + cap - S A)) by lia. reflexivity.
Qed.
Lemma ringl_free ptrs cap A F : 0 < cap -> A <= F + cap ->
  ringl_of ptrs cap A (S F) = ringl_of ptrs cap A F ++ [ptrs (F mod cap)].
Proof.
  intros Hc H. unfold ringl_of. replace (S F + cap - A) with (S (F + cap - A)) by lia.
  rewrite seq_S, map_app. simpl. replace (A + (F + cap - A)) with (F + cap) by lia.
  rewrite nmod_add_cap by assumption. reflexivity.
Qed.
Lemma ringl_write ptrs cap A F b : 0 < cap -> F < A ->
  ringl_of (upd ptrs (F mod cap) b) cap A F = ringl_of ptrs cap A F.
Proof.
  intros Hc H. unfold ringl_of. apply map_ext_in. intros i Hi. apply in_seq in Hi.
  unfold upd. destruct (Nat.eqb_spec (i mod cap) (F mod cap)) as [E|E]; [|reflexivity].
  exfalso. apply (nmod_neq_range cap i F Hc); [lia|assumption].
Qed.
Lemma ringl_length ptrs cap A F : length (ringl_of ptrs cap A F) = F + cap - A.
Proof. unfold ringl_of. now rewrite map_length, seq_length. Qed.

(* pigeonhole: a duplicate-free list of block ids below cap that misses one id is shorter than cap *)
Lemma short_list (l : list nat) cap b : NoDup l -> (forall x, In x l -> x < cap) -> b < cap -> ~ In b l -> length l < cap.
Proof.
  intros Hn Hl Hb Hni.
  assert (Hinc : incl l (seq 0 cap)) by (intros x Hx; apply in_seq; specialize (Hl x Hx); lia).
  pose proof (NoDup_incl_length Hn Hinc) as Hle. rewrite seq_length in Hle.
  destruct (Nat.eq_dec (length l) cap) as [E|E]; [|lia].
  exfalso. apply Hni. apply (@NoDup_length_incl _ l (seq 0 cap) Hn); [rewrite seq_length; lia|assumption|]. apply in_seq. lia.
Qed.

(* ---------------- invariant ---------------- *)
Definition holds_lock (p : tpc) : bool :=
  match p with FWrite _ | FStore _ | FSeg3 | FUnlock => true | _ => false end.
(* the block a thread holds outside ring and ownership list (taken but not yet returned to the
   caller / given to free but not yet published by free_idx) *)
Definition hold_of (ptrs : nat -> nat) (cap F : nat) (p : tpc) : option nat :=
  match p with
  | ARet d => Some d
  | FLock b | FSpin1 b | FYieldE b | FSpin2 b | FWrite b => Some b
  | FStore _ => Some (ptrs (F mod cap))
  | _ => None
  end.
Definition hold (s : tsys) (p : tpc) : option nat := hold_of (t_ptrs s) (t_cap s) (t_F s) p.
(* what a thread knows at its program point *)
Definition kn_of (ptrs : nat -> nat) (cap A F cached cver : nat) (p : tpc) : Prop :=
  match p with
  | ALoad e p' _ => p' = (e + 1) mod cap
  | AAfter e p' v _ vl gf =>
    p' = (e + 1) mod cap /\ v = gf mod cap /\ vl <= A /\ gf <= F + cap /\ (vl = A -> A < gf)
  | ACas e p' d _ va vc =>
    p' = (e + 1) mod cap /\ va <= A /\ vc <= cver /\
    (va = A -> e = A mod cap -> d = ptrs e) /\ (vc = cver -> p' <> cached)
  | FStore pos => pos = (F + 1) mod cap
  | _ => True
  end.
Definition kn (s : tsys) (p : tpc) : Prop :=
  kn_of (t_ptrs s) (t_cap s) (t_A s) (t_F s) (t_cached s) (t_cver s) p.

Record TInv (s : tsys) : Prop := {
  ti_cap : 0 < t_cap s;
  ti_alloc : t_alloc s = t_A s mod t_cap s;
  ti_free : t_free s = t_F s mod t_cap s;
  ti_AG : t_A s < t_F s + t_cap s;
  ti_cached : t_cached s = t_clog s mod t_cap s /\ t_A s < t_clog s <= t_F s + t_cap s;
  ti_rnd : NoDup (ringl s);
  ti_rlt : forall b, In b (ringl s) -> b < t_cap s;
  ti_ond : NoDup (map fst (t_out s));
  ti_out : forall b, In b (map fst (t_out s)) -> b < t_cap s /\ ~ In b (ringl s);
  ti_hold : forall t b, hold s (t_pc (t_thr s t)) = Some b ->
            b < t_cap s /\ ~ In b (ringl s) /\ ~ In b (map fst (t_out s));
  ti_hold1 : forall t u b, hold s (t_pc (t_thr s t)) = Some b -> hold s (t_pc (t_thr s u)) = Some b -> t = u;
  ti_lock1 : forall t u, holds_lock (t_pc (t_thr s t)) = true -> holds_lock (t_pc (t_thr s u)) = true -> t = u;
  ti_lock0 : t_lock s = false -> forall t, holds_lock (t_pc (t_thr s t)) = false;
  ti_kn : forall t, kn s (t_pc (t_thr s t));
  ti_dups : t_dups s = 0;
}.

(* a thread that holds a block proves that the ring is not full: the slot at free_idx is vacant *)
Lemma ring_not_full s t b : TInv s -> hold s (t_pc (t_thr s t)) = Some b -> t_F s < t_A s.
Proof.
  intros I H. destruct (ti_hold s I t b H) as (H1 & H2 & _).
  pose proof (short_list (ringl s) (t_cap s) b (ti_rnd s I) (ti_rlt s I) H1 H2) as L.
  unfold ringl in L. rewrite ringl_length in L. pose proof (ti_AG s I). lia.
Qed.

Lemma tinit_inv cap n scripts : 0 < cap -> TInv (tinit cap n scripts).
Proof.
  intros Hc. constructor; simpl; try lia; try discriminate; try (intros; discriminate); auto.
  - symmetry. apply Nat.mod_0_l. lia.
  - symmetry. apply Nat.mod_0_l. lia.
  - split; [|lia]. symmetry. apply Nat.mod_same. lia.
  - unfold ringl, ringl_of. simpl. rewrite Nat.sub_0_r.
    rewrite (map_ext_in _ (fun i => i)); [rewrite map_id; apply seq_NoDup|].
    intros i Hi. apply in_seq in Hi. apply Nat.mod_small. lia.
  - intros b Hb. unfold ringl, ringl_of in Hb. simpl in Hb. apply in_map_iff in Hb as (i & <- & Hi).
    apply Nat.mod_upper_bound. lia.
  - constructor.
Qed.

(* the invariant only speaks about these components of the state *)
Lemma TInv_build s' cap alloc cached free ptrs lock out dups A F clog cver (thr : nat -> tthread) :
  t_cap s' = cap -> t_alloc s' = alloc -> t_cached s' = cached -> t_free s' = free -> t_ptrs s' = ptrs ->
  t_lock s' = lock -> t_out s' = out -> t_dups s' = dups -> t_A s' = A -> t_F s' = F -> t_clog s' = clog ->
  t_cver s' = cver -> (forall u, t_thr s' u = thr u) ->
  0 < cap -> alloc = A mod cap -> free = F mod cap -> A < F + cap ->
  (cached = clog mod cap /\ A < clog <= F + cap) ->
  NoDup (ringl_of ptrs cap A F) -> (forall b, In b (ringl_of ptrs cap A F) -> b < cap) ->
  NoDup (map fst out) -> (forall b, In b (map fst out) -> b < cap /\ ~ In b (ringl_of ptrs cap A F)) ->
  (forall t b, hold_of ptrs cap F (t_pc (thr t)) = Some b ->
     b < cap /\ ~ In b (ringl_of ptrs cap A F) /\ ~ In b (map fst out)) ->
  (forall t u b, hold_of ptrs cap F (t_pc (thr t)) = Some b -> hold_of ptrs cap F (t_pc (thr u)) = Some b -> t = u) ->
  (forall t u, holds_lock (t_pc (thr t)) = true -> holds_lock (t_pc (thr u)) = true -> t = u) ->
  (lock = false -> forall t, holds_lock (t_pc (thr t)) = false) ->
  (forall t, kn_of ptrs cap A F cached cver (t_pc (thr t))) ->
  dups = 0 -> TInv s'.
Proof.
  intros <- <- <- <- <- <- <- <- <- <- <- <- Et. intros.
  constructor; unfold ringl, hold, kn; intros; rewrite ?Et in *; eauto.
Qed.

Definition same12 (s s' : tsys) : Prop :=
  t_cap s' = t_cap s /\ t_alloc s' = t_alloc s /\ t_cached s' = t_cached s /\ t_free s' = t_free s /\
  t_ptrs s' = t_ptrs s /\ t_lock s' = t_lock s /\ t_out s' = t_out s /\ t_dups s' = t_dups s /\
  t_A s' = t_A s /\ t_F s' = t_F s /\ t_clog s' = t_clog s /\ t_cver s' = t_cver s.

Ltac tupd := simpl in *; repeat (match goal with
  | H : context [upd (t_thr _) ?t _ ?u] |- _ =>
    unfold upd in H; destruct (Nat.eqb_spec u t); [first [subst u | subst t]|]
  | |- context [upd (t_thr _) ?t _ ?u] =>
    unfold upd; destruct (Nat.eqb_spec u t); [first [subst u | subst t]|]
  end; simpl in * ).

(* (a) a step that changes only the stepping thread, keeping what it holds *)
Lemma L_thr s s' t x' :
  TInv s -> same12 s s' -> (forall u, t_thr s' u = upd (t_thr s) t x' u) ->
  hold s (t_pc x') = hold s (t_pc (t_thr s t)) ->
  holds_lock (t_pc x') = holds_lock (t_pc (t_thr s t)) -> kn s (t_pc x') -> TInv s'.
Proof.
  intros I (E1 & E2 & E3 & E4 & E5 & E6 & E7 & E8 & E9 & E10 & E11 & E12) Et Hh Hl Hk.
  pose proof I as [C0 C1 C2 C3 C4 C5 C6 C7 C8 C9 C10 C11 C12 C13 C14].
  unfold ringl, hold, kn in *.
  eapply (TInv_build s' _ _ _ _ _ _ _ _ _ _ _ _ _ E1 E2 E3 E4 E5 E6 E7 E8 E9 E10 E11 E12 Et); try assumption.
  - intros u b Hu. tupd; [rewrite Hh in Hu|]; eapply C9; eauto.
  - intros u v b Hu Hv. tupd; try reflexivity; try (rewrite Hh in *); eapply C10; eauto.
  - intros u v Hu Hv. tupd; try reflexivity; try (rewrite Hl in *); eapply C11; eauto.
  - intros L u. tupd; [rewrite Hl|]; now apply C12.
  - intros u. tupd; [assumption|apply C13].
Qed.

Definition shared (s' : tsys) cap alloc cached free ptrs lock out dups A F clog cver : Prop :=
  t_cap s' = cap /\ t_alloc s' = alloc /\ t_cached s' = cached /\ t_free s' = free /\
  t_ptrs s' = ptrs /\ t_lock s' = lock /\ t_out s' = out /\ t_dups s' = dups /\
  t_A s' = A /\ t_F s' = F /\ t_clog s' = clog /\ t_cver s' = cver.

Ltac tbuild s' Hsh Et :=
  let E1 := fresh in let E2 := fresh in let E3 := fresh in let E4 := fresh in let E5 := fresh in
  let E6 := fresh in let E7 := fresh in let E8 := fresh in let E9 := fresh in let E10 := fresh in
  let E11 := fresh in let E12 := fresh in
  destruct Hsh as (E1 & E2 & E3 & E4 & E5 & E6 & E7 & E8 & E9 & E10 & E11 & E12);
  eapply (TInv_build s' _ _ _ _ _ _ _ _ _ _ _ _ _ E1 E2 E3 E4 E5 E6 E7 E8 E9 E10 E11 E12 Et).

(* (b1) free is called: the harness takes entry j out of its list *)
Lemma L_pick s s' t x' j :
  TInv s -> j < length (t_out s) ->
  shared s' (t_cap s) (t_alloc s) (t_cached s) (t_free s) (t_ptrs s) (t_lock s) (remove_nth j (t_out s))
         (t_dups s) (t_A s) (t_F s) (t_clog s) (t_cver s) ->
  (forall u, t_thr s' u = upd (t_thr s) t x' u) ->
  hold s (t_pc (t_thr s t)) = None -> holds_lock (t_pc (t_thr s t)) = false ->
  t_pc x' = FLock (fst (nth j (t_out s) (0, 0))) -> TInv s'.
Proof.
  intros I Hj Hsh Et Hh Hl Hpc.
  pose proof I as [C0 C1 C2 C3 C4 C5 C6 C7 C8 C9 C10 C11 C12 C13 C14].
  unfold ringl, hold, kn in *.
  set (b := fst (nth j (t_out s) (0, 0))) in *.
  assert (Hbn : b = nth j (map fst (t_out s)) 0).
  { unfold b. rewrite (nth_indep _ 0 (fst (0, 0))) by (rewrite map_length; assumption). now rewrite map_nth. }
  assert (Hin : In b (map fst (t_out s))) by (rewrite Hbn; apply nth_In; rewrite map_length; assumption).
  destruct (remove_nth_nodup j (map fst (t_out s)) 0 C7 ltac:(rewrite map_length; assumption)) as [N1 N2].
  rewrite <- remove_nth_map in N1, N2. rewrite <- Hbn in N2.
  tbuild s' Hsh Et; try assumption.
  - intros b0 K. apply C8. rewrite remove_nth_map in K. eapply remove_nth_in; eauto.
  - intros u b0 Hu. tupd.
    + rewrite Hpc in Hu. simpl in Hu. assert (b0 = b) by congruence. subst b0.
      destruct (C8 b Hin). repeat split; assumption.
    + destruct (C9 u b0 Hu) as (K1 & K2 & K3). repeat split; try assumption.
      intros K. apply K3. rewrite remove_nth_map in K. eapply remove_nth_in; eauto.
  - intros u v b0 Hu Hv. tupd; try reflexivity; try (rewrite Hpc in *; simpl in * );
      try (match goal with H : hold_of _ _ _ (t_pc (t_thr s ?z)) = Some ?b' |- _ =>
             assert (b' = b) by congruence; subst b'; destruct (C9 z b H) as (_ & _ & K); contradiction end).
    eapply C10; eauto.
  - intros u v Hu Hv. tupd; try reflexivity; try (rewrite Hpc in *; simpl in *; discriminate). eapply C11; eauto.
  - intros L u. tupd; [rewrite Hpc; reflexivity|]. now apply C12.
  - intros u. tupd; [rewrite Hpc; exact Logic.I|apply C13].
Qed.

(* (b2) alloc returns block d to the harness *)
Lemma L_ret s s' t x' d :
  TInv s -> t_pc (t_thr s t) = ARet d ->
  shared s' (t_cap s) (t_alloc s) (t_cached s) (t_free s) (t_ptrs s) (t_lock s) (ret_out (t_out s) d t)
         (ret_dups (t_out s) d (t_dups s)) (t_A s) (t_F s) (t_clog s) (t_cver s) ->
  (forall u, t_thr s' u = upd (t_thr s) t x' u) ->
  t_pc x' = TFin \/ t_pc x' = TYield -> TInv s'.
Proof.
  intros I Epc Hsh Et Hpc.
  pose proof I as [C0 C1 C2 C3 C4 C5 C6 C7 C8 C9 C10 C11 C12 C13 C14].
  unfold ringl, hold, kn in *.
  assert (Hh : hold_of (t_ptrs s) (t_cap s) (t_F s) (t_pc (t_thr s t)) = Some d) by (rewrite Epc; reflexivity).
  destruct (C9 t d Hh) as (D1 & D2 & D3).
  assert (Hf : owned_in d (t_out s) = false) by (now apply owned_in_false_iff).
  unfold ret_out, ret_dups in Hsh. rewrite Hf in Hsh.
  assert (Hn : hold_of (t_ptrs s) (t_cap s) (t_F s) (t_pc x') = None /\ holds_lock (t_pc x') = false /\
               kn_of (t_ptrs s) (t_cap s) (t_A s) (t_F s) (t_cached s) (t_cver s) (t_pc x')).
  { destruct Hpc as [-> | ->]; repeat split. }
  destruct Hn as (N1 & N2 & N3).
  tbuild s' Hsh Et; try assumption.
  - rewrite map_app. simpl. apply NoDup_app_one; assumption.
  - intros b. rewrite map_app, in_app_iff. simpl. intros [K|[K|[]]]; [now apply C8|subst; split; assumption].
  - intros u b Hu. rewrite map_app, in_app_iff. simpl. tupd; [congruence|].
    destruct (C9 u b Hu) as (K1 & K2 & K3). repeat split; try assumption.
    intros [K|[K|[]]]; [contradiction|]. subst b. apply n. eapply C10; eauto.
  - intros u v b Hu Hv. tupd; try reflexivity; try congruence. eapply C10; eauto.
  - intros u v Hu Hv. tupd; try reflexivity; try congruence. eapply C11; eauto.
  - intros L u. tupd; [assumption|]. now apply C12.
  - intros u. tupd; [assumption|apply C13].
Qed.

(* (c) cached_free_pos := the value loaded from free_idx, with no allocation since the load *)
Lemma L_cached s s' t x' v gf :
  TInv s -> v = gf mod t_cap s -> t_A s < gf <= t_F s + t_cap s ->
  shared s' (t_cap s) (t_alloc s) v (t_free s) (t_ptrs s) (t_lock s) (t_out s)
         (t_dups s) (t_A s) (t_F s) gf (S (t_cver s)) ->
  (forall u, t_thr s' u = upd (t_thr s) t x' u) ->
  hold s (t_pc (t_thr s t)) = None -> holds_lock (t_pc (t_thr s t)) = false ->
  hold s (t_pc x') = None -> holds_lock (t_pc x') = false ->
  kn_of (t_ptrs s) (t_cap s) (t_A s) (t_F s) v (S (t_cver s)) (t_pc x') -> TInv s'.
Proof.
  intros I Hv Hgf Hsh Et Hh Hl Hh' Hl' Hk.
  pose proof I as [C0 C1 C2 C3 C4 C5 C6 C7 C8 C9 C10 C11 C12 C13 C14].
  unfold ringl, hold, kn in *.
  tbuild s' Hsh Et; try assumption.
  - split; assumption.
  - intros u b Hu. tupd; [congruence|]. eapply C9; eauto.
  - intros u w b Hu Hw. tupd; try reflexivity; try congruence. eapply C10; eauto.
  - intros u w Hu Hw. tupd; try reflexivity; try congruence. eapply C11; eauto.
  - intros L u. tupd; [assumption|]. now apply C12.
  - intros u. tupd; [assumption|]. pose proof (C13 u) as K.
    destruct (t_pc (t_thr s u)); simpl in *; try assumption.
    destruct K as (K1 & K2 & K3 & K4 & K5). repeat split; try assumption; try lia.
Qed.

(* (d) a CAS on alloc_idx takes the head of the ring *)
Lemma L_alloc s s' t x' d :
  TInv s -> d = t_ptrs s (t_A s mod t_cap s) -> t_A s + 2 <= t_clog s ->
  shared s' (t_cap s) ((t_A s + 1) mod t_cap s) (t_cached s) (t_free s) (t_ptrs s) (t_lock s) (t_out s)
         (t_dups s) (S (t_A s)) (t_F s) (t_clog s) (t_cver s) ->
  (forall u, t_thr s' u = upd (t_thr s) t x' u) ->
  hold s (t_pc (t_thr s t)) = None -> holds_lock (t_pc (t_thr s t)) = false ->
  t_pc x' = ARet d -> TInv s'.
Proof.
  intros I Hd Hcl Hsh Et Hh Hl Hpc.
  pose proof I as [C0 C1 C2 C3 C4 C5 C6 C7 C8 C9 C10 C11 C12 C13 C14].
  unfold ringl, hold, kn in *.
  pose proof (ringl_alloc (t_ptrs s) (t_cap s) (t_A s) (t_F s) C3) as ER. rewrite <- Hd in ER.
  rewrite ER in C5, C6, C8, C9. apply NoDup_cons_iff in C5 as [Hdn Hnd].
  tbuild s' Hsh Et; try assumption.
  - f_equal. lia.
  - lia.
  - destruct C4 as [K1 K2]. split; [assumption|lia].
  - intros b K. apply C6. now right.
  - intros b K. destruct (C8 b K) as [K1 K2]. split; [assumption|]. intros K3. apply K2. now right.
  - intros u b Hu. tupd.
    + rewrite Hpc in Hu. simpl in Hu. assert (b = d) by congruence. subst b.
      split; [apply C6; now left|]. split; [assumption|]. intros K. destruct (C8 d K) as [_ K2]. apply K2. now left.
    + destruct (C9 u b Hu) as (K1 & K2 & K3). repeat split; try assumption. intros K. apply K2. now right.
  - intros u w b Hu Hw. tupd; try reflexivity; try (rewrite Hpc in *; simpl in * );
      try (match goal with H : hold_of _ _ _ (t_pc (t_thr s ?z)) = Some ?b' |- _ =>
             assert (b' = d) by congruence; subst b'; destruct (C9 z d H) as (_ & K & _); exfalso; apply K; now left end).
    eapply C10; eauto.
  - intros u w Hu Hw. tupd; try reflexivity; try (rewrite Hpc in *; simpl in *; discriminate). eapply C11; eauto.
  - intros L u. tupd; [rewrite Hpc; reflexivity|]. now apply C12.
  - intros u. tupd; [rewrite Hpc; exact Logic.I|]. pose proof (C13 u) as K.
    destruct (t_pc (t_thr s u)); simpl in *; try assumption.
    + destruct K as (K1 & K2 & K3 & K4 & K5). repeat split; try assumption; try lia.
    + destruct K as (K1 & K2 & K3 & K4 & K5). repeat split; try assumption; try lia.
Qed.

(* (e1) test-and-set on the free spinlock *)
Lemma L_lock s s' t x' b :
  TInv s -> t_pc (t_thr s t) = FLock b ->
  shared s' (t_cap s) (t_alloc s) (t_cached s) (t_free s) (t_ptrs s) true (t_out s)
         (t_dups s) (t_A s) (t_F s) (t_clog s) (t_cver s) ->
  (forall u, t_thr s' u = upd (t_thr s) t x' u) ->
  t_pc x' = (if t_lock s then FSpin1 b else FWrite b) -> TInv s'.
Proof.
  intros I Epc Hsh Et Hpc.
  pose proof I as [C0 C1 C2 C3 C4 C5 C6 C7 C8 C9 C10 C11 C12 C13 C14].
  unfold ringl, hold, kn in *.
  assert (Hh : hold_of (t_ptrs s) (t_cap s) (t_F s) (t_pc x') = hold_of (t_ptrs s) (t_cap s) (t_F s) (t_pc (t_thr s t))).
  { rewrite Hpc, Epc. destruct (t_lock s); reflexivity. }
  assert (Hl0 : holds_lock (t_pc (t_thr s t)) = false) by (rewrite Epc; reflexivity).
  tbuild s' Hsh Et; try assumption.
  - intros u b0 Hu. tupd; [rewrite Hh in Hu|]; eapply C9; eauto.
  - intros u v b0 Hu Hv. tupd; try reflexivity; try (rewrite Hh in * ); eapply C10; eauto.
  - intros u v Hu Hv. tupd; try reflexivity; try (eapply C11; eauto; fail);
      rewrite Hpc in *; destruct (t_lock s) eqn:EL; simpl in *; try discriminate;
      match goal with H : holds_lock (t_pc (t_thr s ?z)) = true |- _ => rewrite (C12 eq_refl z) in H; discriminate end.
  - intros L. discriminate.
  - intros u. tupd; [|apply C13]. rewrite Hpc. destruct (t_lock s); exact Logic.I.
Qed.

(* (e2) clear of the free spinlock *)
Lemma L_unlock s s' t x' :
  TInv s -> t_pc (t_thr s t) = FUnlock ->
  shared s' (t_cap s) (t_alloc s) (t_cached s) (t_free s) (t_ptrs s) false (t_out s)
         (t_dups s) (t_A s) (t_F s) (t_clog s) (t_cver s) ->
  (forall u, t_thr s' u = upd (t_thr s) t x' u) -> t_pc x' = TIdle -> TInv s'.
Proof.
  intros I Epc Hsh Et Hpc.
  pose proof I as [C0 C1 C2 C3 C4 C5 C6 C7 C8 C9 C10 C11 C12 C13 C14].
  unfold ringl, hold, kn in *.
  assert (Hl0 : holds_lock (t_pc (t_thr s t)) = true) by (rewrite Epc; reflexivity).
  tbuild s' Hsh Et; try assumption.
  - intros u b0 Hu. tupd; [rewrite Hpc in Hu; discriminate|]. eapply C9; eauto.
  - intros u v b0 Hu Hv. tupd; try reflexivity; try (rewrite Hpc in *; discriminate). eapply C10; eauto.
  - intros u v Hu Hv. tupd; try reflexivity; try (rewrite Hpc in *; discriminate). eapply C11; eauto.
  - intros _ u. tupd; [rewrite Hpc; reflexivity|].
    destruct (holds_lock (t_pc (t_thr s u))) eqn:E; [|reflexivity]. exfalso. apply n. eapply C11; eauto.
  - intros u. tupd; [rewrite Hpc; exact Logic.I|apply C13].
Qed.

(* (f) the lock holder writes the freed block into the vacant slot at free_idx *)
Lemma L_write s s' t x' b :
  TInv s -> t_pc (t_thr s t) = FWrite b ->
  shared s' (t_cap s) (t_alloc s) (t_cached s) (t_free s) (upd (t_ptrs s) (t_free s) b) (t_lock s) (t_out s)
         (t_dups s) (t_A s) (t_F s) (t_clog s) (t_cver s) ->
  (forall u, t_thr s' u = upd (t_thr s) t x' u) ->
  t_pc x' = FStore ((t_free s + 1) mod t_cap s) -> TInv s'.
Proof.
  intros I Epc Hsh Et Hpc.
  assert (Hh : hold s (t_pc (t_thr s t)) = Some b) by (rewrite Epc; reflexivity).
  pose proof (ring_not_full s t b I Hh) as HFA.
  pose proof I as [C0 C1 C2 C3 C4 C5 C6 C7 C8 C9 C10 C11 C12 C13 C14].
  unfold ringl, hold, kn in *. rewrite C2 in *.
  assert (Hl0 : holds_lock (t_pc (t_thr s t)) = true) by (rewrite Epc; reflexivity).
  assert (ER : ringl_of (upd (t_ptrs s) (t_F s mod t_cap s) b) (t_cap s) (t_A s) (t_F s) =
               ringl_of (t_ptrs s) (t_cap s) (t_A s) (t_F s)) by (apply ringl_write; assumption).
  assert (Hoth : forall u, u <> t ->
            hold_of (upd (t_ptrs s) (t_F s mod t_cap s) b) (t_cap s) (t_F s) (t_pc (t_thr s u)) =
            hold_of (t_ptrs s) (t_cap s) (t_F s) (t_pc (t_thr s u))).
  { intros u Hu. destruct (t_pc (t_thr s u)) eqn:E; try reflexivity.
    exfalso. apply Hu. apply C11; [rewrite E; reflexivity|assumption]. }
  assert (Hme : hold_of (upd (t_ptrs s) (t_F s mod t_cap s) b) (t_cap s) (t_F s) (t_pc x') = Some b).
  { rewrite Hpc. simpl. unfold upd. now rewrite Nat.eqb_refl. }
  set (ptrs' := upd (t_ptrs s) (t_F s mod t_cap s) b) in *.
  tbuild s' Hsh Et; try assumption; rewrite ?ER; try assumption; try reflexivity.
  - intros u b0 Hu. tupd; [rewrite Hme in Hu; assert (b0 = b) by congruence; subst b0; eapply C9; eauto|].
    rewrite Hoth in Hu by assumption. eapply C9; eauto.
  - intros u v b0 Hu Hv. tupd; try reflexivity; rewrite ?Hme, ?Hoth in * by assumption.
    + assert (b0 = b) by congruence. subst b0. symmetry. eapply C10; eauto.
    + assert (b0 = b) by congruence. subst b0. eapply C10; eauto.
    + eapply C10; eauto.
  - intros u v Hu Hv. tupd; try reflexivity; try (rewrite Hpc in * ); simpl in *.
    + symmetry. eapply C11; eauto.
    + eapply C11; eauto.
    + eapply C11; eauto.
  - intros L u. rewrite (C12 L t) in Hl0. discriminate.
  - intros u. tupd; [rewrite Hpc; simpl; now rewrite nmod_succ|].
    pose proof (C13 u) as K. destruct (t_pc (t_thr s u)); simpl in *; try assumption.
    destruct K as (K1 & K2 & K3 & K4 & K5). repeat split; try assumption.
    intros E1 E2. rewrite (K4 E1 E2). unfold ptrs', upd.
    destruct (Nat.eqb_spec e (t_F s mod t_cap s)) as [E|E]; [|reflexivity].
    exfalso. apply (nmod_neq_range (t_cap s) (t_A s) (t_F s) C0); [lia|congruence].
Qed.

(* (g) the lock holder publishes the new free_idx: the written slot joins the ring *)
Lemma L_store s s' t x' pos :
  TInv s -> t_pc (t_thr s t) = FStore pos ->
  shared s' (t_cap s) (t_alloc s) (t_cached s) pos (t_ptrs s) (t_lock s) (t_out s)
         (t_dups s) (t_A s) (S (t_F s)) (t_clog s) (t_cver s) ->
  (forall u, t_thr s' u = upd (t_thr s) t x' u) -> t_pc x' = FSeg3 -> TInv s'.
Proof.
  intros I Epc Hsh Et Hpc.
  pose proof I as [C0 C1 C2 C3 C4 C5 C6 C7 C8 C9 C10 C11 C12 C13 C14].
  unfold ringl, hold, kn in *.
  set (b := t_ptrs s (t_F s mod t_cap s)) in *.
  assert (Hh : hold_of (t_ptrs s) (t_cap s) (t_F s) (t_pc (t_thr s t)) = Some b) by (rewrite Epc; reflexivity).
  destruct (C9 t b Hh) as (B1 & B2 & B3).
  assert (Hpos : pos = (t_F s + 1) mod t_cap s) by (pose proof (C13 t) as K; rewrite Epc in K; exact K).
  assert (Hl0 : holds_lock (t_pc (t_thr s t)) = true) by (rewrite Epc; reflexivity).
  assert (ER : ringl_of (t_ptrs s) (t_cap s) (t_A s) (S (t_F s)) = ringl_of (t_ptrs s) (t_cap s) (t_A s) (t_F s) ++ [b]).
  { apply ringl_free; [assumption|lia]. }
  assert (Hoth : forall u, u <> t ->
            hold_of (t_ptrs s) (t_cap s) (S (t_F s)) (t_pc (t_thr s u)) =
            hold_of (t_ptrs s) (t_cap s) (t_F s) (t_pc (t_thr s u))).
  { intros u Hu. destruct (t_pc (t_thr s u)) eqn:E; try reflexivity.
    exfalso. apply Hu. apply C11; [rewrite E; reflexivity|assumption]. }
  tbuild s' Hsh Et; try assumption; rewrite ?ER.
  - rewrite Hpos. f_equal. lia.
  - lia.
  - destruct C4 as [K1 K2]. split; [assumption|lia].
  - apply NoDup_app_one; assumption.
  - intros b0. rewrite in_app_iff. simpl. intros [K|[K|[]]]; [now apply C6|subst; assumption].
  - intros b0 K. destruct (C8 b0 K) as [K1 K2]. split; [assumption|]. rewrite in_app_iff. simpl.
    intros [K3|[K3|[]]]; [contradiction|]. subst b0. contradiction.
  - intros u b0 Hu. tupd; [rewrite Hpc in Hu; discriminate|]. rewrite Hoth in Hu by assumption.
    destruct (C9 u b0 Hu) as (K1 & K2 & K3). repeat split; try assumption. rewrite in_app_iff. simpl.
    intros [K|[K|[]]]; [contradiction|]. subst b0. apply n. eapply C10; eauto.
  - intros u v b0 Hu Hv. tupd; try reflexivity; try (rewrite Hpc in *; discriminate).
    rewrite Hoth in * by assumption. eapply C10; eauto.
  - intros u v Hu Hv. tupd; try reflexivity; try (rewrite Hpc in * ); simpl in *.
    + symmetry. eapply C11; eauto.
    + eapply C11; eauto.
    + eapply C11; eauto.
  - intros L u. rewrite (C12 L t) in Hl0. discriminate.
  - intros u. tupd; [rewrite Hpc; exact Logic.I|].
    pose proof (C13 u) as K. destruct (t_pc (t_thr s u)) eqn:E; simpl in *; try assumption.
    + destruct K as (K1 & K2 & K3 & K4 & K5). repeat split; try assumption; lia.
    + exfalso. apply n. apply C11; [rewrite E; reflexivity|assumption].
Qed.

Lemma some_fst_inv {A B} (p : A * B) a b : Some p = Some (a, b) -> a = fst p.
Proof. intros H; inversion H; reflexivity. Qed.

Lemma nxt_t_cases sc : nxt_t sc = TFin \/ nxt_t sc = TYield.
Proof. unfold nxt_t. destruct (nxt_is_fin sc); auto. Qed.

Ltac sh12 := repeat split; reflexivity.
Ltac l_thr I t := eapply L_thr with (t := t); [exact I | sh12 | intros ?u; reflexivity | | | ].

Lemma segA_inv s t x e ve notes :
  TInv s -> hold s (t_pc (t_thr s t)) = None -> holds_lock (t_pc (t_thr s t)) = false ->
  TInv (fst (t_segA s t x e ve notes)).
Proof.
  intros I Hh Hl. unfold t_segA.
  destruct (Nat.eqb_spec ((e + 1) mod t_cap s) (t_cached s)) as [E|E]; simpl fst.
  - l_thr I t; simpl; try (symmetry; assumption). unfold kn; simpl. reflexivity.
  - l_thr I t; simpl; try (symmetry; assumption). unfold kn; simpl. repeat split; auto.
Qed.

Lemma tstep_tinv P s t ch s' l : TInv s -> tstep P s t ch = Some (s', l) -> t_race s' = false -> TInv s'.
Proof.
  intros I Hs Hr. pose proof I as [C0 C1 C2 C3 C4 C5 C6 C7 C8 C9 C10 C11 C12 C13 C14].
  unfold tstep in Hs. destruct (Nat.leb (t_n s) t); [discriminate|].
  pose proof (C13 t) as Kt. unfold kn in Kt.
  destruct (t_pc (t_thr s t)) eqn:Epc; try discriminate.
  - (* TIdle *)
    apply some_pair_inv in Hs as [<- _]. destruct (nxt_t_cases (t_script (t_thr s t))) as [E|E];
      l_thr I t; simpl; rewrite ?E, ?Epc; try reflexivity; exact Logic.I.
  - (* TYield *)
    apply some_pair_inv in Hs as [<- _]. l_thr I t; simpl; rewrite ?Epc; try reflexivity; exact Logic.I.
  - (* TBegin *)
    destruct (t_script (t_thr s t)) as [|o r] eqn:Esc.
    + apply some_pair_inv in Hs as [<- _]. l_thr I t; simpl; rewrite ?Epc; try reflexivity; exact Logic.I.
    + destruct o as [|k|k].
      * apply some_fst_inv in Hs. rewrite Hs. apply segA_inv; [assumption|rewrite Epc; reflexivity|rewrite Epc; reflexivity].
      * destruct (pick_pos t (OpFree k) (t_out s)) as [j|] eqn:Ep; apply some_pair_inv in Hs as [<- _].
        -- eapply L_pick with (t := t) (j := j); [exact I|eapply pick_pos_lt; eauto|sh12|intros u; reflexivity
             |rewrite Epc; reflexivity|rewrite Epc; reflexivity|reflexivity].
        -- destruct (nxt_t_cases r) as [E|E]; l_thr I t; simpl; rewrite ?E, ?Epc; try reflexivity; exact Logic.I.
      * destruct (pick_pos t (OpFreeOwn k) (t_out s)) as [j|] eqn:Ep; apply some_pair_inv in Hs as [<- _].
        -- eapply L_pick with (t := t) (j := j); [exact I|eapply pick_pos_lt; eauto|sh12|intros u; reflexivity
             |rewrite Epc; reflexivity|rewrite Epc; reflexivity|reflexivity].
        -- destruct (nxt_t_cases r) as [E|E]; l_thr I t; simpl; rewrite ?E, ?Epc; try reflexivity; exact Logic.I.
  - (* TFin *)
    apply some_pair_inv in Hs as [<- _]. l_thr I t; simpl; rewrite ?Epc; try reflexivity; exact Logic.I.
  - (* ALoad *)
    apply some_pair_inv in Hs as [<- _]. l_thr I t; simpl; rewrite ?Epc; try reflexivity.
    unfold kn; simpl. repeat split; try lia; try assumption.
    rewrite C2. symmetry. now apply nmod_add_cap.
  - (* AAfter *)
    destruct Kt as (K1 & K2 & K3 & K4 & K5).
    assert (Evl : vl = t_A s).
    { destruct (Nat.eqb_spec vl (t_A s)) as [E|E]; [assumption|]. exfalso.
      destruct (Nat.eqb p v); apply some_pair_inv in Hs as [<- _];
        cbn [t_race t_set_thr t_set_harness t_set_cached t_set_uncov t_set_alloc] in Hr;
        cbn [negb] in Hr; rewrite Bool.orb_true_r in Hr; discriminate. }
    specialize (K5 Evl).
    destruct (Nat.eqb_spec p v) as [Epv|Epv]; apply some_pair_inv in Hs as [<- _].
    + destruct (nxt_t_cases (t_script (t_thr s t))) as [E|E];
        (eapply L_cached with (t := t) (v := v) (gf := gf);
         [exact I|assumption|lia|sh12|intros u; reflexivity|rewrite Epc; reflexivity|rewrite Epc; reflexivity
         |simpl; rewrite E; reflexivity|simpl; rewrite E; reflexivity|simpl; rewrite E; exact Logic.I]).
    + eapply L_cached with (t := t) (v := v) (gf := gf);
        [exact I|assumption|lia|sh12|intros u; reflexivity|rewrite Epc; reflexivity|rewrite Epc; reflexivity
        |reflexivity|reflexivity|simpl; repeat split; auto].
  - (* ACas *)
    destruct Kt as (K1 & K2 & K3 & K4 & K5).
    destruct (Nat.eqb_spec (t_alloc s) e) as [Ee|Ee].
    + destruct (Nat.eqb ch 1).
      * apply some_pair_inv in Hs as [<- _]. l_thr I t; simpl; rewrite ?Epc; try reflexivity; exact Logic.I.
      * apply some_pair_inv in Hs as [<- _].
        cbn [t_race t_set_thr t_set_harness t_set_cached t_set_uncov t_set_alloc] in Hr.
        apply Bool.orb_false_iff in Hr as [Hr Hr3]. apply Bool.orb_false_iff in Hr as [Hr1 Hr2].
        apply Bool.negb_false_iff, Nat.eqb_eq in Hr2, Hr3.
        rewrite C1 in Ee. symmetry in Ee.
        specialize (K4 Hr2 Ee). specialize (K5 Hr3).
        destruct C4 as [Q1 Q2].
        assert (Ep : p = (t_A s + 1) mod t_cap s) by (rewrite K1, Ee; now apply nmod_succ).
        assert (Hcl : t_A s + 2 <= t_clog s).
        { destruct (Nat.eq_dec (t_clog s) (t_A s + 1)) as [E|E]; [|lia]. exfalso. apply K5. rewrite Q1, Ep, E. reflexivity. }
        eapply L_alloc with (t := t) (d := d);
          [exact I|rewrite K4, Ee; reflexivity|assumption| |intros u; reflexivity|rewrite Epc; reflexivity|rewrite Epc; reflexivity|reflexivity].
        rewrite <- Ep. sh12.
    + apply some_pair_inv in Hs as [<- _]. l_thr I t; simpl; rewrite ?Epc; try reflexivity; exact Logic.I.
  - (* ARetry *)
    apply some_fst_inv in Hs. rewrite Hs.
    apply segA_inv; [assumption|rewrite Epc; reflexivity|rewrite Epc; reflexivity].
  - (* ARet *)
    apply some_pair_inv in Hs as [<- _].
    eapply L_ret with (t := t) (d := d); [exact I|assumption|sh12|intros u; reflexivity|apply nxt_t_cases].
  - (* FLock *)
    apply some_pair_inv in Hs as [<- _].
    eapply L_lock with (t := t) (b := b); [exact I|assumption|sh12|intros u; reflexivity|reflexivity].
  - (* FSpin1 *)
    apply some_pair_inv in Hs as [<- _]. l_thr I t; simpl; rewrite ?Epc; try reflexivity; exact Logic.I.
  - (* FYieldE *)
    apply some_pair_inv in Hs as [<- _]. l_thr I t; simpl; rewrite ?Epc; try reflexivity; exact Logic.I.
  - (* FSpin2 *)
    apply some_pair_inv in Hs as [<- _]. l_thr I t; simpl; rewrite ?Epc; try reflexivity; exact Logic.I.
  - (* FWrite *)
    apply some_pair_inv in Hs as [<- _].
    eapply L_write with (t := t) (b := b); [exact I|assumption|sh12|intros u; reflexivity|reflexivity].
  - (* FStore *)
    apply some_pair_inv in Hs as [<- _].
    eapply L_store with (t := t) (pos := pos); [exact I|assumption|sh12|intros u; reflexivity|reflexivity].
  - (* FSeg3 *)
    apply some_pair_inv in Hs as [<- _]. l_thr I t; simpl; rewrite ?Epc; try reflexivity; exact Logic.I.
  - (* FUnlock *)
    apply some_pair_inv in Hs as [<- _].
    eapply L_unlock with (t := t); [exact I|assumption|sh12|intros u; reflexivity|reflexivity].
Qed.

(* ---------------- the racy windows cannot be hit by a single allocator thread ---------------- *)
Definition alloc_pc (p : tpc) : bool :=
  match p with ALoad _ _ _ | AAfter _ _ _ _ _ _ | ACas _ _ _ _ _ _ | ARetry _ _ | ARet _ => true | _ => false end.
(* the allocator's ghost registers are current (nobody else moves alloc_idx or cached_free_pos),
   and its expected value is the current alloc_idx *)
Definition sk (s : tsys) (p : tpc) : Prop :=
  match p with
  | ALoad e _ ve => ve = t_A s /\ e = t_alloc s
  | AAfter e _ _ ve vl _ => ve = t_A s /\ vl = t_A s /\ e = t_alloc s
  | ACas e _ _ ve va vc => ve = t_A s /\ va = t_A s /\ vc = t_cver s /\ e = t_alloc s
  | ARetry e ve => ve = t_A s /\ e = t_alloc s
  | _ => True
  end.

Record SK (a : nat) (s : tsys) : Prop := {
  sk_oth : forall t, t <> a -> (t < t_n s -> has_alloc (t_script (t_thr s t)) = false) /\ alloc_pc (t_pc (t_thr s t)) = false;
  sk_me : forall t, sk s (t_pc (t_thr s t));
  sk_race : t_race s = false;
}.

Lemma has_alloc_tl' o r : has_alloc (o :: r) = false -> has_alloc r = false.
Proof. unfold has_alloc; simpl. destruct o; simpl; intros; congruence. Qed.

(* a step of a thread outside the allocation path leaves alloc_idx, cached_free_pos and the flag alone *)
Lemma tstep_nonalloc P s t ch s' l :
  tstep P s t ch = Some (s', l) -> alloc_pc (t_pc (t_thr s t)) = false ->
  (forall r, t_pc (t_thr s t) = TBegin -> t_script (t_thr s t) <> OpAlloc :: r) ->
  t_A s' = t_A s /\ t_cver s' = t_cver s /\ t_alloc s' = t_alloc s /\ t_race s' = t_race s /\ t_n s' = t_n s /\
  t_badnull s' = t_badnull s /\
  (forall u, u <> t -> t_thr s' u = t_thr s u) /\
  alloc_pc (t_pc (t_thr s' t)) = false /\
  (has_alloc (t_script (t_thr s t)) = false -> has_alloc (t_script (t_thr s' t)) = false).
Proof.
  unfold tstep. destruct (Nat.leb (t_n s) t); [discriminate|].
  intros Hs Hp Hna.
  destruct (t_pc (t_thr s t)) eqn:Epc; try discriminate;
    try (apply some_pair_inv in Hs as [<- _]; simpl; rewrite upd_same; simpl;
         repeat split; try assumption; try (intros u Hu; apply upd_other; assumption);
         try (unfold nxt_t; destruct (nxt_is_fin _); reflexivity); auto; fail).
  - (* TBegin *)
    destruct (t_script (t_thr s t)) as [|o r] eqn:Esc.
    + apply some_pair_inv in Hs as [<- _]; simpl; rewrite upd_same; simpl.
      repeat split; try assumption; try (intros u Hu; apply upd_other; assumption); auto.
    + pose proof (has_alloc_tl' o r) as Hr.
      destruct o as [|k|k]; [exfalso; eapply Hna; eauto| |].
      * destruct (pick_pos t (OpFree k) (t_out s)); apply some_pair_inv in Hs as [<- _]; simpl; rewrite upd_same; simpl;
          repeat split; try assumption; try (intros u Hu; apply upd_other; assumption);
          try (unfold nxt_t; destruct (nxt_is_fin _); reflexivity); auto.
      * destruct (pick_pos t (OpFreeOwn k) (t_out s)); apply some_pair_inv in Hs as [<- _]; simpl; rewrite upd_same; simpl;
          repeat split; try assumption; try (intros u Hu; apply upd_other; assumption);
          try (unfold nxt_t; destruct (nxt_is_fin _); reflexivity); auto.
  - (* FLock *)
    apply some_pair_inv in Hs as [<- _]; simpl; rewrite upd_same; simpl.
    repeat split; try assumption; try (intros u Hu; apply upd_other; assumption); auto. destruct (t_lock s); reflexivity.
Qed.

Lemma sk_nonalloc s p : alloc_pc p = false -> sk s p.
Proof. destruct p; simpl; intros; try exact Logic.I; discriminate. Qed.
Lemma sk_same s s' p : t_A s' = t_A s -> t_cver s' = t_cver s -> t_alloc s' = t_alloc s -> sk s p -> sk s' p.
Proof. intros E1 E2 E3. destruct p; simpl; rewrite ?E1, ?E2, ?E3; auto. Qed.

(* the allocator's own steps *)
Lemma SK_me a s s' :
  SK a s -> t_n s' = t_n s -> (forall u, u <> a -> t_thr s' u = t_thr s u) ->
  t_race s' = false -> sk s' (t_pc (t_thr s' a)) -> SK a s'.
Proof.
  intros [O M R] En Eo Er Hk. constructor; [| |assumption].
  - intros u Hu. rewrite En, (Eo u Hu). now apply O.
  - intros u. destruct (Nat.eq_dec u a) as [->|Hu]; [assumption|].
    rewrite (Eo u Hu). apply sk_nonalloc. now apply O.
Qed.

Lemma segA_sk a s x notes :
  SK a s -> SK a (fst (t_segA s a x (t_alloc s) (t_A s) notes)).
Proof.
  intros K. unfold t_segA. destruct (Nat.eqb ((t_alloc s + 1) mod t_cap s) (t_cached s)); simpl fst;
    (apply (SK_me a s); [assumption|reflexivity|intros u Hu; simpl; now apply upd_other|exact (sk_race a s K)
                        |simpl; rewrite upd_same; simpl; auto]).
Qed.

Lemma tstep_sk a P s t ch s' l : SK a s -> tstep P s t ch = Some (s', l) -> SK a s'.
Proof.
  intros K Hs. pose proof K as [O M R].
  assert (Hlt : t < t_n s).
  { unfold tstep in Hs. destruct (Nat.leb_spec (t_n s) t); [discriminate|assumption]. }
  destruct (Nat.eq_dec t a) as [->|Hta].
  - (* the allocator *)
    destruct (alloc_pc (t_pc (t_thr s a))) eqn:Ea.
    + pose proof (M a) as Ma. unfold tstep in Hs. destruct (Nat.leb (t_n s) a); [discriminate|].
      destruct (t_pc (t_thr s a)) eqn:Epc; try discriminate; simpl in Ma.
      * (* ALoad *) destruct Ma as (-> & ->). apply some_pair_inv in Hs as [<- _].
        apply (SK_me a s); [assumption|reflexivity|intros u Hu; simpl; now apply upd_other|exact R|simpl; rewrite upd_same; simpl; auto].
      * (* AAfter *) destruct Ma as (-> & -> & ->).
        destruct (Nat.eqb p v); apply some_pair_inv in Hs as [<- _];
          (apply (SK_me a s); [assumption|reflexivity|intros u Hu; simpl; now apply upd_other
            |simpl; rewrite R, Nat.eqb_refl; reflexivity|simpl; rewrite upd_same; simpl; auto]).
        unfold nxt_t. destruct (nxt_is_fin _); exact Logic.I.
      * (* ACas *) destruct Ma as (-> & -> & -> & ->). rewrite Nat.eqb_refl in Hs.
        destruct (Nat.eqb ch 1); apply some_pair_inv in Hs as [<- _];
          (apply (SK_me a s); [assumption|reflexivity|intros u Hu; simpl; now apply upd_other
            |simpl; rewrite ?R, ?Nat.eqb_refl; reflexivity|simpl; rewrite upd_same; simpl; auto]).
      * (* ARetry *) destruct Ma as (-> & ->). apply some_fst_inv in Hs. rewrite Hs. now apply segA_sk.
      * (* ARet *) apply some_pair_inv in Hs as [<- _].
        apply (SK_me a s); [assumption|reflexivity|intros u Hu; simpl; now apply upd_other|exact R|simpl; rewrite upd_same; simpl].
        unfold nxt_t. destruct (nxt_is_fin _); exact Logic.I.
    + destruct (t_pc (t_thr s a)) eqn:Epc; try discriminate;
        try (destruct (tstep_nonalloc P s a ch s' l Hs ltac:(rewrite Epc; reflexivity) ltac:(intros r0 E0; rewrite Epc in E0; discriminate))
               as (E1 & E2 & E3 & E4 & E5 & E6 & E7 & E8 & E9);
             apply (SK_me a s); [assumption|assumption|assumption|congruence|apply sk_nonalloc; assumption]; fail).
      (* TBegin *)
      destruct (t_script (t_thr s a)) as [|o r] eqn:Esc;
        [|destruct o as [|k|k]];
        try (destruct (tstep_nonalloc P s a ch s' l Hs ltac:(rewrite Epc; reflexivity) ltac:(intros r0 E0; rewrite Esc; discriminate))
               as (E1 & E2 & E3 & E4 & E5 & E6 & E7 & E8 & E9);
             apply (SK_me a s); [assumption|assumption|assumption|congruence|apply sk_nonalloc; assumption]; fail).
      unfold tstep in Hs. destruct (Nat.leb (t_n s) a); [discriminate|]. rewrite Epc, Esc in Hs.
      apply some_fst_inv in Hs. rewrite Hs. now apply segA_sk.
  - (* another thread: never on the allocation path *)
    destruct (O t Hta) as [O1 O2]. specialize (O1 Hlt).
    destruct (tstep_nonalloc P s t ch s' l Hs O2) as (E1 & E2 & E3 & E4 & E5 & E6 & E7 & E8 & E9).
    { intros r E Esc. rewrite Esc in O1. unfold has_alloc in O1. simpl in O1. discriminate. }
    constructor; [| |congruence].
    + intros u Hu. rewrite E5. destruct (Nat.eq_dec u t) as [->|Hut]; [split; auto|].
      rewrite (E7 u Hut). now apply O.
    + intros u. destruct (Nat.eq_dec u t) as [->|Hut]; [apply sk_nonalloc; assumption|].
      rewrite (E7 u Hut). apply (sk_same s); auto.
Qed.

(* ---------------- theorems ---------------- *)
Lemma segA_race s t x e ve notes : t_race (fst (t_segA s t x e ve notes)) = t_race s.
Proof. unfold t_segA. destruct (Nat.eqb _ _); reflexivity. Qed.
Lemma segA_badnull s t x e ve notes : t_badnull (fst (t_segA s t x e ve notes)) = t_badnull s.
Proof. unfold t_segA. destruct (Nat.eqb _ _); reflexivity. Qed.

Lemma tstep_race_mono P s t ch s' l : tstep P s t ch = Some (s', l) -> t_race s' = false -> t_race s = false.
Proof.
  unfold tstep. destruct (Nat.leb (t_n s) t); [discriminate|].
  destruct (t_pc (t_thr s t)); try discriminate;
    repeat match goal with
    | |- context [match ?x with _ => _ end] => destruct x eqn:?
    end; intros H; try (apply some_fst_inv in H; rewrite H, segA_race; auto; fail);
    apply some_pair_inv in H as [<- _]; simpl; intros Hr;
    repeat (apply Bool.orb_false_iff in Hr as [Hr ?]); assumption.
Qed.

Lemma ts_run_tinv P cap n scripts sched : 0 < cap ->
  let s := ts_run P cap n scripts sched in t_race s = false -> TInv s.
Proof.
  intros Hc. unfold ts_run.
  apply (inv_exec tsys (tstep P) (fun s => t_race s = false -> TInv s)).
  - intros s t c s' l IH Hs Hr. eapply tstep_tinv; eauto. apply IH. eapply tstep_race_mono; eauto.
  - intros _. now apply tinit_inv.
Qed.

Definition single_allocator (a n : nat) (scripts : nat -> list op) : Prop :=
  forall t, t <> a -> t < n -> has_alloc (scripts t) = false.

Lemma ts_run_sk P cap n scripts sched a : single_allocator a n scripts -> SK a (ts_run P cap n scripts sched).
Proof.
  intros Hs. unfold ts_run. apply inv_exec.
  - intros; eapply tstep_sk; eauto.
  - constructor; simpl; [intros t Ht; split; [intros; now apply Hs|reflexivity] | intros; exact Logic.I | reflexivity].
Qed.

(* with fewer than two allocator threads there is one thread that does all the allocations *)
Lemma count_allocators_single scripts n : count_allocators scripts n <= 1 -> exists a, single_allocator a n scripts.
Proof.
  induction n as [|n IH]; simpl; intros H.
  - exists 0. intros t _ Ht. lia.
  - destruct (has_alloc (scripts n)) eqn:E.
    + exists n. intros t Ht Hlt. assert (Hc : count_allocators scripts n = 0) by lia.
      assert (Hall : forall m, m <= n -> count_allocators scripts m = 0 -> forall u, u < m -> has_alloc (scripts u) = false).
      { induction m as [|m IHm]; intros Hm H0 u Hu; [lia|]. simpl in H0.
        destruct (has_alloc (scripts m)) eqn:Em; [simpl in H0; lia|].
        destruct (Nat.eq_dec u m) as [->|]; [assumption|]. apply IHm; [lia|simpl in H0; lia|lia]. }
      apply (Hall n); [lia|assumption|lia].
    + destruct (IH ltac:(simpl in H; lia)) as [a Ha]. exists a. intros t Ht Hlt.
      destruct (Nat.eq_dec t n) as [->|]; [assumption|]. apply Ha; [assumption|lia].
Qed.

(* F <= A: never more frees than allocations (the ring has at most cap entries) *)
Lemma ring_len_le s : TInv s -> t_F s <= t_A s.
Proof.
  intros I. assert (Hinc : incl (ringl s) (seq 0 (t_cap s))).
  { intros x Hx. apply in_seq. pose proof (ti_rlt s I x Hx). lia. }
  pose proof (NoDup_incl_length (ti_rnd s I) Hinc) as Hle. rewrite seq_length in Hle.
  unfold ringl in Hle. rewrite ringl_length in Hle. pose proof (ti_AG s I). lia.
Qed.

(* exhaustion is reported exactly: single allocator *)
Lemma tstep_badnull a P s t ch s' l :
  TInv s -> SK a s -> tstep P s t ch = Some (s', l) -> t_badnull s = 0 -> t_badnull s' = 0.
Proof.
  intros I K Hs Hb. pose proof (ring_len_le s I) as HFA.
  pose proof (ti_kn s I t) as Kt. pose proof (sk_me a s K t) as Mt. unfold kn in Kt.
  pose proof (ti_alloc s I) as C1. pose proof (ti_cap s I) as C0.
  unfold tstep in Hs. destruct (Nat.leb (t_n s) t); [discriminate|].
  destruct (t_pc (t_thr s t)) eqn:Epc; try discriminate;
    try (repeat match type of Hs with
         | context [match ?x with _ => _ end] => destruct x eqn:?
         end; try discriminate;
         first [ apply some_fst_inv in Hs; rewrite Hs, segA_badnull; assumption
               | apply some_pair_inv in Hs as [<- _]; simpl; assumption ]; fail).
  (* AAfter *)
  simpl in Kt, Mt. destruct Kt as (K1 & K2 & K3 & K4 & K5). destruct Mt as (-> & -> & ->).
  specialize (K5 eq_refl).
  destruct (Nat.eqb_spec p v) as [Epv|Epv]; apply some_pair_inv in Hs as [<- _]; simpl; [|assumption].
  destruct (Nat.eqb_spec (t_A s + 1) gf) as [E|E]; [assumption|]. exfalso.
  apply (nmod_neq_range (t_cap s) gf (t_A s + 1) C0); [lia|].
  rewrite <- K2, <- Epv, K1, C1. now apply nmod_succ.
Qed.

Record TsOk (cap : nat) (s : tsys) : Prop := {
  ok_dups : t_dups s = 0;                       (* no block returned while the harness map holds it *)
  ok_badnull : t_badnull s = 0;                 (* NULL only with exactly cap-1 blocks unavailable at the load of free_idx *)
  ok_race : t_race s = false;
  ok_distinct : NoDup (map fst (t_out s));      (* outstanding blocks pairwise distinct *)
  ok_count : t_F s <= t_A s /\ t_A s < t_F s + cap;   (* between 0 and cap-1 blocks are out of the ring *)
}.

Theorem ts_single_allocator_ok_all P cap n scripts a sched :
  0 < cap -> single_allocator a n scripts -> TsOk cap (ts_run P cap n scripts sched).
Proof.
  intros Hc Hs.
  assert (H : let s := ts_run P cap n scripts sched in TInv s /\ SK a s /\ t_badnull s = 0 /\ t_cap s = cap).
  { unfold ts_run. apply (inv_exec tsys (tstep P) (fun s => TInv s /\ SK a s /\ t_badnull s = 0 /\ t_cap s = cap)).
    - intros s t c s' l (I & K & B & C) Hst.
      pose proof (tstep_sk a P s t c s' l K Hst) as K'.
      split; [eapply tstep_tinv; eauto; apply (sk_race a s' K')|]. split; [assumption|].
      split; [eapply tstep_badnull; eauto|].
      pose proof (ts_run_tinv) as _. clear -Hst C. unfold tstep in Hst.
      destruct (Nat.leb (t_n s) t); [discriminate|].
      destruct (t_pc (t_thr s t)); try discriminate;
        repeat match type of Hst with
        | context [match ?x with _ => _ end] => destruct x eqn:?
        end; try discriminate;
        first [ apply some_fst_inv in Hst; rewrite Hst; unfold t_segA; destruct (Nat.eqb _ _); simpl; assumption
              | apply some_pair_inv in Hst as [<- _]; simpl; assumption ].
    - split; [now apply tinit_inv|]. split; [|split; reflexivity].
      constructor; simpl; [intros t Ht; split; [intros; now apply Hs|reflexivity] | intros; exact Logic.I | reflexivity]. }
  destruct H as (I & K & B & C). constructor.
  - apply (ti_dups _ I).
  - assumption.
  - apply (sk_race _ _ K).
  - apply (ti_ond _ I).
  - split; [now apply ring_len_le|]. pose proof (ti_AG _ I) as G. rewrite C in G. exact G.
Qed.

(* many allocators: outside the known class the property holds *)
Theorem ts_no_double_handout_partial_all P cap n scripts sched :
  0 < cap ->
  let s := ts_run P cap n scripts sched in
  in_known_class scripts n s = false -> t_dups s = 0 /\ NoDup (map fst (t_out s)).
Proof.
  intros Hc s Hk.
  assert (Hr : t_race s = false).
  { unfold in_known_class in Hk. apply Bool.andb_false_iff in Hk as [Hk|Hk]; [|assumption].
    apply Nat.leb_gt in Hk. destruct (count_allocators_single scripts n ltac:(lia)) as [a Ha].
    apply (sk_race a). now apply ts_run_sk. }
  pose proof (ts_run_tinv P cap n scripts sched Hc Hr) as I. fold s in I.
  split; [apply (ti_dups _ I)|apply (ti_ond _ I)].
Qed.

(* non-vacuity: a single allocator with a concurrent freer on capacity 2: block 0 is allocated, the second
   allocation is refused (exactly cap-1 = 1 block out), thread 1 frees block 0, the third allocation is
   served with block 1 *)
Example ts_single_nonvacuous :
  let scripts := fun t => match t with 0 => [OpAlloc; OpAlloc; OpAlloc] | 1 => [OpFree 0] | _ => [] end in
  let s := ts_run any_params 2 2 scripts (repeat (0, 0) 9 ++ repeat (1, 0) 12 ++ repeat (0, 0) 8) in
  single_allocator 0 2 scripts /\ t_A s = 2 /\ t_F s = 1 /\ t_out s = [(1, 0)] /\ t_dups s = 0 /\ t_badnull s = 0.
Proof.
  split; [intros t Ht Hlt; destruct t as [|[|t]]; [contradiction|reflexivity|lia]|].
  vm_compute. repeat split; reflexivity.
Qed.
