(* C05 — thread-safe pool: the ring invariant.  It holds in every reachable state in which none of
   the racy windows has been hit (t_race = false); with a single allocator thread no window can be
   hit.  Hence: ts_single_allocator_ok, and ts_no_double_handout_partial for many allocators. *)
From MV Require Import C05.Model C05.ProofsRing C05.ProofsTs.
Local Opaque Nat.modulo.

(* ---------------- arithmetic on ring positions ---------------- *)
Lemma nmod_neq_range c a b : 0 < c -> b < a < b + c -> a mod c <> b mod c.
Proof.
  intros Hc Hr E.
  pose proof (Nat.div_mod a c ltac:(lia)) as Ha. pose proof (Nat.div_mod b c ltac:(lia)) as Hb.
  pose proof (Nat.mod_upper_bound a c ltac:(lia)). pose proof (Nat.mod_upper_bound b c ltac:(lia)).
  assert (a / c > b / c) by nia. nia.
Qed.
Lemma nmod_eq_range c a b : 0 < c -> a mod c = b mod c -> b < a <= b + c -> a = b + c.
Proof.
  intros Hc E Hr. destruct (Nat.eq_dec a (b + c)) as [|N]; [assumption|].
  exfalso. apply (nmod_neq_range c a b Hc); [lia|assumption].
Qed.
Lemma nmod_add_cap c a : 0 < c -> (a + c) mod c = a mod c.
Proof. intros Hc. rewrite <- (Nat.mod_add a 1 c) by lia. f_equal. lia. Qed.
Lemma nmod_succ c a : 0 < c -> (a mod c + 1) mod c = (a + 1) mod c.
Proof. intros Hc. apply Nat.add_mod_idemp_l. lia. Qed.

(* ---------------- the valid part of the ring ---------------- *)
Definition ringl_of (ptrs : nat -> nat) (cap A F : nat) : list nat :=
  map (fun i => ptrs (i mod cap)) (seq A (F + cap - A)).
Definition ringl (s : tsys) : list nat := ringl_of (t_ptrs s) (t_cap s) (t_A s) (t_F s).

Lemma ringl_alloc ptrs cap A F : A < F + cap ->
  ringl_of ptrs cap A F = ptrs (A mod cap) :: ringl_of ptrs cap (S A) F.
Proof.
  intros H. unfold ringl_of. replace (F + cap - A) with (S (F + cap - S A)) by lia. reflexivity.
Qed.
Lemma ringl_free ptrs cap A F : 0 < cap -> A <= F + cap ->
  ringl_of ptrs cap A (S F) = ringl_of ptrs cap A F ++ [ptrs (F mod cap)].
Proof.
  intros Hc H. unfold ringl_of. replace (S F + cap - A) with (S (F + cap - A)) by lia.
  rewrite seq_S, map_app. simpl. replace (A + (F + cap - A)) with (F + cap) by lia.
  rewrite nmod_add_cap by assumption. reflexivity.
Qed.
Lemma ringl_write ptrs cap A F b : 0 < cap -> F < A ->
  ringl_of (upd ptrs (F mod cap) b) cap A F = ringl_of ptrs cap A F.
Proof.
  intros Hc H. unfold ringl_of. apply map_ext_in. intros i Hi. apply in_seq in Hi.
  unfold upd. destruct (Nat.eqb_spec (i mod cap) (F mod cap)) as [E|E]; [|reflexivity].
  exfalso. apply (nmod_neq_range cap i F Hc); [lia|assumption].
Qed.
Lemma ringl_length ptrs cap A F : length (ringl_of ptrs cap A F) = F + cap - A.
Proof. unfold ringl_of. now rewrite map_length, seq_length. Qed.

(* pigeonhole: a duplicate-free list of block ids below cap that misses one id is shorter than cap *)
Lemma short_list (l : list nat) cap b : NoDup l -> (forall x, In x l -> x < cap) -> b < cap -> ~ In b l -> length l < cap.
Proof.
  intros Hn Hl Hb Hni.
  assert (Hinc : incl l (seq 0 cap)) by (intros x Hx; apply in_seq; specialize (Hl x Hx); lia).
  pose proof (NoDup_incl_length Hn Hinc) as Hle. rewrite seq_length in Hle.
  destruct (Nat.eq_dec (length l) cap) as [E|E]; [|lia].
  exfalso. apply Hni. apply (@NoDup_length_incl _ l (seq 0 cap) Hn); [rewrite seq_length; lia|assumption|]. apply in_seq. lia.
Qed.

(* ---------------- invariant ---------------- *)
Definition holds_lock (p : tpc) : bool :=
  match p with FWrite _ | FStore _ | FSeg3 | FUnlock => true | _ => false end.
(* the block a thread holds outside ring and ownership list (taken but not yet returned to the
   caller / given to free but not yet published by free_idx) *)
Definition hold_of (ptrs : nat -> nat) (cap F : nat) (p : tpc) : option nat :=
  match p with
  | ARet d => Some d
  | FLock b | FSpin1 b | FYieldE b | FSpin2 b | FWrite b => Some b
  | FStore _ => Some (ptrs (F mod cap))
  | _ => None
  end.
Definition hold (s : tsys) (p : tpc) : option nat := hold_of (t_ptrs s) (t_cap s) (t_F s) p.
(* what a thread knows at its program point *)
Definition kn_of (ptrs : nat -> nat) (cap A F cached cver : nat) (p : tpc) : Prop :=
  match p with
  | ALoad e p' _ => p' = (e + 1) mod cap
  | AAfter e p' v _ vl gf =>
    p' = (e + 1) mod cap /\ v = gf mod cap /\ vl <= A /\ gf <= F + cap /\ (vl = A -> A < gf)
  | ACas e p' d _ va vc =>
    p' = (e + 1) mod cap /\ va <= A /\ vc <= cver /\
    (va = A -> e = A mod cap -> d = ptrs e) /\ (vc = cver -> p' <> cached)
  | FStore pos => pos = (F + 1) mod cap
  | _ => True
  end.
Definition kn (s : tsys) (p : tpc) : Prop :=
  kn_of (t_ptrs s) (t_cap s) (t_A s) (t_F s) (t_cached s) (t_cver s) p.

Record TInv (s : tsys) : Prop := {
  ti_cap : 0 < t_cap s;
  ti_alloc : t_alloc s = t_A s mod t_cap s;
  ti_free : t_free s = t_F s mod t_cap s;
  ti_AG : t_A s < t_F s + t_cap s;
  ti_cached : t_cached s = t_clog s mod t_cap s /\ t_A s < t_clog s <= t_F s + t_cap s;
  ti_rnd : NoDup (ringl s);
  ti_rlt : forall b, In b (ringl s) -> b < t_cap s;
  ti_ond : NoDup (map fst (t_out s));
  ti_out : forall b, In b (map fst (t_out s)) -> b < t_cap s /\ ~ In b (ringl s);
  ti_hold : forall t b, hold s (t_pc (t_thr s t)) = Some b ->
            b < t_cap s /\ ~ In b (ringl s) /\ ~ In b (map fst (t_out s));
  ti_hold1 : forall t u b, hold s (t_pc (t_thr s t)) = Some b -> hold s (t_pc (t_thr s u)) = Some b -> t = u;
  ti_lock1 : forall t u, holds_lock (t_pc (t_thr s t)) = true -> holds_lock (t_pc (t_thr s u)) = true -> t = u;
  ti_lock0 : t_lock s = false -> forall t, holds_lock (t_pc (t_thr s t)) = false;
  ti_kn : forall t, kn s (t_pc (t_thr s t));
  ti_dups : t_dups s = 0;
}.

(* a thread that holds a block proves that the ring is not full: the slot at free_idx is vacant *)
Lemma ring_not_full s t b : TInv s -> hold s (t_pc (t_thr s t)) = Some b -> t_F s < t_A s.
Proof.
  intros I H. destruct (ti_hold s I t b H) as (H1 & H2 & _).
  pose proof (short_list (ringl s) (t_cap s) b (ti_rnd s I) (ti_rlt s I) H1 H2) as L.
  unfold ringl in L. rewrite ringl_length in L. pose proof (ti_AG s I). lia.
Qed.

Lemma tinit_inv cap n scripts : 0 < cap -> TInv (tinit cap n scripts).
Proof.
  intros Hc. constructor; simpl; try lia; try discriminate; try (intros; discriminate); auto.
  - symmetry. apply Nat.mod_0_l. lia.
  - symmetry. apply Nat.mod_0_l. lia.
  - split; [|lia]. symmetry. apply Nat.mod_same. lia.
  - unfold ringl, ringl_of. simpl. rewrite Nat.sub_0_r.
    rewrite (map_ext_in _ (fun i => i)); [rewrite map_id; apply seq_NoDup|].
    intros i Hi. apply in_seq in Hi. apply Nat.mod_small. lia.
  - intros b Hb. unfold ringl, ringl_of in Hb. simpl in Hb. apply in_map_iff in Hb as (i & <- & Hi).
    apply Nat.mod_upper_bound. lia.
  - constructor.
Qed.

(* the invariant only speaks about these components of the state *)
Lemma TInv_build s' cap alloc cached free ptrs lock out dups A F clog cver (thr : nat -> tthread) :
  t_cap s' = cap -> t_alloc s' = alloc -> t_cached s' = cached -> t_free s' = free -> t_ptrs s' = ptrs ->
  t_lock s' = lock -> t_out s' = out -> t_dups s' = dups -> t_A s' = A -> t_F s' = F -> t_clog s' = clog ->
  t_cver s' = cver -> (forall u, t_thr s' u = thr u) ->
  0 < cap -> alloc = A mod cap -> free = F mod cap -> A < F + cap ->
  (cached = clog mod cap /\ A < clog <= F + cap) ->
  NoDup (ringl_of ptrs cap A F) -> (forall b, In b (ringl_of ptrs cap A F) -> b < cap) ->
  NoDup (map fst out) -> (forall b, In b (map fst out) -> b < cap /\ ~ In b (ringl_of ptrs cap A F)) ->
  (forall t b, hold_of ptrs cap F (t_pc (thr t)) = Some b ->
     b < cap /\ ~ In b (ringl_of ptrs cap A F) /\ ~ In b (map fst out)) ->
  (forall t u b, hold_of ptrs cap F (t_pc (thr t)) = Some b -> hold_of ptrs cap F (t_pc (thr u)) = Some b -> t = u) ->
  (forall t u, holds_lock (t_pc (thr t)) = true -> holds_lock (t_pc (thr u)) = true -> t = u) ->
  (lock = false -> forall t, holds_lock (t_pc (thr t)) = false) ->
  (forall t, kn_of ptrs cap A F cached cver (t_pc (thr t))) ->
  dups = 0 -> TInv s'.
Proof.
  intros <- <- <- <- <- <- <- <- <- <- <- <- Et. intros.
  constructor; unfold ringl, hold, kn; intros; rewrite ?Et in *; eauto.
Qed.

Definition same12 (s s' : tsys) : Prop :=
  t_cap s' = t_cap s /\ t_alloc s' = t_alloc s /\ t_cached s' = t_cached s /\ t_free s' = t_free s /\
  t_ptrs s' = t_ptrs s /\ t_lock s' = t_lock s /\ t_out s' = t_out s /\ t_dups s' = t_dups s /\
  t_A s' = t_A s /\ t_F s' = t_F s /\ t_clog s' = t_clog s /\ t_cver s' = t_cver s.

Ltac tupd := simpl in *; repeat (match goal with
  | H : context [upd (t_thr _) ?t _ ?u] |- _ => unfold upd in H; destruct (Nat.eqb_spec u t); subst
  | |- context [upd (t_thr _) ?t _ ?u] => unfold upd; destruct (Nat.eqb_spec u t); subst
  end; simpl in * ).

(* (a) a step that changes only the stepping thread, keeping what it holds *)
Lemma L_thr s s' t x' :
  TInv s -> same12 s s' -> (forall u, t_thr s' u = upd (t_thr s) t x' u) ->
  hold s (t_pc x') = hold s (t_pc (t_thr s t)) ->
  holds_lock (t_pc x') = holds_lock (t_pc (t_thr s t)) -> kn s (t_pc x') -> TInv s'.
Proof.
  intros I (E1 & E2 & E3 & E4 & E5 & E6 & E7 & E8 & E9 & E10 & E11 & E12) Et Hh Hl Hk.
  pose proof I as [C0 C1 C2 C3 C4 C5 C6 C7 C8 C9 C10 C11 C12 C13 C14].
  unfold ringl, hold, kn in *.
  eapply (TInv_build s' _ _ _ _ _ _ _ _ _ _ _ _ _ E1 E2 E3 E4 E5 E6 E7 E8 E9 E10 E11 E12 Et); try assumption.
  - intros u b Hu. tupd; [rewrite Hh in Hu|]; eapply C9; eauto.
  - intros u v b Hu Hv. tupd; try reflexivity; try (rewrite Hh in *); eapply C10; eauto.
  - intros u v Hu Hv. tupd; try reflexivity; try (rewrite Hl in *); eapply C11; eauto.
  - intros L u. tupd; [rewrite Hl|]; now apply C12.
  - intros u. tupd; [assumption|apply C13].
Qed.

Definition shared (s' : tsys) cap alloc cached free ptrs lock out dups A F clog cver : Prop :=
  t_cap s' = cap /\ t_alloc s' = alloc /\ t_cached s' = cached /\ t_free s' = free /\
  t_ptrs s' = ptrs /\ t_lock s' = lock /\ t_out s' = out /\ t_dups s' = dups /\
  t_A s' = A /\ t_F s' = F /\ t_clog s' = clog /\ t_cver s' = cver.

Ltac tbuild s' Hsh Et :=
  let E1 := fresh in let E2 := fresh in let E3 := fresh in let E4 := fresh in let E5 := fresh in
  let E6 := fresh in let E7 := fresh in let E8 := fresh in let E9 := fresh in let E10 := fresh in
  let E11 := fresh in let E12 := fresh in
  destruct Hsh as (E1 & E2 & E3 & E4 & E5 & E6 & E7 & E8 & E9 & E10 & E11 & E12);
  eapply (TInv_build s' _ _ _ _ _ _ _ _ _ _ _ _ _ E1 E2 E3 E4 E5 E6 E7 E8 E9 E10 E11 E12 Et).

(* (b1) free is called: the harness takes entry j out of its list *)
Lemma L_pick s s' t x' j :
  TInv s -> j < length (t_out s) ->
  shared s' (t_cap s) (t_alloc s) (t_cached s) (t_free s) (t_ptrs s) (t_lock s) (remove_nth j (t_out s))
         (t_dups s) (t_A s) (t_F s) (t_clog s) (t_cver s) ->
  (forall u, t_thr s' u = upd (t_thr s) t x' u) ->
  hold s (t_pc (t_thr s t)) = None -> holds_lock (t_pc (t_thr s t)) = false ->
  t_pc x' = FLock (fst (nth j (t_out s) (0, 0))) -> TInv s'.
Proof.
  intros I Hj Hsh Et Hh Hl Hpc.
  pose proof I as [C0 C1 C2 C3 C4 C5 C6 C7 C8 C9 C10 C11 C12 C13 C14].
  unfold ringl, hold, kn in *.
  set (b := fst (nth j (t_out s) (0, 0))) in *.
  assert (Hbn : b = nth j (map fst (t_out s)) 0).
  { unfold b. rewrite (nth_indep _ 0 (fst (0, 0))) by (rewrite map_length; assumption). now rewrite map_nth. }
  assert (Hin : In b (map fst (t_out s))) by (rewrite Hbn; apply nth_In; rewrite map_length; assumption).
  destruct (remove_nth_nodup j (map fst (t_out s)) 0 C7 ltac:(rewrite map_length; assumption)) as [N1 N2].
  rewrite <- remove_nth_map in N1, N2. rewrite <- Hbn in N2.
  tbuild s' Hsh Et; try assumption.
  - intros b0 K. apply C8. rewrite remove_nth_map in K. eapply remove_nth_in; eauto.
  - intros u b0 Hu. tupd.
    + rewrite Hpc in Hu. simpl in Hu. assert (b0 = b) by congruence. subst b0.
      destruct (C8 b Hin). repeat split; assumption.
    + destruct (C9 u b0 Hu) as (K1 & K2 & K3). repeat split; try assumption.
      intros K. apply K3. rewrite remove_nth_map in K. eapply remove_nth_in; eauto.
  - intros u v b0 Hu Hv. tupd; try reflexivity; try (rewrite Hpc in *; simpl in * );
      try (match goal with H : hold_of _ _ _ (t_pc (t_thr s ?z)) = Some ?b' |- _ =>
             assert (b' = b) by congruence; subst b'; destruct (C9 z b H) as (_ & _ & K); contradiction end).
    eapply C10; eauto.
  - intros u v Hu Hv. tupd; try reflexivity; try (rewrite Hpc in *; simpl in *; discriminate). eapply C11; eauto.
  - intros L u. tupd; [rewrite Hpc; reflexivity|]. now apply C12.
  - intros u. tupd; [rewrite Hpc; exact Logic.I|apply C13].
Qed.

(* (b2) alloc returns block d to the harness *)
Lemma L_ret s s' t x' d :
  TInv s -> t_pc (t_thr s t) = ARet d ->
  shared s' (t_cap s) (t_alloc s) (t_cached s) (t_free s) (t_ptrs s) (t_lock s) (ret_out (t_out s) d t)
         (ret_dups (t_out s) d (t_dups s)) (t_A s) (t_F s) (t_clog s) (t_cver s) ->
  (forall u, t_thr s' u = upd (t_thr s) t x' u) ->
  t_pc x' = TFin \/ t_pc x' = TYield -> TInv s'.
Proof.
  intros I Epc Hsh Et Hpc.
  pose proof I as [C0 C1 C2 C3 C4 C5 C6 C7 C8 C9 C10 C11 C12 C13 C14].
  unfold ringl, hold, kn in *.
  assert (Hh : hold_of (t_ptrs s) (t_cap s) (t_F s) (t_pc (t_thr s t)) = Some d) by (rewrite Epc; reflexivity).
  destruct (C9 t d Hh) as (D1 & D2 & D3).
  assert (Hf : owned_in d (t_out s) = false) by (now apply owned_in_false_iff).
  unfold ret_out, ret_dups in Hsh. rewrite Hf in Hsh.
  assert (Hn : hold_of (t_ptrs s) (t_cap s) (t_F s) (t_pc x') = None /\ holds_lock (t_pc x') = false /\
               kn_of (t_ptrs s) (t_cap s) (t_A s) (t_F s) (t_cached s) (t_cver s) (t_pc x')).
  { destruct Hpc as [-> | ->]; repeat split. }
  destruct Hn as (N1 & N2 & N3).
  tbuild s' Hsh Et; try assumption.
  - rewrite map_app. simpl. apply NoDup_app_one; assumption.
  - intros b. rewrite map_app, in_app_iff. simpl. intros [K|[K|[]]]; [now apply C8|subst; split; assumption].
  - intros u b Hu. rewrite map_app, in_app_iff. simpl. tupd; [congruence|].
    destruct (C9 u b Hu) as (K1 & K2 & K3). repeat split; try assumption.
    intros [K|[K|[]]]; [contradiction|]. subst b. apply n. eapply C10; eauto.
  - intros u v b Hu Hv. tupd; try reflexivity; try congruence. eapply C10; eauto.
  - intros u v Hu Hv. tupd; try reflexivity; try congruence. eapply C11; eauto.
  - intros L u. tupd; [assumption|]. now apply C12.
  - intros u. tupd; [assumption|apply C13].
Qed.

(* (c) cached_free_pos := the value loaded from free_idx, with no allocation since the load *)
Lemma L_cached s s' t x' v gf :
  TInv s -> v = gf mod t_cap s -> t_A s < gf <= t_F s + t_cap s ->
  shared s' (t_cap s) (t_alloc s) v (t_free s) (t_ptrs s) (t_lock s) (t_out s)
         (t_dups s) (t_A s) (t_F s) gf (S (t_cver s)) ->
  (forall u, t_thr s' u = upd (t_thr s) t x' u) ->
  hold s (t_pc (t_thr s t)) = None -> holds_lock (t_pc (t_thr s t)) = false ->
  hold s (t_pc x') = None -> holds_lock (t_pc x') = false ->
  kn_of (t_ptrs s) (t_cap s) (t_A s) (t_F s) v (S (t_cver s)) (t_pc x') -> TInv s'.
Proof.
  intros I Hv Hgf Hsh Et Hh Hl Hh' Hl' Hk.
  pose proof I as [C0 C1 C2 C3 C4 C5 C6 C7 C8 C9 C10 C11 C12 C13 C14].
  unfold ringl, hold, kn in *.
  tbuild s' Hsh Et; try assumption.
  - split; assumption.
  - intros u b Hu. tupd; [congruence|]. eapply C9; eauto.
  - intros u w b Hu Hw. tupd; try reflexivity; try congruence. eapply C10; eauto.
  - intros u w Hu Hw. tupd; try reflexivity; try congruence. eapply C11; eauto.
  - intros L u. tupd; [assumption|]. now apply C12.
  - intros u. tupd; [assumption|]. pose proof (C13 u) as K.
    destruct (t_pc (t_thr s u)); simpl in *; try assumption.
    destruct K as (K1 & K2 & K3 & K4 & K5). repeat split; try assumption; try lia.
Qed.

(* (d) a CAS on alloc_idx takes the head of the ring *)
Lemma L_alloc s s' t x' d :
  TInv s -> d = t_ptrs s (t_A s mod t_cap s) -> t_A s + 2 <= t_clog s ->
  shared s' (t_cap s) ((t_A s + 1) mod t_cap s) (t_cached s) (t_free s) (t_ptrs s) (t_lock s) (t_out s)
         (t_dups s) (S (t_A s)) (t_F s) (t_clog s) (t_cver s) ->
  (forall u, t_thr s' u = upd (t_thr s) t x' u) ->
  hold s (t_pc (t_thr s t)) = None -> holds_lock (t_pc (t_thr s t)) = false ->
  t_pc x' = ARet d -> TInv s'.
Proof.
  intros I Hd Hcl Hsh Et Hh Hl Hpc.
  pose proof I as [C0 C1 C2 C3 C4 C5 C6 C7 C8 C9 C10 C11 C12 C13 C14].
  unfold ringl, hold, kn in *.
  pose proof (ringl_alloc (t_ptrs s) (t_cap s) (t_A s) (t_F s) C3) as ER. rewrite <- Hd in ER.
  rewrite ER in C5, C6, C8, C9. apply NoDup_cons_iff in C5 as [Hdn Hnd].
  tbuild s' Hsh Et; try assumption.
  - f_equal. lia.
  - lia.
  - destruct C4 as [K1 K2]. split; [assumption|lia].
  - intros b K. apply C6. now right.
  - intros b K. destruct (C8 b K) as [K1 K2]. split; [assumption|]. intros K3. apply K2. now right.
  - intros u b Hu. tupd.
    + rewrite Hpc in Hu. simpl in Hu. assert (b = d) by congruence. subst b.
      split; [apply C6; now left|]. split; [assumption|]. intros K. destruct (C8 d K) as [_ K2]. apply K2. now left.
    + destruct (C9 u b Hu) as (K1 & K2 & K3). repeat split; try assumption. intros K. apply K2. now right.
  - intros u w b Hu Hw. tupd; try reflexivity; try (rewrite Hpc in *; simpl in * );
      try (match goal with H : hold_of _ _ _ (t_pc (t_thr s ?z)) = Some ?b' |- _ =>
             assert (b' = d) by congruence; subst b'; destruct (C9 z d H) as (_ & K & _); exfalso; apply K; now left end).
    eapply C10; eauto.
  - intros u w Hu Hw. tupd; try reflexivity; try (rewrite Hpc in *; simpl in *; discriminate). eapply C11; eauto.
  - intros L u. tupd; [rewrite Hpc; reflexivity|]. now apply C12.
  - intros u. tupd; [rewrite Hpc; exact Logic.I|]. pose proof (C13 u) as K.
    destruct (t_pc (t_thr s u)); simpl in *; try assumption.
    + destruct K as (K1 & K2 & K3 & K4 & K5). repeat split; try assumption; try lia.
    + destruct K as (K1 & K2 & K3 & K4 & K5). repeat split; try assumption; try lia.
Qed.
