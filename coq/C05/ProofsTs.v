(* C05 — thread-safe pool: known-finding pattern for many allocators (refutation witnesses) and
   the side condition on the memory orders.  The invariant proofs are in ProofsTsInv.v. *)
From MV Require Import C05.Model.

Definition any_params : params :=
  {| mo_ts_load_free := Acq; mo_ts_cas_alloc := Rlx; mo_ts_store_free := Rel; mo_spin_tas := Acq;
     mo_spin_clear := Rel; mo_sowr_load_free := Rlx; mo_sowr_store_free := Rlx;
     mo_ring_load_inuse := Rlx; mo_ring_store_inuse := Rlx |}.

(* memory orders that make the hand-over of the plain ptrs[] entries sound: the freers' writes are
   ordered by the spinlock (acquire test-and-set, release clear) and published to the allocator by
   the release store / acquire load of free_idx *)
Definition ts_mo_ok (P : params) : bool :=
  is_acq (mo_ts_load_free P) && is_rel (mo_ts_store_free P) && is_acq (mo_spin_tas P) && is_rel (mo_spin_clear P).

Definition ts_run (P : params) (cap n : nat) (scripts : nat -> list op) (sched : list (nat * nat)) : tsys :=
  exec tsys (tstep P) (tinit cap n scripts) sched.

(* The known class (DESIGN.md 3.2), finalised with the model: at least two allocator threads, and one
   of the racy windows of the allocation path was hit (sticky ghost flag t_race):
     W1  a CAS on alloc_idx succeeds although other allocations happened since this thread read
         ptrs[expected] (alloc_idx completed a full cycle: ABA);
     W2  a free_idx value is written back to cached_free_pos although other allocations happened since
         it was loaded (stale cache);
     W3  a CAS on alloc_idx succeeds although another allocator rewrote cached_free_pos since this
         thread compared its alloc_pos against it.
   W2 and W3 exist only because cached_free_pos is a plain field shared by all allocators. *)
Definition in_known_class (scripts : nat -> list op) (n : nat) (s : tsys) : bool :=
  Nat.leb 2 (count_allocators scripts n) && t_race s.

(* --- witness 1: the ABA (W1).  cap 4.  T0 reads expected = 0, ptrs[0] = block 0, stops before its CAS;
   T1 allocates 0,1,2, frees block 1 (ptrs[0] := 1, free_idx = 1), allocates block 3: alloc_idx = 0
   again; T0's CAS succeeds: block 0 handed out while T1 owns it, block 1 is lost. *)
Definition aba_scripts (t : nat) : list op :=
  match t with
  | 0 => [OpAlloc]
  | 1 => [OpAlloc; OpAlloc; OpAlloc; OpFreeOwn 1; OpAlloc]
  | _ => []
  end%nat.
Definition aba_sched : list (nat * nat) :=
  repeat (0, 0)%nat 3 ++ repeat (1, 0)%nat 28 ++ repeat (0, 0)%nat 2.

Lemma ts_aba_witness :
  let s := ts_run any_params 4 2 aba_scripts aba_sched in
  in_known_class aba_scripts 2 s = true /\ t_dups s = 1%nat /\
  t_out s = [(0, 1); (2, 1); (3, 1)]%nat /\ t_ptrs s 0%nat = 1%nat /\ t_alloc s = 1%nat /\ t_free s = 1%nat.
Proof. vm_compute. repeat split; reflexivity. Qed.

(* --- witness 2: the racy cached_free_pos alone (no ABA: no CAS succeeds with a changed alloc_idx).
   cap 4.  T0 allocates 0,1,2 (alloc_idx = 3).  T1 enters alloc: alloc_pos = 0 = cached, loads
   free_idx = 0 and stops before writing it back.  T0 frees blocks 0 and 1 (free_idx = 2).  T0 enters
   alloc: reloads (cached := 2), reads ptrs[3] and stops before its CAS.  T1 writes back the stale 0 and
   returns NULL.  T0's CAS succeeds (alloc_idx = 0 = cached): from now on alloc_pos never meets cached
   before the ring has been overrun: T0 takes blocks 0, 1 and then ptrs[2] = block 2, which it still owns. *)
Definition cache_scripts (t : nat) : list op :=
  match t with
  | 0 => [OpAlloc; OpAlloc; OpAlloc; OpFreeOwn 0; OpFreeOwn 0; OpAlloc; OpAlloc; OpAlloc; OpAlloc]
  | 1 => [OpAlloc]
  | _ => []
  end%nat.
Definition cache_sched : list (nat * nat) :=
  repeat (0, 0)%nat 13 ++ repeat (1, 0)%nat 4 ++ repeat (0, 0)%nat 20 ++ repeat (1, 0)%nat 2 ++ repeat (0, 0)%nat 14.

Lemma ts_cache_race_witness :
  let s := ts_run any_params 4 2 cache_scripts cache_sched in
  in_known_class cache_scripts 2 s = true /\ t_dups s = 1%nat.
Proof. vm_compute. repeat split; reflexivity. Qed.
(* one step earlier the harness has not yet seen anything wrong: all four blocks are out (the pool has
   handed out cap blocks, alloc_idx has run past free_idx) and the last CAS has taken ptrs[2] again *)
Lemma ts_cache_race_witness_exact :
  let s := ts_run any_params 4 2 cache_scripts (removelast cache_sched) in
  t_dups s = 0%nat /\ t_out s = [(2, 0); (3, 0); (0, 0); (1, 0)]%nat /\ t_alloc s = 3%nat /\ t_free s = 2%nat.
Proof. vm_compute. repeat split; reflexivity. Qed.

(* --- witness 3: exhaustion reported on a stale expected value (no racy window hit, no double hand-out).
   cap 4.  Schedule taken from the implementation trace of findings/C05-ts-stale-null.case: T1 enters alloc
   with expected = 3 (alloc_pos = 0 = cached_free_pos) and is preempted around its load of free_idx; T0
   allocates twice (alloc_idx = 1) and frees until free_idx = 0; T1 compares its stale alloc_pos 0 with
   free_idx 0 and returns NULL although only one block is out of the ring. *)
Definition stale_scripts (t : nat) : list op :=
  match t with
  | 0 => [OpAlloc; OpFreeOwn 3; OpAlloc; OpFreeOwn 3; OpAlloc; OpAlloc; OpFreeOwn 0]
  | 1 => [OpAlloc; OpFreeOwn 0; OpFreeOwn 1; OpAlloc; OpAlloc]
  | _ => []
  end%nat.
Definition stale_sched : list (nat * nat) :=
  [(0, 0); (1, 0); (1, 0); (1, 0); (1, 0); (0, 0); (1, 0); (0, 0); (0, 0); (0, 0); (0, 0); (0, 0); (0, 0); (0, 0); (0, 0); (1, 0); (1, 0); (1, 0); (0, 0); (0, 0); (1, 0); (1, 0); (1, 0); (1, 0); (1, 0); (1, 0); (0, 0); (0, 0); (0, 0); (0, 0); (0, 0); (0, 0); (0, 0); (0, 0); (0, 0); (0, 0); (0, 0); (0, 0); (0, 0); (0, 0); (0, 0); (0, 0); (0, 0); (0, 0); (0, 0); (0, 0); (0, 0); (0, 0); (0, 0); (0, 0); (1, 0); (1, 0); (1, 0); (1, 0); (1, 0); (0, 0); (0, 0); (0, 0); (0, 0); (0, 0); (0, 0); (0, 0); (0, 0); (0, 0); (0, 0); (0, 0); (0, 0); (1, 0); (1, 0); (0, 0); (0, 0); (0, 0); (0, 0); (0, 0); (0, 0); (0, 0); (0, 0); (0, 0); (0, 0); (0, 0); (0, 0); (0, 0); (0, 0); (0, 0); (0, 0); (1, 0); (1, 0)]%nat.

Lemma ts_stale_null_witness :
  let s := ts_run any_params 4 2 stale_scripts stale_sched in
  count_allocators stale_scripts 2 = 2%nat /\ t_race s = false /\ t_dups s = 0%nat /\ t_badnull s = 1%nat /\
  t_A s = 5%nat /\ t_F s = 4%nat /\ length (t_out s) = 1%nat.
Proof. vm_compute. repeat split; reflexivity. Qed.
