(* C05 — second tie, init functions: capacity rounding, block size, allocation-size products and the
   initial cursors / ring contents of muggle_ts_memory_pool_init, muggle_sowr_memory_pool_init and
   muggle_ring_memory_pool_init as regenerated from the C text (gen_*_init of gen/Params_C05.v) equal
   the reference functions below for EVERY argument pair and every allocation outcome, with
   muggle_next_pow_of_2 uninterpreted (any function); the references, instantiated with the C20 model
   of muggle_next_pow_of_2 (C20/Model.v model_npo2, tied to utils.c by C20's gen_npo2_eq), are then
   related to the model's next_pow2 / tinit / sinit / rinit, and the widths of the size products are
   taken from the C text.  THIS IS THE VARIANT FOR THE REPAIRED CODE (fixes/C05-init-size-overflow.patch): block size
   and capacity * block_size are computed in 64 bits and a data area that does not fit muggle_sync_t is refused, so
   the size theorems hold in full (the _init_sizes_exact theorems) and the former _refuted witnesses are refused. *)
From MV Require Import Lib.Leaf C05.Model C05.GenLib gen.Params_C05 C05.ProofsGen.
From MV Require C20.Model C20.ProofsNpo2.
From Coq Require Import ZifyBool.
Local Open Scope Z_scope.
Ltac Zify.zify_post_hook ::= Z.to_euclidean_division_equations.

Definition two64 : Z := 18446744073709551616.

(* ====================================================================== *)
(* reference functions (npo2 = muggle_next_pow_of_2, uninterpreted here)    *)

(* align_ts (MUGGLE_ALIGN_TRUE_SHARING on uint32) is defined in C05/Model.v *)

(* result tuples: (return code, alloc_idx, block_size, cached_free_pos, capacity, free_idx, ring of
   pointers / header words, bytes requested from the allocator ..., pointer fields: 0 = NULL, k = k-th
   allocation) *)
(* MUGGLE_ALIGN_TRUE_SHARING on uint64_t *)
Definition align64 (hd d : Z) : Z :=
  let b := (hd + d) mod two64 in
  let r := ((b + 64) mod two64 - 1) mod two64 in
  (r - r mod 64 + 128) mod two64.
Definition max32 : Z := 4294967295.     (* UINT32_MAX *)

Definition ref_ts_init (npo2 : Z -> Z) (a bs c cap f : Z) (ptrs : list Z) (a1 a2 m1 m2 : Z) :=
  let fail := (code_MUGGLE_ERR_INVALID_PARAM, a, bs, c, cap, f, ptrs, -1, -1, -1, -1) in
  if a1 <=? 0 then fail else if a2 <=? 0 then fail else
  let cap' := npo2 a1 mod two32 in
  if cap' <=? 0 then fail else
  let bs64 := align64 code_sizeof_muggle_ts_memory_pool_head_t a2 in
  if bs64 >? Z.quot max32 cap' then fail else
  let bs' := bs64 mod two32 in
  let msz1 := (cap' * bs') mod two32 in
  let msz2 := (cap' * code_sizeof_muggle_ts_memory_pool_head_ptr_t) mod two64 in
  if (m1 =? 0) || (m2 =? 0)
  then (code_MUGGLE_ERR_MEM_ALLOC, 0, bs', 0, cap', 0, ptrs, msz1, msz2, 0, 0)
  else (code_MUGGLE_OK, 0, bs', 0, cap', 0,
        lfill ptrs cap' (fun i => i) (fun i => blkidx 32 bs' i), msz1, msz2, 1, 2).

Definition ref_sowr_init (npo2 : Z -> Z) (a bs c cap f : Z) (hb : list Z) (a1 a2 m1 : Z) :=
  let fail := (code_MUGGLE_ERR_INVALID_PARAM, 0, 0, 0, 0, 0, hb, -1, 0) in
  let c0 := if a1 <=? 0 then 8 else a1 in
  let cap' := npo2 c0 mod two32 in
  if cap' <=? 0 then fail else
  let bs64 := align64 code_sizeof_muggle_sowr_block_head_t a2 in
  if bs64 >? Z.quot max32 cap' then fail else
  let bs' := bs64 mod two32 in
  let msz := (bs' * cap') mod two32 in
  if m1 =? 0 then (code_MUGGLE_ERR_MEM_ALLOC, 0, bs', 0, cap', 0, hb, msz, 0)
  else (code_MUGGLE_OK, 0, bs', (cap' - 1) mod two32, cap', 0,
        lfill hb cap' (fun i => blkidx 32 bs' i) (fun i => i), msz, 1).

Definition ref_ring_init (npo2 : Z -> Z) (a bs cap : Z) (hb hu : list Z) (a1 a2 m1 : Z) :=
  let fail := (code_MUGGLE_ERR_INVALID_PARAM, 0, 0, 0, hb, hu, -1, 0) in
  let c0 := if a1 <? 2 then 2 else a1 in
  let cap' := npo2 c0 mod two32 in
  if cap' <? 2 then fail else if a2 =? 0 then fail else
  let bs64 := npo2 ((a2 + code_sizeof_muggle_ring_mpool_block_head_t) mod two64) in
  if bs64 >? Z.quot max32 cap' then fail else
  let bs' := bs64 mod two32 in
  let msz := (bs' * cap') mod two32 in
  if m1 =? 0 then (code_MUGGLE_ERR_MEM_ALLOC, 0, bs', cap', hb, hu, msz, 0)
  else (code_MUGGLE_OK, 0, bs', cap',
        lfill hb cap' (fun i => blkidx 32 bs' i) (fun i => i),
        lfill hu cap' (fun i => blkidx 32 bs' i) (fun _ => 0), msz, 1).

(* ====================================================================== *)
(* generated = reference, for every npo2, every argument, every allocation outcome *)

(* x & 0xffffffffffffffc0 on a 64-bit value *)
Lemma land_m64_64 x : 0 <= x < 18446744073709551616 -> Z.land x 18446744073709551552 = x - x mod 64.
Proof.
  intros H.
  replace 18446744073709551552 with (Z.ldiff (Z.ones 64) (Z.ones 6)) by reflexivity.
  assert (E : Z.land x (Z.ldiff (Z.ones 64) (Z.ones 6)) = Z.ldiff (Z.land x (Z.ones 64)) (Z.ones 6)).
  { apply Z.bits_inj'. intros i Hi. rewrite !Z.land_spec, !Z.ldiff_spec, !Z.land_spec. apply andb_assoc. }
  rewrite E. rewrite Z.land_ones by lia. change (2 ^ 64) with 18446744073709551616. rewrite Z.mod_small by lia.
  rewrite Z.ldiff_ones_r by lia. rewrite Z.shiftl_mul_pow2, Z.shiftr_div_pow2 by lia.
  change (2 ^ 6) with 64. pose proof (Z.div_mod x 64 ltac:(lia)). lia.
Qed.
Ltac norm_masks64 :=
  repeat match goal with
  | |- context [Z.land ?x ?m] =>
      closed_term m;
      let mv := eval vm_compute in m in
      lazymatch mv with
      | 18446744073709551552 => change m with 18446744073709551552; rewrite (land_m64_64 x) by (timeout 20 lia)
      end
  end.

Ltac init_decide :=
  unfold align_ts, align64, max32, two64, code_MUGGLE_ERR_INVALID_PARAM, code_MUGGLE_ERR_MEM_ALLOC, code_MUGGLE_OK,
    code_sizeof_muggle_ts_memory_pool_head_t, code_sizeof_muggle_ts_memory_pool_head_ptr_t,
    code_sizeof_muggle_sowr_block_head_t, code_sizeof_muggle_ring_mpool_block_head_t;
  unfold_leaf; norm_masks; norm_masks64; norm_rem; split_ifs; finish.

Lemma gen_ts_init_ref : forall npo2 a bs c cap f ptrs a1 a2 m1 m2, u32 a1 -> u32 a2 ->
  gen_ts_init npo2 a bs c cap f ptrs a1 a2 m1 m2 = ref_ts_init npo2 a bs c cap f ptrs a1 a2 m1 m2.
Proof. intros. unfold gen_ts_init, ref_ts_init. init_decide. Qed.

Lemma gen_sowr_init_ref : forall npo2 a bs c cap f hb a1 a2 m1, u32 a1 -> u32 a2 ->
  gen_sowr_init npo2 a bs c cap f hb a1 a2 m1 = ref_sowr_init npo2 a bs c cap f hb a1 a2 m1.
Proof. intros. unfold gen_sowr_init, ref_sowr_init. init_decide. Qed.

Lemma gen_ring_init_ref : forall npo2 a bs cap hb hu a1 a2 m1, u32 a1 -> u32 a2 ->
  gen_ring_init npo2 a bs cap hb hu a1 a2 m1 = ref_ring_init npo2 a bs cap hb hu a1 a2 m1.
Proof. intros. unfold gen_ring_init, ref_ring_init. init_decide. Qed.

(* ====================================================================== *)
(* muggle_next_pow_of_2: the C20 model, and the model's next_pow2           *)

Definition npo2z (x : Z) : Z := Z.of_N (C20.Model.model_npo2 (Z.to_N x)).

Lemma npo2z_spec x : 1 <= x <= 2 ^ 63 ->
  exists k, 0 <= k /\ npo2z x = 2 ^ k /\ x <= 2 ^ k /\ (k = 0 \/ 2 ^ (k - 1) < x).
Proof.
  intros Hx. unfold npo2z.
  assert (H1 : (1 <= Z.to_N x)%N) by lia.
  assert (H2 : (Z.to_N x <= 2 ^ 63)%N).
  { replace (2 ^ 63)%N with (Z.to_N (2 ^ 63)) by reflexivity. apply Z2N.inj_le; lia. }
  destruct (C20.ProofsNpo2.npo2_least_pow2_l _ H1 H2) as ((k & Hk) & Hle & Hleast).
  exists (Z.of_N k). split; [lia|]. rewrite Hk in *. rewrite N2Z.inj_pow. change (Z.of_N 2) with 2.
  split; [reflexivity|]. split.
  - apply N2Z.inj_le in Hle. rewrite N2Z.inj_pow, Z2N.id in Hle by lia. exact Hle.
  - destruct (N.eq_dec k 0) as [->|Hk0]; [left; reflexivity|right].
    destruct (Z_lt_le_dec (2 ^ (Z.of_N k - 1)) x) as [L|L]; [exact L|exfalso].
    assert (P : C20.ProofsNpo2.is_pow2 (2 ^ (k - 1))%N) by (exists (k - 1)%N; reflexivity).
    assert (Q : (Z.to_N x <= 2 ^ (k - 1))%N).
    { apply N2Z.inj_le. rewrite N2Z.inj_pow, Z2N.id by lia. change (Z.of_N 2) with 2.
      rewrite N2Z.inj_sub by lia. exact L. }
    specialize (Hleast _ P Q).
    assert (R : (2 ^ (k - 1) < 2 ^ k)%N) by (apply N.pow_lt_mono_r; lia). lia.
Qed.

Lemma pow2_ge_spec : forall fuel n p j, p = (2 ^ j)%nat -> (n <= p + fuel)%nat ->
  (j = 0%nat \/ (2 ^ (j - 1) < n)%nat) ->
  exists k, pow2_ge fuel n p = (2 ^ k)%nat /\ (n <= 2 ^ k)%nat /\ (k = 0%nat \/ (2 ^ (k - 1) < n)%nat).
Proof.
  induction fuel; intros n p j Hp Hf Hl; cbn [pow2_ge].
  - exists j. subst. repeat split; auto. lia.
  - destruct (Nat.leb_spec n p) as [L|L].
    + exists j. subst. auto.
    + assert (Hp1 : (1 <= p)%nat) by (subst; apply Nat.neq_0_lt_0, Nat.pow_nonzero; lia).
      apply (IHfuel n (2 * p)%nat (S j)).
      * subst. rewrite Nat.pow_succ_r'. reflexivity.
      * lia.
      * right. replace (S j - 1)%nat with j by lia. subst. exact L.
Qed.

Lemma next_pow2_spec n : (1 <= n)%nat ->
  exists k, next_pow2 n = (2 ^ k)%nat /\ (n <= 2 ^ k)%nat /\ (k = 0%nat \/ (2 ^ (k - 1) < n)%nat).
Proof. intros H. unfold next_pow2. apply (pow2_ge_spec n n 1%nat 0%nat); [reflexivity | lia | left; reflexivity]. Qed.

(* the model's capacity rounding is the code's (for every capacity whose rounding fits 32 bits) *)
Lemma next_pow2_npo2z c : 1 <= c <= 2147483648 -> zn (next_pow2 (Z.to_nat c)) = npo2z c.
Proof.
  intros Hc.
  destruct (next_pow2_spec (Z.to_nat c)) as (k & E & Hle & Hl); [lia|].
  destruct (npo2z_spec c) as (k' & Hk' & E' & Hle' & Hl'); [change (2 ^ 63) with 9223372036854775808; lia|].
  rewrite E, E'. unfold zn. rewrite Nat2Z.inj_pow. change (Z.of_nat 2) with 2.
  apply Nat2Z.inj_le in Hle. rewrite Nat2Z.inj_pow, Z2Nat.id in Hle by lia. change (Z.of_nat 2) with 2 in Hle.
  f_equal.
  assert (A : Z.of_nat k <= k').
  { destruct Hl as [->|Hl]; [lia|].
    apply Nat2Z.inj_lt in Hl. rewrite Nat2Z.inj_pow, Z2Nat.id in Hl by lia. change (Z.of_nat 2) with 2 in Hl.
    destruct (Nat.eq_dec k 0) as [->|K0]; [lia|]. rewrite Nat2Z.inj_sub in Hl by lia. change (Z.of_nat 1) with 1 in Hl.
    assert (2 ^ (Z.of_nat k - 1) < 2 ^ k') by lia.
    apply Z.pow_lt_mono_r_iff in H; lia. }
  assert (B : k' <= Z.of_nat k).
  { destruct Hl' as [->|Hl']; [lia|].
    assert (2 ^ (k' - 1) < 2 ^ Z.of_nat k) by lia.
    apply Z.pow_lt_mono_r_iff in H; lia. }
  lia.
Qed.

Lemma npo2z_cap c : 1 <= c <= 2147483648 -> pow2cap (npo2z c) /\ c <= npo2z c.
Proof.
  intros Hc. destruct (npo2z_spec c) as (k & Hk & E & Hle & Hl); [change (2 ^ 63) with 9223372036854775808; lia|].
  rewrite E. split; [|exact Hle]. exists k. split; [|reflexivity]. split; [lia|].
  destruct Hl as [->|Hl]; [lia|].
  assert (2 ^ (k - 1) < 2 ^ 31) by (change (2 ^ 31) with 2147483648; lia).
  apply Z.pow_lt_mono_r_iff in H; lia.
Qed.

(* above 2^31 the rounded capacity does not fit muggle_sync_t: it is truncated to 0 (and then refused) *)
Lemma npo2z_big c : 2147483648 < c < 4294967296 -> npo2z c mod two32 = 0.
Proof.
  intros Hc. destruct (npo2z_spec c) as (k & Hk & E & Hle & Hl); [change (2 ^ 63) with 9223372036854775808; lia|].
  assert (K : k = 32).
  { assert (A : 2 ^ 31 < 2 ^ k) by (change (2 ^ 31) with 2147483648; lia).
    apply Z.pow_lt_mono_r_iff in A; [|lia|lia].
    destruct Hl as [->|Hl]; [lia|].
    assert (B : 2 ^ (k - 1) < 2 ^ 32) by (change (2 ^ 32) with 4294967296; lia).
    apply Z.pow_lt_mono_r_iff in B; lia. }
  rewrite E, K. reflexivity.
Qed.

(* ====================================================================== *)
(* what the init references compute, with npo2 := the C20 model             *)

Ltac code_consts :=
  unfold code_MUGGLE_ERR_INVALID_PARAM, code_MUGGLE_ERR_MEM_ALLOC, code_MUGGLE_OK,
    code_sizeof_muggle_ts_memory_pool_head_t, code_sizeof_muggle_ts_memory_pool_head_ptr_t,
    code_sizeof_muggle_sowr_block_head_t, code_sizeof_muggle_ring_mpool_block_head_t in *.

(* the rounded block size: header + data rounded up to 64, plus two cache lines *)
Definition true_sharing (need : Z) : Z := (need + 63) / 64 * 64 + 128.

Lemma align64_exact hd d : 0 <= hd <= 4096 -> 0 <= d < two32 -> align64 hd d = true_sharing (hd + d).
Proof. unfold align64, true_sharing, two64, two32. intros. lia. Qed.

Lemma align_ts_exact hd d : 0 <= hd -> 0 <= d -> true_sharing (hd + d) < two32 ->
  align_ts hd d = true_sharing (hd + d).
Proof. unfold align_ts, true_sharing, two32. intros. lia. Qed.

Lemma true_sharing_bounds need : 0 <= need -> need + 128 <= true_sharing need < need + 192 /\ true_sharing need mod 64 = 0.
Proof. unfold true_sharing. intros. lia. Qed.

Lemma pow2cap_mod32 cap : pow2cap cap -> cap mod two32 = cap.
Proof. intros H. pose proof (pow2cap_pos _ H). unfold two32. apply Z.mod_small. lia. Qed.

Lemma init_fill_cells : forall (l : list Z) cap bs (fv : Z -> Z), 0 < cap -> fits cap bs -> zlenZ l = cap ->
  (forall j, 0 <= j < cap -> lget (lfill l cap (fun i => i) fv) j = fv j) /\
  (forall j, 0 <= j < cap -> lget (lfill l cap (fun i => blkidx 32 bs i) fv) j = fv j).
Proof.
  intros l cap bs fv Hc [Hb Hf] Hl. split; intros j Hj.
  - rewrite (lget_lfill_affine l cap (fun i => i) fv 0) by (try lia; intros; lia).
    replace ((0 <=? j) && (j <? 0 + cap)) with true by lia. f_equal. lia.
  - rewrite (lget_lfill_affine l cap (fun i => blkidx 32 bs i) fv 0).
    + replace ((0 <=? j) && (j <? 0 + cap)) with true by lia. f_equal. lia.
    + lia.
    + lia.
    + intros i Hi. rewrite (blkidx_wide 32 bs i cap) by lia. lia.
Qed.

(* a data area of cap blocks of bs bytes fits muggle_sync_t *)
Definition area_fits (cap bs : Z) : Prop := cap * bs <= max32.

(* ---------------- ts pool ---------------- *)
Lemma ts_init_refuses a bs c cap f ptrs c0 d m1 m2 : 0 <= c0 < two32 -> 0 <= d < two32 ->
  c0 = 0 \/ 2147483648 < c0 \/ d = 0 \/
  ~ area_fits (npo2z c0) (true_sharing (code_sizeof_muggle_ts_memory_pool_head_t + d)) ->
  ref_ts_init npo2z a bs c cap f ptrs c0 d m1 m2 = (code_MUGGLE_ERR_INVALID_PARAM, a, bs, c, cap, f, ptrs, -1, -1, -1, -1).
Proof.
  intros Hc Hd H. unfold ref_ts_init. cbv zeta.
  destruct (c0 <=? 0) eqn:E1; [reflexivity|]. destruct (d <=? 0) eqn:E2; [reflexivity|].
  destruct (Z_le_gt_dec c0 2147483648) as [Hle|Hgt].
  2:{ rewrite npo2z_big by (unfold two32 in *; lia). change (0 <=? 0) with true. cbv iota. reflexivity. }
  destruct H as [H|[H|[H|H]]]; try (exfalso; lia).
  assert (Hc1 : 1 <= c0 <= 2147483648) by lia.
  destruct (npo2z_cap c0 Hc1) as [Hp _]. pose proof (pow2cap_pos _ Hp) as Hpos.
  rewrite (pow2cap_mod32 _ Hp). replace (npo2z c0 <=? 0) with false by lia.
  rewrite align64_exact by (code_consts; unfold two32 in *; lia).
  destruct (true_sharing_bounds (code_sizeof_muggle_ts_memory_pool_head_t + d)) as [Hb _]; [code_consts; lia|].
  unfold area_fits, max32 in *.
  rewrite Z.quot_div_nonneg by lia.
  replace (true_sharing (code_sizeof_muggle_ts_memory_pool_head_t + d) >? 4294967295 / npo2z c0) with true
    by (symmetry; apply Z.gtb_lt; apply Z.div_lt_upper_bound; lia).
  reflexivity.
Qed.

Lemma ts_init_accepts a bs c cap f ptrs c0 d m1 m2 n scripts :
  1 <= c0 <= 2147483648 -> 1 <= d < two32 ->
  area_fits (npo2z c0) (true_sharing (code_sizeof_muggle_ts_memory_pool_head_t + d)) ->
  m1 <> 0 -> m2 <> 0 ->
  let s0 := tinit (next_pow2 (Z.to_nat c0)) n scripts in
  let cap' := zn (t_cap s0) in
  let bs' := true_sharing (code_sizeof_muggle_ts_memory_pool_head_t + d) in
  ref_ts_init npo2z a bs c cap f ptrs c0 d m1 m2 =
    (code_MUGGLE_OK, zn (t_alloc s0), bs', zn (t_cached s0), cap', zn (t_free s0),
     lfill ptrs cap' (fun i => i) (fun i => blkidx 32 bs' i),
     cap' * bs', cap' * code_sizeof_muggle_ts_memory_pool_head_ptr_t, 1, 2) /\
  pow2cap cap' /\ c0 <= cap' /\ (forall j, t_ptrs s0 j = j).
Proof.
  intros Hc Hd Hfit H1 H2 s0 cap' bs'. subst s0 cap'. cbn [tinit t_cap t_alloc t_cached t_free t_ptrs].
  rewrite (next_pow2_npo2z c0 Hc). destruct (npo2z_cap c0 Hc) as [Hp Hle]. pose proof (pow2cap_pos _ Hp) as Hpos.
  split; [|repeat split; auto].
  unfold ref_ts_init. cbv zeta. rewrite (pow2cap_mod32 _ Hp).
  rewrite align64_exact by (code_consts; unfold two32 in *; lia). fold bs'.
  destruct (true_sharing_bounds (code_sizeof_muggle_ts_memory_pool_head_t + d)) as [Hb _]; [code_consts; lia|]. fold bs' in Hb.
  unfold area_fits, max32 in *. fold bs' in Hfit.
  assert (Hbs : 0 < bs' <= 4294967295) by (code_consts; nia).
  replace (c0 <=? 0) with false by lia. replace (d <=? 0) with false by lia.
  replace (npo2z c0 <=? 0) with false by lia.
  rewrite Z.quot_div_nonneg by lia.
  replace (bs' >? 4294967295 / npo2z c0) with false
    by (symmetry; rewrite Z.gtb_ltb; apply Z.ltb_ge; apply Z.div_le_lower_bound; lia).
  replace ((m1 =? 0) || (m2 =? 0)) with false by lia.
  rewrite (Z.mod_small bs' two32) by (unfold two32; lia).
  rewrite (Z.mod_small (npo2z c0 * bs') two32) by (unfold two32; nia).
  rewrite (Z.mod_small (npo2z c0 * code_sizeof_muggle_ts_memory_pool_head_ptr_t) two64)
    by (code_consts; unfold two64; lia).
  reflexivity.
Qed.

(* FULL statement: for every argument pair, init either refuses or requests exactly capacity * block_size bytes for
   blocks that hold head + data_size, with exact block offsets and every ring cell holding its own block *)
Lemma ts_init_sizes_exact_l a bs c cap f ptrs c0 d m1 m2 :
  0 <= c0 < two32 -> 0 <= d < two32 -> m1 <> 0 -> m2 <> 0 ->
  let cap' := npo2z c0 in
  let bs' := true_sharing (code_sizeof_muggle_ts_memory_pool_head_t + d) in
  gen_ts_init npo2z a bs c cap f ptrs c0 d m1 m2 = (code_MUGGLE_ERR_INVALID_PARAM, a, bs, c, cap, f, ptrs, -1, -1, -1, -1) \/
  exists ptrs',
    gen_ts_init npo2z a bs c cap f ptrs c0 d m1 m2 =
      (code_MUGGLE_OK, 0, bs', 0, cap', 0, ptrs', cap' * bs', cap' * code_sizeof_muggle_ts_memory_pool_head_ptr_t, 1, 2) /\
    1 <= c0 <= cap' /\ pow2cap cap' /\ fits cap' bs' /\ code_sizeof_muggle_ts_memory_pool_head_t + d + 128 <= bs' /\
    (forall i, 0 <= i < cap' -> blkidx 32 bs' i = i) /\
    (zlenZ ptrs = cap' -> forall j, 0 <= j < cap' -> lget ptrs' j = j).
Proof.
  intros Hc Hd H1 H2 cap' bs'.
  rewrite gen_ts_init_ref by (unfold u32, two32 in *; lia).
  destruct (Z.eq_dec c0 0) as [Z0|N0]; [left; apply ts_init_refuses; auto|].
  destruct (Z_le_gt_dec c0 2147483648) as [Hle|Hgt]; [|left; apply ts_init_refuses; auto; lia].
  destruct (Z.eq_dec d 0) as [D0|DN]; [left; apply ts_init_refuses; auto|].
  destruct (Z_le_gt_dec (cap' * bs') max32) as [Hfit|Hno].
  2:{ left. apply ts_init_refuses; auto. all: try (right; right; right; unfold area_fits; fold cap' bs'; lia). }
  right. assert (Hc1 : 1 <= c0 <= 2147483648) by lia. assert (Hd1 : 1 <= d < two32) by lia.
  destruct (ts_init_accepts a bs c cap f ptrs c0 d m1 m2 0%nat (fun _ => []) Hc1 Hd1 Hfit H1 H2) as (E & _).
  cbn [tinit t_cap t_alloc t_cached t_free] in E. rewrite (next_pow2_npo2z c0 Hc1) in E. fold cap' bs' in E.
  destruct (npo2z_cap c0 Hc1) as [Hp Hle2]. pose proof (pow2cap_pos _ Hp) as Hpos. fold cap' in Hp, Hle2, Hpos.
  destruct (true_sharing_bounds (code_sizeof_muggle_ts_memory_pool_head_t + d)) as [Hb _]; [code_consts; lia|]. fold bs' in Hb.
  assert (F : fits cap' bs') by (split; [code_consts; lia | unfold max32 in Hfit; lia]).
  eexists. split; [rewrite E; reflexivity|].
  split; [lia|]. split; [exact Hp|]. split; [exact F|]. split; [lia|]. split.
  - intros i Hi. apply (blkidx_wide 32 bs' i cap'); try lia; apply F.
  - intros Hl j Hj. destruct (init_fill_cells ptrs cap' bs' (fun i => blkidx 32 bs' i) ltac:(lia) F Hl) as [A _].
    rewrite A by lia. apply (blkidx_wide 32 bs' j cap'); try lia; apply F.
Qed.

Example ts_init_sizes_exact_nonvacuous :
  area_fits (npo2z 5) (true_sharing (code_sizeof_muggle_ts_memory_pool_head_t + 100)) /\
  ~ area_fits (npo2z 8) (true_sharing (code_sizeof_muggle_ts_memory_pool_head_t + 536870912)).
Proof. unfold area_fits. vm_compute. split; [discriminate | intro H; apply H; reflexivity]. Qed.

(* the arguments that the unrepaired code accepted with a wrapped size are refused now *)
Lemma ts_init_oversize_refused_l :
  gen_ts_init npo2z 0 0 0 0 0 [] 8 536870912 1 1 = (code_MUGGLE_ERR_INVALID_PARAM, 0, 0, 0, 0, 0, [], -1, -1, -1, -1) /\
  gen_ts_init npo2z 0 0 0 0 0 [] 1 4294967288 1 1 = (code_MUGGLE_ERR_INVALID_PARAM, 0, 0, 0, 0, 0, [], -1, -1, -1, -1).
Proof. split; vm_compute; reflexivity. Qed.

(* ---------------- sowr pool ---------------- *)
Definition sowr_cap_arg (c0 : Z) : Z := if c0 <=? 0 then 8 else c0.       (* capacity 0 means 8 *)

Lemma sowr_init_refuses a bs c cap f hb c0 d m1 : 0 <= c0 < two32 -> 0 <= d < two32 ->
  2147483648 < c0 \/ ~ area_fits (npo2z (sowr_cap_arg c0)) (true_sharing (code_sizeof_muggle_sowr_block_head_t + d)) ->
  ref_sowr_init npo2z a bs c cap f hb c0 d m1 = (code_MUGGLE_ERR_INVALID_PARAM, 0, 0, 0, 0, 0, hb, -1, 0).
Proof.
  intros Hc Hd H. unfold ref_sowr_init. cbv zeta. fold (sowr_cap_arg c0).
  destruct (Z_le_gt_dec c0 2147483648) as [Hle|Hgt].
  2:{ unfold sowr_cap_arg. replace (c0 <=? 0) with false by lia. rewrite npo2z_big by (unfold two32 in *; lia). reflexivity. }
  destruct H as [H|H]; [exfalso; lia|].
  assert (Hc1 : 1 <= sowr_cap_arg c0 <= 2147483648) by (unfold sowr_cap_arg; destruct (c0 <=? 0) eqn:E; lia).
  destruct (npo2z_cap _ Hc1) as [Hp _]. pose proof (pow2cap_pos _ Hp) as Hpos.
  rewrite (pow2cap_mod32 _ Hp). replace (npo2z (sowr_cap_arg c0) <=? 0) with false by lia.
  rewrite align64_exact by (code_consts; unfold two32 in *; lia).
  destruct (true_sharing_bounds (code_sizeof_muggle_sowr_block_head_t + d)) as [Hb _]; [code_consts; lia|].
  unfold area_fits, max32 in *.
  rewrite Z.quot_div_nonneg by lia.
  replace (true_sharing (code_sizeof_muggle_sowr_block_head_t + d) >? 4294967295 / npo2z (sowr_cap_arg c0)) with true
    by (symmetry; apply Z.gtb_lt; apply Z.div_lt_upper_bound; lia).
  reflexivity.
Qed.

Lemma sowr_init_accepts a bs c cap f hb c0 d m1 n scripts :
  0 <= c0 <= 2147483648 -> 0 <= d < two32 ->
  area_fits (npo2z (sowr_cap_arg c0)) (true_sharing (code_sizeof_muggle_sowr_block_head_t + d)) -> m1 <> 0 ->
  let s0 := sinit (zn (next_pow2 (Z.to_nat (sowr_cap_arg c0)))) 0 n scripts in
  let cap' := s_cap s0 in
  let bs' := true_sharing (code_sizeof_muggle_sowr_block_head_t + d) in
  ref_sowr_init npo2z a bs c cap f hb c0 d m1 =
    (code_MUGGLE_OK, s_alloc s0, bs', s_cached s0, cap', s_free s0,
     lfill hb cap' (fun i => blkidx 32 bs' i) (fun i => i), cap' * bs', 1) /\
  pow2cap cap' /\ sowr_cap_arg c0 <= cap'.
Proof.
  intros Hc Hd Hfit H1 s0 cap' bs'. subst s0 cap'. cbn [sinit s_cap s_alloc s_cached s_free].
  assert (Hc1 : 1 <= sowr_cap_arg c0 <= 2147483648) by (unfold sowr_cap_arg; destruct (c0 <=? 0) eqn:E; lia).
  rewrite (next_pow2_npo2z _ Hc1). destruct (npo2z_cap _ Hc1) as [Hp Hle]. pose proof (pow2cap_pos _ Hp) as Hpos.
  split; [|split; assumption].
  unfold ref_sowr_init. cbv zeta. fold (sowr_cap_arg c0). rewrite (pow2cap_mod32 _ Hp).
  rewrite align64_exact by (code_consts; unfold two32 in *; lia). fold bs'.
  destruct (true_sharing_bounds (code_sizeof_muggle_sowr_block_head_t + d)) as [Hb _]; [code_consts; lia|]. fold bs' in Hb.
  unfold area_fits, max32 in *. fold bs' in Hfit.
  assert (Hbs : 0 < bs' <= 4294967295) by (code_consts; nia).
  replace (npo2z (sowr_cap_arg c0) <=? 0) with false by lia.
  rewrite Z.quot_div_nonneg by lia.
  replace (bs' >? 4294967295 / npo2z (sowr_cap_arg c0)) with false
    by (symmetry; rewrite Z.gtb_ltb; apply Z.ltb_ge; apply Z.div_le_lower_bound; lia).
  replace (m1 =? 0) with false by lia.
  rewrite (Z.mod_small bs' two32) by (unfold two32; lia).
  rewrite (Z.mod_small (bs' * npo2z (sowr_cap_arg c0)) two32) by (unfold two32; nia).
  rewrite (Z.mod_small (npo2z (sowr_cap_arg c0) - 1) two32) by (unfold two32; lia).
  change (0 mod two32) with 0. rewrite (Z.mul_comm bs'). reflexivity.
Qed.

Lemma sowr_init_sizes_exact_l a bs c cap f hb c0 d m1 :
  0 <= c0 < two32 -> 0 <= d < two32 -> m1 <> 0 ->
  let cap' := npo2z (sowr_cap_arg c0) in
  let bs' := true_sharing (code_sizeof_muggle_sowr_block_head_t + d) in
  gen_sowr_init npo2z a bs c cap f hb c0 d m1 = (code_MUGGLE_ERR_INVALID_PARAM, 0, 0, 0, 0, 0, hb, -1, 0) \/
  exists hb',
    gen_sowr_init npo2z a bs c cap f hb c0 d m1 = (code_MUGGLE_OK, 0, bs', cap' - 1, cap', 0, hb', cap' * bs', 1) /\
    sowr_cap_arg c0 <= cap' /\ pow2cap cap' /\ fits cap' bs' /\ code_sizeof_muggle_sowr_block_head_t + d + 128 <= bs' /\
    (forall i, 0 <= i < cap' -> blkidx 32 bs' i = i) /\
    (zlenZ hb = cap' -> forall j, 0 <= j < cap' -> lget hb' j = j).
Proof.
  intros Hc Hd H1 cap' bs'.
  rewrite gen_sowr_init_ref by (unfold u32, two32 in *; lia).
  destruct (Z_le_gt_dec c0 2147483648) as [Hle|Hgt]; [|left; apply sowr_init_refuses; auto; lia].
  destruct (Z_le_gt_dec (cap' * bs') max32) as [Hfit|Hno].
  2:{ left. apply sowr_init_refuses; auto. all: try (right; unfold area_fits; fold cap' bs'; lia). }
  right. assert (Hc0 : 0 <= c0 <= 2147483648) by lia.
  destruct (sowr_init_accepts a bs c cap f hb c0 d m1 0%nat (fun _ => []) Hc0 Hd Hfit H1) as (E & _).
  assert (Hc1 : 1 <= sowr_cap_arg c0 <= 2147483648) by (unfold sowr_cap_arg; destruct (c0 <=? 0) eqn:E0; lia).
  cbn [sinit s_cap s_alloc s_cached s_free] in E. rewrite (next_pow2_npo2z _ Hc1) in E. fold cap' bs' in E.
  change (0 mod two32) with 0 in E.
  destruct (npo2z_cap _ Hc1) as [Hp Hle2]. pose proof (pow2cap_pos _ Hp) as Hpos. fold cap' in Hp, Hle2, Hpos.
  destruct (true_sharing_bounds (code_sizeof_muggle_sowr_block_head_t + d)) as [Hb _]; [code_consts; lia|]. fold bs' in Hb.
  assert (F : fits cap' bs') by (split; [code_consts; lia | unfold max32 in Hfit; lia]).
  eexists. split; [rewrite E; reflexivity|].
  split; [exact Hle2|]. split; [exact Hp|]. split; [exact F|]. split; [lia|]. split.
  - intros i Hi. apply (blkidx_wide 32 bs' i cap'); try lia; apply F.
  - intros Hl j Hj. destruct (init_fill_cells hb cap' bs' (fun i => i) ltac:(lia) F Hl) as [_ A]. rewrite A by lia. reflexivity.
Qed.

Lemma sowr_init_oversize_refused_l :
  gen_sowr_init npo2z 0 0 0 0 0 [] 8 536870912 1 = (code_MUGGLE_ERR_INVALID_PARAM, 0, 0, 0, 0, 0, [], -1, 0).
Proof. vm_compute; reflexivity. Qed.

(* ---------------- ring pool ---------------- *)
Definition ring_cap_arg (c0 : Z) : Z := if c0 <? 2 then 2 else c0.        (* capacity below 2 means 2 *)

Lemma ring_bs_pow2 d : 1 <= d < two32 ->
  let bs := npo2z (d + code_sizeof_muggle_ring_mpool_block_head_t) in
  d + code_sizeof_muggle_ring_mpool_block_head_t <= bs <= 8589934592.
Proof.
  intros Hd bs. subst bs.
  destruct (npo2z_spec (d + code_sizeof_muggle_ring_mpool_block_head_t)) as (k & Hk & Ek & Hlek & Hl).
  { change (2 ^ 63) with 9223372036854775808. code_consts. unfold two32 in *. lia. }
  rewrite Ek. split; [exact Hlek|].
  destruct Hl as [->|Hl]; [vm_compute; discriminate|].
  assert (A : 2 ^ (k - 1) < 2 ^ 33) by (change (2 ^ 33) with 8589934592; code_consts; unfold two32 in *; lia).
  apply Z.pow_lt_mono_r_iff in A; [|lia|lia].
  assert (B : 2 ^ k <= 2 ^ 33) by (apply Z.pow_le_mono_r; lia). change (2 ^ 33) with 8589934592 in B. exact B.
Qed.

Lemma ring_init_refuses a bs cap hb hu c0 d m1 : 0 <= c0 < two32 -> 0 <= d < two32 ->
  2147483648 < c0 \/ d = 0 \/
  ~ area_fits (npo2z (ring_cap_arg c0)) (npo2z (d + code_sizeof_muggle_ring_mpool_block_head_t)) ->
  ref_ring_init npo2z a bs cap hb hu c0 d m1 = (code_MUGGLE_ERR_INVALID_PARAM, 0, 0, 0, hb, hu, -1, 0).
Proof.
  intros Hc Hd H. unfold ref_ring_init. cbv zeta. fold (ring_cap_arg c0).
  destruct (Z_le_gt_dec c0 2147483648) as [Hle|Hgt].
  2:{ unfold ring_cap_arg. replace (c0 <? 2) with false by lia. rewrite npo2z_big by (unfold two32 in *; lia). reflexivity. }
  assert (Hc1 : 2 <= ring_cap_arg c0 <= 2147483648) by (unfold ring_cap_arg; destruct (c0 <? 2) eqn:E; lia).
  destruct (npo2z_cap (ring_cap_arg c0)) as [Hp Hle2]; [lia|]. pose proof (pow2cap_pos _ Hp) as Hpos.
  rewrite (pow2cap_mod32 _ Hp). replace (npo2z (ring_cap_arg c0) <? 2) with false by lia.
  destruct (Z.eq_dec d 0) as [D0|DN]; [replace (d =? 0) with true by lia; reflexivity|].
  replace (d =? 0) with false by lia.
  destruct H as [H|[H|H]]; try (exfalso; lia).
  rewrite (Z.mod_small (d + code_sizeof_muggle_ring_mpool_block_head_t) two64) by (code_consts; unfold two64, two32 in *; lia).
  pose proof (ring_bs_pow2 d ltac:(lia)) as Hb. cbv zeta in Hb.
  unfold area_fits, max32 in *.
  rewrite Z.quot_div_nonneg by lia.
  replace (npo2z (d + code_sizeof_muggle_ring_mpool_block_head_t) >? 4294967295 / npo2z (ring_cap_arg c0)) with true
    by (symmetry; apply Z.gtb_lt; apply Z.div_lt_upper_bound; lia).
  reflexivity.
Qed.

Lemma ring_init_accepts a bs cap hb hu c0 d m1 n locked scripts :
  0 <= c0 <= 2147483648 -> 1 <= d < two32 ->
  area_fits (npo2z (ring_cap_arg c0)) (npo2z (d + code_sizeof_muggle_ring_mpool_block_head_t)) -> m1 <> 0 ->
  let s0 := rinit (next_pow2 (Z.to_nat (ring_cap_arg c0))) n locked scripts in
  let cap' := zn (r_cap s0) in
  let bs' := npo2z (d + code_sizeof_muggle_ring_mpool_block_head_t) in
  ref_ring_init npo2z a bs cap hb hu c0 d m1 =
    (code_MUGGLE_OK, zn (r_cursor s0), bs', cap',
     lfill hb cap' (fun i => blkidx 32 bs' i) (fun i => i),
     lfill hu cap' (fun i => blkidx 32 bs' i) (fun _ => 0), cap' * bs', 1) /\
  pow2cap cap' /\ 2 <= cap' /\ ring_cap_arg c0 <= cap' /\ (forall j, r_inuse s0 j = 0%nat).
Proof.
  intros Hc Hd Hfit H1 s0 cap' bs'. subst s0 cap'. cbn [rinit r_cap r_cursor r_inuse].
  assert (Hc1 : 2 <= ring_cap_arg c0 <= 2147483648) by (unfold ring_cap_arg; destruct (c0 <? 2) eqn:E; lia).
  rewrite (next_pow2_npo2z (ring_cap_arg c0)) by lia.
  destruct (npo2z_cap (ring_cap_arg c0)) as [Hp Hle]; [lia|]. pose proof (pow2cap_pos _ Hp) as Hpos.
  split; [|repeat split; auto; lia].
  unfold ref_ring_init. cbv zeta. fold (ring_cap_arg c0). rewrite (pow2cap_mod32 _ Hp).
  replace (npo2z (ring_cap_arg c0) <? 2) with false by lia. replace (d =? 0) with false by lia.
  rewrite (Z.mod_small (d + code_sizeof_muggle_ring_mpool_block_head_t) two64) by (code_consts; unfold two64, two32 in *; lia).
  fold bs'. pose proof (ring_bs_pow2 d Hd) as Hb. cbv zeta in Hb. fold bs' in Hb.
  unfold area_fits, max32 in *. fold bs' in Hfit.
  assert (Hbs : 0 < bs' <= 4294967295) by (code_consts; nia).
  rewrite Z.quot_div_nonneg by lia.
  replace (bs' >? 4294967295 / npo2z (ring_cap_arg c0)) with false
    by (symmetry; rewrite Z.gtb_ltb; apply Z.ltb_ge; apply Z.div_le_lower_bound; lia).
  replace (m1 =? 0) with false by lia.
  rewrite (Z.mod_small bs' two32) by (unfold two32; lia).
  rewrite (Z.mod_small (bs' * npo2z (ring_cap_arg c0)) two32) by (unfold two32; nia).
  rewrite (Z.mul_comm bs'). reflexivity.
Qed.

Lemma ring_init_sizes_exact_l a bs cap hb hu c0 d m1 :
  0 <= c0 < two32 -> 0 <= d < two32 -> m1 <> 0 ->
  let cap' := npo2z (ring_cap_arg c0) in
  let bs' := npo2z (d + code_sizeof_muggle_ring_mpool_block_head_t) in
  gen_ring_init npo2z a bs cap hb hu c0 d m1 = (code_MUGGLE_ERR_INVALID_PARAM, 0, 0, 0, hb, hu, -1, 0) \/
  exists hb' hu',
    gen_ring_init npo2z a bs cap hb hu c0 d m1 = (code_MUGGLE_OK, 0, bs', cap', hb', hu', cap' * bs', 1) /\
    ring_cap_arg c0 <= cap' /\ pow2cap cap' /\ fits cap' bs' /\ d + code_sizeof_muggle_ring_mpool_block_head_t <= bs' /\
    (forall i, 0 <= i < cap' -> blkidx 32 bs' i = i) /\
    (zlenZ hb = cap' -> forall j, 0 <= j < cap' -> lget hb' j = j) /\
    (zlenZ hu = cap' -> forall j, 0 <= j < cap' -> lget hu' j = 0).
Proof.
  intros Hc Hd H1 cap' bs'.
  rewrite gen_ring_init_ref by (unfold u32, two32 in *; lia).
  destruct (Z_le_gt_dec c0 2147483648) as [Hle|Hgt]; [|left; apply ring_init_refuses; auto; lia].
  destruct (Z.eq_dec d 0) as [D0|DN]; [left; apply ring_init_refuses; auto|].
  destruct (Z_le_gt_dec (cap' * bs') max32) as [Hfit|Hno].
  2:{ left. apply ring_init_refuses; auto. all: try (right; right; unfold area_fits; fold cap' bs'; lia). }
  right. assert (Hc0 : 0 <= c0 <= 2147483648) by lia. assert (Hd1 : 1 <= d < two32) by lia.
  destruct (ring_init_accepts a bs cap hb hu c0 d m1 0%nat false (fun _ => []) Hc0 Hd1 Hfit H1) as (E & _).
  assert (Hc1 : 2 <= ring_cap_arg c0 <= 2147483648) by (unfold ring_cap_arg; destruct (c0 <? 2) eqn:E0; lia).
  cbn [rinit r_cap r_cursor r_inuse] in E. rewrite (next_pow2_npo2z (ring_cap_arg c0)) in E by lia. fold cap' bs' in E.
  destruct (npo2z_cap (ring_cap_arg c0)) as [Hp Hle2]; [lia|]. pose proof (pow2cap_pos _ Hp) as Hpos. fold cap' in Hp, Hle2, Hpos.
  pose proof (ring_bs_pow2 d Hd1) as Hb. cbv zeta in Hb. fold bs' in Hb.
  assert (F : fits cap' bs') by (split; [code_consts; lia | unfold max32 in Hfit; lia]).
  eexists; eexists. split; [rewrite E; reflexivity|].
  split; [exact Hle2|]. split; [exact Hp|]. split; [exact F|]. split; [lia|]. split; [|split].
  - intros i Hi. apply (blkidx_wide 32 bs' i cap'); try lia; apply F.
  - intros Hl j Hj. destruct (init_fill_cells hb cap' bs' (fun i => i) ltac:(lia) F Hl) as [_ A]. rewrite A by lia. reflexivity.
  - intros Hl j Hj. destruct (init_fill_cells hu cap' bs' (fun _ => 0) ltac:(lia) F Hl) as [_ A]. rewrite A by lia. reflexivity.
Qed.

Lemma ring_init_oversize_refused_l :
  gen_ring_init npo2z 0 0 0 [] [] 2 2147483648 1 = (code_MUGGLE_ERR_INVALID_PARAM, 0, 0, 0, [], [], -1, 0) /\
  gen_ring_init npo2z 0 0 0 [] [] 8 536870912 1 = (code_MUGGLE_ERR_INVALID_PARAM, 0, 0, 0, [], [], -1, 0).
Proof. split; vm_compute; reflexivity. Qed.

(* ====================================================================== *)
(* the model's init / block geometry (C05/Model.v section 4) is what the init references compute *)

Lemma model_geometry_consts :
  head_ts = code_sizeof_muggle_ts_memory_pool_head_t /\ head_sowr = code_sizeof_muggle_sowr_block_head_t /\
  head_ring = code_sizeof_muggle_ring_mpool_block_head_t /\ cell_ts = code_sizeof_muggle_ts_memory_pool_head_ptr_t.
Proof. repeat split; reflexivity. Qed.

Lemma ts_init_model_geometry a bs c cap f ptrs c0 d m1 m2 cap' :
  1 <= c0 <= 2147483648 -> 1 <= d < two32 -> area_fits (npo2z c0) (true_sharing (head_ts + d)) -> m1 <> 0 -> m2 <> 0 ->
  ts_init_cap (Z.to_nat c0) = Some cap' ->
  ref_ts_init npo2z a bs c cap f ptrs c0 d m1 m2 =
    (code_MUGGLE_OK, 0, ts_block_size d, 0, zn cap', 0,
     lfill ptrs (zn cap') (fun i => i) (fun i => blkidx 32 (ts_block_size d) i),
     slab_bytes (zn cap') (ts_block_size d), zn cap' * cell_ts, 1, 2).
Proof.
  intros Hc Hd Hfit H1 H2 Hcap. unfold ts_init_cap in Hcap.
  replace (Nat.eqb (Z.to_nat c0) 0) with false in Hcap by (symmetry; apply Nat.eqb_neq; lia).
  injection Hcap as <-.
  change head_ts with code_sizeof_muggle_ts_memory_pool_head_t in Hfit.
  destruct (ts_init_accepts a bs c cap f ptrs c0 d m1 m2 0%nat (fun _ => []) Hc Hd Hfit H1 H2) as (E & Hp & _).
  cbn [tinit t_cap t_alloc t_cached t_free] in E, Hp. rewrite E.
  pose proof (pow2cap_pos _ Hp) as Hpos. rewrite (next_pow2_npo2z c0 Hc) in *.
  destruct (true_sharing_bounds (code_sizeof_muggle_ts_memory_pool_head_t + d)) as [Hb _]; [code_consts; lia|].
  unfold area_fits, max32 in Hfit.
  assert (Ea : ts_block_size d = true_sharing (code_sizeof_muggle_ts_memory_pool_head_t + d)).
  { unfold ts_block_size. change head_ts with code_sizeof_muggle_ts_memory_pool_head_t.
    apply align_ts_exact; code_consts; try lia. unfold two32. nia. }
  rewrite Ea. unfold slab_bytes. rewrite Z.mod_small by (unfold two32; code_consts; nia). reflexivity.
Qed.

Lemma sowr_init_model_geometry a bs c cap f hb c0 d m1 cap' :
  0 <= c0 <= 2147483648 -> 0 <= d < two32 -> area_fits (npo2z (sowr_cap_arg c0)) (true_sharing (head_sowr + d)) -> m1 <> 0 ->
  sowr_init_cap (Z.to_nat c0) = Some cap' ->
  ref_sowr_init npo2z a bs c cap f hb c0 d m1 =
    (code_MUGGLE_OK, 0, sowr_block_size d, zn cap' - 1, zn cap', 0,
     lfill hb (zn cap') (fun i => blkidx 32 (sowr_block_size d) i) (fun i => i),
     slab_bytes (zn cap') (sowr_block_size d), 1).
Proof.
  intros Hc Hd Hfit H1 Hcap. unfold sowr_init_cap in Hcap. injection Hcap as <-.
  change head_sowr with code_sizeof_muggle_sowr_block_head_t in Hfit.
  destruct (sowr_init_accepts a bs c cap f hb c0 d m1 0%nat (fun _ => []) Hc Hd Hfit H1) as (E & Hp & _).
  cbn [sinit s_cap s_alloc s_cached s_free] in E, Hp. change (0 mod two32) with 0 in E.
  assert (A : Z.to_nat (sowr_cap_arg c0) = if Nat.eqb (Z.to_nat c0) 0 then 8%nat else Z.to_nat c0).
  { unfold sowr_cap_arg. destruct (Z.leb_spec c0 0).
    - replace c0 with 0 by lia. reflexivity.
    - replace (Nat.eqb (Z.to_nat c0) 0) with false by (symmetry; apply Nat.eqb_neq; lia). reflexivity. }
  rewrite A in E, Hp. rewrite E. pose proof (pow2cap_pos _ Hp) as Hpos.
  assert (Hc1 : 1 <= sowr_cap_arg c0 <= 2147483648) by (unfold sowr_cap_arg; destruct (c0 <=? 0) eqn:E0; lia).
  rewrite <- A in *. rewrite (next_pow2_npo2z _ Hc1) in *.
  destruct (true_sharing_bounds (code_sizeof_muggle_sowr_block_head_t + d)) as [Hb _]; [code_consts; lia|].
  unfold area_fits, max32 in Hfit.
  assert (Ea : sowr_block_size d = true_sharing (code_sizeof_muggle_sowr_block_head_t + d)).
  { unfold sowr_block_size. change head_sowr with code_sizeof_muggle_sowr_block_head_t.
    apply align_ts_exact; code_consts; try lia. unfold two32. nia. }
  rewrite Ea. unfold slab_bytes. rewrite Z.mod_small by (unfold two32; code_consts; nia). reflexivity.
Qed.

Lemma ring_init_model_geometry a bs cap hb hu c0 d m1 cap' :
  0 <= c0 <= 2147483648 -> 1 <= d -> d + head_ring <= 2147483648 ->
  area_fits (npo2z (ring_cap_arg c0)) (npo2z (d + head_ring)) -> m1 <> 0 ->
  ring_init_cap (Z.to_nat c0) = Some cap' ->
  ref_ring_init npo2z a bs cap hb hu c0 d m1 =
    (code_MUGGLE_OK, 0, ring_block_size d, zn cap',
     lfill hb (zn cap') (fun i => blkidx 32 (ring_block_size d) i) (fun i => i),
     lfill hu (zn cap') (fun i => blkidx 32 (ring_block_size d) i) (fun _ => 0),
     slab_bytes (zn cap') (ring_block_size d), 1).
Proof.
  intros Hc Hd Hdh Hfit H1 Hcap. unfold ring_init_cap in Hcap. injection Hcap as <-.
  assert (Hd2 : 1 <= d < two32) by (unfold two32, head_ring in *; lia).
  change head_ring with code_sizeof_muggle_ring_mpool_block_head_t in Hfit.
  destruct (ring_init_accepts a bs cap hb hu c0 d m1 0%nat false (fun _ => []) Hc Hd2 Hfit H1) as (E & Hp & _).
  cbn [rinit r_cap r_cursor r_inuse] in E, Hp.
  assert (A : Z.to_nat (ring_cap_arg c0) = if Nat.ltb (Z.to_nat c0) 2 then 2%nat else Z.to_nat c0).
  { unfold ring_cap_arg. destruct (Z.ltb_spec c0 2).
    - replace (Nat.ltb (Z.to_nat c0) 2) with true by (symmetry; apply Nat.ltb_lt; lia). reflexivity.
    - replace (Nat.ltb (Z.to_nat c0) 2) with false by (symmetry; apply Nat.ltb_ge; lia). reflexivity. }
  rewrite A in E, Hp. rewrite E. pose proof (pow2cap_pos _ Hp) as Hpos.
  assert (Hc1 : 2 <= ring_cap_arg c0 <= 2147483648) by (unfold ring_cap_arg; destruct (c0 <? 2) eqn:E0; lia).
  rewrite <- A in *. rewrite (next_pow2_npo2z (ring_cap_arg c0)) in * by lia.
  assert (B : ring_block_size d = npo2z (d + code_sizeof_muggle_ring_mpool_block_head_t)).
  { unfold ring_block_size. change code_sizeof_muggle_ring_mpool_block_head_t with head_ring.
    rewrite next_pow2_npo2z by (unfold head_ring in *; lia).
    destruct (npo2z_cap (d + head_ring)) as [Hq _]; [unfold head_ring in *; lia|]. apply pow2cap_mod32. exact Hq. }
  rewrite B. pose proof (ring_bs_pow2 d Hd2) as Hb. cbv zeta in Hb.
  unfold area_fits, max32 in Hfit.
  unfold slab_bytes. rewrite Z.mod_small by (unfold two32; code_consts; nia). reflexivity.
Qed.

(* ---- block geometry: user regions of data_size bytes at stride block_size, each head bytes into its
   block, are pairwise disjoint and inside the slab of capacity * block_size bytes ---- *)
Lemma blocks_disjoint_inside_slab : forall cap bs hd d i j,
  0 <= hd -> 0 <= d -> hd + d <= bs -> 0 <= i < cap -> 0 <= j < cap -> i <> j ->
  let lo := fun k => k * bs + hd in
  (lo i + d <= lo j \/ lo j + d <= lo i) /\ 0 <= lo i /\ lo i + d <= cap * bs.
Proof. intros cap bs hd d i j Hh Hd Hfit Hi Hj Hne lo. subst lo. cbv beta. nia. Qed.

(* ... and the init functions establish the premises whenever the data area is below 4 GiB: the slab
   requested from the allocator has capacity * block_size bytes and a block holds head + data_size *)
Lemma ts_blocks_disjoint_inside c0 d :
  1 <= c0 <= 2147483648 -> 1 <= d ->
  let cap := npo2z c0 in let bs := true_sharing (head_ts + d) in
  cap * bs < two32 ->
  ts_block_size d = bs /\ slab_bytes cap bs = cap * bs /\ head_ts + d <= bs /\
  forall i j, 0 <= i < cap -> 0 <= j < cap -> i <> j ->
    (i * bs + head_ts + d <= j * bs + head_ts \/ j * bs + head_ts + d <= i * bs + head_ts) /\
    0 <= i * bs + head_ts /\ i * bs + head_ts + d <= slab_bytes cap bs.
Proof.
  intros Hc Hd cap bs Hfit.
  destruct (npo2z_cap c0 Hc) as [Hp _]. pose proof (pow2cap_pos _ Hp) as Hpos. fold cap in Hpos.
  destruct (true_sharing_bounds (head_ts + d)) as [Hb _]; [unfold head_ts; lia|]. fold bs in Hb.
  assert (Hbs : bs < two32) by (unfold two32 in *; nia).
  assert (E : ts_block_size d = bs) by (unfold ts_block_size; apply align_ts_exact; unfold head_ts; try lia; exact Hbs).
  assert (S : slab_bytes cap bs = cap * bs) by (unfold slab_bytes; apply Z.mod_small; unfold two32, head_ts, head_sowr, head_ring in *; nia).
  split; [exact E|]. split; [exact S|]. split; [lia|].
  intros i j Hi Hj Hne. rewrite S.
  apply (blocks_disjoint_inside_slab cap bs head_ts d i j); unfold head_ts in *; lia.
Qed.

Lemma sowr_blocks_disjoint_inside c0 d :
  0 <= c0 <= 2147483648 -> 0 <= d ->
  let cap := npo2z (sowr_cap_arg c0) in let bs := true_sharing (head_sowr + d) in
  cap * bs < two32 ->
  sowr_block_size d = bs /\ slab_bytes cap bs = cap * bs /\ head_sowr + d <= bs /\
  forall i j, 0 <= i < cap -> 0 <= j < cap -> i <> j ->
    (i * bs + head_sowr + d <= j * bs + head_sowr \/ j * bs + head_sowr + d <= i * bs + head_sowr) /\
    0 <= i * bs + head_sowr /\ i * bs + head_sowr + d <= slab_bytes cap bs.
Proof.
  intros Hc Hd cap bs Hfit.
  assert (Hc1 : 1 <= sowr_cap_arg c0 <= 2147483648) by (unfold sowr_cap_arg; destruct (c0 <=? 0) eqn:E; lia).
  destruct (npo2z_cap _ Hc1) as [Hp _]. pose proof (pow2cap_pos _ Hp) as Hpos. fold cap in Hpos.
  destruct (true_sharing_bounds (head_sowr + d)) as [Hb _]; [unfold head_sowr; lia|]. fold bs in Hb.
  assert (Hbs : bs < two32) by (unfold two32 in *; nia).
  assert (E : sowr_block_size d = bs) by (unfold sowr_block_size; apply align_ts_exact; unfold head_sowr; try lia; exact Hbs).
  assert (S : slab_bytes cap bs = cap * bs) by (unfold slab_bytes; apply Z.mod_small; unfold two32, head_ts, head_sowr, head_ring in *; nia).
  split; [exact E|]. split; [exact S|]. split; [lia|].
  intros i j Hi Hj Hne. rewrite S.
  apply (blocks_disjoint_inside_slab cap bs head_sowr d i j); unfold head_sowr in *; lia.
Qed.

Lemma ring_blocks_disjoint_inside c0 d :
  0 <= c0 <= 2147483648 -> 1 <= d -> d + head_ring <= 2147483648 ->
  let cap := npo2z (ring_cap_arg c0) in let bs := ring_block_size d in
  cap * bs < two32 ->
  slab_bytes cap bs = cap * bs /\ head_ring + d <= bs /\
  forall i j, 0 <= i < cap -> 0 <= j < cap -> i <> j ->
    (i * bs + head_ring + d <= j * bs + head_ring \/ j * bs + head_ring + d <= i * bs + head_ring) /\
    0 <= i * bs + head_ring /\ i * bs + head_ring + d <= slab_bytes cap bs.
Proof.
  intros Hc Hd Hdh cap bs Hfit.
  assert (Hc1 : 2 <= ring_cap_arg c0 <= 2147483648) by (unfold ring_cap_arg; destruct (c0 <? 2) eqn:E; lia).
  destruct (npo2z_cap (ring_cap_arg c0)) as [Hp _]; [lia|]. pose proof (pow2cap_pos _ Hp) as Hpos. fold cap in Hpos.
  assert (B : bs = npo2z (d + head_ring)).
  { subst bs. unfold ring_block_size. rewrite next_pow2_npo2z by (unfold head_ring in *; lia).
    destruct (npo2z_cap (d + head_ring)) as [Hq _]; [unfold head_ring in *; lia|]. apply pow2cap_mod32. exact Hq. }
  destruct (npo2z_cap (d + head_ring)) as [Hq Hle]; [unfold head_ring in *; lia|]. rewrite <- B in Hq, Hle.
  pose proof (pow2cap_pos _ Hq) as Hbpos.
  assert (S : slab_bytes cap bs = cap * bs) by (unfold slab_bytes; apply Z.mod_small; unfold two32, head_ts, head_sowr, head_ring in *; nia).
  split; [exact S|]. split; [lia|].
  intros i j Hi Hj Hne. rewrite S.
  apply (blocks_disjoint_inside_slab cap bs head_ring d i j); unfold head_ring in *; lia.
Qed.
