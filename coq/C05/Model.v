(* C05 — executable models of threadsafe_memory_pool.c, sowr_memory_pool.c and
   ring_memory_pool.c (with the harness client of harness/drivers/c05_driver.c) at the
   granularity of harness/vsched: every atomic / spinlock / yield operation is one step and
   every plain segment between two of them is one step.  Definitions only.

   The harness client: every thread runs a script of operations; before each operation it
   passes a harness-owned scheduling point ("op"); `a` allocates, `f<k>` frees the k-th block
   of the SHARED list of outstanding blocks (all blocks returned by alloc and not yet given to
   free, in order of return), `o<k>` frees the k-th outstanding block that this thread itself
   allocated.  The list [out] is the harness ownership map (block, owner).

   Indices are transcribed as in the code: MUGGLE_IDX_IN_POW_OF_2_RING(i, c) = i mod c with c a
   power of two (established by init); the sowr pool's free-running uint32 alloc_idx wraps
   mod 2^32. *)
From MV Require Export Lib.Conc.

(* ------------------------------------------------------------------ *)
(* memory orders of the atomic sites (coq/gen/Params_C05.v instantiates them) *)
Record params := {
  mo_ts_load_free : memorder;    (* ts alloc: load free_idx *)
  mo_ts_cas_alloc : memorder;    (* ts alloc: cmp_exch_weak alloc_idx *)
  mo_ts_store_free : memorder;   (* ts free: store free_idx *)
  mo_spin_tas : memorder;        (* spinlock lock: test_and_set (ts free, ring threadsafe_alloc) *)
  mo_spin_clear : memorder;      (* spinlock unlock: clear *)
  mo_sowr_load_free : memorder;  (* sowr alloc: load free_idx *)
  mo_sowr_store_free : memorder; (* sowr free: store free_idx *)
  mo_ring_load_inuse : memorder; (* ring alloc: load in_use *)
  mo_ring_store_inuse : memorder (* ring free: store in_use *)
}.

Definition acq_join (mo : memorder) (seen stamp : nat) : nat :=
  if is_acq mo then Nat.max seen stamp else seen.
Definition rel_stamp (mo : memorder) (seen : nat) : nat :=
  if is_rel mo then seen else 0%nat.
Definition rmw_stamp (mo : memorder) (seen stamp : nat) : nat :=
  if is_rel mo then Nat.max stamp seen else stamp.

(* ------------------------------------------------------------------ *)
(* scripts and the harness ownership list                              *)

Inductive op := OpAlloc | OpFree (k : nat) | OpFreeOwn (k : nat).

Definition olist := list (nat * nat).      (* (block, owner) in order of return *)

Fixpoint remove_nth {A} (j : nat) (l : list A) : list A :=
  match l with
  | [] => []
  | x :: r => match j with O => r | S j' => x :: remove_nth j' r end
  end.

Definition owned_in (b : nat) (out : olist) : bool := existsb (fun x => Nat.eqb (fst x) b) out.

(* positions (in [out]) of the entries owned by t *)
Fixpoint own_idx (t : nat) (out : olist) (i : nat) : list nat :=
  match out with
  | [] => []
  | x :: r => if Nat.eqb (snd x) t then i :: own_idx t r (S i) else own_idx t r (S i)
  end.

(* which entry a free operation takes: position in [out] *)
Definition pick_pos (t : nat) (o : op) (out : olist) : option nat :=
  match o with
  | OpAlloc => None
  | OpFree k => match out with [] => None | _ => Some (Nat.modulo k (length out)) end
  | OpFreeOwn k =>
    let idx := own_idx t out 0 in
    match idx with [] => None | _ => Some (nth (Nat.modulo k (length idx)) idx 0%nat) end
  end.

(* ring pool scenarios: a free operation with k >= 100 is the blocking variant: when there is nothing to
   free the thread passes the harness point "op" again instead of skipping the operation (a consumer
   that waits for the next block) *)
Definition op_waits (o : op) : bool :=
  match o with OpFree k | OpFreeOwn k => Nat.leb 100 k | OpAlloc => false end.

(* note codes (R lines of the driver) *)
Definition n_call : nat := 1%nat.    (* "a"          alloc called *)
Definition n_blk : nat := 2%nat.     (* "r b<k>"     alloc returned block k *)
Definition n_dup : nat := 3%nat.     (* "r b<k> DUP" ... which the harness map shows as still owned *)
Definition n_null : nat := 4%nat.    (* "r NULL <n>" alloc returned NULL with n blocks outstanding in the harness map *)
Definition n_free : nat := 5%nat.    (* "f b<k>"     free called with block k *)
Definition n_skip : nat := 6%nat.    (* "f skip"     nothing to free *)

(* cells *)
Definition cell_alloc : nat := 0%nat.
Definition cell_free : nat := 1%nat.
Definition cell_lock : nat := 2%nat.
Definition cell_op : nat := 3%nat.
Definition cell_inuse (b : nat) : nat := (10 + b)%nat.

Definition zn (n : nat) : Z := Z.of_nat n.
Definition b2n (b : bool) : nat := if b then 1%nat else 0%nat.

(* capacity rounding of the three init functions (muggle_next_pow_of_2 on small arguments) *)
Fixpoint pow2_ge (fuel n p : nat) : nat :=
  match fuel with
  | O => p
  | S f => if Nat.leb n p then p else pow2_ge f n (2 * p)
  end.
Definition next_pow2 (n : nat) : nat := pow2_ge n n 1.

(* program points common to the three clients *)
Definition nxt_is_fin (script : list op) : bool := match script with [] => true | _ => false end.

(* what the harness does with a returned block d (thread t): ownership check, note, list *)
Definition ret_notes (out : olist) (d : nat) : list (nat * Z) :=
  [(if owned_in d out then n_dup else n_blk, zn d)].
Definition ret_out (out : olist) (d t : nat) : olist :=
  if owned_in d out then out else out ++ [(d, t)].
Definition ret_dups (out : olist) (d : nat) (dups : nat) : nat :=
  if owned_in d out then S dups else dups.

(* ================================================================== *)
(* 1. thread-safe pool                                                 *)

Inductive tpc :=
  | TIdle                               (* plain segment up to the next "op" point / thread end *)
  | TYield                              (* the harness scheduling point before an operation *)
  | TBegin                              (* plain segment that starts the operation *)
  | TFin | TDone
  | ALoad (e p ve : nat)                (* load free_idx (acquire) *)
  | AAfter (e p v ve vl gf : nat)       (* plain: cached_free_pos := v; compare; read ptrs[e] *)
  | ACas (e p d ve va vc : nat)         (* cmp_exch_weak(&alloc_idx, &e, p) ; d = ptrs[e] read before *)
  | ARetry (e ve : nat)                 (* plain: loop body again with the observed value *)
  | ARet (d : nat)                      (* plain: return data; harness bookkeeping *)
  | FLock (b : nat) | FSpin1 (b : nat) | FYieldE (b : nat) | FSpin2 (b : nat)
  | FWrite (b : nat)                    (* plain: ptrs[free_idx] := b *)
  | FStore (pos : nat)                  (* store free_idx (release) *)
  | FSeg3 | FUnlock.
(* ghost registers: ve = number of successful allocations when the value e was observed
   (e = ve mod cap); va / vc = allocation count / cached_free_pos write count when ptrs[e] was
   read / cached_free_pos was compared; vl = allocation count at the load of free_idx;
   gf = (number of completed frees + cap) at that load, i.e. the logical position loaded. *)

Record tthread := { t_pc : tpc; t_script : list op; t_seen : nat }.

Record tsys := {
  t_cap : nat;
  t_n : nat;
  t_alloc : nat;             (* alloc_idx (atomic) *)
  t_cached : nat;            (* cached_free_pos: plain, shared by all allocators (data race in the code) *)
  t_free : nat;              (* free_idx (atomic) *)
  t_ptrs : nat -> nat;       (* ptrs[i].ptr as block ids *)
  t_lock : bool;             (* free_spinlock *)
  t_out : olist;             (* harness ownership list *)
  t_dups : nat;              (* harness: allocations that returned a block still owned *)
  t_badnull : nat;           (* ghost: NULL returned although (allocations at the read of expected) - (frees at the load) <> cap-1 *)
  (* ghost counters *)
  t_A : nat;                 (* successful allocations (CAS) so far *)
  t_F : nat;                 (* completed frees (free_idx stores) so far *)
  t_clog : nat;              (* logical position held by cached_free_pos *)
  t_cver : nat;              (* writes to cached_free_pos so far *)
  t_race : bool;             (* sticky: one of the three racy windows was hit (see ts_race_* below) *)
  (* views of the plain ptrs[] entries: writes are totally ordered by the lock *)
  t_pver : nat;              (* number of plain writes to ptrs so far *)
  t_wver : nat -> nat;       (* version of the last write of each entry *)
  t_fstamp : nat;            (* view carried by free_idx *)
  t_lstamp : nat;            (* view carried by the spinlock *)
  t_astamp : nat;            (* view carried by alloc_idx *)
  t_uncov : nat;             (* plain reads of ptrs / lock-protected writes not covered by the thread's view *)
  t_thr : nat -> tthread;
}.

Definition tinit (cap n : nat) (scripts : nat -> list op) : tsys :=
  {| t_cap := cap; t_n := n; t_alloc := 0; t_cached := 0; t_free := 0; t_ptrs := fun i => i;
     t_lock := false; t_out := []; t_dups := 0; t_badnull := 0;
     t_A := 0; t_F := 0; t_clog := cap; t_cver := 0; t_race := false;
     t_pver := 0; t_wver := fun _ => 0%nat; t_fstamp := 0; t_lstamp := 0; t_astamp := 0; t_uncov := 0;
     t_thr := fun t => {| t_pc := TIdle; t_script := scripts t; t_seen := 0 |} |}.

Definition t_set_thr (s : tsys) (t : nat) (x : tthread) : tsys :=
  {| t_cap := t_cap s; t_n := t_n s; t_alloc := t_alloc s; t_cached := t_cached s; t_free := t_free s;
     t_ptrs := t_ptrs s; t_lock := t_lock s; t_out := t_out s; t_dups := t_dups s; t_badnull := t_badnull s;
     t_A := t_A s; t_F := t_F s; t_clog := t_clog s; t_cver := t_cver s; t_race := t_race s;
     t_pver := t_pver s; t_wver := t_wver s; t_fstamp := t_fstamp s; t_lstamp := t_lstamp s;
     t_astamp := t_astamp s; t_uncov := t_uncov s; t_thr := upd (t_thr s) t x |}.
Definition t_set_alloc (s : tsys) (a A st : nat) (race : bool) : tsys :=
  {| t_cap := t_cap s; t_n := t_n s; t_alloc := a; t_cached := t_cached s; t_free := t_free s;
     t_ptrs := t_ptrs s; t_lock := t_lock s; t_out := t_out s; t_dups := t_dups s; t_badnull := t_badnull s;
     t_A := A; t_F := t_F s; t_clog := t_clog s; t_cver := t_cver s; t_race := race;
     t_pver := t_pver s; t_wver := t_wver s; t_fstamp := t_fstamp s; t_lstamp := t_lstamp s;
     t_astamp := st; t_uncov := t_uncov s; t_thr := t_thr s |}.
Definition t_set_cached (s : tsys) (c clog : nat) (race : bool) : tsys :=
  {| t_cap := t_cap s; t_n := t_n s; t_alloc := t_alloc s; t_cached := c; t_free := t_free s;
     t_ptrs := t_ptrs s; t_lock := t_lock s; t_out := t_out s; t_dups := t_dups s; t_badnull := t_badnull s;
     t_A := t_A s; t_F := t_F s; t_clog := clog; t_cver := S (t_cver s); t_race := race;
     t_pver := t_pver s; t_wver := t_wver s; t_fstamp := t_fstamp s; t_lstamp := t_lstamp s;
     t_astamp := t_astamp s; t_uncov := t_uncov s; t_thr := t_thr s |}.
Definition t_set_free (s : tsys) (f F st : nat) : tsys :=
  {| t_cap := t_cap s; t_n := t_n s; t_alloc := t_alloc s; t_cached := t_cached s; t_free := f;
     t_ptrs := t_ptrs s; t_lock := t_lock s; t_out := t_out s; t_dups := t_dups s; t_badnull := t_badnull s;
     t_A := t_A s; t_F := F; t_clog := t_clog s; t_cver := t_cver s; t_race := t_race s;
     t_pver := t_pver s; t_wver := t_wver s; t_fstamp := st; t_lstamp := t_lstamp s;
     t_astamp := t_astamp s; t_uncov := t_uncov s; t_thr := t_thr s |}.
Definition t_set_ptrs (s : tsys) (p : nat -> nat) (pv : nat) (wv : nat -> nat) : tsys :=
  {| t_cap := t_cap s; t_n := t_n s; t_alloc := t_alloc s; t_cached := t_cached s; t_free := t_free s;
     t_ptrs := p; t_lock := t_lock s; t_out := t_out s; t_dups := t_dups s; t_badnull := t_badnull s;
     t_A := t_A s; t_F := t_F s; t_clog := t_clog s; t_cver := t_cver s; t_race := t_race s;
     t_pver := pv; t_wver := wv; t_fstamp := t_fstamp s; t_lstamp := t_lstamp s;
     t_astamp := t_astamp s; t_uncov := t_uncov s; t_thr := t_thr s |}.
Definition t_set_lock (s : tsys) (l : bool) (st : nat) : tsys :=
  {| t_cap := t_cap s; t_n := t_n s; t_alloc := t_alloc s; t_cached := t_cached s; t_free := t_free s;
     t_ptrs := t_ptrs s; t_lock := l; t_out := t_out s; t_dups := t_dups s; t_badnull := t_badnull s;
     t_A := t_A s; t_F := t_F s; t_clog := t_clog s; t_cver := t_cver s; t_race := t_race s;
     t_pver := t_pver s; t_wver := t_wver s; t_fstamp := t_fstamp s; t_lstamp := st;
     t_astamp := t_astamp s; t_uncov := t_uncov s; t_thr := t_thr s |}.
Definition t_set_harness (s : tsys) (out : olist) (dups badnull : nat) : tsys :=
  {| t_cap := t_cap s; t_n := t_n s; t_alloc := t_alloc s; t_cached := t_cached s; t_free := t_free s;
     t_ptrs := t_ptrs s; t_lock := t_lock s; t_out := out; t_dups := dups; t_badnull := badnull;
     t_A := t_A s; t_F := t_F s; t_clog := t_clog s; t_cver := t_cver s; t_race := t_race s;
     t_pver := t_pver s; t_wver := t_wver s; t_fstamp := t_fstamp s; t_lstamp := t_lstamp s;
     t_astamp := t_astamp s; t_uncov := t_uncov s; t_thr := t_thr s |}.
Definition t_set_uncov (s : tsys) (u : nat) : tsys :=
  {| t_cap := t_cap s; t_n := t_n s; t_alloc := t_alloc s; t_cached := t_cached s; t_free := t_free s;
     t_ptrs := t_ptrs s; t_lock := t_lock s; t_out := t_out s; t_dups := t_dups s; t_badnull := t_badnull s;
     t_A := t_A s; t_F := t_F s; t_clog := t_clog s; t_cver := t_cver s; t_race := t_race s;
     t_pver := t_pver s; t_wver := t_wver s; t_fstamp := t_fstamp s; t_lstamp := t_lstamp s;
     t_astamp := t_astamp s; t_uncov := u; t_thr := t_thr s |}.

Definition mk_t (p : tpc) (sc : list op) (seen : nat) : tthread := {| t_pc := p; t_script := sc; t_seen := seen |}.
Definition nxt_t (sc : list op) : tpc := if nxt_is_fin sc then TFin else TYield.

(* the loop body up to the next atomic operation, with expected = e:
     alloc_pos = (e + 1) & (cap - 1);
     if (alloc_pos == pool->cached_free_pos) -> load free_idx
     else data = ptrs[e] -> cmp_exch_weak *)
Definition t_segA (s : tsys) (t : nat) (x : tthread) (e ve : nat) (notes : list (nat * Z)) : tsys * label :=
  let p := Nat.modulo (e + 1) (t_cap s) in
  if Nat.eqb p (t_cached s) then
    (t_set_thr s t (mk_t (ALoad e p ve) (t_script x) (t_seen x)), LPlain notes)
  else
    let cov := Nat.leb (t_wver s e) (t_seen x) in
    (t_set_thr (t_set_uncov s (if cov then t_uncov s else S (t_uncov s))) t
       (mk_t (ACas e p (t_ptrs s e) ve (t_A s) (t_cver s)) (t_script x) (t_seen x)), LPlain notes).

Definition tstep (P : params) (s : tsys) (t : nat) (ch : nat) : option (tsys * label) :=
  let x := t_thr s t in
  let go p := t_set_thr s t (mk_t p (t_script x) (t_seen x)) in
  if Nat.leb (t_n s) t then None else
  match t_pc x with
  | TDone => None
  | TFin => Some (go TDone, LExit)
  | TIdle => Some (go (nxt_t (t_script x)), LPlain [])
  | TYield => Some (go TBegin, LEv (Ev OPlain cell_op MoNone 0 0 0))
  | TBegin =>
    match t_script x with
    | [] => Some (go TFin, LPlain [])
    | OpAlloc :: r =>
      (* muggle_sync_t expected = pool->alloc_idx;  (plain read of the atomic cell) *)
      Some (t_segA s t (mk_t TBegin r (t_seen x)) (t_alloc s) (t_A s) [(n_call, 0%Z)])
    | o :: r =>
      match pick_pos t o (t_out s) with
      | None => Some (t_set_thr s t (mk_t (nxt_t r) r (t_seen x)), LPlain [(n_skip, 0%Z)])
      | Some j =>
        let b := fst (nth j (t_out s) (0%nat, 0%nat)) in
        Some (t_set_thr (t_set_harness s (remove_nth j (t_out s)) (t_dups s) (t_badnull s)) t
                (mk_t (FLock b) r (t_seen x)), LPlain [(n_free, zn b)])
      end
    end
  | ALoad e p ve =>
    let mo := mo_ts_load_free P in
    Some (t_set_thr s t (mk_t (AAfter e p (t_free s) ve (t_A s) (t_F s + t_cap s)) (t_script x)
                           (acq_join mo (t_seen x) (t_fstamp s))),
          LEv (Ev OLoad cell_free mo (zn (t_free s)) 0 0))
  | AAfter e p v ve vl gf =>
    (* pool->cached_free_pos = <loaded>; if (alloc_pos == pool->cached_free_pos) return NULL; *)
    let s1 := t_set_cached s v gf (t_race s || negb (Nat.eqb vl (t_A s))) in
    if Nat.eqb p v then
      let bad := if Nat.eqb (ve + 1) gf then t_badnull s else S (t_badnull s) in
      Some (t_set_thr (t_set_harness s1 (t_out s) (t_dups s) bad) t
              (mk_t (nxt_t (t_script x)) (t_script x) (t_seen x)),
            LPlain [(n_null, zn (length (t_out s)))])
    else
      let cov := Nat.leb (t_wver s e) (t_seen x) in
      Some (t_set_thr (t_set_uncov s1 (if cov then t_uncov s else S (t_uncov s))) t
              (mk_t (ACas e p (t_ptrs s e) ve (t_A s) (t_cver s1)) (t_script x) (t_seen x)), LPlain [])
  | ACas e p d ve va vc =>
    let mo := mo_ts_cas_alloc P in
    if Nat.eqb (t_alloc s) e then
      if Nat.eqb ch 1 then
        (* spurious failure of the weak CAS: nothing written, expected keeps its value *)
        Some (go (ARetry e (t_A s)), LEv (Ev OCasW cell_alloc mo (zn e) (zn p) 2))
      else
        let race := t_race s || negb (Nat.eqb va (t_A s)) || negb (Nat.eqb vc (t_cver s)) in
        Some (t_set_thr (t_set_alloc s p (S (t_A s)) (rmw_stamp mo (t_seen x) (t_astamp s)) race) t
                (mk_t (ARet d) (t_script x) (acq_join mo (t_seen x) (t_astamp s))),
              LEv (Ev OCasW cell_alloc mo (zn e) (zn p) 1))
    else
      Some (go (ARetry (t_alloc s) (t_A s)), LEv (Ev OCasW cell_alloc mo (zn (t_alloc s)) (zn p) 0))
  | ARetry e ve => Some (t_segA s t x e ve [])
  | ARet d =>
    Some (t_set_thr (t_set_harness s (ret_out (t_out s) d t) (ret_dups (t_out s) d (t_dups s)) (t_badnull s)) t
            (mk_t (nxt_t (t_script x)) (t_script x) (t_seen x)), LPlain (ret_notes (t_out s) d))
  | FLock b =>
    let mo := mo_spin_tas P in
    let x' := mk_t (if t_lock s then FSpin1 b else FWrite b) (t_script x) (acq_join mo (t_seen x) (t_lstamp s)) in
    Some (t_set_thr (t_set_lock s true (rmw_stamp mo (t_seen x) (t_lstamp s))) t x',
          LEv (Ev OTas cell_lock mo (zn (b2n (t_lock s))) 0 0))
  | FSpin1 b => Some (go (FYieldE b), LPlain [])
  | FYieldE b => Some (go (FSpin2 b), LEv (Ev OYield 0%nat MoNone 0 0 0))
  | FSpin2 b => Some (go (FLock b), LPlain [])
  | FWrite b =>
    (* pool->ptrs[pool->free_idx].ptr = block; free_pos = (free_idx + 1) & (cap - 1) *)
    let cov := Nat.eqb (t_seen x) (t_pver s) in
    let pv := S (t_pver s) in
    let s1 := t_set_ptrs s (upd (t_ptrs s) (t_free s) b) pv (upd (t_wver s) (t_free s) pv) in
    Some (t_set_thr (t_set_uncov s1 (if cov then t_uncov s else S (t_uncov s))) t
            (mk_t (FStore (Nat.modulo (t_free s + 1) (t_cap s))) (t_script x) pv), LPlain [])
  | FStore pos =>
    let mo := mo_ts_store_free P in
    Some (t_set_thr (t_set_free s pos (S (t_F s)) (rel_stamp mo (t_seen x))) t (mk_t FSeg3 (t_script x) (t_seen x)),
          LEv (Ev OStore cell_free mo (zn pos) 0 0))
  | FSeg3 => Some (go FUnlock, LPlain [])
  | FUnlock =>
    let mo := mo_spin_clear P in
    Some (t_set_thr (t_set_lock s false (rel_stamp mo (t_seen x))) t (mk_t TIdle (t_script x) (t_seen x)),
          LEv (Ev OClear cell_lock mo 0 0 0))
  end.

(* number of threads (below n) whose script contains an allocation *)
Definition has_alloc (sc : list op) : bool := existsb (fun o => match o with OpAlloc => true | _ => false end) sc.
Fixpoint count_allocators (scripts : nat -> list op) (n : nat) : nat :=
  match n with
  | O => O
  | S m => (if has_alloc (scripts m) then 1 else 0) + count_allocators scripts m
  end.

(* ================================================================== *)
(* 2. sowr pool (single allocator thread, single freer thread)         *)

Local Open Scope Z_scope.
Definition two32 : Z := 4294967296.

Inductive spc :=
  | SIdle | SYield | SBegin | SFin | SDone
  | SLoad (pos : Z)                    (* load free_idx *)
  | SAfter (pos v fl : Z)              (* plain: cached := (v - 1) & (cap - 1); compare *)
  | SStore (b : nat) (fc : Z).         (* store free_idx := block_idx + 1 *)
(* ghost registers: fl = logical free bound at the load; fc = logical bound after this free *)

Record sthread := { s_pc : spc; s_script : list op }.

Record ssys := {
  s_cap : Z;
  s_n : nat;
  s_alloc : Z;               (* alloc_idx: free-running uint32 *)
  s_cached : Z;              (* cached_free_pos (allocator only) *)
  s_free : Z;                (* free_idx = block_idx + 1 of the last freed block (atomic) *)
  s_out : olist;
  s_dups : nat;
  s_badnull : nat;           (* ghost: NULL returned although fewer than cap-1 blocks were outstanding at the load *)
  s_A : Z;                   (* ghost: logical index of the next allocation (unbounded) *)
  s_Fl : Z;                  (* ghost: every block with logical index < s_Fl has been freed (store done) *)
  s_Fc : Z;                  (* ghost: ... has been given to free() (call made) *)
  s_Cl : Z;                  (* ghost: logical free bound held by cached_free_pos *)
  s_thr : nat -> sthread;
}.

(* [base]: the state after base allocations and frees (a multiple of cap); lets a run start
   close to the uint32 wrap of alloc_idx *)
Definition sinit (cap base : Z) (n : nat) (scripts : nat -> list op) : ssys :=
  {| s_cap := cap; s_n := n; s_alloc := base mod two32; s_cached := cap - 1; s_free := 0;
     s_out := []; s_dups := 0; s_badnull := 0; s_A := base; s_Fl := base; s_Fc := base; s_Cl := base;
     s_thr := fun t => {| s_pc := SIdle; s_script := scripts t |} |}.

Definition s_set_thr (s : ssys) (t : nat) (x : sthread) : ssys :=
  {| s_cap := s_cap s; s_n := s_n s; s_alloc := s_alloc s; s_cached := s_cached s; s_free := s_free s;
     s_out := s_out s; s_dups := s_dups s; s_badnull := s_badnull s; s_A := s_A s; s_Fl := s_Fl s;
     s_Fc := s_Fc s; s_Cl := s_Cl s; s_thr := upd (s_thr s) t x |}.
Definition nxt_s (sc : list op) : spc := if nxt_is_fin sc then SFin else SYield.

(* ++pool->alloc_idx; return block; then the harness bookkeeping *)
Definition s_take (s : ssys) (t : nat) (pos : Z) (cached cl : Z) (sc : list op) (notes : list (nat * Z)) : ssys * label :=
  let d := Z.to_nat pos in
  ({| s_cap := s_cap s; s_n := s_n s; s_alloc := (s_alloc s + 1) mod two32; s_cached := cached; s_free := s_free s;
      s_out := ret_out (s_out s) d t; s_dups := ret_dups (s_out s) d (s_dups s); s_badnull := s_badnull s;
      s_A := s_A s + 1; s_Fl := s_Fl s; s_Fc := s_Fc s; s_Cl := cl;
      s_thr := upd (s_thr s) t {| s_pc := nxt_s sc; s_script := sc |} |},
   LPlain (notes ++ ret_notes (s_out s) d)).

Definition sstep (P : params) (s : ssys) (t : nat) (ch : nat) : option (ssys * label) :=
  let x := s_thr s t in
  let go p := s_set_thr s t {| s_pc := p; s_script := s_script x |} in
  if Nat.leb (s_n s) t then None else
  match s_pc x with
  | SDone => None
  | SFin => Some (go SDone, LExit)
  | SIdle => Some (go (nxt_s (s_script x)), LPlain [])
  | SYield => Some (go SBegin, LEv (Ev OPlain cell_op MoNone 0 0 0))
  | SBegin =>
    match s_script x with
    | [] => Some (go SFin, LPlain [])
    | OpAlloc :: r =>
      let pos := (s_alloc s) mod (s_cap s) in
      if negb (pos =? s_cached s) then Some (s_take s t pos (s_cached s) (s_Cl s) r [(n_call, 0)])
      else Some (s_set_thr s t {| s_pc := SLoad pos; s_script := r |}, LPlain [(n_call, 0)])
    | OpFree k :: r | OpFreeOwn k :: r =>
      (* free b: b and everything allocated before it are released *)
      match s_out s with
      | [] => Some (s_set_thr s t {| s_pc := nxt_s r; s_script := r |}, LPlain [(n_skip, 0)])
      | _ =>
        let j := Nat.modulo k (length (s_out s)) in
        let b := fst (nth j (s_out s) (0%nat, 0%nat)) in
        let fc := s_Fc s + Z.of_nat j + 1 in
        Some ({| s_cap := s_cap s; s_n := s_n s; s_alloc := s_alloc s; s_cached := s_cached s; s_free := s_free s;
                 s_out := skipn (S j) (s_out s); s_dups := s_dups s; s_badnull := s_badnull s;
                 s_A := s_A s; s_Fl := s_Fl s; s_Fc := fc; s_Cl := s_Cl s;
                 s_thr := upd (s_thr s) t {| s_pc := SStore b fc; s_script := r |} |},
              LPlain [(n_free, zn b)])
      end
    end
  | SLoad pos =>
    Some (go (SAfter pos (s_free s) (s_Fl s)), LEv (Ev OLoad cell_free (mo_sowr_load_free P) (s_free s) 0 0))
  | SAfter pos v fl =>
    (* cached = load; cached -= 1 (uint32); cached &= cap - 1 *)
    let c := ((v - 1) mod two32) mod (s_cap s) in
    if negb (pos =? c) then Some (s_take s t pos c fl (s_script x) [])
    else
      Some ({| s_cap := s_cap s; s_n := s_n s; s_alloc := s_alloc s; s_cached := c; s_free := s_free s;
               s_out := s_out s; s_dups := s_dups s;
               s_badnull := if s_A s - fl =? s_cap s - 1 then s_badnull s else S (s_badnull s);
               s_A := s_A s; s_Fl := s_Fl s; s_Fc := s_Fc s; s_Cl := fl;
               s_thr := upd (s_thr s) t {| s_pc := nxt_s (s_script x); s_script := s_script x |} |},
            LPlain [(n_null, zn (length (s_out s)))])
  | SStore b fc =>
    let v := Z.of_nat b + 1 in
    Some ({| s_cap := s_cap s; s_n := s_n s; s_alloc := s_alloc s; s_cached := s_cached s; s_free := v;
             s_out := s_out s; s_dups := s_dups s; s_badnull := s_badnull s;
             s_A := s_A s; s_Fl := fc; s_Fc := s_Fc s; s_Cl := s_Cl s;
             s_thr := upd (s_thr s) t {| s_pc := SIdle; s_script := s_script x |} |},
          LEv (Ev OStore cell_free (mo_sowr_store_free P) v 0 0))
  end.
Local Close Scope Z_scope.

(* ================================================================== *)
(* 3. ring pool                                                        *)

Inductive rpc :=
  | RIdle | RYield | RBegin | RFin | RDone
  | RLock | RSpin1 | RYieldE | RSpin2
  | RBody                               (* plain (after the lock): block = cursor; ++cursor *)
  | RLoad (blk : nat)                   (* load block->in_use *)
  | RAfter (blk v : nat)                (* plain: test; in_use = 1 or next block *)
  | RUnlock (blk : nat)
  | RRet (blk : nat)
  | RStore (b : nat).                   (* free: store in_use := 0 *)

Record rthread := { r_pc : rpc; r_script : list op }.

Record rsys := {
  r_cap : nat;
  r_n : nat;
  r_locked : bool;           (* allocations go through muggle_ring_memory_pool_threadsafe_alloc *)
  r_cursor : nat;            (* alloc_idx *)
  r_inuse : nat -> nat;      (* per-block flag *)
  r_lock : bool;
  r_out : olist;
  r_dups : nat;
  r_thr : nat -> rthread;
}.

Definition rinit (cap n : nat) (locked : bool) (scripts : nat -> list op) : rsys :=
  {| r_cap := cap; r_n := n; r_locked := locked; r_cursor := 0; r_inuse := fun _ => 0%nat; r_lock := false;
     r_out := []; r_dups := 0; r_thr := fun t => {| r_pc := RIdle; r_script := scripts t |} |}.

Definition r_set_thr (s : rsys) (t : nat) (x : rthread) : rsys :=
  {| r_cap := r_cap s; r_n := r_n s; r_locked := r_locked s; r_cursor := r_cursor s; r_inuse := r_inuse s;
     r_lock := r_lock s; r_out := r_out s; r_dups := r_dups s; r_thr := upd (r_thr s) t x |}.
Definition r_set_cursor (s : rsys) (c : nat) : rsys :=
  {| r_cap := r_cap s; r_n := r_n s; r_locked := r_locked s; r_cursor := c; r_inuse := r_inuse s;
     r_lock := r_lock s; r_out := r_out s; r_dups := r_dups s; r_thr := r_thr s |}.
Definition r_set_inuse (s : rsys) (u : nat -> nat) : rsys :=
  {| r_cap := r_cap s; r_n := r_n s; r_locked := r_locked s; r_cursor := r_cursor s; r_inuse := u;
     r_lock := r_lock s; r_out := r_out s; r_dups := r_dups s; r_thr := r_thr s |}.
Definition r_set_lock (s : rsys) (l : bool) : rsys :=
  {| r_cap := r_cap s; r_n := r_n s; r_locked := r_locked s; r_cursor := r_cursor s; r_inuse := r_inuse s;
     r_lock := l; r_out := r_out s; r_dups := r_dups s; r_thr := r_thr s |}.
Definition r_set_harness (s : rsys) (out : olist) (dups : nat) : rsys :=
  {| r_cap := r_cap s; r_n := r_n s; r_locked := r_locked s; r_cursor := r_cursor s; r_inuse := r_inuse s;
     r_lock := r_lock s; r_out := out; r_dups := dups; r_thr := r_thr s |}.
Definition nxt_r (sc : list op) : rpc := if nxt_is_fin sc then RFin else RYield.

(* block = blocks + alloc_idx; ++alloc_idx; alloc_idx &= cap - 1; -> load block->in_use *)
Definition r_body (s : rsys) (t : nat) (sc : list op) (notes : list (nat * Z)) : rsys * label :=
  (r_set_thr (r_set_cursor s (Nat.modulo (r_cursor s + 1) (r_cap s))) t {| r_pc := RLoad (r_cursor s); r_script := sc |},
   LPlain notes).

Definition r_ret (s : rsys) (t : nat) (blk : nat) (sc : list op) : rsys * label :=
  (r_set_thr (r_set_harness s (ret_out (r_out s) blk t) (ret_dups (r_out s) blk (r_dups s))) t
     {| r_pc := nxt_r sc; r_script := sc |}, LPlain (ret_notes (r_out s) blk)).

Definition rstep (P : params) (s : rsys) (t : nat) (ch : nat) : option (rsys * label) :=
  let x := r_thr s t in
  let go p := r_set_thr s t {| r_pc := p; r_script := r_script x |} in
  if Nat.leb (r_n s) t then None else
  match r_pc x with
  | RDone => None
  | RFin => Some (go RDone, LExit)
  | RIdle => Some (go (nxt_r (r_script x)), LPlain [])
  | RYield => Some (go RBegin, LEv (Ev OPlain cell_op MoNone 0 0 0))
  | RBegin =>
    match r_script x with
    | [] => Some (go RFin, LPlain [])
    | OpAlloc :: r =>
      if r_locked s then Some (r_set_thr s t {| r_pc := RLock; r_script := r |}, LPlain [(n_call, 0%Z)])
      else Some (r_body s t r [(n_call, 0%Z)])
    | o :: r =>
      match pick_pos t o (r_out s) with
      | None =>
        if op_waits o then Some (r_set_thr s t {| r_pc := RYield; r_script := o :: r |}, LPlain [])
        else Some (r_set_thr s t {| r_pc := nxt_r r; r_script := r |}, LPlain [(n_skip, 0%Z)])
      | Some j =>
        let b := fst (nth j (r_out s) (0%nat, 0%nat)) in
        Some (r_set_thr (r_set_harness s (remove_nth j (r_out s)) (r_dups s)) t {| r_pc := RStore b; r_script := r |},
              LPlain [(n_free, zn b)])
      end
    end
  | RLock =>
    Some (r_set_thr (r_set_lock s true) t {| r_pc := if r_lock s then RSpin1 else RBody; r_script := r_script x |},
          LEv (Ev OTas cell_lock (mo_spin_tas P) (zn (b2n (r_lock s))) 0 0))
  | RSpin1 => Some (go RYieldE, LPlain [])
  | RYieldE => Some (go RSpin2, LEv (Ev OYield 0%nat MoNone 0 0 0))
  | RSpin2 => Some (go RLock, LPlain [])
  | RBody => Some (r_body s t (r_script x) [])
  | RLoad blk =>
    Some (go (RAfter blk (r_inuse s blk)), LEv (Ev OLoad (cell_inuse blk) (mo_ring_load_inuse P) (zn (r_inuse s blk)) 0 0))
  | RAfter blk v =>
    match v with
    | O =>
      (* break; block->in_use = 1; return (threadsafe variant: unlock first) *)
      let s1 := r_set_inuse s (upd (r_inuse s) blk 1%nat) in
      if r_locked s then Some (r_set_thr s1 t {| r_pc := RUnlock blk; r_script := r_script x |}, LPlain [])
      else Some (r_ret s1 t blk (r_script x))
    | S _ => Some (r_body s t (r_script x) [])
    end
  | RUnlock blk =>
    Some (r_set_thr (r_set_lock s false) t {| r_pc := RRet blk; r_script := r_script x |},
          LEv (Ev OClear cell_lock (mo_spin_clear P) 0 0 0))
  | RRet blk => Some (r_ret s t blk (r_script x))
  | RStore b =>
    Some (r_set_thr (r_set_inuse s (upd (r_inuse s) b 0%nat)) t {| r_pc := RIdle; r_script := r_script x |},
          LEv (Ev OStore (cell_inuse b) (mo_ring_store_inuse P) 0 0 0))
  end.

(* ================================================================== *)
(* 4. init: requested capacity -> capacity, block geometry             *)
(* (what muggle_*_memory_pool_init computes before any thread runs; the arithmetic is on
   muggle_sync_t = uint32 as in the C text.  Tied to the C text by the translator obligations
   gen_*_init_matches_model and printed by both drivers as the "F geom" line.) *)

(* None: init refuses (MUGGLE_ERR_INVALID_PARAM).  Requests above 2^31, whose rounding does not fit
   muggle_sync_t, are refused too; the drivers never make them (the translator tie covers them). *)
Definition ts_init_cap (c : nat) : option nat := if Nat.eqb c 0 then None else Some (next_pow2 c).
Definition sowr_init_cap (c : nat) : option nat := Some (next_pow2 (if Nat.eqb c 0 then 8%nat else c)).
Definition ring_init_cap (c : nat) : option nat := Some (next_pow2 (if Nat.ltb c 2 then 2%nat else c)).

Local Open Scope Z_scope.
Definition head_ts : Z := 8.       (* sizeof(muggle_ts_memory_pool_head_t) *)
Definition head_sowr : Z := 16.    (* sizeof(muggle_sowr_block_head_t) *)
Definition head_ring : Z := 144.   (* sizeof(muggle_ring_mpool_block_head_t) *)
Definition cell_ts : Z := 128.     (* sizeof(muggle_ts_memory_pool_head_ptr_t) *)

(* MUGGLE_ALIGN_TRUE_SHARING((muggle_sync_t)sizeof(head) + data_size): round up to the cache line (64) and
   add two cache lines; every operation wraps at 2^32 *)
Definition align_ts (hd d : Z) : Z :=
  let b := (hd + d) mod two32 in
  let r := ((b + 64) mod two32 - 1) mod two32 in
  (r - r mod 64 + 128) mod two32.

Definition ts_block_size (d : Z) : Z := align_ts head_ts d.
Definition sowr_block_size (d : Z) : Z := align_ts head_sowr d.
(* (muggle_sync_t)muggle_next_pow_of_2(data_size + sizeof(head)) *)
Definition ring_block_size (d : Z) : Z := zn (next_pow2 (Z.to_nat (d + head_ring))) mod two32.
(* bytes requested for the data area: capacity * block_size, a product of two muggle_sync_t *)
Definition slab_bytes (cap bs : Z) : Z := (cap * bs) mod two32.
Local Close Scope Z_scope.
