From MV Require Import Lib.ExtractBase C05.Model.
From Coq Require Import ExtrOcamlBasic.
Extraction Language OCaml.
Extraction "c05_model" force_types next_pow2 tinit tstep sinit sstep rinit rstep count_allocators
  t_cap t_alloc t_cached t_free t_ptrs t_out t_dups t_badnull t_race t_uncov t_A t_F
  s_alloc s_cached s_free s_out s_dups s_badnull
  r_cursor r_inuse r_out r_dups
  ts_init_cap sowr_init_cap ring_init_cap head_ts head_sowr head_ring ts_block_size sowr_block_size ring_block_size slab_bytes.
