(* C05 — thread-safe pool, visibility (view discipline of Lib/Conc.v, DESIGN.md 4.2): with acquire/release
   on free_idx and on the free spinlock, every plain read of a ptrs[] entry by the allocator and every
   lock-protected write of one is covered by the thread's view (ghost counter t_uncov stays 0) — for a
   single allocator thread and any number of freers.  With several allocators the statement is false
   even outside the known class (cached_free_pos is read without synchronisation): witness below. *)
From MV Require Import C05.Model C05.ProofsRing C05.ProofsTs C05.ProofsTsInv.
Local Opaque Nat.modulo.

Definition after_cov (s : tsys) (x : tthread) : Prop :=
  match t_pc x with
  | AAfter _ _ _ _ _ gf => forall i, t_A s <= i < gf -> t_wver s (i mod t_cap s) <= t_seen x
  | _ => True
  end.

Record VInv (a : nat) (s : tsys) : Prop := {
  v_wver : forall p, t_wver s p <= t_pver s;
  v_seen : forall t, t_seen (t_thr s t) <= t_pver s;
  v_fst : t_fstamp s <= t_pver s;
  v_lst : t_lstamp s <= t_pver s;
  v_ast : t_astamp s <= t_pver s;
  v_free : t_lock s = false -> t_lstamp s = t_pver s;
  v_holder : forall t, holds_lock (t_pc (t_thr s t)) = true -> t_seen (t_thr s t) = t_pver s;
  v_ring : forall i, t_A s <= i < t_F s + t_cap s -> t_wver s (i mod t_cap s) <= t_fstamp s;
  v_cache : forall i, t_A s <= i < t_clog s -> t_wver s (i mod t_cap s) <= t_seen (t_thr s a);
  v_after : forall t, after_cov s (t_thr s t);
  v_uncov : t_uncov s = 0;
}.

Lemma VInv_build a s' cap A F clog pver wver fst lst ast lock uncov (thr : nat -> tthread) :
  t_cap s' = cap -> t_A s' = A -> t_F s' = F -> t_clog s' = clog -> t_pver s' = pver -> t_wver s' = wver ->
  t_fstamp s' = fst -> t_lstamp s' = lst -> t_astamp s' = ast -> t_lock s' = lock -> t_uncov s' = uncov ->
  (forall u, t_thr s' u = thr u) ->
  (forall p, wver p <= pver) -> (forall t, t_seen (thr t) <= pver) -> fst <= pver -> lst <= pver -> ast <= pver ->
  (lock = false -> lst = pver) ->
  (forall t, holds_lock (t_pc (thr t)) = true -> t_seen (thr t) = pver) ->
  (forall i, A <= i < F + cap -> wver (i mod cap) <= fst) ->
  (forall i, A <= i < clog -> wver (i mod cap) <= t_seen (thr a)) ->
  (forall t, match t_pc (thr t) with
             | AAfter _ _ _ _ _ gf => forall i, A <= i < gf -> wver (i mod cap) <= t_seen (thr t)
             | _ => True end) ->
  uncov = 0 -> VInv a s'.
Proof.
  intros <- <- <- <- <- <- <- <- <- <- <- Et. intros.
  constructor; unfold after_cov; intros; rewrite ?Et in *; eauto.
  match goal with H : forall t, match t_pc (thr t) with _ => _ end |- _ => apply H end.
Qed.

Definition vshared (s' : tsys) cap A F clog pver wver fst lst ast lock uncov : Prop :=
  t_cap s' = cap /\ t_A s' = A /\ t_F s' = F /\ t_clog s' = clog /\ t_pver s' = pver /\ t_wver s' = wver /\
  t_fstamp s' = fst /\ t_lstamp s' = lst /\ t_astamp s' = ast /\ t_lock s' = lock /\ t_uncov s' = uncov.

Ltac vbuild a s' Hsh Et :=
  let E1 := fresh in let E2 := fresh in let E3 := fresh in let E4 := fresh in let E5 := fresh in
  let E6 := fresh in let E7 := fresh in let E8 := fresh in let E9 := fresh in let E10 := fresh in
  let E11 := fresh in
  destruct Hsh as (E1 & E2 & E3 & E4 & E5 & E6 & E7 & E8 & E9 & E10 & E11);
  eapply (VInv_build a s' _ _ _ _ _ _ _ _ _ _ _ _ E1 E2 E3 E4 E5 E6 E7 E8 E9 E10 E11 Et).

Ltac vsh := repeat split; reflexivity.
Ltac vupd := simpl in *; rewrite ?upd_same in *; repeat (match goal with
  | H : context [upd (t_thr _) ?t _ ?u] |- _ =>
    destruct (Nat.eq_dec u t); [try first [subst u | subst t]; rewrite ?upd_same in * | rewrite ?(upd_other _ t u) in * by assumption]
  | |- context [upd (t_thr _) ?t _ ?u] =>
    destruct (Nat.eq_dec u t); [try first [subst u | subst t]; rewrite ?upd_same in * | rewrite ?(upd_other _ t u) in * by assumption]
  end; simpl in * ).

(* (1) only the stepping thread changes; its view does not shrink; it does not become lock holder or
   enter AAfter *)
Lemma V_thr a s s' t x' :
  VInv a s ->
  vshared s' (t_cap s) (t_A s) (t_F s) (t_clog s) (t_pver s) (t_wver s) (t_fstamp s) (t_lstamp s) (t_astamp s)
          (t_lock s) (t_uncov s) ->
  (forall u, t_thr s' u = upd (t_thr s) t x' u) ->
  t_seen (t_thr s t) <= t_seen x' <= t_pver s ->
  (holds_lock (t_pc x') = true -> holds_lock (t_pc (t_thr s t)) = true /\ t_seen x' = t_seen (t_thr s t)) ->
  after_cov s x' -> VInv a s'.
Proof.
  intros [W S1 S2 S3 S4 Fr Ho Ri Ca Af U] Hsh Et Hse Hl Ha.
  vbuild a s' Hsh Et; try assumption.
  - intros u. vupd; try congruence; [lia|apply S1].
  - intros u Hu. vupd; try congruence; try (now apply Ho). destruct (Hl Hu) as [K1 K2]. rewrite K2. now apply Ho.
  - intros i Hi. specialize (Ca i Hi). vupd; try congruence; lia.
  - intros u. vupd; try congruence; [exact Ha|apply Af].
Qed.

Definition not_after (p : tpc) : Prop := match p with AAfter _ _ _ _ _ _ => False | _ => True end.
Ltac nasolve H x := revert H; unfold not_after; destruct (t_pc x); intros; try exact Logic.I; contradiction.

Lemma not_after_cov s x : not_after (t_pc x) -> after_cov s x.
Proof. unfold not_after, after_cov. destruct (t_pc x); auto; contradiction. Qed.

(* (2) the loop body up to the next atomic operation: the read of ptrs[alloc_idx] is covered because the
   entry lies below the cached position *)
Lemma V_segA a s x ve notes :
  TInv s -> VInv a s -> t_seen x = t_seen (t_thr s a) ->
  VInv a (fst (t_segA s a x (t_alloc s) ve notes)).
Proof.
  intros I V Hse. pose proof V as [W S1 S2 S3 S4 Fr Ho Ri Ca Af U].
  pose proof (ti_cap s I) as C0. pose proof (ti_alloc s I) as C1. destruct (ti_cached s I) as [Q1 Q2].
  unfold t_segA.
  destruct (Nat.eqb_spec ((t_alloc s + 1) mod t_cap s) (t_cached s)) as [E|E]; simpl fst.
  - eapply (V_thr a s _ a); [exact V|vsh|intros u; reflexivity|simpl; rewrite Hse; split; [lia|apply S1]
                            |simpl; discriminate|apply not_after_cov; exact Logic.I].
  - assert (Hcl : t_A s + 2 <= t_clog s).
    { destruct (Nat.eq_dec (t_clog s) (t_A s + 1)) as [E1|E1]; [|lia]. exfalso. apply E.
      rewrite Q1, E1, C1. now apply nmod_succ. }
    assert (Hcov : Nat.leb (t_wver s (t_alloc s)) (t_seen x) = true).
    { apply Nat.leb_le. rewrite C1, Hse. apply Ca. lia. }
    rewrite Hcov.
    eapply (V_thr a s _ a); [exact V|vsh|intros u; reflexivity|simpl; rewrite Hse; split; [lia|apply S1]
                            |simpl; discriminate|apply not_after_cov; exact Logic.I].
Qed.

(* (4) cached_free_pos := loaded position: the allocator's view covers everything below it *)
Lemma V_cached a s s' x' e p v ve vl gf uncov :
  VInv a s -> t_pc (t_thr s a) = AAfter e p v ve vl gf -> uncov = t_uncov s ->
  vshared s' (t_cap s) (t_A s) (t_F s) gf (t_pver s) (t_wver s) (t_fstamp s) (t_lstamp s) (t_astamp s)
          (t_lock s) uncov ->
  (forall u, t_thr s' u = upd (t_thr s) a x' u) ->
  t_seen x' = t_seen (t_thr s a) -> holds_lock (t_pc x') = false -> not_after (t_pc x') -> VInv a s'.
Proof.
  intros [W S1 S2 S3 S4 Fr Ho Ri Ca Af U] Epc -> Hsh Et Hse Hl Hna.
  pose proof (Af a) as Ka. unfold after_cov in Ka. rewrite Epc in Ka.
  vbuild a s' Hsh Et; try assumption.
  - intros u. vupd; try congruence; [rewrite Hse|]; apply S1.
  - intros u Hu. vupd; try congruence. now apply Ho.
  - intros i Hi. vupd; try congruence. rewrite Hse. now apply Ka.
  - intros u. vupd; try congruence; [nasolve Hna x'|apply Af].
Qed.

(* (5) a successful CAS moves alloc_idx: all ranges shrink *)
Lemma V_alloc a s s' t x' ast :
  VInv a s -> ast <= t_pver s ->
  vshared s' (t_cap s) (S (t_A s)) (t_F s) (t_clog s) (t_pver s) (t_wver s) (t_fstamp s) (t_lstamp s) ast
          (t_lock s) (t_uncov s) ->
  (forall u, t_thr s' u = upd (t_thr s) t x' u) ->
  t_seen (t_thr s t) <= t_seen x' <= t_pver s -> holds_lock (t_pc x') = false -> not_after (t_pc x') -> VInv a s'.
Proof.
  intros [W S1 S2 S3 S4 Fr Ho Ri Ca Af U] Hast Hsh Et Hse Hl Hna.
  vbuild a s' Hsh Et; try assumption.
  - intros u. vupd; try congruence; [lia|apply S1].
  - intros u Hu. vupd; try congruence. now apply Ho.
  - intros i Hi. apply Ri. lia.
  - intros i Hi. assert (K : t_A s <= i < t_clog s) by lia. specialize (Ca i K). vupd; try congruence; lia.
  - intros u. vupd; try congruence; [nasolve Hna x'|].
    pose proof (Af u) as K. unfold after_cov in K. destruct (t_pc (t_thr s u)); auto. intros i Hi. apply K. lia.
Qed.

(* (6) test-and-set on the free spinlock *)
Lemma V_lock a s s' t x' b lst :
  TInv s -> VInv a s -> t_pc (t_thr s t) = FLock b -> lst <= t_pver s ->
  vshared s' (t_cap s) (t_A s) (t_F s) (t_clog s) (t_pver s) (t_wver s) (t_fstamp s) lst (t_astamp s)
          true (t_uncov s) ->
  (forall u, t_thr s' u = upd (t_thr s) t x' u) ->
  t_seen (t_thr s t) <= t_seen x' <= t_pver s -> (t_lock s = false -> t_seen x' = t_pver s) ->
  t_pc x' = (if t_lock s then FSpin1 b else FWrite b) -> VInv a s'.
Proof.
  intros I [W S1 S2 S3 S4 Fr Ho Ri Ca Af U] Epc Hlst Hsh Et Hse Hacq Hpc.
  vbuild a s' Hsh Et; try assumption.
  - intros u. vupd; try congruence; [lia|apply S1].
  - discriminate.
  - intros u Hu. vupd; try congruence; [|now apply Ho].
    rewrite Hpc in Hu. destruct (t_lock s) eqn:EL; [discriminate|]. now apply Hacq.
  - intros i Hi. specialize (Ca i Hi). vupd; try congruence; lia.
  - intros u. vupd; try congruence; [|apply Af]. apply (not_after_cov s). rewrite Hpc. destruct (t_lock s); exact Logic.I.
Qed.

(* (9) clear of the free spinlock: the holder's view (everything written so far) goes into the lock *)
Lemma V_unlock a s s' t x' :
  TInv s -> VInv a s -> t_pc (t_thr s t) = FUnlock ->
  vshared s' (t_cap s) (t_A s) (t_F s) (t_clog s) (t_pver s) (t_wver s) (t_fstamp s) (t_pver s) (t_astamp s)
          false (t_uncov s) ->
  (forall u, t_thr s' u = upd (t_thr s) t x' u) ->
  t_seen x' = t_seen (t_thr s t) -> t_pc x' = TIdle -> VInv a s'.
Proof.
  intros I [W S1 S2 S3 S4 Fr Ho Ri Ca Af U] Epc Hsh Et Hse Hpc.
  assert (Hl0 : holds_lock (t_pc (t_thr s t)) = true) by (rewrite Epc; reflexivity).
  vbuild a s' Hsh Et; try assumption; try lia.
  - intros u. vupd; try congruence; [rewrite Hse|]; apply S1.
  - intros u Hu. vupd; try congruence; [rewrite Hpc in Hu; discriminate|].
    exfalso. apply n. eapply (ti_lock1 s I); eauto.
  - intros i Hi. specialize (Ca i Hi). vupd; try congruence; lia.
  - intros u. vupd; try congruence; [|apply Af]. apply (not_after_cov s). rewrite Hpc. exact Logic.I.
Qed.

(* (8) release store of free_idx by the lock holder: free_idx carries everything written so far *)
Lemma V_store a s s' t x' pos :
  TInv s -> VInv a s -> t_pc (t_thr s t) = FStore pos ->
  vshared s' (t_cap s) (t_A s) (S (t_F s)) (t_clog s) (t_pver s) (t_wver s) (t_pver s) (t_lstamp s) (t_astamp s)
          (t_lock s) (t_uncov s) ->
  (forall u, t_thr s' u = upd (t_thr s) t x' u) ->
  t_seen x' = t_seen (t_thr s t) -> t_pc x' = FSeg3 -> VInv a s'.
Proof.
  intros I [W S1 S2 S3 S4 Fr Ho Ri Ca Af U] Epc Hsh Et Hse Hpc.
  assert (Hl0 : holds_lock (t_pc (t_thr s t)) = true) by (rewrite Epc; reflexivity).
  vbuild a s' Hsh Et; try assumption; try lia.
  - intros u. vupd; try congruence; [rewrite Hse|]; apply S1.
  - intros u Hu. vupd; try congruence; [rewrite Hse|]; now apply Ho.
  - intros i Hi. apply W.
  - intros i Hi. specialize (Ca i Hi). vupd; try congruence; lia.
  - intros u. vupd; try congruence; [|apply Af]. apply (not_after_cov s). rewrite Hpc. exact Logic.I.
Qed.

(* (7) the lock holder's plain write of ptrs[free_idx]: covered, and outside every published range *)
Lemma V_write a s s' t x' b :
  TInv s -> VInv a s -> t_pc (t_thr s t) = FWrite b ->
  vshared s' (t_cap s) (t_A s) (t_F s) (t_clog s) (S (t_pver s)) (upd (t_wver s) (t_free s) (S (t_pver s)))
          (t_fstamp s) (t_lstamp s) (t_astamp s) (t_lock s) (t_uncov s) ->
  (forall u, t_thr s' u = upd (t_thr s) t x' u) ->
  t_seen x' = S (t_pver s) -> holds_lock (t_pc x') = true -> not_after (t_pc x') -> VInv a s'.
Proof.
  intros I V Epc Hsh Et Hse Hl Hna. pose proof V as [W S1 S2 S3 S4 Fr Ho Ri Ca Af U].
  assert (Hh : hold s (t_pc (t_thr s t)) = Some b) by (rewrite Epc; reflexivity).
  pose proof (ring_not_full s t b I Hh) as HFA.
  pose proof (ti_cap s I) as C0. pose proof (ti_free s I) as C2. destruct (ti_cached s I) as [Q1 Q2].
  assert (Hl0 : holds_lock (t_pc (t_thr s t)) = true) by (rewrite Epc; reflexivity).
  assert (Hpos : forall i, t_A s <= i < t_F s + t_cap s ->
                 upd (t_wver s) (t_free s) (S (t_pver s)) (i mod t_cap s) = t_wver s (i mod t_cap s)).
  { intros i Hi. unfold upd. rewrite C2. destruct (Nat.eqb_spec (i mod t_cap s) (t_F s mod t_cap s)) as [E|E]; [|reflexivity].
    exfalso. apply (nmod_neq_range (t_cap s) i (t_F s) C0); [lia|assumption]. }
  set (wv := upd (t_wver s) (t_free s) (S (t_pver s))) in *.
  vbuild a s' Hsh Et; try lia.
  - intros p. unfold wv, upd. destruct (Nat.eqb p (t_free s)); [lia|]. specialize (W p). lia.
  - intros u. vupd; try congruence; [lia|]. specialize (S1 u). lia.
  - intros L. rewrite (ti_lock0 s I L t) in Hl0. discriminate.
  - intros u Hu. vupd; try congruence; try assumption. exfalso. apply n. eapply (ti_lock1 s I); eauto.
  - intros i Hi. rewrite Hpos by assumption. now apply Ri.
  - intros i Hi. rewrite Hpos by lia. specialize (Ca i Hi). pose proof (S1 a) as Sa. vupd; try congruence; lia.
  - intros u. vupd; try congruence; [nasolve Hna x'|].
    pose proof (Af u) as K. unfold after_cov in K. pose proof (ti_kn s I u) as Kn. unfold kn in Kn.
    destruct (t_pc (t_thr s u)); auto. simpl in Kn. destruct Kn as (_ & _ & _ & Kg & _).
    intros i Hi. rewrite Hpos by lia. now apply K.
Qed.

Ltac vthr a s t V := eapply (V_thr a s _ t); [exact V | vsh | intros ?u; reflexivity | | | ].

Lemma tstep_vinv a P s t ch s' l :
  ts_mo_ok P = true -> TInv s -> SK a s -> VInv a s -> tstep P s t ch = Some (s', l) -> VInv a s'.
Proof.
  intros Hmo I K V Hs. unfold ts_mo_ok in Hmo.
  apply andb_prop in Hmo as [Hmo Mclr]. apply andb_prop in Hmo as [Hmo Mtas]. apply andb_prop in Hmo as [Mld Mst].
  pose proof V as [W S1 S2 S3 S4 Fr Ho Ri Ca Af U].
  pose proof (S1 t) as St.
  assert (Hlt : t < t_n s).
  { unfold tstep in Hs. destruct (Nat.leb_spec (t_n s) t); [discriminate|assumption]. }
  assert (Hta : alloc_pc (t_pc (t_thr s t)) = true -> t = a).
  { intros E. destruct (Nat.eq_dec t a); [assumption|]. destruct (sk_oth a s K t n) as [_ O2]. congruence. }
  pose proof (sk_me a s K t) as Mt. pose proof (ti_kn s I t) as Kt. unfold kn in Kt.
  unfold tstep in Hs. destruct (Nat.leb (t_n s) t); [discriminate|].
  destruct (t_pc (t_thr s t)) eqn:Epc; try discriminate.
  - (* TIdle *)
    apply some_pair_inv in Hs as [<- _].
    vthr a s t V; simpl; [lia| |apply not_after_cov]; destruct (nxt_t_cases (t_script (t_thr s t))) as [E|E]; simpl; rewrite E; try discriminate; exact Logic.I.
  - (* TYield *)
    apply some_pair_inv in Hs as [<- _]. vthr a s t V; simpl; [lia|discriminate|exact Logic.I].
  - (* TBegin *)
    destruct (t_script (t_thr s t)) as [|o r] eqn:Esc.
    + apply some_pair_inv in Hs as [<- _]. vthr a s t V; simpl; [lia|discriminate|exact Logic.I].
    + destruct o as [|k|k].
      * assert (Eta : t = a).
        { destruct (Nat.eq_dec t a); [assumption|]. destruct (sk_oth a s K t n) as [O1 _]. specialize (O1 Hlt).
          rewrite Esc in O1. discriminate. }
        subst t. apply some_fst_inv in Hs. rewrite Hs. apply V_segA; [assumption|assumption|reflexivity].
      * destruct (pick_pos t (OpFree k) (t_out s)); apply some_pair_inv in Hs as [<- _];
          (vthr a s t V; simpl; [lia| |apply not_after_cov]; try discriminate; try exact Logic.I;
           destruct (nxt_t_cases r) as [E|E]; simpl; rewrite E; try discriminate; exact Logic.I).
      * destruct (pick_pos t (OpFreeOwn k) (t_out s)); apply some_pair_inv in Hs as [<- _];
          (vthr a s t V; simpl; [lia| |apply not_after_cov]; try discriminate; try exact Logic.I;
           destruct (nxt_t_cases r) as [E|E]; simpl; rewrite E; try discriminate; exact Logic.I).
  - (* TFin *)
    apply some_pair_inv in Hs as [<- _]. vthr a s t V; simpl; [lia|discriminate|exact Logic.I].
  - (* ALoad: the acquire load joins the view published with free_idx *)
    apply some_pair_inv in Hs as [<- _]. unfold acq_join. rewrite Mld.
    vthr a s t V; simpl; [split; [apply Nat.le_max_l|apply Nat.max_lub; assumption]|discriminate|].
    unfold after_cov; simpl. intros i Hi. specialize (Ri i Hi).
    eapply Nat.le_trans; [exact Ri|apply Nat.le_max_r].
  - (* AAfter *)
    specialize (Hta eq_refl). subst t. simpl in Mt, Kt.
    destruct Mt as (-> & -> & ->). destruct Kt as (K1 & K2 & K3 & K4 & K5). specialize (K5 eq_refl).
    pose proof (Af a) as Ka. unfold after_cov in Ka. rewrite Epc in Ka.
    pose proof (ti_alloc s I) as C1. pose proof (ti_cap s I) as C0.
    destruct (Nat.eqb_spec p v) as [Epv|Epv]; apply some_pair_inv in Hs as [<- _].
    + eapply (V_cached a s _ _ _ _ _ _ _ _ (t_uncov s)); [exact V|exact Epc|reflexivity|vsh|intros u; reflexivity|reflexivity| | ];
        destruct (nxt_t_cases (t_script (t_thr s a))) as [E|E]; simpl; rewrite E; try reflexivity; exact Logic.I.
    + assert (Hgf : t_A s + 2 <= gf).
      { destruct (Nat.eq_dec gf (t_A s + 1)) as [E1|E1]; [|lia]. exfalso. apply Epv.
        rewrite K1, K2, E1, C1. now apply nmod_succ. }
      assert (Hcov : Nat.leb (t_wver s (t_alloc s)) (t_seen (t_thr s a)) = true).
      { apply Nat.leb_le. rewrite C1. apply Ka. lia. }
      rewrite Hcov.
      eapply (V_cached a s _ _ _ _ _ _ _ _ (t_uncov s)); [exact V|exact Epc|reflexivity|vsh|intros u; reflexivity|reflexivity|reflexivity|exact Logic.I].
  - (* ACas *)
    destruct (Nat.eqb (t_alloc s) e).
    + destruct (Nat.eqb ch 1); apply some_pair_inv in Hs as [<- _].
      * vthr a s t V; simpl; [lia|discriminate|exact Logic.I].
      * eapply (V_alloc a s _ t); [exact V| |vsh|intros u; reflexivity| |reflexivity|exact Logic.I].
        -- simpl. unfold rmw_stamp. destruct (is_rel (mo_ts_cas_alloc P)); [apply Nat.max_lub; assumption|assumption].
        -- simpl. unfold acq_join. destruct (is_acq (mo_ts_cas_alloc P));
             [split; [apply Nat.le_max_l|apply Nat.max_lub; assumption]|split; [apply le_n|assumption]].
    + apply some_pair_inv in Hs as [<- _]. vthr a s t V; simpl; [lia|discriminate|exact Logic.I].
  - (* ARetry *)
    specialize (Hta eq_refl). subst t. simpl in Mt. destruct Mt as (_ & ->).
    apply some_fst_inv in Hs. rewrite Hs. apply V_segA; [assumption|assumption|reflexivity].
  - (* ARet *)
    apply some_pair_inv in Hs as [<- _].
    vthr a s t V; simpl; [lia| |apply not_after_cov]; destruct (nxt_t_cases (t_script (t_thr s t))) as [E|E]; simpl; rewrite E; try discriminate; exact Logic.I.
  - (* FLock: acquire test-and-set *)
    apply some_pair_inv in Hs as [<- _]. unfold acq_join. rewrite Mtas.
    eapply (V_lock a s _ t _ b); [exact I|exact V|exact Epc| |vsh|intros u; reflexivity| | |reflexivity].
    + simpl. unfold rmw_stamp. destruct (is_rel (mo_spin_tas P)); [apply Nat.max_lub; assumption|assumption].
    + simpl. split; [apply Nat.le_max_l|apply Nat.max_lub; assumption].
    + simpl. intros L. rewrite (Fr L). apply Nat.max_r. assumption.
  - (* FSpin1 *) apply some_pair_inv in Hs as [<- _]. vthr a s t V; simpl; [lia|discriminate|exact Logic.I].
  - (* FYieldE *) apply some_pair_inv in Hs as [<- _]. vthr a s t V; simpl; [lia|discriminate|exact Logic.I].
  - (* FSpin2 *) apply some_pair_inv in Hs as [<- _]. vthr a s t V; simpl; [lia|discriminate|exact Logic.I].
  - (* FWrite: the holder has seen every earlier write *)
    apply some_pair_inv in Hs as [<- _].
    assert (Hsn : t_seen (t_thr s t) = t_pver s) by (apply Ho; rewrite Epc; reflexivity).
    rewrite Hsn, Nat.eqb_refl.
    eapply (V_write a s _ t _ b); [exact I|exact V|exact Epc|vsh|intros u; reflexivity|reflexivity|reflexivity|exact Logic.I].
  - (* FStore: release store *)
    apply some_pair_inv in Hs as [<- _].
    assert (Hsn : t_seen (t_thr s t) = t_pver s) by (apply Ho; rewrite Epc; reflexivity).
    unfold rel_stamp. rewrite Mst, Hsn.
    eapply (V_store a s _ t _ pos); [exact I|exact V|exact Epc|vsh|intros u; reflexivity|simpl; congruence|reflexivity].
  - (* FSeg3 *)
    apply some_pair_inv in Hs as [<- _].
    vthr a s t V; simpl; [lia|intros _; rewrite Epc; split; reflexivity|exact Logic.I].
  - (* FUnlock: release clear *)
    apply some_pair_inv in Hs as [<- _].
    assert (Hsn : t_seen (t_thr s t) = t_pver s) by (apply Ho; rewrite Epc; reflexivity).
    unfold rel_stamp. rewrite Mclr, Hsn.
    eapply (V_unlock a s _ t); [exact I|exact V|exact Epc|vsh|intros u; reflexivity|simpl; congruence|reflexivity].
Qed.

Lemma vinit_inv a cap n scripts : VInv a (tinit cap n scripts).
Proof.
  constructor; simpl; intros; try lia; try discriminate; try exact Logic.I; auto.
Qed.

(* single allocator: every plain ptrs[] read / lock-protected write is covered, every schedule *)
Theorem ts_reads_covered_all P cap n scripts a sched :
  ts_mo_ok P = true -> 0 < cap -> single_allocator a n scripts ->
  t_uncov (ts_run P cap n scripts sched) = 0.
Proof.
  intros Hmo Hc Hs.
  assert (H : let s := ts_run P cap n scripts sched in TInv s /\ SK a s /\ VInv a s).
  { unfold ts_run. apply (inv_exec tsys (tstep P) (fun s => TInv s /\ SK a s /\ VInv a s)).
    - intros s t c s' l (I & K & V) Hst.
      pose proof (tstep_sk a P s t c s' l K Hst) as K'.
      split; [eapply tstep_tinv; eauto; apply (sk_race a s' K')|]. split; [assumption|].
      eapply tstep_vinv; eauto.
    - split; [now apply tinit_inv|]. split; [|apply vinit_inv].
      constructor; simpl; [intros t Ht; split; [intros; now apply Hs|reflexivity] | intros; exact Logic.I | reflexivity]. }
  destruct H as (_ & _ & V). apply (v_uncov a _ V).
Qed.

(* the memory orders are necessary in the model: with the free_idx store relaxed the allocator reads an
   entry written by a free without having any view of it (this is what the check's model search reports
   when the order is weakened in the code); with the code's orders the same schedule is clean *)
Definition rlx_store_params : params :=
  {| mo_ts_load_free := Acq; mo_ts_cas_alloc := Rlx; mo_ts_store_free := Rlx; mo_spin_tas := Acq;
     mo_spin_clear := Rel; mo_sowr_load_free := Rlx; mo_sowr_store_free := Rlx;
     mo_ring_load_inuse := Rlx; mo_ring_store_inuse := Rlx |}.
Definition nec_scripts (t : nat) : list op :=
  match t with 0 => [OpAlloc; OpAlloc; OpAlloc; OpAlloc] | 1 => [OpFree 0; OpFree 0] | _ => [] end.
Definition nec_sched : list (nat * nat) :=
  repeat (0, 0) 9 ++ repeat (1, 0) 9 ++ repeat (0, 0) 6 ++ repeat (1, 0) 8 ++ repeat (0, 0) 4.
Example ts_store_release_necessary :
  ts_mo_ok rlx_store_params = false /\
  t_uncov (ts_run rlx_store_params 2 2 nec_scripts nec_sched) = 1 /\
  t_uncov (ts_run any_params 2 2 nec_scripts nec_sched) = 0 /\ t_A (ts_run any_params 2 2 nec_scripts nec_sched) = 2.
Proof. vm_compute. repeat split; reflexivity. Qed.

(* many allocators: visibility fails even OUTSIDE the known class.  cap 4, sequential execution: T0
   allocates 0,1, frees them (writes ptrs[0], ptrs[1]), allocates 2 and - after an acquire load that
   refreshes cached_free_pos - 3.  T1, which has never synchronised with anybody, then finds
   alloc_pos <> cached_free_pos and reads ptrs[0] (written by a free) with an empty view: a C11 data race
   on the ptrs[] entry, caused by the unsynchronised sharing of cached_free_pos among allocators. *)
Definition vis_scripts (t : nat) : list op :=
  match t with
  | 0 => [OpAlloc; OpAlloc; OpFreeOwn 0; OpFreeOwn 0; OpAlloc; OpAlloc]
  | 1 => [OpAlloc]
  | _ => []
  end.
Definition vis_sched : list (nat * nat) := repeat (0, 0) 40 ++ repeat (1, 0) 3.
Lemma ts_multi_visibility_witness :
  let s := ts_run any_params 4 2 vis_scripts vis_sched in
  ts_mo_ok any_params = true /\ in_known_class vis_scripts 2 s = false /\ t_dups s = 0 /\ t_uncov s = 1.
Proof. vm_compute. repeat split; reflexivity. Qed.
