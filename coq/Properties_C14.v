(* C14 — property theorems only (proved in C14/Proofs*.v).  All statements quantify over every
   schedule (list of (thread, choice)) of the model C14/Model.v, any number of threads, any
   scripts, each of the three back-ends.  [c_fix_exit] / [c_fix_add] = true is the code with
   fixes/C14-exit-before-run.patch / fixes/C14-add-ctx-failure.patch applied. *)
From MV Require Import C14.Model C14.ProofsBase C14.ProofsWake C14.ProofsExit C14.ProofsHandover C14.ProofsVariant C14.ProofsFair gen.Params_C14.

(* the exit status values the model uses are the ones event_loop.h defines *)
Theorem c14_exit_status_constants : code_st_exit = ST_EXIT /\ code_st_wake = ST_WAKE.
Proof. split; reflexivity. Qed.
Print Assumptions c14_exit_status_constants.

(* wake_not_lost: [w_req] = completed wake-up requests, [w_seen] = its value when the latest wake
   callback started.  While a request is unserved (w_seen < w_req): before run() the eventfd
   counter is positive; inside the loop a wake callback is about to start (the loop is between
   the poll return that reported the signal and the callback) or the next poll attempt reports
   the signal.  Coalescing allowed; holds for the unrepaired code too. *)
Theorem wake_not_lost : forall C sched,
  let s := exec sys (step C) init sched in
  w_seen s <= w_req s /\
  (w_seen s < w_req s ->
   (prerun (thr s (c_loop C)) = true -> 0 < cnt s) /\
   (in_body (thr s (c_loop C)) = true ->
    served_soon (thr s (c_loop C)) = true \/ ready C s = true)).
Proof. exact wake_not_lost_all. Qed.
Print Assumptions wake_not_lost.

(* ... so the loop never goes to sleep with an unserved request *)
Theorem wake_poll_never_sleeps_with_request : forall C sched,
  let s := exec sys (step C) init sched in
  w_seen s < w_req s -> thr s (c_loop C) = APoll ->
  exists s', step C s (c_loop C) 0 = Some (s', ev_poll true).
Proof. exact wake_poll_never_sleeps. Qed.
Print Assumptions wake_poll_never_sleeps_with_request.

(* handover_once: see C14/ProofsHandover.v *)
Theorem handover_once : forall C sched, c_fix_add C = true ->
  let s := exec sys (step C) init sched in
  (forall x, count_occ Nat.eq_dec (g_enq s) x <= 1) /\
  (forall x, In x (g_enq s) -> places s x = 1) /\
  (forall x, ~ In x (g_enq s) -> places s x = 0) /\
  g_leaked s = [] /\
  (returned s = true -> c_bare C = false -> g_relclear s = reg s /\ queue s = g_late s).
Proof. exact handover_once_all. Qed.
Print Assumptions handover_once.

Theorem handover_each_released_exactly_once_at_return : forall C sched, c_fix_add C = true ->
  let s := exec sys (step C) init sched in
  returned s = true -> c_bare C = false ->
  forall x, In x (g_enq s) ->
  count_occ Nat.eq_dec (g_relfail s ++ g_relclear s ++ g_relexit s) x + count_occ Nat.eq_dec (g_late s) x = 1.
Proof. exact handover_released_once. Qed.
Print Assumptions handover_each_released_exactly_once_at_return.

(* exit_returns, safety part (DESIGN.md 6/C14: "as invariant + variant"): (1) the invariant
   "EXIT/WAKE pending => a writer of the signal is in flight, or the loop thread is past a poll
   return in this iteration, or the signal is readable"; (2) a poll attempt with an exit pending
   and no writer in flight reports the signal (the loop cannot sleep); (3) the exit test after any
   wake-up with an exit pending leaves the loop towards the clear and exit callbacks; (4) the loop
   thread is never stuck: when it cannot step it waits for the handle's mutex whose holder can
   step.  The liveness statement itself is [exit_returns_fair] below. *)
Theorem exit_returns : forall C sched, c_fix_exit C = true ->
  let s := exec sys (step C) init sched in
  ((to_exit s = 0 \/ to_exit s = ST_EXIT \/ to_exit s = ST_WAKE) /\
   (to_exit s <> 0 ->
    (prerun (thr s (c_loop C)) = true -> writer_in_flight s \/ 0 < cnt s) /\
    (in_body (thr s (c_loop C)) = true ->
     writer_in_flight s \/ past_poll (thr s (c_loop C)) = true \/ ready C s = true))) /\
  (to_exit s <> 0 -> ~ writer_in_flight s -> thr s (c_loop C) = APoll ->
   exists s', step C s (c_loop C) 0 = Some (s', ev_poll true) /\ thr s' (c_loop C) = SPollRet) /\
  (to_exit s <> 0 -> thr s (c_loop C) = SWakeEnd ->
   exists s', step C s (c_loop C) 0 = Some (s', LPlain (wake_notes C)) /\
              leaving (thr s' (c_loop C)) = true /\ to_exit s' = ST_EXIT) /\
  (thr s (c_loop C) <> SStart -> thr s (c_loop C) <> Done -> step C s (c_loop C) 0 = None ->
   exists u, u <> c_loop C /\ mtx s = Some u /\ step C s u 0 <> None).
Proof.
  intros C sched Hfix s. split; [|split; [|split]].
  - exact (exit_pending_invariant C sched Hfix).
  - exact (exit_poll_never_sleeps C sched Hfix).
  - exact (exit_test_leaves C sched Hfix).
  - exact (loop_never_stuck C sched).
Qed.
Print Assumptions exit_returns.

(* every theorem of this file quantifies over the configuration [C], which includes which optional
   callbacks are installed (c_cb_wake, c_cb_add, c_cb_release, c_cb_read, c_cb_close, c_cb_clear,
   c_cb_exit, c_cb_timer) and whether the loop is bare or has a socket handle attached (c_bare).
   For a bare loop the exit test is reached in the plain segment that follows the clear-up: the
   WAKE -> EXIT promotion happens whether or not a wake callback is installed, and the loop goes
   through the clear callbacks and the exit callback (those that are installed) to the return *)
Theorem exit_test_promotes_without_callbacks : forall C sched, c_fix_exit C = true -> c_bare C = true ->
  let s := exec sys (step C) init sched in
  to_exit s <> 0 -> thr s (c_loop C) = SWake ->
  exists s', step C s (c_loop C) 0 = Some (s', LPlain (wake_notes C ++ bare_exit_notes C)) /\
             thr s' (c_loop C) = AFin /\ returned s' = true /\ to_exit s' = ST_EXIT.
Proof. exact exit_test_leaves_bare. Qed.
Print Assumptions exit_test_promotes_without_callbacks.

(* variant: with an exit pending and the loop thread past a poll return, every step of the loop
   thread keeps it on the way out and strictly decreases [rank]; a step of another thread leaves
   the loop thread where it is and raises the rank by at most 2 (an enqueue); rank 1 is reached
   only with run() returned *)
Theorem exit_returns_variant : forall C sched, c_fix_exit C = true -> c_fix_add C = true ->
  let s := exec sys (step C) init sched in
  (forall ch s' l, to_exit s <> 0 -> ranked (thr s (c_loop C)) = true -> thr s (c_loop C) <> Done ->
     step C s (c_loop C) ch = Some (s', l) ->
     ranked (thr s' (c_loop C)) = true /\ rank s' (thr s' (c_loop C)) < rank s (thr s (c_loop C))) /\
  (forall t ch s' l, t <> c_loop C -> step C s t ch = Some (s', l) ->
     thr s' (c_loop C) = thr s (c_loop C) /\ rank s' (thr s (c_loop C)) <= rank s (thr s (c_loop C)) + 2) /\
  (rank s (thr s (c_loop C)) = 1 -> returned s = true).
Proof. exact exit_variant_all. Qed.
Print Assumptions exit_returns_variant.

(* the code as first found violates exit_returns: witness schedule (replayed on the real loop by
   the corpus cases corpus-exit-before-run-select, -poll and -epoll) *)
Theorem exit_returns_refuted_on_unrepaired_code :
  let C := cfg_exit_before_run false in
  let s := exec sys (step C) init sched_exit_before_run in
  to_exit s = ST_EXIT /\ thr s 0 = Done /\ thr s 1 = APoll /\ ready C s = false /\ returned s = false /\
  (forall u k, u < 2 -> thr s u <> AWrite k).
Proof. exact exit_returns_refuted. Qed.
Print Assumptions exit_returns_refuted_on_unrepaired_code.

(* the code as first found violates handover_once: witness (corpus-add-ctx-failure) *)
Theorem handover_once_refuted_on_unrepaired_code :
  let s := exec sys (step (cfg_add_failure false)) init sched_add_failure in
  returned s = true /\ g_enq s = [0; 1] /\ reg s = [0] /\ g_leaked s = [1] /\ places s 1 = 0 /\
  g_relclear s = [0] /\ queue s = [].
Proof. exact handover_once_refuted. Qed.
Print Assumptions handover_once_refuted_on_unrepaired_code.

(* ---- fair schedules (C14/ProofsFair.v) ----
   A schedule is fair when it is a sequence of rounds each of which schedules every thread at
   least once (any order, any multiplicity, other entries allowed).  Scripts are finite lists.
   [G C s] is an explicit natural-number measure of the state (remaining script work, pending
   loop iterations, queue and ctx_list lengths, position of the loop thread). *)

(* exit_returns, full statement: at any point of any schedule at which an exit has been requested
   by any thread (before run() records its id, during poll, during dispatch, while already
   exiting), every fair continuation of more than G rounds ends with the loop thread finished:
   muggle_evloop_run has returned, after the clear callbacks (every registered context released)
   and the exit callback (what is still queued was enqueued after it). *)
Theorem exit_returns_fair : forall C pre rounds,
  c_fix_exit C = true -> c_fix_add C = true -> c_loop C < c_n C ->
  let s := exec sys (step C) init pre in
  to_exit s <> 0 -> Forall (fair_round C) rounds -> G C s < length rounds ->
  let s' := exec sys (step C) init (pre ++ concat rounds) in
  thr s' (c_loop C) = Done /\ returned s' = true /\
  (c_bare C = false -> g_relclear s' = reg s' /\ exitdr s' = true /\ queue s' = g_late s').
Proof. exact exit_returns_fair_all. Qed.
Print Assumptions exit_returns_fair.

(* wake_not_lost, liveness: every wake-up request completed at a point of a schedule has, after
   more than G fair rounds, been followed by the start of a wake callback - unless the loop has
   left its body (an exit was requested) *)
Theorem wake_served_fair : forall C pre rounds,
  c_fix_exit C = true -> c_fix_add C = true -> c_loop C < c_n C ->
  let s := exec sys (step C) init pre in
  Forall (fair_round C) rounds -> G C s < length rounds ->
  let s' := exec sys (step C) init (pre ++ concat rounds) in
  w_req s <= w_seen s' \/ leaving (thr s' (c_loop C)) = true.
Proof. exact wake_served_fair_all. Qed.
Print Assumptions wake_served_fair.
