(* C14 — property theorems only (proved in C14/Proofs*.v). *)
From MV Require Import C14.Model gen.Params_C14.

(* the exit status values the model uses are the ones event_loop.h defines *)
Theorem c14_exit_status_constants : code_st_exit = ST_EXIT /\ code_st_wake = ST_WAKE.
Proof. split; reflexivity. Qed.
Print Assumptions c14_exit_status_constants.
