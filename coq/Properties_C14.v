(* C14 — property theorems only (proved in C14/Proofs*.v).  All statements quantify over every
   schedule (list of (thread, choice)) of the model C14/Model.v, any number of threads, any
   scripts (wake-up, hand-over, exit, shutdown of a registered context, data from / close by its
   peer), any scripts of the user's wake and timer callbacks, timer interval 0 or none, each of the
   three back-ends.  [c_fix_exit] / [c_fix_add] = true is the code with
   fixes/C14-exit-before-run.patch / fixes/C14-add-ctx-failure.patch applied. *)
From MV Require Import C14.Model C14.ProofsBase C14.ProofsWake C14.ProofsExit C14.ProofsHandover C14.ProofsVariant gen.Params_C14.

(* the exit status values the model uses are the ones event_loop.h defines *)
Theorem c14_exit_status_constants : code_st_exit = ST_EXIT /\ code_st_wake = ST_WAKE.
Proof. split; reflexivity. Qed.
Print Assumptions c14_exit_status_constants.

(* wake_not_lost: [w_req] = completed wake-up requests, [w_seen] = its value when the latest wake
   callback started.  While a request is unserved (w_seen < w_req): before run() the eventfd
   counter is positive; inside the loop a wake callback is about to start (the loop is between
   the clear-up of the signal and the callback), or the signal has been reported to the pass in
   progress and handle_wakeup is still to come (epoll batch), or the next poll attempt reports
   the signal.  Coalescing allowed; holds for the unrepaired code too. *)
Theorem wake_not_lost : forall C sched,
  let s := exec sys (step C) init sched in
  w_seen s <= w_req s /\
  (w_seen s < w_req s ->
   (prerun (thr s (c_loop C)) = true -> 0 < cnt s) /\
   (in_body (thr s (c_loop C)) = true ->
    served_soon (thr s (c_loop C)) = true \/
    (in_pass (thr s (c_loop C)) = true /\ c_be C = BEpoll /\ sig_pending s) \/
    ready C s = true)).
Proof. exact wake_not_lost_all. Qed.
Print Assumptions wake_not_lost.

(* ... so the loop never goes to sleep with an unserved request: the poll reports the signal *)
Theorem wake_poll_never_sleeps_with_request : forall C sched,
  let s := exec sys (step C) init sched in
  w_seen s < w_req s -> thr s (c_loop C) = APoll ->
  forall ch, exists s' n, step C s (c_loop C) ch = Some (s', ev_poll true n) /\ 0 < n /\
                          thr s' (c_loop C) = SPollRet /\ sig_pending s'.
Proof. exact wake_poll_never_sleeps. Qed.
Print Assumptions wake_poll_never_sleeps_with_request.

(* handover_once: see C14/ProofsHandover.v.  The places of a handed-over context: queued,
   registered (in the loop's list), released by the wake callback (registration failed), by the
   exit callback, by the back-end's close dispatch. *)
Theorem handover_once : forall C sched, c_fix_add C = true ->
  let s := exec sys (step C) init sched in
  (forall x, count_occ Nat.eq_dec (g_enq s) x <= 1) /\
  (forall x, In x (g_enq s) -> places s x = 1) /\
  (forall x, ~ In x (g_enq s) -> places s x = 0) /\
  g_leaked s = [] /\
  (returned s = true -> c_bare C = false -> g_relclear s = reg s /\ queue s = g_late s).
Proof. exact handover_once_all. Qed.
Print Assumptions handover_once.

Theorem handover_each_released_exactly_once_at_return : forall C sched, c_fix_add C = true ->
  let s := exec sys (step C) init sched in
  returned s = true -> c_bare C = false ->
  forall x, In x (g_enq s) ->
  count_occ Nat.eq_dec (g_relfail s ++ g_relclose s ++ g_relclear s ++ g_relexit s) x + count_occ Nat.eq_dec (g_late s) x = 1.
Proof. exact handover_released_once. Qed.
Print Assumptions handover_each_released_exactly_once_at_return.

(* the clear pass releases every context still in the loop's list WHATEVER ITS FLAGS: a context
   flagged CLOSED (shut down from a callback or another thread) that the back-end has not
   dispatched before the exit test - shutdown and exit in the same iteration - is still in the
   list and is released by the clear pass, exactly once and by nothing else *)
Theorem clear_pass_releases_flagged_contexts : forall C sched, c_fix_add C = true ->
  let s := exec sys (step C) init sched in
  (forall x, In x (hup s) -> In x (reg s)) /\
  (returned s = true -> c_bare C = false ->
   forall x, In x (reg s) ->
     count_occ Nat.eq_dec (g_relclear s) x = 1 /\ count_occ Nat.eq_dec (g_relclose s) x = 0 /\
     count_occ Nat.eq_dec (g_relfail s) x = 0 /\ count_occ Nat.eq_dec (g_relexit s) x = 0 /\
     count_occ Nat.eq_dec (queue s) x = 0).
Proof. exact flagged_contexts_released_by_clear. Qed.
Print Assumptions clear_pass_releases_flagged_contexts.

(* witness: shutdown by the wake callback and exit in the same iteration, epoll and poll: the
   context is flagged, never dispatched, released by the clear pass *)
Theorem shutdown_then_exit_before_dispatch_is_cleared :
  forall be, be = BEpoll \/ be = BPoll ->
  let s := exec sys (step (cfg_shut_exit be)) init sched_shut_exit in
  returned s = true /\ g_enq s = [0] /\ reg s = [0] /\ hup s = [0] /\
  g_relclear s = [0] /\ g_relclose s = [] /\ queue s = [].
Proof. exact shutdown_then_exit_before_dispatch. Qed.
Print Assumptions shutdown_then_exit_before_dispatch_is_cleared.

(* exit_returns, safety part (DESIGN.md 6/C14: "as invariant + variant"): (1) the invariant
   "EXIT/WAKE pending => a writer of the signal is in flight, or the loop thread is on its way to
   an exit test that leaves, or the signal is readable"; (2) a poll attempt with an exit pending
   and no writer in flight reports the signal (the loop cannot sleep); (3) the step at the end of
   on_wake either starts the user's wake callback script (the promotion follows it) or leaves
   to_exit = EXIT, and the exit test leaves as soon as to_exit is EXIT; (4) the loop thread is never
   stuck: when it cannot step it waits for the handle's mutex whose holder can step. *)
Theorem exit_returns : forall C sched, c_fix_exit C = true ->
  let s := exec sys (step C) init sched in
  ((to_exit s = 0 \/ to_exit s = ST_EXIT \/ to_exit s = ST_WAKE) /\
   (to_exit s <> 0 ->
    (prerun (thr s (c_loop C)) = true -> writer_in_flight s \/ 0 < cnt s) /\
    (in_body (thr s (c_loop C)) = true ->
     writer_in_flight s \/ past_poll C s (thr s (c_loop C)) \/ ready C s = true))) /\
  (to_exit s <> 0 -> ~ writer_in_flight s -> thr s (c_loop C) = APoll ->
   forall ch, exists s' n, step C s (c_loop C) ch = Some (s', ev_poll true n) /\ 0 < n /\
                           thr s' (c_loop C) = SPollRet /\ sig_pending s') /\
  (to_exit s <> 0 -> thr s (c_loop C) = SWakeEnd ->
   exists s' l, step C s (c_loop C) 0 = Some (s', l) /\
     ((thr s' (c_loop C) = Cb (QY 0) /\ cbk s' = false /\ to_exit s' = to_exit s) \/ to_exit s' = ST_EXIT)) /\
  (thr s (c_loop C) <> SStart -> thr s (c_loop C) <> Done -> step C s (c_loop C) 0 = None ->
   exists u, u <> c_loop C /\ mtx s = Some u /\ step C s u 0 <> None).
Proof.
  intros C sched Hfix s. split; [|split; [|split]].
  - exact (exit_pending_invariant C sched Hfix).
  - exact (exit_poll_never_sleeps C sched Hfix).
  - exact (exit_test_leaves C sched Hfix).
  - exact (loop_never_stuck C sched).
Qed.
Print Assumptions exit_returns.

(* the exit test leaves the loop as soon as to_exit is EXIT, wherever it is reached *)
Theorem exit_test_with_exit_leaves : forall C s t ns s' l,
  to_exit s = ST_EXIT -> exit_test C s t ns = Some (s', l) -> leaving (thr s' t) = true /\ to_exit s' = ST_EXIT.
Proof. exact exit_test_leaves_loop. Qed.
Print Assumptions exit_test_with_exit_leaves.

(* every theorem of this file quantifies over the configuration [C], which includes which optional
   callbacks are installed and whether the loop is bare or has a socket handle attached.  For a
   bare loop the exit test is reached in the plain segment that follows the clear-up: the
   WAKE -> EXIT promotion happens whether or not a wake callback is installed, and the loop goes
   through the clear callbacks and the exit callback (those that are installed) to the return *)
Theorem exit_test_promotes_without_callbacks : forall C sched, c_fix_exit C = true -> c_bare C = true ->
  let s := exec sys (step C) init sched in
  to_exit s <> 0 -> thr s (c_loop C) = SWake ->
  exists s' ns, step C s (c_loop C) 0 = Some (s', LPlain (wake_notes C ++ ns ++ bare_exit_notes C)) /\
             thr s' (c_loop C) = AFin /\ returned s' = true /\ to_exit s' = ST_EXIT.
Proof. exact exit_test_leaves_bare. Qed.
Print Assumptions exit_test_promotes_without_callbacks.

(* variant: with an exit pending and the loop thread on its way out ([ranked]: handling the
   wake-up, in the user's wake callback, or with EXIT set in the rest of the pass / the timer
   callback / past the loop), every step of the loop thread keeps it on the way out and strictly
   decreases [rank] - through the callbacks' scripts, the close dispatches of flagged contexts, the
   clear pass and the exit callback; a step of another thread leaves the loop thread where it is and
   raises the rank by at most 2 (an enqueue); rank 1 is reached only with run() returned *)
Theorem exit_returns_variant : forall C sched, c_fix_exit C = true -> c_fix_add C = true ->
  let s := exec sys (step C) init sched in
  (forall ch s' l, to_exit s <> 0 -> ranked C s (thr s (c_loop C)) = true -> thr s (c_loop C) <> Done ->
     step C s (c_loop C) ch = Some (s', l) ->
     ranked C s' (thr s' (c_loop C)) = true /\ rank C s' (thr s' (c_loop C)) < rank C s (thr s (c_loop C))) /\
  (forall t ch s' l, t <> c_loop C -> step C s t ch = Some (s', l) ->
     thr s' (c_loop C) = thr s (c_loop C) /\ rank C s' (thr s (c_loop C)) <= rank C s (thr s (c_loop C)) + 2) /\
  (rank C s (thr s (c_loop C)) = 1 -> returned s = true).
Proof. exact exit_variant_all. Qed.
Print Assumptions exit_returns_variant.

(* the code as first found violates exit_returns: witness schedule (replayed on the real loop by
   the corpus cases corpus-exit-before-run-select, -poll and -epoll) *)
Theorem exit_returns_refuted_on_unrepaired_code :
  let C := cfg_exit_before_run false in
  let s := exec sys (step C) init sched_exit_before_run in
  to_exit s = ST_EXIT /\ thr s 0 = Done /\ thr s 1 = APoll /\ ready C s = false /\ returned s = false /\
  (forall u k, u < 2 -> thr s u <> AWrite k).
Proof. exact exit_returns_refuted. Qed.
Print Assumptions exit_returns_refuted_on_unrepaired_code.

(* the code as first found violates handover_once: witness (corpus-add-ctx-failure) *)
Theorem handover_once_refuted_on_unrepaired_code :
  let s := exec sys (step (cfg_add_failure false)) init sched_add_failure in
  returned s = true /\ g_enq s = [0; 1] /\ reg s = [0] /\ g_leaked s = [1] /\ places s 1 = 0 /\
  g_relclear s = [0] /\ queue s = [].
Proof. exact handover_once_refuted. Qed.
Print Assumptions handover_once_refuted_on_unrepaired_code.

(* C14 — solo liveness for exit_returns (both repairs applied): once an exit is pending, the loop
   thread is ranked (see exit_returns_variant) and no other thread holds the handle's mutex, the
   loop thread's own steps alone bring muggle_evloop_run to its return, and the thread to its
   end, within [rank] steps.  From exit_returns_variant and loop_never_stuck. *)
From MV Require C14.ProofsSolo.
Theorem exit_returns_solo : forall C pre, c_fix_exit C = true -> c_fix_add C = true ->
  let s := exec sys (step C) init pre in
  to_exit s <> 0 -> ranked C s (thr s (c_loop C)) = true ->
  (forall u, mtx s = Some u -> u = c_loop C) ->
  exists k, k <= rank C s (thr s (c_loop C)) /\
    let s' := exec sys (step C) init (pre ++ repeat (c_loop C, 0) k) in
    thr s' (c_loop C) = Done /\ returned s' = true.
Proof. exact C14.ProofsSolo.exit_returns_solo_all. Qed.
Print Assumptions exit_returns_solo.

(* the hypotheses of exit_returns_solo are satisfiable: the schedule that defeated the code as
   first found, on the repaired code *)
Theorem exit_returns_solo_witness :
  let C := cfg_exit_before_run true in
  let s := exec sys (step C) init sched_exit_before_run in
  c_fix_exit C = true /\ c_fix_add C = true /\
  to_exit s <> 0 /\ ranked C s (thr s (c_loop C)) = true /\ (forall u, mtx s = Some u -> u = c_loop C) /\
  rank C s (thr s (c_loop C)) = 79 /\ returned s = false /\
  let s' := exec sys (step C) init (sched_exit_before_run ++ repeat (c_loop C, 0) 14) in
  thr s' (c_loop C) = Done /\ returned s' = true.
Proof. exact C14.ProofsSolo.exit_returns_solo_example. Qed.
Print Assumptions exit_returns_solo_witness.

(* C14 — bounded interference for exit_returns (both repairs applied): along ANY continuation
   schedule of a reachable state with an exit pending and the loop thread ranked, whose foreign
   steps keep the loop thread ranked (keeps_ranked; a foreign step that does not write to_exit
   does: ProofsSolo2.foreign_keeps_ranked - a second muggle_evloop_exit from another thread, which
   turns EXIT back into WAKE, may not), exit pending and ranked are preserved and
   rank at the end + enabled loop-thread steps <= rank at the start + 2 * enabled foreign steps:
   run() cannot go on for ever against finitely many foreign steps. *)
From MV Require C14.ProofsSolo2.
Theorem exit_returns_bounded_interference : forall C pre post, c_fix_exit C = true -> c_fix_add C = true ->
  let s := exec sys (step C) init pre in
  to_exit s <> 0 -> ranked C s (thr s (c_loop C)) = true ->
  C14.ProofsSolo2.keeps_ranked C s post = true ->
  let s' := exec sys (step C) s post in
  to_exit s' <> 0 /\ ranked C s' (thr s' (c_loop C)) = true /\
  rank C s' (thr s' (c_loop C)) + C14.ProofsSolo2.loop_steps C s post
    <= rank C s (thr s (c_loop C)) + 2 * C14.ProofsSolo2.foreign_steps C s post /\
  C14.ProofsSolo2.loop_steps C s post <= rank C s (thr s (c_loop C)) + 2 * C14.ProofsSolo2.foreign_steps C s post.
Proof. exact C14.ProofsSolo2.bounded_interference_all. Qed.
Print Assumptions exit_returns_bounded_interference.

Theorem exit_returns_bounded_interference_witness :
  let C := cfg_exit_before_run true in
  let pre := firstn 10 sched_exit_before_run in
  let post := [(1,0);(0,0);(1,0);(0,0);(0,0);(0,0)] ++ repeat (1,0) 20 in
  let s := exec sys (step C) init pre in
  let s' := exec sys (step C) s post in
  c_fix_exit C = true /\ c_fix_add C = true /\ to_exit s <> 0 /\ ranked C s (thr s (c_loop C)) = true /\
  C14.ProofsSolo2.keeps_ranked C s post = true /\ rank C s (thr s (c_loop C)) = 122 /\
  C14.ProofsSolo2.foreign_steps C s post = 2 /\ C14.ProofsSolo2.loop_steps C s post = 12 /\
  thr s' (c_loop C) = Done /\ returned s' = true.
Proof. exact C14.ProofsSolo2.bounded_interference_example. Qed.
Print Assumptions exit_returns_bounded_interference_witness.

(* C14 — the hazard the monitor watches (ghost g_uaf, config flag c_del), both repairs applied: a
   requester still inside muggle_evloop_exit (flag set, signal not written yet) when the owner
   deletes the loop after muggle_evloop_run returned on a second request: its write of the signal
   is a library call on the deleted loop *)
From MV Require C14.ProofsUaf.
Theorem loop_deleted_while_exit_in_flight_witness :
  let C := C14.ProofsUaf.cfg_delete_race in
  let s := exec sys (step C) init C14.ProofsUaf.sched_delete_race in
  let s' := exec sys (step C) init (C14.ProofsUaf.sched_delete_race ++ [(0,0)]) in
  c_fix_exit C = true /\ c_fix_add C = true /\ c_del C = true /\
  thr s 0 = AWrite 0 /\ thr s 1 = Done /\ returned s = true /\ lfreed s = true /\ g_uaf s = 0 /\
  thr s' 0 = STail 0 /\ g_uaf s' = 1.
Proof. exact C14.ProofsUaf.loop_deleted_while_exit_in_flight. Qed.
Print Assumptions loop_deleted_while_exit_in_flight_witness.

(* C14 — g_uaf (library calls on the deleted loop) changes only by one and only at a step taken
   while the loop is already deleted (lfreed) *)
Theorem uaf_only_by_step_after_delete : forall C s t ch s' l, step C s t ch = Some (s', l) ->
  g_uaf s' = g_uaf s \/ (lfreed s = true /\ g_uaf s' = S (g_uaf s)).
Proof. exact C14.ProofsUaf.uaf_step. Qed.
Print Assumptions uaf_only_by_step_after_delete.

(* C14 — without the deletion of the loop (c_del = false) the loop is never marked freed and no
   library call is counted on a deleted loop, whatever the schedule *)
From MV Require C14.ProofsUaf2.
Theorem no_call_after_delete_without_deletion : forall C sched, c_del C = false ->
  let s := exec sys (step C) init sched in lfreed s = false /\ g_uaf s = 0.
Proof. exact C14.ProofsUaf2.no_uaf_without_deletion. Qed.
Print Assumptions no_call_after_delete_without_deletion.
