(* C18 — obligations over the programs that the translator regenerates from the C text on
   every run (coq/gen/Params_C18.v): every generated scenario is accepted by the checker
   wf_scn (so, by the generic theorems, it reports failure, leaks nothing, never double
   releases and is safe to destroy under EVERY fault function), and it behaves like the
   hand-written instance that the differential run compares with the implementation. *)
From MV Require Import C18.Model C18.Proofs C18.Instances gen.Params_C18.

Definition gtriple := (list stmt * list stmt * list stmt)%type.

(* what the object owns after success is read off the generated program itself *)
Definition gen_scn0 (t : gtriple) : scn :=
  mkscn (fst (fst t)) (snd (fst t)) (snd t) [] true false true [] false.
Definition gen_scn (t : gtriple) : scn :=
  mkscn (fst (fst t)) (snd (fst t)) (snd t) (o_live (run_scn (gen_scn0 t) no_fault)) true false true [] false.

(* scenarios that must be present in the generated table: a scenario the translator drops or
   cannot handle is a broken obligation *)
Definition gen_required : list nat :=
  [0; 1; 2; 4; 5; 6; 9; 10; 11; 12; 13; 14; 15; 16; 18; 21; 23; 24; 26; 28; 30; 31; 33; 37; 43; 47; 61; 77; 78;
   201; 202; 203].

(* observable behaviour compared with the hand-written instance *)
Definition obs_eqb (a b : outcome) : bool :=
  rc_eqb (o_rc a) (o_rc b) && Nat.eqb (o_att a) (o_att b)
  && Nat.eqb (length (o_live a)) (length (o_live b)) && Bool.eqb (o_bad a) (o_bad b)
  && Nat.eqb (length (o_dlive a)) (length (o_dlive b)) && Bool.eqb (o_dbad a) (o_dbad b).
Definition agrees (g h : scn) : bool :=
  forallb (fun f => obs_eqb (run_scn g f) (run_scn h f)) single_runs.

Section GenSweep.
  Variable W : scn -> bool.
  Fixpoint glookup (id : nat) (t : list (nat * gtriple)) : option gtriple :=
    match t with
    | [] => None
    | (k, x) :: r => if Nat.eqb k id then Some x else glookup id r
    end.
  Lemma glookup_in id : forall t x, glookup id t = Some x -> In (id, x) t.
  Proof.
    induction t as [|[k y] t IH]; cbn [glookup]; intros x H; [discriminate|].
    destruct (Nat.eqb k id) eqn:E.
    - apply Nat.eqb_eq in E. inversion H; subst. left. reflexivity.
    - right. apply IH. exact H.
  Qed.
  Lemma sweep_gen t : forallb (fun p => W (gen_scn (snd p))) t = true ->
    forall id x, glookup id t = Some x -> W (gen_scn x) = true.
  Proof.
    intros T id x H. apply glookup_in in H. rewrite forallb_forall in T. apply (T _ H).
  Qed.
End GenSweep.

Lemma gen_no_errors : gen_errors = [].
Proof. reflexivity. Qed.

Lemma gen_all_required :
  forallb (fun id => existsb (Nat.eqb id) (map fst gen_table)) gen_required = true.
Proof. vm_compute. reflexivity. Qed.

Lemma gen_table_wf : forallb (fun p => wf_scn (gen_scn (snd p))) gen_table = true.
Proof. vm_compute. reflexivity. Qed.

Lemma gen_table_agrees :
  forallb (fun p => match inst_by_id (fst p) with
                    | Some h => agrees (gen_scn (snd p)) h
                    | None => 200 <=? fst p
                    end) gen_table = true.
Proof. vm_compute. reflexivity. Qed.

Lemma generated_wf id t : glookup id gen_table = Some t -> wf_scn (gen_scn t) = true.
Proof. exact (sweep_gen wf_scn gen_table gen_table_wf id t). Qed.

Lemma generated_hold id t f : glookup id gen_table = Some t -> holds (gen_scn t) f.
Proof. intros H. apply wf_sound. exact (generated_wf id t H). Qed.

Example generated_hash_table_init_is_nontrivial :
  match glookup 21 gen_table with
  | Some t => let o := run_scn (gen_scn t) (single 4) in
              o_att o = 5 /\ o_rc o = Fail /\ o_live o = [] /\
              o_att (run_scn (gen_scn t) no_fault) = 5 /\ length (o_live (run_scn (gen_scn t) no_fault)) = 5
  | None => False
  end.
Proof. vm_compute. repeat split; reflexivity. Qed.
