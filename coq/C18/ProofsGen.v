(* C18 — obligations over the programs that the translator regenerates from the C text on
   every run (coq/gen/Params_C18.v): every generated scenario is accepted by the checker
   wf_scn (so, by the generic theorems, it reports failure, leaks nothing, never double
   releases and is safe to destroy under EVERY fault function), and it behaves like the
   hand-written instance that the differential run compares with the implementation. *)
From MV Require Import C18.Model C18.Proofs C18.Instances gen.Params_C18 C18.Coverage.

Definition gtriple := (list stmt * list stmt * list stmt)%type.

(* what the object owns after success is read off the generated program itself *)
Definition gen_scn0 (t : gtriple) : scn :=
  mkscn (fst (fst t)) (snd (fst t)) (snd t) [] true false true [] true [].
Definition gen_scn (t : gtriple) : scn :=
  mkscn (fst (fst t)) (snd (fst t)) (snd t) (o_live (run_scn (gen_scn0 t) no_fault)) true false true [] true [].

(* scenarios that must be present in the generated table: a scenario the translator drops or
   cannot handle is a broken obligation *)
Definition gen_required : list nat :=
  [0; 1; 2; 4; 5; 6; 9; 10; 11; 12; 13; 14; 15; 16; 18; 21; 23; 24; 26; 28; 30; 31; 33; 37; 43; 47; 61; 77; 78;
   201; 202; 203; 300; 301].

(* observable behaviour compared with the hand-written instance *)
Definition obs_eqb (a b : outcome) : bool :=
  rc_eqb (o_rc a) (o_rc b) && Nat.eqb (o_att a) (o_att b)
  && Nat.eqb (length (o_live a)) (length (o_live b)) && Bool.eqb (o_bad a) (o_bad b)
  && Nat.eqb (length (o_dlive a)) (length (o_dlive b)) && Bool.eqb (o_dbad a) (o_dbad b)
  && Bool.eqb (o_kept a) (o_kept b) && Bool.eqb (o_retry_ok a) (o_retry_ok b)
  && Nat.eqb (length (o_rdlive a)) (length (o_rdlive b)) && Bool.eqb (o_rdbad a) (o_rdbad b).
Definition agrees (g h : scn) : bool :=
  forallb (fun f => obs_eqb (run_scn g f) (run_scn h f)) single_runs.

Section GenSweep.
  Variable W : scn -> bool.
  Fixpoint glookup (id : nat) (t : list (nat * gtriple)) : option gtriple :=
    match t with
    | [] => None
    | (k, x) :: r => if Nat.eqb k id then Some x else glookup id r
    end.
  Lemma glookup_in id : forall t x, glookup id t = Some x -> In (id, x) t.
  Proof.
    induction t as [|[k y] t IH]; cbn [glookup]; intros x H; [discriminate|].
    destruct (Nat.eqb k id) eqn:E.
    - apply Nat.eqb_eq in E. inversion H; subst. left. reflexivity.
    - right. apply IH. exact H.
  Qed.
  Lemma sweep_gen t : forallb (fun p => W (gen_scn (snd p))) t = true ->
    forall id x, glookup id t = Some x -> W (gen_scn x) = true.
  Proof.
    intros T id x H. apply glookup_in in H. rewrite forallb_forall in T. apply (T _ H).
  Qed.
End GenSweep.

Lemma gen_no_errors : gen_errors = [].
Proof. reflexivity. Qed.

Lemma gen_all_required :
  forallb (fun id => existsb (Nat.eqb id) (map fst gen_table)) gen_required = true.
Proof. vm_compute. reflexivity. Qed.

Lemma gen_table_wf : forallb (fun p => wf_scn (gen_scn (snd p))) gen_table = true.
Proof. vm_compute. reflexivity. Qed.

Lemma gen_table_agrees :
  forallb (fun p => match inst_by_id (fst p) with
                    | Some h => agrees (gen_scn (snd p)) h
                    | None => 200 <=? fst p
                    end) gen_table = true.
Proof. vm_compute. reflexivity. Qed.

Lemma generated_wf id t : glookup id gen_table = Some t -> wf_scn (gen_scn t) = true.
Proof. exact (sweep_gen wf_scn gen_table gen_table_wf id t). Qed.

Lemma generated_hold id t f : glookup id gen_table = Some t -> holds (gen_scn t) f.
Proof. intros H. apply wf_sound. exact (generated_wf id t H). Qed.

Example generated_hash_table_init_is_nontrivial :
  match glookup 21 gen_table with
  | Some t => let o := run_scn (gen_scn t) (single 4) in
              o_att o = 5 /\ o_rc o = Fail /\ o_live o = [] /\
              o_att (run_scn (gen_scn t) no_fault) = 5 /\ length (o_live (run_scn (gen_scn t) no_fault)) = 5
  | None => False
  end.
Proof. vm_compute. repeat split; reflexivity. Qed.

(* ---------- coverage: every allocating entry point of the library is accounted for ---------- *)
From Coq Require Import String.

Definition smem (x : string) (l : list string) : bool := existsb (String.eqb x) l.
Definition pmem (p : string * string) (l : list (string * string)) : bool :=
  existsb (fun q => String.eqb (fst p) (fst q) && String.eqb (snd p) (snd q)) l.

Definition entry_accounted (n : string) : bool :=
  smem n driven_under_faults
  || existsb (fun p => String.eqb (fst p) n && pmem p driven_reach && smem (snd p) driven_under_faults) reached_through
  || smem n (map fst excluded).
(* an exclusion / indirection is only allowed for a function that IS an allocating entry point and is NOT driven *)
Definition exclusion_needed (n : string) : bool :=
  smem n (map fst alloc_entry_points) && negb (smem n driven_under_faults).

Definition coverage_ok : bool :=
  match cov_errors with [] => true | _ => false end
  && Nat.leb 1 cov_files
  && forallb entry_accounted (map fst alloc_entry_points)
  && forallb (fun n => smem n (map fst callbacks_driven)) (map fst alloc_callbacks)
  && forallb exclusion_needed (map fst excluded ++ map fst reached_through)
  && forallb (fun n => smem n (map fst alloc_callbacks)) (map fst callbacks_driven).

Lemma coverage_holds : coverage_ok = true.
Proof. vm_compute. reflexivity. Qed.

Lemma smem_In x l : smem x l = true -> In x l.
Proof.
  unfold smem. intros H. apply existsb_exists in H. destruct H as [y [Hy E]].
  apply String.eqb_eq in E. subst. exact Hy.
Qed.

(* read as a proposition *)
Lemma entry_points_accounted : forall n,
  In n (map fst alloc_entry_points) ->
  In n driven_under_faults \/
  (exists d, In (n, d) reached_through /\ In d driven_under_faults) \/
  In n (map fst excluded).
Proof.
  intros n Hn. pose proof coverage_holds as C. unfold coverage_ok in C.
  rewrite !andb_true_iff in C. destruct C as [[[[[_ _] C3] _] _] _].
  rewrite forallb_forall in C3. apply C3 in Hn. unfold entry_accounted in Hn.
  apply orb_prop in Hn. destruct Hn as [Hn|Hn]; [apply orb_prop in Hn; destruct Hn as [Hn|Hn]|].
  - left. apply smem_In. exact Hn.
  - right. left. apply existsb_exists in Hn. destruct Hn as [[a d] [Hp Hq]].
    cbn [fst snd] in Hq. rewrite !andb_true_iff in Hq. destruct Hq as [[E _] D].
    apply String.eqb_eq in E. subst a. exists d. split; [exact Hp|apply smem_In; exact D].
  - right. right. apply smem_In. exact Hn.
Qed.

Example coverage_is_not_empty :
  Nat.leb 60 (List.length alloc_entry_points) = true /\ Nat.leb 40 (List.length driven_under_faults) = true /\
  smem "muggle_stack_push" driven_under_faults = true /\ smem "muggle_fast_flow_ctl_init" driven_under_faults = true.
Proof. vm_compute. repeat split; reflexivity. Qed.
