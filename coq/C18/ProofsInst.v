(* C18 — per-instance obligations: every transcription of the (repaired) code is
   accepted by the checker; every transcription of the unchanged defective code
   is rejected, with a concrete fault position as witness. *)
From MV Require Import C18.Model C18.Proofs C18.Instances.

(* the recorded known finding: the API cannot report the failure
   44  muggle_socket_evloop_add_ctx returns void *)
Definition in_known_class_void_add_ctx (id : nat) : bool := Nat.eqb id 44.
Definition in_known_class (id : nat) : bool := in_known_class_void_add_ctx id.

(* the property WITHOUT its "reports failure" clause - every other clause (no crash, nothing leaked, the failed call
   changed nothing, safe to destroy, safe to retry, destroy releases all) is kept; run_scn does not depend on s_reports *)
Definition no_report (sc : scn) : scn :=
  mkscn (s_pre sc) (s_op sc) (s_destroy sc) (s_owns sc) false (s_retains sc) (s_dfail sc) (s_values sc)
        (s_retry sc) (s_cont sc).

(* generic sweeps over a table, for an abstract per-scenario test (kept abstract so that
   no conversion ever unfolds the checker on a variable) *)
Section Sweep.
  Variable W : scn -> bool.
  Variable V : scn -> nat -> bool.
  Definition repaired_ok (p : nat * scn) : bool :=
    orig_id (fst p) || (if in_known_class (fst p) then W (no_report (snd p)) else W (snd p)).
  Definition orig_refuted_b (p : nat * scn) : bool :=
    negb (orig_id (fst p)) || existsb (V (snd p)) (seq 0 16).

  Lemma lookup_in id : forall t sc, lookup id t = Some sc -> In (id, sc) t.
  Proof.
    induction t as [|[k s] t IH]; cbn [lookup]; intros sc H; [discriminate|].
    destruct (Nat.eqb k id) eqn:E.
    - apply Nat.eqb_eq in E. inversion H; subst. left. reflexivity.
    - right. apply IH. exact H.
  Qed.

  Lemma sweep_repaired t : forallb repaired_ok t = true -> forall id sc,
    lookup id t = Some sc -> orig_id id = false ->
    W (if in_known_class id then no_report sc else sc) = true.
  Proof.
    intros T id sc H Ho. apply lookup_in in H.
    rewrite forallb_forall in T. apply T in H.
    unfold repaired_ok in H. cbn [fst snd] in H. rewrite Ho in H. cbn [orb] in H.
    destruct (in_known_class id); exact H.
  Qed.

  Lemma sweep_orig t : forallb orig_refuted_b t = true -> forall id sc,
    lookup id t = Some sc -> orig_id id = true -> exists k, V sc k = true.
  Proof.
    intros T id sc H Ho. apply lookup_in in H.
    rewrite forallb_forall in T. apply T in H.
    unfold orig_refuted_b in H. cbn [fst snd] in H.
    rewrite Ho in H. cbn [negb orb] in H. apply existsb_exists in H. destruct H as [k [_ Hv]].
    exists k. exact Hv.
  Qed.
End Sweep.

Lemma table_repaired_ok : forallb (repaired_ok wf_scn) inst_table = true.
Proof. vm_compute. reflexivity. Qed.

Lemma table_orig_refuted : forallb (orig_refuted_b violates) inst_table = true.
Proof. vm_compute. reflexivity. Qed.

Lemma instances_wf_gen id sc :
  inst_by_id id = Some sc -> orig_id id = false ->
  wf_scn (if in_known_class id then no_report sc else sc) = true.
Proof. exact (sweep_repaired wf_scn inst_table table_repaired_ok id sc). Qed.

Lemma instances_wf id sc :
  inst_by_id id = Some sc -> orig_id id = false -> in_known_class id = false -> wf_scn sc = true.
Proof. intros H1 H2 H3. pose proof (instances_wf_gen id sc H1 H2) as W. rewrite H3 in W. exact W. Qed.

(* P_partial of the known-finding pattern: outside the known classes the full property; INSIDE them everything
   but the "reports failure" clause (no crash, no leak, unchanged, safe to destroy / retry, destroy releases all) *)
Lemma instances_hold_gen id sc f :
  inst_by_id id = Some sc -> orig_id id = false -> holds (if in_known_class id then no_report sc else sc) f.
Proof. intros H1 H2. apply wf_sound. exact (instances_wf_gen id sc H1 H2). Qed.

Lemma instances_hold id sc f :
  inst_by_id id = Some sc -> orig_id id = false -> in_known_class id = false -> holds sc f.
Proof. intros H1 H2 H3. apply wf_sound. exact (instances_wf id sc H1 H2 H3). Qed.

(* the same runs, read without the reporting clause: what the known-class instances still guarantee *)
Lemma known_class_instances_hold id sc f :
  inst_by_id id = Some sc -> in_known_class id = true ->
  let o := run_scn sc f in
  o_bad o = false /\ o_dbad o = false /\ o_dlive o = [] /\
  (hit f (o_att o) = false -> o_rc o = Ok /\ (forall r, In r (o_live o) <-> In r (s_owns sc))) /\
  (hit f (o_att o) = true -> forall r, In r (o_live o) <-> In r (o_base o)).
Proof.
  intros H1 H2. cbv zeta.
  assert (Ho : orig_id id = false).
  { unfold in_known_class, in_known_class_void_add_ctx in H2.
    apply Nat.eqb_eq in H2; subst id; reflexivity. }
  assert (Hr : s_retains sc = false).
  { unfold in_known_class, in_known_class_void_add_ctx in H2.
    apply Nat.eqb_eq in H2; subst id; vm_compute in H1; inversion H1; reflexivity. }
  pose proof (instances_hold_gen id sc f H1 Ho) as Hh. rewrite H2 in Hh.
  unfold holds in Hh. cbv zeta in Hh.
  change (run_scn (no_report sc) f) with (run_scn sc f) in Hh.
  change (s_owns (no_report sc)) with (s_owns sc) in Hh.
  change (s_retains (no_report sc)) with (s_retains sc) in Hh.
  destruct Hh as [H0 Hf].
  destruct (hit f (o_att (run_scn sc f))) eqn:Eh.
  - destruct (Hf eq_refl) as [_ [B [C [D [E _]]]]].
    split; [exact B|]. split; [exact D|]. split; [exact E|]. split; [discriminate|].
    intros _. exact (C Hr).
  - destruct (H0 eq_refl) as [A [B [C [D [E _]]]]].
    split; [exact B|]. split; [exact D|]. split; [exact E|]. split; [|discriminate].
    intros _. split; [exact A|exact C].
Qed.

Lemma orig_instances_refuted id sc :
  inst_by_id id = Some sc -> orig_id id = true -> exists k, ~ holds sc (single k).
Proof.
  intros H Hge.
  destruct (sweep_orig violates inst_table table_orig_refuted id sc H Hge) as [k V].
  exists k. apply violates_not_holds. exact V.
Qed.

(* ---------- every cleanup block of every instance is entered by some single-fault run ---------- *)

Section Cover.
  Variable Lf Rf : scn -> list nat.
  Definition cov_b (p : nat * scn) : bool :=
    forallb (fun l => existsb (Nat.eqb l) dead_labels || existsb (Nat.eqb l) (Rf (snd p))) (Lf (snd p)).
  Lemma sweep_cov t : forallb cov_b t = true -> forall id sc l,
    lookup id t = Some sc -> In l (Lf sc) -> In l dead_labels \/ In l (Rf sc).
  Proof.
    intros T id sc l H Hl. apply (lookup_in id) in H.
    rewrite forallb_forall in T. apply T in H. unfold cov_b in H. cbn [snd] in H.
    rewrite forallb_forall in H. apply H in Hl. apply orb_prop in Hl.
    destruct Hl as [E|E]; apply existsb_exists in E; destruct E as [y [Hy Ey]];
      apply Nat.eqb_eq in Ey; subst y; [left|right]; exact Hy.
  Qed.
End Cover.

Lemma table_labels_covered : forallb (cov_b op_labels reached_labels) inst_table = true.
Proof. vm_compute. reflexivity. Qed.

Lemma labels_all_reached id sc l :
  inst_by_id id = Some sc -> In l (op_labels sc) ->
  In l dead_labels \/ exists f, In f single_runs /\ In l (o_labels (run_scn sc f)).
Proof.
  intros H Hl.
  destruct (sweep_cov op_labels reached_labels inst_table table_labels_covered id sc l H Hl) as [D|R].
  - left. exact D.
  - right. unfold reached_labels in R. apply in_flat_map in R. exact R.
Qed.

(* P_refuted of the known finding: the queue node allocation fails and the void
   function returns normally *)
Lemma void_add_ctx_refuted :
  exists id sc k, in_known_class_void_add_ctx id = true /\ inst_by_id id = Some sc /\
                  ~ holds sc (single k).
Proof.
  exists 44, i_seh_add_ctx, 0. split; [reflexivity|]. split; [reflexivity|].
  apply violates_not_holds. vm_compute. reflexivity.
Qed.

(* muggle_log_complicated_init of the unchanged tree (id 195): the fopen of the time-rotating file fails and the call
   answers 0 (refuted, like every id in 100..199, by table_orig_refuted; this is the named witness) *)
Lemma log_complicated_init_orig_returns_success_on_failed_fopen :
  let o := run_scn i_log_complicated_init_orig (single 0) in
  hit (single 0) (o_att o) = true /\ o_rc o = Ok /\ ~ holds i_log_complicated_init_orig (single 0).
Proof.
  cbv zeta. split; [vm_compute; reflexivity|]. split; [vm_compute; reflexivity|].
  apply violates_not_holds. vm_compute. reflexivity.
Qed.

Lemma log_complicated_init_orig_not_wf : wf_scn i_log_complicated_init_orig = false.
Proof. vm_compute. reflexivity. Qed.

(* the repaired function reports the failed fopen *)
Example log_complicated_init_reports_failed_fopen :
  let o := run_scn i_log_complicated_init (single 0) in
  hit (single 0) (o_att o) = true /\ o_rc o = Fail /\ o_live o = [] /\ o_labels o = [86; 87; 90].
Proof. vm_compute. repeat split; reflexivity. Qed.

(* ---------- named witnesses for the defects of the unchanged code ---------- *)

Lemma channel_init_orig_returns_success_on_failed_alloc :
  let o := run_scn i_chan_mutex_orig (single 0) in
  hit (single 0) (o_att o) = true /\ o_rc o = Ok.
Proof. vm_compute. split; reflexivity. Qed.

Lemma channel_init_orig_not_wf : wf_scn i_chan_mutex_orig = false.
Proof. vm_compute. reflexivity. Qed.

Lemma evloop_new_orig_leaks_evloop :
  let o := run_scn i_evloop_epoll_orig (single 1) in
  o_rc o = Fail /\ o_live o = [0] /\ o_dlive o = [0].
Proof. vm_compute. repeat split; reflexivity. Qed.

Lemma avl_init_orig_destroy_double_free :
  let o := run_scn i_avl_init_orig (single 1) in
  o_rc o = Fail /\ o_live o = [] /\ o_dbad o = true.
Proof. vm_compute. repeat split; reflexivity. Qed.

Lemma queue_init_orig_destroy_crashes_at_first_fault :
  o_dbad (run_scn i_queue_init_orig (single 0)) = true.
Proof. vm_compute. reflexivity. Qed.

Lemma hash_table_init_orig_destroy_crashes_on_nodes_fault :
  o_dbad (run_scn i_ht_init_orig (single 4)) = true.
Proof. vm_compute. reflexivity. Qed.

Lemma double_buffer_init_orig_destroy_double_free :
  o_dbad (run_scn i_dbuf_orig (single 1)) = true.
Proof. vm_compute. reflexivity. Qed.

Lemma ts_pool_init_orig_destroy_double_free :
  o_dbad (run_scn i_ts_orig (single 0)) = true /\ o_dbad (run_scn i_ts_orig (single 1)) = true.
Proof. vm_compute. split; reflexivity. Qed.

Lemma sowr_pool_init_orig_crashes : o_bad (run_scn i_sowr_orig (single 0)) = true.
Proof. vm_compute. reflexivity. Qed.

Lemma ma_ring_orig_hangs_on_failure_and_leaks_on_success :
  o_bad (run_scn i_ma_ring_orig (single 1)) = true /\
  o_bad (run_scn i_ma_ring_orig (single 2)) = true /\
  o_dlive (run_scn i_ma_ring_orig no_fault) = [1].
Proof. vm_compute. repeat split; reflexivity. Qed.

Lemma async_log_orig_crashes_on_payload_fault : o_bad (run_scn i_alog_log_orig (single 1)) = true.
Proof. vm_compute. reflexivity. Qed.

(* ---------- non-vacuity: the theorems talk about runs that really fail / succeed ---------- *)

Example hash_table_init_no_fault :
  let o := run_scn i_ht_init no_fault in o_rc o = Ok /\ o_att o = 5 /\ length (o_live o) = 5 /\ o_dlive o = [].
Proof. vm_compute. repeat split; reflexivity. Qed.

Example hash_table_init_third_fault :
  let o := run_scn i_ht_init (single 2) in
  hit (single 2) (o_att o) = true /\ o_rc o = Fail /\ o_att o = 3 /\ o_live o = [] /\ o_dlive o = [].
Proof. vm_compute. repeat split; reflexivity. Qed.

Example multi_fault_example :
  run_scn i_evloop_epoll_pool (faults_of [3; 5; 8]) = run_scn i_evloop_epoll_pool (single 3).
Proof. vm_compute. reflexivity. Qed.

Example pointer_slot_both_fail :      (* unchecked-then-joint-test pattern: two oracle positions consulted *)
  let o := run_scn i_pointer_slot (faults_of [0; 1]) in o_rc o = Fail /\ o_att o = 2 /\ o_live o = [].
Proof. vm_compute. repeat split; reflexivity. Qed.

Example accept_path_alloc_fault :      (* cb_alloc fails: the accepted descriptor is closed, nothing else changes *)
  let o := run_scn i_seh_on_read_accept (single 0) in
  o_att o = 1 /\ o_labels o = [78] /\ length (o_live o) = length (o_base o) /\ o_dlive o = [].
Proof. vm_compute. repeat split; reflexivity. Qed.

Example pipe_init_one_call_two_fds :
  let o := run_scn i_seh_pipe_init no_fault in o_att o = 1 /\ length (o_live o) = 2 /\ o_dlive o = [].
Proof. vm_compute. repeat split; reflexivity. Qed.

(* ---------- "safe to retry" and continued use are not vacuous ---------- *)

Example stack_push_grow_retry_and_continue :       (* the growth allocation of muggle_stack_push fails *)
  let o := run_scn i_stack_push_grow (single 0) in
  s_retry i_stack_push_grow = true /\ s_cont i_stack_push_grow <> [] /\
  o_rc o = Fail /\ o_kept o = true /\ o_retry_ok o = true /\ o_cont_ok o = true /\ o_rdlive o = [] /\ o_dlive o = [].
Proof. vm_compute. repeat split; try reflexivity. discriminate. Qed.

Example retry_finds_what_destroy_after_failure_does_not :
  (* muggle_double_buffer_init of the unchanged tree: the retry overwrites the dangling pointer (future B is clean),
     the destroy that follows the failure directly double-frees (future A) - both futures are needed *)
  let o := run_scn i_dbuf_orig (single 1) in o_rdbad o = false /\ o_rdlive o = [] /\ o_dbad o = true.
Proof. vm_compute. repeat split; reflexivity. Qed.

Example memory_pool_alloc_grow_retry :
  let o := run_scn i_mpool_alloc_grow (single 2) in
  o_rc o = Fail /\ o_att o = 3 /\ o_kept o = true /\ o_retry_ok o = true /\ o_cont_ok o = true /\
  length (o_clive o) = 4 /\ o_rdlive o = [].
Proof. vm_compute. repeat split; reflexivity. Qed.
