From MV Require Import Lib.ExtractBase C18.Model C18.Instances.
From Coq Require Import ExtrOcamlBasic.
Extraction Language OCaml.
Extraction "c18_model" force_types run_scn wf_scn inst_by_id run_inst dfail_of nvals_of retry_of cont_of orig_id labels_at op_labels_of inst_ids dead_labels.
