(* C18 — allocation failure: a small resource-protocol language for the
   init / grow / insert / destroy functions of the anchored files, its
   interpreter under a fault oracle, and the decidable checker [wf_scn].

   A program is a list of statements following the C text: every
   acquisition (malloc/calloc/realloc/aligned_alloc/eventfd/epoll_create/
   pipe/socket) is an [Alloc r]; the C code's reaction ("if (p == NULL) {...}")
   is written as it stands with [IfNull]; a cleanup label is a Gallina
   definition of its block (ending in [Ret]) spliced where the C code says
   [goto label].  Pointer variables are tracked (NULL / pointing to a live
   block / dangling), so that "free(p) without p = NULL, later destroy frees
   it again" is visible.  Definitions only; proofs are in Proofs.v. *)
From Coq Require Export List Arith Bool Lia.
Export ListNotations.

Definition res := nat.

Inductive rc := Ok | Fail.
Inductive pst := PNull | PLive | PDang.

Inductive stmt :=
| Alloc (r : res)            (* p_r = malloc(..) / fd_r = eventfd(..): one acquisition attempt *)
| Alloc2 (r1 r2 : res)       (* pipe(fds): ONE attempt that yields two descriptors (or none) *)
| Get (r : res)              (* accept(..): a descriptor obtained by a call that is tracked but never failed *)
| Lbl (n : nat)              (* marks the entry of cleanup block / failure handler n (recorded, no effect) *)
| Free (r : res)             (* free(p_r) / close(fd_r): NULL -> nothing; live -> released, p_r dangles; dangling -> double free *)
| SetNull (r : res)          (* p_r = NULL *)
| Mark (r : res)             (* scalar field / flag / pointer to embedded object := non-zero (no acquisition) *)
| Use (r : res)              (* the code dereferences p_r: NULL or dangling -> crash *)
| Move (dst src : res)       (* p_dst = p_src (ownership moves to the field dst; local src goes out of scope) *)
| Stuck                      (* unconditional crash / endless wait *)
| SetRet (c : rc)            (* ret = c *)
| Ret (s : option rc)        (* return constant, or (None) return ret *)
| IfNull (rs : list res) (b : list stmt)   (* if (p1 == NULL || p2 == NULL ...) { b } *)
| IfSet (r : res) (b : list stmt)          (* if (p_r) { b } *)
| Call (callee : list stmt) (assign : bool) (onfail : list stmt).
                             (* [ret =] callee(..); if (failed) { onfail } *)

Record st := mkst {
  cnt : nat;                 (* acquisition attempts so far *)
  live : list res;           (* acquired and not yet released *)
  pv : res -> pst;           (* pointer variables *)
  retv : rc;                 (* the function's `ret` variable *)
  fin : option rc;           (* Some c once the function has returned c *)
  bad : bool;                (* crash / double free / hang happened *)
  trace : list nat           (* labels of the cleanup blocks entered, most recent first *)
}.

Definition upd (m : res -> pst) (r : res) (v : pst) : res -> pst :=
  fun r' => if Nat.eqb r' r then v else m r'.
Definition is_null (p : pst) : bool := match p with PNull => true | _ => false end.
Definition is_some {A} (o : option A) : bool := match o with Some _ => true | None => false end.
Definition stopped (x : st) : bool := bad x || is_some (fin x).
Definition lost (r : res) : res := 1000 + r.
Definition rename (a b : res) (l : list res) : list res :=
  map (fun r => if Nat.eqb r a then b else r) l.
Definition rc_eqb (a b : rc) : bool :=
  match a, b with Ok, Ok | Fail, Fail => true | _, _ => false end.

Definition set_bad (x : st) : st := mkst (cnt x) (live x) (pv x) (retv x) (fin x) true (trace x).

Fixpoint exec (f : nat -> bool) (s : stmt) (x : st) {struct s} : st :=
  let fix go (l : list stmt) (x : st) {struct l} : st :=
    match l with
    | [] => x
    | s :: t => if stopped x then x else go t (exec f s x)
    end in
  match s with
  | Alloc r =>
      if f (cnt x)
      then mkst (S (cnt x)) (live x) (upd (pv x) r PNull) (retv x) (fin x) (bad x) (trace x)
      else mkst (S (cnt x))
                (r :: (match pv x r with PLive => rename r (lost r) (live x) | _ => live x end))
                (upd (pv x) r PLive) (retv x) (fin x) (bad x) (trace x)
  | Alloc2 r1 r2 =>
      if f (cnt x)
      then mkst (S (cnt x)) (live x) (upd (upd (pv x) r1 PNull) r2 PNull) (retv x) (fin x) (bad x) (trace x)
      else mkst (S (cnt x)) (r1 :: r2 :: live x) (upd (upd (pv x) r1 PLive) r2 PLive) (retv x) (fin x) (bad x) (trace x)
  | Get r => mkst (cnt x) (r :: live x) (upd (pv x) r PLive) (retv x) (fin x) (bad x) (trace x)
  | Lbl n => mkst (cnt x) (live x) (pv x) (retv x) (fin x) (bad x) (n :: trace x)
  | Free r =>
      match pv x r with
      | PNull => x
      | PLive => mkst (cnt x) (remove Nat.eq_dec r (live x)) (upd (pv x) r PDang) (retv x) (fin x) (bad x) (trace x)
      | PDang => set_bad x
      end
  | SetNull r => mkst (cnt x) (live x) (upd (pv x) r PNull) (retv x) (fin x) (bad x) (trace x)
  | Mark r => mkst (cnt x) (live x) (upd (pv x) r PDang) (retv x) (fin x) (bad x) (trace x)
  | Use r => match pv x r with PLive => x | _ => set_bad x end
  | Move d s0 =>
      let l1 := match pv x d with PLive => rename d (lost d) (live x) | _ => live x end in
      mkst (cnt x) (rename s0 d l1) (upd (upd (pv x) d (pv x s0)) s0 PNull) (retv x) (fin x) (bad x) (trace x)
  | Stuck => set_bad x
  | SetRet c => mkst (cnt x) (live x) (pv x) c (fin x) (bad x) (trace x)
  | Ret o => mkst (cnt x) (live x) (pv x) (retv x)
                  (Some (match o with Some c => c | None => retv x end)) (bad x) (trace x)
  | IfNull rs b => if existsb (fun r => is_null (pv x r)) rs then go b x else x
  | IfSet r b => if is_null (pv x r) then x else go b x
  | Call c asg onf =>
      let y := go c (mkst (cnt x) (live x) (pv x) Ok None (bad x) (trace x)) in
      let crc := match fin y with Some c0 => c0 | None => Ok end in
      let z := mkst (cnt y) (live y) (pv y) (if asg then crc else retv x) (fin x) (bad y) (trace y) in
      match crc with Fail => go onf z | Ok => z end
  end.

Fixpoint exec_list (f : nat -> bool) (l : list stmt) (x : st) : st :=
  match l with
  | [] => x
  | s :: t => if stopped x then x else exec_list f t (exec f s x)
  end.

(* the labels occurring syntactically in a program *)
Fixpoint labels_of (s : stmt) : list nat :=
  let fix go (l : list stmt) : list nat :=
    match l with [] => [] | s0 :: t => labels_of s0 ++ go t end in
  match s with
  | Lbl n => [n]
  | IfNull _ b => go b
  | IfSet _ b => go b
  | Call c _ o => go c ++ go o
  | _ => []
  end.
Definition labels_of_list (l : list stmt) : list nat := flat_map labels_of l.

(* [Mark] uses PDang as "non-null, not a heap block of ours": IfSet runs, Free
   or Use of it would be flagged. *)

Definition no_fault : nat -> bool := fun _ => false.
Definition single (k : nat) : nat -> bool := fun i => Nat.eqb i k.
Definition of_prefix (p : list bool) : nat -> bool := fun i => nth i p false.

Definition init_st : st := mkst 0 [] (fun _ => PNull) Ok None false [].

(* One scenario = object pre-built without faults, the operation under the
   fault oracle, then the destroy function. *)
Record scn := mkscn {
  s_pre : list stmt;         (* constructor(s) run first, no faults, not counted *)
  s_op : list stmt;          (* the operation under test *)
  s_destroy : list stmt;     (* the matching destroy / delete / cleanup *)
  s_owns : list res;         (* what the object owns after a successful s_op *)
  s_reports : bool;          (* false: the C function is void by design (logging) *)
  s_retains : bool;          (* true: a failed op may keep blocks that the object owns (trie prefix nodes) *)
  s_dfail : bool;            (* true: destroy is also called after a reported failure ("safe to destroy") *)
  s_values : list res;       (* caller-owned values stored in the container: destroy's free callback must
                                release each exactly once *)
  s_retry : bool;            (* true: after a reported failure the operation is retried without faults
                                ("safe to retry") before destroy runs *)
  s_cont : list stmt         (* continued use: once the operation (or its retry) has succeeded the object is used
                                further without faults - more pushes / inserts / allocs up to and beyond the old
                                capacity - before destroy runs; [] = no continuation *)
}.

Record outcome := mkout {
  o_rc : rc;                 (* return class of the operation *)
  o_att : nat;               (* acquisition attempts made by the operation *)
  o_live : list res;         (* live after the operation *)
  o_bad : bool;              (* the operation crashed / hung / double-freed *)
  o_base : list res;         (* live before the operation *)
  o_dlive : list res;        (* future A: live after the destroy that follows the operation directly *)
  o_dbad : bool;             (* future A: destroy (or the continued use before it) crashed / double-freed *)
  o_labels : list nat;       (* cleanup blocks entered by the operation, in order *)
  o_retry_ok : bool;         (* no retry was due, or the retry succeeded without crashing *)
  o_freed : nat;             (* how many of s_values the destroy phase released *)
  o_kept : bool;             (* every resource that was live before the operation is still live after it AND is
                                still pointed to by its field ("the failed call changed nothing") *)
  o_cont_ok : bool;          (* no continuation was due, or it returned success without crashing *)
  o_clive : list res;        (* live after the continuation (= after the operation / its retry when none ran) *)
  o_rdlive : list res;       (* future B (failure, retry, continued use, destroy): live at the end *)
  o_rdbad : bool;            (* future B crashed / double-freed *)
  o_rfreed : nat             (* future B: how many of s_values its destroy released *)
}.

Definition restart (x : st) : st := mkst 0 (live x) (pv x) Ok None (bad x) [].

Definition count_in (vals l : list res) : nat :=
  length (filter (fun r => existsb (Nat.eqb r) vals) l).

Definition is_live (p : pst) : bool := match p with PLive => true | _ => false end.
Definition no_stmts (l : list stmt) : bool := match l with [] => true | _ => false end.

Definition rc_of (x : st) : rc := match fin x with Some c => c | None => Ok end.
Definition is_ok (c : rc) : bool := match c with Ok => true | Fail => false end.
Definition fresh (x : st) : st := mkst (cnt x) (live x) (pv x) Ok None (bad x) [].

(* After the operation TWO futures are followed (two separate runs of the implementation):
   A  the object is destroyed at once (after a success: once the continued use is over) - "safe to destroy";
   B  only after a reported failure, when s_retry: the operation is retried without faults, the object is used
      further (s_cont), then destroyed - "safe to retry". *)
Definition run_scn (sc : scn) (f : nat -> bool) : outcome :=
  let x0 := restart (exec_list no_fault (s_pre sc) init_st) in
  let x1 := exec_list f (s_op sc) x0 in
  let rc1 := rc_of x1 in
  let has_cont := negb (no_stmts (s_cont sc)) in
  (* future A *)
  let contA := is_ok rc1 && has_cont in
  let xcA := if contA then exec_list no_fault (s_cont sc) (fresh x1) else x1 in
  let xA := if (is_ok rc1 || s_dfail sc) then exec_list no_fault (s_destroy sc) (fresh xcA) else xcA in
  (* future B *)
  let retry := negb (is_ok rc1) && s_retry sc in
  let xr := if retry then exec_list no_fault (s_op sc) (fresh x1) else x1 in
  let rcr := rc_of xr in
  let contB := retry && is_ok rcr && has_cont in
  let xcB := if contB then exec_list no_fault (s_cont sc) (fresh xr) else xr in
  let xB := if retry && (is_ok rcr || s_dfail sc) then exec_list no_fault (s_destroy sc) (fresh xcB) else xcB in
  let xc := if retry then xcB else xcA in
  mkout rc1 (cnt x1) (live x1) (bad x1) (live x0) (live xA) (bad xA) (rev (trace x1))
        (if retry then is_ok rcr && negb (bad xr) else true)
        (count_in (s_values sc) (live xcA) - count_in (s_values sc) (live xA))
        (forallb (fun r => existsb (Nat.eqb r) (live x1) && is_live (pv x1 r)) (live x0))
        (if contA || contB then is_ok (rc_of xc) && negb (bad xc) else true)
        (live xc)
        (if retry then live xB else []) (if retry then bad xB else false)
        (count_in (s_values sc) (live xcB) - count_in (s_values sc) (live xB)).

(* ---------- decision-tree exploration of ALL fault functions ---------- *)

Section Explore.
  Variable att_of : (nat -> bool) -> nat.   (* attempts made under an oracle *)

  Fixpoint explore (fuel : nat) (p : list bool) : option (list (list bool)) :=
    match fuel with
    | 0 => None
    | S fu =>
        if att_of (of_prefix p) <=? length p then Some [p]
        else match explore fu (p ++ [false]), explore fu (p ++ [true]) with
             | Some a, Some b => Some (a ++ b)
             | _, _ => None
             end
    end.
End Explore.

Definition explore_fuel : nat := 48.

Definition leaves (sc : scn) : option (list (list bool)) :=
  explore (fun f => o_att (run_scn sc f)) explore_fuel [].

(* ---------- the property, as a boolean on one outcome ---------- *)

Definition incl_b (a b : list res) : bool := forallb (fun r => existsb (Nat.eqb r) b) a.
Definition same_set (a b : list res) : bool := incl_b a b && incl_b b a.
Definition is_nil (l : list res) : bool := match l with [] => true | _ => false end.

Definition hit (f : nat -> bool) (n : nat) : bool := existsb f (seq 0 n).
Definition first_hit (f : nat -> bool) (n : nat) : option nat := find f (seq 0 n).

Definition freed_all (sc : scn) (o : outcome) : bool := Nat.eqb (o_freed o) (length (s_values sc)).
Definition rfreed_all (sc : scn) (o : outcome) : bool := Nat.eqb (o_rfreed o) (length (s_values sc)).

Definition good_ok (sc : scn) (o : outcome) : bool :=
  rc_eqb (o_rc o) Ok && negb (o_bad o) && same_set (o_live o) (s_owns sc)
  && negb (o_dbad o) && is_nil (o_dlive o) && freed_all sc o && o_cont_ok o.

Definition good_fail (sc : scn) (o : outcome) : bool :=
  (if s_reports sc then rc_eqb (o_rc o) Fail else true) && negb (o_bad o)
  && (if s_retains sc then true else same_set (o_live o) (o_base o))
  && negb (o_dbad o) && is_nil (o_dlive o)
  && (if s_retry sc then o_retry_ok o && rfreed_all sc o && negb (o_rdbad o) && is_nil (o_rdlive o) else true)
  && (if s_retains sc then true else o_kept o) && o_cont_ok o
  && (if s_dfail sc then freed_all sc o else true).

Definition good (sc : scn) (f : nat -> bool) (o : outcome) : bool :=
  if hit f (o_att o) then good_fail sc o else good_ok sc o.

Fixpoint list_eqb (a b : list res) : bool :=
  match a, b with
  | [], [] => true
  | x :: a', y :: b' => Nat.eqb x y && list_eqb a' b'
  | _, _ => false
  end.

Definition out_eqb (a b : outcome) : bool :=
  rc_eqb (o_rc a) (o_rc b) && Nat.eqb (o_att a) (o_att b) && list_eqb (o_live a) (o_live b)
  && Bool.eqb (o_bad a) (o_bad b) && list_eqb (o_base a) (o_base b)
  && list_eqb (o_dlive a) (o_dlive b) && Bool.eqb (o_dbad a) (o_dbad b)
  && list_eqb (o_labels a) (o_labels b) && Bool.eqb (o_retry_ok a) (o_retry_ok b)
  && Nat.eqb (o_freed a) (o_freed b) && Bool.eqb (o_kept a) (o_kept b)
  && Bool.eqb (o_cont_ok a) (o_cont_ok b) && list_eqb (o_clive a) (o_clive b)
  && list_eqb (o_rdlive a) (o_rdlive b) && Bool.eqb (o_rdbad a) (o_rdbad b) && Nat.eqb (o_rfreed a) (o_rfreed b).

(* behaviour under the leaf's oracle equals behaviour under its first hit alone *)
Definition reduces (sc : scn) (q : list bool) : bool :=
  let o := run_scn sc (of_prefix q) in
  match first_hit (of_prefix q) (o_att o) with
  | Some k => out_eqb (run_scn sc (single k)) o
  | None => true
  end.

Definition wf_scn (sc : scn) : bool :=
  match leaves sc with
  | Some L => forallb (fun q => good sc (of_prefix q) (run_scn sc (of_prefix q)) && reduces sc q) L
  | None => false
  end.

(* the defect class used for recorded known findings: the API cannot report *)
Definition violates (sc : scn) (k : nat) : bool := negb (good sc (single k) (run_scn sc (single k))).
